import Hertz.Proofs.Http1
/-!
# Prefix stability of the request-head parser (C02)

`parseReqHead dn b ≠ needMore → parseReqHead dn (b ++ x) = parseReqHead dn b`.
-/
namespace Hertz.H1
open Hertz

/-! ### indexByte -/

theorem indexByte_lt (c : UInt8) : ∀ (b : Bytes) (n : Nat), indexByte c b = some n → n < b.length
  | [], _, h => by simp [indexByte] at h
  | y :: t, n, h => by
    simp only [indexByte] at h
    split at h
    · simp at h; subst h; simp
    · cases hi : indexByte c t with
      | none => simp [hi] at h
      | some m =>
        have := indexByte_lt c t m hi
        simp [hi] at h; subst h; simp; omega

/-- the byte at the reported position is `c`: the buffer splits there -/
theorem indexByte_split (c : UInt8) : ∀ (b : Bytes) (n : Nat), indexByte c b = some n →
    b = b.take n ++ c :: b.drop (n + 1)
  | [], _, h => by simp [indexByte] at h
  | y :: t, n, h => by
    simp only [indexByte] at h
    split at h
    · rename_i hy; simp at h; subst h; simp [hy]
    · cases hi : indexByte c t with
      | none => simp [hi] at h
      | some m =>
        have := indexByte_split c t m hi
        simp [hi] at h; subst h
        simp only [List.take_succ_cons, List.drop_succ_cons, List.cons_append, List.cons.injEq, true_and]
        exact this

/-- no earlier occurrence -/
theorem indexByte_take_ne (c : UInt8) : ∀ (b : Bytes) (n : Nat), indexByte c b = some n →
    ∀ y ∈ b.take n, y ≠ c
  | [], _, h => by simp [indexByte] at h
  | y :: t, n, h => by
    simp only [indexByte] at h
    split at h
    · simp at h; subst h; simp
    · rename_i hy
      cases hi : indexByte c t with
      | none => simp [hi] at h
      | some m =>
        have := indexByte_take_ne c t m hi
        simp [hi] at h; subst h
        intro z hz
        simp only [List.take_succ_cons, List.mem_cons] at hz
        rcases hz with rfl | hz
        · exact hy
        · exact this z hz

theorem indexByte_drop (c : UInt8) : ∀ (b : Bytes) (n m : Nat), indexByte c b = some n → m ≤ n →
    indexByte c (b.drop m) = some (n - m)
  | b, n, 0, h, _ => by simpa using h
  | [], _, _ + 1, h, _ => by simp [indexByte] at h
  | y :: t, n, m + 1, h, hm => by
    simp only [indexByte] at h
    split at h
    · simp at h; omega
    · cases hi : indexByte c t with
      | none => simp [hi] at h
      | some k =>
        simp [hi] at h; subst h
        have := indexByte_drop c t k m hi (by omega)
        simpa using this

/-! ### first line -/

theorem nextLine_append (b x line rest : Bytes) (h : nextLine b = some (line, rest)) :
    nextLine (b ++ x) = some (line, rest ++ x) ∧ rest.length < b.length ∧
      (b ++ x).length - (rest ++ x).length = b.length - rest.length := by
  unfold nextLine at h ⊢
  cases hi : indexByte 10 b with
  | none => simp [hi] at h
  | some n =>
    have hlt := indexByte_lt 10 b n hi
    rw [indexByte_append 10 b x n hi]
    simp only [hi, Option.some.injEq, Prod.mk.injEq] at h ⊢
    obtain ⟨h1, h2⟩ := h
    have ht : List.take n (b ++ x) = List.take n b := by
      rw [List.take_append_of_le_length (by omega)]
    have hd : List.drop (n + 1) (b ++ x) = List.drop (n + 1) b ++ x := by
      rw [List.drop_append_of_le_length (by omega)]
    rw [ht, hd, h1, ← h2]
    simp only [List.length_append, List.length_drop, true_and]
    omega

theorem parseFirstLineAux_err : ∀ (fuel : Nat) (b : Bytes) (c : Nat) (e : HeadErr),
    parseFirstLineAux fuel b c = .error e → e = .needMore
  | 0, _, _, e, h => by simp [parseFirstLineAux] at h; exact h.symm
  | fuel + 1, b, c, e, h => by
    unfold parseFirstLineAux at h
    cases hn : nextLine b with
    | none => simp [hn] at h; exact h.symm
    | some p =>
      obtain ⟨line, rest⟩ := p
      simp only [hn] at h
      split at h
      · exact parseFirstLineAux_err fuel _ _ e h
      · simp at h

theorem parseFirstLineAux_le : ∀ (fuel : Nat) (b : Bytes) (c : Nat) (line : Bytes) (m : Nat),
    parseFirstLineAux fuel b c = .ok (line, m) → m ≤ c + b.length
  | 0, _, _, _, _, h => by simp [parseFirstLineAux] at h
  | fuel + 1, b, c, line, m, h => by
    unfold parseFirstLineAux at h
    cases hn : nextLine b with
    | none => simp [hn] at h
    | some p =>
      obtain ⟨l, rest⟩ := p
      have hlt := (nextLine_append b [] l rest hn).2.1
      simp only [hn] at h
      split at h
      · have := parseFirstLineAux_le fuel _ _ line m h
        omega
      · simp only [Except.ok.injEq, Prod.mk.injEq] at h
        omega

theorem parseFirstLineAux_pos : ∀ (fuel : Nat) (b : Bytes) (c : Nat) (line : Bytes) (m : Nat),
    parseFirstLineAux fuel b c = .ok (line, m) → c < m
  | 0, _, _, _, _, h => by simp [parseFirstLineAux] at h
  | fuel + 1, b, c, line, m, h => by
    unfold parseFirstLineAux at h
    cases hn : nextLine b with
    | none => simp [hn] at h
    | some p =>
      obtain ⟨l, rest⟩ := p
      have hlt := (nextLine_append b [] l rest hn).2.1
      simp only [hn] at h
      split at h
      · have := parseFirstLineAux_pos fuel _ _ line m h
        omega
      · simp only [Except.ok.injEq, Prod.mk.injEq] at h
        omega

theorem parseFirstLineAux_append : ∀ (fuel fuel' : Nat) (b x : Bytes) (c : Nat) (p : Bytes × Nat),
    parseFirstLineAux fuel b c = .ok p → fuel ≤ fuel' → parseFirstLineAux fuel' (b ++ x) c = .ok p
  | 0, _, _, _, _, _, h, _ => by simp [parseFirstLineAux] at h
  | fuel + 1, 0, _, _, _, _, _, hf => by omega
  | fuel + 1, fuel' + 1, b, x, c, p, h, hf => by
    unfold parseFirstLineAux at h ⊢
    cases hn : nextLine b with
    | none => simp [hn] at h
    | some q =>
      obtain ⟨l, rest⟩ := q
      obtain ⟨h1, _, h3⟩ := nextLine_append b x l rest hn
      simp only [hn] at h
      simp only [h1, h3]
      split
      · rename_i he
        simp only [he, if_true] at h
        exact parseFirstLineAux_append fuel fuel' rest x _ p h (by omega)
      · rename_i he
        simpa [he] using h

theorem parseFirstLine_append (b x : Bytes) (r : Except HeadErr (ReqHead × Nat))
    (h : parseFirstLine b = r) (hr : r ≠ .error .needMore) : parseFirstLine (b ++ x) = r := by
  unfold parseFirstLine at h ⊢
  cases ha : parseFirstLineAux (b.length + 1) b 0 with
  | error e =>
    have := parseFirstLineAux_err _ _ _ e ha
    subst this
    simp [ha, bind, Except.bind] at h
    exact absurd h.symm hr
  | ok p =>
    have := parseFirstLineAux_append (b.length + 1) ((b ++ x).length + 1) b x 0 p ha (by simp)
    rw [this]
    rw [ha] at h
    exact h

theorem parseFirstLine_le (b : Bytes) (hd : ReqHead) (m : Nat) (h : parseFirstLine b = .ok (hd, m)) :
    m ≤ b.length := by
  unfold parseFirstLine at h
  cases ha : parseFirstLineAux (b.length + 1) b 0 with
  | error e => simp [ha, bind, Except.bind] at h
  | ok p =>
    obtain ⟨line, c⟩ := p
    have hle := parseFirstLineAux_le _ _ _ _ _ ha
    simp only [ha, bind, Except.bind] at h
    split at h
    · simp at h
    · simp at h
    · split at h
      · simp only [Except.ok.injEq, Prod.mk.injEq] at h; omega
      · simp at h
      · simp only [Except.ok.injEq, Prod.mk.injEq] at h; omega

/-! ### the blank line that ends the header block -/

/-- the text, read from a line start, contains the blank line (`ext.ReadRawHeaders` succeeds) -/
def HasBlank (B : Bytes) : Prop := (rawHeadersAux 0 false B).isSome = true
/-- the text, read from inside a line that is already known not to be blank, contains the blank line -/
def Mid (B : Bytes) : Prop := (rawHeadersAux 2 false B).isSome = true

theorem rawAux_nonblank : ∀ (L : Bytes) (l : Nat) (cr : Bool), (2 ≤ l ∨ (l = 1 ∧ cr = false)) →
    (rawHeadersAux l cr L).isSome = (rawHeadersAux 2 false L).isSome
  | [], _, _, _ => by simp [rawHeadersAux]
  | c :: t, l, cr, h => by
    simp only [rawHeadersAux]
    by_cases hc : c = 10
    · have h1 : ¬ (l = 0 ∨ (l = 1 ∧ cr = true)) := by
        rcases h with h | ⟨h, h'⟩
        · omega
        · simp [h, h']
      simp [hc, h1]
    · simp only [hc, if_false, Option.isSome_map]
      rw [rawAux_nonblank t (l + 1) _ (by omega), rawAux_nonblank t 3 _ (by omega)]

theorem mid_cons (c : UInt8) (t : Bytes) (hc : c ≠ 10) : Mid (c :: t) ↔ Mid t := by
  unfold Mid
  simp only [rawHeadersAux, hc, if_false, Option.isSome_map]
  rw [rawAux_nonblank t 3 _ (by omega)]

theorem mid_lf (t : Bytes) : Mid (10 :: t) ↔ HasBlank t := by
  unfold Mid HasBlank
  simp [rawHeadersAux]

theorem not_hasBlank_nil : ¬ HasBlank [] := by simp [HasBlank, rawHeadersAux]
theorem not_mid_nil : ¬ Mid [] := by simp [Mid, rawHeadersAux]

/-- after the colon of a header line we are inside a non-blank line -/
theorem mid_after_colon : ∀ (L : Bytes) (l : Nat) (cr : Bool) (n x : Nat),
    (rawHeadersAux l cr L).isSome = true → indexByte 58 L = some n → indexByte 10 L = some x → n < x →
    Mid (L.drop (n + 1))
  | [], _, _, _, _, _, h, _, _ => by simp [indexByte] at h
  | c :: t, l, cr, n, x, hb, hn, hx, hlt => by
    simp only [indexByte] at hn hx
    by_cases h10 : c = 10
    · simp [h10] at hx; omega
    · simp only [h10, if_false] at hx
      simp only [rawHeadersAux, h10, if_false, Option.isSome_map] at hb
      by_cases h58 : c = 58
      · simp [h58] at hn; subst hn
        simp only [Nat.zero_add, List.drop_succ_cons, List.drop_zero]
        unfold Mid
        rw [← rawAux_nonblank t (l + 1) (l == 0 && c == 13) (by
          by_cases hl : l = 0
          · right; subst h58; simp [hl]
          · left; omega)]
        exact hb
      · simp only [h58, if_false] at hn
        cases hn' : indexByte 58 t with
        | none => simp [hn'] at hn
        | some n' =>
          cases hx' : indexByte 10 t with
          | none => simp [hx'] at hx
          | some x' =>
            simp [hn'] at hn; simp [hx'] at hx; subst hn; subst hx
            simp only [List.drop_succ_cons]
            exact mid_after_colon t _ _ n' x' hb hn' hx' (by omega)

theorem isOWS_ne_lf (c : UInt8) (h : isOWS c = true) : c ≠ 10 := by
  intro hc; subst hc; revert h; decide

theorem mid_dropSpaces : ∀ (L : Bytes), Mid L → Mid (L.drop (L.takeWhile isOWS).length)
  | [], h => by simpa using h
  | c :: t, h => by
    cases hc : isOWS c with
    | true =>
      simp only [List.takeWhile_cons, hc, if_true, List.length_cons, List.drop_succ_cons]
      exact mid_dropSpaces t ((mid_cons c t (isOWS_ne_lf c hc)).mp h)
    | false => simpa [List.takeWhile_cons, hc] using h

theorem mid_after_lf : ∀ (L : Bytes) (j : Nat), Mid L → indexByte 10 L = some j → HasBlank (L.drop (j + 1))
  | [], _, _, h => by simp [indexByte] at h
  | c :: t, j, hm, hj => by
    simp only [indexByte] at hj
    by_cases hc : c = 10
    · subst hc
      simp at hj; subst hj
      simpa using (mid_lf t).mp hm
    · simp only [hc, if_false] at hj
      cases hj' : indexByte 10 t with
      | none => simp [hj'] at hj
      | some j' =>
        simp [hj'] at hj; subst hj
        simp only [List.drop_succ_cons]
        exact mid_after_lf t j' ((mid_cons c t hc).mp hm) hj'

/-- a line that starts with a blank or a tab is not the blank line -/
theorem hasBlank_cons_mid (c : UInt8) (t : Bytes) (hc : c = 32 ∨ c = 9) : HasBlank (c :: t) ↔ Mid t := by
  unfold HasBlank Mid
  have h10 : c ≠ 10 := by rcases hc with rfl | rfl <;> decide
  have h13 : (c == 13) = false := by rcases hc with rfl | rfl <;> decide
  simp only [rawHeadersAux, h10, if_false, Option.isSome_map]
  rw [rawAux_nonblank t 1 _ (by right; simp [h13])]

/-! ### the obs-fold look-ahead -/

theorem contAux_append (x : Bytes) : ∀ (S : Bytes) (cm cur : Nat),
    (HasBlank S → contAux cm cur false (S ++ x) = contAux cm cur false S) ∧
    (Mid S → contAux cm cur true (S ++ x) = contAux cm cur true S)
  | [], _, _ => ⟨fun h => absurd h not_hasBlank_nil, fun h => absurd h not_mid_nil⟩
  | c :: t, cm, cur => by
    constructor
    · intro h
      simp only [List.cons_append, contAux, Bool.not_false, if_true]
      by_cases hc : c = 32 ∨ c = 9
      · simp only [hc, if_true]
        exact (contAux_append x t cm 1).2 ((hasBlank_cons_mid c t hc).mp h)
      · simp only [hc, if_false]
    · intro h
      simp only [List.cons_append, contAux, Bool.not_true, Bool.false_eq_true, if_false]
      by_cases h58 : c = 58
      · simp only [h58, if_true]
      · simp only [h58, if_false]
        by_cases h10 : c = 10
        · subst h10
          simp only [if_true]
          exact (contAux_append x t _ 0).1 ((mid_lf t).mp h)
        · simp only [h10, if_false]
          exact (contAux_append x t cm _).2 ((mid_cons c t h10).mp h)

/-- `e` bytes of `S` end just after a line feed -/
def LFBefore (S : Bytes) (e : Nat) : Prop := ∃ P R, S = P ++ 10 :: R ∧ e = P.length + 1

theorem LFBefore_cons (c : UInt8) (S : Bytes) (e : Nat) (h : LFBefore S e) : LFBefore (c :: S) (e + 1) := by
  obtain ⟨P, R, h1, h2⟩ := h
  exact ⟨c :: P, R, by simp [h1], by simp [h2]⟩

theorem LFBefore_le (S : Bytes) (e : Nat) (h : LFBefore S e) : e ≤ S.length := by
  obtain ⟨P, R, h1, h2⟩ := h
  subst h1; simp; omega

theorem LFBefore_drop (S : Bytes) (e : Nat) (h : LFBefore S e) :
    ∃ P, S = P ++ 10 :: S.drop e ∧ e = P.length + 1 := by
  obtain ⟨P, R, h1, h2⟩ := h
  refine ⟨P, ?_, h2⟩
  subst h1; subst h2
  have : List.drop (P.length + 1) (P ++ 10 :: R) = R := by
    have : P.length + 1 = (P ++ [10]).length := by simp
    rw [show P ++ 10 :: R = (P ++ [10]) ++ R by simp, this, List.drop_left]
  rw [this]

theorem contAux_shape : ∀ (S : Bytes) (cm cur : Nat),
    (∃ e, contAux cm cur false S = cm + e ∧ (e = 0 ∨ LFBefore S e) ∧ (HasBlank S → HasBlank (S.drop e))) ∧
    (contAux cm cur true S = cm ∨
      ∃ e, contAux cm cur true S = cm + cur + e ∧ LFBefore S e ∧ (Mid S → HasBlank (S.drop e)))
  | [], cm, cur => ⟨⟨0, by simp [contAux], Or.inl rfl, fun h => h⟩, Or.inl (by simp [contAux])⟩
  | c :: t, cm, cur => by
    constructor
    · simp only [contAux, Bool.not_false, if_true]
      by_cases hc : c = 32 ∨ c = 9
      · simp only [hc, if_true]
        rcases (contAux_shape t cm 1).2 with h | ⟨e, h1, h2, h3⟩
        · exact ⟨0, by simpa using h, Or.inl rfl, fun h => h⟩
        · refine ⟨e + 1, by rw [h1]; omega, Or.inr (LFBefore_cons c t e h2), fun hb => ?_⟩
          simpa using h3 ((hasBlank_cons_mid c t hc).mp hb)
      · simp only [hc, if_false]
        exact ⟨0, rfl, Or.inl rfl, fun h => h⟩
    · simp only [contAux, Bool.not_true, Bool.false_eq_true, if_false]
      by_cases h58 : c = 58
      · simp only [h58, if_true]; exact Or.inl trivial
      · simp only [h58, if_false]
        by_cases h10 : c = 10
        · subst h10
          simp only [if_true]
          obtain ⟨e, h1, h2, h3⟩ := (contAux_shape t (cm + cur + 1) 0).1
          refine Or.inr ⟨e + 1, by rw [h1]; omega, ?_, fun hm => ?_⟩
          · rcases h2 with rfl | h2
            · exact ⟨[], t, rfl, rfl⟩
            · exact LFBefore_cons 10 t e h2
          · simpa using h3 ((mid_lf t).mp hm)
        · simp only [h10, if_false]
          rcases (contAux_shape t cm (cur + 1)).2 with h | ⟨e, h1, h2, h3⟩
          · exact Or.inl h
          · refine Or.inr ⟨e + 1, by rw [h1]; omega, LFBefore_cons c t e h2, fun hm => ?_⟩
            simpa using h3 ((mid_cons c t h10).mp hm)

/-- summary for the top-level call -/
theorem contExtra_spec (S : Bytes) :
    (contExtra S = 0 ∨ LFBefore S (contExtra S)) ∧ contExtra S ≤ S.length ∧
    (HasBlank S → HasBlank (S.drop (contExtra S)) ∧ ∀ x, contExtra (S ++ x) = contExtra S) := by
  obtain ⟨e, h1, h2, h3⟩ := (contAux_shape S 0 0).1
  have he : contExtra S = e := by simpa [contExtra] using h1
  rw [he]
  refine ⟨h2, ?_, fun hb => ⟨h3 hb, fun x => ?_⟩⟩
  · rcases h2 with rfl | h2
    · omega
    · exact LFBefore_le S e h2
  · have := (contAux_append x S 0 0).1 hb
    unfold contExtra
    rw [this]; exact h1.trans (by omega)

/-! ### one call of the header scanner, restated in named parts -/

theorem indexByte_get (c : UInt8) (b : Bytes) (n : Nat) (h : indexByte c b = some n) : b[n]? = some c := by
  have hs := indexByte_split c b n h
  have hl := indexByte_lt c b n h
  rw [hs, List.getElem?_append_right (by simp; omega)]
  simp [List.length_take, Nat.min_eq_left (Nat.le_of_lt hl)]

theorem takeWhile_sp_append : ∀ (A x : Bytes) (j : Nat), indexByte 10 A = some j →
    List.takeWhile isOWS (A ++ x) = List.takeWhile isOWS A ∧ (List.takeWhile isOWS A).length ≤ j
  | [], _, _, h => by simp [indexByte] at h
  | c :: t, x, j, h => by
    cases hc : isOWS c with
    | true =>
      have h10 := isOWS_ne_lf c hc
      simp only [indexByte, h10, if_false] at h
      cases hj : indexByte 10 t with
      | none => simp [hj] at h
      | some j' =>
        simp [hj] at h; subst h
        obtain ⟨h1, h2⟩ := takeWhile_sp_append t x j' hj
        simp only [List.cons_append, List.takeWhile_cons, hc, if_true, List.length_cons, h1]
        exact ⟨trivial, by omega⟩
    | false => simp [hc]

/-- the `kv` answer of `HeaderScanner.Next`, given the colon position `n`, the number `sp` of blanks after it,
the text `B1` after them, the end `n1` of its first line and the obs-fold look-ahead `extra` -/
def scanKV (dn : Bool) (B : Bytes) (n sp : Nat) (B1 : Bytes) (n1 extra : Nat) : Scan :=
  let nEnd := n1 + extra
  let region := trimValue (B1.take nEnd)
  .kv (normalizeKey dn (B.take n))
    (if extra > 0 then
      foldedValue region else region)
    (B1.drop (nEnd + 1)) (n + 1 + sp + nEnd + 1)

def scanValue (dn : Bool) (B : Bytes) (n : Nat) : Scan :=
  let A := B.drop (n + 1)
  let sp := (A.takeWhile isOWS).length
  let B1 := A.drop sp
  match indexByte 10 B1 with
  | none => .needMore
  | some n1 => scanKV dn B n sp B1 n1 (contExtra (B1.drop (n1 + 1)))

def scanLine (dn : Bool) (B : Bytes) : Scan :=
  match indexByte 10 B, indexByte 58 B with
  | none, _ => .needMore
  | some _, none => .needMore
  | some x, some n => if x < n then .invalidName else scanValue dn B n

theorem scanNext_line (dn : Bool) (c d : UInt8) (t : Bytes) (h1 : ¬ (c = 13 ∧ d = 10)) (h2 : c ≠ 10) :
    scanNext dn (c :: d :: t) = scanLine dn (c :: d :: t) := by
  unfold scanNext
  split
  · rename_i heq; simp at heq; exact absurd ⟨heq.1, heq.2.1⟩ h1
  · rename_i heq; simp at heq; exact absurd heq.1 h2
  · rfl

theorem scanNext_crlf (dn : Bool) (t : Bytes) : scanNext dn (13 :: 10 :: t) = .fin 2 := by
  simp [scanNext]

theorem scanNext_lf (dn : Bool) (t : Bytes) : scanNext dn (10 :: t) = .fin 1 := by
  simp [scanNext]

theorem scanNext_nil (dn : Bool) : scanNext dn [] = .needMore := by
  simp [scanNext, indexByte]

theorem scanNext_single (dn : Bool) (c : UInt8) (h : c ≠ 10) : scanNext dn [c] = .needMore := by
  unfold scanNext
  split
  · rename_i heq; simp at heq
  · rename_i heq; simp at heq; exact absurd heq.1 h
  · simp [indexByte, h]

/-- appending bytes to the unconsumed rest of a scanner answer -/
def Scan.app : Scan → Bytes → Scan
  | .kv k v rest n, x => .kv k v (rest ++ x) n
  | s, _ => s

theorem scanKV_append (dn : Bool) (B x : Bytes) (n sp : Nat) (B1 : Bytes) (n1 extra : Nat)
    (hn : n ≤ B.length) (he : n1 + extra + 1 ≤ B1.length) :
    scanKV dn (B ++ x) n sp (B1 ++ x) n1 extra = (scanKV dn B n sp B1 n1 extra).app x := by
  simp only [scanKV, Scan.app]
  rw [List.take_append_of_le_length hn, List.take_append_of_le_length (by omega),
    List.drop_append_of_le_length (by omega)]

/-- the positions computed by `scanValue`, spelled out -/
structure ValuePos (B : Bytes) (n sp : Nat) (B1 : Bytes) (n1 : Nat) : Prop where
  sp_eq : sp = ((B.drop (n + 1)).takeWhile isOWS).length
  b1_eq : B1 = (B.drop (n + 1)).drop sp
  n1_eq : indexByte 10 B1 = some n1

theorem scanValue_eq (dn : Bool) (B : Bytes) (n sp : Nat) (B1 : Bytes) (n1 : Nat)
    (p : ValuePos B n sp B1 n1) :
    scanValue dn B n = scanKV dn B n sp B1 n1 (contExtra (B1.drop (n1 + 1))) := by
  obtain ⟨h1, h2, h3⟩ := p
  subst h1; subst h2
  simp only [scanValue, h3]

/-- for a header line (colon before the first line feed) the positions exist, and they are the same
after appending bytes -/
theorem valuePos_exists (B x : Bytes) (n xi : Nat)
    (hn : indexByte 58 B = some n) (hx : indexByte 10 B = some xi) (hlt : n < xi) :
    ∃ sp B1 n1, ValuePos B n sp B1 n1 ∧ ValuePos (B ++ x) n sp (B1 ++ x) n1 ∧
      n + 1 + sp + n1 = xi ∧ B1.length + n + 1 + sp = B.length ∧ (HasBlank B → Mid B1) := by
  have hxl := indexByte_lt 10 B xi hx
  have hA := indexByte_drop 10 B xi (n + 1) hx (by omega)
  obtain ⟨tw1, tw2⟩ := takeWhile_sp_append (B.drop (n + 1)) x _ hA
  have hB1 := indexByte_drop 10 (B.drop (n + 1)) _ _ hA tw2
  have hdA : List.drop (n + 1) (B ++ x) = List.drop (n + 1) B ++ x :=
    List.drop_append_of_le_length (by omega)
  have hAl : (List.drop (n + 1) B).length = B.length - (n + 1) := by simp
  refine ⟨_, _, _, ⟨rfl, rfl, hB1⟩, ⟨?_, ?_, indexByte_append 10 _ x _ hB1⟩, ?_, ?_, fun hb => ?_⟩
  · rw [hdA, tw1]
  · rw [hdA, List.drop_append_of_le_length (by omega)]
  · omega
  · simp only [List.length_drop]; omega
  · exact mid_dropSpaces _ (mid_after_colon B 0 false n xi hb hn hx hlt)

theorem scanValue_append (dn : Bool) (B x : Bytes) (n xi : Nat)
    (hn : indexByte 58 B = some n) (hx : indexByte 10 B = some xi) (hlt : n < xi) (hb : HasBlank B) :
    scanValue dn (B ++ x) n = (scanValue dn B n).app x := by
  obtain ⟨sp, B1, n1, p, px, _, hlen, hm⟩ := valuePos_exists B x n xi hn hx hlt
  have hn1 := indexByte_lt 10 B1 n1 p.n1_eq
  have hS := mid_after_lf B1 n1 (hm hb) p.n1_eq
  obtain ⟨_, hle, hstab⟩ := contExtra_spec (B1.drop (n1 + 1))
  rw [scanValue_eq dn B n sp B1 n1 p, scanValue_eq dn (B ++ x) n sp (B1 ++ x) n1 px,
    List.drop_append_of_le_length (by omega), (hstab hS).2 x]
  simp only [List.length_drop] at hle
  exact scanKV_append dn B x n sp B1 n1 _ (by omega) (by omega)

/-- what a `kv` answer says about the buffer: the rest starts just after a line feed, and keeps the blank
line if there was one -/
theorem scanValue_rest (dn : Bool) (B : Bytes) (n xi : Nat)
    (hn : indexByte 58 B = some n) (hx : indexByte 10 B = some xi) (hlt : n < xi)
    (k v rest : Bytes) (m : Nat) (h : scanValue dn B n = .kv k v rest m) :
    (∃ P, B = P ++ 10 :: rest) ∧ rest.length < B.length ∧ (HasBlank B → HasBlank rest) ∧
      m + rest.length = B.length := by
  obtain ⟨sp, B1, n1, p, _, hxi, hlen, hm⟩ := valuePos_exists B [] n xi hn hx hlt
  have hn1 := indexByte_lt 10 B1 n1 p.n1_eq
  obtain ⟨hlf, hle, hstab⟩ := contExtra_spec (B1.drop (n1 + 1))
  rw [scanValue_eq dn B n sp B1 n1 p] at h
  simp only [scanKV, Scan.kv.injEq] at h
  obtain ⟨_, _, hrest, hm'⟩ := h
  simp only [List.length_drop] at hle
  have hB1 : B = B.take (n + 1 + sp) ++ B1 := by
    rw [p.b1_eq, List.drop_drop]; exact (List.take_append_drop _ _).symm
  have hrest' : rest = (B1.drop (n1 + 1)).drop (contExtra (B1.drop (n1 + 1))) := by
    rw [← hrest, List.drop_drop]; congr 1; omega
  refine ⟨?_, ?_, fun hb => ?_, ?_⟩
  rotate_right
  · rw [← hrest]; simp only [List.length_drop]; omega
  · rcases hlf with h0 | hlf
    · rw [h0] at hrest'
      simp only [List.drop_zero] at hrest'
      refine ⟨B.take (n + 1 + sp) ++ B1.take n1, ?_⟩
      rw [List.append_assoc, hrest', ← indexByte_split 10 B1 n1 p.n1_eq]
      exact hB1
    · obtain ⟨P, hP, _⟩ := LFBefore_drop _ _ hlf
      refine ⟨B.take (n + 1 + sp) ++ B1.take n1 ++ 10 :: P, ?_⟩
      rw [hrest']
      have h2 := indexByte_split 10 B1 n1 p.n1_eq
      rw [hP] at h2
      simp only [List.append_assoc, List.cons_append]
      rw [← h2]
      exact hB1
  · rw [← hrest]; simp only [List.length_drop]; omega
  · rw [hrest']
    exact (hstab (mid_after_lf B1 n1 (hm hb) p.n1_eq)).1

/-- the three ways `scanLine` can answer something else than `needMore` -/
theorem scanLine_cases (dn : Bool) (B : Bytes) (hne : scanLine dn B ≠ .needMore) :
    ∃ n xi, indexByte 58 B = some n ∧ indexByte 10 B = some xi ∧
      ((xi < n ∧ scanLine dn B = .invalidName) ∨ (n < xi ∧ scanLine dn B = scanValue dn B n)) := by
  unfold scanLine at hne ⊢
  cases hx : indexByte 10 B with
  | none => simp [hx] at hne
  | some xi =>
    cases hn : indexByte 58 B with
    | none => simp [hx, hn] at hne
    | some n =>
      refine ⟨n, xi, rfl, rfl, ?_⟩
      by_cases hlt : xi < n
      · left; simp [hlt]
      · right
        have h1 := indexByte_get 58 B n hn
        have h2 := indexByte_get 10 B xi hx
        have : n ≠ xi := by
          intro he; subst he; rw [h1] at h2; exact absurd h2 (by decide)
        simp only [hlt, if_false, and_true]; omega

theorem scanLine_of_pos (dn : Bool) (B : Bytes) (n xi : Nat)
    (hn : indexByte 58 B = some n) (hx : indexByte 10 B = some xi) :
    scanLine dn B = if xi < n then .invalidName else scanValue dn B n := by
  simp only [scanLine, hn, hx]

theorem scanLine_append (dn : Bool) (B x : Bytes) (hb : HasBlank B) (hne : scanLine dn B ≠ .needMore) :
    scanLine dn (B ++ x) = (scanLine dn B).app x := by
  obtain ⟨n, xi, hn, hx, h⟩ := scanLine_cases dn B hne
  rw [scanLine_of_pos dn (B ++ x) n xi (indexByte_append 58 B x n hn) (indexByte_append 10 B x xi hx)]
  rcases h with ⟨hlt, h⟩ | ⟨hlt, h⟩
  · rw [h]; simp [hlt, Scan.app]
  · rw [h, if_neg (by omega)]
    exact scanValue_append dn B x n xi hn hx hlt hb

theorem scanLine_rest (dn : Bool) (B : Bytes) (k v rest : Bytes) (m : Nat)
    (h : scanLine dn B = .kv k v rest m) :
    (∃ P, B = P ++ 10 :: rest) ∧ rest.length < B.length ∧ (HasBlank B → HasBlank rest) ∧
      m + rest.length = B.length := by
  obtain ⟨n, xi, hn, hx, h'⟩ := scanLine_cases dn B (by rw [h]; simp)
  rcases h' with ⟨_, h'⟩ | ⟨hlt, h'⟩
  · rw [h] at h'; simp at h'
  · rw [h] at h'
    exact scanValue_rest dn B n xi hn hx hlt k v rest m h'.symm

theorem scanLine_ne_fin (dn : Bool) (B : Bytes) (n : Nat) : scanLine dn B ≠ .fin n := by
  intro h
  obtain ⟨n', xi, hn, hx, h'⟩ := scanLine_cases dn B (by rw [h]; simp)
  rcases h' with ⟨_, h'⟩ | ⟨hlt, h'⟩
  · rw [h] at h'; simp at h'
  · obtain ⟨sp, B1, n1, p, _⟩ := valuePos_exists B [] n' xi hn hx hlt
    rw [h, scanValue_eq dn B n' sp B1 n1 p] at h'
    simp [scanKV] at h'

/-- case split on the buffer as `HeaderScanner.Next` does it -/
theorem scanNext_shape (dn : Bool) (B : Bytes) :
    (scanNext dn B = .needMore ∧ B.length ≤ 1) ∨
    (∃ t, B = 13 :: 10 :: t ∧ scanNext dn B = .fin 2) ∨ (∃ t, B = 10 :: t ∧ scanNext dn B = .fin 1) ∨
    (∃ c d t, B = c :: d :: t ∧ ¬ (c = 13 ∧ d = 10) ∧ c ≠ 10 ∧ scanNext dn B = scanLine dn B) := by
  match B with
  | [] => exact Or.inl ⟨scanNext_nil dn, by simp⟩
  | [c] =>
    by_cases hc : c = 10
    · subst hc; exact Or.inr (Or.inr (Or.inl ⟨[], rfl, scanNext_lf dn []⟩))
    · exact Or.inl ⟨scanNext_single dn c hc, by simp⟩
  | c :: d :: t =>
    by_cases hc : c = 10
    · subst hc; exact Or.inr (Or.inr (Or.inl ⟨d :: t, rfl, scanNext_lf dn _⟩))
    · by_cases h1 : c = 13 ∧ d = 10
      · obtain ⟨rfl, rfl⟩ := h1
        exact Or.inr (Or.inl ⟨t, rfl, scanNext_crlf dn t⟩)
      · exact Or.inr (Or.inr (Or.inr ⟨c, d, t, rfl, h1, hc, scanNext_line dn c d t h1 hc⟩))

theorem scanNext_append (dn : Bool) (B x : Bytes) (hb : HasBlank B) (hne : scanNext dn B ≠ .needMore) :
    scanNext dn (B ++ x) = (scanNext dn B).app x := by
  rcases scanNext_shape dn B with ⟨h, _⟩ | ⟨t, rfl, h⟩ | ⟨t, rfl, h⟩ | ⟨c, d, t, rfl, h1, h2, h⟩
  · exact absurd h hne
  · rw [h]; exact scanNext_crlf dn (t ++ x)
  · rw [h]; exact scanNext_lf dn (t ++ x)
  · rw [h] at hne ⊢
    rw [← scanLine_append dn _ x hb hne]
    exact scanNext_line dn c d (t ++ x) h1 h2

theorem scanNext_rest (dn : Bool) (B : Bytes) (k v rest : Bytes) (m : Nat)
    (h : scanNext dn B = .kv k v rest m) :
    (∃ P, B = P ++ 10 :: rest) ∧ rest.length < B.length ∧ (HasBlank B → HasBlank rest) ∧
      m + rest.length = B.length := by
  rcases scanNext_shape dn B with ⟨h', _⟩ | ⟨t, rfl, h'⟩ | ⟨t, rfl, h'⟩ | ⟨c, d, t, rfl, h1, h2, h'⟩
  · rw [h] at h'; simp at h'
  · rw [h] at h'; simp at h'
  · rw [h] at h'; simp at h'
  · rw [h'] at h; exact scanLine_rest dn _ k v rest m h

theorem scanNext_fin (dn : Bool) (B : Bytes) (n : Nat) (h : scanNext dn B = .fin n) :
    HasBlank B ∧ n ≤ B.length := by
  rcases scanNext_shape dn B with ⟨h', _⟩ | ⟨t, rfl, h'⟩ | ⟨t, rfl, h'⟩ | ⟨c, d, t, rfl, h1, h2, h'⟩
  · rw [h] at h'; simp at h'
  · rw [h] at h'; simp at h'; subst h'
    exact ⟨by simp [HasBlank, rawHeadersAux], by simp⟩
  · rw [h] at h'; simp at h'; subst h'
    exact ⟨by simp [HasBlank, rawHeadersAux], by simp⟩
  · rw [h'] at h; exact absurd h (scanLine_ne_fin dn _ n)

/-! ### the header loop -/

/-- the recorded non-fatal error of `parseHeaders` is never cleared -/
theorem applyHeader_err (dn : Bool) (st st' : HdrState) (k v : Bytes)
    (h : applyHeader dn st k v = some st') (he : st.err = true) : st'.err = true := by
  unfold applyHeader at h
  simp only [] at h
  repeat' split at h
  all_goals first
    | (simp at h; done)
    | (simp only [Option.some.injEq] at h; subst h; simp [he])

/-- once an error is recorded the loop can only answer `bad` (given enough fuel) -/
theorem parseHeadersLoop_err (dn : Bool) : ∀ (fuel : Nat) (B : Bytes) (st : HdrState) (hl : Nat),
    st.err = true → B.length < fuel → parseHeadersLoop dn fuel B st hl = .error .bad
  | 0, _, _, _, _, hf => by omega
  | fuel + 1, B, st, hl, he, hf => by
    unfold parseHeadersLoop
    cases hs : scanNext dn B with
    | fin n => simp [he]
    | needMore => simp [he]
    | invalidName => rfl
    | kv k v rest n =>
      simp only
      cases ha : applyHeader dn st k v with
      | none => rfl
      | some st' =>
        have hr := (scanNext_rest dn B k v rest n hs).2.1
        exact parseHeadersLoop_err dn fuel rest st' _ (applyHeader_err dn st st' k v ha he) (by omega)

theorem parseHeadersLoop_append (dn : Bool) (x : Bytes) : ∀ (fuel fuel' : Nat) (B : Bytes) (st : HdrState)
    (hl : Nat) (r : Except HeadErr (HdrState × Nat)), HasBlank B → (B ++ x).length < fuel' →
    parseHeadersLoop dn fuel B st hl = r → r ≠ .error .needMore →
    parseHeadersLoop dn fuel' (B ++ x) st hl = r
  | 0, _, _, _, _, _, _, _, h, hr => by
    simp only [parseHeadersLoop] at h; exact absurd h.symm hr
  | _ + 1, 0, _, _, _, _, _, hf, _, _ => by omega
  | fuel + 1, fuel' + 1, B, st, hl, r, hb, hf, h, hr => by
    unfold parseHeadersLoop at h
    cases hs : scanNext dn B with
    | needMore =>
      simp only [hs] at h
      cases he : st.err with
      | false => simp [he] at h; exact absurd h.symm hr
      | true =>
        simp [he] at h
        rw [← h]
        exact parseHeadersLoop_err dn _ _ st hl he hf
    | fin n =>
      unfold parseHeadersLoop
      rw [scanNext_append dn B x hb (by rw [hs]; simp), hs]
      simpa only [hs, Scan.app] using h
    | invalidName =>
      unfold parseHeadersLoop
      rw [scanNext_append dn B x hb (by rw [hs]; simp), hs]
      simpa only [hs, Scan.app] using h
    | kv k v rest n =>
      unfold parseHeadersLoop
      rw [scanNext_append dn B x hb (by rw [hs]; simp), hs]
      simp only [hs, Scan.app] at h ⊢
      cases ha : applyHeader dn st k v with
      | none => simpa only [ha] using h
      | some st' =>
        simp only [ha] at h ⊢
        obtain ⟨_, hlen, hb', _⟩ := scanNext_rest dn B k v rest n hs
        exact parseHeadersLoop_append dn x fuel fuel' rest st' _ r (hb' hb)
          (by simp only [List.length_append] at hf ⊢; omega) h hr

theorem parseHeaders_append (dn : Bool) (hd : ReqHead) (B x : Bytes) (r : Except HeadErr (ReqHead × Nat))
    (hb : HasBlank B) (h : parseHeaders dn hd B = r) (hr : r ≠ .error .needMore) :
    parseHeaders dn hd (B ++ x) = r := by
  unfold parseHeaders at h ⊢
  cases hl : parseHeadersLoop dn (B.length + 1) B { head := { hd with cl := -2 } } 0 with
  | error e =>
    cases e with
    | needMore => simp [hl, bind, Except.bind] at h; exact absurd h.symm hr
    | bad =>
      rw [parseHeadersLoop_append dn x _ ((B ++ x).length + 1) B _ 0 _ hb (by omega) hl (by simp)]
      rw [hl] at h; exact h
  | ok p =>
    rw [parseHeadersLoop_append dn x _ ((B ++ x).length + 1) B _ 0 _ hb (by omega) hl (by simp)]
    rw [hl] at h; exact h

/-- **Prefix stability of `req.parse`.**  Whatever the parser answers on the bytes received so far —
a complete head or a rejection — it answers on every extension of those bytes, unless the answer was
"need more". -/
theorem parseReqHead_append (dn : Bool) (b x : Bytes) (r : Except HeadErr (ReqHead × Nat))
    (h : parseReqHead dn b = r) (hr : r ≠ .error .needMore) : parseReqHead dn (b ++ x) = r := by
  unfold parseReqHead at h ⊢
  cases hf : parseFirstLine b with
  | error e =>
    cases e with
    | needMore => simp [hf, bind, Except.bind] at h; exact absurd h.symm hr
    | bad =>
      rw [parseFirstLine_append b x _ hf (by simp)]
      rw [hf] at h; exact h
  | ok p =>
    obtain ⟨hd, m⟩ := p
    rw [parseFirstLine_append b x _ hf (by simp)]
    rw [hf] at h
    simp only [bind, Except.bind] at h ⊢
    have hm := parseFirstLine_le b hd m hf
    rw [List.drop_append_of_le_length hm]
    cases hraw : rawHeadersLen (List.drop m b) with
    | none => simp [hraw] at h; exact absurd h.symm hr
    | some k =>
      rw [rawHeadersLen_append _ x k hraw]
      simp only [hraw] at h ⊢
      have hb : HasBlank (List.drop m b) := by
        unfold HasBlank; unfold rawHeadersLen at hraw; simp [hraw]
      cases hp : parseHeaders dn hd (List.drop m b) with
      | error e =>
        cases e with
        | needMore => simp [hp] at h; exact absurd h.symm hr
        | bad =>
          rw [parseHeaders_append dn hd _ x _ hb hp (by simp)]
          simpa only [hp] using h
      | ok q =>
        rw [parseHeaders_append dn hd _ x _ hb hp (by simp)]
        simpa only [hp] using h

/-! ### the consumed count lies inside the received bytes -/

theorem parseHeadersLoop_le (dn : Bool) : ∀ (fuel : Nat) (B : Bytes) (st st' : HdrState) (hl n : Nat),
    parseHeadersLoop dn fuel B st hl = .ok (st', n) → n ≤ hl + B.length
  | 0, _, _, _, _, _, h => by simp [parseHeadersLoop] at h
  | fuel + 1, B, st, st', hl, n, h => by
    unfold parseHeadersLoop at h
    cases hs : scanNext dn B with
    | needMore => simp only [hs] at h; split at h <;> simp at h
    | invalidName => simp [hs] at h
    | fin k =>
      simp only [hs] at h
      have := (scanNext_fin dn B k hs).2
      split at h
      · simp at h
      · simp only [Except.ok.injEq, Prod.mk.injEq] at h; omega
    | kv k v rest m =>
      simp only [hs] at h
      obtain ⟨_, _, _, hm⟩ := scanNext_rest dn B k v rest m hs
      cases ha : applyHeader dn st k v with
      | none => simp [ha] at h
      | some st1 =>
        simp only [ha] at h
        have := parseHeadersLoop_le dn fuel rest st1 st' _ n h
        omega

theorem parseHeaders_le (dn : Bool) (hd hd' : ReqHead) (B : Bytes) (n : Nat)
    (h : parseHeaders dn hd B = .ok (hd', n)) : n ≤ B.length := by
  unfold parseHeaders at h
  cases hl : parseHeadersLoop dn (B.length + 1) B { head := { hd with cl := -2 } } 0 with
  | error e => simp [hl, bind, Except.bind] at h
  | ok p =>
    obtain ⟨st, k⟩ := p
    have := parseHeadersLoop_le dn _ _ _ _ _ _ hl
    simp only [hl, bind, Except.bind, Except.ok.injEq, Prod.mk.injEq] at h
    omega

theorem parseReqHead_le (dn : Bool) (b : Bytes) (hd : ReqHead) (n : Nat)
    (h : parseReqHead dn b = .ok (hd, n)) : n ≤ b.length := by
  unfold parseReqHead at h
  cases hf : parseFirstLine b with
  | error e => simp [hf, bind, Except.bind] at h
  | ok p =>
    obtain ⟨hd0, m⟩ := p
    have hm := parseFirstLine_le b hd0 m hf
    simp only [hf, bind, Except.bind] at h
    cases hraw : rawHeadersLen (List.drop m b) with
    | none => simp [hraw] at h
    | some k =>
      simp only [hraw] at h
      cases hp : parseHeaders dn hd0 (List.drop m b) with
      | error e => simp [hp] at h
      | ok q =>
        obtain ⟨hd1, k1⟩ := q
        have := parseHeaders_le dn hd0 hd1 _ k1 hp
        simp only [hp, Except.ok.injEq, Prod.mk.injEq, List.length_drop] at h this
        omega

/-! ### retrying with more bytes -/

/-- what the server does with the segments `segs` still to arrive: parse what is buffered; on "need
more" take the next segment into the buffer and parse again from the start -/
def retryParse (dn : Bool) : Bytes → List Bytes → Except HeadErr (ReqHead × Nat)
  | buf, [] => parseReqHead dn buf
  | buf, seg :: segs =>
    match parseReqHead dn buf with
    | .error .needMore => retryParse dn (buf ++ seg) segs
    | r => r

theorem retryParse_eq (dn : Bool) : ∀ (segs : List Bytes) (buf : Bytes),
    retryParse dn buf segs = parseReqHead dn (buf ++ segs.flatten)
  | [], buf => by simp [retryParse]
  | seg :: segs, buf => by
    unfold retryParse
    split
    · rw [retryParse_eq dn segs (buf ++ seg)]; simp
    · rename_i r hr
      simp only [List.flatten_cons]
      exact (parseReqHead_append dn buf _ _ rfl (fun h => hr h)).symm

/-! ### body readers: a completed read does not depend on the bytes after it -/

theorem takeN_append (e e' : End) (n : Nat) (s x b rest : Bytes) (h : takeN e n s = .ok (b, rest)) :
    takeN e' n (s ++ x) = .ok (b, rest ++ x) := by
  unfold takeN at h ⊢
  by_cases hn : s.length ≥ n
  · simp only [hn, if_true, Except.ok.injEq, Prod.mk.injEq] at h
    have : (s ++ x).length ≥ n := by simp; omega
    simp only [this, if_true, Except.ok.injEq, Prod.mk.injEq]
    rw [List.take_append_of_le_length hn, List.drop_append_of_le_length hn]
    exact ⟨h.1, by rw [h.2]⟩
  · simp [hn] at h

theorem takeBody_append (e e' : End) (n : Nat) (s x b rest : Bytes) (h : takeBody e n s = .ok (b, rest)) :
    takeBody e' n (s ++ x) = .ok (b, rest ++ x) := by
  unfold takeBody at h ⊢
  cases ht : takeN e n s with
  | error err => rw [ht] at h; cases err <;> simp at h
  | ok p =>
    rw [ht] at h
    simp only [Except.ok.injEq] at h; subst h
    rw [takeN_append e e' n s x b rest ht]

theorem readHexIntAux_append (e e' : End) (x : Bytes) (v : Nat) (c : UInt8) (r : Bytes) :
    ∀ (s : Bytes) (n i : Nat),
    readHexIntAux e n i s = .ok (v, c :: r) → readHexIntAux e' n i (s ++ x) = .ok (v, c :: r ++ x) := by
  intro s
  induction s with
  | nil =>
    intro n i h
    unfold readHexIntAux at h
    split at h <;> simp at h
  | cons d t ih =>
    intro n i h
    rw [List.cons_append]
    unfold readHexIntAux at h ⊢
    simp only at h ⊢
    by_cases hk : hex2int d = 16
    · rw [if_pos hk] at h ⊢
      by_cases hi : i = 0
      · simp [hi] at h
      · simp only [hi, if_false, Except.ok.injEq, Prod.mk.injEq, List.cons.injEq] at h ⊢
        obtain ⟨h1, h2, h3⟩ := h
        subst h1; subst h2; subst h3
        simp
    · rw [if_neg hk] at h ⊢
      split
      · rename_i hi; rw [if_pos hi] at h; simp at h
      · rename_i hi
        rw [if_neg hi] at h
        exact ih _ _ h

theorem chunkSizeTail_append (e e' : End) (x : Bytes) : ∀ (s rest : Bytes),
    chunkSizeTail e s = .ok rest → chunkSizeTail e' (s ++ x) = .ok (rest ++ x)
  | [], _, h => by simp [chunkSizeTail] at h
  | c :: t, rest, h => by
    simp only [chunkSizeTail, List.cons_append] at h ⊢
    by_cases h32 : c = 32
    · simp only [h32, if_true] at h ⊢
      exact chunkSizeTail_append e e' x t rest h
    · simp only [h32, if_false] at h ⊢
      by_cases h13 : c = 13
      · simp only [h13, if_true] at h ⊢
        match t, h with
        | [], h => simp at h
        | d :: t', h =>
          simp only [List.cons_append] at h ⊢
          by_cases h10 : d = 10
          · simp only [h10, if_true, Except.ok.injEq] at h ⊢; rw [h]
          · simp [h10] at h
      · simp [h13] at h

theorem chunkSizeTail_ok_ne_nil (e : End) (s rest : Bytes) (h : chunkSizeTail e s = .ok rest) :
    ∃ c r, s = c :: r := by
  cases s with
  | nil => simp [chunkSizeTail] at h
  | cons c r => exact ⟨c, r, rfl⟩

/-- `utils.ParseChunkSize`: a chunk-size line that was read completely is read the same way whatever
follows and however the stream ends -/
theorem parseChunkSize_append (e e' : End) (s x : Bytes) (n : Nat) (rest : Bytes)
    (h : parseChunkSize e s = .ok (n, rest)) : parseChunkSize e' (s ++ x) = .ok (n, rest ++ x) := by
  unfold parseChunkSize at h ⊢
  cases hh : readHexInt e s with
  | error err => rw [hh] at h; cases err <;> simp at h
  | ok p =>
    obtain ⟨v, r⟩ := p
    rw [hh] at h
    simp only at h
    cases ht : chunkSizeTail e r with
    | error err => rw [ht] at h; simp at h
    | ok r' =>
      rw [ht] at h
      simp only [Except.ok.injEq, Prod.mk.injEq] at h
      obtain ⟨c, r0, rfl⟩ := chunkSizeTail_ok_ne_nil e r r' ht
      have h1 : readHexInt e' (s ++ x) = .ok (v, c :: r0 ++ x) :=
        readHexIntAux_append e e' x v c r0 s 0 0 hh
      have h2 := chunkSizeTail_append e e' x _ _ ht
      rw [h1]
      simp only
      rw [h2]
      simp only [Except.ok.injEq, Prod.mk.injEq]
      exact ⟨h.1, by rw [h.2]⟩

/-- `readBodyChunked`: a chunked body that was read to its last chunk is read the same way whatever
follows, however the stream ends, and with any larger fuel -/
theorem readBodyChunked_append (e e' : End) (mb : Nat) (x : Bytes) : ∀ (fuel fuel' : Nat) (dst s body rest : Bytes),
    readBodyChunked e mb fuel dst s = .ok (body, rest) → fuel ≤ fuel' →
    readBodyChunked e' mb fuel' dst (s ++ x) = .ok (body, rest ++ x)
  | 0, _, _, _, _, _, h, _ => by simp [readBodyChunked] at h
  | _ + 1, 0, _, _, _, _, _, hf => by omega
  | fuel + 1, fuel' + 1, dst, s, body, rest, h, hf => by
    unfold readBodyChunked at h ⊢
    cases hp : parseChunkSize e s with
    | error err => simp [hp, bind, Except.bind] at h
    | ok p =>
      obtain ⟨size, r1⟩ := p
      rw [parseChunkSize_append e e' s x size r1 hp]
      rw [hp] at h
      simp only [bind, Except.bind] at h ⊢
      by_cases h0 : size = 0
      · simp only [h0, if_true, Except.ok.injEq, Prod.mk.injEq] at h ⊢
        exact ⟨h.1, by rw [h.2]⟩
      · simp only [h0, if_false] at h ⊢
        split
        · rename_i hl; rw [if_pos hl] at h; simp at h
        · rename_i hl
          rw [if_neg hl] at h
          cases ht : takeBody e (size + 2) r1 with
          | error err => simp [ht] at h
          | ok q =>
            obtain ⟨chunk, r2⟩ := q
            rw [takeBody_append e e' (size + 2) r1 x chunk r2 ht]
            rw [ht] at h
            simp only at h ⊢
            split
            · rename_i hc; rw [if_pos hc] at h; simp at h
            · rename_i hc
              rw [if_neg hc] at h
              exact readBodyChunked_append e e' mb x fuel fuel' _ r2 body rest h (by omega)

theorem takeBody_ne_tooLarge (e : End) (n : Nat) (s : Bytes) : takeBody e n s ≠ .error .tooLarge := by
  unfold takeBody takeN
  by_cases hn : s.length ≥ n
  · simp [hn]
  · cases e <;> simp [hn, endErr]

/-- … and so is the verdict "body too large" -/
theorem readBodyChunked_tooLarge_append (e e' : End) (mb : Nat) (x : Bytes) : ∀ (fuel fuel' : Nat) (dst s : Bytes),
    readBodyChunked e mb fuel dst s = .error .tooLarge → fuel ≤ fuel' →
    readBodyChunked e' mb fuel' dst (s ++ x) = .error .tooLarge
  | 0, _, _, _, h, _ => by simp [readBodyChunked] at h
  | _ + 1, 0, _, _, _, hf => by omega
  | fuel + 1, fuel' + 1, dst, s, h, hf => by
    unfold readBodyChunked at h ⊢
    cases hp : parseChunkSize e s with
    | error err =>
      exfalso
      rw [hp] at h
      simp only [bind, Except.bind, Except.error.injEq] at h
      subst h
      unfold parseChunkSize at hp
      cases hh : readHexInt e s with
      | error err =>
        rw [hh] at hp
        have : err ≠ .tooLarge := by
          intro he; subst he
          have : ∀ (s : Bytes) (n i : Nat), readHexIntAux e n i s ≠ .error .tooLarge := by
            intro s
            induction s with
            | nil => intro n i; unfold readHexIntAux; split <;> cases e <;> simp [endErr]
            | cons d t ih =>
              intro n i; unfold readHexIntAux; simp only
              split
              · split <;> simp
              · split
                · simp
                · exact ih _ _
          exact this s 0 0 hh
        cases err <;> simp at hp <;> exact this rfl
      | ok p =>
        obtain ⟨v, r⟩ := p
        rw [hh] at hp
        simp only at hp
        have : ∀ (r : Bytes), chunkSizeTail e r ≠ .error .tooLarge := by
          intro r
          induction r with
          | nil => simp [chunkSizeTail]
          | cons c t ih =>
            unfold chunkSizeTail
            split
            · exact ih
            · split
              · split
                · simp
                · split <;> simp
              · simp
        cases ht : chunkSizeTail e r with
        | error err => rw [ht] at hp; simp at hp; subst hp; exact this r ht
        | ok r' => rw [ht] at hp; simp at hp
    | ok p =>
      obtain ⟨size, r1⟩ := p
      rw [parseChunkSize_append e e' s x size r1 hp]
      rw [hp] at h
      simp only [bind, Except.bind] at h ⊢
      by_cases h0 : size = 0
      · simp [h0] at h
      · simp only [h0, if_false] at h ⊢
        split
        · rfl
        · rename_i hl
          rw [if_neg hl] at h
          cases ht : takeBody e (size + 2) r1 with
          | error err =>
            exfalso
            rw [ht] at h
            simp only [Except.error.injEq] at h
            subst h
            exact takeBody_ne_tooLarge e _ _ ht
          | ok q =>
            obtain ⟨chunk, r2⟩ := q
            rw [takeBody_append e e' (size + 2) r1 x chunk r2 ht]
            rw [ht] at h
            simp only at h ⊢
            split
            · rename_i hc; rw [if_pos hc] at h; simp at h
            · rename_i hc
              rw [if_neg hc] at h
              exact readBodyChunked_tooLarge_append e e' mb x fuel fuel' _ r2 h (by omega)

/-! ### trailers -/

theorem rawAux_of_suffix (S : Bytes) (hS : HasBlank S) : ∀ (P : Bytes) (l : Nat) (cr : Bool),
    (rawHeadersAux l cr (P ++ 10 :: S)).isSome = true
  | [], l, cr => by
    simp only [List.nil_append, rawHeadersAux, if_true]
    split
    · rfl
    · have : (rawHeadersAux 0 false S).isSome = true := hS
      simpa using this
  | c :: P, l, cr => by
    simp only [List.cons_append, rawHeadersAux]
    split
    · split
      · rfl
      · simpa using rawAux_of_suffix S hS P 0 false
    · simpa using rawAux_of_suffix S hS P _ _

/-- a trailer block that was scanned to its end contains its blank line -/
theorem parseTrailerLoop_hasBlank (dn : Bool) : ∀ (fuel : Nat) (B : Bytes) (tr : List (Bytes × Option Bytes))
    (err : Bool) (hl : Nat) (p : List (Bytes × Option Bytes) × Nat),
    parseTrailerLoop dn fuel B tr err hl = .ok p → HasBlank B
  | 0, _, _, _, _, _, h => by simp [parseTrailerLoop] at h
  | fuel + 1, B, tr, err, hl, p, h => by
    unfold parseTrailerLoop at h
    cases hs : scanNext dn B with
    | needMore => simp [hs] at h
    | invalidName => simp [hs] at h
    | fin n => exact (scanNext_fin dn B n hs).1
    | kv k v rest m =>
      simp only [hs] at h
      obtain ⟨⟨P, hP⟩, _⟩ := scanNext_rest dn B k v rest m hs
      have hrest : HasBlank rest := by
        split at h
        · exact parseTrailerLoop_hasBlank dn fuel rest _ _ _ p h
        · split at h
          · exact parseTrailerLoop_hasBlank dn fuel rest _ _ _ p h
          · split at h
            · exact parseTrailerLoop_hasBlank dn fuel rest _ _ _ p h
            · exact parseTrailerLoop_hasBlank dn fuel rest _ _ _ p h
      rw [hP]
      exact rawAux_of_suffix rest hrest P 0 false

theorem parseTrailerLoop_append (dn : Bool) (x : Bytes) : ∀ (fuel fuel' : Nat) (B : Bytes)
    (tr : List (Bytes × Option Bytes)) (err : Bool) (hl : Nat) (p : List (Bytes × Option Bytes) × Nat),
    parseTrailerLoop dn fuel B tr err hl = .ok p → fuel ≤ fuel' →
    parseTrailerLoop dn fuel' (B ++ x) tr err hl = .ok p ∧ p.2 ≤ hl + B.length
  | 0, _, _, _, _, _, _, h, _ => by simp [parseTrailerLoop] at h
  | _ + 1, 0, _, _, _, _, _, _, hf => by omega
  | fuel + 1, fuel' + 1, B, tr, err, hl, p, h, hf => by
    have hb := parseTrailerLoop_hasBlank dn _ B tr err hl p h
    unfold parseTrailerLoop at h ⊢
    cases hs : scanNext dn B with
    | needMore => simp [hs] at h
    | invalidName => simp [hs] at h
    | fin n =>
      rw [scanNext_append dn B x hb (by rw [hs]; simp), hs]
      simp only [hs, Scan.app] at h ⊢
      have := (scanNext_fin dn B n hs).2
      split at h
      · simp at h
      · rename_i he
        simp only [he] at h ⊢
        simp only [Except.ok.injEq] at h
        subst h
        exact ⟨rfl, by simp; omega⟩
    | kv k v rest m =>
      rw [scanNext_append dn B x hb (by rw [hs]; simp), hs]
      simp only [hs, Scan.app] at h ⊢
      obtain ⟨_, _, _, hm⟩ := scanNext_rest dn B k v rest m hs
      have ih := fun tr' err' h' =>
        parseTrailerLoop_append dn x fuel fuel' rest tr' err' (hl + m) p h' (by omega)
      split
      · rename_i c1; rw [if_pos c1] at h
        have := ih _ _ h; exact ⟨this.1, by omega⟩
      · rename_i c1; rw [if_neg c1] at h
        split
        · rename_i c2; rw [if_pos c2] at h
          have := ih _ _ h; exact ⟨this.1, by omega⟩
        · rename_i c2; rw [if_neg c2] at h
          split
          · rename_i c3; rw [if_pos c3] at h
            have := ih _ _ h; exact ⟨this.1, by omega⟩
          · rename_i c3; rw [if_neg c3] at h
            have := ih _ _ h; exact ⟨this.1, by omega⟩

theorem parseTrailer_zero (dn : Bool) (tr : List (Bytes × Option Bytes)) (rest : Bytes) :
    parseTrailer dn tr (48 :: rest) =
      if (48 :: rest).length < 3 then .error .needMore
      else if rest.take 2 = Gen.Str.strCRLF then
        match parseTrailerLoop dn ((48 :: rest).length + 1) (rest.drop 2) tr false 0 with
        | .ok (t, n) => .ok (t, n + 3)
        | .error x => .error x
      else parseTrailerLoop dn ((48 :: rest).length + 1) (48 :: rest) tr false 0 := by
  unfold parseTrailer; rfl

theorem parseTrailer_other (dn : Bool) (tr : List (Bytes × Option Bytes)) (buf : Bytes)
    (h : ∀ rest, buf ≠ 48 :: rest) :
    parseTrailer dn tr buf = parseTrailerLoop dn (buf.length + 1) buf tr false 0 := by
  unfold parseTrailer
  split
  · rename_i rest; exact absurd rfl (h rest)
  · rfl

/-- `parseTrailer`: a trailer block that was parsed to its end is parsed the same way whatever follows -/
theorem parseTrailer_append (dn : Bool) (tr : List (Bytes × Option Bytes)) (buf x : Bytes)
    (p : List (Bytes × Option Bytes) × Nat) (h : parseTrailer dn tr buf = .ok p) :
    parseTrailer dn tr (buf ++ x) = .ok p ∧ p.2 ≤ buf.length := by
  by_cases h48 : ∃ rest, buf = 48 :: rest
  · obtain ⟨rest, rfl⟩ := h48
    rw [List.cons_append, parseTrailer_zero]
    rw [parseTrailer_zero] at h
    by_cases hl : (48 :: rest).length < 3
    · rw [if_pos hl] at h; simp at h
    · rw [if_neg hl] at h
      have hl' : ¬ (48 :: (rest ++ x)).length < 3 := by
        simp only [List.length_cons, List.length_append] at hl ⊢; omega
      rw [if_neg hl']
      have hr : 2 ≤ rest.length := by simp only [List.length_cons] at hl; omega
      rw [List.take_append_of_le_length hr]
      by_cases hcr : rest.take 2 = Gen.Str.strCRLF
      · rw [if_pos hcr] at h ⊢
        cases hp : parseTrailerLoop dn ((48 :: rest).length + 1) (rest.drop 2) tr false 0 with
        | error e => rw [hp] at h; simp at h
        | ok q =>
          rw [hp] at h
          simp only [Except.ok.injEq] at h
          subst h
          obtain ⟨h1, h2⟩ := parseTrailerLoop_append dn x _ ((48 :: (rest ++ x)).length + 1) _ tr false 0 q hp
            (by simp)
          rw [List.drop_append_of_le_length hr, h1]
          refine ⟨rfl, ?_⟩
          simp only [List.length_drop, List.length_cons] at h2 ⊢
          omega
      · rw [if_neg hcr] at h ⊢
        obtain ⟨h1, h2⟩ := parseTrailerLoop_append dn x _ ((48 :: (rest ++ x)).length + 1) _ tr false 0 p h
          (by simp)
        rw [List.cons_append] at h1
        exact ⟨h1, by omega⟩
  · have hne : ∀ rest, buf ≠ 48 :: rest := fun rest he => h48 ⟨rest, he⟩
    rw [parseTrailer_other dn tr buf hne] at h
    have hne' : ∀ rest, buf ++ x ≠ 48 :: rest := by
      intro rest he
      cases buf with
      | nil => simp [parseTrailerLoop, scanNext_nil] at h
      | cons c t =>
        simp only [List.cons_append, List.cons.injEq] at he
        exact hne t (by rw [he.1])
    rw [parseTrailer_other dn tr _ hne']
    obtain ⟨h1, h2⟩ := parseTrailerLoop_append dn x _ ((buf ++ x).length + 1) _ tr false 0 p h (by simp)
    exact ⟨h1, by omega⟩

/-- `ext.ReadTrailer` as used for requests: if it completes while the stream merely stalls afterwards, it
completes the same way on every extension and under either way the stream can end -/
theorem readTrailerReq_append (cfg : Cfg) (e : End) (names : List Bytes) (s x : Bytes)
    (tr : Option (List (Bytes × Bytes))) (rest : Bytes)
    (h : readTrailerReq cfg .stall names s = .ok (tr, rest)) :
    readTrailerReq cfg e names (s ++ x) = .ok (tr, rest ++ x) := by
  unfold readTrailerReq at h ⊢
  simp only at h ⊢
  cases s with
  | nil => simp at h
  | cons c t =>
    simp only [List.isEmpty_cons, Bool.false_eq_true, if_false, List.cons_append] at h ⊢
    cases hp : parseTrailer cfg.disableNorm (names.map (fun k => (k, none))) (c :: t) with
    | error err => rw [hp] at h; cases err <;> simp at h
    | ok p =>
      obtain ⟨h1, h2⟩ := parseTrailer_append cfg.disableNorm _ (c :: t) x p hp
      rw [List.cons_append] at h1
      rw [h1]
      rw [hp] at h
      simp only [Except.ok.injEq, Prod.mk.injEq] at h ⊢
      refine ⟨h.1, ?_⟩
      rw [← h.2, ← List.cons_append, List.drop_append_of_le_length h2]

/-- **`req.ContinueReadBody`**: if the body (fixed length, chunked with trailers, or none) is read
completely from `s` when the stream merely stalls after `s`, then on every extension `s ++ x`, and under
either way the stream can end, the same head, body and trailers are delivered and exactly `x` more is left. -/
theorem continueReadBody_append (cfg : Cfg) (e : End) (hd : ReqHead) (s x : Bytes)
    (hd' : ReqHead) (body : Bytes) (tr : List (Bytes × Bytes)) (rest : Bytes)
    (h : continueReadBody cfg .stall hd s = .ok hd' body tr rest) :
    continueReadBody cfg e hd (s ++ x) = .ok hd' body tr (rest ++ x) := by
  unfold continueReadBody at h ⊢
  simp only at h ⊢
  split
  · rename_i c1
    rw [if_pos c1] at h
    split
    · rename_i c2; rw [if_pos c2] at h; simp at h
    · rename_i c2
      rw [if_neg c2] at h
      split
      · rename_i c3; rw [if_pos c3] at h; simp at h
      · rename_i c3
        rw [if_neg c3] at h
        cases ht : takeN .stall hd.cl.toNat s with
        | error err => rw [ht] at h; simp at h
        | ok p =>
          obtain ⟨b, r⟩ := p
          rw [takeN_append .stall e _ s x b r ht]
          rw [ht] at h
          simp only [BodyRes.ok.injEq] at h ⊢
          obtain ⟨h1, h2, h3, h4⟩ := h
          exact ⟨h1, h2, h3, by rw [h4]⟩
  · rename_i c1
    rw [if_neg c1] at h
    split
    · rename_i c2
      rw [if_pos c2] at h
      simp only [BodyRes.ok.injEq] at h ⊢
      obtain ⟨h1, h2, h3, h4⟩ := h
      exact ⟨h1, h2, h3, by rw [h4]⟩
    · rename_i c2
      rw [if_neg c2] at h
      split
      · rename_i c3
        rw [if_pos c3] at h
        cases hb : readBodyChunked .stall cfg.maxBody (s.length + 1) [] s with
        | error err => rw [hb] at h; simp at h
        | ok p =>
          obtain ⟨b, r⟩ := p
          rw [readBodyChunked_append .stall e cfg.maxBody x _ ((s ++ x).length + 1) [] s b r hb (by simp)]
          rw [hb] at h
          simp only at h ⊢
          cases hr : readTrailerReq cfg .stall hd.trailer r with
          | error err => rw [hr] at h; simp at h
          | ok q =>
            obtain ⟨t, r'⟩ := q
            rw [readTrailerReq_append cfg e hd.trailer r x t r' hr]
            rw [hr] at h
            cases t with
            | none =>
              simp only [BodyRes.ok.injEq] at h ⊢
              obtain ⟨h1, h2, h3, h4⟩ := h
              exact ⟨h1, h2, h3, by rw [h4]⟩
            | some t =>
              simp only [BodyRes.ok.injEq] at h ⊢
              obtain ⟨h1, h2, h3, h4⟩ := h
              exact ⟨h1, h2, h3, by rw [h4]⟩
      · rename_i c3
        rw [if_neg c3] at h
        simp only [BodyRes.ok.injEq] at h ⊢
        obtain ⟨h1, h2, h3, h4⟩ := h
        exact ⟨h1, h2, h3, by rw [h4]⟩

/-! ### "need more" after the pre-check can never turn into an accepted head -/

theorem rawAux_has_lf : ∀ (B : Bytes) (l : Nat) (cr : Bool), (rawHeadersAux l cr B).isSome = true →
    ∃ j, indexByte 10 B = some j
  | [], _, _, h => by simp [rawHeadersAux] at h
  | c :: t, l, cr, h => by
    simp only [indexByte]
    by_cases hc : c = 10
    · exact ⟨0, by simp [hc]⟩
    · simp only [rawHeadersAux, hc, if_false, Option.isSome_map] at h
      obtain ⟨j, hj⟩ := rawAux_has_lf t _ _ h
      exact ⟨j + 1, by simp [hc, hj]⟩

theorem indexByte_append_ge (c : UInt8) : ∀ (B x : Bytes) (n : Nat), indexByte c B = none →
    indexByte c (B ++ x) = some n → B.length ≤ n
  | [], _, _, _, _ => by simp
  | y :: t, x, n, h, h' => by
    simp only [indexByte, List.cons_append] at h h'
    by_cases hy : y = c
    · simp [hy] at h
    · simp only [hy, if_false] at h h'
      cases hi : indexByte c (t ++ x) with
      | none => simp [hi] at h'
      | some k =>
        simp [hi] at h'; subst h'
        have ht : indexByte c t = none := by
          cases ht : indexByte c t with
          | none => rfl
          | some _ => simp [ht] at h
        have := indexByte_append_ge c t x k ht hi
        simp; omega

theorem scanNext_needMore_append (dn : Bool) (B x : Bytes) (hb : HasBlank B) (h : scanNext dn B = .needMore) :
    scanNext dn (B ++ x) = .needMore ∨ scanNext dn (B ++ x) = .invalidName := by
  rcases scanNext_shape dn B with ⟨_, hl⟩ | ⟨t, rfl, h'⟩ | ⟨t, rfl, h'⟩ | ⟨c, d, t, rfl, h1, h2, h'⟩
  · exfalso
    match B, hl, hb with
    | [], _, hb => exact not_hasBlank_nil hb
    | [c], _, hb =>
      by_cases hc : c = 10
      · subst hc; rw [scanNext_lf] at h; simp at h
      · simp [HasBlank, rawHeadersAux, hc] at hb
  · rw [h] at h'; simp at h'
  · rw [h] at h'; simp at h'
  · rw [h'] at h
    rw [List.cons_append, List.cons_append, scanNext_line dn c d (t ++ x) h1 h2, ← List.cons_append,
      ← List.cons_append]
    obtain ⟨xi, hx⟩ := rawAux_has_lf _ 0 false hb
    have hxl := indexByte_lt 10 _ xi hx
    cases hn : indexByte 58 (c :: d :: t) with
    | some n =>
      exfalso
      have hlt : ¬ xi < n := by
        intro hlt
        rw [scanLine_of_pos dn _ n xi hn hx, if_pos hlt] at h; simp at h
      have g1 := indexByte_get 58 _ n hn
      have g2 := indexByte_get 10 _ xi hx
      have hne : n ≠ xi := by
        intro he; subst he; rw [g1] at g2; exact absurd g2 (by decide)
      obtain ⟨sp, B1, n1, p, _⟩ := valuePos_exists _ [] n xi hn hx (by omega)
      rw [scanLine_of_pos dn _ n xi hn hx, if_neg hlt, scanValue_eq dn _ n sp B1 n1 p] at h
      simp [scanKV] at h
    | none =>
      cases hn' : indexByte 58 (c :: d :: t ++ x) with
      | none =>
        left
        simp only [scanLine, hn', indexByte_append 10 _ x xi hx]
      | some n' =>
        right
        have := indexByte_append_ge 58 _ x n' hn hn'
        rw [scanLine_of_pos dn _ n' xi hn' (indexByte_append 10 _ x xi hx), if_pos (by omega)]

theorem parseHeadersLoop_needMore_never_ok (dn : Bool) (x : Bytes) : ∀ (fuel fuel' : Nat) (B : Bytes)
    (st : HdrState) (hl : Nat) (p : HdrState × Nat), HasBlank B → B.length < fuel →
    parseHeadersLoop dn fuel B st hl = .error .needMore →
    parseHeadersLoop dn fuel' (B ++ x) st hl ≠ .ok p
  | 0, _, _, _, _, _, _, hf, _ => by omega
  | _ + 1, 0, _, _, _, _, _, _, _ => by simp [parseHeadersLoop]
  | fuel + 1, fuel' + 1, B, st, hl, p, hb, hf, h => by
    unfold parseHeadersLoop at h ⊢
    cases hs : scanNext dn B with
    | needMore =>
      rcases scanNext_needMore_append dn B x hb hs with h' | h' <;> rw [h'] <;> simp only
      · split <;> simp
      · simp
    | fin n => simp only [hs] at h; split at h <;> simp at h
    | invalidName => simp [hs] at h
    | kv k v rest n =>
      rw [scanNext_append dn B x hb (by rw [hs]; simp), hs]
      simp only [hs, Scan.app] at h ⊢
      cases ha : applyHeader dn st k v with
      | none => simp [ha] at h
      | some st' =>
        simp only [ha] at h ⊢
        obtain ⟨_, hlen, hb', _⟩ := scanNext_rest dn B k v rest n hs
        exact parseHeadersLoop_needMore_never_ok dn x fuel fuel' rest st' _ p (hb' hb) (by omega) h

theorem parseReqHead_needMore_never_ok (dn : Bool) (b x : Bytes) (hd0 : ReqHead) (m k : Nat)
    (h1 : parseFirstLine b = .ok (hd0, m)) (h2 : rawHeadersLen (b.drop m) = some k)
    (h3 : parseReqHead dn b = .error .needMore) (hd : ReqHead) (n : Nat) :
    parseReqHead dn (b ++ x) ≠ .ok (hd, n) := by
  have hm := parseFirstLine_le b hd0 m h1
  have hb : HasBlank (List.drop m b) := by
    unfold HasBlank; unfold rawHeadersLen at h2; simp [h2]
  unfold parseReqHead at h3 ⊢
  rw [parseFirstLine_append b x _ h1 (by simp)]
  rw [h1] at h3
  simp only [bind, Except.bind] at h3 ⊢
  rw [List.drop_append_of_le_length hm, rawHeadersLen_append _ x k h2]
  simp only [h2] at h3 ⊢
  unfold parseHeaders at h3 ⊢
  cases hl : parseHeadersLoop dn ((List.drop m b).length + 1) (List.drop m b)
      { head := { hd0 with cl := -2 } } 0 with
  | ok p => rw [hl] at h3; simp [bind, Except.bind] at h3
  | error e =>
    cases e with
    | bad => rw [hl] at h3; simp [bind, Except.bind] at h3
    | needMore =>
      cases hl' : parseHeadersLoop dn ((List.drop m b ++ x).length + 1) (List.drop m b ++ x)
          { head := { hd0 with cl := -2 } } 0 with
      | ok p =>
        exact absurd hl' (parseHeadersLoop_needMore_never_ok dn x _ _ _ _ 0 p hb (by omega) hl)
      | error e => simp [bind, Except.bind]

/-! ### the keep-alive loop: what has been emitted is not undone by later bytes -/

/-- the only thing at the end of a trace that later bytes may replace: nothing, the hand-over marker, or
one closing error response -/
def TailOK (t : List Ev) : Prop := t = [] ∨ t = [.unmodelled] ∨ ∃ st, st ≠ 200 ∧ t = [.resp st true]

theorem serveLoop_head_prefix (cfg : Cfg) (e : End) (fuel : Nat) (first : Bool) (s : Bytes) (hd : ReqHead) (n : Nat)
    (hg : (!first && decide (s.length < 4)) = false) (hp : parseReqHead cfg.disableNorm s = .ok (hd, n)) :
    ∃ more, serveLoop cfg e (fuel + 1) first s = (if mayContinue hd then [Ev.continue100] else []) ++ more := by
  unfold serveLoop
  simp only [hg, Bool.false_eq_true, if_false, hp]
  split
  · exact ⟨_, rfl⟩
  · exact ⟨_, rfl⟩
  · exact ⟨_, List.append_assoc _ _ _⟩

theorem serveLoop_extension (cfg : Cfg) (e : End) (x : Bytes) : ∀ (fuel fuel' : Nat) (first : Bool) (s : Bytes),
    fuel ≤ fuel' → ∃ pre tail more, serveLoop cfg .stall fuel first s = pre ++ tail ∧ TailOK tail ∧
      serveLoop cfg e fuel' first (s ++ x) = pre ++ more
  | 0, _, _, _, _ => ⟨[], [], _, by simp [serveLoop], Or.inl rfl, (List.nil_append _).symm⟩
  | _ + 1, 0, _, _, hf => by omega
  | fuel + 1, fuel' + 1, first, s, hf => by
    cases hg : (!first && decide (s.length < 4)) with
    | true => exact ⟨[], [], _, by unfold serveLoop; simp [hg], Or.inl rfl, (List.nil_append _).symm⟩
    | false =>
      have hg' : (!first && decide ((s ++ x).length < 4)) = false := by
        cases first <;> simp at hg ⊢; omega
      cases hp : parseReqHead cfg.disableNorm s with
      | error err =>
        cases err with
        | bad =>
          refine ⟨[], [.resp 400 true], _, ?_, Or.inr (Or.inr ⟨400, by decide, rfl⟩), (List.nil_append _).symm⟩
          unfold serveLoop; simp [hg, hp]
        | needMore =>
          refine ⟨[], [.resp 408 true], _, ?_, Or.inr (Or.inr ⟨408, by decide, rfl⟩), (List.nil_append _).symm⟩
          unfold serveLoop; simp [hg, hp]
      | ok q =>
        obtain ⟨hd, n⟩ := q
        have hp' := parseReqHead_append cfg.disableNorm s x _ hp (by simp)
        have hn := parseReqHead_le cfg.disableNorm s hd n hp
        cases hb : continueReadBody cfg .stall hd (s.drop n) with
        | err err =>
          obtain ⟨more, hm⟩ := serveLoop_head_prefix cfg e fuel' first (s ++ x) hd n hg' hp'
          have key : ∀ (t : List Ev), TailOK t →
              serveLoop cfg .stall (fuel + 1) first s = (if mayContinue hd then [Ev.continue100] else []) ++ t →
              ∃ pre tail more, serveLoop cfg .stall (fuel + 1) first s = pre ++ tail ∧ TailOK tail ∧
                serveLoop cfg e (fuel' + 1) first (s ++ x) = pre ++ more :=
            fun t ht h => ⟨_, t, more, h, ht, hm⟩
          cases err with
          | unmodelled =>
            refine key [.unmodelled] (Or.inr (Or.inl rfl)) ?_
            unfold serveLoop; simp only [hg, Bool.false_eq_true, if_false, hp, hb]
          | eof =>
            refine key (if mayContinue hd then [.resp 400 true] else []) ?_ ?_
            · cases mayContinue hd <;> simp [TailOK]
            · unfold serveLoop; simp only [hg, Bool.false_eq_true, if_false, hp, hb, errStatus]
          | timeout =>
            refine key [.resp 408 true] (by simp [TailOK]) ?_
            unfold serveLoop; simp only [hg, Bool.false_eq_true, if_false, hp, hb, errStatus]
          | hzTimeout =>
            refine key [.resp 400 true] (by simp [TailOK]) ?_
            unfold serveLoop; simp only [hg, Bool.false_eq_true, if_false, hp, hb, errStatus]
          | unexpectedEOF =>
            refine key [.resp 400 true] (by simp [TailOK]) ?_
            unfold serveLoop; simp only [hg, Bool.false_eq_true, if_false, hp, hb, errStatus]
          | bad =>
            refine key [.resp 400 true] (by simp [TailOK]) ?_
            unfold serveLoop; simp only [hg, Bool.false_eq_true, if_false, hp, hb, errStatus]
          | tooLarge =>
            refine key [.resp 413 true] (by simp [TailOK]) ?_
            unfold serveLoop; simp only [hg, Bool.false_eq_true, if_false, hp, hb, errStatus]
        | ok hd' body tr rest =>
          have hb' := continueReadBody_append cfg e hd (s.drop n) x hd' body tr rest hb
          rw [← List.drop_append_of_le_length hn] at hb'
          cases hc : (cfg.disableKeepalive || hd'.connClose) with
          | true =>
            refine ⟨(if mayContinue hd then [Ev.continue100] else []) ++
              [Ev.req { head := hd', body := body, trailers := tr }, Ev.resp 200 true], [], [], ?_, Or.inl rfl, ?_⟩
            · unfold serveLoop
              simp only [hg, Bool.false_eq_true, if_false, hp, hb, hc, if_true, List.append_nil]
            · unfold serveLoop
              simp only [hg', Bool.false_eq_true, if_false, hp', hb', hc, if_true, List.append_nil]
          | false =>
            obtain ⟨pre, tail, more, h1, h2, h3⟩ := serveLoop_extension cfg e x fuel fuel' false rest (by omega)
            refine ⟨(if mayContinue hd then [Ev.continue100] else []) ++
              [Ev.req { head := hd', body := body, trailers := tr }, Ev.resp 200 false] ++ pre, tail, more, ?_, h2, ?_⟩
            · unfold serveLoop
              simp only [hg, Bool.false_eq_true, if_false, hp, hb, hc, h1, List.append_assoc]
            · unfold serveLoop
              simp only [hg', Bool.false_eq_true, if_false, hp', hb', hc, h3, List.append_assoc]

/-- **Loop level.** Whatever the server has emitted on the bytes `s` received so far (while it merely waits for
more), except possibly one final error response or hand-over marker, is a prefix of what it emits on every
extension `s ++ x` of the stream, however that stream ends. -/
theorem serve_extension (cfg : Cfg) (e : End) (s x : Bytes) :
    ∃ pre tail more, serve cfg .stall s = pre ++ tail ∧ TailOK tail ∧ serve cfg e (s ++ x) = pre ++ more :=
  serveLoop_extension cfg e x _ _ true s (by simp)

end Hertz.H1
