/-
C10, Client level — proofs about the host-client map and its janitor (`Model/ClientHosts.lean`),
on top of the pool invariants of `Proofs/ClientPool.lean`.
-/
import Hertz.Proofs.ClientPool
import Hertz.Model.ClientHosts
import Hertz.Gen.ClientPaths
namespace Hertz.Pool

/-- invariant of a host entry: the HostClient in the map satisfies the pool invariants, every
HostClient the janitor dropped satisfies them too and counts no connection -/
structure CInv (cfg : Cfg) (h : HostEntry) : Prop where
  cur : ∀ s, h.cur = some s → Inv cfg s
  dropped : ∀ s ∈ h.dropped, Inv cfg s ∧ s.count = 0

theorem cinv_init (cfg : Cfg) : CInv cfg {} := ⟨(by intro s h; cases h), (by intro s h; cases h)⟩

theorem cstep_cinv {cfg : Cfg} {h h' : HostEntry} {e : CEv} (hi : CInv cfg h) (hs : cstep cfg h e = some h') :
    CInv cfg h' := by
  unfold cstep at hs
  cases e with
  | create =>
    simp only [cstepWith] at hs
    split at hs
    · injection hs with hs; subst hs
      exact ⟨(by intro s hs; injection hs with hs; subst hs; exact inv_init cfg), hi.dropped⟩
    · contradiction
  | pool ev =>
    simp only [cstepWith] at hs
    split at hs
    · rename_i s hcur
      cases hst : step cfg s ev with
      | none => simp [hst] at hs
      | some s' =>
        simp only [hst, Option.map] at hs
        injection hs with hs; subst hs
        exact ⟨(by intro t ht; injection ht with ht; subst ht; exact step_inv (hi.cur s hcur) hst), hi.dropped⟩
    · contradiction
  | tick =>
    simp only [cstepWith] at hs
    split at hs
    · rename_i s hcur
      split at hs
      · rename_i hrm
        injection hs with hs; subst hs
        refine ⟨(by intro t ht; cases ht), ?_⟩
        intro t ht
        cases ht with
        | head => exact ⟨hi.cur s hcur, (by simpa [shouldRemove] using hrm)⟩
        | tail _ ht => exact hi.dropped t ht
      · injection hs with hs; subst hs; exact hi
    · injection hs with hs; subst hs; exact hi

theorem crun_cinv {cfg : Cfg} : ∀ {evs : List CEv} {h h' : HostEntry}, CInv cfg h → crun cfg h evs = some h' → CInv cfg h'
  | [], h, h', hi, hr => by simp [crun, crunWith] at hr; subst hr; exact hi
  | e :: es, h, h', hi, hr => by
    simp only [crun, crunWith] at hr
    split at hr
    · rename_i h1 hs1
      exact crun_cinv (cstep_cinv hi hs1) hr
    · contradiction

theorem creach_cinv {cfg : Cfg} {evs : List CEv} {h : HostEntry} (hr : crun cfg {} evs = some h) : CInv cfg h :=
  crun_cinv (cinv_init cfg) hr

theorem sumCounts_zero : ∀ {l : List State}, (∀ s ∈ l, s.count = 0) → sumCounts l = 0
  | [], _ => rfl
  | s :: l, h => by
    simp only [sumCounts]
    have h1 := h s (List.mem_cons_self ..)
    have h2 := sumCounts_zero (l := l) (fun t ht => h t (List.mem_cons_of_mem _ ht))
    omega

theorem hostCounted_bounds {cfg : Cfg} {h : HostEntry} (hi : CInv cfg h) :
    0 ≤ hostCounted h ∧ hostCounted h ≤ cfg.maxConns := by
  have hz := sumCounts_zero (l := h.dropped) (fun s hs => (hi.dropped s hs).2)
  unfold hostCounted
  rw [hz]
  cases hc : h.cur with
  | none => simp
  | some s =>
    have i := hi.cur s hc
    have c := i.cons
    have l := i.le
    unfold Cons at c
    simp only []
    omega

/-- a HostClient that counts no connection has none: nothing idle, in use, parked in a waiter,
being dialled or awaiting its decrement -/
theorem count_zero_empty {cfg : Cfg} {s : State} (i : Inv cfg s) (hz : s.count = 0) :
    s.idle = [] ∧ s.held = [] ∧ s.boxed = [] ∧ s.slots = [] ∧ s.helperSlots = 0 ∧ s.owed = [] := by
  have c := i.cons
  unfold Cons at c
  refine ⟨?_, ?_, ?_, ?_, ?_, ?_⟩ <;> first | (apply List.eq_nil_of_length_eq_zero; omega) | omega

/-- whoever sent `Connection: close` (the request asked for it, or the client added it because
the connection was too old) never gets the connection back into the pool -/
theorem close_sent_closes (inPool reqClose respClose resetConn : Bool) (h : (reqClose || resetConn) = true) :
    (verdict inPool (.done reqClose respClose resetConn)).act = .close := by
  cases reqClose <;> cases resetConn <;> cases respClose <;> simp_all [verdict]

/-- the same through the scripted peer of the harness, whatever the peer does with the header -/
theorem peerAnswer_close_not_released (inPool : Bool) (ppol : Nat) (q : CReq) (resetConn : Bool)
    (h : (q.close || resetConn) = true) : (verdict inPool (peerAnswer ppol q resetConn).1).act ≠ .release := by
  unfold peerAnswer
  generalize peerFault q.fault = r
  cases hr : r.1 <;> simp only [hr] <;> try (simp [verdict]; done)
  all_goals (try (cases inPool <;> simp [verdict]; done))
  rename_i a b c
  rw [close_sent_closes inPool q.close _ resetConn h]
  simp

theorem should_remove_matches_gen : shouldRemoveSrc = Hertz.Gen.Client.shouldRemoveBody := by decide
theorem janitor_delete_matches_gen : janitorDeleteSrc = Hertz.Gen.Client.janitorDelete := by decide
theorem close_decision_matches_gen : closeDecisionSrc = Hertz.Gen.Client.closeDecision := by decide
theorem retire_old_conn_matches_gen : retireOldConnSrc = Hertz.Gen.Client.retireOldConn := by decide

end Hertz.Pool
