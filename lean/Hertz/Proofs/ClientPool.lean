/-
C10 — invariants of the pool model (`Hertz.Pool.step`) proved for every schedule (every list of
events accepted by `step`, of any length, from the empty pool), and the decision logic of
`doNonNilReqResp` / `Do`.  Core Lean only (`import Lean` is needed for the small `mem_facts`
tactic below, which feeds `omega` the length/count facts that follow from the guards of `step`).
-/
import Lean
import Hertz.Model.ClientPool
import Hertz.Gen.ClientPaths
namespace Hertz.Pool
set_option linter.unusedSimpArgs false

theorem getLast?_split : ∀ {l : List Nat} {c : Nat}, l.getLast? = some c → l = l.dropLast ++ [c]
  | [], _, h => by simp at h
  | [a], c, h => by simp at h; simp [h]
  | a :: b :: t, c, h => by
    have h' : (b :: t).getLast? = some c := by simpa [List.getLast?_cons_cons] using h
    have := getLast?_split h'
    simp only [List.dropLast_cons_cons, List.cons_append]
    rw [← this]

theorem len_dropLast' {l : List Nat} {c : Nat} (h : l.getLast? = some c) : l.dropLast.length + 1 = l.length := by
  have := congrArg List.length (getLast?_split h)
  rw [List.length_append, List.length_singleton] at this; omega

theorem count_dropLast' (x : Nat) {l : List Nat} {c : Nat} (h : l.getLast? = some c) :
    l.dropLast.count x + (if c = x then 1 else 0) = l.count x := by
  have := congrArg (List.count x) (getLast?_split h)
  rw [List.count_append, List.count_singleton] at this
  simp only [beq_iff_eq] at this
  omega

theorem len_erase {a : Nat} {l : List Nat} (h : a ∈ l) : (l.erase a).length + 1 = l.length := by
  have := List.length_erase_of_mem h
  have := List.length_pos_of_mem h
  omega

theorem count_erase_mem (x : Nat) {a : Nat} {l : List Nat} (h : a ∈ l) :
    (l.erase a).count x + (if a = x then 1 else 0) = l.count x := by
  rw [List.count_erase]
  by_cases hax : a = x
  · subst hax
    have := List.count_pos_iff.mpr h
    simp; omega
  · simp [hax]

theorem count_take_drop (x n : Nat) (l : List Nat) : (l.take n).count x + (l.drop n).count x = l.count x := by
  rw [← List.count_append, List.take_append_drop]

theorem fresh_count {s : State} {c : Nat} (h : fresh s c = true) :
    s.idle.count c = 0 ∧ s.held.count c = 0 ∧ s.boxed.count c = 0 ∧ s.closed.count c = 0 := by
  simp [fresh] at h
  simp [List.count_eq_zero, h]

open Lean Elab Tactic Meta in
/-- For every hypothesis (or conjunct of a hypothesis) `a ∈ l` / `l.getLast? = some c` /
`fresh s c = true` adds the matching length and `count x` facts, for `omega` to use. -/
partial def addFacts (x : Option Expr) (e t : Expr) : TacticM Unit := do
  let t ← whnfR t
  if t.isAppOfArity ``And 2 then
    addFacts x (← mkAppM ``And.left #[e]) (t.getArg! 0)
    addFacts x (← mkAppM ``And.right #[e]) (t.getArg! 1)
  else
    let tryAdd (n : Name) (args : Array Expr) : TacticM Unit := do
      try
        let pf ← mkAppM n args
        let ty ← inferType pf
        liftMetaTactic fun g => do
          let g ← g.assert `fact ty pf
          let (_, g) ← g.intro1
          pure [g]
      catch _ => pure ()
    tryAdd ``len_erase #[e]
    tryAdd ``len_dropLast' #[e]
    tryAdd ``fresh_count #[e]
    if let some x := x then
      tryAdd ``count_erase_mem #[x, e]
      tryAdd ``count_dropLast' #[x, e]

open Lean Elab Tactic Meta in
elab "mem_facts" x:(term)? : tactic => withMainContext do
  let x ← match x with
    | some x => pure (some (← elabTerm x none))
    | none => pure none
  let lctx ← getLCtx
  for d in lctx do
    if d.isImplementationDetail then continue
    if !(← isProp d.type) then continue
    addFacts x d.toExpr d.type


/-- one step of case analysis on `step`: afterwards `hs` is gone and `s'` is the updated record -/
macro "step_cases" : tactic => `(tactic|
  (cases ‹Ev› <;> simp only [step] at * <;> (repeat' split at *)))

/-! ### I1 — conservation of `connsCount` -/

/-- `connsCount` counts exactly: idle connections, connections in somebody's hands, connections
delivered to a waiter and not yet picked up, dial slots (callers and `dialConnFor` goroutines),
and connections already closed whose `decConnsCount` has not run yet. -/
def Cons (s : State) : Prop :=
  s.count = s.idle.length + s.held.length + s.boxed.length + s.slots.length + s.helperSlots + s.owed.length

theorem step_cons {cfg : Cfg} {s s' : State} {e : Ev} (hc : Cons s) (hs : step cfg s e = some s') : Cons s' := by
  unfold Cons at *
  cases e <;> simp only [step] at hs <;> (repeat' split at hs) <;>
    first
    | contradiction
    | (injection hs with hs; subst hs; mem_facts;
       try simp only [List.length_cons, List.length_append, List.length_drop, List.length_take, List.length_nil] at *;
       omega)

/-! ### I2 — `connsCount ≤ MaxConns` -/

theorem step_le {cfg : Cfg} {s s' : State} {e : Ev} (hc : s.count ≤ cfg.maxConns) (hs : step cfg s e = some s') :
    s'.count ≤ cfg.maxConns := by
  cases e <;> simp only [step] at hs <;> (repeat' split at hs) <;>
    first
    | contradiction
    | (injection hs with hs; subst hs; first | omega | (simp only []; omega))

/-! ### I3 — exclusivity: a connection is in at most one place -/

def Excl (s : State) : Prop :=
  ∀ x, s.idle.count x + s.held.count x + s.boxed.count x + s.closed.count x ≤ 1

theorem step_excl {cfg : Cfg} {s s' : State} {e : Ev} (hc : Excl s) (hs : step cfg s e = some s') : Excl s' := by
  unfold Excl at *
  intro x
  have hx := hc x
  cases e
  case reap a n =>
    simp only [step] at hs
    split at hs
    · injection hs with hs; subst hs
      have := count_take_drop x n s.idle
      simp only [List.count_append]
      omega
    · contradiction
  case dialOk a c =>
    simp only [step] at hs
    (repeat' split at hs) <;> first
      | contradiction
      | (injection hs with hs; subst hs
         rename_i h
         have hf := fresh_count h.1
         simp only [List.count_cons, beq_iff_eq]
         by_cases hcx : c = x
         · subst hcx; simp only [if_true]; omega
         · simp only [hcx, if_false]; omega)
  all_goals
    simp only [step] at hs <;> (repeat' split at hs) <;>
    first
    | contradiction
    | (injection hs with hs; subst hs; mem_facts x;
       try simp only [List.count_cons, List.count_append, List.count_singleton, List.count_nil, beq_iff_eq] at *;
       omega)

/-! ### I4 — whatever a caller owns, it owns while inside `Do` -/

structure Own (s : State) : Prop where
  held : ∀ c ∈ s.held, s.holder c < auxBase → s.holder c ∈ s.inDo
  slots : ∀ a ∈ s.slots, a ∈ s.inDo
  owed : ∀ a ∈ s.owed, a < auxBase → a ∈ s.inDo
  live : ∀ w ∈ s.live, s.wowner w ∈ s.inDo
  boxed : ∀ c ∈ s.boxed, s.wowner (s.boxOf c) ∈ s.inDo


theorem ownsNothing_spec {s : State} {a : Nat} (h : ownsNothing s a = true) :
    (∀ c ∈ s.held, s.holder c ≠ a) ∧ a ∉ s.slots ∧ a ∉ s.owed ∧ (∀ w ∈ s.live, s.wowner w ≠ a) ∧
    (∀ c ∈ s.boxed, s.wowner (s.boxOf c) ≠ a) := by
  simp [ownsNothing, List.all_eq_true] at h
  obtain ⟨⟨⟨⟨h1, h2⟩, h3⟩, h4⟩, h5⟩ := h
  exact ⟨h1, h2, h3, h4, h5⟩

theorem step_own {cfg : Cfg} {s s' : State} {e : Ev} (ho : Own s) (hs : step cfg s e = some s') : Own s' := by
  obtain ⟨h1, h2, h3, h4, h5⟩ := ho
  cases e <;> simp only [step] at hs <;> (repeat' split at hs) <;>
    first
    | contradiction
    | (injection hs with hs; subst hs; exact ⟨h1, h2, h3, h4, h5⟩)
    | skip
  all_goals (
    injection hs with hs; subst hs
    refine ⟨?_, ?_, ?_, ?_, ?_⟩ <;> simp only [] <;> intro y hy <;> (try simp only [upd]) <;>
    first
    | (simp_all [List.mem_cons]; done)
    | skip)
  all_goals (
    first
    | (rename_i hg; have hn := ownsNothing_spec hg.2; have hm := hg.1
       grind [List.mem_of_mem_erase])
    | grind [List.mem_of_mem_erase, List.mem_of_mem_take])

/-! ### I5 — the pending-request gauge -/

def Pend (s : State) : Prop := s.pending = s.inDo.length

theorem step_pend {cfg : Cfg} {s s' : State} {e : Ev} (hc : Pend s) (hs : step cfg s e = some s') : Pend s' := by
  unfold Pend at *
  cases e <;> simp only [step] at hs <;> (repeat' split at hs) <;>
    first
    | contradiction
    | (injection hs with hs; subst hs; mem_facts;
       try simp only [List.length_cons, Bool.false_eq_true, if_true, if_false, *] at *;
       try omega)

/-! ### All invariants, for every schedule -/

structure Inv (cfg : Cfg) (s : State) : Prop where
  cons : Cons s
  le : s.count ≤ cfg.maxConns
  excl : Excl s
  own : Own s
  pend : Pend s

theorem inv_init (cfg : Cfg) : Inv cfg init := by
  refine ⟨?_, ?_, ?_, ⟨?_, ?_, ?_, ?_, ?_⟩, ?_⟩ <;> simp [init, Cons, Excl, Pend]

theorem step_inv {cfg : Cfg} {s s' : State} {e : Ev} (h : Inv cfg s) (hs : step cfg s e = some s') : Inv cfg s' :=
  ⟨step_cons h.cons hs, step_le h.le hs, step_excl h.excl hs, step_own h.own hs, step_pend h.pend hs⟩

theorem run_inv {cfg : Cfg} : ∀ {evs : List Ev} {s s' : State}, Inv cfg s → run cfg s evs = some s' → Inv cfg s'
  | [], s, s', h, hr => by simp [run] at hr; subst hr; exact h
  | e :: es, s, s', h, hr => by
    simp only [run] at hr
    split at hr
    · rename_i s1 hs1
      exact run_inv (step_inv h hs1) hr
    · contradiction

theorem reach_inv {cfg : Cfg} {evs : List Ev} {s : State} (hr : run cfg init evs = some s) : Inv cfg s :=
  run_inv (inv_init cfg) hr

/-! ### Quiescence -/

theorem eq_nil_of_forall_not_mem {l : List Nat} (h : ∀ x ∈ l, False) : l = [] := by
  cases l with
  | nil => rfl
  | cons a t => exact (h a (by simp)).elim

theorem quiet_rest {cfg : Cfg} {s : State} (h : Inv cfg s) (hq : Quiet s) :
    s.held = [] ∧ s.slots = [] ∧ s.owed = [] ∧ s.live = [] ∧ s.boxed = [] ∧ s.count = s.idle.length := by
  obtain ⟨hd, hh, hheld, howed⟩ := hq
  have o := h.own
  have e1 : s.held = [] := eq_nil_of_forall_not_mem (fun c hc => by
    have := o.held c hc (hheld c hc); rw [hd] at this; simp at this)
  have e2 : s.slots = [] := eq_nil_of_forall_not_mem (fun a ha => by
    have := o.slots a ha; rw [hd] at this; simp at this)
  have e3 : s.owed = [] := eq_nil_of_forall_not_mem (fun a ha => by
    have := o.owed a ha (howed a ha); rw [hd] at this; simp at this)
  have e4 : s.live = [] := eq_nil_of_forall_not_mem (fun w hw => by
    have := o.live w hw; rw [hd] at this; simp at this)
  have e5 : s.boxed = [] := eq_nil_of_forall_not_mem (fun c hc => by
    have := o.boxed c hc; rw [hd] at this; simp at this)
  refine ⟨e1, e2, e3, e4, e5, ?_⟩
  have := h.cons
  unfold Cons at this
  rw [e1, e2, e3, e5, hh] at this
  simpa using this

/-! ### Decision logic of `doNonNilReqResp` and `Do` -/

theorem verdict_release_iff (inPool : Bool) (ex : Exch) :
    (verdict inPool ex).act = .release ↔ ex.clean = true := by
  cases ex <;> simp [verdict, Exch.clean]
  · split <;> simp
  · rename_i a b c; cases a <;> cases b <;> cases c <;> simp

theorem verdict_err_closes (inPool : Bool) (ex : Exch) (h : (verdict inPool ex).err ≠ .none) :
    (verdict inPool ex).act = .close := by
  cases ex <;> simp_all [verdict]
  · split <;> simp

theorem verdict_badPool (inPool : Bool) (ex : Exch) (h : (verdict inPool ex).err = .badPool) :
    inPool = true ∧ (verdict inPool ex).canRetry = true ∧ (verdict inPool ex).act = .close := by
  cases ex <;> cases inPool <;> simp_all [verdict]

theorem doLoop_nonidem (l : List Attempt) : (doLoop false l).length ≤ 1 := by
  cases l with
  | nil => simp [doLoop]
  | cons t r => simp only [doLoop]; split <;> simp

theorem sentCount_le_length (l : List Attempt) : sentCount l ≤ l.length := by
  unfold sentCount; exact List.length_filter_le _ _

/-- every attempt that `Do` follows by another one failed with `ErrBadPoolConn` on a request the
default policy may repeat -/
theorem doLoop_retried (idem : Bool) : ∀ (l : List Attempt) (i : Nat), i + 1 < (doLoop idem l).length →
    ∃ t, (doLoop idem l)[i]? = some t ∧ t.err = .badPool ∧ t.canRetry = true ∧ idem = true
  | [], i, h => by simp [doLoop] at h
  | t :: r, i, h => by
    simp only [doLoop] at h ⊢
    split at h
    · simp at h
    · split at h
      · rename_i h1 h2
        simp only [h1, h2, if_false, if_true]
        cases i with
        | zero =>
          refine ⟨t, by simp, ?_⟩
          simp at h2
          exact ⟨h2.2, h2.1.1, h2.1.2⟩
        | succ j =>
          have := doLoop_retried idem r j (by simpa using h)
          simpa using this
      · simp at h

/-! ### The tie to the source: facts regenerated from /repo on every run -/

/-- Every `return` of `doNonNilReqResp` after `acquireConn` — its `canIdempotentRetry` value,
whether it returns an error, and whether it closes, releases or keeps the connection — is what
`verdict` says.  Breaks when a `closeConn`/`releaseConn` is dropped, added, swapped, or a retry flag
changes in the Go source. -/
theorem model_matches_gen : modelPaths = Hertz.Gen.Client.doPaths := by decide

theorem retry_cond_matches_gen : doRetryCond = Hertz.Gen.Client.doRetryCond := by decide

theorem consts_match_gen : defaultMaxConnsPerHost = Hertz.Gen.Client.defaultMaxConnsPerHost ∧
    idempotentMethods = Hertz.Gen.Client.idempotentMethods := by decide

/-- Every `return` of `HostClient.Do` is preceded by the decrement of `pendingRequests` (the model's
`endd` decrements on both exits).  Breaks when the decrement of the `ctx.Done()` arm is removed. -/
theorem pending_decrement_matches_gen : doReturnsDecrement = Hertz.Gen.Client.doReturnsDecrement := by decide

end Hertz.Pool
