import Hertz.Model.Tracer
/-!
Proofs for C19.

Plan: (1) one pass through the loop body, started from the loop-head state, is a *block* of actions that
depends on the outcome only (finite check over all configurations × outcomes, by the kernel);
a continuing pass hands the loop-head state on.  (2) Every block, run against a clean observer
(empty event table, no error, no request data) whatever its clock and counters are, yields exactly one
`Start … Finish` pair that the specification accepts, and leaves the observer clean (symbolic
evaluation per block and level).  (3) Induction over the history and over the `Serve` calls of a
connection.
-/
namespace Hertz.Tracer

/-! ### finite quantification -/

def allOutcomes : List Outcome :=
  [.headerErr .nothingRead, .headerErr .eof, .headerErr .other,
   .bodyErr .nothingRead, .bodyErr .eof, .bodyErr .other,
   .contWriteErr, .contBodyErr,
   .handled .panic, .handled .writeErr, .handled .flushErr, .handled .releaseErr,
   .handled .hijackTimeoutErr, .handled .hijacked, .handled .close, .handled .next]

theorem outcome_mem (oc : Outcome) : oc ∈ allOutcomes := by
  cases oc with
  | headerErr e => cases e <;> decide
  | bodyErr e => cases e <;> decide
  | contWriteErr => decide
  | contBodyErr => decide
  | handled t => cases t <;> decide

/-- `p` holds for every configuration, position in the connection, idle-wait answer and outcome -/
def checkAll (p : Cfg → Bool → Iter → Bool) : Bool :=
  [true, false].all fun en => [true, false].all fun iz => [true, false].all fun first =>
    [true, false].all fun pf => allOutcomes.all fun oc => p ⟨en, iz⟩ first ⟨pf, oc⟩

theorem checkAll_spec {p : Cfg → Bool → Iter → Bool} (h : checkAll p = true)
    (cfg : Cfg) (first : Bool) (it : Iter) : p cfg first it = true := by
  obtain ⟨en, iz⟩ := cfg
  obtain ⟨pf, oc⟩ := it
  have hm := outcome_mem oc
  simp only [checkAll, List.all_eq_true] at h
  have hb : ∀ b : Bool, b ∈ [true, false] := by intro b; cases b <;> simp
  exact h en (hb en) iz (hb iz) first (hb first) pf (hb pf) oc hm

/-! ### one pass through the loop body -/

/-- actions of one pass started from the loop-head state, the deferred epilogue included when the pass
returns; `some l` = the loop goes round with locals `l` -/
def iterStep (cfg : Cfg) (first : Bool) (it : Iter) : List Act × Option Loc :=
  match iter cfg first it {} with
  | .error w => ((epilogue cfg w).acts, none)
  | .ok w => (w.acts, some w.loc)

theorem serveLoop_cons (cfg : Cfg) (first : Bool) (it : Iter) (rest : List Iter) :
    serveLoop cfg first (it :: rest) {} =
      (iterStep cfg first it).1 ++
        (match (iterStep cfg first it).2 with
         | some l => serveLoop cfg false rest l
         | none => []) := by
  unfold iterStep
  simp only [serveLoop]
  cases iter cfg first it {} <;> simp

/-- the block of a traced pass that got past the idle wait -/
def tracedBlock (oc : Outcome) : List Act := (iterStep {} true ⟨false, oc⟩).1

/-- the pass is cut short by the idle wait -/
def idles (first : Bool) (it : Iter) : Bool := !first && it.peekFails

/-- loop invariant: a pass that goes round leaves stack empty, `traceStarted = false`, `err = nil` -/
theorem loop_head_check : checkAll (fun cfg first it =>
    match (iterStep cfg first it).2 with
    | some l => l == {}
    | none => true) = true := by decide +kernel

theorem loop_head (cfg : Cfg) (first : Bool) (it : Iter) (l : Loc)
    (h : (iterStep cfg first it).2 = some l) : l = {} := by
  have := checkAll_spec loop_head_check cfg first it
  rw [h] at this
  simpa using this

/-- with a tracer, the block of a pass depends on the outcome only — not on the idle style, not on the
position in the connection -/
theorem traced_block_check : checkAll (fun cfg first it =>
    !cfg.enableTrace || idles first it || (iterStep cfg first it).1 == tracedBlock it.outcome) = true := by
  decide +kernel

theorem traced_block (cfg : Cfg) (hen : cfg.enableTrace = true) (first : Bool) (it : Iter)
    (hi : idles first it = false) : (iterStep cfg first it).1 = tracedBlock it.outcome := by
  have := checkAll_spec traced_block_check cfg first it
  simpa [hen, hi] using this

/-- the pass in which the idle wait fails: no tracer call at all, the connection is over -/
theorem idle_block_check : checkAll (fun cfg first it =>
    !idles first it || (iterStep cfg first it == ([.reset], none))) = true := by decide +kernel

theorem idle_block (cfg : Cfg) (first : Bool) (it : Iter) (hi : idles first it = true) :
    iterStep cfg first it = ([.reset], none) := by
  have := checkAll_spec idle_block_check cfg first it
  simpa [hi] using this

/-- without a tracer: the handler at most once, the context reset, nothing else -/
theorem untraced_block_check : checkAll (fun cfg first it =>
    cfg.enableTrace || (iterStep cfg first it).1 == [.reset] || (iterStep cfg first it).1 == [.handle, .reset]) = true := by
  decide +kernel

theorem untraced_block (cfg : Cfg) (hen : cfg.enableTrace = false) (first : Bool) (it : Iter) :
    (iterStep cfg first it).1 = [.reset] ∨ (iterStep cfg first it).1 = [.handle, .reset] := by
  have := checkAll_spec untraced_block_check cfg first it
  simpa [hen] using this

/-! ### running the observer -/

theorem Obs.run_append (o : Obs) (a b : List Act) :
    Obs.run o (a ++ b) = ((Obs.run (Obs.run o a).1 b).1, (Obs.run o a).2 ++ (Obs.run (Obs.run o a).1 b).2) := by
  induction a generalizing o with
  | nil => simp [Obs.run]
  | cons x t ih => simp [Obs.run, ih, List.append_assoc]

/-- between two requests: empty event table, no error recorded, no request data -/
structure Clean (o : Obs) : Prop where
  em : o.eventMap = List.replicate maxEventNum none
  err : o.hasErr = false
  data : o.data = none

def countHandle : List Act → Nat
  | [] => 0
  | .handle :: t => countHandle t + 1
  | _ :: t => countHandle t

/-- a block that, from any clean observer, produces exactly one accepted pair -/
def GoodBlock (b : List Act) : Prop :=
  ∀ o : Obs, Clean o →
    Clean (Obs.run o b).1 ∧ (Obs.run o b).1.level = o.level ∧ (Obs.run o b).1.starts = o.starts + 1 ∧
    (Obs.run o b).1.handled = o.handled + countHandle b ∧
    ∀ tail, pairsFrom o.level (o.starts + 1) (o.handled + 1) ((Obs.run o b).2 ++ tail) =
      pairsFrom o.level (o.starts + 1 + 1) (o.handled + countHandle b + 1) tail

theorem Clean_iff (o : Obs) : Clean o ↔ o.eventMap = List.replicate maxEventNum none ∧ o.hasErr = false ∧ o.data = none :=
  ⟨fun h => ⟨h.em, h.err, h.data⟩, fun h => ⟨h.1, h.2.1, h.2.2⟩⟩

macro "block_simp" : tactic => `(tactic|
  simp [*, tracedBlock, iterStep, iter, afterRead, epilogue, W.emit, W.setErr, W.setStarted, W.record, W.push, W.pop,
    W.popAll, popAllAux, W.doStart, W.doFinish, W.finishFiltered, shouldRecordInTraceError, RdErr.toErrK,
    Obs.run, Obs.step, Obs.record, Ev.level, Ev.index, Obs.snap, Ev.all, maxEventNum, List.replicate,
    pairsFrom, startSnapOK, finishSnapOK, detailAbsent, ordered, orderedFrom, present, countHandle, Clean_iff])

set_option maxHeartbeats 1000000 in
theorem traced_block_good (oc : Outcome) : GoodBlock (tracedBlock oc) := by
  intro o hc
  obtain ⟨lv, clock, em, he, data, handled, starts, cc⟩ := o
  obtain ⟨h1, h2, h3⟩ := hc
  simp only at h1 h2 h3
  subst h1 h2 h3
  have hm := outcome_mem oc
  simp only [allOutcomes, List.mem_cons, List.mem_nil_iff, or_false] at hm
  match lv with
  | 0 => rcases hm with h | h | h | h | h | h | h | h | h | h | h | h | h | h | h | h <;> subst h <;> block_simp <;> (try (intros; omega))
  | 1 => rcases hm with h | h | h | h | h | h | h | h | h | h | h | h | h | h | h | h <;> subst h <;> block_simp <;> (try (intros; omega))
  | n + 2 =>
    have e2 : ¬ (n + 2 < 2) := Nat.not_lt.mpr (Nat.le_add_left 2 n)
    have e1 : ¬ (n + 2 < 1) := Nat.not_lt.mpr (Nat.le_trans (by decide : 1 ≤ 2) (Nat.le_add_left 2 n))
    rcases hm with h | h | h | h | h | h | h | h | h | h | h | h | h | h | h | h <;> subst h <;> block_simp <;> (try (intros; omega))


/-! ### induction over the history and over the `Serve` calls -/

/-- what running a piece of a traced connection does to a clean observer -/
def Advances (acts : List Act) : Prop :=
  ∀ o : Obs, Clean o →
    Clean (Obs.run o acts).1 ∧ (Obs.run o acts).1.level = o.level ∧
    ∀ tail, pairsFrom o.level (o.starts + 1) (o.handled + 1) ((Obs.run o acts).2 ++ tail) =
      pairsFrom o.level ((Obs.run o acts).1.starts + 1) ((Obs.run o acts).1.handled + 1) tail

theorem advances_nil : Advances [] := by
  intro o hc
  exact ⟨hc, rfl, fun _ => rfl⟩

theorem advances_append {a b : List Act} (ha : Advances a) (hb : Advances b) : Advances (a ++ b) := by
  intro o hc
  obtain ⟨c1, l1, p1⟩ := ha o hc
  obtain ⟨c2, l2, p2⟩ := hb _ c1
  rw [Obs.run_append]
  refine ⟨c2, by rw [l2, l1], fun tail => ?_⟩
  simp only [List.append_assoc]
  rw [p1, ← l1, p2]

theorem advances_good {b : List Act} (h : GoodBlock b) : Advances b := by
  intro o hc
  obtain ⟨c, l, s, k, p⟩ := h o hc
  refine ⟨c, l, fun tail => ?_⟩
  rw [p, s, k]

theorem advances_reset : Advances [.reset] := by
  intro o hc
  obtain ⟨h1, h2, h3⟩ := hc
  refine ⟨⟨by simp [Obs.run, Obs.step], by simp [Obs.run, Obs.step], by simp [Obs.run, Obs.step]⟩, by simp [Obs.run, Obs.step], fun tail => by simp [Obs.run, Obs.step]⟩

theorem advances_enter : Advances [.enter] := by
  intro o hc
  obtain ⟨h1, h2, h3⟩ := hc
  refine ⟨⟨by simpa [Obs.run, Obs.step] using h1, by simpa [Obs.run, Obs.step] using h2, by simpa [Obs.run, Obs.step] using h3⟩,
    by simp [Obs.run, Obs.step], fun tail => by simp [Obs.run, Obs.step]⟩

theorem advances_serveLoop (cfg : Cfg) (hen : cfg.enableTrace = true) :
    ∀ (hist : List Iter) (first : Bool), Advances (serveLoop cfg first hist {})
  | [], _ => by simpa [serveLoop] using advances_nil
  | it :: rest, first => by
    rw [serveLoop_cons]
    cases hi : idles first it with
    | true =>
      rw [idle_block cfg first it hi]
      simpa using advances_reset
    | false =>
      rw [traced_block cfg hen first it hi]
      refine advances_append (advances_good (traced_block_good _)) ?_
      cases hl : (iterStep cfg first it).2 with
      | none => exact advances_nil
      | some l =>
        rw [loop_head cfg first it l hl]
        exact advances_serveLoop cfg hen rest false

theorem advances_serve (cfg : Cfg) (hen : cfg.enableTrace = true) (hist : List Iter) : Advances (serve cfg hist) :=
  advances_append (a := [.enter]) advances_enter (advances_serveLoop cfg hen hist true)

theorem advances_connection (cfg : Cfg) (hen : cfg.enableTrace = true) :
    ∀ hists : List (List Iter), Advances (connection cfg hists)
  | [] => by simpa [connection] using advances_nil
  | h :: t => by
    have := advances_append (advances_serve cfg hen h) (advances_connection cfg hen t)
    simpa [connection] using this

/-- **Main lemma.** With a tracer registered, the call log of every connection is accepted by the
specification, at every trace level. -/
theorem connection_logOK (cfg : Cfg) (hen : cfg.enableTrace = true) (lv : Level) (hists : List (List Iter)) :
    logOK lv (observe lv (connection cfg hists)) = true := by
  have hc : Clean { level := lv } := ⟨rfl, rfl, rfl⟩
  obtain ⟨_, _, p⟩ := advances_connection cfg hen hists _ hc
  have := p []
  simp only [List.append_nil] at this
  simpa [logOK, observe, pairsFrom] using this


/-! ### consequences of an accepted log -/

theorem pairsFrom_alternates (lv : Level) (n k : Nat) (l : List Call) (h : pairsFrom lv n k l = true) :
    alternates l = true := by
  unfold alternates
  fun_induction pairsFrom lv n k l with
  | case1 => simp [alternatesFrom]
  | case2 n k id s c d e f t ih =>
    simp only [Bool.and_eq_true] at h
    simp [alternatesFrom, ih h.2]
  | case3 n k id s c hh c' d e f t ih =>
    simp only [Bool.and_eq_true] at h
    simp [alternatesFrom, ih h.2]
  | case4 => simp at h

/-- every `Finish` of an accepted log sees an event table in causal order with all stages closed -/
theorem pairsFrom_finish (lv : Level) (n k : Nat) (l : List Call) (h : pairsFrom lv n k l = true)
    (c : Option Nat) (d : Option Nat) (e : Bool) (f : Snap) (hm : Call.finish c d e f ∈ l) :
    finishSnapOK lv d.isSome e f = true := by
  fun_induction pairsFrom lv n k l with
  | case1 => simp at hm
  | case2 n k id s c0 d0 e0 f0 t ih =>
    simp only [Bool.and_eq_true, beq_iff_eq] at h
    simp only [List.mem_cons, reduceCtorEq, false_or, Call.finish.injEq] at hm
    rcases hm with ⟨rfl, rfl, rfl, rfl⟩ | hm
    · obtain ⟨⟨⟨⟨⟨_, _⟩, hd⟩, _⟩, hf⟩, _⟩ := h
      subst hd; simpa using hf
    · exact ih h.2 hm
  | case3 n k id s c0 hh c' d0 e0 f0 t ih =>
    simp only [Bool.and_eq_true, beq_iff_eq] at h
    simp only [List.mem_cons, reduceCtorEq, false_or, Call.finish.injEq] at hm
    rcases hm with ⟨rfl, rfl, rfl, rfl⟩ | hm
    · obtain ⟨⟨⟨⟨⟨⟨⟨_, _⟩, _⟩, _⟩, hd⟩, _⟩, hf⟩, _⟩ := h
      subst hd; simpa using hf
    · exact ih h.2 hm
  | case4 => simp at h

theorem finishSnapOK_ordered {lv : Level} {h e : Bool} {f : Snap} (hf : finishSnapOK lv h e f = true) :
    ordered f = true := by
  simp only [finishSnapOK, Bool.and_eq_true] at hf
  exact hf.1.1.1.1.2

/-! ### no tracer registered -/

def AdvancesOff (acts : List Act) : Prop :=
  ∀ o : Obs, o.cc = none →
    (Obs.run o acts).1.cc = none ∧
    ∀ tail, logOffOK (o.handled + 1) ((Obs.run o acts).2 ++ tail) = logOffOK ((Obs.run o acts).1.handled + 1) tail

theorem advancesOff_nil : AdvancesOff [] := fun _ hc => ⟨hc, fun _ => rfl⟩

theorem advancesOff_append {a b : List Act} (ha : AdvancesOff a) (hb : AdvancesOff b) : AdvancesOff (a ++ b) := by
  intro o hc
  obtain ⟨c1, p1⟩ := ha o hc
  obtain ⟨c2, p2⟩ := hb _ c1
  rw [Obs.run_append]
  refine ⟨c2, fun tail => ?_⟩
  simp only [List.append_assoc]
  rw [p1, p2]

theorem advancesOff_reset : AdvancesOff [.reset] := by
  intro o hc
  exact ⟨by simpa [Obs.run, Obs.step] using hc, fun tail => by simp [Obs.run, Obs.step]⟩

theorem advancesOff_enter : AdvancesOff [.enter] := by
  intro o hc
  exact ⟨by simp [Obs.run, Obs.step], fun tail => by simp [Obs.run, Obs.step]⟩

theorem advancesOff_handle_reset : AdvancesOff [.handle, .reset] := by
  intro o hc
  exact ⟨by simpa [Obs.run, Obs.step] using hc, fun tail => by simp [Obs.run, Obs.step, logOffOK, hc]⟩

theorem advancesOff_serveLoop (cfg : Cfg) (hen : cfg.enableTrace = false) :
    ∀ (hist : List Iter) (first : Bool), AdvancesOff (serveLoop cfg first hist {})
  | [], _ => by simpa [serveLoop] using advancesOff_nil
  | it :: rest, first => by
    rw [serveLoop_cons]
    have hb : AdvancesOff (iterStep cfg first it).1 := by
      rcases untraced_block cfg hen first it with h | h <;> rw [h]
      · exact advancesOff_reset
      · exact advancesOff_handle_reset
    refine advancesOff_append hb ?_
    cases hl : (iterStep cfg first it).2 with
    | none => exact advancesOff_nil
    | some l =>
      rw [loop_head cfg first it l hl]
      exact advancesOff_serveLoop cfg hen rest false

theorem advancesOff_connection (cfg : Cfg) (hen : cfg.enableTrace = false) :
    ∀ hists : List (List Iter), AdvancesOff (connection cfg hists)
  | [] => by simpa [connection] using advancesOff_nil
  | h :: t => by
    have h1 : AdvancesOff (serve cfg h) :=
      advancesOff_append (a := [.enter]) advancesOff_enter (advancesOff_serveLoop cfg hen h true)
    have := advancesOff_append h1 (advancesOff_connection cfg hen t)
    simpa [connection] using this

/-- without a tracer there is no tracer call; handlers run with the caller's context -/
theorem connection_logOffOK (cfg : Cfg) (hen : cfg.enableTrace = false) (lv : Level) (hists : List (List Iter)) :
    logOffOK 1 (observe lv (connection cfg hists)) = true := by
  obtain ⟨_, p⟩ := advancesOff_connection cfg hen hists { level := lv } rfl
  have := p []
  simp only [List.append_nil] at this
  simpa [observe, logOffOK] using this

/-! ### prefixes of an alternating log -/

def nStarts : List Call → Nat
  | [] => 0
  | .start _ _ :: t => nStarts t + 1
  | _ :: t => nStarts t

def nFinishes : List Call → Nat
  | [] => 0
  | .finish .. :: t => nFinishes t + 1
  | _ :: t => nFinishes t

/-- at every moment of an alternating log the number of `Finish` calls is the number of `Start` calls
or one less: never a `Finish` without an unmatched `Start`, never two `Start`s open -/
theorem alternatesFrom_prefix : ∀ (p q : List Call) (o : Bool), alternatesFrom o (p ++ q) = true →
    nFinishes p ≤ nStarts p + o.toNat ∧ nStarts p + o.toNat ≤ nFinishes p + 1
  | [], _, o, _ => by cases o <;> simp [nStarts, nFinishes]
  | .handle _ _ :: t, q, o, h => by
    have := alternatesFrom_prefix t q o (by simpa [alternatesFrom] using h)
    simpa [nStarts, nFinishes] using this
  | .start _ _ :: t, q, o, h => by
    simp only [List.cons_append, alternatesFrom, Bool.and_eq_true, Bool.not_eq_true'] at h
    have := alternatesFrom_prefix t q true h.2
    simp only [nStarts, nFinishes, h.1, Bool.toNat_false, Bool.toNat_true] at this ⊢
    omega
  | .finish .. :: t, q, o, h => by
    simp only [List.cons_append, alternatesFrom, Bool.and_eq_true] at h
    have := alternatesFrom_prefix t q false h.2
    simp only [nStarts, nFinishes, h.1, Bool.toNat_false, Bool.toNat_true] at this ⊢
    omega

end Hertz.Tracer
