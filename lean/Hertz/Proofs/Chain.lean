import Hertz.Model.Chain
/-!
Lemmas for C12: the chain interpreter keeps the onion monitor happy, never runs out of fuel, and
never panics: the `int8` index saturates at `MaxInt8`.
-/
namespace Hertz.Chain

theorem abortIndex_eq : abortIndex = 63 := rfl

/-! ### the monitor is compositional -/

theorem Mon.run_append (m : Mon) (a b : List Event) :
    Mon.run m (a ++ b) = match Mon.run m a with
      | some m' => Mon.run m' b
      | none => none := by
  induction a generalizing m with
  | nil => simp [Mon.run]
  | cons e t ih =>
    simp only [List.cons_append, Mon.run]
    cases h : m.step e with
    | none => simp
    | some m' => simp [ih]

theorem Mon.run_cons (m : Mon) (e : Event) (t : List Event) :
    Mon.run m (e :: t) = match m.step e with
      | some m' => Mon.run m' t
      | none => none := rfl

/-! ### arithmetic of the `int8` index -/

theorem trunc8_small {n : Nat} (h : n ≤ 127) : trunc8 n = n := by
  unfold trunc8; omega

theorem inc8_lt {j : Int} (h : j < 127) : inc8 j = j + 1 := by
  unfold inc8; simp [h]

theorem inc8_sat : inc8 127 = 127 := by decide

/-! ### what a call of the loop / of a handler body guarantees -/

/-- Guarantee of the `Next` loop started with monitor state `m`: it ends normally, past the chain. -/
def PostL (L : Nat) (m : Mon) : R → Prop
  | (tr, .ok j') => ∃ m', Mon.run m tr = some m' ∧ m'.stack = m.stack ∧ (m'.lo : Int) ≤ j' ∧ m'.lo ≤ L ∧
      (L : Int) ≤ j' ∧ j' ≤ 127
  | (_, .error _) => False

/-- Guarantee of (the rest of) a handler body started with index `j`. -/
def PostA (L : Nat) (m : Mon) (j : Nat) : R → Prop
  | (tr, .ok j') => ∃ m', Mon.run m tr = some m' ∧ m'.stack = m.stack ∧ (m'.lo : Int) ≤ j' + 1 ∧ m'.lo ≤ L ∧
      (m'.aborted = true → (L : Int) ≤ j') ∧ 0 ≤ j' ∧ j' ≤ 127 ∧ (j' = j ∨ (L : Int) ≤ j')
  | (_, .error _) => False

/-- what `runActs` needs to know about its `nx` argument -/
def NxOK (hs : List Script) (pos : Nat) (nx : Int → R) : Prop :=
  ∀ (j : Nat) (m : Mon), pos ≤ j → j ≤ 127 → m.lo ≤ j + 1 → m.lo ≤ hs.length →
    (m.aborted = true → hs.length ≤ j) → PostL hs.length m (nx (inc8 j))

theorem runActs_spec (hs : List Script) (hL : hs.length ≤ 63) (nx : Int → R) (pos : Nat)
    (hpos : pos < hs.length) (hnx : NxOK hs pos nx) :
    ∀ (acts : List Act) (j : Nat) (m : Mon), pos ≤ j → j ≤ 127 → m.stack.head? = some pos →
      m.lo ≤ j + 1 → m.lo ≤ hs.length → (m.aborted = true → hs.length ≤ j) →
      PostA hs.length m j (runActs nx pos acts j) := by
  intro acts
  induction acts with
  | nil =>
    intro j m _ hj _ hlo hloL hab
    refine ⟨m, rfl, rfl, by omega, hloL, ?_, by omega, by omega, Or.inl rfl⟩
    intro h; have := hab h; omega
  | cons a r ih =>
    intro j m hpj hj htop hlo hloL hab
    cases a with
    | next =>
      have h1 := hnx j m hpj hj hlo hloL hab
      simp only [runActs]
      rcases hres : nx (inc8 (j : Int)) with ⟨tr1, res1⟩
      rw [hres] at h1
      cases res1 with
      | error e => simp [PostL] at h1
      | ok j1 =>
        simp only [PostL] at h1
        obtain ⟨m1, hrun1, hst1, hlo1, hlo1L, hLj1, hj1⟩ := h1
        obtain ⟨k1, rfl⟩ : ∃ k1 : Nat, j1 = k1 := ⟨j1.toNat, by omega⟩
        have h2 := ih k1 m1 (by omega) (by omega) (by rw [hst1]; exact htop)
          (by omega) hlo1L (by intro _; omega)
        simp only [R.bind]
        rcases hres2 : runActs nx pos r (k1 : Int) with ⟨tr2, res2⟩
        rw [hres2] at h2
        cases res2 with
        | error e => simp [PostA] at h2
        | ok j2 =>
          simp only [PostA] at h2 ⊢
          obtain ⟨m2, hrun2, hst2, hlo2, hlo2L, hab2, h0j2, hj2, hor2⟩ := h2
          refine ⟨m2, ?_, by rw [hst2, hst1], hlo2, hlo2L, hab2, h0j2, hj2, ?_⟩
          · rw [Mon.run_append, hrun1]; exact hrun2
          · right; rcases hor2 with h | h <;> omega
    | abort =>
      have hstep : m.step (.abort pos) = some ⟨m.stack, m.lo, true⟩ := by simp [Mon.step, htop]
      have h2 := ih 63 ⟨m.stack, m.lo, true⟩ (by omega) (by omega) htop (by show m.lo ≤ 63 + 1; omega) hloL
        (by intro _; exact hL)
      simp only [runActs, abortIndex_eq]
      rcases hres2 : runActs nx pos r ((63 : Nat) : Int) with ⟨tr2, res2⟩
      rw [hres2] at h2
      cases res2 with
      | error e => simp [PostA] at h2
      | ok j2 =>
        simp only [PostA] at h2
        simp only [emit, PostA]
        obtain ⟨m2, hrun2, hst2, hlo2, hlo2L, hab2, h0j2, hj2, hor2⟩ := h2
        refine ⟨m2, ?_, hst2, hlo2, hlo2L, hab2, h0j2, hj2, ?_⟩
        · rw [Mon.run_cons, hstep]; exact hrun2
        · right; rcases hor2 with h | h <;> omega
    | abortStatus c =>
      have hstep : m.step (.abortStatus pos c) = some ⟨m.stack, m.lo, true⟩ := by simp [Mon.step, htop]
      have h2 := ih 63 ⟨m.stack, m.lo, true⟩ (by omega) (by omega) htop (by show m.lo ≤ 63 + 1; omega) hloL
        (by intro _; exact hL)
      simp only [runActs, abortIndex_eq]
      rcases hres2 : runActs nx pos r ((63 : Nat) : Int) with ⟨tr2, res2⟩
      rw [hres2] at h2
      cases res2 with
      | error e => simp [PostA] at h2
      | ok j2 =>
        simp only [PostA] at h2
        simp only [emit, PostA]
        obtain ⟨m2, hrun2, hst2, hlo2, hlo2L, hab2, h0j2, hj2, hor2⟩ := h2
        refine ⟨m2, ?_, hst2, hlo2, hlo2L, hab2, h0j2, hj2, ?_⟩
        · rw [Mon.run_cons, hstep]; exact hrun2
        · right; rcases hor2 with h | h <;> omega
    | probe =>
      have hstep : m.step (.probe pos j) = some m := by simp [Mon.step, htop]
      have h2 := ih j m hpj hj htop hlo hloL hab
      simp only [runActs]
      rcases hres2 : runActs nx pos r (j : Int) with ⟨tr2, res2⟩
      rw [hres2] at h2
      cases res2 with
      | error e => simp [PostA] at h2
      | ok j2 =>
        simp only [PostA] at h2
        simp only [emit, PostA]
        obtain ⟨m2, hrun2, hst2, hlo2, hlo2L, hab2, h0j2, hj2, hor2⟩ := h2
        refine ⟨m2, ?_, hst2, hlo2, hlo2L, hab2, h0j2, hj2, hor2⟩
        rw [Mon.run_cons, hstep]; exact hrun2

/-- the saturating increment as a natural number -/
theorem inc8_nat (j : Nat) (hj : j ≤ 127) : inc8 (j : Int) = ((min (j + 1) 127 : Nat) : Int) := by
  unfold inc8
  split <;> omega

theorem loop_spec (hs : List Script) (hL : hs.length ≤ 63) :
    ∀ (f k : Nat) (m : Mon), k ≤ 127 → m.lo ≤ k → m.lo ≤ hs.length →
      (m.aborted = true → hs.length ≤ k) → 1 ≤ f → hs.length + 1 ≤ k + f →
      PostL hs.length m (nextLoop f hs k) := by
  intro f
  induction f with
  | zero => intro k m _ _ _ _ hf; omega
  | succ f ih =>
    intro k m hk hlo hloL hab _ hfuel
    have ht := trunc8_small (n := hs.length) (by omega)
    simp only [nextLoop, ht]
    by_cases hkL : (k : Int) < hs.length
    · have hkL' : k < hs.length := by omega
      rw [if_pos hkL, if_neg (by omega)]
      have hget : hs[(k : Int).toNat]? = some hs[k] := by
        rw [Int.toNat_natCast]; exact List.getElem?_eq_getElem hkL'
      rw [hget]
      simp only [Int.toNat_natCast]
      have hf1 : 1 ≤ f := by omega
      -- the recursive `Next` available to the handler body
      have hnx : NxOK hs k (nextLoop f hs) := by
        intro j m0 hpj hj hlo0 hlo0L hab0
        rw [inc8_nat j hj]
        exact ih (min (j + 1) 127) m0 (by omega) (by omega) hlo0L (by intro h; have := hab0 h; omega) hf1 (by omega)
      have hnoab : m.aborted = false := by
        cases hm : m.aborted with
        | false => rfl
        | true => have := hab hm; omega
      have hA := runActs_spec hs hL (nextLoop f hs) k hkL' hnx hs[k] k ⟨k :: m.stack, k + 1, m.aborted⟩
        (Nat.le_refl _) hk rfl (Nat.le_refl _) (by show k + 1 ≤ hs.length; omega)
        (by intro h; exact hab h)
      have hstepE : m.step (.enter k) = some ⟨k :: m.stack, k + 1, m.aborted⟩ := by
        simp [Mon.step, hnoab, hlo]
      rcases hres1 : runActs (nextLoop f hs) k hs[k] (k : Int) with ⟨tr1, res1⟩
      rw [hres1] at hA
      cases res1 with
      | error e => simp [PostA] at hA
      | ok j1 =>
        simp only [PostA] at hA
        obtain ⟨m2, hrun2, hst2, hlo2, hlo2L, hab2, h0j1, hj1, hor⟩ := hA
        obtain ⟨k1, rfl⟩ : ∃ k1 : Nat, j1 = k1 := ⟨j1.toNat, by omega⟩
        have hstepX : m2.step (.exit k k1) = some ⟨m.stack, m2.lo, m2.aborted⟩ := by
          simp [Mon.step, hst2]
        simp only [R.bind, emit]
        rw [inc8_nat k1 (by omega)]
        have hC : PostL hs.length ⟨m.stack, m2.lo, m2.aborted⟩
            (nextLoop f hs ((min (k1 + 1) 127 : Nat) : Int)) :=
          ih (min (k1 + 1) 127) ⟨m.stack, m2.lo, m2.aborted⟩ (by omega)
            (by show m2.lo ≤ min (k1 + 1) 127; omega) hlo2L
            (by intro h; have := hab2 h; show hs.length ≤ min (k1 + 1) 127; omega) hf1
            (by rcases hor with h | h <;> omega)
        rcases hres3 : nextLoop f hs ((min (k1 + 1) 127 : Nat) : Int) with ⟨tr3, res3⟩
        rw [hres3] at hC
        cases res3 with
        | error e => simp [PostL] at hC
        | ok j3 =>
          simp only [PostL] at hC ⊢
          obtain ⟨m3, hrun3, hst3, hlo3, hlo3L, hLj3, hj3⟩ := hC
          refine ⟨m3, ?_, hst3, hlo3, hlo3L, hLj3, hj3⟩
          rw [Mon.run_cons, hstepE]
          show Mon.run _ (tr1 ++ Event.exit k k1 :: tr3) = some m3
          rw [Mon.run_append, hrun2]
          show Mon.run m2 (Event.exit k k1 :: tr3) = some m3
          rw [Mon.run_cons, hstepX]; exact hrun3
    · rw [if_neg hkL]
      simp only [PostL]
      exact ⟨m, rfl, rfl, by omega, hloL, by omega, by omega⟩

/-! ### the whole run -/

theorem run_eq (hs : List Script) (hL : hs.length ≤ 63) : run hs = nextLoop (hs.length + 2) hs ((0 : Nat) : Int) := by
  simp [run, next, fuelFor, hL, inc8]

theorem run_spec (hs : List Script) (hL : hs.length ≤ 63) : PostL hs.length Mon.init (run hs) := by
  rw [run_eq hs hL]
  exact loop_spec hs hL (hs.length + 2) 0 Mon.init (by omega) (Nat.le_refl _) (Nat.zero_le _)
    (by intro h; cases h) (by omega) (by omega)

theorem run_ok (hs : List Script) (hL : hs.length ≤ 63) :
    ∃ j, (run hs).2 = .ok j ∧ (hs.length : Int) ≤ j ∧ j ≤ 127 := by
  have h := run_spec hs hL
  rcases hr : run hs with ⟨tr, res⟩
  rw [hr] at h
  cases res with
  | ok j =>
    simp only [PostL] at h
    obtain ⟨_, _, _, _, _, h5, h6⟩ := h
    exact ⟨j, rfl, h5, h6⟩
  | error e => simp [PostL] at h

theorem run_onion (hs : List Script) (hL : hs.length ≤ 63) : onionOK hs.length (run hs).1 = true := by
  have h := run_spec hs hL
  rcases hr : run hs with ⟨tr, res⟩
  rw [hr] at h
  cases res with
  | error e => simp [PostL] at h
  | ok j =>
    simp only [PostL] at h
    obtain ⟨m', hrun, hst, _, hloL, _⟩ := h
    simp only [onionOK, hrun, hst]
    simp [Mon.init, hloL]

/-! ### what monitor acceptance means, declaratively -/

theorem mon_facts : ∀ (tr : List Event) (m m' : Mon), Mon.run m tr = some m' →
    m.lo ≤ m'.lo ∧ (∀ p ∈ enters tr, m.lo ≤ p ∧ p < m'.lo) ∧ (enters tr).Pairwise (· < ·) ∧
    (m.aborted = true → enters tr = []) ∧ noEnterAfterAbort tr = true := by
  intro tr
  induction tr with
  | nil =>
    intro m m' h
    simp only [Mon.run, Option.some.injEq] at h
    subst h
    simp [enters, noEnterAfterAbort]
  | cons e t ih =>
    intro m m' h
    rw [Mon.run_cons] at h
    cases hs : m.step e with
    | none => rw [hs] at h; cases h
    | some m1 =>
      rw [hs] at h
      obtain ⟨h1, h2, h3, h4, h5⟩ := ih m1 m' h
      cases e with
      | enter p =>
        simp only [Mon.step] at hs
        split at hs
        · rename_i hc
          simp only [Option.some.injEq] at hs
          subst hs
          simp only at h1 h2 h4
          refine ⟨by omega, ?_, ?_, ?_, ?_⟩
          · intro q hq
            simp only [enters, List.mem_cons] at hq
            rcases hq with rfl | hq
            · omega
            · have := h2 q hq; omega
          · simp only [enters, List.pairwise_cons]
            exact ⟨fun q hq => by have := h2 q hq; omega, h3⟩
          · intro hab; rw [hc.1] at hab; cases hab
          · simp [noEnterAfterAbort, isAbort, h5]
        · cases hs
      | exit p i =>
        simp only [Mon.step] at hs
        split at hs
        · split at hs
          · simp only [Option.some.injEq] at hs
            subst hs
            exact ⟨h1, by simpa [enters] using h2, by simpa [enters] using h3, by simpa [enters] using h4,
              by simp [noEnterAfterAbort, isAbort, h5]⟩
          · cases hs
        · cases hs
      | abort p =>
        simp only [Mon.step] at hs
        split at hs
        · simp only [Option.some.injEq] at hs
          subst hs
          have h4' := h4 rfl
          exact ⟨h1, by simpa [enters] using h2, by simpa [enters] using h3, fun _ => by simpa [enters] using h4',
            by simp [noEnterAfterAbort, isAbort, h5, h4']⟩
        · cases hs
      | abortStatus p c =>
        simp only [Mon.step] at hs
        split at hs
        · simp only [Option.some.injEq] at hs
          subst hs
          have h4' := h4 rfl
          exact ⟨h1, by simpa [enters] using h2, by simpa [enters] using h3, fun _ => by simpa [enters] using h4',
            by simp [noEnterAfterAbort, isAbort, h5, h4']⟩
        · cases hs
      | probe p i =>
        simp only [Mon.step] at hs
        split at hs
        · simp only [Option.some.injEq] at hs
          subst hs
          exact ⟨h1, by simpa [enters] using h2, by simpa [enters] using h3, by simpa [enters] using h4,
            by simp [noEnterAfterAbort, isAbort, h5]⟩
        · cases hs

theorem onionOK_facts (n : Nat) (tr : List Event) (h : onionOK n tr = true) :
    (enters tr).Pairwise (· < ·) ∧ (∀ p ∈ enters tr, p < n) ∧ noEnterAfterAbort tr = true := by
  unfold onionOK at h
  cases hr : Mon.init.run tr with
  | none => rw [hr] at h; cases h
  | some m' =>
    rw [hr] at h
    simp only [Bool.and_eq_true, decide_eq_true_eq] at h
    obtain ⟨_, h2, h3, _, h5⟩ := mon_facts tr Mon.init m' hr
    exact ⟨h3, fun p hp => by have := h2 p hp; omega, h5⟩

end Hertz.Chain
