import Hertz.Proofs.Group
/-!
The literal reading of "middleware attached before the route is registered": it coincides with what a
group carries exactly when no `Use` (with a non-empty argument) hits a group that already has a child.
-/
namespace Hertz.Chain

theorem appendLast_snoc (m : List H) (g : Nat) (part : List H) :
    ∀ (init : Lineage), appendLast m (init ++ [(g, part)]) = init ++ [(g, part ++ m)]
  | [] => rfl
  | [x] => rfl
  | x :: y :: t => by
    have ih := appendLast_snoc m g part (y :: t)
    simp only [List.cons_append] at ih ⊢
    simp only [appendLast]
    rw [ih]

theorem ownOf_of_get {ls : List Lineage} {g a : Nat} {init : Lineage} {part : List H}
    (h : ls[g]? = some (init ++ [(a, part)])) : ownOf ls g = part := by
  simp [ownOf, h]

theorem ownOf_none {ls : List Lineage} {g : Nat} (h : ls.length ≤ g) : ownOf ls g = [] := by
  simp [ownOf, List.getElem?_eq_none h]

/-- well-formed lineage table -/
structure WF (ls : List Lineage) : Prop where
  last : ∀ (g : Nat) (l : Lineage), ls[g]? = some l → ∃ init part, l = init ++ [(g, part)]
  own : ∀ (g : Nat) (l : Lineage), ls[g]? = some l → ∀ x ∈ l, x.2 = ownOf ls x.1
  ids : ∀ (g : Nat) (l : Lineage), ls[g]? = some l → ∀ x ∈ l, x.1 < ls.length

theorem wf_init : WF shadowInit := by
  refine ⟨?_, ?_, ?_⟩
  · intro g l h
    cases g with
    | zero => simp [shadowInit] at h; subst h; exact ⟨[], [], rfl⟩
    | succ n => simp [shadowInit] at h
  · intro g l h x hx
    cases g with
    | zero =>
      simp [shadowInit] at h; subst h
      simp only [List.mem_singleton] at hx; subst hx
      simp [ownOf, shadowInit]
    | succ n => simp [shadowInit] at h
  · intro g l h x hx
    cases g with
    | zero =>
      simp [shadowInit] at h; subst h
      simp only [List.mem_singleton] at hx; subst hx
      simp [shadowInit]
    | succ n => simp [shadowInit] at h

theorem literal_eq_snapshot {ls : List Lineage} (hw : WF ls) (g : Nat) : literalMws ls g = snapshotMws ls g := by
  unfold literalMws snapshotMws
  cases h : ls[g]? with
  | none => rfl
  | some l =>
    simp only
    have hown := hw.own g l h
    clear h
    induction l with
    | nil => rfl
    | cons x t ih =>
      simp only [List.flatMap_cons]
      rw [ih (fun y hy => hown y (List.mem_cons_of_mem _ hy)), ← hown x (List.mem_cons_self ..)]

/-- `Use g m` on a well-formed table, allowed by `noUseAfterChild` -/
theorem wf_use {ls : List Lineage} (hw : WF ls) (g : Nat) (m : List H) (l : Lineage) (hl : ls[g]? = some l)
    (hok : (!m.isEmpty && hasChild ls g) = false) : WF (ls.set g (appendLast m l)) := by
  obtain ⟨init, part, rfl⟩ := hw.last g l hl
  rw [appendLast_snoc]
  have hglt : g < ls.length := by
    rcases Nat.lt_or_ge g ls.length with h | h
    · exact h
    · rw [List.getElem?_eq_none h] at hl; cases hl
  -- a group mentioned in somebody's `dropLast` has a child
  have hchild : ∀ (g' : Nat) (l' : Lineage), ls[g']? = some l' → ∀ x ∈ l'.dropLast, x.1 = g → hasChild ls g = true := by
    intro g' l' hl' x hx hxg
    unfold hasChild
    rw [List.any_eq_true]
    refine ⟨l', List.mem_of_getElem? hl', ?_⟩
    have hlen : l'.length ≥ 2 := by
      obtain ⟨i', p', rfl⟩ := hw.last g' l' hl'
      rw [List.dropLast_concat] at hx
      have : i'.length ≥ 1 := List.length_pos_of_mem hx
      simp; omega
    simp only [Bool.and_eq_true, decide_eq_true_eq]
    exact ⟨hlen, by rw [List.any_eq_true]; exact ⟨x, hx, by simp [hxg]⟩⟩
  have hm : hasChild ls g = true → m = [] := by
    intro hc
    rw [hc] at hok
    cases m with
    | nil => rfl
    | cons a t => simp at hok
  -- `ownOf` after the update
  have hown_g : ownOf (ls.set g (init ++ [(g, part ++ m)])) g = part ++ m :=
    ownOf_of_get (List.getElem?_set_self hglt)
  have hown_ne : ∀ a, a ≠ g → ownOf (ls.set g (init ++ [(g, part ++ m)])) a = ownOf ls a := by
    intro a ha
    simp only [ownOf, List.getElem?_set_ne (Ne.symm ha)]
  have hown_old : ownOf ls g = part := ownOf_of_get hl
  have hown_any : ∀ a, (a = g → m = []) → ownOf (ls.set g (init ++ [(g, part ++ m)])) a = ownOf ls a := by
    intro a ha
    by_cases hag : a = g
    · subst hag; rw [hown_g, hown_old, ha rfl]; simp
    · exact hown_ne a hag
  refine ⟨?_, ?_, ?_⟩
  · intro g' l' hl'
    by_cases hg : g = g'
    · subst hg
      rw [List.getElem?_set_self hglt] at hl'
      injection hl' with hl'
      exact ⟨init, part ++ m, hl'.symm⟩
    · rw [List.getElem?_set_ne hg] at hl'
      exact hw.last g' l' hl'
  · intro g' l' hl' x hx
    by_cases hg : g = g'
    · subst hg
      rw [List.getElem?_set_self hglt] at hl'
      injection hl' with hl'
      subst hl'
      simp only [List.mem_append, List.mem_singleton] at hx
      rcases hx with hx | rfl
      · rw [hown_any x.1 (fun hxg => hm (hchild g _ hl x (by rw [List.dropLast_concat]; exact hx) hxg))]
        exact hw.own g _ hl x (List.mem_append_left _ hx)
      · exact hown_g.symm
    · rw [List.getElem?_set_ne hg] at hl'
      rw [hown_any x.1 ?_]
      · exact hw.own g' l' hl' x hx
      · intro hxg
        obtain ⟨i', p', rfl⟩ := hw.last g' l' hl'
        simp only [List.mem_append, List.mem_singleton] at hx
        rcases hx with hx | rfl
        · exact hm (hchild g' _ hl' x (by rw [List.dropLast_concat]; exact hx) hxg)
        · exact absurd hxg.symm hg
  · intro g' l' hl' x hx
    rw [List.length_set]
    by_cases hg : g = g'
    · subst hg
      rw [List.getElem?_set_self hglt] at hl'
      injection hl' with hl'
      subst hl'
      simp only [List.mem_append, List.mem_singleton] at hx
      rcases hx with hx | rfl
      · exact hw.ids g _ hl x (List.mem_append_left _ hx)
      · exact hglt
    · rw [List.getElem?_set_ne hg] at hl'
      exact hw.ids g' l' hl' x hx

theorem wf_group {ls : List Lineage} (hw : WF ls) (p : Nat) (m : List H) (l : Lineage) (hl : ls[p]? = some l) :
    WF (ls ++ [l ++ [(ls.length, m)]]) := by
  have hget : ∀ g', g' < ls.length → (ls ++ [l ++ [(ls.length, m)]])[g']? = ls[g']? :=
    fun g' h => List.getElem?_append_left h
  have hnew : (ls ++ [l ++ [(ls.length, m)]])[ls.length]? = some (l ++ [(ls.length, m)]) :=
    List.getElem?_concat_length
  have hown_lt : ∀ a, a < ls.length → ownOf (ls ++ [l ++ [(ls.length, m)]]) a = ownOf ls a := by
    intro a ha; simp only [ownOf, hget a ha]
  have hown_new : ownOf (ls ++ [l ++ [(ls.length, m)]]) ls.length = m := ownOf_of_get hnew
  have hcases : ∀ (g' : Nat) (l' : Lineage), (ls ++ [l ++ [(ls.length, m)]])[g']? = some l' →
      (g' < ls.length ∧ ls[g']? = some l') ∨ (g' = ls.length ∧ l' = l ++ [(ls.length, m)]) := by
    intro g' l' h
    rcases Nat.lt_or_ge g' ls.length with hlt | hge
    · left; rw [hget g' hlt] at h; exact ⟨hlt, h⟩
    · right
      rcases Nat.eq_or_lt_of_le hge with heq | hgt
      · subst heq; rw [hnew] at h; injection h with h; exact ⟨rfl, h.symm⟩
      · rw [List.getElem?_eq_none (by simp; omega)] at h; cases h
  refine ⟨?_, ?_, ?_⟩
  · intro g' l' h
    rcases hcases g' l' h with ⟨_, h'⟩ | ⟨rfl, rfl⟩
    · exact hw.last g' l' h'
    · exact ⟨l, m, rfl⟩
  · intro g' l' h x hx
    rcases hcases g' l' h with ⟨_, h'⟩ | ⟨rfl, rfl⟩
    · rw [hown_lt x.1 (hw.ids g' l' h' x hx)]
      exact hw.own g' l' h' x hx
    · simp only [List.mem_append, List.mem_singleton] at hx
      rcases hx with hx | rfl
      · rw [hown_lt x.1 (hw.ids p l hl x hx)]
        exact hw.own p l hl x hx
      · exact hown_new.symm
  · intro g' l' h x hx
    simp only [List.length_append, List.length_singleton]
    rcases hcases g' l' h with ⟨_, h'⟩ | ⟨rfl, rfl⟩
    · have := hw.ids g' l' h' x hx; omega
    · simp only [List.mem_append, List.mem_singleton] at hx
      rcases hx with hx | rfl
      · have := hw.ids p l hl x hx; omega
      · simp

theorem wf_step {ls : List Lineage} (hw : WF ls) (op : Op) (hok : op.useAfterChild ls = false) :
    WF (op.shadow ls) := by
  cases op with
  | use g m =>
    simp only [Op.shadow]
    cases hl : ls[g]? with
    | none => exact hw
    | some l => exact wf_use hw g m l hl hok
  | rawUse m =>
    simp only [Op.shadow]
    cases hl : ls[0]? with
    | none => exact hw
    | some l => exact wf_use hw 0 m l hl hok
  | group p m =>
    simp only [Op.shadow]
    cases hl : ls[p]? with
    | none => exact hw
    | some l => exact wf_group hw p m l hl
  | handle g me k hs => exact hw
  | noRoute hs => exact hw
  | noMethod hs => exact hw

theorem wf_foldl : ∀ (ops : List Op) (ls : List Lineage), WF ls → noUseAfterChild ls ops = true →
    WF (ops.foldl Op.shadow ls)
  | [], _, hw, _ => hw
  | op :: t, ls, hw, h => by
    simp only [noUseAfterChild, Bool.and_eq_true, Bool.not_eq_true'] at h
    exact wf_foldl t (op.shadow ls) (wf_step hw op h.1) h.2

theorem literal_of_noUseAfterChild (ops : List Op) (h : noUseAfterChild shadowInit ops = true) (g : Nat) :
    literalMws (shadowOf ops) g = snapshotMws (shadowOf ops) g :=
  literal_eq_snapshot (wf_foldl ops shadowInit wf_init h) g

theorem noUseAfterChild_prefix : ∀ (pre post : List Op) (ls : List Lineage),
    noUseAfterChild ls (pre ++ post) = true → noUseAfterChild ls pre = true
  | [], _, _, _ => rfl
  | op :: t, post, ls, h => by
    simp only [List.cons_append, noUseAfterChild, Bool.and_eq_true] at h ⊢
    exact ⟨h.1, noUseAfterChild_prefix t post _ h.2⟩

end Hertz.Chain
