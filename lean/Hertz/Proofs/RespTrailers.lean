import Hertz.Proofs.RespRoundtrip
/-!
C11 `response_roundtrip`, chunked responses WITH trailer fields: the `Trailer:` declaration through
`setTrailers`, the trailer section through `parseTrailer` / `updateTrailer`.
-/
namespace Hertz.H1.RT
open Hertz Hertz.H1 Hertz.H1.Resp Hertz.H1.RespRead Hertz.Gen.Str

/-! ### `Trailer: a, b, c` is read back as the names `a`, `b`, `c` -/

theorem splitOn_nosep (sep : UInt8) : ∀ (a : Bytes), (∀ x ∈ a, x ≠ sep) → splitOn sep a = [a]
  | [], _ => rfl
  | c :: t, h => by
    have hc : c ≠ sep := h c (by simp)
    simp [splitOn, hc, splitOn_nosep sep t (fun x hx => h x (by simp [hx]))]

theorem splitOn_append (sep : UInt8) : ∀ (a b : Bytes), (∀ x ∈ a, x ≠ sep) →
    splitOn sep (a ++ sep :: b) = a :: splitOn sep b
  | [], b, _ => by simp [splitOn]
  | c :: t, b, h => by
    have hc : c ≠ sep := h c (by simp)
    simp [splitOn, hc, splitOn_append sep t b (fun x hx => h x (by simp [hx]))]

/-- a trailer name as the writer declares it and the reader keeps it -/
def wfTName (dn : Bool) (k : Bytes) : Bool :=
  !k.isEmpty && k.all (fun c => c != 44 && (c != 32 && c != 9)) && (normalizeKey dn k == k) && !isBadTrailer k

theorem dropWhile_none32 : ∀ (k : Bytes), (∀ x ∈ k, x ≠ 32) → k.dropWhile (· == 32) = k
  | [], _ => rfl
  | c :: t, h => by
    have : c ≠ 32 := h c (by simp)
    rw [List.dropWhile_cons_of_neg (by simpa using this)]

theorem stripSpace_clean (k : Bytes) (h : ∀ x ∈ k, x ≠ 32) : stripSpace k = k := by
  unfold stripSpace
  rw [dropWhile_none32 k h, dropWhile_none32 k.reverse (fun x hx => h x (List.mem_reverse.mp hx)), List.reverse_reverse]

theorem stripSpace_sp (k : Bytes) (h : ∀ x ∈ k, x ≠ 32) : stripSpace (32 :: k) = k := by
  have : stripSpace (32 :: k) = stripSpace k := by simp [stripSpace, List.dropWhile]
  rw [this, stripSpace_clean k h]

theorem dropWhile_noneOWS : ∀ (k : Bytes), (∀ x ∈ k, x ≠ 32 ∧ x ≠ 9) → k.dropWhile (fun c => c == 32 || c == 9) = k
  | [], _ => rfl
  | c :: t, h => by
    have := h c (by simp)
    rw [List.dropWhile_cons_of_neg (by simp [this.1, this.2])]

theorem stripOWS_clean (k : Bytes) (h : ∀ x ∈ k, x ≠ 32 ∧ x ≠ 9) : stripOWS k = k := by
  unfold stripOWS
  rw [dropWhile_noneOWS k h, dropWhile_noneOWS k.reverse (fun x hx => h x (List.mem_reverse.mp hx)), List.reverse_reverse]

theorem stripOWS_sp (k : Bytes) (h : ∀ x ∈ k, x ≠ 32 ∧ x ≠ 9) : stripOWS (32 :: k) = k := by
  have : stripOWS (32 :: k) = stripOWS k := by simp [stripOWS, List.dropWhile]
  rw [this, stripOWS_clean k h]

theorem wfTName_parts {dn : Bool} {k : Bytes} (h : wfTName dn k = true) :
    k ≠ [] ∧ (∀ x ∈ k, x ≠ 44 ∧ (x ≠ 32 ∧ x ≠ 9)) ∧ normalizeKey dn k = k ∧ isBadTrailer k = false := by
  simp only [wfTName, Bool.and_eq_true, List.all_eq_true, beq_iff_eq, Bool.not_eq_true'] at h
  refine ⟨?_, ?_, h.1.2, h.2⟩
  · intro e; simp [e] at h
  · intro x hx; have := h.1.1.2 x hx; simpa using this

theorem trailerNames_ne_nil {dn : Bool} : ∀ (names : List Bytes), names ≠ [] → (∀ k ∈ names, wfTName dn k = true) →
    HW.trailerNames names ≠ []
  | [], h, _ => absurd rfl h
  | [k], _, hw => by
    have := (wfTName_parts (hw k (by simp))).1
    simpa [HW.trailerNames] using this
  | k :: k2 :: t, _, hw => by
    have := (wfTName_parts (hw k (by simp))).1
    simp [HW.trailerNames, this]

theorem trailerNames_mem {dn : Bool} : ∀ (names : List Bytes), (∀ k ∈ names, wfTName dn k = true) →
    ∀ x ∈ HW.trailerNames names, x = 44 ∨ x = 32 ∨ ∃ k ∈ names, x ∈ k
  | [], _, x, hx => by simp [HW.trailerNames] at hx
  | [k], _, x, hx => by
    right; right; exact ⟨k, by simp, by simpa [HW.trailerNames] using hx⟩
  | k :: k2 :: t, hw, x, hx => by
    simp only [HW.trailerNames, strCommaSpace, List.mem_append, List.mem_cons, List.mem_nil_iff, or_false] at hx
    rcases hx with (hx | hx | hx) | hx
    · right; right; exact ⟨k, by simp, hx⟩
    · left; exact hx
    · right; left; exact hx
    · rcases trailerNames_mem (k2 :: t) (fun y hy => hw y (by simp [hy])) x hx with h | h | ⟨y, hy, hxy⟩
      · left; exact h
      · right; left; exact h
      · right; right; exact ⟨y, by simp [hy], hxy⟩

theorem split_names {dn : Bool} : ∀ (names : List Bytes) (sp : Bool), names ≠ [] → (∀ k ∈ names, wfTName dn k = true) →
    (splitOn 44 ((if sp then [32] else []) ++ HW.trailerNames names)).map stripOWS = names
  | [], _, h, _ => absurd rfl h
  | [k], sp, _, hw => by
    obtain ⟨_, hk, _, _⟩ := wfTName_parts (hw k (by simp))
    have h44 : ∀ x ∈ (if sp then [32] else []) ++ k, x ≠ 44 := by
      intro x hx
      cases sp <;> simp at hx
      · exact (hk x hx).1
      · rcases hx with hx | hx
        · subst hx; decide
        · exact (hk x hx).1
    simp only [HW.trailerNames]
    rw [splitOn_nosep 44 _ h44]
    cases sp
    · simp [stripOWS_clean k (fun x hx => (hk x hx).2)]
    · simp [stripOWS_sp k (fun x hx => (hk x hx).2)]
  | k :: k2 :: t, sp, _, hw => by
    obtain ⟨_, hk, _, _⟩ := wfTName_parts (hw k (by simp))
    have h44 : ∀ x ∈ (if sp then [32] else []) ++ k, x ≠ 44 := by
      intro x hx
      cases sp <;> simp at hx
      · exact (hk x hx).1
      · rcases hx with hx | hx
        · subst hx; decide
        · exact (hk x hx).1
    have ih := split_names (k2 :: t) true (by simp) (fun y hy => hw y (by simp [hy]))
    have e : (if sp then [32] else []) ++ HW.trailerNames (k :: k2 :: t) =
        ((if sp then [32] else []) ++ k) ++ 44 :: ((if true then [32] else []) ++ HW.trailerNames (k2 :: t)) := by
      simp [HW.trailerNames, strCommaSpace, List.append_assoc]
    rw [e, splitOn_append 44 _ _ h44, List.map_cons, ih]
    cases sp
    · simp [stripOWS_clean k (fun x hx => (hk x hx).2)]
    · simp [stripOWS_sp k (fun x hx => (hk x hx).2)]

theorem trailerNames_last {dn : Bool} : ∀ (names : List Bytes), names ≠ [] → (∀ k ∈ names, wfTName dn k = true) →
    (HW.trailerNames names).getLast? ≠ some 44 ∧ (HW.trailerNames names).getLast? ≠ some 32
  | [], h, _ => absurd rfl h
  | [k], _, hw => by
    obtain ⟨_, hk, _, _⟩ := wfTName_parts (hw k (by simp))
    simp only [HW.trailerNames]
    cases h : k.getLast? with
    | none => simp
    | some a =>
      have := hk a (List.mem_of_getLast? h)
      simp [this.1, this.2]
  | k :: k2 :: t, _, hw => by
    have ih := trailerNames_last (k2 :: t) (by simp) (fun y hy => hw y (by simp [hy]))
    have hne := trailerNames_ne_nil (dn := dn) (k2 :: t) (by simp) (fun y hy => hw y (by simp [hy]))
    simp only [HW.trailerNames]
    cases hx : (HW.trailerNames (k2 :: t)).getLast? with
    | none => exact absurd (List.getLast?_eq_none_iff.mp hx) hne
    | some x =>
      rw [hx] at ih
      rw [List.getLast?_append, hx]
      simpa using ih

/-- `Trailer.SetTrailers` applied to what `Trailer.GetBytes` wrote returns the declared names, no error -/
theorem setTrailers_names (dn : Bool) (names : List Bytes) (hne : names ≠ []) (hw : ∀ k ∈ names, wfTName dn k = true) :
    setTrailers dn (HW.trailerNames names) = (names, false) := by
  unfold setTrailers
  have h1 : (HW.trailerNames names).isEmpty = false := by
    have := trailerNames_ne_nil names hne hw
    cases h : HW.trailerNames names with
    | nil => exact absurd h this
    | cons _ _ => rfl
  have h2 : ¬ ((HW.trailerNames names).getLast? = some 44) := (trailerNames_last names hne hw).1
  have h3 := split_names names false hne hw
  simp only [Bool.false_eq_true, if_false, List.nil_append] at h3
  simp only [h1, Bool.false_eq_true, if_false, h2, h3]
  have h4 : names.filter (fun e => !e.isEmpty) = names := by
    rw [List.filter_eq_self]
    intro k hk
    have := (wfTName_parts (hw k hk)).1
    cases k with
    | nil => exact absurd rfl this
    | cons _ _ => rfl
  have h5 : names.map (normalizeKey dn) = names := by
    have : ∀ k ∈ names, normalizeKey dn k = id k := fun k hk => (wfTName_parts (hw k hk)).2.2.1
    rw [List.map_congr_left this]; simp
  have h6 : names.filter (fun k => !isBadTrailer k) = names := by
    rw [List.filter_eq_self]
    intro k hk
    simp [(wfTName_parts (hw k hk)).2.2.2]
  rw [h4, h5, h6]
  congr 1
  cases hl : names.getLast? with
  | none => rfl
  | some k => exact (wfTName_parts (hw k (List.mem_of_getLast? hl))).2.2.2

/-! ### the trailer section -/

def filled (l : List (Bytes × Bytes)) : List (Bytes × Option Bytes) := l.map (fun kv => (kv.1, some kv.2))
def unfilled (l : List (Bytes × Bytes)) : List (Bytes × Option Bytes) := l.map (fun kv => (kv.1, none))

theorem updateTrailer_fill : ∀ (pre : List (Bytes × Bytes)) (k v : Bytes) (suf : List (Bytes × Option Bytes)),
    updateTrailer (filled pre ++ (k, none) :: suf) k v = filled pre ++ (k, some v) :: suf
  | [], k, v, suf => by simp [filled, updateTrailer]
  | p :: pre, k, v, suf => by
    have ih := updateTrailer_fill pre k v suf
    simp only [filled, List.map_cons, List.cons_append] at ih ⊢
    simp [updateTrailer, ih]

/-- a trailer field that round-trips: well-formed as a header field, its name is one `SetTrailers` keeps -/
def wfTrailer (dn : Bool) (kv : Bytes × Bytes) : Bool := wfField dn kv && wfTName dn kv.1

theorem validName_no_blank {k : Bytes} (h : HW.validName k = true) : k.contains 32 = false ∧ k.contains 9 = false := by
  have key : ∀ x ∈ k, x ≠ 32 ∧ x ≠ 9 := by
    intro x hx
    have hv : tget Gen.validHeaderFieldNameTable x ≠ 0 := by
      have := List.all_eq_true.mp h x hx
      simpa using this
    have h1 := allBytes_spec HW.tbl_name_clean x
    have h2 := allBytes_spec tbl_name_notab x
    simp [hv] at h1 h2
    exact ⟨h1.2, h2⟩
  constructor
  · cases hc : k.contains 32 with
    | false => rfl
    | true => exact absurd rfl (key 32 (by simpa using hc)).1
  · cases hc : k.contains 9 with
    | false => rfl
    | true => exact absurd rfl (key 9 (by simpa using hc)).2

theorem parseTrailerLoop_block (dn : Bool) : ∀ (todo done : List (Bytes × Bytes)) (rest : Bytes) (hlen fuel : Nat),
    (∀ kv ∈ todo, wfTrailer dn kv = true) → todo.length < fuel →
    parseTrailerLoop dn fuel (HW.block todo ++ rest) (filled done ++ unfilled todo) false hlen =
      .ok (filled (done ++ todo), hlen + (HW.block todo).length)
  | [], done, rest, hlen, fuel, _, hf => by
    obtain ⟨f, rfl⟩ : ∃ f, fuel = f + 1 := ⟨fuel - 1, by omega⟩
    simp [HW.block, HW.strCRLF_eq, parseTrailerLoop, scanNext, unfilled]
  | kv :: todo, done, rest, hlen, fuel, h, hf => by
    obtain ⟨f, rfl⟩ : ∃ f, fuel = f + 1 := ⟨fuel - 1, by omega⟩
    have hkv := h kv (by simp)
    simp only [wfTrailer, Bool.and_eq_true] at hkv
    obtain ⟨hne, hv, hn, hc⟩ := wfField_parts hkv.1
    obtain ⟨_, _, _, hbad⟩ := wfTName_parts hkv.2
    have hk := HW.validName_clean kv.1 hv
    have hwf : wfFields dn todo = true := by
      simp only [wfFields, List.all_eq_true]
      intro x hx
      have := h x (by simp [hx])
      simp only [wfTrailer, Bool.and_eq_true] at this
      exact this.1
    have e : HW.block (kv :: todo) ++ rest = kv.1 ++ 58 :: 32 :: (kv.2 ++ 13 :: 10 :: (HW.block todo ++ rest)) := by
      simp [HW.block, headerLine_wf hkv.1, List.append_assoc]
    have el : (HW.block (kv :: todo)).length = (kv.1.length + kv.2.length + 4) + (HW.block todo).length := by
      simp [HW.block, headerLine_wf hkv.1]; omega
    rw [e]
    simp only [parseTrailerLoop]
    rw [scanNext_line dn kv.1 kv.2 _ hne hk hc (block_head todo rest hwf)]
    have hemp : kv.1.isEmpty = false := by
      cases hh : kv.1 with
      | nil => exact absurd hh hne
      | cons _ _ => rfl
    obtain ⟨hb1, hb2⟩ := validName_no_blank hv
    simp only [hn, hemp, hb1, hb2, hbad, Bool.false_eq_true, if_false, Bool.or_self]
    have hst : updateTrailer (filled done ++ unfilled (kv :: todo)) kv.1 kv.2 = filled (done ++ [kv]) ++ unfilled todo := by
      have := updateTrailer_fill done kv.1 kv.2 (unfilled todo)
      simp only [unfilled, List.map_cons, filled, List.map_append, List.map_nil, List.append_assoc, List.cons_append,
        List.nil_append] at this ⊢
      exact this
    rw [hst, parseTrailerLoop_block dn todo (done ++ [kv]) rest _ f (fun x hx => h x (by simp [hx])) (by simp at hf; omega), el]
    simp [Nat.add_assoc]

theorem filledTrailers_filled (l : List (Bytes × Bytes)) : filledTrailers (filled l) = l := by
  induction l with
  | nil => rfl
  | cons a t ih => simp only [filledTrailers, filled, List.map_cons, List.map_map] at ih ⊢; rw [ih]; rfl

/-- `ext.ReadTrailer` on the trailer section the writer emits, with the names declared in `Trailer:` -/
theorem readTrailer_block (dn : Bool) (maxBody : Nat) (e : End) (tr : List (Bytes × Bytes)) (rest : Bytes)
    (h : ∀ kv ∈ tr, wfTrailer dn kv = true) :
    readTrailerReq { disableNorm := dn, maxBody := maxBody } e (tr.map (·.1)) (HW.block tr ++ rest) = .ok (some tr, rest) := by
  have hloop := parseTrailerLoop_block dn tr [] rest 0 ((HW.block tr ++ rest).length + 1) h (by
    have hwf : wfFields dn tr = true := by
      simp only [wfFields, List.all_eq_true]
      intro x hx
      have := h x hx
      simp only [wfTrailer, Bool.and_eq_true] at this
      exact this.1
    have := wf_length_le_block tr hwf
    simp only [List.length_append]; omega)
  simp only [filled, List.map_nil, List.nil_append, Nat.zero_add] at hloop
  have hne : (HW.block tr ++ rest).isEmpty = false := by
    simp [HW.block, HW.strCRLF_eq]
  have hpt : parseTrailer dn (unfilled tr) (HW.block tr ++ rest) = .ok (filled tr, (HW.block tr).length) := by
    unfold parseTrailer
    split
    · -- the trailer section starts with the byte `0`: it is the name of the first field (a name is
      -- never followed by CRLF), not a repeated `0\r\n` line, so the scanning loop sees the whole block
      rename_i r48 heq
      cases tr with
      | nil => simp [HW.block, HW.strCRLF_eq] at heq
      | cons kv t =>
        have hkv := h kv (by simp)
        simp only [wfTrailer, Bool.and_eq_true] at hkv
        obtain ⟨hne', hv, _, _⟩ := wfField_parts hkv.1
        have hk := HW.validName_clean kv.1 hv
        have e1 : HW.block (kv :: t) ++ rest = kv.1 ++ (58 :: 32 :: (kv.2 ++ [13, 10]) ++ (HW.block t ++ rest)) := by
          simp [HW.block, headerLine_wf hkv.1, List.append_assoc]
        have hlen : ¬ (HW.block (kv :: t) ++ rest).length < 3 := by
          rw [e1]; simp only [List.length_append, List.length_cons]; omega
        have hcr : r48.take 2 ≠ strCRLF := by
          rw [e1] at heq
          cases hk1 : kv.1 with
          | nil => exact absurd hk1 hne'
          | cons c t' =>
            rw [hk1] at heq hk
            simp only [List.cons_append, List.cons.injEq] at heq
            rw [← heq.2]
            match t', hk with
            | [], _ => simp [HW.strCRLF_eq]
            | [a], _ => simp [HW.strCRLF_eq]
            | a :: b :: t'', hk =>
              have ha : a ≠ 13 := (hk a (by simp)).1
              simp [HW.strCRLF_eq, ha]
        simp only [hlen, if_false, hcr]
        simp only [filled]; exact hloop
    · simp only [filled]; exact hloop
  unfold readTrailerReq
  simp only [hne, Bool.false_eq_true, if_false]
  have hu : (tr.map (·.1)).map (fun k => (k, (none : Option Bytes))) = unfilled tr := by
    simp [unfilled]
  rw [hu, hpt]
  simp [filledTrailers_filled]

/-! ### a chunked response with trailer fields -/

/-- a streamed response (`base.body = .chunked …`) that also sets trailer fields (`Trailer().Set`) -/
structure WRespT where
  base : WResp
  trailers : List (Bytes × Bytes)
deriving Repr, DecidableEq

def WRespT.hdr (r : WRespT) : HW.RespHdr := { r.base.hdr with trailer := r.trailers.map (·.1) }
def WRespT.prog (r : WRespT) : Prog := { r.base.prog with trailers := r.trailers }
def respWireT (r : WRespT) : Bytes := r.hdr.bytes ++ (frame r.prog false).wire

/-- well-formed: the base response is, its body is streamed, every trailer field is a well-formed
field whose name `SetTrailers` keeps (not a forbidden trailer name, no comma).  A name may start with
`0` (`parseTrailer` skips a repeated `0\r\n` line only, since the repair of `/repo` f1dae26) -/
def wfRespT (dn : Bool) (r : WRespT) : Bool :=
  wfResp dn r.base && (match r.base.body with | .chunked _ => true | .fixed _ => false) &&
  r.trailers.all (wfTrailer dn)

def WRespT.seenHead (r : WRespT) : RespHead := { r.base.seenHead with trailer := r.trailers.map (·.1) }

def preFields (r : HW.RespHdr) : List (Bytes × Bytes) :=
  (if r.server.isEmpty then [] else [(strServer, r.server)]) ++
  (match r.date with | some d => [(strDate, d)] | none => []) ++
  (if (r.contentLength != 0 || !r.contentType.isEmpty) && !r.contentType.isEmpty then [(strContentType, r.contentType)] else []) ++
  (if r.contentEncoding.isEmpty then [] else [(strContentEncoding, r.contentEncoding)]) ++
  (if r.clBytes.isEmpty then [] else [(strContentLength, r.clBytes)]) ++
  (r.h.filter (fun kv => r.date.isNone || kv.1 != strDate))

theorem fields_split (r : HW.RespHdr) :
    r.fields = preFields r ++ (if r.trailer.isEmpty then [] else [(strTrailer, HW.trailerNames r.trailer)]) ++
      r.cookies.map (fun c => (strSetCookie, c)) ++ (if r.connClose then [(strConnection, strClose)] else []) := rfl

theorem kind_trailer : kindOf strTrailer = .trailer := by decide +kernel

theorem wfName_trailer (dn : Bool) : (!strTrailer.isEmpty && HW.validName strTrailer && (normalizeKey dn strTrailer == strTrailer)) = true := by
  cases dn <;> decide +kernel

theorem applyAll_conn (dn : Bool) (st : HState) (c : Bool) (h0 : st.head.connClose = false) :
    applyAll dn st (if c then [(strConnection, strClose)] else []) = { st with head := { st.head with connClose := c } } := by
  cases c with
  | false =>
    simp only [Bool.false_eq_true, if_false, applyAll_nil]
    obtain ⟨⟨s, h11, ct, ce, sv, cl, clb, cc, h, ck, tr⟩, err⟩ := st
    simp only at h0; subst h0; rfl
  | true =>
    simp only [if_true, applyAll_one]
    rw [applyHeader_kind dn _ strConnection _ (by decide), kind_conn]
    have hcc : ciEq strClose strClose = true := by decide +kernel
    simp only [hcc, if_true]

theorem wfTName_valid_clean {dn : Bool} {kv : Bytes × Bytes} (h : wfTrailer dn kv = true) :
    ∀ x ∈ kv.1, x ≠ 10 ∧ x ≠ 13 ∧ x ≠ 32 ∧ x ≠ 9 := by
  simp only [wfTrailer, Bool.and_eq_true] at h
  obtain ⟨_, hv, _, _⟩ := wfField_parts h.1
  obtain ⟨_, hk, _, _⟩ := wfTName_parts h.2
  intro x hx
  have := HW.validName_clean kv.1 hv x hx
  have htab : x ≠ 9 := by
    have hv' : tget Gen.validHeaderFieldNameTable x ≠ 0 := by
      have := List.all_eq_true.mp hv x hx
      simpa using this
    have h2 := allBytes_spec tbl_name_notab x
    simpa [hv'] using h2
  exact ⟨this.2.1, this.1, (hk x hx).2.1, htab⟩

theorem trailerNames_cleanVal (dn : Bool) (tr : List (Bytes × Bytes)) (hne : tr ≠ []) (h : ∀ kv ∈ tr, wfTrailer dn kv = true) :
    cleanVal (HW.trailerNames (tr.map (·.1))) = true := by
  have hw : ∀ k ∈ tr.map (·.1), wfTName dn k = true := by
    intro k hk
    obtain ⟨kv, hkv, rfl⟩ := List.mem_map.mp hk
    have := h kv hkv
    simp only [wfTrailer, Bool.and_eq_true] at this
    exact this.2
  have hne' : tr.map (·.1) ≠ [] := by simpa using hne
  simp only [cleanVal, Bool.and_eq_true, List.all_eq_true]
  refine ⟨⟨?_, ?_⟩, ?_⟩
  · intro x hx
    rcases trailerNames_mem _ hw x hx with h1 | h1 | ⟨k, hk, hxk⟩
    · subst h1; decide
    · subst h1; decide
    · obtain ⟨kv, hkv, rfl⟩ := List.mem_map.mp hk
      have := wfTName_valid_clean (h kv hkv) x hxk
      simp [this.1, this.2.1]
  · cases tr with
    | nil => exact absurd rfl hne
    | cons kv t =>
      have hc := wfTName_valid_clean (h kv (by simp))
      have hkne := (wfTName_parts (hw kv.1 (by simp))).1
      cases hk1 : kv.1 with
      | nil => exact absurd hk1 hkne
      | cons c t' =>
        have hc32 : c ≠ 32 := (hc c (by rw [hk1]; simp)).2.2.1
        have hc9 : c ≠ 9 := (hc c (by rw [hk1]; simp)).2.2.2
        cases t with
        | nil => simp [HW.trailerNames, hk1, hc32, hc9, isOWS]
        | cons kv2 t2 => simp [HW.trailerNames, hk1, hc32, hc9, isOWS]
  · have hl32 := (trailerNames_last _ hne' hw).2
    have hl44 := (trailerNames_last _ hne' hw).1
    cases hl : (HW.trailerNames (tr.map (·.1))).getLast? with
    | none => simp
    | some a =>
      rw [hl] at hl32 hl44
      have ha32 : a ≠ 32 := by simpa using hl32
      have ha44 : a ≠ 44 := by simpa using hl44
      have ha9 : a ≠ 9 := by
        rcases trailerNames_mem _ hw a (List.mem_of_getLast? hl) with h1 | h1 | ⟨k, hk, hxk⟩
        · exact absurd h1 ha44
        · exact absurd h1 ha32
        · obtain ⟨kv, hkv, rfl⟩ := List.mem_map.mp hk
          exact (wfTName_valid_clean (h kv hkv) a hxk).2.2.2
      simp [isOWS, ha32, ha9]

theorem finish_gen (hd : RespHead) (h1 : hd.cl = -1) (h2 : hd.clBytes = []) (h3 : hd.http11 = true) : finishHead hd = hd := by
  obtain ⟨s, h11, ct, ce, sv, cl, clb, cc, h, ck, tr⟩ := hd
  simp only at h1 h2 h3
  subst h1 h2 h3
  simp [finishHead]

theorem frame_chunkedT (r : WRespT) (rs : List Bytes) (hs : RespRead.mustSkipCL r.base.status = false) (hb : r.base.body = .chunked rs) :
    frame r.prog false = { framing := .chunked, wire := chunkedWire rs r.trailers } := by
  simp [frame, WRespT.prog, WResp.prog, hb, mustSkip_same, hs]

/-- the reader's state after the fields that precede `Trailer:` -/
theorem scanned_pre (dn : Bool) (b : WResp) (rs : List Bytes) (p : WfParts dn b) (hb : b.body = .chunked rs) :
    applyAll dn { head := { status := b.status, http11 := true, cl := -2 } } (preFields b.hdr) =
      mk b.status b.server b.contentType b.contentEncoding (-1) [] false
        (b.seenFields ++ [(strTransferEncoding, strChunked)]) [] := by
  let b' : WResp := { b with cookies := [], connClose := false }
  have p' : WfParts dn b' :=
    ⟨p.skip, p.st, p.reason, p.server, p.ctype, p.cenc, p.date, p.h, by intro c hc; simp [b'] at hc, p.fixed, p.chunked⟩
  have := scanned_chunked dn b' rs p' hb
  have e1 : b'.hdr.fields = preFields b.hdr := by
    rw [fields_split]
    simp [b', WResp.hdr, preFields]
  rw [e1] at this
  exact this

/-- **Response round trip with trailers** -/
theorem response_roundtrip_trailers (dn : Bool) (maxBody : Nat) (e : End) (r : WRespT) (rest : Bytes)
    (hw : wfRespT dn r = true) (hmax : maxBody = 0 ∨ r.base.body.content.length ≤ maxBody) :
    readResponse dn maxBody e (respWireT r ++ rest) =
      .ok { head := r.seenHead, body := r.base.body.content, trailers := r.trailers, rest := rest } := by
  simp only [wfRespT, Bool.and_eq_true, List.all_eq_true] at hw
  obtain ⟨⟨hwb, hch⟩, htr1⟩ := hw
  by_cases hnil : r.trailers = []
  · -- no trailer field: the base statement
    have e1 : respWireT r = respWire r.base := by
      simp only [respWireT, respWire, WRespT.hdr, WRespT.prog, hnil, List.map_nil]; rfl
    have e2 : r.seenHead = r.base.seenHead := by
      simp only [WRespT.seenHead, hnil, List.map_nil]; rfl
    rw [e1, e2, hnil]
    exact response_roundtrip dn maxBody e r.base rest hwb hmax
  · have p := wfResp_parts hwb
    cases hb : r.base.body with
    | fixed b => rw [hb] at hch; simp at hch
    | chunked rs =>
    have hne : isInterim r.base.status = false := notInterim_of_notSkip r.base.status p.skip
    have hnames : (r.trailers.map (·.1)).isEmpty = false := by
      cases ht : r.trailers with
      | nil => exact absurd ht hnil
      | cons _ _ => rfl
    have hwn : ∀ k ∈ r.trailers.map (·.1), wfTName dn k = true := by
      intro k hk
      obtain ⟨kv, hkv, rfl⟩ := List.mem_map.mp hk
      have := htr1 kv hkv
      simp only [wfTrailer, Bool.and_eq_true] at this
      exact this.2
    -- the fields on the wire
    have hf : r.hdr.fields = preFields r.base.hdr ++ [(strTrailer, HW.trailerNames (r.trailers.map (·.1)))] ++
        r.base.cookies.map (fun c => (strSetCookie, c)) ++ (if r.base.connClose then [(strConnection, strClose)] else []) := by
      rw [fields_split]
      simp only [WRespT.hdr, hnames, Bool.false_eq_true, if_false]
      rfl
    have hfb : r.base.hdr.fields = preFields r.base.hdr ++ [] ++
        r.base.cookies.map (fun c => (strSetCookie, c)) ++ (if r.base.connClose then [(strConnection, strClose)] else []) := by
      rw [fields_split]; rfl
    have hwfb := hdr_fields_wf dn r.base p
    rw [hfb] at hwfb
    simp only [wfFields_append, Bool.and_eq_true] at hwfb
    have hwfT : wfFields dn [(strTrailer, HW.trailerNames (r.trailers.map (·.1)))] = true := by
      simp only [wfFields, List.all_cons, List.all_nil, Bool.and_true, wfField, wfName_trailer dn, Bool.true_and]
      exact trailerNames_cleanVal dn r.trailers hnil htr1
    have hwf : wfFields dn r.hdr.fields = true := by
      rw [hf]
      simp only [wfFields_append, Bool.and_eq_true]
      exact ⟨⟨⟨hwfb.1.1.1, hwfT⟩, hwfb.1.2⟩, hwfb.2⟩
    -- the reader's state after the head
    have hsc : scanned dn r.base.status r.hdr.fields =
        { head := { (mk r.base.status r.base.server r.base.contentType r.base.contentEncoding (-1) [] r.base.connClose
            (r.base.seenFields ++ [(strTransferEncoding, strChunked)]) r.base.cookies).head with trailer := r.trailers.map (·.1) },
          err := false } := by
      unfold scanned
      rw [hf]
      simp only [applyAll_append]
      rw [scanned_pre dn r.base rs p hb, applyAll_one, applyHeader_kind dn _ strTrailer _ (by decide), kind_trailer]
      simp only [setTrailers_names dn _ (by simpa using hnil) hwn]
      rw [applyAll_cookies, applyAll_conn dn _ _ rfl]
      simp [mk]
    have herr : (scanned dn r.base.status r.hdr.fields).err = false := by rw [hsc]
    have hfr := frame_chunkedT r rs p.skip hb
    have hwire : ∀ X, r.hdr.bytes ++ X = statusLine r.base.status r.base.reason ++ strCRLF ++ HW.block r.hdr.fields ++ X := fun X => rfl
    unfold readResponse
    rw [respWireT, hfr, List.append_assoc, hwire,
      readHeaders_written dn e r.base.status r.base.reason r.hdr.fields _ p.st hne p.reason hwf herr, hsc,
      finish_gen _ rfl rfl rfl]
    simp only
    have hcw : chunkedWire rs r.trailers ++ rest =
        encodeChunks (rs.filter (fun r => !r.isEmpty)) ++ writeChunk [] ++ (HW.block r.trailers ++ rest) := by
      simp [chunkedWire, trailerBlock, List.append_assoc]
    have hcs : ∀ c ∈ rs.filter (fun r => !r.isEmpty), c ≠ [] ∧ c.length < 16 ^ 15 := by
      intro c hc
      have := List.mem_filter.mp hc
      refine ⟨?_, p.chunked rs hb c this.1⟩
      intro e0; rw [e0] at this; simp at this
    have hm' : maxBody = 0 ∨ ([] : Bytes).length + (rs.filter (fun r => !r.isEmpty)).flatten.length ≤ maxBody := by
      rw [hb] at hmax; simp only [WBody.content] at hmax
      rw [flatten_filter_nonempty]; simpa using hmax
    have hrd := readBodyChunked_encode e maxBody (rs.filter (fun r => !r.isEmpty)) (HW.block r.trailers ++ rest) []
      ((chunkedWire rs r.trailers ++ rest).length + 1) hcs (by
        have := length_le_encodeChunks (rs.filter (fun r => !r.isEmpty))
        rw [hcw]; simp only [List.length_append]; omega) hm'
    rw [← hcw, flatten_filter_nonempty] at hrd
    have hfil : r.base.seenFields.filter (fun kv => kv.1 != strTransferEncoding) = r.base.seenFields := by
      rw [List.filter_eq_self]
      intro kv hkv
      simpa using seen_ne_te p kv hkv
    unfold readBodyPart
    have hneg : ¬ ((-1 : Int) ≥ 0) := by omega
    simp only [mk, p.skip, Bool.false_eq_true, if_false, hneg, if_true, hrd, List.nil_append,
      readTrailer_block dn maxBody e r.trailers rest htr1, RespRead.setContentLength, WRespT.seenHead, WResp.seenHead,
      WBody.content, hb]
    rw [List.filter_append, hfil]
    simp [strTransferEncoding]

/-- `exChunked` with the trailer fields `X-T: ok`, `X-Sum: 9` -/
def exTrailers : WRespT :=
  { base := exChunked, trailers := [([88, 45, 84], [111, 107]), ([88, 45, 83, 117, 109], [57])] }

/-- `exChunked` with a trailer field whose name starts with `0`: `0a: b`, then `X-T: ok` (the witness of
the repaired desynchronisation, notes/P11.md finding 2) -/
def exTrailers0 : WRespT :=
  { base := exChunked, trailers := [([48, 97], [98]), ([88, 45, 84], [111, 107])] }

end Hertz.H1.RT
