import Hertz.Model.Conn
import Hertz.Spec.Fifo
import Hertz.Gen.Conn
/-!
Lemmas for C13: the model of `standard.Conn` / `networkWriter` (`Hertz/Model/Conn.lean`) against the
byte-queue spec (`Hertz/Spec/Fifo.lean`).  Reader: `fill_spec`, `peek_spec`, `skip_spec`, `release_spec`,
`step_spec`, `run_spec`; stability: `step_stable`; writer: `wflush_spec`, `wrun_spec`, `nwRun_spec`.
-/
namespace Hertz.Conn

theorem pow2ceilAux_ge (f p n : Nat) (h : n ≤ p * 2 ^ f) : n ≤ pow2ceilAux f p n := by
  induction f generalizing p with
  | zero => simpa [pow2ceilAux] using h
  | succ f ih =>
    unfold pow2ceilAux
    split
    · assumption
    · apply ih
      rw [Nat.pow_succ] at h
      calc n ≤ p * (2 ^ f * 2) := h
        _ = 2 * p * 2 ^ f := by ac_rfl

theorem capOf_ge (n : Nat) : n ≤ capOf n := by
  unfold capOf
  split
  · exact Nat.le_refl _
  · rename_i h
    apply pow2ceilAux_ge
    have : mallocMax ≤ 2 ^ 64 := by decide
    simp at h
    omega

theorem fillLoop_bytes (w : Wire) (need room : Nat) :
    (fillLoop w need room).1 ++ wireBytes (fillLoop w need room).2.2 = wireBytes w := by
  fun_induction fillLoop w need room <;> simp_all [wireBytes, prependBytes]
  all_goals rw [← List.append_assoc, List.take_append_drop]

/-- the loop never spins when the buffer has room for what is needed -/
theorem fillLoop_no_hang (w : Wire) (need room : Nat) (h : need ≤ room) :
    (fillLoop w need room).2.1 ≠ .hang := by
  fun_induction fillLoop w need room <;> simp_all [prependBytes]
  all_goals omega

/-- when the loop ends normally the write node holds at least what was asked for -/
theorem fillLoop_ok_len (w : Wire) (need room : Nat) (h : (fillLoop w need room).2.1 = .ok) :
    need ≤ (fillLoop w need room).1.length := by
  fun_induction fillLoop w need room
  case case4 ih =>
    simp only [prependBytes] at h ⊢
    have := ih h
    simp only [List.length_append]; omega
  all_goals simp_all
  all_goals omega

theorem connRead_bytes (w : Wire) (room : Nat) :
    (connRead w room).1.1 ++ wireBytes (connRead w room).2 = wireBytes w := by
  unfold connRead
  split
  · simp [wireBytes]
  · split <;> simp [wireBytes]
    rw [← List.append_assoc, List.take_append_drop]

theorem Node.len_eq (nd : Node) : nd.len = nd.unread.length := by simp [Node.len, Node.unread]

theorem peekWalk_spec (l : List Node) (n : Nat) (h : n ≤ (l.flatMap Node.unread).length) :
    peekWalk l n = .ok ((l.flatMap Node.unread).take n) := by
  fun_induction peekWalk l n
  · rfl
  · simp at h
  · rename_i nd rest ack hl
    rw [Node.len_eq] at hl
    simp only [List.flatMap_cons]
    rw [List.take_append_of_le_length hl]; rfl
  · rename_i nd rest ack hl ih
    rw [Node.len_eq] at hl ih ⊢
    simp only [List.flatMap_cons, List.length_append] at h ⊢
    have e1 : nd.unread.length ≤ ack + 1 := by omega
    rw [ih (by omega)]
    simp only [bind, Except.bind, pure, Except.pure]
    rw [List.take_append, List.take_of_length_le e1]

theorem skipWalk_spec (done mid : List Node) (w : Node) (n : Nat)
    (h : n ≤ ((mid ++ [w]).flatMap Node.unread).length) :
    ∃ done' mid' w', skipWalk done mid w n = .ok (done', mid', w') ∧
      (mid' ++ [w']).flatMap Node.unread = ((mid ++ [w]).flatMap Node.unread).drop n := by
  fun_induction skipWalk done mid w n
  · exact ⟨_, _, _, rfl, by simp⟩
  · rename_i done w ack hl
    exact ⟨_, _, _, rfl, by simp [Node.unread, List.drop_drop]⟩
  · rename_i done w ack hl
    rw [Node.len_eq] at hl
    simp at h; omega
  · rename_i done nd mid w ack hl
    rw [Node.len_eq] at hl
    refine ⟨_, _, _, rfl, ?_⟩
    simp only [List.cons_append, List.flatMap_cons]
    rw [List.drop_append_of_le_length hl]
    simp [Node.unread, List.drop_drop]
  · rename_i done nd mid w ack hl ih
    rw [Node.len_eq] at hl ih ⊢
    simp only [List.cons_append, List.flatMap_cons, List.length_append] at h ⊢
    have e1 : nd.unread.length ≤ ack + 1 := by omega
    obtain ⟨d', m', w', h1, h2⟩ := ih (by omega)
    refine ⟨d', m', w', h1, ?_⟩
    rw [h2, List.drop_append, List.drop_of_length_le e1]
    simp


/-- identity and contents of the memory block of a node -/
def Node.blk (nd : Node) : Nat × Bytes := (nd.id, nd.data)

theorem skipWalk_blocks (done mid : List Node) (w : Node) (n : Nat) (d' m' : List Node) (w' : Node)
    (h : skipWalk done mid w n = .ok (d', m', w')) :
    (d' ++ m' ++ [w']).map Node.blk = (done ++ mid ++ [w]).map Node.blk ∧
    (w.off ≤ w.data.length → w'.off ≤ w'.data.length) ∧ w'.data = w.data ∧ w'.cap = w.cap ∧ w'.readOnly = w.readOnly := by
  fun_induction skipWalk done mid w n
  · simp only [pure, Except.pure, Except.ok.injEq, Prod.mk.injEq] at h
    obtain ⟨rfl, rfl, rfl⟩ := h
    simp
  · rename_i done w ack hl
    simp only [pure, Except.pure, Except.ok.injEq, Prod.mk.injEq] at h
    obtain ⟨rfl, rfl, rfl⟩ := h
    simp [Node.blk, Node.len] at hl ⊢
    omega
  · simp [throw, throwThe, MonadExceptOf.throw] at h
  · rename_i done nd mid w ack hl
    simp only [pure, Except.pure, Except.ok.injEq, Prod.mk.injEq] at h
    obtain ⟨rfl, rfl, rfl⟩ := h
    simp [Node.blk]
  · rename_i done nd mid w ack hl ih
    have := ih h
    simpa using this

/-- the reader's bookkeeping is consistent: `len` counts the buffered-but-unconsumed bytes -/
def Inv (s : Reader) : Prop := s.len = s.unread.length ∧ s.w.off ≤ s.w.data.length

/-- everything the peer sent that has not been consumed yet: buffered bytes, then the wire -/
def stream (s : Reader) (w : Wire) : Bytes := s.unread ++ wireBytes w

theorem unread_def (s : Reader) : s.unread = s.mid.flatMap Node.unread ++ s.w.unread := by
  simp [Reader.unread, Reader.cur]

theorem Node.unread_append (nd : Node) (bs : Bytes) (h : nd.off ≤ nd.data.length) :
    ({ nd with data := nd.data ++ bs } : Node).unread = nd.unread ++ bs := by
  simp [Node.unread, List.drop_append_of_le_length h]


theorem fill_spec (s : Reader) (w : Wire) (i : Nat) (hI : Inv s) :
    ∃ e s' w', fill s w i = .ok (e, s', w') ∧ Inv s' ∧ stream s' w' = stream s w ∧
      (e = none → s'.len < i → s'.err.isSome) ∧ (e.isSome → 0 < i) ∧
      (∃ bs, s'.unread = s.unread ++ bs) := by
  obtain ⟨hlen, hoff⟩ := hI
  unfold fill
  by_cases h1 : s.len ≥ i
  · simp only [h1, if_true]
    exact ⟨none, s, w, rfl, ⟨hlen, hoff⟩, rfl, by intro _ h; omega, by simp, ⟨[], by simp⟩⟩
  · simp only [h1, if_false]
    cases he : s.err with
    | some e =>
      simp only
      by_cases h2 : s.len > 0
      · simp only [h2, if_true]
        refine ⟨none, _, w, rfl, ⟨hlen, hoff⟩, rfl, by intro _ _; rfl, by simp, ⟨[], by simp [Reader.unread, Reader.cur]⟩⟩
      · simp only [h2, if_false]
        refine ⟨some e, _, w, rfl, ⟨hlen, hoff⟩, rfl, by simp, by intro _; omega, ⟨[], by simp [Reader.unread, Reader.cur]⟩⟩
    | none =>
      simp only
      generalize hs1 : (if (s.w.cap - s.w.data.length < i - s.len || s.w.readOnly) = true then
          ({ s with mid := s.mid ++ [{ s.w with readOnly := false }],
                    w := newNode (if i < s.maxSize then s.maxSize else i) s.nextId,
                    nextId := s.nextId + 1, err := none } : Reader) else s) = s1
      have hs1I : Inv s1 ∧ s1.unread = s.unread ∧ s1.len = s.len ∧ s1.err = none ∧
          i - s1.len ≤ s1.w.cap - s1.w.data.length := by
        subst hs1
        split
        · refine ⟨⟨?_, by simp [newNode]⟩, ?_, rfl, rfl, ?_⟩
          · simp [unread_def, newNode, Node.unread] at hlen ⊢; exact hlen
          · simp [unread_def, newNode, Node.unread]
          · simp only [newNode, List.length_nil, Nat.sub_zero]
            have := capOf_ge (if i < s.maxSize then s.maxSize else i)
            by_cases hm : i < s.maxSize <;> simp only [hm, if_true, if_false] at this ⊢ <;> omega
        · rename_i hc
          simp only [Bool.or_eq_true, decide_eq_true_eq, not_or, Nat.not_lt] at hc
          exact ⟨⟨hlen, hoff⟩, rfl, rfl, he, hc.1⟩
      obtain ⟨⟨h1len, h1off⟩, h1un, h1l, h1e, h1room⟩ := hs1I
      have hb := fillLoop_bytes w (i - s1.len) (s1.w.cap - s1.w.data.length)
      have hh := fillLoop_no_hang w (i - s1.len) (s1.w.cap - s1.w.data.length) h1room
      have hk := fillLoop_ok_len w (i - s1.len) (s1.w.cap - s1.w.data.length)
      generalize fillLoop w (i - s1.len) (s1.w.cap - s1.w.data.length) = r at hb hh hk ⊢
      obtain ⟨bs, fe, w'⟩ := r
      simp only at hb hh hk ⊢
      have hun2 : ∀ (e : Option Err), ({ s1 with w := { s1.w with data := s1.w.data ++ bs }, len := s1.len + bs.length, err := e } : Reader).unread
          = s.unread ++ bs := by
        intro e
        rw [← h1un]
        simp only [unread_def, Node.unread_append _ _ h1off, List.append_assoc]
      have hInv2 : ∀ (e : Option Err), Inv ({ s1 with w := { s1.w with data := s1.w.data ++ bs }, len := s1.len + bs.length, err := e } : Reader) := by
        intro e
        refine ⟨?_, by simp; omega⟩
        rw [hun2 e]; simp only [List.length_append]; rw [h1l, hlen]
      have hst : ∀ (e : Option Err), stream ({ s1 with w := { s1.w with data := s1.w.data ++ bs }, len := s1.len + bs.length, err := e } : Reader) w'
          = stream s w := by
        intro e
        simp only [stream, hun2 e, List.append_assoc, hb]
      cases fe with
      | ok =>
        refine ⟨none, _, w', rfl, ?_, ?_, ?_, by simp, ⟨bs, ?_⟩⟩
        · have := hInv2 s1.err; simpa using this
        · have := hst s1.err; simpa using this
        · intro _ hlt; have := hk rfl; simp at hlt; omega
        · have := hun2 s1.err; simpa using this
      | stash e =>
        exact ⟨none, _, w', rfl, hInv2 _, hst _, by intro _ _; rfl, by simp, ⟨bs, hun2 _⟩⟩
      | fail e =>
        refine ⟨some e, _, w', rfl, ?_, ?_, by simp, by intro _; omega, ⟨bs, ?_⟩⟩
        · have := hInv2 s1.err; simpa using this
        · have := hst s1.err; simpa using this
        · have := hun2 s1.err; simpa using this
      | hang => exact absurd rfl hh

theorem readNode_cur (s : Reader) : ∃ rest, s.cur = s.readNode :: rest := by
  unfold Reader.cur Reader.readNode
  cases s.mid <;> simp

theorem peek_spec (s : Reader) (w : Wire) (i : Nat) (hI : Inv s) :
    ∃ p e s' w', peek s w i = .ok (p, e, s', w') ∧ Inv s' ∧ stream s' w' = stream s w ∧
      p = s'.unread.take p.length ∧ p.length ≤ s'.len ∧ (e = none → p.length = i) ∧ (e.isSome → p.length < i) ∧
      (∃ bs, s'.unread = s.unread ++ bs) := by
  obtain ⟨e, s1, w1, hf, hI1, hst1, herr1, hpos1, hbs1⟩ := fill_spec s w i hI
  unfold peek
  simp only [hf, bind, Except.bind]
  cases e with
  | some e =>
    refine ⟨[], some e, s1, w1, rfl, hI1, hst1, by simp, by simp, by simp, ?_, hbs1⟩
    intro _; exact hpos1 rfl
  | none =>
    simp only
    -- the state after the (possible) readErr
    generalize hs2 : (if s1.len < i then ({ s1 with err := none } : Reader) else s1) = s2
    have h2un : s2.unread = s1.unread := by subst hs2; split <;> rfl
    have h2len : s2.len = s1.len := by subst hs2; split <;> rfl
    have h2cur : s2.cur = s1.cur := by subst hs2; split <;> rfl
    have h2rn : s2.readNode = s1.readNode := by subst hs2; split <;> rfl
    have hI2 : Inv s2 := by subst hs2; split <;> exact hI1
    have hst2 : stream s2 w1 = stream s w := by rw [← hst1]; simp [stream, h2un]
    generalize hi' : (if s1.len < i then s1.len else i) = i'
    have hi'le : i' ≤ s1.len := by subst hi'; split <;> omega
    have hi'i : i' ≤ i := by subst hi'; split <;> omega
    obtain ⟨rest, hcur⟩ := readNode_cur s2
    have hun : s2.unread = s2.readNode.unread ++ rest.flatMap Node.unread := by
      simp [Reader.unread, hcur]
    have herrshape : ∀ (err : Option Err), err = (if s1.len < i then s1.err else none) →
        (err = none → i' = i) ∧ (err.isSome → i' < i) := by
      intro err he
      subst hi'
      by_cases hlt : s1.len < i
      · rw [if_pos hlt] at he ⊢
        have := herr1 rfl hlt
        subst he
        refine ⟨fun h => ?_, fun _ => hlt⟩
        rw [h] at this; simp at this
      · rw [if_neg hlt] at he ⊢
        subst he
        exact ⟨fun _ => rfl, fun h => by simp at h⟩
    by_cases hdirect : s2.readNode.len ≥ i'
    · simp only [hdirect, if_true]
      have hl := hdirect; rw [Node.len_eq] at hl
      refine ⟨_, _, s2, w1, rfl, hI2, hst2, ?_, ?_, ?_, ?_, ?_⟩
      · simp only [List.length_take, Nat.min_eq_left hl, hun, List.take_append_of_le_length hl]
      · simp only [List.length_take, Nat.min_eq_left hl]; omega
      · intro h; simp only [List.length_take, Nat.min_eq_left hl]; exact (herrshape _ rfl).1 h
      · intro h; have := (herrshape _ rfl).2 h; simp only [List.length_take, Nat.min_eq_left hl]; exact this
      · rw [h2un]; exact hbs1
    · simp only [hdirect, if_false]
      generalize hs3 : (if (decide (block1k < i') && decide (i' ≤ mallocMax)) = true then
          ({ s2 with caches := s2.caches ++ [s2.nextId], nextId := s2.nextId + 1 } : Reader) else s2) = s3
      have h3un : s3.unread = s2.unread := by subst hs3; split <;> rfl
      have h3len : s3.len = s2.len := by subst hs3; split <;> rfl
      have h3cur : s3.cur = s2.cur := by subst hs3; split <;> rfl
      have hI3 : Inv s3 := by subst hs3; split <;> exact hI2
      have hlen3 : i' ≤ (s3.cur.flatMap Node.unread).length := by
        have := hI3.1; rw [Reader.unread] at this; omega
      rw [peekWalk_spec _ _ hlen3]
      have hmin : min i' (s3.cur.flatMap Node.unread).length = i' := Nat.min_eq_left hlen3
      refine ⟨_, _, s3, w1, rfl, hI3, ?_, ?_, ?_, ?_, ?_, ?_⟩
      · rw [← hst2]; simp [stream, h3un]
      · simp only [List.length_take, hmin]; rfl
      · simp only [List.length_take, hmin]; omega
      · intro h; simp only [List.length_take, hmin]; exact (herrshape _ rfl).1 h
      · intro h; simp only [List.length_take, hmin]; exact (herrshape _ rfl).2 h
      · rw [h3un, h2un]; exact hbs1


theorem skip_spec (s : Reader) (n : Nat) (hI : Inv s) :
    ∃ e s', skip s n = .ok (e, s') ∧ Inv s' ∧
      (n ≤ s.len → e = none ∧ s'.unread = s.unread.drop n ∧ s'.len = s.len - n) ∧
      (s.len < n → e = some errSkip ∧ s' = s) := by
  unfold skip
  by_cases h : s.len < n
  · rw [if_pos h]
    exact ⟨_, _, rfl, hI, fun hle => absurd h (by omega), fun _ => ⟨rfl, rfl⟩⟩
  · rw [if_neg h]
    have hn : n ≤ ((s.mid ++ [s.w]).flatMap Node.unread).length := by
      have := hI.1; simp only [Reader.unread, Reader.cur] at this; omega
    obtain ⟨d', m', w', h1, h2⟩ := skipWalk_spec s.done s.mid s.w n hn
    have hb := skipWalk_blocks _ _ _ _ _ _ _ h1
    simp only [h1, bind, Except.bind, pure, Except.pure]
    refine ⟨none, _, rfl, ⟨?_, hb.2.1 hI.2⟩, fun _ => ⟨rfl, ?_, rfl⟩, fun hlt => absurd hlt h⟩
    · simp only [Reader.unread, Reader.cur, h2, List.length_drop]
      have := hI.1; simp only [Reader.unread, Reader.cur] at this; omega
    · simp only [Reader.unread, Reader.cur, h2]

theorem release_spec (s : Reader) (hI : Inv s) :
    Inv (release s) ∧ (release s).unread = s.unread ∧ (release s).len = s.len := by
  have hgen : Inv (releaseGeneral s) ∧ (releaseGeneral s).unread = s.unread ∧ (releaseGeneral s).len = s.len := by
    refine ⟨⟨?_, hI.2⟩, ?_, rfl⟩
    · have := hI.1; simpa [releaseGeneral, unread_def, Node.unread] using this
    · simp [releaseGeneral, unread_def, Node.unread]
  have htwo : ∀ h, s.len = 0 → s.mid.flatMap Node.unread = [] →
      Inv (releaseTwo s h) ∧ (releaseTwo s h).unread = s.unread ∧ (releaseTwo s h).len = s.len := by
    intro h h0 hm
    have hu : s.unread = [] := by
      have := hI.1; rw [h0] at this; exact List.eq_nil_of_length_eq_zero this.symm
    unfold releaseTwo
    split
    · refine ⟨⟨?_, by simp [newNode]⟩, ?_, rfl⟩
      · simp [unread_def, newNode, Node.unread, h0]
      · rw [hu]; simp [unread_def, newNode, Node.unread]
    · refine ⟨⟨?_, by simp [Node.reset]⟩, ?_, rfl⟩
      · simp [unread_def, Node.reset, Node.unread, h0]
      · rw [hu]; simp [unread_def, Node.reset, Node.unread]
  unfold release
  by_cases h0 : s.len = 0
  · rw [if_pos h0]
    have hu : s.unread = [] := by
      have := hI.1; rw [h0] at this; exact List.eq_nil_of_length_eq_zero this.symm
    split
    · rename_i hd hm
      refine ⟨⟨?_, by simp [Node.reset]⟩, ?_, rfl⟩
      · simp [unread_def, hm, Node.reset, Node.unread, h0]
      · rw [hu]; simp [unread_def, hm, Node.reset, Node.unread]
    · rename_i hd hm; exact htwo _ h0 (by simp [hm])
    · rename_i h hd hm
      refine htwo _ h0 ?_
      rw [unread_def] at hu
      exact (List.append_eq_nil_iff.mp hu).1
    · exact hgen
  · rw [if_neg h0]; exact hgen

theorem next_spec (s : Reader) (l : Nat) (hI : Inv s) (hl : l ≤ s.len) :
    ∃ s', next s l = .ok (s.unread.take l, none, s') ∧ Inv s' ∧ s'.unread = s.unread.drop l ∧ s'.len = s.len - l := by
  unfold next
  have hn : l ≤ (s.cur.flatMap Node.unread).length := by
    have := hI.1; simp only [Reader.unread] at this; omega
  obtain ⟨e, s1, hs, hI1, hok, _⟩ := skip_spec s l hI
  obtain ⟨rfl, hun, hlen⟩ := hok hl
  rw [peekWalk_spec _ _ hn]
  simp only [hs, bind, Except.bind, pure, Except.pure]
  have hr := release_spec s1 hI1
  exact ⟨_, rfl, hr.1, by rw [hr.2.1, hun], by rw [hr.2.2, hlen]⟩


open Hertz.Spec.Fifo

theorem connRead_le (w : Wire) (room : Nat) : (connRead w room).1.1.length ≤ room := by
  unfold connRead
  split
  · simp
  · split
    · assumption
    · simp only [List.length_take]; omega

/-- what one step does, in terms of the byte queue `stream` -/
structure StepOK (s : Reader) (w : Wire) (op : Op) (o : Out) (s' : Reader) (w' : Wire) : Prop where
  inv : Inv s'
  len : o.len = s'.unread.length
  pre : o.bytes = (stream s w).take o.bytes.length
  cons : consumed op (Obs.ofOut id o) ≤ (stream s w).length
  rest : stream s' w' = (stream s w).drop (consumed op (Obs.ofOut id o))
  shape : shapeOK op (Obs.ofOut id o) = true

theorem take_stream {p u : Bytes} (v : Bytes) (h : p = u.take p.length) (hle : p.length ≤ u.length) :
    p = (u ++ v).take p.length := by
  rw [List.take_append_of_le_length hle]; exact h

theorem step_peek (s : Reader) (w : Wire) (n : Nat) (hI : Inv s) :
    ∃ o s' w', step s w (.peek n) = .ok (o, s', w') ∧ StepOK s w (.peek n) o s' w' := by
  obtain ⟨p, e, s', w', hp, hI', hst, hpre, hle, hnone, hsome, _⟩ := peek_spec s w n hI
  refine ⟨{ bytes := p, err := e, len := s'.len }, s', w', by simp only [step, hp, bind, Except.bind, pure, Except.pure], ?_⟩
  refine ⟨hI', hI'.1, ?_, by simp [consumed], by simp [consumed, hst], ?_⟩
  · show p = _
    rw [← hst]; exact take_stream _ hpre (by rw [← hI'.1]; exact hle)
  · cases e with
    | none => have := hnone rfl; simp [shapeOK, Obs.ofOut, this]
    | some e => have := hsome rfl; simp [shapeOK, Obs.ofOut]; exact decide_eq_true (Nat.le_of_lt this)

theorem step_skip (s : Reader) (w : Wire) (n : Nat) (hI : Inv s) :
    ∃ o s' w', step s w (.skip n) = .ok (o, s', w') ∧ StepOK s w (.skip n) o s' w' := by
  obtain ⟨e, s', hs, hI', hok, hfail⟩ := skip_spec s n hI
  refine ⟨{ err := e, len := s'.len }, s', w, by simp only [step, hs, bind, Except.bind, pure, Except.pure], ?_⟩
  by_cases h : n ≤ s.len
  · obtain ⟨rfl, hun, _⟩ := hok h
    have hn : n ≤ s.unread.length := by rw [← hI.1]; exact h
    refine ⟨hI', hI'.1, by simp, ?_, ?_, by simp [shapeOK, Obs.ofOut]⟩
    · simp [consumed, Obs.ofOut, stream]; omega
    · simp [consumed, Obs.ofOut, stream, hun, List.drop_append_of_le_length hn]
  · obtain ⟨rfl, rfl⟩ := hfail (by omega)
    exact ⟨hI', hI'.1, by simp, by simp [consumed, Obs.ofOut], by simp [consumed, Obs.ofOut], by simp [shapeOK, Obs.ofOut]⟩


theorem stream_drop_unread (s' : Reader) (w' : Wire) (u : Bytes) (k : Nat) (v : Bytes)
    (hun : s'.unread = u.drop k) (hk : k ≤ u.length) (hw : wireBytes w' = v) :
    stream s' w' = (u ++ v).drop k := by
  simp [stream, hun, hw, List.drop_append_of_le_length hk]

theorem step_readByte (s : Reader) (w : Wire) (hI : Inv s) :
    ∃ o s' w', step s w .readByte = .ok (o, s', w') ∧ StepOK s w .readByte o s' w' := by
  obtain ⟨p, e, s1, w1, hp, hI1, hst, hpre, hle, hnone, hsome, _⟩ := peek_spec s w 1 hI
  cases e with
  | some e =>
    refine ⟨{ err := some e, len := s1.len }, s1, w1, by simp only [step, hp, bind, Except.bind, pure, Except.pure], ?_⟩
    exact ⟨hI1, hI1.1, by simp, by simp [consumed, Obs.ofOut], by simp [consumed, Obs.ofOut, hst], by simp [shapeOK, Obs.ofOut]⟩
  | none =>
    have hp1 := hnone rfl
    obtain ⟨e2, s2, hs, hI2, hok, _⟩ := skip_spec s1 1 hI1
    obtain ⟨rfl, hun, _⟩ := hok (by omega)
    match p, hp1 with
    | [b], _ =>
      refine ⟨{ bytes := [b], len := s2.len }, s2, w1, by simp only [step, hp, hs, bind, Except.bind, pure, Except.pure], ?_⟩
      have h1 : 1 ≤ s1.unread.length := by rw [← hI1.1]; exact hle
      refine ⟨hI2, hI2.1, ?_, ?_, ?_, by simp [shapeOK, Obs.ofOut]⟩
      · show [b] = _
        rw [← hst]; exact take_stream _ hpre h1
      · simp only [consumed, Obs.ofOut, Option.isNone_none, if_true]; rw [← hst]; simp [stream]; omega
      · simp only [consumed, Obs.ofOut, Option.isNone_none, if_true]; rw [← hst]
        exact stream_drop_unread s2 w1 _ 1 _ hun h1 rfl

theorem step_readBinary (s : Reader) (w : Wire) (n : Nat) (hI : Inv s) :
    ∃ o s' w', step s w (.readBinary n) = .ok (o, s', w') ∧ StepOK s w (.readBinary n) o s' w' := by
  obtain ⟨p, e, s1, w1, hp, hI1, hst, hpre, hle, hnone, hsome, _⟩ := peek_spec s w n hI
  cases e with
  | some e =>
    refine ⟨{ err := some e, len := s1.len }, s1, w1, by simp only [step, hp, bind, Except.bind, pure, Except.pure], ?_⟩
    exact ⟨hI1, hI1.1, by simp, by simp [consumed, Obs.ofOut], by simp [consumed, Obs.ofOut, hst], by simp [shapeOK, Obs.ofOut]⟩
  | none =>
    have hp1 := hnone rfl
    obtain ⟨e2, s2, hs, hI2, hok, _⟩ := skip_spec s1 n hI1
    obtain ⟨rfl, hun, _⟩ := hok (by omega)
    have hn : n ≤ s1.unread.length := by rw [← hI1.1]; omega
    refine ⟨{ bytes := p ++ List.replicate (n - p.length) 0, err := none, len := s2.len }, s2, w1,
      by simp only [step, hp, hs, bind, Except.bind, pure, Except.pure], ?_⟩
    have hb : p ++ List.replicate (n - p.length) 0 = p := by simp [hp1]
    refine ⟨hI2, hI2.1, ?_, ?_, ?_, ?_⟩
    · show p ++ List.replicate (n - p.length) 0 = _
      rw [hb, ← hst]; exact take_stream _ hpre (by omega)
    · simp only [consumed, Obs.ofOut, Option.isNone_none, if_true]; rw [← hst]; simp [stream]; omega
    · simp only [consumed, Obs.ofOut, Option.isNone_none, if_true]; rw [← hst]
      exact stream_drop_unread s2 w1 _ n _ hun hn rfl
    · simp only [shapeOK, Obs.ofOut, Option.isNone_none, if_true, hb]; exact decide_eq_true hp1

theorem step_release (s : Reader) (w : Wire) (hI : Inv s) :
    ∃ o s' w', step s w .release = .ok (o, s', w') ∧ StepOK s w .release o s' w' := by
  have hr := release_spec s hI
  refine ⟨{ len := (release s).len }, release s, w, rfl, ?_⟩
  exact ⟨hr.1, hr.1.1, by simp, by simp [consumed], by simp [consumed, stream, hr.2.1], by simp [shapeOK, Obs.ofOut]⟩

theorem step_len (s : Reader) (w : Wire) (hI : Inv s) :
    ∃ o s' w', step s w .len = .ok (o, s', w') ∧ StepOK s w .len o s' w' :=
  ⟨{ len := s.len }, s, w, rfl, hI, hI.1, by simp, by simp [consumed], by simp [consumed], by simp [shapeOK, Obs.ofOut]⟩


theorem next_step (s : Reader) (w0 w : Wire) (s0 : Reader) (k l : Nat) (hI : Inv s) (hl : l ≤ s.len) (hlk : l ≤ k)
    (hst : stream s w = stream s0 w0) :
    ∃ s', next s l = .ok (s.unread.take l, none, s') ∧
      StepOK s0 w0 (.read k) { bytes := s.unread.take l, err := none, len := s'.len } s' w := by
  obtain ⟨s', hn, hI', hun, _⟩ := next_spec s l hI hl
  have hlu : l ≤ s.unread.length := by rw [← hI.1]; exact hl
  have hlen : (s.unread.take l).length = l := by simp [hlu]
  refine ⟨s', hn, hI', hI'.1, ?_, ?_, ?_, ?_⟩
  · show s.unread.take l = _
    rw [hlen, ← hst, stream, List.take_append_of_le_length hlu]
  · simp only [consumed, Obs.ofOut, hlen]; rw [← hst]; simp [stream]; omega
  · simp only [consumed, Obs.ofOut, hlen]; rw [← hst]
    exact stream_drop_unread s' w _ l _ hun hlu rfl
  · simp only [shapeOK, Obs.ofOut, hlen]; exact decide_eq_true hlk

theorem step_read (s : Reader) (w : Wire) (k : Nat) (hI : Inv s) :
    ∃ o s' w', step s w (.read k) = .ok (o, s', w') ∧ StepOK s w (.read k) o s' w' := by
  by_cases h0 : s.len > 0
  · obtain ⟨s', hn, hok⟩ := next_step s w w s k (min s.len k) hI (Nat.min_le_left _ _) (Nat.min_le_right _ _) rfl
    exact ⟨_, s', w, by simp only [step, h0, if_true, hn, bind, Except.bind, pure, Except.pure], hok⟩
  · by_cases hk : k ≤ block4k
    · obtain ⟨e, s1, w1, hf, hI1, hst, _, _, _⟩ := fill_spec s w 1 hI
      cases e with
      | some e =>
        refine ⟨{ err := some e, len := s1.len }, s1, w1,
          by simp only [step, h0, hk, if_true, if_false, hf, bind, Except.bind, pure, Except.pure], ?_⟩
        exact ⟨hI1, hI1.1, by simp, by simp [consumed, Obs.ofOut], by simp [consumed, Obs.ofOut, hst], by simp [shapeOK, Obs.ofOut]⟩
      | none =>
        obtain ⟨s', hn, hok⟩ := next_step s1 w w1 s k (min s1.len k) hI1 (Nat.min_le_left _ _) (Nat.min_le_right _ _) hst
        exact ⟨_, s', w1, by simp only [step, h0, hk, if_true, if_false, hf, hn, bind, Except.bind, pure, Except.pure], hok⟩
    · have hu : s.unread = [] := by
        have := hI.1; rw [show s.len = 0 by omega] at this; exact List.eq_nil_of_length_eq_zero this.symm
      have hb := connRead_bytes w k
      have hle := connRead_le w k
      refine ⟨{ bytes := (connRead w k).1.1, err := (connRead w k).1.2, len := s.len }, s, (connRead w k).2,
        by simp only [step, h0, hk, if_false, pure, Except.pure], ?_⟩
      refine ⟨hI, hI.1, ?_, ?_, ?_, ?_⟩
      · show (connRead w k).1.1 = _
        simp only [stream, hu, List.nil_append]; rw [← hb]; simp
      · simp only [consumed, Obs.ofOut, stream, hu, List.nil_append]; rw [← hb]; simp
      · simp only [consumed, Obs.ofOut, stream, hu, List.nil_append]
        conv => rhs; rw [← hb]
        simp
      · simp only [shapeOK, Obs.ofOut]; exact decide_eq_true hle

/-- every operation: no panic, no spin, bookkeeping stays consistent, the queue discipline holds -/
theorem step_spec (s : Reader) (w : Wire) (op : Op) (hI : Inv s) :
    ∃ o s' w', step s w op = .ok (o, s', w') ∧ StepOK s w op o s' w' := by
  cases op with
  | peek n => exact step_peek s w n hI
  | skip n => exact step_skip s w n hI
  | readByte => exact step_readByte s w hI
  | readBinary n => exact step_readBinary s w n hI
  | read k => exact step_read s w k hI
  | release => exact step_release s w hI
  | len => exact step_len s w hI


theorem stepBytes_of_StepOK {s : Reader} {w : Wire} {op : Op} {o : Out} {s' : Reader} {w' : Wire}
    (h : StepOK s w op o s' w') :
    stepBytes id (stream s w) op (Obs.ofOut id o) = some (stream s' w') := by
  have h1 : ((stream s w).take (Obs.ofOut id o).n).length = (Obs.ofOut id o).n := by
    show ((stream s w).take o.bytes.length).length = o.bytes.length
    rw [← h.pre]
  have h2 : (Obs.ofOut id o).dg = id ((stream s w).take (Obs.ofOut id o).n) := h.pre
  have h3 : ((stream s w).take (consumed op (Obs.ofOut id o))).length = consumed op (Obs.ofOut id o) := by
    rw [List.length_take]; exact Nat.min_eq_left h.cons
  unfold stepBytes
  simp only [h.shape, h1, h2, h3, decide_true, Bool.and_self, if_true, h.rest]

/-- total number of bytes a trace consumed -/
def totalConsumed : List Op → List Out → Nat
  | op :: ops, o :: os => consumed op (Obs.ofOut id o) + totalConsumed ops os
  | _, _ => 0

theorem run_spec (s : Reader) (w : Wire) (ops : List Op) (hI : Inv s) :
    ∃ outs s' w', run s w ops = .ok (outs, s', w') ∧ Inv s' ∧ outs.length = ops.length ∧
      acceptsBytes id (stream s w) (ops.zip (outs.map (Obs.ofOut id))) = true ∧
      stream s' w' = (stream s w).drop (totalConsumed ops outs) ∧
      totalConsumed ops outs ≤ (stream s w).length ∧
      (∀ o ∈ outs.getLast?, o.len = s'.unread.length) := by
  induction ops generalizing s w with
  | nil => exact ⟨[], s, w, rfl, hI, rfl, rfl, by simp [totalConsumed], by simp [totalConsumed], by simp⟩
  | cons op ops ih =>
    obtain ⟨o, s1, w1, hs, hok⟩ := step_spec s w op hI
    obtain ⟨os, s2, w2, hr, hI2, hlen, hacc, hrest, hle, hlast⟩ := ih s1 w1 hok.inv
    refine ⟨o :: os, s2, w2, by simp only [run, hs, hr, bind, Except.bind, pure, Except.pure], hI2, by simp [hlen], ?_, ?_, ?_, ?_⟩
    · simp only [List.map_cons, List.zip_cons_cons, acceptsBytes, stepBytes_of_StepOK hok, hacc]
    · simp only [totalConsumed]; rw [hrest, hok.rest, List.drop_drop]
    · simp only [totalConsumed]
      have := hok.cons
      rw [hok.rest, List.length_drop] at hle; omega
    · intro o' ho'
      cases os with
      | nil =>
        simp at ho'; subst ho'
        cases ops with
        | nil => simp only [run, pure, Except.pure, Except.ok.injEq, Prod.mk.injEq] at hr; rw [← hr.2.1]; exact hok.len
        | cons _ _ => simp at hlen
      | cons o2 os2 => exact hlast o' (by simpa using ho')

theorem Inv_new (size : Nat) : Inv (Reader.new size) := by
  simp [Inv, Reader.new, Reader.unread, Reader.cur, newNode, Node.unread]

theorem stream_new (size : Nat) (w : Wire) : stream (Reader.new size) w = wireBytes w := by
  simp [stream, Reader.new, Reader.unread, Reader.cur, newNode, Node.unread]


/-! ## writer -/

/-- `outputBuffer.len` never promises more room than the write node has -/
def WInv (s : Writer) : Prop := s.len ≤ s.w.cap - s.w.data.length ∧ s.w.off ≤ s.w.data.length

theorem pending_def (s : Writer) : s.pending = s.pre.flatMap Node.unread ++ s.w.unread := by
  simp [Writer.pending]

theorem wmalloc_spec (s : Writer) (bs : Bytes) (hI : WInv s) :
    ∃ s', wmalloc s bs = .ok s' ∧ WInv s' ∧ s'.pending = s.pending ++ bs := by
  unfold wmalloc
  by_cases h0 : bs.length = 0
  · have : bs = [] := List.eq_nil_of_length_eq_zero h0
    subst this
    exact ⟨s, by simp [pure, Except.pure], hI, by simp⟩
  · simp only [h0, if_false]
    by_cases h1 : s.len > bs.length
    · simp only [h1, if_true]
      have h2 : ¬ (s.w.data.length + bs.length > s.w.cap) := by have := hI.1; omega
      simp only [h2, if_false]
      refine ⟨_, rfl, ⟨?_, ?_⟩, ?_⟩
      · simp only [List.length_append]; have := hI.1; omega
      · simp only [List.length_append]; have := hI.2; omega
      · simp only [pending_def, Node.unread_append _ _ hI.2, List.append_assoc]
    · simp only [h1, if_false]
      refine ⟨_, rfl, ⟨?_, ?_⟩, ?_⟩
      · simp only [newNode]; have := capOf_ge (if bs.length < defaultMallocSize then defaultMallocSize else bs.length)
        split at this <;> split <;> simp_all <;> omega
      · simp [newNode]
      · simp [pending_def, newNode, Node.unread]

theorem wwriteBinary_spec (s : Writer) (bs : Bytes) (hI : WInv s) :
    ∃ s', wwriteBinary s bs = .ok (bs.length, s') ∧ WInv s' ∧ s'.pending = s.pending ++ bs := by
  unfold wwriteBinary
  split
  · obtain ⟨s', h, hI', hp⟩ := wmalloc_spec s bs hI
    exact ⟨s', by simp only [h, bind, Except.bind, pure, Except.pure], hI', hp⟩
  · exact ⟨_, rfl, ⟨by simp, by simp⟩, by simp [pending_def, Node.unread]⟩

theorem flushLoop_spec (pre : List Node) (w : Node) (len : Nat) (sc : WScript)
    (hw : len ≤ w.cap - w.data.length ∧ w.off ≤ w.data.length) :
    (flushLoop pre w len sc).2.1 ++ ((flushLoop pre w len sc).2.2.1 ++ [(flushLoop pre w len sc).2.2.2.1]).flatMap Node.unread
        = (pre ++ [w]).flatMap Node.unread ∧
    ((flushLoop pre w len sc).1 = false →
        ((flushLoop pre w len sc).2.2.1 ++ [(flushLoop pre w len sc).2.2.2.1]).flatMap Node.unread = []) ∧
    ((flushLoop pre w len sc).2.2.2.2.1 ≤ (flushLoop pre w len sc).2.2.2.1.cap - (flushLoop pre w len sc).2.2.2.1.data.length ∧
      (flushLoop pre w len sc).2.2.2.1.off ≤ (flushLoop pre w len sc).2.2.2.1.data.length) := by
  fun_induction flushLoop pre w len sc
  · simp_all
  · rename_i w len sc f sc' hsc hf w1 hrec
    simp [Node.reset, Node.unread]
  · rename_i w len sc f sc' hsc hf w1 hrec
    refine ⟨?_, ?_, ?_⟩
    · simp [w1, Node.unread]; omega
    · intro _; simp [w1, Node.unread]; omega
    · simp [w1, Node.unread]; omega
  · simp_all
  · rename_i h pre w len sc f sc' hsc hf ih
    have := ih hw
    simp only [prependSent, List.cons_append, List.flatMap_cons, List.append_assoc]
    exact ⟨by rw [this.1], this.2.1, this.2.2⟩


/-- `Flush`: what went to the peer plus what is still pending is what was pending; a successful
flush leaves nothing pending -/
theorem wflush_spec (s : Writer) (sc : WScript) (hI : WInv s) :
    (wflush s sc).2.1 ++ (wflush s sc).2.2.1.pending = s.pending ∧
    ((wflush s sc).1 = false → (wflush s sc).2.1 = s.pending ∧ (wflush s sc).2.2.1.pending = []) ∧
    WInv (wflush s sc).2.2.1 := by
  have key : ∀ pre', pre'.flatMap Node.unread = s.pre.flatMap Node.unread →
      let r := flushLoop pre' s.w s.len sc
      let s' : Writer := { s with pre := r.2.2.1, w := r.2.2.2.1, len := r.2.2.2.2.1 }
      r.2.1 ++ s'.pending = s.pending ∧ (r.1 = false → r.2.1 = s.pending ∧ s'.pending = []) ∧ WInv s' := by
    intro pre' hpre
    have h := flushLoop_spec pre' s.w s.len sc hI
    simp only [Writer.pending]
    have e : (s.pre ++ [s.w]).flatMap Node.unread = (pre' ++ [s.w]).flatMap Node.unread := by
      simp [hpre]
    refine ⟨by rw [h.1, e], ?_, h.2.2⟩
    intro hf
    have h2 := h.2.1 hf
    have h1 := h.1
    rw [h2, List.append_nil] at h1
    exact ⟨by rw [h1, e], h2⟩
  unfold wflush
  split
  · rename_i hp
    split
    · rename_i hl
      have : s.pending = [] := by
        rw [pending_def, hp]; simp only [List.flatMap_nil, List.nil_append]
        rw [Node.len_eq] at hl; exact List.eq_nil_of_length_eq_zero hl
      simp [this, hI]
    · have := key [] (by simp [hp])
      simpa using this
  · rename_i h pre hp
    have hpre : (if h.len = 0 then pre else h :: pre).flatMap Node.unread = s.pre.flatMap Node.unread := by
      rw [hp]
      split
      · rename_i hl
        rw [Node.len_eq] at hl
        simp [List.eq_nil_of_length_eq_zero hl]
      · rfl
    have := key _ hpre
    simpa using this

/-- what the check observes of a writer operation -/
def WOut.toObs : WOp → WOut → WObs Bytes
  | .flush, o => { failed := o.failed, n := o.sent.length, dg := o.sent }
  | _, o => { failed := false, n := o.n, dg := [] }

theorem wstepSpec_flush_fail (keep : Bool) (sent rest : Bytes) :
    wstepSpec id keep (sent ++ rest) .flush { failed := true, n := sent.length, dg := sent } =
      some (if keep then rest else []) := by
  simp [wstepSpec]

theorem wstepSpec_flush_ok (keep : Bool) (p : Bytes) :
    wstepSpec id keep p .flush { failed := false, n := p.length, dg := p } = some [] := by
  simp [wstepSpec]

theorem wstep_spec (s : Writer) (sc : WScript) (op : WOp) (hI : WInv s) :
    ∃ o s' sc', wstep s sc op = .ok (o, s', sc') ∧ WInv s' ∧
      wstepSpec id true s.pending op (o.toObs op) = some s'.pending := by
  cases op with
  | malloc bs =>
    obtain ⟨s', h, hI', hp⟩ := wmalloc_spec s bs hI
    exact ⟨{ n := bs.length }, s', sc, by simp only [wstep, h, bind, Except.bind, pure, Except.pure], hI', by simp [wstepSpec, WOut.toObs, hp]⟩
  | writeBinary bs =>
    obtain ⟨s', h, hI', hp⟩ := wwriteBinary_spec s bs hI
    exact ⟨{ n := bs.length }, s', sc, by simp only [wstep, h, bind, Except.bind, pure, Except.pure], hI', by simp [wstepSpec, WOut.toObs, hp]⟩
  | flush =>
    have h := wflush_spec s sc hI
    refine ⟨_, _, _, rfl, h.2.2, ?_⟩
    simp only [wstepSpec, WOut.toObs]
    cases hf : (wflush s sc).1 with
    | false =>
      obtain ⟨h1, h2⟩ := h.2.1 hf
      simp [h1, h2]
    | true =>
      have h1 := h.1
      generalize (wflush s sc).2.1 = sent at h1
      generalize (wflush s sc).2.2.1.pending = p' at h1
      rw [← h1]
      simp

theorem wrun_spec (s : Writer) (sc : WScript) (ops : List WOp) (hI : WInv s) :
    ∃ outs s' sc', wrun s sc ops = .ok (outs, s', sc') ∧ WInv s' ∧ outs.length = ops.length ∧
      acceptsW id true s.pending (ops.zip (List.zipWith WOut.toObs ops outs)) = true := by
  induction ops generalizing s sc with
  | nil => exact ⟨[], s, sc, rfl, hI, rfl, rfl⟩
  | cons op ops ih =>
    obtain ⟨o, s1, sc1, hs, hI1, hacc⟩ := wstep_spec s sc op hI
    obtain ⟨os, s2, sc2, hr, hI2, hlen, hacc2⟩ := ih s1 sc1 hI1
    refine ⟨o :: os, s2, sc2, by simp only [wrun, hs, hr, bind, Except.bind, pure, Except.pure], hI2, by simp [hlen], ?_⟩
    simp only [List.zipWith_cons_cons, List.zip_cons_cons, acceptsW, hacc, hacc2]

theorem WInv_new : WInv Writer.new := by simp [WInv, Writer.new, newNode]
theorem pending_new : Writer.new.pending = [] := by simp [Writer.pending, Writer.new, newNode, Node.unread]

/-! ## `networkWriter` -/

def NetWriter.pending (s : NetWriter) : Bytes := s.caches.flatMap (·.data)

theorem nwAppendLast_spec (l : List NwNode) (bs : Bytes) (c : List NwNode) (h : nwAppendLast l bs = some c) :
    c.flatMap (·.data) = l.flatMap (·.data) ++ bs := by
  fun_induction nwAppendLast l bs generalizing c
  · simp at h
  · simp at h; subst h; simp
  · simp at h
  · rename_i n m t bs ih
    simp only [Option.map_eq_some_iff] at h
    obtain ⟨c', hc', rfl⟩ := h
    simp [ih c' hc']

theorem nwMalloc_spec (s : NetWriter) (bs : Bytes) : (nwMalloc s bs).pending = s.pending ++ bs := by
  unfold nwMalloc
  split
  · rename_i c hc; exact nwAppendLast_spec _ _ _ hc
  · simp [NetWriter.pending]

theorem nwWriteBinary_spec (s : NetWriter) (bs : Bytes) : (nwWriteBinary s bs).pending = s.pending ++ bs := by
  unfold nwWriteBinary
  split
  · exact nwMalloc_spec s bs
  · simp [NetWriter.pending]

theorem nwFlushLoop_spec (l : List NwNode) (sc : WScript) :
    (∃ rest, (nwFlushLoop l sc).2.1 ++ rest = l.flatMap (·.data)) ∧
    ((nwFlushLoop l sc).1 = false → (nwFlushLoop l sc).2.1 = l.flatMap (·.data)) := by
  fun_induction nwFlushLoop l sc
  · simp
  · simp
  · rename_i n t sc f sc' hsc hf ih
    obtain ⟨⟨rest, hr⟩, h2⟩ := ih
    simp only [prependSent, List.flatMap_cons]
    exact ⟨⟨rest, by rw [List.append_assoc, hr]⟩, fun h => by rw [h2 h]⟩

theorem nwStep_spec (s : NetWriter) (sc : WScript) (op : WOp) :
    wstepSpec id false s.pending op ((nwStep s sc op).1.toObs op) = some (nwStep s sc op).2.1.pending := by
  cases op with
  | malloc bs => simp [nwStep, wstepSpec, WOut.toObs, nwMalloc_spec]
  | writeBinary bs => simp [nwStep, wstepSpec, WOut.toObs, nwWriteBinary_spec]
  | flush =>
    obtain ⟨⟨rest, hr⟩, h2⟩ := nwFlushLoop_spec s.caches sc
    show wstepSpec id false s.pending .flush
      { failed := (nwFlushLoop s.caches sc).1, n := (nwFlushLoop s.caches sc).2.1.length, dg := (nwFlushLoop s.caches sc).2.1 } = some []
    cases hf : (nwFlushLoop s.caches sc).1 with
    | true =>
      have e : s.pending = (nwFlushLoop s.caches sc).2.1 ++ rest := hr.symm
      rw [e]; exact wstepSpec_flush_fail false _ rest
    | false =>
      have e : (nwFlushLoop s.caches sc).2.1 = s.pending := h2 hf
      rw [e]; exact wstepSpec_flush_ok false _

theorem nwRun_spec (s : NetWriter) (sc : WScript) (ops : List WOp) :
    acceptsW id false s.pending (ops.zip (List.zipWith WOut.toObs ops (nwRun s sc ops).1)) = true := by
  induction ops generalizing s sc with
  | nil => rfl
  | cons op ops ih =>
    simp only [nwRun, List.zipWith_cons_cons, List.zip_cons_cons, acceptsW, nwStep_spec, ih]


/-! ## peek stability -/

/-- every block of `a` is still there in `b`, with its contents only extended at the end -/
def Extends (a b : List Node) : Prop := ∀ nd ∈ a, ∃ nd' ∈ b, nd'.id = nd.id ∧ nd.data <+: nd'.data

theorem Extends.refl (a : List Node) : Extends a a := fun nd h => ⟨nd, h, rfl, List.prefix_refl _⟩

theorem Extends.trans {a b c : List Node} (h1 : Extends a b) (h2 : Extends b c) : Extends a c := by
  intro nd h
  obtain ⟨nd1, hm1, hid1, hp1⟩ := h1 nd h
  obtain ⟨nd2, hm2, hid2, hp2⟩ := h2 nd1 hm1
  exact ⟨nd2, hm2, by rw [hid2, hid1], List.IsPrefix.trans hp1 hp2⟩

theorem Extends_of_blk {a b : List Node} (h : b.map Node.blk = a.map Node.blk) : Extends a b := by
  intro nd hnd
  have : nd.blk ∈ b.map Node.blk := by rw [h]; exact List.mem_map_of_mem hnd
  obtain ⟨nd', hm, hb⟩ := List.mem_map.mp this
  simp only [Node.blk, Prod.mk.injEq] at hb
  exact ⟨nd', hm, hb.1, by rw [hb.2]; exact List.prefix_refl _⟩

theorem fill_blocks (s : Reader) (w : Wire) (i : Nat) (e : Option Err) (s' : Reader) (w' : Wire)
    (h : fill s w i = .ok (e, s', w')) : Extends s.nodes s'.nodes ∧ s'.caches = s.caches := by
  unfold fill at h
  split at h
  · simp only [pure, Except.pure, Except.ok.injEq, Prod.mk.injEq] at h
    obtain ⟨_, rfl, _⟩ := h; exact ⟨Extends.refl _, rfl⟩
  · split at h
    · split at h <;>
      · simp only [pure, Except.pure, Except.ok.injEq, Prod.mk.injEq] at h
        obtain ⟨_, rfl, _⟩ := h; exact ⟨Extends.refl _, rfl⟩
    · -- the wire is read: the write node (old or new) is extended at its end
      have key : ∀ (s1 : Reader) (bs : Bytes) (e : Option Err), Extends s.nodes s1.nodes → s1.caches = s.caches →
          Extends s.nodes ({ s1 with w := { s1.w with data := s1.w.data ++ bs }, len := s1.len + bs.length, err := e } : Reader).nodes ∧
          ({ s1 with w := { s1.w with data := s1.w.data ++ bs }, len := s1.len + bs.length, err := e } : Reader).caches = s.caches := by
        intro s1 bs e h1 hc
        refine ⟨Extends.trans h1 ?_, hc⟩
        intro nd hnd
        simp only [Reader.nodes, List.mem_append, List.mem_singleton] at hnd ⊢
        rcases hnd with (hnd | hnd) | hnd
        · exact ⟨nd, Or.inl (Or.inl hnd), rfl, List.prefix_refl _⟩
        · exact ⟨nd, Or.inl (Or.inr hnd), rfl, List.prefix_refl _⟩
        · subst hnd; exact ⟨_, Or.inr rfl, rfl, List.prefix_append _ _⟩
      have hs1 : ∀ (c : Bool), Extends s.nodes (if c = true then
          ({ s with mid := s.mid ++ [{ s.w with readOnly := false }],
                    w := newNode (if i < s.maxSize then s.maxSize else i) s.nextId,
                    nextId := s.nextId + 1 } : Reader) else s).nodes ∧
          (if c = true then
          ({ s with mid := s.mid ++ [{ s.w with readOnly := false }],
                    w := newNode (if i < s.maxSize then s.maxSize else i) s.nextId,
                    nextId := s.nextId + 1 } : Reader) else s).caches = s.caches := by
        intro c
        cases c
        · exact ⟨Extends.refl _, rfl⟩
        · refine ⟨?_, rfl⟩
          intro nd hnd
          simp only [Reader.nodes, List.mem_append, List.mem_singleton, if_true] at hnd ⊢
          rcases hnd with (hnd | hnd) | hnd
          · exact ⟨nd, Or.inl (Or.inl hnd), rfl, List.prefix_refl _⟩
          · exact ⟨nd, Or.inl (Or.inr (Or.inl hnd)), rfl, List.prefix_refl _⟩
          · subst hnd; exact ⟨_, Or.inl (Or.inr (Or.inr rfl)), rfl, List.prefix_refl _⟩
      simp only at h
      split at h <;> simp only [pure, Except.pure, throw, throwThe, MonadExceptOf.throw, Except.ok.injEq, Prod.mk.injEq, reduceCtorEq] at h
      all_goals
        obtain ⟨_, rfl, _⟩ := h
        have := hs1 (decide (s.w.cap - s.w.data.length < i - s.len) || s.w.readOnly)
        exact key _ _ _ this.1 this.2


theorem peek_blocks (s : Reader) (w : Wire) (i : Nat) (p : Bytes) (e : Option Err) (s' : Reader) (w' : Wire)
    (h : peek s w i = .ok (p, e, s', w')) : Extends s.nodes s'.nodes ∧ s.caches <+: s'.caches := by
  unfold peek at h
  cases hf : fill s w i with
  | error f => simp [hf, bind, Except.bind] at h
  | ok r =>
    obtain ⟨e1, s1, w1⟩ := r
    have hb := fill_blocks s w i e1 s1 w1 hf
    simp only [hf, bind, Except.bind] at h
    cases e1 with
    | some e1 =>
      simp only [pure, Except.pure, Except.ok.injEq, Prod.mk.injEq] at h
      obtain ⟨_, _, rfl, _⟩ := h
      exact ⟨hb.1, by rw [hb.2]; exact List.prefix_refl _⟩
    | none =>
      simp only at h
      generalize hs2 : (if s1.len < i then ({ s1 with err := none } : Reader) else s1) = s2 at h
      have h2n : s2.nodes = s1.nodes := by subst hs2; split <;> rfl
      have h2c : s2.caches = s1.caches := by subst hs2; split <;> rfl
      generalize (if s1.len < i then s1.len else i) = i' at h
      generalize (if s1.len < i then s1.err else none) = err' at h
      by_cases hd : s2.readNode.len ≥ i'
      · simp only [hd, if_true, pure, Except.pure, Except.ok.injEq, Prod.mk.injEq] at h
        obtain ⟨_, _, rfl, _⟩ := h
        exact ⟨by rw [h2n]; exact hb.1, by rw [h2c, hb.2]; exact List.prefix_refl _⟩
      · simp only [hd, if_false] at h
        generalize hs3 : (if (decide (block1k < i') && decide (i' ≤ mallocMax)) = true then
          ({ s2 with caches := s2.caches ++ [s2.nextId], nextId := s2.nextId + 1 } : Reader) else s2) = s3 at h
        have h3n : s3.nodes = s2.nodes := by subst hs3; split <;> rfl
        have h3c : s2.caches <+: s3.caches := by
          subst hs3; split
          · exact List.prefix_append _ _
          · exact List.prefix_refl _
        cases hp : peekWalk s3.cur i' with
        | error f => simp [hp] at h
        | ok pp =>
          simp only [hp, pure, Except.pure, Except.ok.injEq, Prod.mk.injEq] at h
          obtain ⟨_, _, rfl, _⟩ := h
          exact ⟨by rw [h3n, h2n]; exact hb.1, by rw [← hb.2, ← h2c]; exact h3c⟩

theorem skip_blocks (s : Reader) (n : Nat) (e : Option Err) (s' : Reader)
    (h : skip s n = .ok (e, s')) : Extends s.nodes s'.nodes ∧ s'.caches = s.caches := by
  unfold skip at h
  split at h
  · simp only [pure, Except.pure, Except.ok.injEq, Prod.mk.injEq] at h
    obtain ⟨_, rfl⟩ := h; exact ⟨Extends.refl _, rfl⟩
  · cases hw : skipWalk s.done s.mid s.w n with
    | error f => simp [hw, bind, Except.bind] at h
    | ok r =>
      obtain ⟨d', m', w'⟩ := r
      simp only [hw, bind, Except.bind, pure, Except.pure, Except.ok.injEq, Prod.mk.injEq] at h
      obtain ⟨_, rfl⟩ := h
      exact ⟨Extends_of_blk (skipWalk_blocks _ _ _ _ _ _ _ hw).1, rfl⟩

/-- operations that do not release: `Peek`, `Skip`, `ReadByte`, `ReadBinary`, `Len` -/
def Op.keeps : Op → Bool
  | .release => false
  | .read _ => false
  | _ => true

/-- no operation other than `Release` / `Read` frees, resets or overwrites a memory block: every
node (and every cached peek copy) is still there afterwards, its bytes only extended at the end -/
theorem step_stable (s : Reader) (w : Wire) (op : Op) (o : Out) (s' : Reader) (w' : Wire)
    (hk : op.keeps = true) (h : step s w op = .ok (o, s', w')) :
    Extends s.nodes s'.nodes ∧ s.caches <+: s'.caches := by
  cases op with
  | release => simp [Op.keeps] at hk
  | read k => simp [Op.keeps] at hk
  | len =>
    simp only [step, pure, Except.pure, Except.ok.injEq, Prod.mk.injEq] at h
    obtain ⟨_, rfl, _⟩ := h; exact ⟨Extends.refl _, List.prefix_refl _⟩
  | peek n =>
    simp only [step] at h
    cases hp : peek s w n with
    | error f => simp [hp, bind, Except.bind] at h
    | ok r =>
      obtain ⟨p, e, s1, w1⟩ := r
      simp only [hp, bind, Except.bind, pure, Except.pure, Except.ok.injEq, Prod.mk.injEq] at h
      obtain ⟨_, rfl, _⟩ := h
      exact peek_blocks _ _ _ _ _ _ _ hp
  | skip n =>
    simp only [step] at h
    cases hp : skip s n with
    | error f => simp [hp, bind, Except.bind] at h
    | ok r =>
      obtain ⟨e, s1⟩ := r
      simp only [hp, bind, Except.bind, pure, Except.pure, Except.ok.injEq, Prod.mk.injEq] at h
      obtain ⟨_, rfl, _⟩ := h
      have := skip_blocks _ _ _ _ hp
      exact ⟨this.1, by rw [this.2]; exact List.prefix_refl _⟩
  | readByte =>
    simp only [step] at h
    cases hp : peek s w 1 with
    | error f => simp [hp, bind, Except.bind] at h
    | ok r =>
      obtain ⟨p, e, s1, w1⟩ := r
      have hb := peek_blocks _ _ _ _ _ _ _ hp
      simp only [hp, bind, Except.bind] at h
      cases e with
      | some e =>
        simp only [pure, Except.pure, Except.ok.injEq, Prod.mk.injEq] at h
        obtain ⟨_, rfl, _⟩ := h; exact hb
      | none =>
        simp only at h
        cases hs : skip s1 1 with
        | error f => simp [hs] at h
        | ok r2 =>
          obtain ⟨e2, s2⟩ := r2
          have hb2 := skip_blocks _ _ _ _ hs
          have res : Extends s.nodes s2.nodes ∧ s.caches <+: s2.caches :=
            ⟨Extends.trans hb.1 hb2.1, by rw [hb2.2]; exact hb.2⟩
          simp only [hs] at h
          cases e2 with
          | some e2 =>
            simp only [pure, Except.pure, Except.ok.injEq, Prod.mk.injEq] at h
            obtain ⟨_, rfl, _⟩ := h; exact res
          | none =>
            simp only at h
            cases p with
            | nil => simp [throw, throwThe, MonadExceptOf.throw] at h
            | cons b t =>
              simp only [pure, Except.pure, Except.ok.injEq, Prod.mk.injEq] at h
              obtain ⟨_, rfl, _⟩ := h; exact res
  | readBinary n =>
    simp only [step] at h
    cases hp : peek s w n with
    | error f => simp [hp, bind, Except.bind] at h
    | ok r =>
      obtain ⟨p, e, s1, w1⟩ := r
      have hb := peek_blocks _ _ _ _ _ _ _ hp
      simp only [hp, bind, Except.bind] at h
      cases e with
      | some e =>
        simp only [pure, Except.pure, Except.ok.injEq, Prod.mk.injEq] at h
        obtain ⟨_, rfl, _⟩ := h; exact hb
      | none =>
        simp only at h
        cases hs : skip s1 n with
        | error f => simp [hs] at h
        | ok r2 =>
          obtain ⟨e2, s2⟩ := r2
          have hb2 := skip_blocks _ _ _ _ hs
          simp only [hs, pure, Except.pure, Except.ok.injEq, Prod.mk.injEq] at h
          obtain ⟨_, rfl, _⟩ := h
          exact ⟨Extends.trans hb.1 hb2.1, by rw [hb2.2]; exact hb.2⟩


/-! ## tie to the source: constants and branch conditions the model was written against -/

/-- The size constants of the model are those of the Go source, and every modelled method still has
exactly the branch conditions (in source order) that the model mirrors.  `Hertz.Gen.Conn` is
regenerated from /repo on every run; an edited comparison or constant breaks this proof. -/
def ModelMatchesGen : Prop :=
    block1k = Gen.Conn.block1k ∧ block4k = Gen.Conn.block4k ∧ block8k = Gen.Conn.block8k ∧
    mallocMax = Gen.Conn.mallocMax ∧ defaultMallocSize = Gen.Conn.defaultMallocSize ∧ size4K = Gen.Conn.size4K ∧
    Gen.Conn.condsRead = ["if l > 0",
      "if len(b) <= block4k",
      "if err != nil"] ∧
    Gen.Conn.condsRelease = ["if c.Len() == 0",
      "if c.inputBuffer.head == c.inputBuffer.write",
      "if c.inputBuffer.head.next == c.inputBuffer.write",
      "if size > mallocMax",
      "if size > c.maxSize",
      "for c.inputBuffer.head != c.inputBuffer.read",
      "if size > mallocMax",
      "if size > c.maxSize"] ∧
    Gen.Conn.condsHandleTail = ["if cap(c.inputBuffer.write.buf) > mallocMax"] ∧
    Gen.Conn.condsPeek = ["if err != nil",
      "if c.Len() < i",
      "if l >= i",
      "if block1k < i && i <= mallocMax"] ∧
    Gen.Conn.condsPeekBuffer = ["for ack > 0",
      "if l >= ack",
      "if l > 0"] ∧
    Gen.Conn.condsNext = ["if err != nil"] ∧
    Gen.Conn.condsFill = ["if c.Len() >= i",
      "if err != nil",
      "if c.Len() > 0",
      "if left < i-c.Len() || node.readOnly",
      "if i < c.maxSize",
      "for i > 0",
      "if n > 0",
      "if err != nil",
      "if err != nil"] ∧
    Gen.Conn.condsSkip = ["if c.Len() < n",
      "for ack > 0",
      "if l >= ack"] ∧
    Gen.Conn.condsReadByte = ["if err != nil",
      "if err != nil"] ∧
    Gen.Conn.condsReadBinary = ["if err != nil"] ∧
    Gen.Conn.condsMalloc = ["if n == 0",
      "if c.outputBuffer.len > n",
      "if n < defaultMallocSize"] ∧
    Gen.Conn.condsWriteBinary = ["if len(b) < block4k",
      "if err != nil"] ∧
    Gen.Conn.condsFlush = ["if c.outputBuffer.head == c.outputBuffer.write && c.outputBuffer.head.Len() == 0",
      "if c.outputBuffer.head.Len() == 0",
      "for",
      "if err != nil",
      "if c.outputBuffer.head == c.outputBuffer.write",
      "if c.outputBuffer.head.recyclable()"] ∧
    Gen.Conn.condsRecyclable = ["return cap(b.buf) <= block8k && !b.readOnly"] ∧
    Gen.Conn.condsNodeLen = ["return b.malloc - b.off"] ∧
    Gen.Conn.condsMallocFn = ["if capacity > mallocMax"] ∧
    Gen.Conn.condsNwMalloc = ["if idx > 0",
      "if !w.caches[idx].readOnly && cap(w.caches[idx].data)-inUse >= length"] ∧
    Gen.Conn.condsNwWriteBinary = ["if length < size4K"] ∧
    Gen.Conn.condsNwFlush = ["range w.caches",
      "if err != nil"]

theorem model_matches_gen : ModelMatchesGen := by
  unfold ModelMatchesGen
  decide

end Hertz.Conn
