import Hertz.Model.ShutdownSpin
/-! Lemmas for the X18 extension of property C18 (`Hertz.Spin`, `Hertz.Arrive`). -/
namespace Hertz.Spin

/-- timing invariant of prompt runs of the source as it stands (`Spin` returns right after `Shutdown`) -/
def TInv (W : Nat) (s : State) : Prop :=
  match s.spin with
  | .waiting => s.ranAtShut = false
  | .signalled => s.now = s.sigAt ∧ s.ranAtShut = false
  | .draining => s.now ≤ s.dl ∧ s.dl = s.sigAt + W ∧ s.ranAtShut = true
  | .deferred _ => s.now ≤ s.dl ∧ s.dl = s.sigAt + W ∧ s.ranAtShut = true
  | .after _ => s.now ≤ s.sigAt + W ∧ (s.ranAtShut = false → s.now = s.sigAt)
  | .returned t => t = s.now ∧ s.now ≤ s.sigAt + W ∧ (s.ranAtShut = false → s.now = s.sigAt)
  | .exited t => t ≤ s.sigAt + W ∧ (s.ranAtShut = false → t = s.sigAt)

theorem inv_init : TInv W ({} : State) := by simp [TInv]

theorem step_inv {cfg : Cfg} {s s' : State} {a : Act} (h : TInv cfg.exitWait s)
    (hok : actOk Code.current s a = true) (hs : step Code.current cfg s a = some s') : TInv cfg.exitWait s' := by
  cases hsp : s.spin <;> simp only [TInv, hsp] at h <;>
  cases a <;> simp only [step, alive, hsp, actOk, canAdvance, Code.current, Bool.false_eq_true, if_false] at hs hok <;>
  (try split at hs) <;> (try split at hs) <;> (try split at hs) <;>
  (try (simp only [Option.some.injEq, reduceCtorEq] at hs)) <;>
  (try (subst hs)) <;> (try (simp_all [TInv] <;> omega))

theorem runPrompt_inv {cfg : Cfg} : ∀ (acts : List Act) {s s' : State}, TInv cfg.exitWait s →
    runPrompt Code.current cfg s acts = some s' → TInv cfg.exitWait s'
  | [], s, s', h, hr => by simp [runPrompt] at hr; subst hr; exact h
  | a :: t, s, s', h, hr => by
    simp only [runPrompt] at hr
    split at hr
    · rename_i hok
      split at hr
      · simp at hr
      · rename_i s1 hs
        exact runPrompt_inv t (step_inv h hok hs) hr
    · simp at hr

/-- the time at which `Spin` returned is bounded -/
theorem returned_bounded {cfg : Cfg} {acts : List Act} {s : State}
    (hr : runPrompt Code.current cfg {} acts = some s) :
    (∀ t, s.spin = .returned t → t ≤ s.sigAt + cfg.exitWait) ∧ (∀ t, s.spin = .exited t → t ≤ s.sigAt + cfg.exitWait) := by
  have h := runPrompt_inv acts (inv_init (W := cfg.exitWait)) hr
  constructor <;> intro t ht <;> simp only [TInv, ht] at h <;> omega

/-- between the stop signal and the end of the process the clock stays within the exit wait; when `Shutdown` found
the engine not running, it does not advance at all -/
theorem alive_bounded {cfg : Cfg} {acts : List Act} {s : State}
    (hr : runPrompt Code.current cfg {} acts = some s) (hw : s.spin ≠ .waiting) (ha : alive s = true) :
    s.now ≤ s.sigAt + cfg.exitWait ∧ (s.ranAtShut = false → s.now = s.sigAt) := by
  have h := runPrompt_inv acts (inv_init (W := cfg.exitWait)) hr
  cases hsp : s.spin <;> simp only [TInv, hsp, alive] at h ha hw <;> simp_all <;> omega

theorem accept_alive {code : Code} {cfg : Cfg} {s : State} (h : (step code cfg s .accept).isSome = true) : alive s = true := by
  simp only [step] at h
  split at h
  · rename_i hc; exact hc.1
  · simp at h

/-- no phase of `Spin` after the signal can block for ever when `Spin` does not wait for `Run` -/
theorem never_stuck (cfg : Cfg) (s : State) :
    (s.spin = .signalled → (step Code.current cfg s .shutEnter).isSome) ∧
    (s.spin = .draining → s.dl ≤ s.now → (step Code.current cfg s .drainDeadline).isSome) ∧
    (∀ e, s.spin = .deferred e → s.dl ≤ s.now → (step Code.current cfg s .shutReturn).isSome) ∧
    (∀ e, s.spin = .after e → (step Code.current cfg s .spinPost).isSome) ∧
    (∀ t, s.spin = .returned t → (step Code.current cfg s .procExit).isSome) := by
  refine ⟨?_, ?_, ?_, ?_, ?_⟩
  · intro h; simp only [step, h, if_true]; split <;> (try split) <;> rfl
  · intro h hd; simp [step, h, hd]
  · intro e h hd; simp [step, h, hd]
  · intro e h; simp [step, h, Code.current]
  · intro t h; simp [step, h]

/-- once the process has exited nothing but the clock moves -/
theorem exited_final (code : Code) (cfg : Cfg) (s : State) (t : Nat) (h : s.spin = .exited t) (a : Act) :
    (∃ d, a = .advance d) ∨ step code cfg s a = none := by
  cases a <;> simp [step, alive, h]

end Hertz.Spin

namespace Hertz.Arrive

/-- per-connection invariant of the source as it stands: no read deadline is ever set by the shutdown, so no request
is answered with an error response or cut because of it -/
def Good (cn : Conn) : Prop := cn.deadline = none ∧ cn.errs = 0 ∧ cn.cut = false

theorem updConn_good {s s' : State} {c : Nat} {f : Conn → Option Conn}
    (hf : ∀ cn cn', Good cn → f cn = some cn' → Good cn') (h : ∀ cn ∈ s.conns, Good cn)
    (hs : updConn s c f = some s') : ∀ cn ∈ s'.conns, Good cn := by
  unfold updConn at hs
  split at hs
  · simp at hs
  · rename_i cn hc
    split at hs
    · simp at hs
    · rename_i cn' hfc
      simp only [Option.some.injEq] at hs
      subst hs
      intro x hx
      rcases List.mem_or_eq_of_mem_set hx with hx | hx
      · exact h x hx
      · subst hx
        exact hf cn _ (h cn (List.mem_of_getElem? hc)) hfc

theorem step_good {np : Bool} {W : Nat} {s s' : State} {a : Act} (h : ∀ cn ∈ s.conns, Good cn)
    (hs : step Code.current np W s a = some s') : ∀ cn ∈ s'.conns, Good cn := by
  cases a <;> simp only [step] at hs
  case advance d => simp at hs; subst hs; exact h
  case accept =>
    split at hs
    · simp at hs; subst hs
      intro x hx
      simp at hx
      rcases hx with hx | hx
      · exact h x hx
      · subst hx; simp [Good]
    · simp at hs
  case arrive c d n =>
    split at hs
    · simp at hs
    · refine updConn_good ?_ h hs
      intro cn cn' hg hf
      unfold cArrive at hf
      split at hf
      · simp at hf
      · split at hf <;> (try split at hf) <;> (try split at hf) <;> (try split at hf) <;> simp at hf <;>
          (try (subst hf; simpa [Good] using hg))
  case handlerRet c =>
    split at hs
    · simp at hs
    · refine updConn_good ?_ h hs
      intro cn cn' hg hf
      unfold cHandlerRet at hf
      split at hf <;> simp at hf
      subst hf; simpa [Good] using hg
  case readTimeout c =>
    split at hs
    · simp at hs
    · refine updConn_good ?_ h hs
      intro cn cn' hg hf
      unfold cReadTimeout at hf
      rw [hg.1] at hf
      simp at hf
  case peerClose c =>
    split at hs
    · simp at hs
    · refine updConn_good ?_ h hs
      intro cn cn' hg hf
      unfold cPeerClose at hf
      split at hf <;> simp at hf <;> (subst hf; simpa [Good] using hg)
  case shutBegin =>
    split at hs
    · simp at hs; subst hs
      intro x hx
      simp only [List.mem_map] at hx
      obtain ⟨y, hy, rfl⟩ := hx
      have hg := h y hy
      unfold touch
      cases np
      · simpa [Code.current, Good] using hg
      · simpa [Good] using hg
    · simp at hs
  case npCloseIdle c =>
    split at hs
    · refine updConn_good ?_ h hs
      intro cn cn' hg hf
      unfold cNpClose at hf
      split at hf <;> simp at hf
      subst hf; simpa [Good] using hg
    · simp at hs
  case procExit =>
    split at hs
    · simp at hs; subst hs
      intro x hx
      simp only [List.mem_map] at hx
      obtain ⟨y, hy, rfl⟩ := hx
      simpa [Good] using h y hy
    · simp at hs

theorem run_good {np : Bool} {W : Nat} : ∀ (acts : List Act) {s s' : State}, (∀ cn ∈ s.conns, Good cn) →
    run Code.current np W s acts = some s' → ∀ cn ∈ s'.conns, Good cn
  | [], s, s', h, hr => by simp [run] at hr; subst hr; exact h
  | a :: t, s, s', h, hr => by
    simp only [run] at hr
    split at hr
    · simp at hr
    · rename_i s1 hs
      exact run_good t (step_good h hs) hr

/-- whatever the shutdown has done so far: while the process lives, the rest of a partly received request can arrive,
the handler runs, and the complete response is written (with `Connection: close` iff shutdown has begun) -/
theorem reading_completes (code : Code) (np : Bool) (W : Nat) (s : State) (c k n : Nat) (cn : Conn)
    (hc : s.conns[c]? = some cn) (hp : cn.ph = .reading k n) (hkn : k < n) (hx : s.exited = false) :
    ∃ s', run code np W s [.arrive c (n - k) n, .handlerRet c] = some s' ∧
      (s'.conns[c]?).map (·.resps) = some (cn.resps ++ [s.shut]) ∧ (s'.conns[c]?).map (·.errs) = some cn.errs := by
  have hlt : c < s.conns.length := by
    rcases List.getElem?_eq_some_iff.mp hc with ⟨h, _⟩; exact h
  have h1 : n - k ≠ 0 := by omega
  have h2 : ¬ (k + (n - k) < n) := by omega
  have h3 : k + (n - k) = n := by omega
  let c1 : Conn := { cn with ph := .handling }
  let c2 : Conn := { cn with ph := (if s.shut then Ph.closed else Ph.idle), resps := cn.resps ++ [s.shut] }
  have e1 : step code np W s (.arrive c (n - k) n) = some { s with conns := s.conns.set c c1 } := by
    simp only [step, hx, updConn, hc, cArrive, hp, h1, h3]
    simp [c1]
  have g : (s.conns.set c c1)[c]? = some c1 := by
    simp [List.getElem?_set_self hlt]
  have e2 : step code np W { s with conns := s.conns.set c c1 } (.handlerRet c) =
      some { s with conns := (s.conns.set c c1).set c c2 } := by
    simp only [step, hx, updConn, g, cHandlerRet]
    simp [c1, c2]
  refine ⟨{ s with conns := (s.conns.set c c1).set c c2 }, ?_, ?_, ?_⟩
  · simp only [run, e1, e2]
  · simp [hlt, c2]
  · simp [hlt, c2]

end Hertz.Arrive
