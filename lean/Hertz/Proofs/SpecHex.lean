import Hertz.Spec.Http
/-!
Small facts about the strict decoder's chunk-size line (`Spec.Http.chunksAux`): a line that parses as a hex
number does not begin with a blank, so the "no blank in front of the size" guard of the decoder never fires
on an encoding produced by a writer.
-/
namespace Hertz.Spec.Http

theorem hexDigitVal_not_blank (c : UInt8) (d : Nat) (h : hexDigitVal c = some d) : (c == 32 || c == 9) = false := by
  cases hb : (c == 32 || c == 9) with
  | false => rfl
  | true =>
    have : c = 32 ∨ c = 9 := by simpa using hb
    rcases this with rfl | rfl <;> simp [hexDigitVal] at h

theorem head_not_blank_of_parseHex (hx : Bytes) (v : Nat) (h : parseHex hx = some v) :
    hx.head?.any (fun c => c == 32 || c == 9) = false := by
  unfold parseHex at h
  split at h
  · cases h
  · cases hx with
    | nil => rfl
    | cons c t =>
      simp only [List.foldlM_cons] at h
      cases hd : hexDigitVal c with
      | none => simp [hd] at h
      | some d => simpa using hexDigitVal_not_blank c d hd

/-- the same for a size line padded with blanks behind the digits -/
theorem head_not_blank_padded (ds : Bytes) (pad : Nat) (v : Nat) (h : parseHex ds = some v) :
    (ds ++ List.replicate pad 32).head?.any (fun c => c == 32 || c == 9) = false := by
  cases ds with
  | nil => simp [parseHex] at h
  | cons c t => simpa using head_not_blank_of_parseHex (c :: t) v h

/-- a run of hex digits contains no HTAB (the decoder's "no HTAB in the size line" guard never fires on a writer's encoding) -/
theorem foldlM_hex_no_tab : ∀ (hx : Bytes) (n v : Nat),
    hx.foldlM (fun n c => (hexDigitVal c).map (fun d => n * 16 + d)) n = some v → hx.any (fun c => c == 9) = false
  | [], _, _, _ => rfl
  | c :: t, n, v, h => by
    simp only [List.foldlM_cons] at h
    cases hd : hexDigitVal c with
    | none => simp [hd] at h
    | some d =>
      simp only [hd, Option.map_some, Option.bind_some] at h
      have hc : (c == 9) = false := by
        have := hexDigitVal_not_blank c d hd
        simp only [Bool.or_eq_false_iff] at this
        exact this.2
      simp only [List.any_cons, hc, Bool.false_or]
      exact foldlM_hex_no_tab t _ v h

theorem no_tab_of_parseHex (hx : Bytes) (v : Nat) (h : parseHex hx = some v) : hx.any (fun c => c == 9) = false := by
  unfold parseHex at h
  split at h
  · cases h
  · exact foldlM_hex_no_tab hx 0 v h

theorem no_tab_padded (ds : Bytes) (pad : Nat) (v : Nat) (h : parseHex ds = some v) :
    (ds ++ List.replicate pad 32).any (fun c => c == 9) = false := by
  rw [List.any_append, no_tab_of_parseHex ds v h]
  induction pad with
  | zero => rfl
  | succ k ih => simpa [List.replicate_succ] using ih

end Hertz.Spec.Http
