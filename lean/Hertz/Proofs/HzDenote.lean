import Hertz.Proofs.Hz
/-!
C16, the denotation theorem: interpreting the statements the `router.go` template renders registers
exactly the declared routes, each behind one middleware per path element.

Part 1  `interp` over the statements of a tree whose variables are well scoped (`ScN`) — compositional
        description `routesD` / `groupsD`.
Part 2  the `groups` stack of `DyeGroupName` hands every node its parent's variable (`GN`).
Part 3  shape of the tree `Update` builds for clean paths (`ShN`): node paths are `/seg` with `seg`
        slash-free, non-empty for nodes with children; handlers are `alias.name`.
Part 4  `joinPath` along such a tree is concatenation.
Part 5  sort-router: sibling group nodes have distinct paths (`SI` while building, `UQ` after naming), hence
        every group on a route's path wraps it (`strongN`).
Part 6  the variables of `Register` are distinct in snake style too; the snake pass keeps all of the above;
        assembly (`generate_tree`, `generate_denotes_strong`).
Part 7  update of an existing middleware.go in camel style declares nothing twice.
Part 8  fresh middleware.go: every middleware function `Register` calls is declared.
-/
set_option linter.unusedSimpArgs false
namespace Hertz.Hz
open Hertz.HzSpec

/-! ## Part 1: interpretation of the statements of a well scoped tree -/

def ownRoute (gv : GroupVal) (i : Info) : Route :=
  { verb := i.httpMethod, path := joinPath gv.base i.path, handler := i.handler,
    chain := gv.chain ++ [i.handlerMw ++ mwSuffix] }

def ownGroup (gv : GroupVal) (i : Info) : GroupVal :=
  { base := joinPath gv.base i.path, chain := gv.chain ++ [i.groupMw ++ mwSuffix] }

mutual
/-- the routes the statements of a node register when its parent's variable has value `gv` -/
def routesD (gv : GroupVal) : Node → List Route
  | .mk i cs => (if i.handler.isEmpty then [] else [ownRoute gv i]) ++ routesDL (ownGroup gv i) cs
def routesDL (gv : GroupVal) : List Node → List Route
  | [] => []
  | c :: r => routesD gv c ++ routesDL gv r
end

mutual
/-- the groups (full path, middleware function) the statements of a node declare -/
def groupsD (gv : GroupVal) : Node → List (Bytes × Bytes)
  | .mk i cs => (if cs.isEmpty then [] else [((ownGroup gv i).base, i.groupMw ++ mwSuffix)])
      ++ groupsDL (ownGroup gv i) cs
def groupsDL (gv : GroupVal) : List Node → List (Bytes × Bytes)
  | [] => []
  | c :: r => groupsD gv c ++ groupsDL gv r
end

mutual
/-- scoping: every node refers to its parent's variable `pm`, a node with children is not called `/`
(the template would then say `r`), and no variable declared below a node hides the node's own -/
def ScN (pm : Bytes) : Node → Prop
  | .mk i cs => i.groupName = pm ∧ (cs.isEmpty = false → i.path ≠ [sl]) ∧ i.middleWare ∉ groupVarsL cs
      ∧ ScL i.middleWare cs
def ScL (pm : Bytes) : List Node → Prop
  | [] => True
  | c :: r => ScN pm c ∧ ScL pm r
end

theorem lookupVar_skip (D top : List (Bytes × GroupVal)) (sc : Scopes) (v : Bytes)
    (h : v ∉ D.map Prod.fst) : lookupVar ((D ++ top) :: sc) v = lookupVar (top :: sc) v := by
  induction D with
  | nil => rfl
  | cons d D ih =>
    obtain ⟨k, g⟩ := d
    simp only [List.map_cons, List.mem_cons, not_or] at h
    have ih' := ih h.2
    have hk : (v == k) = false := by simpa using h.1
    simp only [lookupVar, List.cons_append, List.lookup_cons, hk] at ih' ⊢
    exact ih'

theorem lookupVar_push (sc : Scopes) (v : Bytes) : lookupVar ([] :: sc) v = lookupVar sc v := by
  simp [lookupVar]

theorem lookupVar_head (top : List (Bytes × GroupVal)) (sc : Scopes) (v : Bytes) (g : GroupVal) :
    lookupVar (((v, g) :: top) :: sc) v = some g := by
  simp [lookupVar]

theorem interp_route (g verb p mw h : Bytes) (r : List Stmt) (sc : Scopes) (gv : GroupVal)
    (hl : lookupVar sc g = some gv) :
    interp (.route g verb p mw h :: r) sc =
      (interp r sc).map (fun x => ({ verb := verb, path := joinPath gv.base p, handler := h,
                                     chain := gv.chain ++ [mw] } :: x.1, x.2)) := by
  simp only [interp, hl]
  cases interp r sc <;> rfl

theorem interp_group (v g p mw : Bytes) (r : List Stmt) (top : List (Bytes × GroupVal)) (sc : Scopes)
    (gv : GroupVal) (hl : lookupVar (top :: sc) g = some gv) :
    interp (.group v g p mw :: r) (top :: sc) =
      (interp r (((v, { base := joinPath gv.base p, chain := gv.chain ++ [mw] }) :: top) :: sc)).map
        (fun x => (x.1, (joinPath gv.base p, mw) :: x.2)) := by
  simp only [interp, hl]
  cases interp r _ <;> rfl

theorem interp_open (r : List Stmt) (sc : Scopes) : interp (.open_ :: r) sc = interp r ([] :: sc) := by
  simp [interp]

theorem interp_close (r : List Stmt) (a b : List (Bytes × GroupVal)) (sc : Scopes) :
    interp (.close :: r) (a :: b :: sc) = interp r (b :: sc) := by
  simp [interp]

theorem groupVars_mk (i : Info) (cs : List Node) :
    groupVars (.mk i cs) = (if cs.isEmpty then [] else [i.middleWare]) ++ groupVarsL cs := by
  rw [groupVars]

mutual
theorem interp_node : (n : Node) → ∀ (pm : Bytes) (gv : GroupVal) (top : List (Bytes × GroupVal)) (sc : Scopes),
    ScN pm n → lookupVar (top :: sc) pm = some gv →
    ∃ D : List (Bytes × GroupVal), (∀ k ∈ D.map Prod.fst, k ∈ groupVars n) ∧
      ∀ rest, interp (stmts n ++ rest) (top :: sc) =
        (interp rest ((D ++ top) :: sc)).map (fun x => (routesD gv n ++ x.1, groupsD gv n ++ x.2))
  | .mk i cs => by
    intro pm gv top sc hsc hl
    simp only [ScN] at hsc
    obtain ⟨hg, hp, hnot, hcs⟩ := hsc
    subst hg
    cases hce : cs.isEmpty with
    | true =>
      have : cs = [] := by simpa using hce
      subst this
      refine ⟨[], by simp, fun rest => ?_⟩
      cases hh : i.handler.isEmpty with
      | true =>
        simp [stmts, stmtsL, routesD, routesDL, groupsD, groupsDL, hh]
      | false =>
        simp only [stmts, stmtsL, routesD, routesDL, groupsD, groupsDL, hh, List.isEmpty_nil, if_true,
          Bool.false_eq_true, if_false, List.append_nil, List.nil_append, List.singleton_append]
        rw [interp_route _ _ _ _ _ _ _ gv hl]
        rfl
    | false =>
      have hpath : i.path ≠ [sl] := hp hce
      obtain ⟨D, hD, hrest⟩ := interp_nodes cs i.middleWare (ownGroup gv i)
        ((i.middleWare, ownGroup gv i) :: top) sc hcs hnot (lookupVar_head _ _ _ _)
      refine ⟨D ++ [(i.middleWare, ownGroup gv i)], ?_, fun rest => ?_⟩
      · intro k hk
        rw [groupVars_mk, hce]
        simp only [List.map_append, List.mem_append, List.map_cons, List.map_nil, List.mem_singleton] at hk
        rcases hk with hk | hk
        · simp [hD k hk]
        · simp [hk]
      · have hgrp : ∀ X, interp (Stmt.group i.middleWare (if i.path = [sl] then [114] else i.groupName) i.path
            (i.groupMw ++ mwSuffix) :: (stmtsL cs ++ X)) (top :: sc) =
            (interp X ((D ++ [(i.middleWare, ownGroup gv i)] ++ top) :: sc)).map
              (fun x => (routesDL (ownGroup gv i) cs ++ x.1,
                ((ownGroup gv i).base, i.groupMw ++ mwSuffix) :: (groupsDL (ownGroup gv i) cs ++ x.2))) := by
          intro X
          rw [if_neg hpath, interp_group _ _ _ _ _ _ _ gv hl]
          have := hrest X
          simp only [ownGroup] at this ⊢
          rw [this, Option.map_map]
          simp [Function.comp_def]
        cases hh : i.handler.isEmpty with
        | true =>
          simp only [stmts, routesD, groupsD, hh, hce, if_true, Bool.false_eq_true, if_false,
            List.nil_append, List.singleton_append, List.cons_append]
          rw [hgrp]
        | false =>
          simp only [stmts, routesD, groupsD, hh, hce, Bool.false_eq_true, if_false,
            List.singleton_append, List.cons_append, List.append_assoc, List.nil_append]
          rw [interp_route _ _ _ _ _ _ _ gv hl, hgrp, Option.map_map]
          simp [Function.comp_def, ownRoute]
theorem interp_nodes : (l : List Node) → ∀ (pm : Bytes) (gv : GroupVal) (top : List (Bytes × GroupVal)) (sc : Scopes),
    ScL pm l → pm ∉ groupVarsL l → lookupVar (top :: sc) pm = some gv →
    ∃ D : List (Bytes × GroupVal), (∀ k ∈ D.map Prod.fst, k ∈ groupVarsL l) ∧
      ∀ rest, interp (stmtsL l ++ rest) (top :: sc) =
        (interp rest ((D ++ top) :: sc)).map (fun x => (routesDL gv l ++ x.1, groupsDL gv l ++ x.2))
  | [] => by
    intro pm gv top sc _ _ _
    refine ⟨[], by simp, fun rest => ?_⟩
    simp [stmtsL, routesDL, groupsDL]
  | .mk i cs :: r => by
    intro pm gv top sc hsc hnot hl
    simp only [ScL] at hsc
    obtain ⟨hc, hr⟩ := hsc
    simp only [groupVarsL, List.mem_append, not_or] at hnot
    cases hh : i.handler.isEmpty with
    | true =>
      obtain ⟨Dc, hDc, hcrest⟩ := interp_node (.mk i cs) pm gv [] (top :: sc) hc (by rw [lookupVar_push]; exact hl)
      obtain ⟨Dr, hDr, hrrest⟩ := interp_nodes r pm gv top sc hr hnot.2 hl
      refine ⟨Dr, fun k hk => by simp [groupVarsL, hDr k hk], fun rest => ?_⟩
      simp only [stmtsL, hh, if_true, List.singleton_append, List.cons_append, List.append_assoc,
        routesDL, groupsDL, List.nil_append]
      rw [interp_open, hcrest, interp_close, hrrest, Option.map_map]
      simp [Function.comp_def]
    | false =>
      obtain ⟨Dc, hDc, hcrest⟩ := interp_node (.mk i cs) pm gv top sc hc hl
      have hl' : lookupVar ((Dc ++ top) :: sc) pm = some gv := by
        rw [lookupVar_skip _ _ _ _ (fun hm => hnot.1 (hDc _ hm))]; exact hl
      obtain ⟨Dr, hDr, hrrest⟩ := interp_nodes r pm gv (Dc ++ top) sc hr hnot.2 hl'
      refine ⟨Dr ++ Dc, ?_, fun rest => ?_⟩
      · intro k hk
        simp only [List.map_append, List.mem_append] at hk
        rcases hk with hk | hk
        · simp [groupVarsL, hDr k hk]
        · simp [groupVarsL, hDc k hk]
      · simp only [stmtsL, hh, Bool.false_eq_true, if_false, List.append_assoc, routesDL, groupsDL]
        rw [hcrest, hrrest, Option.map_map]
        simp [Function.comp_def]
end

/-! ## Part 2: the `groups` stack of `DyeGroupName` -/

mutual
/-- every node's `GroupName` is its parent's `MiddleWare` (`pm` for the top node) -/
def GN (pm : Bytes) : Node → Prop
  | .mk i cs => i.groupName = pm ∧ GNL i.middleWare cs
def GNL (pm : Bytes) : List Node → Prop
  | [] => True
  | c :: r => GN pm c ∧ GNL pm r
end

theorem setNth_eq_set (l : List Bytes) (k : Nat) (v : Bytes) : setNth l k v = l.set k v := by
  induction l generalizing k with
  | nil => simp [setNth]
  | cons a r ih =>
    cases k with
    | zero => simp [setNth]
    | succ k => simp [setNth, ih]

theorem dyeHook_groups (snake : Bool) (layer : Nat) (pp : Option Bytes) (i i' : Info) (hc : Bool) (st st' : DyeSt)
    (h : dyeHook snake layer pp i hc st = .ok (i', st')) :
    st.groups[layer]? = some i'.groupName ∧ st'.groups[layer + 1]? = some i'.middleWare ∧
      ∀ j, j ≤ layer → st'.groups[j]? = st.groups[j]? := by
  unfold dyeHook at h
  split at h
  · simp at h
  · rename_i gname hg
    split at h
    · simp at h
    · rename_i nm used1 hn
      simp only [Except.ok.injEq, Prod.mk.injEq] at h
      obtain ⟨rfl, rfl⟩ := h
      refine ⟨hg, ?_, ?_⟩
      · simp only
        split
        · rename_i hge
          have : st.groups.length = layer + 1 := by
            have := (List.getElem?_eq_some_iff.1 hg).1
            omega
          rw [List.getElem?_append_right (by omega)]
          simp [this]
        · rename_i hlt
          rw [setNth_eq_set, List.getElem?_set_self (by omega)]
      · intro j hj
        simp only
        split
        · have := (List.getElem?_eq_some_iff.1 hg).1
          rw [List.getElem?_append_left (by omega)]
        · rw [setNth_eq_set, List.getElem?_set_ne (by omega)]

mutual
theorem dye_gn : (n : Node) → ∀ (snake : Bool) (layer : Nat) (pp : Option Bytes) (st : DyeSt) (n' : Node) (st' : DyeSt)
    (pm : Bytes), dye snake layer pp n st = .ok (n', st') → st.groups[layer]? = some pm →
    GN pm n' ∧ ∀ j, j ≤ layer → st'.groups[j]? = st.groups[j]?
  | .mk i cs => by
    intro snake layer pp st n' st' pm h hpm
    unfold dye at h
    split at h
    · simp at h
    · rename_i i' st1 hh
      split at h
      · simp at h
      · rename_i cs' st2 hl
        simp only [Except.ok.injEq, Prod.mk.injEq] at h
        obtain ⟨rfl, rfl⟩ := h
        obtain ⟨h1, h2, h3⟩ := dyeHook_groups _ _ _ _ _ _ _ _ hh
        obtain ⟨g1, g2⟩ := dyeL_gn cs _ _ _ st1 cs' st2 i'.middleWare hl h2
        refine ⟨?_, fun j hj => ?_⟩
        · simp only [GN]
          rw [h1] at hpm
          exact ⟨by simpa using hpm, g1⟩
        · rw [g2 j (by omega), h3 j hj]
theorem dyeL_gn : (l : List Node) → ∀ (snake : Bool) (layer : Nat) (pp : Option Bytes) (st : DyeSt) (l' : List Node) (st' : DyeSt)
    (pm : Bytes), dyeL snake layer pp l st = .ok (l', st') → st.groups[layer]? = some pm →
    GNL pm l' ∧ ∀ j, j ≤ layer → st'.groups[j]? = st.groups[j]?
  | [] => by
    intro snake layer pp st l' st' pm h _
    simp only [dyeL, Except.ok.injEq, Prod.mk.injEq] at h
    obtain ⟨rfl, rfl⟩ := h
    exact ⟨by simp [GNL], fun _ _ => rfl⟩
  | c :: r => by
    intro snake layer pp st l' st' pm h hpm
    unfold dyeL at h
    split at h
    · simp at h
    · rename_i c' st1 hc
      split at h
      · simp at h
      · rename_i r' st2 hr
        simp only [Except.ok.injEq, Prod.mk.injEq] at h
        obtain ⟨rfl, rfl⟩ := h
        obtain ⟨g1, g2⟩ := dye_gn c _ _ _ st c' st1 pm hc hpm
        obtain ⟨g3, g4⟩ := dyeL_gn r _ _ _ st1 r' st2 pm hr (by rw [g2 layer (Nat.le_refl _)]; exact hpm)
        refine ⟨by simp only [GNL]; exact ⟨g1, g3⟩, fun j hj => ?_⟩
        rw [g4 j hj, g2 j hj]
end

/-- the root of `NewRouterTree` keeps its names; its children are dyed at layer 1 under the variable `root` -/
theorem dyeGroupName_root (snake : Bool) (cs : List Node) (used used' : List Bytes) (root' : Node)
    (h : dyeGroupName snake (.mk newRouterTree.info cs) used = .ok (root', used')) :
    ∃ cs' st2, root' = .mk newRouterTree.info cs' ∧
      dyeL snake 1 (some []) cs { groups := [rootName, rootName], used := used } = .ok (cs', st2) := by
  unfold dyeGroupName at h
  split at h
  · simp at h
  · rename_i r st hd
    simp only [Except.ok.injEq, Prod.mk.injEq] at h
    obtain ⟨rfl, _⟩ := h
    unfold dye at hd
    split at hd
    · simp at hd
    · rename_i i' st1 hh
      have hi : i' = newRouterTree.info ∧ st1 = { groups := [rootName, rootName], used := used } := by
        simp only [dyeHook, newRouterTree, Node.info, rootName] at hh
        simp at hh
        obtain ⟨rfl, rfl⟩ := hh
        exact ⟨rfl, rfl⟩
      split at hd
      · simp at hd
      · rename_i cs' st2 hl
        simp only [Except.ok.injEq, Prod.mk.injEq] at hd
        obtain ⟨rfl, _⟩ := hd
        obtain ⟨rfl, rfl⟩ := hi
        exact ⟨cs', st2, rfl, hl⟩

/-! ## Part 3: the shape of the tree `Update` builds for clean paths -/

/-- a node path: `/seg`, `seg` slash-free, and not empty when the node has children (`e = false`) -/
def SegOK (e : Bool) (p : Bytes) : Prop := ∃ s, p = sl :: s ∧ sl ∉ s ∧ (e = false → s ≠ [])

/-- a handler reference: `alias.name` with a dot-free name -/
def HandlerOK (i : Info) : Prop :=
  i.handler = [] ∨ ∃ nm, i.handler = i.handlerAlias ++ 46 :: nm ∧ (46 : UInt8) ∉ nm

mutual
def ShN : Node → Prop
  | .mk i cs => SegOK cs.isEmpty i.path ∧ HandlerOK i ∧ ShL cs
def ShL : List Node → Prop
  | [] => True
  | c :: r => ShN c ∧ ShL r
end

theorem shL_iff (l : List Node) : ShL l ↔ ∀ c ∈ l, ShN c := by
  induction l with
  | nil => simp [ShL]
  | cons c r ih => simp [ShL, ih]

theorem SegOK.weaken {e : Bool} {p : Bytes} (h : SegOK false p) : SegOK e p := by
  obtain ⟨s, h1, h2, h3⟩ := h
  exact ⟨s, h1, h2, fun _ => h3 rfl⟩

theorem SegOK.strengthen {e : Bool} {p : Bytes} (h : SegOK e p) (hne : p ≠ [sl]) : SegOK false p := by
  obtain ⟨s, h1, h2, _⟩ := h
  refine ⟨s, h1, h2, fun _ hs => hne ?_⟩
  rw [h1, hs]

theorem SegOK.ne_root {p : Bytes} (h : SegOK false p) : p ≠ [sl] := by
  obtain ⟨s, h1, _, h3⟩ := h
  intro e
  rw [h1] at e
  simp only [List.cons.injEq, true_and] at e
  exact h3 rfl e

/-- a method of the property's quantifier: clean path, handler name without a dot (a Go identifier) -/
def CleanM (m : Method) : Prop := cleanPath m.path = true ∧ (46 : UInt8) ∉ m.name

theorem splitSlash_noslash : ∀ (t : Bytes) (s : Bytes), s ∈ splitSlash t → sl ∉ s := by
  intro t
  induction t with
  | nil => intro s h; simp [splitSlash] at h; simp [h]
  | cons c t ih =>
    intro s h
    unfold splitSlash at h
    split at h
    · simp only [List.mem_cons] at h
      rcases h with rfl | h
      · simp
      · exact ih s h
    · rename_i hc
      split at h
      · rename_i hd r heq
        simp only [List.mem_cons] at h
        rcases h with rfl | h
        · have := ih hd (by simp [heq])
          simp only [List.mem_cons, not_or]
          exact ⟨fun e => hc e.symm, this⟩
        · exact ih s (by simp [heq, h])
      · simp only [List.mem_singleton] at h
        subst h
        simp only [List.mem_singleton]
        exact fun e => hc e.symm

theorem cleanPath_segs (p : Bytes) (h : cleanPath p = true) :
    ∃ t, p = sl :: t ∧ segsOf p = splitSlash t ∧ (∀ s ∈ (segsOf p).dropLast, s ≠ []) ∧
      ∀ s ∈ segsOf p, sl ∉ s := by
  cases p with
  | nil => simp [cleanPath, splitSlash] at h
  | cons c t =>
    by_cases hc : c = sl
    · subst hc
      have e : segsOf (sl :: t) = splitSlash t := by simp [segsOf, splitSlash]
      refine ⟨t, rfl, e, ?_, ?_⟩
      · simp only [cleanPath, splitSlash, if_true, Bool.and_eq_true, List.all_eq_true] at h
        intro s hs
        rw [e] at hs
        have := h.1.1.2 s hs
        simpa using this
      · rw [e]; exact splitSlash_noslash t
    · exfalso
      unfold cleanPath at h
      cases hs : splitSlash t with
      | nil => exact splitSlash_ne_nil t hs
      | cons hd r => simp [splitSlash, hc, hs] at h

theorem chain_shape (li : Info) (hh : HandlerOK li) :
    ∀ (rest : List Bytes) (c : Node), (∀ s ∈ rest, sl ∉ s) → (∀ s ∈ rest.dropLast, s ≠ []) →
      li.path = sl :: rest.getLast?.getD [] → chain (fun _ => li) rest = some c → ShN c := by
  intro rest
  induction rest with
  | nil => intro c _ _ _ h; simp [chain] at h
  | cons p r ih =>
    intro c h1 h2 hp h
    cases r with
    | nil =>
      simp only [chain, Option.some.injEq] at h
      subst h
      simp only [List.getLast?_singleton, Option.getD_some] at hp
      simp only [ShN, ShL, and_true]
      exact ⟨⟨p, hp, h1 p (by simp), by simp⟩, hh⟩
    | cons q r' =>
      unfold chain at h
      split at h
      · rename_i c' hc'
        simp only [Option.some.injEq] at h
        subst h
        have hp' : li.path = sl :: (q :: r').getLast?.getD [] := by
          simpa [List.getLast?_cons_cons] using hp
        have := ih c' (fun s hs => h1 s (by simp [hs])) (fun s hs => h2 s (by simp [List.dropLast, hs])) hp' hc'
        simp only [ShN, ShL, and_true]
        refine ⟨⟨p, rfl, h1 p (by simp), fun _ => h2 p (by simp [List.dropLast])⟩, Or.inl rfl, this⟩
      · simp at h

theorem modNth_isEmpty (f : Node → Node) (cs : List Node) (k : Nat) : (modNth f cs k).isEmpty = cs.isEmpty := by
  cases cs with
  | nil => rfl
  | cons c r => cases k <;> rfl

/-- inserting a well shaped chain below a node that is not called `/`, along nodes not called `/` -/
theorem insertAt_shape (srt : List Node → List Node) (hs : ∀ l, (srt l).Perm l) (c : Node) (hc : ShN c) :
    ∀ (addr : List Nat) (n : Node) (q : List Bytes), ShN n → pathAt n addr = some q →
      n.info.path ≠ [sl] → (∀ x ∈ q, x ≠ [sl]) → ShN (insertAt srt c addr n) := by
  intro addr
  induction addr with
  | nil =>
    intro n q hn _ hne _
    obtain ⟨i, cs⟩ := n
    simp only [ShN] at hn
    simp only [insertAt, ShN]
    refine ⟨(hn.1.strengthen hne).weaken, hn.2.1, ?_⟩
    rw [shL_iff]
    intro x hx
    have := (hs _).mem_iff.1 hx
    simp only [List.mem_append, List.mem_singleton] at this
    rcases this with h' | rfl
    · exact (shL_iff cs).1 hn.2.2 x h'
    · exact hc
  | cons k a ih =>
    intro n q hn hq hne hall
    obtain ⟨i, cs⟩ := n
    simp only [ShN] at hn
    simp only [pathAt] at hq
    cases hk : cs[k]? with
    | none => simp [hk] at hq
    | some ck =>
      simp only [hk, Option.map_eq_some_iff] at hq
      obtain ⟨q', hq', rfl⟩ := hq
      simp only [insertAt, ShN, modNth_isEmpty]
      refine ⟨hn.1, hn.2.1, ?_⟩
      rw [shL_iff]
      intro x hx
      rcases modNth_mem _ cs k x hx with h' | ⟨d, hd, rfl⟩
      · exact (shL_iff cs).1 hn.2.2 x h'
      · obtain ⟨l1, l2, e1, e2⟩ := modNth_flatMap (β := Nat) (insertAt srt c a) (fun _ => []) cs k ck hk
        -- `x` is either an untouched child or the modified `ck`
        rw [e2] at hx
        simp only [List.mem_append, List.mem_cons] at hx
        have hck : ShN ck := (shL_iff cs).1 hn.2.2 ck (by rw [e1]; simp)
        have hmod : ShN (insertAt srt c a ck) :=
          ih ck q' hck hq' (hall _ (by simp)) (fun x hx => hall x (by simp [hx]))
        rcases hx with hx | hx | hx
        · exact (shL_iff cs).1 hn.2.2 _ (by rw [e1]; simp [hx])
        · rw [hx]; exact hmod
        · exact (shL_iff cs).1 hn.2.2 _ (by rw [e1]; simp [hx])

/-- the same at the root (which is called `/` and is not subject to `ShN`) -/
theorem insertAt_shape_root (srt : List Node → List Node) (hs : ∀ l, (srt l).Perm l) (c : Node) (hc : ShN c)
    (addr : List Nat) (n : Node) (q : List Bytes) (hn : ShL n.children) (hq : pathAt n addr = some q)
    (hall : ∀ x ∈ q, x ≠ [sl]) : ShL (insertAt srt c addr n).children := by
  obtain ⟨i, cs⟩ := n
  simp only [Node.children] at hn
  cases addr with
  | nil =>
    simp only [insertAt, Node.children]
    rw [shL_iff]
    intro x hx
    have := (hs _).mem_iff.1 hx
    simp only [List.mem_append, List.mem_singleton] at this
    rcases this with h' | rfl
    · exact (shL_iff cs).1 hn x h'
    · exact hc
  | cons k a =>
    simp only [pathAt] at hq
    cases hk : cs[k]? with
    | none => simp [hk] at hq
    | some ck =>
      simp only [hk, Option.map_eq_some_iff] at hq
      obtain ⟨q', hq', rfl⟩ := hq
      simp only [insertAt, Node.children]
      obtain ⟨l1, l2, e1, e2⟩ := modNth_flatMap (β := Nat) (insertAt srt c a) (fun _ => []) cs k ck hk
      rw [shL_iff, e2]
      intro x hx
      simp only [List.mem_append, List.mem_cons] at hx
      have hck : ShN ck := (shL_iff cs).1 hn ck (by rw [e1]; simp)
      have hmod : ShN (insertAt srt c a ck) :=
        insertAt_shape srt hs c hc a ck q' hck hq' (hall _ (by simp)) (fun x hx => hall x (by simp [hx]))
      rcases hx with hx | hx | hx
      · exact (shL_iff cs).1 hn _ (by rw [e1]; simp [hx])
      · rw [hx]; exact hmod
      · exact (shL_iff cs).1 hn _ (by rw [e1]; simp [hx])

theorem mem_dropLast_of_mem_take {α : Type} (l : List α) (n : Nat) (hn : n < l.length) (x : α)
    (h : x ∈ l.take n) : x ∈ l.dropLast := by
  rw [List.dropLast_eq_take]
  have : l.take n = (l.take (l.length - 1)).take n := by
    rw [List.take_take]; congr 1; omega
  rw [this] at h
  exact List.mem_of_mem_take h

theorem mem_dropLast_of_mem_drop_dropLast {α : Type} (l : List α) (n : Nat) (x : α)
    (h : x ∈ (l.drop n).dropLast) : x ∈ l.dropLast := by
  rw [List.dropLast_eq_take] at h ⊢
  rw [List.take_drop] at h
  have h' := List.mem_of_mem_drop h
  simp only [List.length_drop] at h'
  by_cases hn : n < l.length
  · have : n + (l.length - n - 1) = l.length - 1 := by omega
    rwa [this] at h'
  · have : l.drop n = [] := by simp; omega
    simp [this] at h

theorem leafInfo_handlerOK (cfg : Cfg) (m : Method) (seg : Bytes) (st : PkgSt) (hm : (46 : UInt8) ∉ m.name) :
    HandlerOK (leafInfo cfg m seg st).1 := by
  right
  exact ⟨m.name, by simp [leafInfo], hm⟩

theorem updateWith_shape (srt : List Node → List Node) (hs : ∀ l, (srt l).Perm l) (cfg : Cfg)
    (root root' : Node) (st st' : PkgSt) (m : Method) (hm : CleanM m)
    (h : updateWith srt cfg root st m = .ok (root', st')) (hsh : ShL root.children) :
    ShL root'.children := by
  obtain ⟨t, hpt, hseg, hne, hns⟩ := cleanPath_segs m.path hm.1
  unfold updateWith at h
  split at h
  · simp at h
  · change (match findNearest cfg.sortRouter root (segsOf m.path) with
      | .error e => (Except.error e : Except Err (Node × PkgSt))
      | .ok (addr, last) =>
        if last = (segsOf m.path).length then Except.error Err.registered
        else
          match chain (fun _ => (leafInfo cfg m (((segsOf m.path).drop last).getLast?.getD []) st).1)
              ((segsOf m.path).drop last) with
          | none => Except.ok (root, st)
          | some c => Except.ok (insertAt srt c addr root,
              (leafInfo cfg m (((segsOf m.path).drop last).getLast?.getD []) st).2)) = _ at h
    split at h
    · simp at h
    · rename_i addr last hf
      obtain ⟨hl, hp⟩ := findNearest_spec cfg.sortRouter _ root addr last hf
      split at h
      · simp at h
      · split at h
        · simp only [Except.ok.injEq, Prod.mk.injEq] at h
          obtain ⟨rfl, _⟩ := h
          exact hsh
        · rename_i c hc
          simp only [Except.ok.injEq, Prod.mk.injEq] at h
          obtain ⟨rfl, _⟩ := h
          have hcs : ShN c := by
            refine chain_shape _ (leafInfo_handlerOK cfg m _ st hm.2) _ c ?_ ?_ ?_ hc
            · intro s hs'; exact hns s (List.mem_of_mem_drop hs')
            · intro s hs'; exact hne s (mem_dropLast_of_mem_drop_dropLast _ _ _ hs')
            · exact (leafInfo_isLeaf cfg m _ st).2
          refine insertAt_shape_root srt hs c hcs addr root _ hsh hp ?_
          intro x hx
          simp only [List.mem_map] at hx
          obtain ⟨s, hs', rfl⟩ := hx
          have := hne s (mem_dropLast_of_mem_take _ _ hl _ hs')
          simpa using this

theorem buildWith_shape (srt : List Node → List Node) (hs : ∀ l, (srt l).Perm l) (cfg : Cfg) :
    ∀ (ms : List Method) (root root' : Node) (st st' : PkgSt), (∀ m ∈ ms, CleanM m) →
      buildWith srt cfg root st ms = .ok (root', st') → ShL root.children → ShL root'.children := by
  intro ms
  induction ms with
  | nil =>
    intro root root' st st' _ h hf
    simp only [buildWith, Except.ok.injEq, Prod.mk.injEq] at h
    obtain ⟨rfl, _⟩ := h
    exact hf
  | cons m ms ih =>
    intro root root' st st' hm h hf
    unfold buildWith at h
    split at h
    · simp at h
    · rename_i r1 s1 hu
      have h1 := updateWith_shape srt hs cfg root r1 st s1 m (hm m (by simp)) hu hf
      exact ih r1 root' s1 st' (fun m' hm' => hm m' (by simp [hm'])) h h1

/-! ### naming keeps the shape -/

theorem dyeL_isEmpty' (snake : Bool) (layer : Nat) (pp : Option Bytes) (cs cs' : List Node) (st st' : DyeSt)
    (h : dyeL snake layer pp cs st = .ok (cs', st')) : cs'.isEmpty = cs.isEmpty := by
  cases cs with
  | nil =>
    simp only [dyeL, Except.ok.injEq, Prod.mk.injEq] at h
    obtain ⟨rfl, _⟩ := h
    rfl
  | cons c r =>
    unfold dyeL at h
    split at h
    · simp at h
    · split at h
      · simp at h
      · simp only [Except.ok.injEq, Prod.mk.injEq] at h
        obtain ⟨rfl, _⟩ := h
        rfl

mutual
theorem dye_shape : (n : Node) → ∀ (snake : Bool) (layer : Nat) (pp : Option Bytes) (st : DyeSt) (n' : Node) (st' : DyeSt),
    dye snake layer pp n st = .ok (n', st') → ShN n → ShN n'
  | .mk i cs => by
    intro snake layer pp st n' st' h hn
    unfold dye at h
    split at h
    · simp at h
    · rename_i i' st1 hh
      split at h
      · simp at h
      · rename_i cs' st2 hl
        simp only [Except.ok.injEq, Prod.mk.injEq] at h
        obtain ⟨rfl, rfl⟩ := h
        obtain ⟨k1, _, k3, k4⟩ := dyeHook_keeps _ _ _ _ _ _ _ _ hh
        simp only [ShN] at hn ⊢
        rw [dyeL_isEmpty' _ _ _ _ _ _ _ hl, k1]
        refine ⟨hn.1, ?_, dyeL_shape cs _ _ _ st1 cs' st2 hl hn.2.2⟩
        unfold HandlerOK
        rw [k3, k4]
        exact hn.2.1
theorem dyeL_shape : (l : List Node) → ∀ (snake : Bool) (layer : Nat) (pp : Option Bytes) (st : DyeSt) (l' : List Node) (st' : DyeSt),
    dyeL snake layer pp l st = .ok (l', st') → ShL l → ShL l'
  | [] => by
    intro snake layer pp st l' st' h _
    simp only [dyeL, Except.ok.injEq, Prod.mk.injEq] at h
    obtain ⟨rfl, _⟩ := h
    simp [ShL]
  | c :: r => by
    intro snake layer pp st l' st' h hl
    unfold dyeL at h
    split at h
    · simp at h
    · rename_i c' st1 hc
      split at h
      · simp at h
      · rename_i r' st2 hr
        simp only [Except.ok.injEq, Prod.mk.injEq] at h
        obtain ⟨rfl, rfl⟩ := h
        simp only [ShL] at hl ⊢
        exact ⟨dye_shape c _ _ _ st c' st1 hc hl.1, dyeL_shape r _ _ _ st1 r' st2 hr hl.2⟩
end

/-! ## Part 4: `joinPath` along the tree is concatenation -/

/-- the full path of a node reached through the node paths `pre` (root: `/`) -/
def fullPath (pre : List Bytes) : Bytes := if pre = [] then [sl] else pre.flatten

def OKpre (pre : List Bytes) : Prop := ∀ x ∈ pre, SegOK false x

theorem getLast?_mem_right (a : Bytes) (c : UInt8) (r : Bytes) (x : UInt8)
    (h : (a ++ c :: r).getLast? = some x) : x ∈ c :: r := by
  rw [List.getLast?_append] at h
  cases hh : (c :: r).getLast? with
  | none => simp at hh
  | some y =>
    rw [hh] at h
    simp at h
    subst h
    exact List.mem_of_getLast? hh

theorem getLast?_noslash (a s : Bytes) (hs : s ≠ []) (hn : sl ∉ s) : (a ++ sl :: s).getLast? ≠ some sl := by
  cases s with
  | nil => exact absurd rfl hs
  | cons c r =>
    have e : a ++ sl :: c :: r = (a ++ [sl]) ++ c :: r := by simp
    rw [e]
    intro h
    exact hn (getLast?_mem_right _ _ _ _ h)

theorem fullPath_last (pre : List Bytes) (h : OKpre pre) (hne : pre ≠ []) :
    (fullPath pre).getLast? ≠ some sl := by
  obtain ⟨init, x, rfl⟩ : ∃ init x, pre = init ++ [x] := by
    rcases List.eq_nil_or_concat pre with h | ⟨i, x, h⟩
    · exact absurd h hne
    · exact ⟨i, x, by simpa using h⟩
  obtain ⟨s, hx, hs, hs'⟩ := h x (by simp)
  simp only [fullPath, hne, if_false, List.flatten_append, List.flatten_cons, List.flatten_nil, List.append_nil]
  rw [hx]
  exact getLast?_noslash _ s (hs' rfl) hs

theorem joinPath_full (pre : List Bytes) (x : Bytes) (e : Bool) (h : OKpre pre) (hx : SegOK e x) :
    joinPath (fullPath pre) x = fullPath (pre ++ [x]) := by
  obtain ⟨s, rfl, _, _⟩ := hx
  cases pre with
  | nil =>
    simp only [fullPath, if_true, List.nil_append]
    unfold joinPath
    by_cases hs : s = []
    · subst hs; simp
    · simp [hs]
  | cons p r =>
    have hl := fullPath_last (p :: r) h (by simp)
    have e1 : fullPath (p :: r) = (p :: r).flatten := by simp [fullPath]
    have e2 : fullPath (p :: r ++ [sl :: s]) = (p :: r).flatten ++ sl :: s := by simp [fullPath]
    rw [e2]
    rw [e1] at hl
    unfold joinPath
    rw [e1]
    simp only [hl, if_false]
    by_cases hs : s = []
    · subst hs; simp
    · simp [hs]

/-- what a route of the tree is, seen from the rendered side and from the tree side -/
def keyD (r : Route) : Bytes × Bytes × Bytes × Nat := (r.verb, r.path, r.handler, r.chain.length)
def keyT (r : List Bytes × Info) : Bytes × Bytes × Bytes × Nat :=
  (r.2.httpMethod, fullPath r.1, r.2.handler, r.1.length + 1)

mutual
theorem routesD_eq : (n : Node) → ∀ (gv : GroupVal) (pre0 : List Bytes), ShN n → OKpre pre0 →
    gv.base = fullPath pre0 → gv.chain.length = pre0.length + 1 →
    (routesD gv n).map keyD = (routesN (pre0 ++ [n.info.path]) n).map keyT
  | .mk i cs => by
    intro gv pre0 hn hpre hb hc
    simp only [ShN] at hn
    obtain ⟨hseg, _, hcs⟩ := hn
    have hj : joinPath gv.base i.path = fullPath (pre0 ++ [i.path]) := by
      rw [hb]; exact joinPath_full pre0 i.path _ hpre hseg
    have hown : keyD (ownRoute gv i) = keyT (pre0 ++ [i.path], i) := by
      simp [keyD, keyT, ownRoute, hj, hc]
    have hch : (routesDL (ownGroup gv i) cs).map keyD = (routesL (pre0 ++ [i.path]) cs).map keyT := by
      cases cs with
      | nil => simp [routesDL, routesL]
      | cons c r =>
        refine routesDL_eq (c :: r) (ownGroup gv i) (pre0 ++ [i.path]) hcs ?_ (by simp [ownGroup, hj]) (by simp [ownGroup, hc])
        intro x hx
        simp only [List.mem_append, List.mem_singleton] at hx
        rcases hx with hx | rfl
        · exact hpre x hx
        · exact hseg.strengthen (fun e => by
            obtain ⟨s, h1, _, h3⟩ := hseg
            rw [h1] at e
            simp only [List.cons.injEq, true_and] at e
            exact h3 rfl e)
    simp only [routesD, routesN, Node.info, List.map_append, hch]
    cases i.handler.isEmpty <;> simp [hown]
theorem routesDL_eq : (l : List Node) → ∀ (gv : GroupVal) (pre : List Bytes), ShL l → OKpre pre →
    gv.base = fullPath pre → gv.chain.length = pre.length + 1 →
    (routesDL gv l).map keyD = (routesL pre l).map keyT
  | [] => by
    intro gv pre _ _ _ _
    simp [routesDL, routesL]
  | c :: r => by
    intro gv pre hl hpre hb hc
    simp only [ShL] at hl
    simp only [routesDL, routesL, List.map_append]
    rw [routesD_eq c gv pre hl.1 hpre hb hc, routesDL_eq r gv pre hl.2 hpre hb hc]
end

/-! ### variables: global distinctness gives the local scoping condition -/

mutual
theorem scN_of : (n : Node) → ∀ (pm : Bytes), GN pm n → ShN n → (groupVars n).Nodup → ScN pm n
  | .mk i cs => by
    intro pm hg hs hn
    simp only [GN] at hg
    simp only [ShN] at hs
    rw [groupVars_mk] at hn
    simp only [ScN]
    refine ⟨hg.1, ?_, ?_, scL_of cs i.middleWare hg.2 hs.2.2 ?_⟩
    · intro he
      exact SegOK.ne_root (by rw [← he]; exact hs.1)
    · cases he : cs.isEmpty with
      | true =>
        have : cs = [] := by simpa using he
        subst this
        simp [groupVarsL]
      | false =>
        simp only [he, Bool.false_eq_true, if_false, List.singleton_append, List.nodup_cons] at hn
        exact hn.1
    · rw [List.nodup_append] at hn
      exact hn.2.1
theorem scL_of : (l : List Node) → ∀ (pm : Bytes), GNL pm l → ShL l → (groupVarsL l).Nodup → ScL pm l
  | [] => by
    intro pm _ _ _
    simp [ScL]
  | c :: r => by
    intro pm hg hs hn
    simp only [GNL] at hg
    simp only [ShL] at hs
    simp only [groupVarsL, List.nodup_append] at hn
    simp only [ScL]
    exact ⟨scN_of c pm hg.1 hs.1 hn.1, scL_of r pm hg.2 hs.2 hn.2.1⟩
end

/-! ### handlers of the routes of a well shaped tree -/

mutual
theorem routesN_handlerOK : (n : Node) → ∀ (pre : List Bytes), ShN n → ∀ r ∈ routesN pre n, HandlerOK r.2
  | .mk i cs => by
    intro pre hn r hr
    simp only [ShN] at hn
    simp only [routesN, List.mem_append] at hr
    rcases hr with hr | hr
    · cases hh : i.handler.isEmpty with
      | true => simp [hh] at hr
      | false =>
        simp only [hh, Bool.false_eq_true, if_false, List.mem_singleton] at hr
        subst hr
        exact hn.2.1
    · exact routesL_handlerOK cs pre hn.2.2 r hr
theorem routesL_handlerOK : (l : List Node) → ∀ (pre : List Bytes), ShL l → ∀ r ∈ routesL pre l, HandlerOK r.2
  | [] => by
    intro pre _ r hr
    simp [routesL] at hr
  | c :: rs => by
    intro pre hl r hr
    simp only [ShL] at hl
    simp only [routesL, List.mem_append] at hr
    rcases hr with hr | hr
    · exact routesN_handlerOK c _ hl.1 r hr
    · exact routesL_handlerOK rs pre hl.2 r hr
end

theorem afterLastDot_go_nodot : ∀ (t acc : Bytes), (46 : UInt8) ∉ t → afterLastDot.go acc t = acc := by
  intro t
  induction t with
  | nil => intro acc _; rfl
  | cons c t ih =>
    intro acc h
    simp only [List.mem_cons, not_or] at h
    have hc : ¬ c = 46 := fun e => h.1 e.symm
    simp only [afterLastDot.go, hc, if_false]
    exact ih acc h.2

theorem afterLastDot_go_append : ∀ (a acc nm : Bytes), (46 : UInt8) ∉ nm →
    afterLastDot.go acc (a ++ 46 :: nm) = nm := by
  intro a
  induction a with
  | nil =>
    intro acc nm h
    simp only [List.nil_append, afterLastDot.go, if_true]
    exact afterLastDot_go_nodot nm nm h
  | cons c a ih =>
    intro acc nm h
    simp only [List.cons_append, afterLastDot.go]
    split
    · exact ih _ nm h
    · exact ih _ nm h

theorem afterLastDot_alias (a nm : Bytes) (h : (46 : UInt8) ∉ nm) : afterLastDot (a ++ 46 :: nm) = nm := by
  unfold afterLastDot
  exact afterLastDot_go_append a _ nm h

/-! ### from the routes of the tree to the two spec predicates -/

/-- what a declared method with a clean path looks like from the tree side -/
theorem clean_decl (m : Method) (hm : CleanM m) :
    ((segsOf m.path).map (sl :: ·)).flatten = m.path ∧ (segsOf m.path).map (sl :: ·) ≠ [] ∧
      depth m.path = ((segsOf m.path).map (sl :: ·)).length := by
  obtain ⟨t, hpt, hseg, _, _⟩ := cleanPath_segs m.path hm.1
  refine ⟨?_, ?_, ?_⟩
  · rw [hpt]; exact segs_spell_path t
  · have := segsOf_ne_nil m.path (by rw [hpt]; simp)
    simpa using this
  · rw [List.length_map, hseg, hpt]
    simp [depth, splitSlash]

theorem handlerOK_name (i : Info) (h : HandlerOK i) :
    afterLastDot i.handler = i.handler.drop (i.handlerAlias.length + 1) := by
  rcases h with h | ⟨nm, h, hd⟩
  · rw [h]; rfl
  · rw [h, afterLastDot_alias _ _ hd]
    have : i.handlerAlias ++ 46 :: nm = (i.handlerAlias ++ [46]) ++ nm := by simp
    rw [this, List.drop_left' (by simp)]

/-- from "the rendered routes are the tree's routes" and "the tree's routes are the declared ones" to the
two parts of the property -/
theorem spec_of_keys (ms : List Method) (hm : ∀ m ∈ ms, CleanM m) (rs : List Route)
    (T : List (List Bytes × Info)) (hk : rs.map keyD = T.map keyT)
    (hp : (T.map routeKey).Perm (ms.map declKey)) (hh : ∀ r ∈ T, HandlerOK r.2) :
    exactRoutes ms rs = true ∧ chainsWeak rs = true := by
  -- every route of the tree is a declared method
  have hdecl : ∀ r ∈ T, ∃ m ∈ ms, routeKey r = declKey m := by
    intro r hr
    have : routeKey r ∈ ms.map declKey := hp.mem_iff.1 (List.mem_map_of_mem hr)
    obtain ⟨m, hm', e⟩ := List.mem_map.1 this
    exact ⟨m, hm', e.symm⟩
  have hfull : ∀ r ∈ T, fullPath r.1 = r.1.flatten ∧ depth (fullPath r.1) = r.1.length := by
    intro r hr
    obtain ⟨m, hm', e⟩ := hdecl r hr
    obtain ⟨c1, c2, c3⟩ := clean_decl m (hm m hm')
    have e1 : r.1 = (segsOf m.path).map (sl :: ·) := by
      have := congrArg (fun x => x.2.1) e
      simpa [routeKey, declKey] using this
    rw [e1]
    simp only [fullPath, c2, if_false, c1, c3, and_self]
  constructor
  · let φ : Bytes × Bytes × Bytes × Nat → Bytes × Bytes × Bytes := fun x => (x.1, x.2.1, afterLastDot x.2.2.1)
    let f : Bytes × List Bytes × Bytes → Bytes × Bytes × Bytes := fun x => (x.1, x.2.1.flatten, x.2.2)
    have e1 : rs.map HzSpec.routeKey = (rs.map keyD).map φ := by
      rw [List.map_map]; rfl
    have e2 : (T.map keyT).map φ = (T.map routeKey).map f := by
      rw [List.map_map, List.map_map]
      apply List.map_congr_left
      intro r hr
      simp only [Function.comp, φ, f, keyT, routeKey]
      rw [(hfull r hr).1, handlerOK_name _ (hh r hr)]
    have e3 : (ms.map declKey).map f = ms.map declaredKey := by
      rw [List.map_map]
      apply List.map_congr_left
      intro m hm'
      simp only [Function.comp, f, declKey, declaredKey]
      rw [(clean_decl m (hm m hm')).1]
    unfold exactRoutes
    rw [List.isPerm_iff, e1, hk, e2, ← e3]
    exact hp.map f
  · unfold chainsWeak
    rw [List.all_eq_true]
    intro r hr
    have : keyD r ∈ T.map keyT := by rw [← hk]; exact List.mem_map_of_mem hr
    obtain ⟨t, ht, e⟩ := List.mem_map.1 this
    have ep : r.path = fullPath t.1 := by
      have := congrArg (fun x => x.2.1) e
      simpa [keyD, keyT] using this.symm
    have ec : r.chain.length = t.1.length + 1 := by
      have := congrArg (fun x => x.2.2.2) e
      simpa [keyD, keyT] using this.symm
    rw [ep, (hfull t ht).2, ec]
    simp

/-- what the statements of the root need of its fields (kept by `DyeGroupName` and the snake pass) -/
def RootInfo (i : Info) : Prop := i.path = [sl] ∧ i.handler = [] ∧ i.middleWare = rootName

def gvRoot (gm : Bytes) : GroupVal := { base := [sl], chain := [gm ++ mwSuffix] }

/-- interpretation of the statements of a named tree below a root like the one of `NewRouterTree` -/
theorem interp_root (i0 : Info) (h0 : RootInfo i0) (cs : List Node) (hsc : ScL rootName cs)
    (hnot : rootName ∉ groupVarsL cs) :
    interp (stmts (.mk i0 cs)) scope0 = some (routesDL (gvRoot i0.groupMw) cs,
      (if cs.isEmpty then [] else [([sl], i0.groupMw ++ mwSuffix)]) ++ groupsDL (gvRoot i0.groupMw) cs) := by
  obtain ⟨hp, hh, hmw⟩ := h0
  cases he : cs.isEmpty with
  | true =>
    have : cs = [] := by simpa using he
    subst this
    simp [stmts, stmtsL, hh, interp, routesDL, groupsDL]
  | false =>
    have e : stmts (.mk i0 cs) =
        Stmt.group rootName [114] [sl] (i0.groupMw ++ mwSuffix) :: (stmtsL cs ++ []) := by
      simp [stmts, hp, hh, hmw, he]
    have hl : lookupVar ([([114], ({ base := [sl], chain := [] } : GroupVal))] :: []) [114]
        = some { base := [sl], chain := [] } := by
      simp [lookupVar]
    rw [e]
    unfold scope0
    rw [interp_group _ _ _ _ _ _ _ _ hl]
    have hj : joinPath [sl] [sl] = [sl] := by decide
    simp only [hj, List.nil_append]
    obtain ⟨D, _, hrest⟩ := interp_nodes cs rootName (gvRoot i0.groupMw)
      [(rootName, gvRoot i0.groupMw), ([114], { base := [sl], chain := [] })] [] hsc hnot (lookupVar_head _ _ _ _)
    have := hrest []
    simp only [gvRoot] at this
    rw [this]
    simp [interp, gvRoot]

/-! ## Part 5: sort-router — sibling group nodes have distinct paths -/

/-- two siblings that `FindNearest` (sort-router) may both descend into are not called the same -/
def RS (a b : Info) : Prop := a.httpMethod = [] → b.httpMethod = [] → a.path ≠ b.path

mutual
/-- sort-router invariant of the tree under construction: only nodes without HTTP method have children,
and among the children of a node those without HTTP method have pairwise distinct paths -/
def SI : Node → Prop
  | .mk _ cs => (∀ c ∈ cs, c.children.isEmpty = false → c.info.httpMethod = [])
      ∧ (cs.map Node.info).Pairwise RS ∧ SIL cs
def SIL : List Node → Prop
  | [] => True
  | c :: r => SI c ∧ SIL r
end

theorem siL_iff (l : List Node) : SIL l ↔ ∀ c ∈ l, SI c := by
  induction l with
  | nil => simp [SIL]
  | cons c r ih => simp [SIL, ih]

/-- along the address every node has no HTTP method; `Q` holds of the children of the node reached -/
def Along (Q : List Node → Prop) : Node → List Nat → Prop
  | .mk _ cs, [] => Q cs
  | .mk _ cs, k :: a => ∃ d, cs[k]? = some d ∧ d.info.httpMethod = [] ∧ Along Q d a

theorem Along_mono {Q Q' : List Node → Prop} (h : ∀ cs, Q cs → Q' cs) :
    ∀ (n : Node) (addr : List Nat), Along Q n addr → Along Q' n addr := by
  intro n addr
  induction addr generalizing n with
  | nil => obtain ⟨i, cs⟩ := n; exact h cs
  | cons k a ih =>
    obtain ⟨i, cs⟩ := n
    intro ha
    simp only [Along] at ha ⊢
    obtain ⟨d, h1, h2, h3⟩ := ha
    exact ⟨d, h1, h2, ih d h3⟩

theorem firstMatch_none (seg : Bytes) : ∀ (cs : List Node) (k0 : Nat), firstMatch true seg cs k0 = none →
    ∀ d ∈ cs, d.info.httpMethod = [] → d.info.path ≠ sl :: seg := by
  intro cs
  induction cs with
  | nil => intro _ _ d hd; simp at hd
  | cons c r ih =>
    intro k0 h d hd hm
    unfold firstMatch at h
    split at h
    · simp at h
    · rename_i hc
      simp only [List.mem_cons] at hd
      rcases hd with rfl | hd
      · intro hp
        apply hc
        simp [hp, hm]
      · exact ih _ h d hd hm

theorem firstMatch_sort_method (seg : Bytes) : ∀ (cs : List Node) (k0 k : Nat) (c : Node),
    firstMatch true seg cs k0 = some (k, c) → c.info.httpMethod = [] := by
  intro cs
  induction cs with
  | nil => intro k0 k c h; simp [firstMatch] at h
  | cons d r ih =>
    intro k0 k c h
    unfold firstMatch at h
    split at h
    · rename_i hc
      simp only [Option.some.injEq, Prod.mk.injEq] at h
      obtain ⟨_, rfl⟩ := h
      simp only [Bool.and_eq_true, decide_eq_true_eq] at hc
      simpa using hc.2
    · exact ih _ _ _ h

theorem findNearest_along : ∀ (paths : List Bytes) (n : Node) (addr : List Nat) (last : Nat),
    findNearest true n paths = .ok (addr, last) →
    Along (fun cs => last + 1 < paths.length → ∀ d ∈ cs, d.info.httpMethod = [] →
            d.info.path ≠ sl :: (paths.drop last).headD []) n addr := by
  intro paths
  induction paths with
  | nil => intro n addr last h; cases n; simp [findNearest] at h
  | cons p rest ih =>
    intro n addr last h
    obtain ⟨i, cs⟩ := n
    unfold findNearest at h
    split at h
    · rename_i hm
      simp only [Except.ok.injEq, Prod.mk.injEq] at h
      obtain ⟨rfl, rfl⟩ := h
      simp only [Along]
      intro _
      simpa using firstMatch_none p cs 0 hm
    · rename_i k c hm
      obtain ⟨_, hk, _⟩ := firstMatch_spec true p cs 0 k c hm
      have hmeth := firstMatch_sort_method p cs 0 k c hm
      split at h
      · simp only [Except.ok.injEq, Prod.mk.injEq] at h
        obtain ⟨rfl, rfl⟩ := h
        simp [Along]
      · rename_i q rest'
        split at h
        · rename_i a n' hrec
          simp only [Except.ok.injEq, Prod.mk.injEq] at h
          obtain ⟨rfl, rfl⟩ := h
          have := ih c a n' hrec
          simp only [Nat.sub_zero] at hk
          simp only [Along]
          refine ⟨c, hk, hmeth, ?_⟩
          simpa using this
        · simp at h

theorem insertAt_info (srt : List Node → List Node) (c : Node) (addr : List Nat) (n : Node) :
    (insertAt srt c addr n).info = n.info := by
  cases addr <;> obtain ⟨i, cs⟩ := n <;> simp [insertAt, Node.info]


theorem modNth_map_info (f : Node → Node) (hf : ∀ d, (f d).info = d.info) (cs : List Node) (k : Nat) :
    (modNth f cs k).map Node.info = cs.map Node.info := by
  induction cs generalizing k with
  | nil => rfl
  | cons c r ih =>
    cases k with
    | zero => simp [modNth, hf]
    | succ k => simp [modNth, ih]

theorem RS_symm {a b : Info} (h : RS a b) : RS b a := fun hb ha e => h ha hb e.symm

/-- what the head `c` of the new chain must satisfy with respect to its future siblings `cs` -/
def HeadOK (c : Node) (cs : List Node) : Prop :=
  c.info.httpMethod = [] → ∀ d ∈ cs, d.info.httpMethod = [] → d.info.path ≠ c.info.path

theorem insertAt_si (srt : List Node → List Node) (hs : ∀ l, (srt l).Perm l) (c : Node) (hc : SI c)
    (hcc : c.children.isEmpty = false → c.info.httpMethod = []) :
    ∀ (addr : List Nat) (n : Node), SI n → Along (HeadOK c) n addr → SI (insertAt srt c addr n) := by
  intro addr
  induction addr with
  | nil =>
    intro n hn ha
    obtain ⟨i, cs⟩ := n
    simp only [SI] at hn
    simp only [Along, HeadOK] at ha
    simp only [insertAt, SI]
    refine ⟨?_, ?_, ?_⟩
    · intro x hx
      have := (hs _).mem_iff.1 hx
      simp only [List.mem_append, List.mem_singleton] at this
      rcases this with h' | rfl
      · exact hn.1 x h'
      · exact hcc
    · have hp : ((srt (cs ++ [c])).map Node.info).Perm ((cs ++ [c]).map Node.info) := (hs _).map _
      rw [hp.pairwise_iff (fun h => RS_symm h)]
      rw [List.map_append, List.pairwise_append]
      refine ⟨hn.2.1, by simp, ?_⟩
      intro a ha' b hb
      simp only [List.map_cons, List.map_nil, List.mem_singleton] at hb
      subst hb
      obtain ⟨d, hd, rfl⟩ := List.mem_map.1 ha'
      intro h1 h2
      exact ha h2 d hd h1
    · rw [siL_iff]
      intro x hx
      have := (hs _).mem_iff.1 hx
      simp only [List.mem_append, List.mem_singleton] at this
      rcases this with h' | rfl
      · exact (siL_iff cs).1 hn.2.2 x h'
      · exact hc
  | cons k a ih =>
    intro n hn ha
    obtain ⟨i, cs⟩ := n
    simp only [SI] at hn
    simp only [Along] at ha
    obtain ⟨d, hk, hdm, hda⟩ := ha
    simp only [insertAt, SI]
    obtain ⟨l1, l2, e1, e2⟩ := modNth_flatMap (β := Nat) (insertAt srt c a) (fun _ => []) cs k d hk
    have hdmem : d ∈ cs := by rw [e1]; simp
    refine ⟨?_, ?_, ?_⟩
    · intro x hx
      rw [e2] at hx
      simp only [List.mem_append, List.mem_cons] at hx
      rcases hx with hx | rfl | hx
      · exact hn.1 x (by rw [e1]; simp [hx])
      · intro _; rw [insertAt_info]; exact hdm
      · exact hn.1 x (by rw [e1]; simp [hx])
    · rw [modNth_map_info _ (insertAt_info srt c a)]
      exact hn.2.1
    · rw [siL_iff, e2]
      intro x hx
      simp only [List.mem_append, List.mem_cons] at hx
      rcases hx with hx | rfl | hx
      · exact (siL_iff cs).1 hn.2.2 x (by rw [e1]; simp [hx])
      · exact ih d ((siL_iff cs).1 hn.2.2 d hdmem) hda
      · exact (siL_iff cs).1 hn.2.2 x (by rw [e1]; simp [hx])

/-- the chain `Insert` builds: inner nodes have no HTTP method and one child -/
theorem chain_si (li : Info) :
    ∀ (rest : List Bytes) (c : Node), chain (fun _ => li) rest = some c →
      SI c ∧ (c.children.isEmpty = false → c.info.httpMethod = []) ∧
      (rest.length < 2 → c.info = li) ∧ c.info.path = (if rest.length < 2 then li.path else sl :: rest.headD []) := by
  intro rest
  induction rest with
  | nil => intro c h; simp [chain] at h
  | cons p r ih =>
    intro c h
    cases r with
    | nil =>
      simp only [chain, Option.some.injEq] at h
      subst h
      simp [SI, SIL, Node.children, Node.info]
    | cons q r' =>
      unfold chain at h
      split at h
      · rename_i c' hc'
        simp only [Option.some.injEq] at h
        subst h
        obtain ⟨h1, h2, _, _⟩ := ih c' hc'
        simp only [SI, SIL, Node.children, Node.info, List.mem_singleton, forall_eq, and_true,
          List.map_cons, List.map_nil, List.pairwise_cons, List.not_mem_nil, false_imp_iff, implies_true,
          List.Pairwise.nil, true_and]
        refine ⟨⟨h2, h1⟩, ?_, ?_⟩
        · intro h; simp only [List.length_cons] at h; omega
        · have : ¬ (p :: q :: r').length < 2 := by simp only [List.length_cons]; omega
          simp only [this, if_false, List.headD_cons]
      · simp at h

theorem getHttpMethod_ne_nil (v : Bytes) (h : v ≠ []) : getHttpMethod v ≠ [] := by
  unfold getHttpMethod
  split
  · simp
  · simpa using h

theorem updateWith_si (srt : List Node → List Node) (hs : ∀ l, (srt l).Perm l) (cfg : Cfg) (hsr : cfg.sortRouter = true)
    (root root' : Node) (st st' : PkgSt) (m : Method) (hv : m.verb ≠ [])
    (h : updateWith srt cfg root st m = .ok (root', st')) (hsi : SI root) : SI root' := by
  unfold updateWith at h
  split at h
  · simp at h
  · change (match findNearest cfg.sortRouter root (segsOf m.path) with
      | .error e => (Except.error e : Except Err (Node × PkgSt))
      | .ok (addr, last) =>
        if last = (segsOf m.path).length then Except.error Err.registered
        else
          match chain (fun _ => (leafInfo cfg m (((segsOf m.path).drop last).getLast?.getD []) st).1)
              ((segsOf m.path).drop last) with
          | none => Except.ok (root, st)
          | some c => Except.ok (insertAt srt c addr root,
              (leafInfo cfg m (((segsOf m.path).drop last).getLast?.getD []) st).2)) = _ at h
    rw [hsr] at h
    split at h
    · simp at h
    · rename_i addr last hf
      have hal := findNearest_along _ root addr last hf
      obtain ⟨hl, _⟩ := findNearest_spec true _ root addr last hf
      split at h
      · simp at h
      · split at h
        · simp only [Except.ok.injEq, Prod.mk.injEq] at h
          obtain ⟨rfl, _⟩ := h
          exact hsi
        · rename_i c hc
          simp only [Except.ok.injEq, Prod.mk.injEq] at h
          obtain ⟨rfl, _⟩ := h
          obtain ⟨c1, c2, c3, c4⟩ := chain_si _ _ c hc
          refine insertAt_si srt hs c c1 c2 addr root hsi (Along_mono ?_ root addr hal)
          intro cs hq hcm d hd hdm
          by_cases hlen : ((segsOf m.path).drop last).length < 2
          · exfalso
            rw [c3 hlen] at hcm
            exact getHttpMethod_ne_nil m.verb hv (by simpa [leafInfo] using hcm)
          · rw [c4, if_neg hlen]
            refine hq ?_ d hd hdm
            simp only [List.length_drop] at hlen
            omega

theorem buildWith_si (srt : List Node → List Node) (hs : ∀ l, (srt l).Perm l) (cfg : Cfg) (hsr : cfg.sortRouter = true) :
    ∀ (ms : List Method) (root root' : Node) (st st' : PkgSt), (∀ m ∈ ms, m.verb ≠ []) →
      buildWith srt cfg root st ms = .ok (root', st') → SI root → SI root' := by
  intro ms
  induction ms with
  | nil =>
    intro root root' st st' _ h hf
    simp only [buildWith, Except.ok.injEq, Prod.mk.injEq] at h
    obtain ⟨rfl, _⟩ := h
    exact hf
  | cons m ms ih =>
    intro root root' st st' hm h hf
    unfold buildWith at h
    split at h
    · simp at h
    · rename_i r1 s1 hu
      have h1 := updateWith_si srt hs cfg hsr root r1 st s1 m (hm m (by simp)) hu hf
      exact ih r1 root' s1 st' (fun m' hm' => hm m' (by simp [hm'])) h h1

/-! ### the invariant on the named tree: sibling group nodes have distinct paths -/

/-- what of a node matters for grouping: its path and whether it has children -/
def skel (n : Node) : Bytes × Bool := (n.info.path, n.children.isEmpty)

def RU (a b : Bytes × Bool) : Prop := a.2 = false → b.2 = false → a.1 ≠ b.1

mutual
def UQ : Node → Prop
  | .mk _ cs => (cs.map skel).Pairwise RU ∧ UQL cs
def UQL : List Node → Prop
  | [] => True
  | c :: r => UQ c ∧ UQL r
end

mutual
theorem uq_of_si : (n : Node) → SI n → UQ n
  | .mk i cs => by
    intro h
    simp only [SI] at h
    simp only [UQ]
    refine ⟨?_, uqL_of_siL cs h.2.2⟩
    have hp := h.2.1
    rw [List.pairwise_map] at hp ⊢
    refine hp.imp_of_mem ?_
    intro a b ha hb hr h1 h2
    exact hr (h.1 a ha h1) (h.1 b hb h2)
theorem uqL_of_siL : (l : List Node) → SIL l → UQL l
  | [] => by intro _; simp [UQL]
  | c :: r => by
    intro h
    simp only [SIL] at h
    simp only [UQL]
    exact ⟨uq_of_si c h.1, uqL_of_siL r h.2⟩
end

mutual
theorem dye_uq : (n : Node) → ∀ (snake : Bool) (layer : Nat) (pp : Option Bytes) (st : DyeSt) (n' : Node) (st' : DyeSt),
    dye snake layer pp n st = .ok (n', st') → skel n' = skel n ∧ (UQ n → UQ n')
  | .mk i cs => by
    intro snake layer pp st n' st' h
    unfold dye at h
    split at h
    · simp at h
    · rename_i i' st1 hh
      split at h
      · simp at h
      · rename_i cs' st2 hl
        simp only [Except.ok.injEq, Prod.mk.injEq] at h
        obtain ⟨rfl, rfl⟩ := h
        obtain ⟨k1, _, _, _⟩ := dyeHook_keeps _ _ _ _ _ _ _ _ hh
        obtain ⟨e1, e2⟩ := dyeL_uq cs _ _ _ st1 cs' st2 hl
        refine ⟨?_, ?_⟩
        · simp only [skel, Node.info, Node.children, k1, dyeL_isEmpty' _ _ _ _ _ _ _ hl]
        · intro hu
          simp only [UQ] at hu ⊢
          rw [e1]
          exact ⟨hu.1, e2 hu.2⟩
theorem dyeL_uq : (l : List Node) → ∀ (snake : Bool) (layer : Nat) (pp : Option Bytes) (st : DyeSt) (l' : List Node) (st' : DyeSt),
    dyeL snake layer pp l st = .ok (l', st') → l'.map skel = l.map skel ∧ (UQL l → UQL l')
  | [] => by
    intro snake layer pp st l' st' h
    simp only [dyeL, Except.ok.injEq, Prod.mk.injEq] at h
    obtain ⟨rfl, _⟩ := h
    exact ⟨rfl, id⟩
  | c :: r => by
    intro snake layer pp st l' st' h
    unfold dyeL at h
    split at h
    · simp at h
    · rename_i c' st1 hc
      split at h
      · simp at h
      · rename_i r' st2 hr
        simp only [Except.ok.injEq, Prod.mk.injEq] at h
        obtain ⟨rfl, rfl⟩ := h
        obtain ⟨a1, a2⟩ := dye_uq c _ _ _ st c' st1 hc
        obtain ⟨b1, b2⟩ := dyeL_uq r _ _ _ st1 r' st2 hr
        refine ⟨by simp [a1, b1], ?_⟩
        intro hu
        simp only [UQL] at hu ⊢
        exact ⟨a2 hu.1, b2 hu.2⟩
end

/-! ### a group path that is a proper prefix of a route path is a prefix of its node path list -/

theorem seg_prefix : ∀ (s s' u v : Bytes), sl ∉ s → sl ∉ s' → (v = [] ∨ ∃ v', v = sl :: v') →
    (s ++ sl :: u) <+: (s' ++ v) → s = s' ∧ (sl :: u) <+: v := by
  intro s
  induction s with
  | nil =>
    intro s' u v _ hs' _ h
    cases s' with
    | nil => exact ⟨rfl, by simpa using h⟩
    | cons c t =>
      simp only [List.nil_append, List.cons_append, List.cons_prefix_cons] at h
      exact absurd (by simp [h.1]) hs'
  | cons a s1 ih =>
    intro s' u v hs hs' hv h
    simp only [List.mem_cons, not_or] at hs
    cases s' with
    | nil =>
      rcases hv with rfl | ⟨v', rfl⟩
      · simp at h
      · simp only [List.nil_append, List.cons_append, List.cons_prefix_cons] at h
        exact absurd h.1.symm hs.1
    | cons c t =>
      simp only [List.cons_append, List.cons_prefix_cons] at h
      simp only [List.mem_cons, not_or] at hs'
      obtain ⟨e1, e2⟩ := ih t u v hs.2 hs'.2 hv h.2
      exact ⟨by rw [h.1, e1], e2⟩

theorem flatten_head (R : List Bytes) (h : ∀ x ∈ R, SegOK true x) : R.flatten = [] ∨ ∃ v', R.flatten = sl :: v' := by
  cases R with
  | nil => left; rfl
  | cons y R' =>
    obtain ⟨s, rfl, _, _⟩ := h y (by simp)
    right
    exact ⟨s ++ R'.flatten, by simp⟩

theorem flatten_prefix : ∀ (G R : List Bytes), (∀ x ∈ G, SegOK true x) → (∀ x ∈ R, SegOK true x) →
    (G.flatten ++ [sl]) <+: R.flatten → ∃ ext, ext ≠ [] ∧ R = G ++ ext := by
  intro G
  induction G with
  | nil =>
    intro R _ _ h
    refine ⟨R, ?_, rfl⟩
    rintro rfl
    simp at h
  | cons x G' ih =>
    intro R hG hR h
    obtain ⟨s, rfl, hs, _⟩ := hG x (by simp)
    cases R with
    | nil => simp at h
    | cons y R' =>
      obtain ⟨s', rfl, hs', _⟩ := hR y (by simp)
      have hG' : ∀ x ∈ G', SegOK true x := fun x hx => hG x (by simp [hx])
      have hR' : ∀ x ∈ R', SegOK true x := fun x hx => hR x (by simp [hx])
      obtain ⟨u, hu⟩ : ∃ u, G'.flatten ++ [sl] = sl :: u := by
        rcases flatten_head G' hG' with e | ⟨v', e⟩
        · exact ⟨[], by rw [e]; rfl⟩
        · exact ⟨v' ++ [sl], by rw [e]; rfl⟩
      simp only [List.flatten_cons, List.cons_append, List.append_assoc, List.cons_prefix_cons, true_and] at h
      rw [hu] at h
      obtain ⟨e1, e2⟩ := seg_prefix s s' u R'.flatten hs hs' (flatten_head R' hR') h
      rw [← hu] at e2
      obtain ⟨ext, hne, rfl⟩ := ih R' hG' hR' e2
      exact ⟨ext, hne, by rw [e1]; rfl⟩

theorem SegOK.toTrue {e : Bool} {p : Bytes} (h : SegOK e p) : SegOK true p := by
  obtain ⟨s, h1, h2, _⟩ := h
  exact ⟨s, h1, h2, fun h => by simp at h⟩

theorem fullPath_ne (pre : List Bytes) (h : pre ≠ []) : fullPath pre = pre.flatten := by
  simp [fullPath, h]

/-! ### where the routes and groups of the rendered statements lie -/

mutual
theorem routesD_facts : (n : Node) → ∀ (gv : GroupVal) (pre0 : List Bytes), ShN n → OKpre pre0 →
    gv.base = fullPath pre0 → ∀ r ∈ routesD gv n,
    ∃ ext, r.path = (pre0 ++ n.info.path :: ext).flatten ∧ (∀ x ∈ ext, SegOK true x) ∧
      (n.children.isEmpty = true → ext = []) ∧ ∀ x ∈ gv.chain, x ∈ r.chain
  | .mk i cs => by
    intro gv pre0 hn hpre hb r hr
    simp only [ShN] at hn
    obtain ⟨hseg, _, hcs⟩ := hn
    have hj : joinPath gv.base i.path = fullPath (pre0 ++ [i.path]) := by
      rw [hb]; exact joinPath_full pre0 i.path _ hpre hseg
    simp only [routesD, List.mem_append] at hr
    rcases hr with hr | hr
    · cases hh : i.handler.isEmpty with
      | true => simp [hh] at hr
      | false =>
        simp only [hh, Bool.false_eq_true, if_false, List.mem_singleton] at hr
        subst hr
        refine ⟨[], ?_, by simp, fun _ => rfl, ?_⟩
        · simp only [ownRoute, hj, Node.info]
          exact fullPath_ne _ (by simp)
        · intro x hx; simp [ownRoute, hx]
    · cases cs with
      | nil => simp [routesDL] at hr
      | cons c0 r0 =>
        have hseg' : SegOK false i.path := hseg
        have hpre' : OKpre (pre0 ++ [i.path]) := by
          intro x hx
          simp only [List.mem_append, List.mem_singleton] at hx
          rcases hx with hx | rfl
          · exact hpre x hx
          · exact hseg'
        obtain ⟨c, hc, ext, h1, h2, _, h4⟩ := routesDL_facts (c0 :: r0) (ownGroup gv i) (pre0 ++ [i.path]) hcs hpre'
          (by simp [ownGroup, hj]) r hr
        refine ⟨c.info.path :: ext, ?_, ?_, by simp [Node.children], ?_⟩
        · rw [h1]; simp [Node.info]
        · intro x hx
          simp only [List.mem_cons] at hx
          rcases hx with rfl | hx
          · have := (shL_iff _).1 hcs c hc
            obtain ⟨ci, ccs⟩ := c
            simp only [ShN] at this
            exact this.1.toTrue
          · exact h2 x hx
        · intro x hx
          exact h4 x (by simp [ownGroup, hx])
theorem routesDL_facts : (l : List Node) → ∀ (gv : GroupVal) (pre : List Bytes), ShL l → OKpre pre →
    gv.base = fullPath pre → ∀ r ∈ routesDL gv l,
    ∃ c ∈ l, ∃ ext, r.path = (pre ++ c.info.path :: ext).flatten ∧ (∀ x ∈ ext, SegOK true x) ∧
      (c.children.isEmpty = true → ext = []) ∧ ∀ x ∈ gv.chain, x ∈ r.chain
  | [] => by
    intro gv pre _ _ _ r hr
    simp [routesDL] at hr
  | c :: rs => by
    intro gv pre hl hpre hb r hr
    simp only [ShL] at hl
    simp only [routesDL, List.mem_append] at hr
    rcases hr with hr | hr
    · obtain ⟨ext, h⟩ := routesD_facts c gv pre hl.1 hpre hb r hr
      exact ⟨c, by simp, ext, h⟩
    · obtain ⟨c', hc', ext, h⟩ := routesDL_facts rs gv pre hl.2 hpre hb r hr
      exact ⟨c', by simp [hc'], ext, h⟩
end

mutual
theorem groupsD_facts : (n : Node) → ∀ (gv : GroupVal) (pre0 : List Bytes), ShN n → OKpre pre0 →
    gv.base = fullPath pre0 → ∀ g ∈ groupsD gv n,
    ∃ ext, g.1 = (pre0 ++ n.info.path :: ext).flatten ∧ (∀ x ∈ ext, SegOK true x) ∧
      n.children.isEmpty = false
  | .mk i cs => by
    intro gv pre0 hn hpre hb g hg
    simp only [ShN] at hn
    obtain ⟨hseg, _, hcs⟩ := hn
    have hj : joinPath gv.base i.path = fullPath (pre0 ++ [i.path]) := by
      rw [hb]; exact joinPath_full pre0 i.path _ hpre hseg
    cases cs with
    | nil => simp [groupsD, groupsDL] at hg
    | cons c0 r0 =>
      simp only [groupsD, List.isEmpty_cons, Bool.false_eq_true, if_false, List.singleton_append,
        List.mem_cons] at hg
      rcases hg with rfl | hg
      · refine ⟨[], ?_, by simp, rfl⟩
        simp only [ownGroup, hj, Node.info]
        exact fullPath_ne _ (by simp)
      · have hseg' : SegOK false i.path := hseg
        have hpre' : OKpre (pre0 ++ [i.path]) := by
          intro x hx
          simp only [List.mem_append, List.mem_singleton] at hx
          rcases hx with hx | rfl
          · exact hpre x hx
          · exact hseg'
        obtain ⟨c, hc, ext, h1, h2, _⟩ := groupsDL_facts (c0 :: r0) (ownGroup gv i) (pre0 ++ [i.path]) hcs hpre'
          (by simp [ownGroup, hj]) g hg
        refine ⟨c.info.path :: ext, ?_, ?_, rfl⟩
        · rw [h1]; simp [Node.info]
        · intro x hx
          simp only [List.mem_cons] at hx
          rcases hx with rfl | hx
          · have := (shL_iff _).1 hcs c hc
            obtain ⟨ci, ccs⟩ := c
            simp only [ShN] at this
            exact this.1.toTrue
          · exact h2 x hx
theorem groupsDL_facts : (l : List Node) → ∀ (gv : GroupVal) (pre : List Bytes), ShL l → OKpre pre →
    gv.base = fullPath pre → ∀ g ∈ groupsDL gv l,
    ∃ c ∈ l, ∃ ext, g.1 = (pre ++ c.info.path :: ext).flatten ∧ (∀ x ∈ ext, SegOK true x) ∧
      c.children.isEmpty = false
  | [] => by
    intro gv pre _ _ _ g hg
    simp [groupsDL] at hg
  | c :: rs => by
    intro gv pre hl hpre hb g hg
    simp only [ShL] at hl
    simp only [groupsDL, List.mem_append] at hg
    rcases hg with hg | hg
    · obtain ⟨ext, h⟩ := groupsD_facts c gv pre hl.1 hpre hb g hg
      exact ⟨c, by simp, ext, h⟩
    · obtain ⟨c', hc', ext, h⟩ := groupsDL_facts rs gv pre hl.2 hpre hb g hg
      exact ⟨c', by simp [hc'], ext, h⟩
end

theorem length_le_flatten (L : List Bytes) (x : Bytes) (h : x ∈ L) : x.length ≤ L.flatten.length := by
  induction L with
  | nil => simp at h
  | cons y L ih =>
    simp only [List.mem_cons] at h
    simp only [List.flatten_cons, List.length_append]
    rcases h with rfl | h
    · omega
    · have := ih h; omega

/-- `properPrefix` between a group path and a route path, both spelled by node path lists -/
theorem pp_lists (G R : List Bytes) (hG : ∀ x ∈ G, SegOK true x) (hR : ∀ x ∈ R, SegOK true x)
    (x : Bytes) (hx : x ∈ G) (hx' : SegOK false x) (h : properPrefix G.flatten R.flatten = true) :
    ∃ ext, ext ≠ [] ∧ R = G ++ ext := by
  unfold properPrefix at h
  simp only [Bool.or_eq_true, decide_eq_true_eq, List.isPrefixOf_iff_prefix] at h
  rcases h with h | h
  · exfalso
    obtain ⟨s, rfl, _, hs⟩ := hx'
    have := length_le_flatten G _ hx
    rw [h] at this
    cases s with
    | nil => exact hs rfl rfl
    | cons c t => simp at this
  · exact flatten_prefix G R hG hR h

/-- a route below one child and a group below another child with the same path: impossible when sibling
group nodes have distinct paths -/
theorem cross (pre : List Bytes) (hpre : OKpre pre) (c1 c2 : Node) (hru : RU (skel c1) (skel c2))
    (h1 : ShN c1) (h2 : ShN c2) (ext1 ext2 : List Bytes)
    (he1 : ∀ x ∈ ext1, SegOK true x) (he2 : ∀ x ∈ ext2, SegOK true x)
    (hleaf : c1.children.isEmpty = true → ext1 = []) (hgrp : c2.children.isEmpty = false)
    (hpp : properPrefix (pre ++ c2.info.path :: ext2).flatten (pre ++ c1.info.path :: ext1).flatten = true) :
    False := by
  have s1 : SegOK c1.children.isEmpty c1.info.path := by
    obtain ⟨i, cs⟩ := c1; simp only [ShN] at h1; exact h1.1
  have s2 : SegOK false c2.info.path := by
    obtain ⟨i, cs⟩ := c2; simp only [ShN] at h2; simp only [Node.children] at hgrp
    rw [← hgrp]; exact h2.1
  have hG : ∀ x ∈ pre ++ c2.info.path :: ext2, SegOK true x := by
    intro x hx
    simp only [List.mem_append, List.mem_cons] at hx
    rcases hx with hx | rfl | hx
    · exact (hpre x hx).toTrue
    · exact s2.toTrue
    · exact he2 x hx
  have hR : ∀ x ∈ pre ++ c1.info.path :: ext1, SegOK true x := by
    intro x hx
    simp only [List.mem_append, List.mem_cons] at hx
    rcases hx with hx | rfl | hx
    · exact (hpre x hx).toTrue
    · exact s1.toTrue
    · exact he1 x hx
  obtain ⟨ext, hne, e⟩ := pp_lists _ _ hG hR c2.info.path (by simp) s2 hpp
  rw [List.append_assoc, List.append_cancel_left_eq, List.cons_append, List.cons.injEq] at e
  obtain ⟨ep, ee⟩ := e
  have hc1 : c1.children.isEmpty = false := by
    cases hc : c1.children.isEmpty with
    | false => rfl
    | true =>
      have := hleaf hc
      rw [this] at ee
      have := congrArg List.length ee
      simp only [List.length_nil, List.length_append] at this
      exact absurd (List.eq_nil_of_length_eq_zero (by omega)) hne
  exact hru hc1 hgrp ep

mutual
theorem strongN : (n : Node) → ∀ (gv : GroupVal) (pre0 : List Bytes), ShN n → UQ n → OKpre pre0 →
    gv.base = fullPath pre0 → ∀ r ∈ routesD gv n, ∀ g ∈ groupsD gv n,
    properPrefix g.1 r.path = true → g.2 ∈ r.chain
  | .mk i cs => by
    intro gv pre0 hn hu hpre hb r hr g hg hpp
    have hn' := hn
    simp only [ShN] at hn
    obtain ⟨hseg, _, hcs⟩ := hn
    simp only [UQ] at hu
    have hj : joinPath gv.base i.path = fullPath (pre0 ++ [i.path]) := by
      rw [hb]; exact joinPath_full pre0 i.path _ hpre hseg
    cases cs with
    | nil => simp [groupsD, groupsDL] at hg
    | cons c0 r0 =>
      have hseg' : SegOK false i.path := hseg
      have hpre' : OKpre (pre0 ++ [i.path]) := by
        intro x hx
        simp only [List.mem_append, List.mem_singleton] at hx
        rcases hx with hx | rfl
        · exact hpre x hx
        · exact hseg'
      have hbase : (ownGroup gv i).base = fullPath (pre0 ++ [i.path]) := by simp [ownGroup, hj]
      have hpreT : ∀ x ∈ pre0 ++ [i.path], SegOK true x := fun x hx => (hpre' x hx).toTrue
      simp only [groupsD, List.isEmpty_cons, Bool.false_eq_true, if_false, List.singleton_append,
        List.mem_cons] at hg
      simp only [routesD, List.mem_append] at hr
      rcases hr with hr | hr
      · -- the node's own route: no group of the subtree is a proper prefix of it
        exfalso
        cases hh : i.handler.isEmpty with
        | true => simp [hh] at hr
        | false =>
          simp only [hh, Bool.false_eq_true, if_false, List.mem_singleton] at hr
          subst hr
          have hrp : (ownRoute gv i).path = (pre0 ++ [i.path]).flatten := by
            simp only [ownRoute, hj]; exact fullPath_ne _ (by simp)
          rcases hg with rfl | hg
          · have hgp : (ownGroup gv i).base = (pre0 ++ [i.path]).flatten := by
              rw [hbase]; exact fullPath_ne _ (by simp)
            simp only [hgp, hrp] at hpp
            obtain ⟨ext, hne, e⟩ := pp_lists _ _ hpreT hpreT i.path (by simp) hseg' hpp
            have := congrArg List.length e
            simp only [List.length_append] at this
            exact hne (List.eq_nil_of_length_eq_zero (by omega))
          · obtain ⟨c, hc, ext, h1, h2, _⟩ := groupsDL_facts (c0 :: r0) (ownGroup gv i) (pre0 ++ [i.path]) hcs hpre' hbase g hg
            rw [h1, hrp] at hpp
            have hG : ∀ x ∈ pre0 ++ [i.path] ++ c.info.path :: ext, SegOK true x := by
              intro x hx
              simp only [List.mem_append, List.mem_cons] at hx
              rcases hx with hx | rfl | hx
              · exact hpreT x (by simpa using hx)
              · have := (shL_iff _).1 hcs _ hc
                obtain ⟨ci, ccs⟩ := c
                simp only [ShN] at this
                exact this.1.toTrue
              · exact h2 x hx
            obtain ⟨ext', _, e⟩ := pp_lists _ _ hG hpreT i.path (by simp) hseg' hpp
            have := congrArg List.length e
            simp only [List.length_append, List.length_cons] at this
            omega
      · rcases hg with rfl | hg
        · -- the node's own group wraps every route below
          obtain ⟨_, _, _, _, _, _, h4⟩ := routesDL_facts (c0 :: r0) (ownGroup gv i) (pre0 ++ [i.path]) hcs hpre' hbase r hr
          exact h4 _ (by simp [ownGroup])
        · exact strongL (c0 :: r0) (ownGroup gv i) (pre0 ++ [i.path]) hcs hu.2 hu.1 hpre' hbase r hr g hg hpp
theorem strongL : (l : List Node) → ∀ (gv : GroupVal) (pre : List Bytes), ShL l → UQL l →
    (l.map skel).Pairwise RU → OKpre pre → gv.base = fullPath pre →
    ∀ r ∈ routesDL gv l, ∀ g ∈ groupsDL gv l, properPrefix g.1 r.path = true → g.2 ∈ r.chain
  | [] => by
    intro gv pre _ _ _ _ _ r hr
    simp [routesDL] at hr
  | c :: rs => by
    intro gv pre hl hu hpw hpre hb r hr g hg hpp
    simp only [ShL] at hl
    simp only [UQL] at hu
    simp only [List.map_cons, List.pairwise_cons] at hpw
    simp only [routesDL, List.mem_append] at hr
    simp only [groupsDL, List.mem_append] at hg
    rcases hr with hr | hr <;> rcases hg with hg | hg
    · exact strongN c gv pre hl.1 hu.1 hpre hb r hr g hg hpp
    · exfalso
      obtain ⟨e1, p1, q1, l1, _⟩ := routesD_facts c gv pre hl.1 hpre hb r hr
      obtain ⟨c2, hc2, e2, p2, q2, g2⟩ := groupsDL_facts rs gv pre hl.2 hpre hb g hg
      rw [p1, p2] at hpp
      exact cross pre hpre c c2 (hpw.1 _ (List.mem_map_of_mem hc2)) hl.1 ((shL_iff _).1 hl.2 _ hc2)
        e1 e2 q1 q2 l1 g2 hpp
    · exfalso
      obtain ⟨c1, hc1, e1, p1, q1, l1, _⟩ := routesDL_facts rs gv pre hl.2 hpre hb r hr
      obtain ⟨e2, p2, q2, g2⟩ := groupsD_facts c gv pre hl.1 hpre hb g hg
      rw [p1, p2] at hpp
      have hru : RU (skel c1) (skel c) := fun a b e => hpw.1 _ (List.mem_map_of_mem hc1) b a e.symm
      exact cross pre hpre c1 c hru ((shL_iff _).1 hl.2 _ hc1) hl.1 e1 e2 q1 q2 l1 g2 hpp
    · exact strongL rs gv pre hl.2 hu.2 hpw.2 hpre hb r hr g hg hpp
end

/-! ## Part 6: the variables of `Register` are distinct in snake style too; the snake pass keeps the tree -/

theorem dyeNames_var (snake : Bool) (pp : Option Bytes) (i : Info) (hc : Bool) (used used' : List Bytes)
    (p mw hmw gmw : Bytes) (h : dyeNames snake pp i hc used = .ok ((p, mw, hmw, gmw), used')) :
    ∃ A, used' = A ++ used ∧ A.Nodup ∧ (∀ a ∈ A, a ∉ used) ∧ Good wrapVar [mw] A := by
  cases snake
  all_goals (
    unfold dyeNames at h
    simp only [Bool.false_eq_true, if_false, if_true] at h
    split at h
    · simp at h
    · rename_i pn hn' used1 hnames
      simp only [Except.ok.injEq, Prod.mk.injEq] at h
      obtain ⟨⟨_, rfl, _, _⟩, rfl⟩ := h
      by_cases hleaf : (!i.handler.isEmpty && !hc) = true
      · simp only [hleaf, if_true] at hnames
        split at hnames
        · rename_i n u hu
          simp only [Except.ok.injEq, Prod.mk.injEq] at hnames
          obtain ⟨rfl, _, rfl⟩ := hnames
          obtain ⟨h1, rfl⟩ := getUniqueName_spec _ _ _ _ hu
          exact ⟨[n], rfl, by simp, by simpa using h1, by simp [Good, wrapVar]⟩
        · simp at hnames
      · simp only [hleaf, Bool.false_eq_true, if_false] at hnames
        split at hnames
        · simp at hnames
        · rename_i n u hu
          split at hnames
          · simp at hnames
          · rename_i hh u' hu'
            simp only [Except.ok.injEq, Prod.mk.injEq] at hnames
            obtain ⟨rfl, _, rfl⟩ := hnames
            obtain ⟨h1, rfl⟩ := getUniqueName_spec _ _ _ _ hu
            obtain ⟨h2, rfl⟩ := getUniqueName_spec _ _ _ _ hu'
            simp only [List.mem_cons, not_or] at h2
            refine ⟨[hh, n], rfl, by simp [h2.1], ?_, by simp [Good, wrapVar]⟩
            intro a ha
            simp only [List.mem_cons, List.not_mem_nil, or_false] at ha
            rcases ha with rfl | rfl
            · exact h2.2
            · exact h1
  )

theorem dyeHook_var (snake : Bool) (layer : Nat) (pp : Option Bytes) (i i' : Info) (hc : Bool) (st st' : DyeSt)
    (h : dyeHook snake layer pp i hc st = .ok (i', st')) (hf : i.middleWare = []) :
    ∃ A, st'.used = A ++ st.used ∧ A.Nodup ∧ (∀ a ∈ A, a ∉ st.used) ∧ Good wrapVar [i'.middleWare] A := by
  unfold dyeHook at h
  split at h
  · simp at h
  · simp only [hf, List.isEmpty_nil, if_true] at h
    split at h
    · simp at h
    · rename_i nm used1 hn
      simp only [Except.ok.injEq, Prod.mk.injEq] at h
      obtain ⟨rfl, rfl⟩ := h
      obtain ⟨p, mw, hmw, gmw⟩ := nm
      exact dyeNames_var snake pp i hc st.used used1 p mw hmw gmw hn

mutual
theorem dye_var : (n : Node) → ∀ (snake : Bool) (layer : Nat) (pp : Option Bytes) (st : DyeSt) (n' : Node) (st' : DyeSt),
    dye snake layer pp n st = .ok (n', st') → FreshN n →
    ∃ A, st'.used = A ++ st.used ∧ A.Nodup ∧ (∀ a ∈ A, a ∉ st.used) ∧ Good wrapVar (groupVars n') A
  | .mk i cs => by
    intro snake layer pp st n' st' h hf
    unfold dye at h
    split at h
    · simp at h
    · rename_i i' st1 hh
      split at h
      · simp at h
      · rename_i cs' st2 hl
        simp only [Except.ok.injEq, Prod.mk.injEq] at h
        obtain ⟨rfl, rfl⟩ := h
        simp only [FreshN] at hf
        obtain ⟨A1, hu1, hn1, hd1, gv1⟩ := dyeHook_var _ _ _ _ _ _ _ _ hh hf.1
        obtain ⟨A2, hu2, hn2, hd2, gv2⟩ := dyeL_var cs _ _ _ st1 cs' st2 hl hf.2
        have hemp := dyeL_isEmpty' _ _ _ _ _ _ _ hl
        have e2 : groupVars (.mk i' cs') = (if cs.isEmpty then [] else [i'.middleWare]) ++ groupVarsL cs' := by
          rw [groupVars, hemp]
        rw [e2]
        obtain ⟨A, a1, a2, a3, _, a5⟩ := combine hu1 hn1 hd1 hu2 hn2 hd2 (Good.nil wrapMw A1) (Good.ite _ gv1)
          (Good.nil wrapMw A2) gv2
        exact ⟨A, a1, a2, a3, a5⟩
theorem dyeL_var : (l : List Node) → ∀ (snake : Bool) (layer : Nat) (pp : Option Bytes) (st : DyeSt) (l' : List Node) (st' : DyeSt),
    dyeL snake layer pp l st = .ok (l', st') → FreshL l →
    ∃ A, st'.used = A ++ st.used ∧ A.Nodup ∧ (∀ a ∈ A, a ∉ st.used) ∧ Good wrapVar (groupVarsL l') A
  | [] => by
    intro snake layer pp st l' st' h _
    simp only [dyeL, Except.ok.injEq, Prod.mk.injEq] at h
    obtain ⟨rfl, rfl⟩ := h
    exact ⟨[], by simp, by simp, by simp, by simpa [groupVarsL] using Good.nil _ _⟩
  | c :: r => by
    intro snake layer pp st l' st' h hf
    unfold dyeL at h
    split at h
    · simp at h
    · rename_i c' st1 hc
      split at h
      · simp at h
      · rename_i r' st2 hr
        simp only [Except.ok.injEq, Prod.mk.injEq] at h
        obtain ⟨rfl, rfl⟩ := h
        simp only [FreshL] at hf
        obtain ⟨A1, hu1, hn1, hd1, gv1⟩ := dye_var c _ _ _ st c' st1 hc hf.1
        obtain ⟨A2, hu2, hn2, hd2, gv2⟩ := dyeL_var r _ _ _ st1 r' st2 hr hf.2
        simp only [groupVarsL]
        obtain ⟨A, a1, a2, a3, _, a5⟩ := combine hu1 hn1 hd1 hu2 hn2 hd2 (Good.nil wrapMw A1) gv1
          (Good.nil wrapMw A2) gv2
        exact ⟨A, a1, a2, a3, a5⟩
end

/-- the group variables below the root are pairwise distinct and none is called `root`, in both styles -/
theorem dyeL_vars_root (snake : Bool) (layer : Nat) (pp : Option Bytes) (cs cs' : List Node) (st st' : DyeSt)
    (h : dyeL snake layer pp cs st = .ok (cs', st')) (hf : FreshL cs) :
    (groupVarsL cs').Nodup ∧ rootName ∉ groupVarsL cs' := by
  obtain ⟨A, _, _, _, gv⟩ := dyeL_var cs _ _ _ st cs' st' h hf
  refine ⟨gv.1, fun hm => ?_⟩
  obtain ⟨a, _, ea⟩ := gv.2 _ hm
  simp [wrapVar, rootName, us] at ea

mutual
theorem snakePass_pres : (n : Node) → ∀ (mws : List Bytes) (n' : Node) (mws' : List Bytes),
    snakePass n mws = .ok (n', mws') →
    skel n' = skel n ∧ groupVars n' = groupVars n ∧ (∀ pm, ScN pm n → ScN pm n') ∧ (ShN n → ShN n') ∧ (UQ n → UQ n')
  | .mk i cs => by
    intro mws n' mws' h
    unfold snakePass at h
    split at h
    · simp only [Except.ok.injEq, Prod.mk.injEq] at h
      obtain ⟨rfl, _⟩ := h
      exact ⟨rfl, rfl, fun _ => id, id, id⟩
    · split at h
      · simp at h
      · split at h
        · simp at h
        · rename_i cs' mws3 hl
          simp only [Except.ok.injEq, Prod.mk.injEq] at h
          obtain ⟨rfl, _⟩ := h
          obtain ⟨e1, e2, e3, e4, e5⟩ := snakePassL_pres cs _ cs' mws3 hl
          have hemp : cs'.isEmpty = cs.isEmpty := by
            have := congrArg List.isEmpty e1
            simpa using this
          refine ⟨?_, ?_, ?_, ?_, ?_⟩
          · simp only [skel, Node.info, Node.children, hemp]
          · rw [groupVars_mk, groupVars_mk, hemp, e2]
          · intro pm hsc
            simp only [ScN] at hsc ⊢
            rw [hemp, e2]
            exact ⟨hsc.1, hsc.2.1, hsc.2.2.1, e3 _ hsc.2.2.2⟩
          · intro hsh
            simp only [ShN] at hsh ⊢
            rw [hemp]
            exact ⟨hsh.1, hsh.2.1, e4 hsh.2.2⟩
          · intro hu
            simp only [UQ] at hu ⊢
            rw [e1]
            exact ⟨hu.1, e5 hu.2⟩
theorem snakePassL_pres : (l : List Node) → ∀ (mws : List Bytes) (l' : List Node) (mws' : List Bytes),
    snakePassL l mws = .ok (l', mws') →
    l'.map skel = l.map skel ∧ groupVarsL l' = groupVarsL l ∧ (∀ pm, ScL pm l → ScL pm l') ∧ (ShL l → ShL l') ∧
      (UQL l → UQL l')
  | [] => by
    intro mws l' mws' h
    simp only [snakePassL, Except.ok.injEq, Prod.mk.injEq] at h
    obtain ⟨rfl, _⟩ := h
    exact ⟨rfl, rfl, fun _ => id, id, id⟩
  | c :: r => by
    intro mws l' mws' h
    unfold snakePassL at h
    split at h
    · simp at h
    · rename_i c' m1 hc
      split at h
      · simp at h
      · rename_i r' m2 hr
        simp only [Except.ok.injEq, Prod.mk.injEq] at h
        obtain ⟨rfl, _⟩ := h
        obtain ⟨a1, a2, a3, a4, a5⟩ := snakePass_pres c _ c' m1 hc
        obtain ⟨b1, b2, b3, b4, b5⟩ := snakePassL_pres r _ r' m2 hr
        refine ⟨by simp [a1, b1], by simp [groupVarsL, a2, b2], ?_, ?_, ?_⟩
        · intro pm hs; simp only [ScL] at hs ⊢; exact ⟨a3 _ hs.1, b3 _ hs.2⟩
        · intro hs; simp only [ShL] at hs ⊢; exact ⟨a4 hs.1, b4 hs.2⟩
        · intro hs; simp only [UQL] at hs ⊢; exact ⟨a5 hs.1, b5 hs.2⟩
end

theorem snakePass_info (n : Node) (mws : List Bytes) (n' : Node) (mws' : List Bytes)
    (h : snakePass n mws = .ok (n', mws')) :
    n'.info.path = n.info.path ∧ n'.info.handler = n.info.handler ∧ n'.info.middleWare = n.info.middleWare
      ∧ n'.info.groupName = n.info.groupName := by
  obtain ⟨i, cs⟩ := n
  unfold snakePass at h
  split at h
  · simp only [Except.ok.injEq, Prod.mk.injEq] at h
    obtain ⟨rfl, _⟩ := h
    exact ⟨rfl, rfl, rfl, rfl⟩
  · split at h
    · simp at h
    · split at h
      · simp at h
      · simp only [Except.ok.injEq, Prod.mk.injEq] at h
        obtain ⟨rfl, _⟩ := h
        exact ⟨rfl, rfl, rfl, rfl⟩

/-! ### assembly -/

theorem snakePass_root (i : Info) (cs : List Node) (mws : List Bytes) (n' : Node) (mws' : List Bytes)
    (h : snakePass (.mk i cs) mws = .ok (n', mws')) :
    ∃ i' cs' m1 m2, n' = .mk i' cs' ∧ i'.path = i.path ∧ i'.handler = i.handler ∧ i'.middleWare = i.middleWare ∧
      snakePassL cs m1 = .ok (cs', m2) := by
  unfold snakePass at h
  split at h
  · rename_i he
    simp only [Except.ok.injEq, Prod.mk.injEq] at h
    obtain ⟨rfl, _⟩ := h
    have : cs = [] := by simpa using he
    subst this
    exact ⟨i, [], [], [], rfl, rfl, rfl, rfl, rfl⟩
  · split at h
    · simp at h
    · split at h
      · simp at h
      · rename_i cs' mws3 hl
        simp only [Except.ok.injEq, Prod.mk.injEq] at h
        obtain ⟨rfl, _⟩ := h
        exact ⟨_, cs', _, mws3, rfl, rfl, rfl, rfl, hl⟩

/-- the tree a generation over clean paths renders, in both naming styles -/
theorem generate_tree (cfg : Cfg) (ms : List Method) (hm : ∀ m ∈ ms, CleanM m)
    (used : List Bytes) (ex : Option (List Bytes)) (o : Output) (h : generate cfg ms used ex = .ok o) :
    ∃ i0 cs', RootInfo i0 ∧ o.tree = .mk i0 cs' ∧ o.stmts = stmts o.tree ∧ ScL rootName cs' ∧
      rootName ∉ groupVarsL cs' ∧ (groupVarsL cs').Nodup ∧ ShL cs' ∧
      (cfg.sortRouter = true → (∀ m ∈ ms, m.verb ≠ []) → (cs'.map skel).Pairwise RU ∧ UQL cs') := by
  unfold generate at h
  split at h
  · simp at h
  · rename_i t st hb
    obtain ⟨hfresh, hinfo⟩ := buildWith_fresh _ (updSort_perm cfg.sortRouter) cfg ms newRouterTree t {} st hb
      (by simp [newRouterTree, Node.children, FreshL])
    have hshape := buildWith_shape _ (updSort_perm cfg.sortRouter) cfg ms newRouterTree t {} st hm hb
      (by simp [newRouterTree, Node.children, ShL])
    have hsi : cfg.sortRouter = true → (∀ m ∈ ms, m.verb ≠ []) → SI t := fun hsr hv =>
      buildWith_si _ (updSort_perm cfg.sortRouter) cfg hsr ms newRouterTree t {} st hv hb
        (by simp [newRouterTree, SI, SIL])
    split at h
    · simp at h
    · rename_i t1 u1 hd
      obtain ⟨ti, tcs⟩ := t
      simp only [Node.info, Node.children] at hfresh hinfo hshape
      subst hinfo
      obtain ⟨cs1, st2, rfl, hl⟩ := dyeGroupName_root cfg.snake tcs used u1 t1 hd
      have hgn : GNL rootName cs1 := (dyeL_gn tcs _ _ _ _ cs1 st2 rootName hl (by rfl)).1
      have hsh1 : ShL cs1 := dyeL_shape tcs _ _ _ _ cs1 st2 hl hshape
      obtain ⟨hnd, hnot⟩ := dyeL_vars_root _ _ _ tcs cs1 _ st2 hl hfresh
      have hsc1 : ScL rootName cs1 := scL_of cs1 rootName hgn hsh1 hnd
      have huq1 : cfg.sortRouter = true → (∀ m ∈ ms, m.verb ≠ []) → (cs1.map skel).Pairwise RU ∧ UQL cs1 := by
        intro hsr hv
        have huq := uq_of_si _ (hsi hsr hv)
        simp only [UQ] at huq
        obtain ⟨e1, e2⟩ := dyeL_uq tcs _ _ _ _ cs1 st2 hl
        rw [e1]
        exact ⟨huq.1, e2 huq.2⟩
      have hr0 : RootInfo newRouterTree.info := ⟨rfl, rfl, rfl⟩
      cases hsn : cfg.snake with
      | false =>
        simp only [hsn, Bool.false_eq_true, if_false, Except.ok.injEq] at h
        subst h
        exact ⟨_, cs1, hr0, rfl, rfl, hsc1, hnot, hnd, hsh1, huq1⟩
      | true =>
        simp only [hsn, if_true] at h
        cases hsp : snakePass (.mk newRouterTree.info cs1) [] with
        | error e => simp [hsp] at h
        | ok r =>
          obtain ⟨t2, m'⟩ := r
          simp only [hsp, Except.ok.injEq] at h
          subst h
          obtain ⟨i2, cs2, m1, m2, rfl, p1, p2, p3, hl2⟩ := snakePass_root _ _ _ _ _ hsp
          obtain ⟨e1, e2, e3, e4, e5⟩ := snakePassL_pres cs1 m1 cs2 m2 hl2
          refine ⟨i2, cs2, ⟨p1, p2, p3⟩, rfl, rfl, e3 _ hsc1, by rw [e2]; exact hnot, by rw [e2]; exact hnd, e4 hsh1, ?_⟩
          intro hsr hv
          obtain ⟨q1, q2⟩ := huq1 hsr hv
          rw [e1]
          exact ⟨q1, e5 q2⟩

/-- **the denotation theorem**: both naming styles, every option; with sort-router and non-empty verbs
also `chainsStrong` -/
theorem generate_denotes_strong (cfg : Cfg) (ms : List Method) (hm : ∀ m ∈ ms, CleanM m)
    (used : List Bytes) (ex : Option (List Bytes)) (o : Output) (h : generate cfg ms used ex = .ok o) :
    ∃ rs gs, interp o.stmts scope0 = some (rs, gs) ∧ exactRoutes ms rs = true ∧ chainsWeak rs = true ∧
      (cfg.sortRouter = true → (∀ m ∈ ms, m.verb ≠ []) → chainsStrong rs gs = true) := by
  have hroutes := generate_routes cfg ms used ex o h
  obtain ⟨i0, cs', h0, htree, hstm, hsc, hnot, _, hsh', huq⟩ := generate_tree cfg ms hm used ex o h
  rw [htree] at hroutes hstm
  rw [hstm]
  refine ⟨_, _, interp_root i0 h0 cs' hsc hnot, ?_⟩
  have hk : (routesDL (gvRoot i0.groupMw) cs').map keyD = (routes (.mk i0 cs')).map keyT := by
    rw [routesDL_eq cs' (gvRoot i0.groupMw) [] hsh' (by intro x hx; simp at hx) (by simp [gvRoot, fullPath]) (by simp [gvRoot])]
    simp [routes, routesN, h0.2.1]
  have hspec := spec_of_keys ms hm _ _ hk hroutes (by
    intro r hr
    simp only [routes, routesN, h0.2.1, List.isEmpty_nil, if_true, List.nil_append] at hr
    exact routesL_handlerOK cs' [] hsh' r hr)
  refine ⟨hspec.1, hspec.2, ?_⟩
  intro hsr hv
  obtain ⟨hpw, huql⟩ := huq hsr hv
  have hpre : OKpre [] := by intro x hx; simp at hx
  have hbase : (gvRoot i0.groupMw).base = fullPath [] := by simp [gvRoot, fullPath]
  unfold chainsStrong
  rw [List.all_eq_true]
  intro r hr
  rw [List.all_eq_true]
  intro g hg
  simp only [Bool.or_eq_true, Bool.not_eq_true', List.contains_iff_mem]
  cases hpp : properPrefix g.1 r.path with
  | false => left; rfl
  | true =>
    right
    simp only [List.mem_append] at hg
    rcases hg with hg | hg
    · cases he : cs'.isEmpty with
      | true => simp [he] at hg
      | false =>
        simp only [he, Bool.false_eq_true, if_false, List.mem_singleton] at hg
        subst hg
        obtain ⟨_, _, _, _, _, _, h4⟩ := routesDL_facts cs' (gvRoot i0.groupMw) [] hsh' hpre hbase r hr
        exact h4 _ (by simp [gvRoot])
    · exact strongL cs' (gvRoot i0.groupMw) [] hsh' huql hpw hpre hbase r hr g hg hpp

/-- the denotation theorem without the sort-router part -/
theorem generate_denotes (cfg : Cfg) (ms : List Method) (hm : ∀ m ∈ ms, CleanM m)
    (used : List Bytes) (ex : Option (List Bytes)) (o : Output) (h : generate cfg ms used ex = .ok o) :
    ∃ rs gs, interp o.stmts scope0 = some (rs, gs) ∧ exactRoutes ms rs = true ∧ chainsWeak rs = true := by
  obtain ⟨rs, gs, h1, h2, h3, _⟩ := generate_denotes_strong cfg ms hm used ex o h
  exact ⟨rs, gs, h1, h2, h3⟩

/-- the variables `Register` declares are pairwise distinct, in both naming styles, fresh or update -/
theorem generate_vars_nodup (cfg : Cfg) (ms : List Method) (hm : ∀ m ∈ ms, CleanM m)
    (used : List Bytes) (ex : Option (List Bytes)) (o : Output) (h : generate cfg ms used ex = .ok o) :
    (HzSpec.declaredVars o.stmts).Nodup := by
  obtain ⟨i0, cs', h0, htree, hstm, _, hnot, hnd, _, _⟩ := generate_tree cfg ms hm used ex o h
  rw [hstm, htree, declaredVars_stmts, groupVars_mk, h0.2.2]
  cases cs'.isEmpty
  · simp only [Bool.false_eq_true, if_false, List.singleton_append, List.nodup_cons]
    exact ⟨hnot, hnd⟩
  · simpa using hnd

/-! ## Part 7: the update flow (existing middleware.go), camel style -/

theorem isPrefixOf_self (x : Bytes) : x.isPrefixOf x = true := by
  rw [List.isPrefixOf_iff_prefix]; exact List.prefix_refl x

/-- the append loop never appends a name that is already declared -/
theorem updateMwFile_nodup : ∀ (l fs : List Bytes), fs.Nodup → (updateMwFile false fs l).Nodup := by
  intro l
  induction l with
  | nil => intro fs h; simpa [updateMwFile] using h
  | cons mw r ih =>
    intro fs h
    simp only [updateMwFile, Bool.false_eq_true, if_false]
    split
    · exact ih fs h
    · rename_i hnd
      apply ih
      rw [List.nodup_append]
      refine ⟨h, by simp, ?_⟩
      intro a ha b hb e
      simp only [List.mem_singleton] at hb
      subst hb; subst e
      apply hnd
      simp only [mwDeclared, List.any_eq_true]
      exact ⟨_, ha, isPrefixOf_self _⟩

/-- the existing functions stay, in order, at the front -/
theorem updateMwFile_prefix (snake : Bool) : ∀ (l fs : List Bytes), fs <+: updateMwFile snake fs l := by
  intro l
  induction l with
  | nil => intro fs; simp [updateMwFile]
  | cons mw r ih =>
    intro fs
    simp only [updateMwFile]
    generalize (mw ++ if snake = true then [95, 109, 119] else mwSuffix) = pat
    split
    · exact ih fs
    · exact (List.prefix_append fs _).trans (ih _)

/-- `generate` on an existing middleware.go: same tree and statements as a fresh generation, functions
from the append loop -/
theorem generate_update (cfg : Cfg) (hs : cfg.snake = false) (ms : List Method) (used : List Bytes) (fs : List Bytes) (o : Output)
    (h : generate cfg ms used (some fs) = .ok o) :
    ∃ o', generate cfg ms used none = .ok o' ∧ o'.tree = o.tree ∧ o'.stmts = o.stmts ∧
      o.funcs = updateMwFile cfg.snake fs (mwList o.tree) := by
  unfold generate at h
  split at h
  · simp at h
  · rename_i t st hb
    split at h
    · simp at h
    · rename_i t1 u1 hd
      simp only [hs, Bool.false_eq_true, if_false, Except.ok.injEq] at h
      subst h
      refine ⟨{ tree := t1, stmts := stmts t1, funcs := mwFuncs t1,
                imports := if (handlerPkgs t1).isEmpty then [(cfg.svcAlias, cfg.svcPkg)] else importMap (handlerPkgs t1) },
        ?_, rfl, rfl, by simp only [hs]⟩
      unfold generate
      rw [hs] at hd
      simp only [hb, hd, hs, Bool.false_eq_true, if_false]

/-- camel style, router directory with a middleware.go whose function names are pairwise distinct: no
identifier is declared twice after the update -/
theorem generate_idents_update (cfg : Cfg) (hs : cfg.snake = false) (ms : List Method) (used : List Bytes)
    (fs : List Bytes) (hfs : fs.Nodup) (o : Output) (h : generate cfg ms used (some fs) = .ok o) :
    o.funcs.Nodup ∧ (HzSpec.declaredVars o.stmts).Nodup ∧ fs <+: o.funcs := by
  obtain ⟨o', h', _, e2, e3⟩ := generate_update cfg hs ms used fs o h
  have := generate_idents cfg hs ms used o' h'
  rw [e2] at this
  rw [e3, hs]
  exact ⟨updateMwFile_nodup _ fs hfs, this.2, updateMwFile_prefix _ _ fs⟩

/-! ## Part 8: the middleware functions `Register` calls are declared (fresh middleware.go) -/

/-- the middleware functions a statement list calls -/
def referencedMws : List Stmt → List Bytes
  | [] => []
  | .group _ _ _ mw :: r => mw :: referencedMws r
  | .route _ _ _ mw _ :: r => mw :: referencedMws r
  | .open_ :: r => referencedMws r
  | .close :: r => referencedMws r

theorem referencedMws_append (a b : List Stmt) : referencedMws (a ++ b) = referencedMws a ++ referencedMws b := by
  induction a with
  | nil => rfl
  | cons x r ih => cases x <;> simp [referencedMws, ih]

mutual
theorem referenced_stmts : (n : Node) → ∀ f ∈ referencedMws (stmts n), f ∈ mwFuncs n
  | .mk i cs => by
    intro f hf
    rw [stmts, referencedMws_append, referencedMws_append] at hf
    rw [mwFuncs]
    simp only [List.mem_append] at hf ⊢
    rcases hf with (hf | hf) | hf
    · left; right
      cases hh : i.handler.isEmpty <;> simp [hh, referencedMws] at hf ⊢
      exact hf
    · left; left
      cases hc : cs.isEmpty <;> simp [hc, referencedMws] at hf ⊢
      exact hf
    · right
      exact referenced_stmtsL cs f hf
theorem referenced_stmtsL : (l : List Node) → ∀ f ∈ referencedMws (stmtsL l), f ∈ mwFuncsL l
  | [] => by intro f hf; simp [stmtsL, referencedMws] at hf
  | .mk i cs :: r => by
    intro f hf
    rw [stmtsL, referencedMws_append] at hf
    rw [mwFuncsL]
    simp only [List.mem_append] at hf ⊢
    rcases hf with hf | hf
    · left
      apply referenced_stmts (.mk i cs) f
      cases hh : i.handler.isEmpty
      · simpa [hh] using hf
      · simp only [hh, if_true, referencedMws_append, List.mem_append] at hf
        rcases hf with (hf | hf) | hf
        · simp [referencedMws] at hf
        · exact hf
        · simp [referencedMws] at hf
    · right
      exact referenced_stmtsL r f hf
end

/-- fresh router directory, both naming styles: what is rendered -/
theorem generate_fresh (cfg : Cfg) (ms : List Method) (used : List Bytes) (o : Output)
    (h : generate cfg ms used none = .ok o) : o.funcs = mwFuncs o.tree ∧ o.stmts = stmts o.tree := by
  unfold generate at h
  split at h
  · simp at h
  · split at h
    · simp at h
    · rename_i t1 u1 hd
      cases hsn : cfg.snake with
      | false =>
        simp only [hsn, Bool.false_eq_true, if_false, Except.ok.injEq] at h
        subst h
        exact ⟨rfl, rfl⟩
      | true =>
        simp only [hsn, if_true] at h
        cases hsp : snakePass t1 [] with
        | error e => simp [hsp] at h
        | ok r =>
          obtain ⟨t2, m'⟩ := r
          simp only [hsp, Except.ok.injEq] at h
          subst h
          exact ⟨rfl, rfl⟩

theorem generate_referenced_declared (cfg : Cfg) (ms : List Method) (used : List Bytes) (o : Output)
    (h : generate cfg ms used none = .ok o) : ∀ f ∈ referencedMws o.stmts, f ∈ o.funcs := by
  obtain ⟨e1, e2⟩ := generate_fresh cfg ms used o h
  rw [e1, e2]
  exact referenced_stmts o.tree


end Hertz.Hz
