import Hertz.Model.Http1.RespRead
import Hertz.Proofs.Resp
import Hertz.Proofs.Dec
import Hertz.Proofs.PrefixStableResp
/-!
Lemmas for C11 `response_roundtrip`: the client's response reader model (`RespRead`) applied to the
bytes of the response writer model (`HW.RespHdr.bytes` ++ `Resp.frame … .wire`).

Stage A: the body readers on the writer's body encodings.
Stage B: the head reader on the writer's head.
Stage C: both.
-/
namespace Hertz.H1.RT
open Hertz Hertz.H1 Hertz.H1.Resp Hertz.H1.RespRead Hertz.Gen.Str

/-! ## Stage A — bodies -/

/-! ### hex chunk sizes read by `ReadHexInt` -/

set_option maxRecDepth 100000 in
theorem tbl_hex2int :
    allBytes (fun c => match Spec.Resp.hexVal c with
      | some d => hex2int c != 16 && (hex2int c).toNat == d
      | none => true) = true := by
  decide +kernel

theorem hex2int_of_hexVal (c : UInt8) (d : Nat) (h : Spec.Resp.hexVal c = some d) :
    hex2int c ≠ 16 ∧ (hex2int c).toNat = d := by
  have := allBytes_spec tbl_hex2int c
  simp only [h] at this
  simpa using this

theorem maxHex : Gen.maxHexIntChars.toNat = 15 := rfl

theorem hex2int_cr : hex2int 13 = 16 := by decide +kernel

/-- digits `ds` (value `v` on top of accumulator `a`), then a CR: `ReadHexInt` stops at the CR. -/
theorem readHexIntAux_digits (e : End) : ∀ (ds : Bytes) (a i v : Nat) (r : Bytes),
    hexAcc a ds = some v → i + ds.length ≤ 15 → (0 < i ∨ ds ≠ []) →
    readHexIntAux e a i (ds ++ 13 :: r) = .ok (v, 13 :: r)
  | [], a, i, v, r, hv, _, hp => by
    have hi : i ≠ 0 := by
      rcases hp with h | h
      · omega
      · exact absurd rfl h
    simp only [hexAcc, Option.some.injEq] at hv
    simp [readHexIntAux, hex2int_cr, hi, hv]
  | c :: t, a, i, v, r, hv, hl, _ => by
    simp only [hexAcc] at hv
    cases hc : Spec.Resp.hexVal c with
    | none => simp [hc] at hv
    | some d =>
      simp only [hc] at hv
      obtain ⟨h16, hd⟩ := hex2int_of_hexVal c d hc
      have hlen : ¬ (i ≥ 15) := by simp only [List.length_cons] at hl; omega
      have ih := readHexIntAux_digits e t (a * 16 + d) (i + 1) v r hv
        (by simp only [List.length_cons] at hl; omega) (Or.inl (by omega))
      simp only [List.cons_append, readHexIntAux, h16, if_false, maxHex, hlen, hd]
      exact ih

theorem hexDigits_length : ∀ (fuel k n : Nat), 0 < k → n < 16 ^ k → (hexDigits fuel n).length ≤ k
  | 0, _, _, _, _ => by simp [hexDigits]
  | fuel + 1, k, n, hk, hn => by
    unfold hexDigits
    split
    · simp; omega
    · rename_i h16
      obtain ⟨k', rfl⟩ : ∃ k', k = k' + 1 := ⟨k - 1, by omega⟩
      have hk' : 0 < k' := by
        cases k' with
        | zero => simp at hn; omega
        | succ _ => omega
      have hq : n / 16 < 16 ^ k' := by
        rw [Nat.div_lt_iff_lt_mul (by decide)]
        rw [Nat.pow_succ] at hn; exact hn
      have := hexDigits_length fuel k' (n / 16) hk' hq
      simp only [List.length_append, List.length_cons, List.length_nil]
      omega

theorem hexAcc_writeHexInt (n : Nat) (h : n < 16 ^ 16) : hexAcc 0 (writeHexInt n) = some n := by
  unfold writeHexInt
  rw [hexAcc_hexDigits 16 n 0 h]; simp

/-- `ReadHexInt` reads back what `WriteHexInt` wrote, for every size below `16^15`
(`maxHexIntChars` = 15: a 16-digit size is refused by the reader). -/
theorem readHexInt_writeHexInt (e : End) (n : Nat) (h : n < 16 ^ 15) (r : Bytes) :
    readHexInt e (writeHexInt n ++ 13 :: r) = .ok (n, 13 :: r) := by
  unfold readHexInt
  have h16 : n < 16 ^ 16 := Nat.lt_of_lt_of_le h (by decide)
  apply readHexIntAux_digits e _ 0 0 n r (hexAcc_writeHexInt n h16)
  · have := hexDigits_length 16 15 n (by decide) h
    unfold writeHexInt; omega
  · right; exact hexDigits_ne_nil 16 n (by decide)

theorem parseChunkSize_writeHexInt (e : End) (n : Nat) (h : n < 16 ^ 15) (r : Bytes) :
    parseChunkSize e (writeHexInt n ++ 13 :: 10 :: r) = .ok (n, r) := by
  unfold parseChunkSize
  rw [readHexInt_writeHexInt e n h]
  simp [chunkSizeTail]

theorem takeBody_append (e : End) (b r : Bytes) : takeBody e b.length (b ++ r) = .ok (b, r) := by
  simp [takeBody, takeN]

theorem takeBody_append' (e : End) (n : Nat) (b r : Bytes) (h : b.length = n) : takeBody e n (b ++ r) = .ok (b, r) := by
  subst h; exact takeBody_append e b r

/-- The client's chunk reader returns exactly the payloads the chunk encoder was given and stops
right after the terminating `0\r\n`, provided no chunk is empty, every chunk size fits 15 hex digits
and the size limit (if any) is not exceeded. -/
theorem readBodyChunked_encode (e : End) (maxBody : Nat) : ∀ (cs : List Bytes) (X dst : Bytes) (fuel : Nat),
    (∀ c ∈ cs, c ≠ [] ∧ c.length < 16 ^ 15) → cs.length < fuel →
    (maxBody = 0 ∨ dst.length + cs.flatten.length ≤ maxBody) →
    readBodyChunked e maxBody fuel dst (encodeChunks cs ++ writeChunk [] ++ X) = .ok (dst ++ cs.flatten, X)
  | [], X, dst, fuel, _, hf, _ => by
    obtain ⟨f, rfl⟩ : ∃ f, fuel = f + 1 := ⟨fuel - 1, by omega⟩
    have e0 : encodeChunks [] ++ writeChunk [] ++ X = writeHexInt 0 ++ 13 :: 10 :: X := by
      have : writeHexInt 0 = [48] := by decide
      simp [encodeChunks, writeChunk_nil, this]
    rw [e0]
    simp only [readBodyChunked, parseChunkSize_writeHexInt e 0 (by decide), bind, Except.bind]
    simp
  | c :: cs, X, dst, fuel, hc, hf, hm => by
    obtain ⟨f, rfl⟩ : ∃ f, fuel = f + 1 := ⟨fuel - 1, by omega⟩
    obtain ⟨hne, hlen⟩ := hc c (by simp)
    have hm' : maxBody = 0 ∨ (dst ++ c).length + cs.flatten.length ≤ maxBody := by
      rcases hm with h | h
      · exact Or.inl h
      · right; simp only [List.flatten_cons, List.length_append] at h ⊢; omega
    have ih := readBodyChunked_encode e maxBody cs X (dst ++ c) f (fun x hx => hc x (by simp [hx]))
      (by simp at hf; omega) hm'
    have e1 : encodeChunks (c :: cs) ++ writeChunk [] ++ X =
        writeHexInt c.length ++ 13 :: 10 :: ((c ++ [13, 10]) ++ (encodeChunks cs ++ writeChunk [] ++ X)) := by
      simp [encodeChunks, writeChunk, hne, HW.strCRLF_eq, List.append_assoc]
    rw [e1]
    have hpos : c.length ≠ 0 := by simpa using hne
    have hlim : ¬ (maxBody > 0 ∧ dst.length + c.length > maxBody) := by
      rcases hm with h | h
      · omega
      · simp only [List.flatten_cons, List.length_append] at h; omega
    simp only [readBodyChunked, parseChunkSize_writeHexInt e c.length hlen, bind, Except.bind, hpos, if_false, hlim]
    rw [takeBody_append' e (c.length + 2) (c ++ [13, 10]) _ (by simp)]
    simp only [List.drop_left, List.take_left, HW.strCRLF_eq, ne_eq, not_true_eq_false, if_false]
    rw [ih]
    simp [List.append_assoc]


/-! ## Stage B — the head -/

theorem indexByte_append (c : UInt8) : ∀ (l r : Bytes), (∀ x ∈ l, x ≠ c) → indexByte c (l ++ c :: r) = some l.length
  | [], r, _ => by simp [indexByte]
  | x :: t, r, h => by
    have hx : x ≠ c := h x (by simp)
    have ih := indexByte_append c t r (fun y hy => h y (by simp [hy]))
    simp [indexByte, hx, ih]

/-- a header value that the scanner returns unchanged: no CR/LF, no blank (SP / HTAB, the optional
whitespace the reader trims) at either end -/
def cleanVal (v : Bytes) : Bool :=
  v.all (fun c => c != 10 && c != 13) && v.head?.all (fun c => !isOWS c) && v.getLast?.all (fun c => !isOWS c)

theorem cleanVal_mem {v : Bytes} (h : cleanVal v = true) : ∀ x ∈ v, x ≠ 10 ∧ x ≠ 13 := by
  intro x hx
  simp only [cleanVal, Bool.and_eq_true, List.all_eq_true] at h
  have := h.1.1 x hx
  simpa using this

theorem takeWhile_sp_clean {v : Bytes} (h : cleanVal v = true) (r : Bytes) :
    ((v ++ 13 :: r).takeWhile isOWS) = [] := by
  cases v with
  | nil => simp [isOWS]
  | cons a t =>
    simp only [cleanVal, Bool.and_eq_true] at h
    have : isOWS a = false := by simpa using h.1.2
    simp [this]

theorem trimValue_clean {v : Bytes} (h : cleanVal v = true) : trimValue (v ++ [13]) = v := by
  unfold trimValue
  simp only [List.getLast?_append, List.getLast?_singleton, List.dropLast_concat]
  cases hv : v.reverse with
  | nil =>
    have : v = [] := List.reverse_eq_nil_iff.mp hv
    subst this; simp
  | cons a t =>
    have hl : v.getLast? = some a := by
      rw [← List.head?_reverse, hv]; rfl
    simp only [cleanVal, Bool.and_eq_true] at h
    have : isOWS a = false := by
      have := h.2; rw [hl] at this; simpa using this
    simp only [Option.some_or, if_true, hv]
    rw [List.dropWhile_cons_of_neg (by simp [this]), ← hv, List.reverse_reverse]

theorem contExtra_zero (s : Bytes) (h : s.head? ≠ some 32 ∧ s.head? ≠ some 9) : contExtra s = 0 := by
  unfold contExtra
  cases s with
  | nil => simp [contAux]
  | cons c t =>
    have h1 : c ≠ 32 := by simpa using h.1
    have h2 : c ≠ 9 := by simpa using h.2
    simp [contAux, h1, h2]

/-- `HeaderScanner.Next` on one line `name ": " value CRLF` written by `appendHeaderLine`. -/
theorem scanNext_line (dn : Bool) (k v more : Bytes) (hk0 : k ≠ [])
    (hk : ∀ x ∈ k, x ≠ 13 ∧ x ≠ 10 ∧ x ≠ 58) (hv : cleanVal v = true)
    (hm : more.head? ≠ some 32 ∧ more.head? ≠ some 9) :
    scanNext dn (k ++ 58 :: 32 :: (v ++ 13 :: 10 :: more)) =
      .kv (normalizeKey dn k) v more (k.length + v.length + 4) := by
  obtain ⟨c, t, rfl⟩ : ∃ c t, k = c :: t := by
    cases k with
    | nil => exact absurd rfl hk0
    | cons c t => exact ⟨c, t, rfl⟩
  have hc := hk c (by simp)
  have hvm := cleanVal_mem hv
  have i10 : indexByte 10 ((c :: t) ++ 58 :: 32 :: (v ++ 13 :: 10 :: more)) = some ((c :: t).length + 2 + v.length + 1) := by
    have := indexByte_append 10 ((c :: t) ++ 58 :: 32 :: (v ++ [13])) more (by
      intro x hx
      simp only [List.mem_append, List.mem_cons, List.mem_nil_iff, or_false] at hx
      rcases hx with (hx | hx) | hx | hx | hx | hx
      · subst hx; exact hc.2.1
      · exact (hk x (by simp [hx])).2.1
      · subst hx; decide
      · subst hx; decide
      · exact (hvm x hx).1
      · subst hx; decide)
    simp only [List.append_assoc, List.cons_append, List.nil_append, List.length_append, List.length_cons, List.length_nil] at this ⊢
    rw [this]; congr 1; omega
  have i58 : indexByte 58 ((c :: t) ++ 58 :: 32 :: (v ++ 13 :: 10 :: more)) = some (c :: t).length :=
    indexByte_append 58 (c :: t) _ (fun x hx => (hk x hx).2.2)
  have i10b : indexByte 10 (v ++ 13 :: 10 :: more) = some (v.length + 1) := by
    have := indexByte_append 10 (v ++ [13]) more (by
      intro x hx
      simp only [List.mem_append, List.mem_cons, List.mem_nil_iff, or_false] at hx
      rcases hx with hx | hx
      · exact (hvm x hx).1
      · subst hx; decide)
    simpa [List.append_assoc] using this
  unfold scanNext
  split
  · rename_i heq; simp only [List.cons_append, List.cons.injEq] at heq; exact absurd heq.1 hc.1
  · rename_i heq; simp only [List.cons_append, List.cons.injEq] at heq; exact absurd heq.1 hc.2.1
  · rw [i10, i58]
    simp only
    have hlt : ¬ ((c :: t).length + 2 + v.length + 1 < (c :: t).length) := by omega
    simp only [hlt, if_false, List.take_left]
    have hd1 : List.drop ((c :: t).length + 1) (c :: t ++ 58 :: 32 :: (v ++ 13 :: 10 :: more)) = 32 :: (v ++ 13 :: 10 :: more) := by
      have : c :: t ++ 58 :: 32 :: (v ++ 13 :: 10 :: more) = (c :: t ++ [58]) ++ 32 :: (v ++ 13 :: 10 :: more) := by simp
      rw [this]
      have hl : (c :: t).length + 1 = (c :: t ++ [58]).length := by simp
      rw [hl, List.drop_left]
    have htw : (List.takeWhile isOWS (32 :: (v ++ 13 :: 10 :: more))).length = 1 := by
      rw [List.takeWhile_cons_of_pos (by decide), takeWhile_sp_clean hv]; rfl
    rw [hd1, htw]
    simp only [List.drop_succ_cons, List.drop_zero, i10b]
    have hd2 : List.drop (v.length + 1 + 1) (v ++ 13 :: 10 :: more) = more := by
      have : v ++ 13 :: 10 :: more = (v ++ [13, 10]) ++ more := by simp
      rw [this]
      have hl : v.length + 1 + 1 = (v ++ [13, 10]).length := by simp
      rw [hl, List.drop_left]
    rw [hd2, contExtra_zero more hm]
    have ht : List.take (v.length + 1 + 0) (v ++ 13 :: 10 :: more) = v ++ [13] := by
      have : v ++ 13 :: 10 :: more = (v ++ [13]) ++ 10 :: more := by simp
      rw [this]
      have hl : v.length + 1 + 0 = (v ++ [13]).length := by simp
      rw [hl, List.take_left]
    have hd3 : List.drop (v.length + 1 + 0 + 1) (v ++ 13 :: 10 :: more) = more := hd2
    rw [ht, hd3, trimValue_clean hv]
    simp only [Nat.lt_irrefl, gt_iff_lt, if_false, List.length_cons]
    congr 1; omega

set_option maxRecDepth 100000 in
theorem tbl_name_notab :
    allBytes (fun c => tget Gen.validHeaderFieldNameTable c == 0 || c != 9) = true := by
  decide +kernel

set_option maxRecDepth 100000 in
theorem tbl_newline_id :
    allBytes (fun c => c == 10 || c == 13 || tget Gen.newlineToSpaceTable c == c) = true := by
  decide +kernel

theorem newlineToSpace_clean_id {v : Bytes} (h : cleanVal v = true) : HW.newlineToSpace v = v := by
  have hm := cleanVal_mem h
  unfold HW.newlineToSpace
  have : ∀ x ∈ v, (fun c => tget Gen.newlineToSpaceTable c) x = id x := by
    intro x hx
    have := allBytes_spec tbl_newline_id x
    have h1 := hm x hx
    simpa [h1.1, h1.2] using this
  rw [List.map_congr_left this]; simp

/-- a field as the writer puts it on the wire and the scanner returns it unchanged: non-empty valid
name already in the form `normalizeKey` produces (or normalisation disabled), clean value -/
def wfField (dn : Bool) (kv : Bytes × Bytes) : Bool :=
  !kv.1.isEmpty && HW.validName kv.1 && (normalizeKey dn kv.1 == kv.1) && cleanVal kv.2

def wfFields (dn : Bool) (fs : List (Bytes × Bytes)) : Bool := fs.all (wfField dn)

theorem wfField_parts {dn : Bool} {kv : Bytes × Bytes} (h : wfField dn kv = true) :
    kv.1 ≠ [] ∧ HW.validName kv.1 = true ∧ normalizeKey dn kv.1 = kv.1 ∧ cleanVal kv.2 = true := by
  simp only [wfField, Bool.and_eq_true, beq_iff_eq] at h
  refine ⟨?_, h.1.1.2, h.1.2, h.2⟩
  intro e; simp [e] at h

theorem headerLine_wf {dn : Bool} {kv : Bytes × Bytes} (h : wfField dn kv = true) :
    HW.headerLine kv = kv.1 ++ 58 :: 32 :: (kv.2 ++ [13, 10]) := by
  obtain ⟨_, hv, _, hc⟩ := wfField_parts h
  simp [HW.headerLine, hv, newlineToSpace_clean_id hc, HW.strCRLF_eq, HW.strColonSpace_eq]

theorem validName_head {k : Bytes} (h : HW.validName k = true) (r : Bytes) (hne : k ≠ []) :
    (k ++ r).head? ≠ some 32 ∧ (k ++ r).head? ≠ some 9 := by
  cases k with
  | nil => exact absurd rfl hne
  | cons c t =>
    have hv : tget Gen.validHeaderFieldNameTable c ≠ 0 := by
      have := List.all_eq_true.mp h c (by simp)
      simpa using this
    have h1 := allBytes_spec HW.tbl_name_clean c
    have h2 := allBytes_spec tbl_name_notab c
    simp [hv] at h1 h2
    simp [h1.2, h2]

theorem block_head {dn : Bool} : ∀ (fs : List (Bytes × Bytes)) (rest : Bytes), wfFields dn fs = true →
    (HW.block fs ++ rest).head? ≠ some 32 ∧ (HW.block fs ++ rest).head? ≠ some 9
  | [], rest, _ => by simp [HW.block, HW.strCRLF_eq]
  | kv :: fs, rest, h => by
    simp only [wfFields, List.all_cons, Bool.and_eq_true] at h
    obtain ⟨hne, hv, _, _⟩ := wfField_parts h.1
    have : HW.block (kv :: fs) ++ rest = kv.1 ++ (58 :: 32 :: (kv.2 ++ [13, 10]) ++ (HW.block fs ++ rest)) := by
      simp [HW.block, headerLine_wf h.1, List.append_assoc]
    rw [this]
    exact validName_head hv _ hne

def applyAll (dn : Bool) (st : HState) (fs : List (Bytes × Bytes)) : HState :=
  fs.foldl (fun st kv => RespRead.applyHeader dn st kv.1 kv.2) st

/-- The header scanning loop of the response reader, run on a block written by `appendHeaderLine`,
sees exactly the fields written, in order, and consumes exactly the block. -/
theorem headersLoop_block (dn : Bool) : ∀ (fs : List (Bytes × Bytes)) (rest : Bytes) (st : HState) (hlen fuel : Nat),
    wfFields dn fs = true → fs.length < fuel →
    headersLoop dn fuel (HW.block fs ++ rest) st hlen = .ok (applyAll dn st fs, hlen + (HW.block fs).length)
  | [], rest, st, hlen, fuel, _, hf => by
    obtain ⟨f, rfl⟩ : ∃ f, fuel = f + 1 := ⟨fuel - 1, by omega⟩
    simp [HW.block, HW.strCRLF_eq, headersLoop, scanNext, applyAll]
  | kv :: fs, rest, st, hlen, fuel, h, hf => by
    obtain ⟨f, rfl⟩ : ∃ f, fuel = f + 1 := ⟨fuel - 1, by omega⟩
    have h' := h
    simp only [wfFields, List.all_cons, Bool.and_eq_true] at h'
    obtain ⟨hne, hv, hn, hc⟩ := wfField_parts h'.1
    have hk := HW.validName_clean kv.1 hv
    have e : HW.block (kv :: fs) ++ rest = kv.1 ++ 58 :: 32 :: (kv.2 ++ 13 :: 10 :: (HW.block fs ++ rest)) := by
      simp [HW.block, headerLine_wf h'.1, List.append_assoc]
    have el : (HW.block (kv :: fs)).length = (kv.1.length + kv.2.length + 4) + (HW.block fs).length := by
      simp [HW.block, headerLine_wf h'.1]; omega
    rw [e]
    simp only [headersLoop]
    rw [scanNext_line dn kv.1 kv.2 _ hne hk hc (block_head fs rest h'.2)]
    simp only [hn]
    rw [headersLoop_block dn fs rest _ _ f h'.2 (by simp at hf; omega), el]
    simp only [applyAll, List.foldl_cons, Nat.add_assoc]

/-! ### status line -/

theorem nextLine_crlf (l more : Bytes) (hl : ∀ x ∈ l, x ≠ 10) :
    nextLine (l ++ 13 :: 10 :: more) = some (l, more) := by
  unfold nextLine
  have hi : indexByte 10 (l ++ 13 :: 10 :: more) = some (l.length + 1) := by
    have := indexByte_append 10 (l ++ [13]) more (by
      intro x hx
      simp only [List.mem_append, List.mem_cons, List.mem_nil_iff, or_false] at hx
      rcases hx with hx | hx
      · exact hl x hx
      · subst hx; decide)
    simpa [List.append_assoc] using this
  rw [hi]
  have ht : List.take (l.length + 1) (l ++ 13 :: 10 :: more) = l ++ [13] := by
    have : l ++ 13 :: 10 :: more = (l ++ [13]) ++ 10 :: more := by simp
    rw [this]
    have h2 : l.length + 1 = (l ++ [13]).length := by simp
    rw [h2, List.take_left]
  have hd : List.drop (l.length + 1 + 1) (l ++ 13 :: 10 :: more) = more := by
    have : l ++ 13 :: 10 :: more = (l ++ [13, 10]) ++ more := by simp
    rw [this]
    have h2 : l.length + 1 + 1 = (l ++ [13, 10]).length := by simp
    rw [h2, List.drop_left]
  simp only [ht, hd]
  simp

theorem parseFirstLineAux_crlf (l more : Bytes) (f c : Nat) (hl : ∀ x ∈ l, x ≠ 10) (hne : l ≠ []) :
    parseFirstLineAux (f + 1) (l ++ 13 :: 10 :: more) c = .ok (l, c + (l.length + 2)) := by
  simp only [parseFirstLineAux, nextLine_crlf l more hl]
  have : l.isEmpty = false := by simpa using hne
  simp only [this, Bool.false_eq_true, if_false, List.length_append, List.length_cons]
  congr 2; omega

/-- `consts.StatusLine(code)` without the final CRLF: `HTTP/1.1 <code> <text>` -/
def statusLine (st : Nat) (reason : Bytes) : Bytes := strHTTP11 ++ 32 :: (appendUintDec st ++ 32 :: reason)

theorem statusLine_clean (st : Nat) (reason : Bytes) (hr : ∀ x ∈ reason, x ≠ 13 ∧ x ≠ 10) :
    ∀ x ∈ statusLine st reason, x ≠ 13 ∧ x ≠ 10 := by
  intro x hx
  simp only [statusLine, List.mem_append, List.mem_cons] at hx
  rcases hx with hx | hx | hx | hx | hx
  · revert x; decide
  · subst hx; decide
  · have := Dec.decD_digits st x hx
    constructor <;> (intro e; subst e; revert this; decide)
  · subst hx; decide
  · exact hr x hx

theorem parseFirstLine_status (st : Nat) (reason more : Bytes) (hst : st < 2 ^ 63)
    (hr : ∀ x ∈ reason, x ≠ 13 ∧ x ≠ 10) :
    RespRead.parseFirstLine (statusLine st reason ++ 13 :: 10 :: more) =
      .ok ({ status := st, http11 := true }, (statusLine st reason).length + 2) := by
  have hc := statusLine_clean st reason hr
  have hne : statusLine st reason ≠ [] := by simp [statusLine, strHTTP11]
  unfold RespRead.parseFirstLine
  rw [parseFirstLineAux_crlf _ more _ 0 (fun x hx => (hc x hx).2) hne]
  simp only [bind, Except.bind, Nat.zero_add]
  have hi : indexByte 32 (statusLine st reason) = some 8 :=
    indexByte_append 32 strHTTP11 _ (by decide)
  rw [hi]
  have ht : (statusLine st reason).take 8 = strHTTP11 := by
    have : (8 : Nat) = strHTTP11.length := rfl
    rw [statusLine, this, List.take_left]
  have hd : (statusLine st reason).drop (8 + 1) = appendUintDec st ++ 32 :: reason := by
    have : statusLine st reason = (strHTTP11 ++ [32]) ++ (appendUintDec st ++ 32 :: reason) := by
      simp [statusLine]
    rw [this]
    have h2 : (8 + 1 : Nat) = (strHTTP11 ++ [32]).length := rfl
    rw [h2, List.drop_left]
  simp only [ht, hd]
  rw [Dec.parseUintBuf_appendUintDec_append st hst (32 :: reason) (by intro c hc; simp at hc; subst hc; decide)]
  simp

/-! ### the field switch of `parseHeaders` -/

inductive Kind where
  | ctype | cenc | clen | conn | server | setcookie | te | trailer | other
deriving DecidableEq, Repr

/-- the `switch` of `ResponseHeader.parseHeaders` on the (normalised) field name -/
def kindOf (key : Bytes) : Kind :=
  match key with
  | [] => .other
  | k0 :: _ =>
  let c := k0 ||| 0x20
  if c = 99 ∧ ciEq key strContentType then .ctype
  else if c = 99 ∧ ciEq key strContentEncoding then .cenc
  else if c = 99 ∧ ciEq key strContentLength then .clen
  else if c = 99 ∧ ciEq key strConnection then .conn
  else if c = 115 ∧ ciEq key strServer then .server
  else if c = 115 ∧ ciEq key strSetCookie then .setcookie
  else if c = 116 ∧ ciEq key strTransferEncoding then .te
  else if c = 116 ∧ ciEq key strTrailer then .trailer
  else .other

theorem applyHeader_kind (dn : Bool) (st : HState) (key value : Bytes) (hne : key ≠ []) :
    RespRead.applyHeader dn st key value =
      let hd := st.head
      match kindOf key with
      | .ctype => { st with head := { hd with contentType := value } }
      | .cenc => { st with head := { hd with contentEncoding := value } }
      | .clen =>
        if hd.cl != -1 then
          match parseUint value with
          | none => { err := true, head := { hd with cl := -2 } }
          | some v => { err := false, head := { hd with cl := v, clBytes := value } }
        else st
      | .conn =>
        if ciEq value strClose then { st with head := { hd with connClose := true } }
        else { st with head := { hd with connClose := false, h := hd.h ++ [(key, value)] } }
      | .server => { st with head := { hd with server := value } }
      | .setcookie => { st with head := { hd with cookies := hd.cookies ++ [value] } }
      | .te =>
        if value != strIdentity then
          { st with head := { hd with cl := -1, h := setArg hd.h strTransferEncoding strChunked } }
        else st
      | .trailer =>
        let (names, bad) := setTrailers dn value
        { err := bad, head := { hd with trailer := hd.trailer ++ names } }
      | .other => { st with head := { hd with h := hd.h ++ [(key, value)] } } := by
  cases key with
  | nil => exact absurd rfl hne
  | cons k0 t =>
    simp only [RespRead.applyHeader, kindOf]
    by_cases h1 : (k0 ||| 0x20 = 99 ∧ ciEq (k0 :: t) strContentType = true)
    · simp only [if_pos h1]
    simp only [if_neg h1]
    by_cases h2 : (k0 ||| 0x20 = 99 ∧ ciEq (k0 :: t) strContentEncoding = true)
    · simp only [if_pos h2]
    simp only [if_neg h2]
    by_cases h3 : (k0 ||| 0x20 = 99 ∧ ciEq (k0 :: t) strContentLength = true)
    · simp only [if_pos h3]; rfl
    simp only [if_neg h3]
    by_cases h4 : (k0 ||| 0x20 = 99 ∧ ciEq (k0 :: t) strConnection = true)
    · simp only [if_pos h4]
    simp only [if_neg h4]
    by_cases h5 : (k0 ||| 0x20 = 115 ∧ ciEq (k0 :: t) strServer = true)
    · simp only [if_pos h5]
    simp only [if_neg h5]
    by_cases h6 : (k0 ||| 0x20 = 115 ∧ ciEq (k0 :: t) strSetCookie = true)
    · simp only [if_pos h6]
    simp only [if_neg h6]
    by_cases h7 : (k0 ||| 0x20 = 116 ∧ ciEq (k0 :: t) strTransferEncoding = true)
    · simp only [if_pos h7]
    simp only [if_neg h7]
    by_cases h8 : (k0 ||| 0x20 = 116 ∧ ciEq (k0 :: t) strTrailer = true)
    · simp only [if_pos h8]
    simp only [if_neg h8]


theorem kind_server : kindOf strServer = .server := by decide +kernel
theorem kind_date : kindOf strDate = .other := by decide +kernel
theorem kind_ctype : kindOf strContentType = .ctype := by decide +kernel
theorem kind_cenc : kindOf strContentEncoding = .cenc := by decide +kernel
theorem kind_clen : kindOf strContentLength = .clen := by decide +kernel
theorem kind_te : kindOf strTransferEncoding = .te := by decide +kernel
theorem kind_setcookie : kindOf strSetCookie = .setcookie := by decide +kernel
theorem kind_conn : kindOf strConnection = .conn := by decide +kernel

theorem applyAll_append (dn : Bool) (st : HState) (a b : List (Bytes × Bytes)) :
    applyAll dn st (a ++ b) = applyAll dn (applyAll dn st a) b := by
  simp [applyAll, List.foldl_append]

theorem applyAll_nil (dn : Bool) (st : HState) : applyAll dn st [] = st := rfl
theorem applyAll_one (dn : Bool) (st : HState) (kv : Bytes × Bytes) :
    applyAll dn st [kv] = RespRead.applyHeader dn st kv.1 kv.2 := rfl

/-- fields whose names are none of the eight special ones are appended to the generic list, in order -/
theorem applyAll_other (dn : Bool) : ∀ (fs : List (Bytes × Bytes)) (st : HState),
    (∀ kv ∈ fs, kv.1 ≠ [] ∧ kindOf kv.1 = .other) →
    applyAll dn st fs = { st with head := { st.head with h := st.head.h ++ fs } }
  | [], st, _ => by simp [applyAll]
  | kv :: fs, st, h => by
    obtain ⟨hne, hk⟩ := h kv (by simp)
    have ih := applyAll_other dn fs (RespRead.applyHeader dn st kv.1 kv.2) (fun x hx => h x (by simp [hx]))
    simp only [applyAll, List.foldl_cons] at ih ⊢
    rw [ih, applyHeader_kind dn st kv.1 kv.2 hne, hk]
    simp

theorem applyAll_cookies (dn : Bool) : ∀ (cs : List Bytes) (st : HState),
    applyAll dn st (cs.map (fun c => (strSetCookie, c))) = { st with head := { st.head with cookies := st.head.cookies ++ cs } }
  | [], st => by simp [applyAll]
  | c :: cs, st => by
    have ih := applyAll_cookies dn cs (RespRead.applyHeader dn st strSetCookie c)
    simp only [applyAll, List.map_cons, List.foldl_cons] at ih ⊢
    rw [ih, applyHeader_kind dn st strSetCookie c (by decide), kind_setcookie]
    simp

/-! ### `parseHeaders`, `ReadHeader`, `ReadHeaders` on a written head -/

/-- what `parseHeaders` does to the header object after the scanning loop -/
def finishHead (hd : RespHead) : RespHead :=
  let hd := if hd.cl < 0 then { hd with clBytes := [] } else hd
  let hd := if hd.cl = -2 ∧ !connectionUpgrade hd ∧ !RespRead.mustSkipCL hd.status then
      { hd with h := setArg hd.h strTransferEncoding strIdentity, connClose := true }
    else hd
  let hd := if !hd.http11 && !hd.connClose then
      { hd with connClose := !hasHeaderValue (peekArg hd.h strConnection) strKeepAlive }
    else hd
  hd

theorem wf_length_le_block {dn : Bool} : ∀ (fs : List (Bytes × Bytes)), wfFields dn fs = true →
    fs.length ≤ (HW.block fs).length
  | [], _ => by simp
  | kv :: fs, h => by
    simp only [wfFields, List.all_cons, Bool.and_eq_true] at h
    have ih := wf_length_le_block fs h.2
    have : (HW.block (kv :: fs)).length = (kv.1.length + kv.2.length + 4) + (HW.block fs).length := by
      simp [HW.block, headerLine_wf h.1]; omega
    simp only [List.length_cons]; omega

theorem parseHeaders_block (dn : Bool) (hd0 : RespHead) (fs : List (Bytes × Bytes)) (X : Bytes)
    (h : wfFields dn fs = true) :
    RespRead.parseHeaders dn hd0 (HW.block fs ++ X) =
      if (applyAll dn { head := { hd0 with cl := -2 } } fs).err then .error .bad
      else .ok (finishHead (applyAll dn { head := { hd0 with cl := -2 } } fs).head, (HW.block fs).length) := by
  unfold RespRead.parseHeaders
  rw [headersLoop_block dn fs X _ 0 _ h (by have := wf_length_le_block fs h; simp only [List.length_append]; omega)]
  simp only [bind, Except.bind, Nat.zero_add]
  rfl

theorem applyHeader_status (dn : Bool) (st : HState) (k v : Bytes) :
    (RespRead.applyHeader dn st k v).head.status = st.head.status := by
  cases k with
  | nil => rfl
  | cons a t =>
    rw [applyHeader_kind dn st (a :: t) v (by simp)]
    simp only
    cases kindOf (a :: t) <;> simp only <;> (try split) <;> (try split) <;> rfl

theorem applyAll_status (dn : Bool) : ∀ (fs : List (Bytes × Bytes)) (st : HState),
    (applyAll dn st fs).head.status = st.head.status
  | [], _ => rfl
  | kv :: fs, st => by
    have ih := applyAll_status dn fs (RespRead.applyHeader dn st kv.1 kv.2)
    simp only [applyAll, List.foldl_cons] at ih ⊢
    rw [ih, applyHeader_status]

theorem finishHead_status (hd : RespHead) : (finishHead hd).status = hd.status := by
  unfold finishHead
  simp only
  split <;> split <;> split <;> rfl

/-- first line and fields as the reader stores them, before the framing fix-ups of `parseHeaders` -/
def scanned (dn : Bool) (st : Nat) (fs : List (Bytes × Bytes)) : HState :=
  applyAll dn { head := { status := st, http11 := true, cl := -2 } } fs

/-- `resp.ReadHeaders` on a head produced by the writer (`StatusLine`, then `appendHeaderLine` for each
field, then the empty line): the status, exactly the fields written, and the reader stops exactly at
the end of the head. -/
theorem readHeaders_written (dn : Bool) (e : End) (st : Nat) (reason : Bytes) (fs : List (Bytes × Bytes)) (X : Bytes)
    (hst : st < 2 ^ 63) (h100 : isInterim st = false) (hr : ∀ x ∈ reason, x ≠ 13 ∧ x ≠ 10) (h : wfFields dn fs = true)
    (herr : (scanned dn st fs).err = false) :
    RespRead.readHeaders dn e (statusLine st reason ++ strCRLF ++ HW.block fs ++ X) =
      .ok (finishHead (scanned dn st fs).head, X) := by
  have e1 : statusLine st reason ++ strCRLF ++ HW.block fs ++ X =
      statusLine st reason ++ 13 :: 10 :: (HW.block fs ++ X) := by simp [HW.strCRLF_eq]
  have hrh : RespRead.readHeader dn e (statusLine st reason ++ strCRLF ++ HW.block fs ++ X) =
      .ok (finishHead (scanned dn st fs).head, X) := by
    unfold RespRead.readHeader RespRead.parseRespHead
    rw [e1, parseFirstLine_status st reason _ hst hr]
    simp only [bind, Except.bind]
    have hd : List.drop ((statusLine st reason).length + 2) (statusLine st reason ++ 13 :: 10 :: (HW.block fs ++ X)) = HW.block fs ++ X := by
      have : statusLine st reason ++ 13 :: 10 :: (HW.block fs ++ X) = (statusLine st reason ++ [13, 10]) ++ (HW.block fs ++ X) := by simp
      rw [this]
      have h2 : (statusLine st reason).length + 2 = (statusLine st reason ++ [13, 10]).length := by simp
      rw [h2, List.drop_left]
    rw [hd, parseHeaders_block dn _ fs X h]
    have herr' : (applyAll dn { head := { ({ status := st, http11 := true } : RespHead) with cl := -2 } } fs).err = false := herr
    simp only [herr', Bool.false_eq_true, if_false]
    have hd2 : List.drop ((statusLine st reason).length + 2 + (HW.block fs).length)
        (statusLine st reason ++ 13 :: 10 :: (HW.block fs ++ X)) = X := by
      rw [← List.drop_drop, hd, List.drop_left]
    rw [hd2]; rfl
  rw [readHeaders_step, hrh]
  have hs : isInterim (finishHead (scanned dn st fs).head).status = false := by
    rw [finishHead_status, scanned, applyAll_status]; exact h100
  simp only [hs, Bool.false_eq_true, if_false]

/-! ## Stage C — a whole response -/

/-- how the application supplied the body -/
inductive WBody where
  | fixed (b : Bytes)               -- `SetBody`: Content-Length framing
  | chunked (reads : List Bytes)    -- `SetBodyStream(r, -1)`: `reads` are the results of `r.Read`; chunked framing
deriving Repr, DecidableEq

def WBody.content : WBody → Bytes
  | .fixed b => b
  | .chunked rs => rs.flatten

/-- a response as the server application set it up -/
structure WResp where
  status : Nat
  /-- `consts.StatusMessage(status)` -/
  reason : Bytes := []
  server : Bytes := []
  /-- `none` = `noDefaultDate` -/
  date : Option Bytes := none
  contentType : Bytes := []
  contentEncoding : Bytes := []
  /-- the generic fields (`h.h`) -/
  h : List (Bytes × Bytes) := []
  /-- full `Set-Cookie` values -/
  cookies : List Bytes := []
  connClose : Bool := false
  body : WBody
deriving Repr, DecidableEq

/-- the handler program of the C04 writer model -/
def WResp.prog (r : WResp) : Prog :=
  { status := r.status,
    body := match r.body with
      | .fixed b => .bytes b
      | .chunked rs => .stream (-1) rs,
    trailers := [] }

/-- the header object at the moment `resp.Write` serialises it, i.e. after
`SetContentLength(len(body))` resp. `SetContentLength(-1)` (C05 model of `ResponseHeader`) -/
def WResp.hdr (r : WResp) : HW.RespHdr :=
  { statusLine := statusLine r.status r.reason,
    server := r.server, date := r.date, contentType := r.contentType, contentEncoding := r.contentEncoding,
    contentLength := match r.body with
      | .fixed b => b.length
      | .chunked _ => -1,
    clBytes := match r.body with
      | .fixed b => appendUintDec b.length
      | .chunked _ => [],
    h := match r.body with
      | .fixed _ => r.h.filter (fun kv => kv.1 != strTransferEncoding)          -- `delAllArgsBytes`
      | .chunked _ => setArg r.h strTransferEncoding strChunked,               -- `setArgBytes`
    trailer := [], cookies := r.cookies, connClose := r.connClose }

/-- all bytes `resp.Write` puts on the wire for `r` (answer to a non-HEAD request) -/
def respWire (r : WResp) : Bytes := r.hdr.bytes ++ (frame r.prog false).wire

/-- well-formed response: a status that may carry a body, clean reason text and values, generic fields
with non-empty valid names in normalised form that are none of the names the reader keeps in
dedicated fields, a body whose length fits an `int`, chunks whose size fits 15 hex digits -/
def wfResp (dn : Bool) (r : WResp) : Bool :=
  !RespRead.mustSkipCL r.status && decide (r.status < 2 ^ 63) &&
  r.reason.all (fun c => c != 13 && c != 10) &&
  cleanVal r.server && cleanVal r.contentType && cleanVal r.contentEncoding &&
  (match r.date with | some d => cleanVal d | none => true) &&
  r.h.all (fun kv => wfField dn kv && kindOf kv.1 == .other) &&
  r.cookies.all cleanVal &&
  (match r.body with
   | .fixed b => decide (b.length < 2 ^ 63)
   | .chunked rs => rs.all (fun c => decide (c.length < 16 ^ 15)))

/-- the generic fields as the client sees them: the `Date` line the server adds, then the
application's own fields -/
def WResp.seenFields (r : WResp) : List (Bytes × Bytes) :=
  (match r.date with | some d => [(strDate, d)] | none => []) ++
  r.h.filter (fun kv => r.date.isNone || kv.1 != strDate)

/-- the header object the client ends up with -/
def WResp.seenHead (r : WResp) : RespHead :=
  { status := r.status, http11 := true, contentType := r.contentType, contentEncoding := r.contentEncoding,
    server := r.server, cl := r.body.content.length, clBytes := appendUintDec r.body.content.length,
    connClose := r.connClose, h := r.seenFields, cookies := r.cookies, trailer := [] }

/-! ### the reader's state after each group of fields the writer emits -/

/-- reader state with every component explicit -/
def mk (st : Nat) (sv ct ce : Bytes) (cl : Int) (clb : Bytes) (cc : Bool) (h : List (Bytes × Bytes)) (ck : List Bytes) : HState :=
  { head := { status := st, http11 := true, contentType := ct, contentEncoding := ce, server := sv, cl := cl,
              clBytes := clb, connClose := cc, h := h, cookies := ck, trailer := [] }, err := false }

theorem a_server (dn : Bool) (st : Nat) (ct ce : Bytes) (cl : Int) (clb : Bytes) (cc : Bool) (h : List (Bytes × Bytes)) (ck : List Bytes) (b : Bytes) :
    applyAll dn (mk st [] ct ce cl clb cc h ck) (if b.isEmpty then [] else [(strServer, b)]) = mk st b ct ce cl clb cc h ck := by
  cases b with
  | nil => rfl
  | cons x t =>
    simp only [List.isEmpty_cons, Bool.false_eq_true, if_false, applyAll_one]
    rw [applyHeader_kind dn _ strServer _ (by decide), kind_server]; rfl

theorem a_cenc (dn : Bool) (st : Nat) (sv ct : Bytes) (cl : Int) (clb : Bytes) (cc : Bool) (h : List (Bytes × Bytes)) (ck : List Bytes) (b : Bytes) :
    applyAll dn (mk st sv ct [] cl clb cc h ck) (if b.isEmpty then [] else [(strContentEncoding, b)]) = mk st sv ct b cl clb cc h ck := by
  cases b with
  | nil => rfl
  | cons x t =>
    simp only [List.isEmpty_cons, Bool.false_eq_true, if_false, applyAll_one]
    rw [applyHeader_kind dn _ strContentEncoding _ (by decide), kind_cenc]; rfl

theorem a_ctype (dn : Bool) (st : Nat) (sv ce : Bytes) (cl : Int) (clb : Bytes) (cc : Bool) (h : List (Bytes × Bytes)) (ck : List Bytes) (b : Bytes) (c : Bool) :
    applyAll dn (mk st sv [] ce cl clb cc h ck) (if (c || !b.isEmpty) && !b.isEmpty then [(strContentType, b)] else []) = mk st sv b ce cl clb cc h ck := by
  cases b with
  | nil => simp; rfl
  | cons x t =>
    simp only [List.isEmpty_cons, Bool.not_false, Bool.or_true, Bool.and_self, if_true, applyAll_one]
    rw [applyHeader_kind dn _ strContentType _ (by decide), kind_ctype]; rfl

theorem a_conn (dn : Bool) (st : Nat) (sv ct ce : Bytes) (cl : Int) (clb : Bytes) (h : List (Bytes × Bytes)) (ck : List Bytes) (c : Bool) :
    applyAll dn (mk st sv ct ce cl clb false h ck) (if c then [(strConnection, strClose)] else []) = mk st sv ct ce cl clb c h ck := by
  cases c with
  | false => rfl
  | true =>
    simp only [if_true, applyAll_one]
    rw [applyHeader_kind dn _ strConnection _ (by decide), kind_conn]
    have hcc : ciEq strClose strClose = true := by decide +kernel
    simp only [hcc, if_true]; rfl

theorem a_cookies (dn : Bool) (st : Nat) (sv ct ce : Bytes) (cl : Int) (clb : Bytes) (cc : Bool) (h : List (Bytes × Bytes)) (cs : List Bytes) :
    applyAll dn (mk st sv ct ce cl clb cc h []) (cs.map (fun c => (strSetCookie, c))) = mk st sv ct ce cl clb cc h cs := by
  rw [applyAll_cookies]; simp [mk]

theorem a_other (dn : Bool) (st : Nat) (sv ct ce : Bytes) (cl : Int) (clb : Bytes) (cc : Bool) (h : List (Bytes × Bytes)) (ck : List Bytes)
    (fs : List (Bytes × Bytes)) (hf : ∀ kv ∈ fs, kv.1 ≠ [] ∧ kindOf kv.1 = .other) :
    applyAll dn (mk st sv ct ce cl clb cc h ck) fs = mk st sv ct ce cl clb cc (h ++ fs) ck := by
  rw [applyAll_other dn fs _ hf]; rfl

theorem a_clen (dn : Bool) (st : Nat) (sv ct ce : Bytes) (cc : Bool) (h : List (Bytes × Bytes)) (ck : List Bytes) (n : Nat) (hn : n < 2 ^ 63) :
    applyAll dn (mk st sv ct ce (-2) [] cc h ck) (if (appendUintDec n).isEmpty then [] else [(strContentLength, appendUintDec n)]) =
      mk st sv ct ce n (appendUintDec n) cc h ck := by
  have hne : (appendUintDec n).isEmpty = false := by
    have := Dec.appendUintDec_ne_nil n
    cases hh : appendUintDec n with
    | nil => exact absurd hh this
    | cons _ _ => rfl
  simp only [hne, Bool.false_eq_true, if_false, applyAll_one]
  rw [applyHeader_kind dn _ strContentLength _ (by decide), kind_clen]
  simp only [mk, Dec.parseUint_appendUintDec n hn]
  rfl

theorem setArg_absent : ∀ (h : List (Bytes × Bytes)) (k v : Bytes), (∀ kv ∈ h, kv.1 ≠ k) → setArg h k v = h ++ [(k, v)]
  | [], k, v, _ => rfl
  | (k', v') :: t, k, v, hh => by
    have : k' ≠ k := hh (k', v') (by simp)
    simp [setArg, this, setArg_absent t k v (fun x hx => hh x (by simp [hx]))]

theorem a_te (dn : Bool) (st : Nat) (sv ct ce : Bytes) (cl : Int) (clb : Bytes) (cc : Bool) (h : List (Bytes × Bytes)) (ck : List Bytes)
    (hh : ∀ kv ∈ h, kv.1 ≠ strTransferEncoding) :
    applyAll dn (mk st sv ct ce cl clb cc h ck) [(strTransferEncoding, strChunked)] =
      mk st sv ct ce (-1) clb cc (h ++ [(strTransferEncoding, strChunked)]) ck := by
  rw [applyAll_one, applyHeader_kind dn _ strTransferEncoding _ (by decide), kind_te]
  simp only [mk, setArg_absent h _ _ hh]
  rfl

/-! ### well-formedness of what the writer emits, and the assembled statement -/

theorem wfName_special (dn : Bool) :
    (∀ k ∈ [strServer, strDate, strContentType, strContentEncoding, strContentLength, strTransferEncoding, strSetCookie, strConnection],
      (!k.isEmpty && HW.validName k && (normalizeKey dn k == k)) = true) := by
  cases dn <;> decide +kernel

theorem wfField_special (dn : Bool) (k v : Bytes)
    (hk : k ∈ [strServer, strDate, strContentType, strContentEncoding, strContentLength, strTransferEncoding, strSetCookie, strConnection])
    (hv : cleanVal v = true) : wfField dn (k, v) = true := by
  have := wfName_special dn k hk
  simp only [wfField, this, hv, Bool.and_self]

theorem wfFields_append (dn : Bool) (a b : List (Bytes × Bytes)) :
    wfFields dn (a ++ b) = (wfFields dn a && wfFields dn b) := by
  simp [wfFields]

theorem cleanVal_digits (n : Nat) : cleanVal (appendUintDec n) = true := by
  have hd := Dec.decD_digits n
  have hne := Dec.appendUintDec_ne_nil n
  simp only [cleanVal, Bool.and_eq_true, List.all_eq_true]
  refine ⟨⟨?_, ?_⟩, ?_⟩
  · intro x hx
    have := hd x hx
    have h1 : x ≠ 10 := by intro e; subst e; revert this; decide
    have h2 : x ≠ 13 := by intro e; subst e; revert this; decide
    simp [h1, h2]
  · cases h : appendUintDec n with
    | nil => exact absurd h hne
    | cons a t =>
      have := hd a (by rw [h]; simp)
      have h1 : a ≠ 32 := by intro e; subst e; revert this; decide
      have h2 : a ≠ 9 := by intro e; subst e; revert this; decide
      simp [isOWS, h1, h2]
  · cases h : (appendUintDec n).getLast? with
    | none => simp
    | some a =>
      have := hd a (List.mem_of_getLast? h)
      have h1 : a ≠ 32 := by intro e; subst e; revert this; decide
      have h2 : a ≠ 9 := by intro e; subst e; revert this; decide
      simp [isOWS, h1, h2]

theorem cleanVal_const : cleanVal strChunked = true ∧ cleanVal strClose = true := by decide

theorem kind_other_ne (k : Bytes) (h : kindOf k = .other) : k ≠ strTransferEncoding := by
  intro e; subst e; rw [kind_te] at h; exact absurd h (by decide)

structure WfParts (dn : Bool) (r : WResp) : Prop where
  skip : RespRead.mustSkipCL r.status = false
  st : r.status < 2 ^ 63
  reason : ∀ x ∈ r.reason, x ≠ 13 ∧ x ≠ 10
  server : cleanVal r.server = true
  ctype : cleanVal r.contentType = true
  cenc : cleanVal r.contentEncoding = true
  date : ∀ d, r.date = some d → cleanVal d = true
  h : ∀ kv ∈ r.h, wfField dn kv = true ∧ kindOf kv.1 = .other
  cookies : ∀ c ∈ r.cookies, cleanVal c = true
  fixed : ∀ b, r.body = .fixed b → b.length < 2 ^ 63
  chunked : ∀ rs, r.body = .chunked rs → ∀ c ∈ rs, c.length < 16 ^ 15

theorem wfResp_parts {dn : Bool} {r : WResp} (h : wfResp dn r = true) : WfParts dn r := by
  simp only [wfResp, Bool.and_eq_true, Bool.not_eq_true', decide_eq_true_eq, List.all_eq_true, beq_iff_eq] at h
  obtain ⟨⟨⟨⟨⟨⟨⟨⟨⟨h1, h2⟩, h3⟩, h4⟩, h5⟩, h6⟩, h7⟩, h8⟩, h9⟩, h10⟩ := h
  refine ⟨h1, h2, ?_, h4, h5, h6, ?_, ?_, h9, ?_, ?_⟩
  · intro x hx; have := h3 x hx; simpa [and_comm] using this
  · intro d hd; rw [hd] at h7; exact h7
  · intro kv hkv; exact h8 kv hkv
  · intro b hb; rw [hb] at h10; simpa using h10
  · intro rs hb; rw [hb] at h10; intro c hc
    simp only [List.all_eq_true, decide_eq_true_eq] at h10; exact h10 c hc

theorem filter_te_id {dn : Bool} {r : WResp} (p : WfParts dn r) :
    r.h.filter (fun kv => kv.1 != strTransferEncoding) = r.h := by
  rw [List.filter_eq_self]
  intro kv hkv
  have := kind_other_ne kv.1 (p.h kv hkv).2
  simpa using this

theorem seen_other {dn : Bool} {r : WResp} (p : WfParts dn r) :
    ∀ kv ∈ r.h.filter (fun kv => r.date.isNone || kv.1 != strDate), kv.1 ≠ [] ∧ kindOf kv.1 = .other := by
  intro kv hkv
  have hm := (List.mem_filter.mp hkv).1
  exact ⟨(wfField_parts (p.h kv hm).1).1, (p.h kv hm).2⟩

theorem a_date (dn : Bool) (st : Nat) (sv ct ce : Bytes) (cl : Int) (clb : Bytes) (cc : Bool) (ck : List Bytes) (d : Bytes) :
    applyAll dn (mk st sv ct ce cl clb cc [] ck) [(strDate, d)] = mk st sv ct ce cl clb cc [(strDate, d)] ck := by
  rw [a_other]
  · simp
  · intro kv hkv
    simp only [List.mem_singleton] at hkv; subst hkv
    exact ⟨by simp [strDate], kind_date⟩

theorem scanned_fixed (dn : Bool) (r : WResp) (b : Bytes) (p : WfParts dn r) (hb : r.body = .fixed b) :
    scanned dn r.status r.hdr.fields =
      mk r.status r.server r.contentType r.contentEncoding b.length (appendUintDec b.length) r.connClose r.seenFields r.cookies := by
  have hfil := filter_te_id p
  have hoth := seen_other p
  have hn := p.fixed b hb
  obtain ⟨status, reason, server, date, ct, ce, h, cookies, cc, body⟩ := r
  simp only at hb hfil hoth ⊢
  subst hb
  have h0 : scanned dn status (WResp.hdr ⟨status, reason, server, date, ct, ce, h, cookies, cc, .fixed b⟩).fields =
      applyAll dn (mk status [] [] [] (-2) [] false [] []) (WResp.hdr ⟨status, reason, server, date, ct, ce, h, cookies, cc, .fixed b⟩).fields := rfl
  rw [h0]
  simp only [HW.RespHdr.fields, WResp.hdr, hfil, List.isEmpty_nil, if_true, List.append_nil, applyAll_append]
  rw [a_server]
  cases date with
  | none =>
    simp only [applyAll_nil]
    rw [a_ctype, a_cenc, a_clen dn _ _ _ _ _ _ _ _ hn, a_other dn _ _ _ _ _ _ _ _ _ _ hoth, a_cookies, a_conn]
    rfl
  | some d =>
    simp only
    rw [a_date, a_ctype, a_cenc, a_clen dn _ _ _ _ _ _ _ _ hn, a_other dn _ _ _ _ _ _ _ _ _ _ hoth, a_cookies, a_conn]
    rfl

theorem seen_ne_te {dn : Bool} {r : WResp} (p : WfParts dn r) : ∀ kv ∈ r.seenFields, kv.1 ≠ strTransferEncoding := by
  intro kv hkv
  simp only [WResp.seenFields, List.mem_append] at hkv
  rcases hkv with hkv | hkv
  · cases hd : r.date with
    | none => rw [hd] at hkv; simp at hkv
    | some d =>
      rw [hd] at hkv; simp only [List.mem_singleton] at hkv; subst hkv
      simp [strDate, strTransferEncoding]
  · exact kind_other_ne kv.1 (seen_other p kv hkv).2

theorem scanned_chunked (dn : Bool) (r : WResp) (rs : List Bytes) (p : WfParts dn r) (hb : r.body = .chunked rs) :
    scanned dn r.status r.hdr.fields =
      mk r.status r.server r.contentType r.contentEncoding (-1) [] r.connClose
        (r.seenFields ++ [(strTransferEncoding, strChunked)]) r.cookies := by
  have hset : setArg r.h strTransferEncoding strChunked = r.h ++ [(strTransferEncoding, strChunked)] :=
    setArg_absent r.h _ _ (fun kv hkv => kind_other_ne kv.1 (p.h kv hkv).2)
  have hoth := seen_other p
  have hte := seen_ne_te p
  obtain ⟨status, reason, server, date, ct, ce, h, cookies, cc, body⟩ := r
  simp only at hb hset hoth hte ⊢
  subst hb
  have h0 : scanned dn status (WResp.hdr ⟨status, reason, server, date, ct, ce, h, cookies, cc, .chunked rs⟩).fields =
      applyAll dn (mk status [] [] [] (-2) [] false [] []) (WResp.hdr ⟨status, reason, server, date, ct, ce, h, cookies, cc, .chunked rs⟩).fields := rfl
  have hfd : List.filter (fun kv => date.isNone || kv.1 != strDate) (h ++ [(strTransferEncoding, strChunked)]) =
      List.filter (fun kv => date.isNone || kv.1 != strDate) h ++ [(strTransferEncoding, strChunked)] := by
    rw [List.filter_append]
    congr 1
    have : (strTransferEncoding != strDate) = true := by decide
    simp [this]
  rw [h0]
  simp only [HW.RespHdr.fields, WResp.hdr, hset, hfd, List.isEmpty_nil, if_true, List.append_nil, applyAll_append]
  rw [a_server]
  simp only [WResp.seenFields] at hte ⊢
  cases date with
  | none =>
    simp only [applyAll_nil, List.nil_append] at hte ⊢
    rw [a_ctype, a_cenc, a_other dn _ _ _ _ _ _ _ _ _ _ hoth, a_te dn _ _ _ _ _ _ _ _ _ (by simpa using hte), a_cookies, a_conn]
    simp
  | some d =>
    simp only at hte ⊢
    rw [a_date, a_ctype, a_cenc, a_other dn _ _ _ _ _ _ _ _ _ _ hoth, a_te dn _ _ _ _ _ _ _ _ _ hte, a_cookies, a_conn]

theorem hdr_h_wf {dn : Bool} {r : WResp} (p : WfParts dn r) : ∀ kv ∈ r.hdr.h, wfField dn kv = true := by
  intro kv hkv
  simp only [WResp.hdr] at hkv
  cases hb : r.body with
  | fixed b =>
    rw [hb] at hkv
    exact (p.h kv (List.mem_filter.mp hkv).1).1
  | chunked rs =>
    rw [hb] at hkv
    simp only at hkv
    rw [setArg_absent r.h _ _ (fun kv hkv => kind_other_ne kv.1 (p.h kv hkv).2), List.mem_append] at hkv
    rcases hkv with hkv | hkv
    · exact (p.h kv hkv).1
    · simp only [List.mem_singleton] at hkv; subst hkv
      exact wfField_special dn _ _ (by simp) cleanVal_const.1

theorem hdr_clBytes_clean (r : WResp) : cleanVal r.hdr.clBytes = true := by
  simp only [WResp.hdr]
  cases r.body with
  | fixed b => exact cleanVal_digits _
  | chunked rs => rfl

theorem hdr_fields_wf (dn : Bool) (r : WResp) (p : WfParts dn r) : wfFields dn r.hdr.fields = true := by
  simp only [wfFields, List.all_eq_true]
  intro kv hkv
  have hh := hdr_h_wf p
  have hcl := hdr_clBytes_clean r
  simp only [HW.RespHdr.fields, List.mem_append] at hkv
  have e1 : r.hdr.server = r.server := rfl
  have e2 : r.hdr.date = r.date := rfl
  have e3 : r.hdr.contentType = r.contentType := rfl
  have e4 : r.hdr.contentEncoding = r.contentEncoding := rfl
  have e5 : r.hdr.trailer = [] := rfl
  have e6 : r.hdr.cookies = r.cookies := rfl
  rw [e1, e2, e3, e4, e5, e6] at hkv
  rcases hkv with (((((((hkv | hkv) | hkv) | hkv) | hkv) | hkv) | hkv) | hkv) | hkv
  · split at hkv
    · simp at hkv
    · simp only [List.mem_singleton] at hkv; subst hkv
      exact wfField_special dn _ _ (by simp) p.server
  · cases hd : r.date with
    | none => rw [hd] at hkv; simp at hkv
    | some d =>
      rw [hd] at hkv; simp only [List.mem_singleton] at hkv; subst hkv
      exact wfField_special dn _ _ (by simp) (p.date d hd)
  · split at hkv
    · simp only [List.mem_singleton] at hkv; subst hkv
      exact wfField_special dn _ _ (by simp) p.ctype
    · simp at hkv
  · split at hkv
    · simp at hkv
    · simp only [List.mem_singleton] at hkv; subst hkv
      exact wfField_special dn _ _ (by simp) p.cenc
  · split at hkv
    · simp at hkv
    · simp only [List.mem_singleton] at hkv; subst hkv
      exact wfField_special dn _ _ (by simp) hcl
  · exact hh kv (List.mem_filter.mp hkv).1
  · simp at hkv
  · simp only [List.mem_map] at hkv
    obtain ⟨c, hc, rfl⟩ := hkv
    exact wfField_special dn _ _ (by simp) (p.cookies c hc)
  · have e7 : r.hdr.connClose = r.connClose := rfl
    rw [e7] at hkv
    split at hkv
    · simp only [List.mem_singleton] at hkv; subst hkv
      exact wfField_special dn _ _ (by simp) cleanVal_const.2
    · simp at hkv

theorem mustSkip_same (st : Nat) : Resp.mustSkipCL st = RespRead.mustSkipCL st := rfl

theorem finish_fixed (st : Nat) (sv ct ce : Bytes) (n : Nat) (clb : Bytes) (cc : Bool) (h : List (Bytes × Bytes)) (ck : List Bytes) :
    finishHead (mk st sv ct ce n clb cc h ck).head = (mk st sv ct ce n clb cc h ck).head := by
  have h1 : ¬ ((n : Int) < 0) := by omega
  have h2 : ¬ ((n : Int) = -2) := by omega
  simp [finishHead, mk, h1, h2]

theorem finish_chunked (st : Nat) (sv ct ce : Bytes) (cc : Bool) (h : List (Bytes × Bytes)) (ck : List Bytes) :
    finishHead (mk st sv ct ce (-1) [] cc h ck).head = (mk st sv ct ce (-1) [] cc h ck).head := by
  simp [finishHead, mk]

theorem flatten_filter_nonempty (l : List Bytes) : (l.filter (fun r => !r.isEmpty)).flatten = l.flatten := by
  induction l with
  | nil => rfl
  | cons a t ih =>
    cases a with
    | nil => simpa using ih
    | cons x xs => simp [ih]

theorem length_le_encodeChunks : ∀ (cs : List Bytes), cs.length ≤ (encodeChunks cs).length
  | [] => by simp
  | c :: cs => by
    have ih := length_le_encodeChunks cs
    have h1 : 0 < (writeChunk c).length := by
      have := hexDigits_ne_nil 16 c.length (by decide)
      have h2 : 0 < (writeHexInt c.length).length := List.length_pos_iff.mpr this
      simp only [writeChunk, List.length_append]; omega
    simp only [encodeChunks, List.flatMap_cons, List.length_append, List.length_cons] at ih ⊢
    omega

theorem readTrailer_none (dn : Bool) (maxBody : Nat) (e : End) (rest : Bytes) :
    readTrailerReq { disableNorm := dn, maxBody := maxBody } e [] (13 :: 10 :: rest) = .ok (some [], rest) := by
  simp [readTrailerReq, parseTrailer, parseTrailerLoop, scanNext, filledTrailers]

theorem frame_fixed (r : WResp) (b : Bytes) (hs : RespRead.mustSkipCL r.status = false) (hb : r.body = .fixed b) :
    frame r.prog false = { framing := .cl b.length, wire := b } := by
  simp [frame, WResp.prog, hb, mustSkip_same, hs]

theorem frame_chunked (r : WResp) (rs : List Bytes) (hs : RespRead.mustSkipCL r.status = false) (hb : r.body = .chunked rs) :
    frame r.prog false = { framing := .chunked, wire := chunkedWire rs [] } := by
  simp [frame, WResp.prog, hb, mustSkip_same, hs]

/-- **Response round trip**: the client reader applied to the bytes the writer puts on the wire for a
well-formed response, followed by anything, returns the status, the fields and the body that were
sent and leaves exactly what followed. -/
theorem response_roundtrip (dn : Bool) (maxBody : Nat) (e : End) (r : WResp) (rest : Bytes)
    (hw : wfResp dn r = true) (hmax : maxBody = 0 ∨ r.body.content.length ≤ maxBody) :
    readResponse dn maxBody e (respWire r ++ rest) =
      .ok { head := r.seenHead, body := r.body.content, trailers := [], rest := rest } := by
  have p := wfResp_parts hw
  have hwire : ∀ X, r.hdr.bytes ++ X = statusLine r.status r.reason ++ strCRLF ++ HW.block r.hdr.fields ++ X := fun X => rfl
  have hne : isInterim r.status = false := notInterim_of_notSkip r.status p.skip
  have hfil : r.seenFields.filter (fun kv => kv.1 != strTransferEncoding) = r.seenFields := by
    rw [List.filter_eq_self]
    intro kv hkv
    simpa using seen_ne_te p kv hkv
  unfold readResponse
  cases hb : r.body with
  | fixed b =>
    have hfr := frame_fixed r b p.skip hb
    have hsc := scanned_fixed dn r b p hb
    have herr : (scanned dn r.status r.hdr.fields).err = false := by rw [hsc]; rfl
    rw [respWire, hfr, List.append_assoc, hwire,
      readHeaders_written dn e r.status r.reason r.hdr.fields _ p.st hne p.reason (hdr_fields_wf dn r p) herr,
      hsc, finish_fixed]
    simp only
    have hlim : ¬ (maxBody > 0 ∧ b.length > maxBody) := by
      rw [hb] at hmax; simp only [WBody.content] at hmax; omega
    unfold readBodyPart
    simp only [mk, p.skip, Bool.false_eq_true, if_false, Int.natCast_nonneg, ge_iff_le, if_true, Int.toNat_natCast, hlim,
      takeBody_append, RespRead.setContentLength, WResp.seenHead, WBody.content, hfil, List.map_nil, hb]
  | chunked rs =>
    have hfr := frame_chunked r rs p.skip hb
    have hsc := scanned_chunked dn r rs p hb
    have herr : (scanned dn r.status r.hdr.fields).err = false := by rw [hsc]; rfl
    rw [respWire, hfr, List.append_assoc, hwire,
      readHeaders_written dn e r.status r.reason r.hdr.fields _ p.st hne p.reason (hdr_fields_wf dn r p) herr,
      hsc, finish_chunked]
    simp only
    have hcw : chunkedWire rs [] ++ rest =
        encodeChunks (rs.filter (fun r => !r.isEmpty)) ++ writeChunk [] ++ (13 :: 10 :: rest) := by
      simp [chunkedWire, trailerBlock, HW.block, HW.strCRLF_eq]
    have hcs : ∀ c ∈ rs.filter (fun r => !r.isEmpty), c ≠ [] ∧ c.length < 16 ^ 15 := by
      intro c hc
      have := List.mem_filter.mp hc
      refine ⟨?_, p.chunked rs hb c this.1⟩
      intro e0; rw [e0] at this; simp at this
    have hm' : maxBody = 0 ∨ ([] : Bytes).length + (rs.filter (fun r => !r.isEmpty)).flatten.length ≤ maxBody := by
      rw [hb] at hmax; simp only [WBody.content] at hmax
      rw [flatten_filter_nonempty]; simpa using hmax
    have hrd := readBodyChunked_encode e maxBody (rs.filter (fun r => !r.isEmpty)) (13 :: 10 :: rest) []
      ((chunkedWire rs [] ++ rest).length + 1) hcs (by
        have := length_le_encodeChunks (rs.filter (fun r => !r.isEmpty))
        rw [hcw]; simp only [List.length_append]; omega) hm'
    rw [← hcw, flatten_filter_nonempty] at hrd
    unfold readBodyPart
    have hneg : ¬ ((-1 : Int) ≥ 0) := by omega
    simp only [mk, p.skip, Bool.false_eq_true, if_false, hneg, if_true, hrd, List.nil_append, List.map_nil,
      readTrailer_none, RespRead.setContentLength, WResp.seenHead, WBody.content, hb]
    rw [List.filter_append, hfil]
    simp [strTransferEncoding]


/-- `200 OK`, Server `hz`, Date `now`, Content-Type `t/p`, `X-Id: 7`, a cookie `a=b`, `Connection: close`, body `hello` -/
def exFixed : WResp :=
  { status := 200, reason := [79, 75], server := [104, 122], date := some [110, 111, 119],
    contentType := [116, 47, 112], h := [([88, 45, 73, 100], [55])], cookies := [[97, 61, 98]], connClose := true,
    body := .fixed [104, 101, 108, 108, 111] }

/-- `404 No`, `X-Id: 7`, body streamed in the pieces `he`, ``, `llo` -/
def exChunked : WResp :=
  { status := 404, reason := [78, 111], h := [([88, 45, 73, 100], [55])],
    body := .chunked [[104, 101], [], [108, 108, 111]] }

theorem writeHexInt_16p15 : writeHexInt (16 ^ 15) = [49, 48, 48, 48, 48, 48, 48, 48, 48, 48, 48, 48, 48, 48, 48, 48] := by
  decide +kernel

/-- a 16-digit chunk size is refused by `ReadHexInt` whatever follows -/
theorem parseChunkSize_16digits (e : End) (X : Bytes) :
    parseChunkSize e (writeHexInt (16 ^ 15) ++ 13 :: 10 :: X) = .error .bad := by
  rw [writeHexInt_16p15]
  have h0 : hex2int 48 = 0 := by decide +kernel
  have h1 : hex2int 49 = 1 := by decide +kernel
  simp [parseChunkSize, readHexInt, readHexIntAux, h0, h1, maxHex]

end Hertz.H1.RT
