import Hertz.Proofs.ConnMem
import Hertz.Proofs.Conn
/-!
Ownership of memory blocks in the memory-level model, and the frame property of the reader: an operation
other than `Release` / `Read` writes only behind the written part of the tail block and into blocks it has
just taken from the allocator.
-/
namespace Hertz.ConnMem
open Hertz Hertz.Conn

/-- `(block, end of the written part)` of a node -/
def MNode.core (nd : MNode) : Nat × Nat := (nd.blk, nd.base + nd.malloc)
def MReader.cores (s : MReader) : List (Nat × Nat) := s.nodes.map MNode.core
/-- the blocks the reader holds: chain, `caches`, private peek copies -/
def MReader.blocks (s : MReader) : List Nat := s.cores.map (·.1) ++ s.caches.map (·.2.1) ++ s.priv

/-- cell `k` of block `blk` may be visible through a slice handed out by `Peek`: it lies in the written part
of a node of the chain, or in a peek copy -/
def ProtR (s : MReader) (blk k : Nat) : Prop :=
  (∃ t ∈ s.cores, t.1 = blk ∧ k < t.2) ∨ blk ∈ s.caches.map (·.2.1) ∨ blk ∈ s.priv

/-- the reader's blocks, the other live blocks `L` (writer, caller) and the free list of the allocator are pairwise
distinct, and all were handed out before -/
def RGood (m : Mem) (s : MReader) (L : List Nat) : Prop :=
  (∀ x, (s.blocks ++ L ++ m.free.map (·.1)).count x ≤ 1) ∧
  (∀ x ∈ s.blocks ++ L ++ m.free.map (·.1), x < m.nextBlk)

/-- what a non-releasing step guarantees: protected cells stay protected and keep their content, and the other
live blocks are not touched -/
def Frame (m : Mem) (s : MReader) (L : List Nat) (m' : Mem) (s' : MReader) : Prop :=
  (∀ blk k, ProtR s blk k → ProtR s' blk k ∧ (m'.heap.get blk)[k]? = (m.heap.get blk)[k]?) ∧
  (∀ b ∈ L, m'.heap.get b = m.heap.get b)

theorem Frame.refl (m : Mem) (s : MReader) (L : List Nat) : Frame m s L m s :=
  ⟨fun _ _ h => ⟨h, rfl⟩, fun _ _ => rfl⟩

theorem Frame.trans {m s L m1 s1 m2 s2} (h1 : Frame m s L m1 s1) (h2 : Frame m1 s1 L m2 s2) : Frame m s L m2 s2 :=
  ⟨fun blk k hp => ⟨(h2.1 blk k (h1.1 blk k hp).1).1, ((h2.1 blk k (h1.1 blk k hp).1).2).trans (h1.1 blk k hp).2⟩,
   fun b hb => (h2.2 b hb).trans (h1.2 b hb)⟩

theorem ProtR.mem {s : MReader} {blk k : Nat} (h : ProtR s blk k) : blk ∈ s.blocks := by
  unfold MReader.blocks
  rcases h with ⟨t, ht, rfl, _⟩ | h | h
  · exact List.mem_append_left _ (List.mem_append_left _ (List.mem_map_of_mem ht))
  · exact List.mem_append_left _ (List.mem_append_right _ h)
  · exact List.mem_append_right _ h

/-! ## allocator -/

theorem pickFree_count (l : List (Nat × Nat)) (cap ch b : Nat) (rest : List (Nat × Nat))
    (h : pickFree l cap ch = some (b, rest)) (x : Nat) :
    (l.map (·.1)).count x = (rest.map (·.1)).count x + (if x = b then 1 else 0) := by
  induction l generalizing ch rest with
  | nil => simp [pickFree] at h
  | cons e t ih =>
    obtain ⟨b0, c0⟩ := e
    unfold pickFree at h
    by_cases hc : c0 = cap
    · simp only [hc, if_true] at h
      cases ch with
      | zero =>
        simp at h; obtain ⟨rfl, rfl⟩ := h
        simp only [List.map_cons, List.count_cons]
        by_cases hx : x = b0
        · subst hx; simp
        · have : ¬ b0 = x := fun h' => hx h'.symm
          simp [hx, this]
      | succ ch =>
        cases hp : pickFree t cap ch with
        | none => simp [hp] at h
        | some r =>
          obtain ⟨b1, r1⟩ := r
          simp [hp] at h; obtain ⟨rfl, rfl⟩ := h
          have := ih ch r1 hp
          simp [List.count_cons, this]; omega
    · simp only [hc, if_false] at h
      cases hp : pickFree t cap ch with
      | none => simp [hp] at h
      | some r =>
        obtain ⟨b1, r1⟩ := r
        simp [hp] at h; obtain ⟨rfl, rfl⟩ := h
        have := ih ch r1 hp
        simp [List.count_cons, this]; omega

theorem fresh_ok (m : Mem) (cap : Nat) (L : List Nat)
    (hn : ∀ x, (L ++ m.free.map (·.1)).count x ≤ 1) (hl : ∀ x ∈ L ++ m.free.map (·.1), x < m.nextBlk) :
    (∀ x, (L ++ (m.fresh cap).2.free.map (·.1)).count x + (if x = (m.fresh cap).1 then 1 else 0) ≤ 1) ∧
    (∀ x ∈ L ++ (m.fresh cap).2.free.map (·.1), x < (m.fresh cap).2.nextBlk) ∧
    (m.fresh cap).1 < (m.fresh cap).2.nextBlk ∧
    (∀ b, b ≠ (m.fresh cap).1 → (m.fresh cap).2.heap.get b = m.heap.get b) := by
  simp only [Mem.fresh]
  refine ⟨fun x => ?_, fun x hx => Nat.lt_succ_of_lt (hl x hx), Nat.lt_succ_self _, fun b hb => ?_⟩
  · by_cases hx : x = m.nextBlk
    · have : (L ++ m.free.map (·.1)).count x = 0 := by
        apply List.count_eq_zero.2
        intro hm; have := hl x hm; omega
      simp [hx] at this ⊢; omega
    · have := hn x; simp [hx]; simpa using this
  · simp [Heap.get_set, Ne.symm hb]

theorem alloc_ok (m : Mem) (size ch : Nat) (L : List Nat)
    (hn : ∀ x, (L ++ m.free.map (·.1)).count x ≤ 1) (hl : ∀ x ∈ L ++ m.free.map (·.1), x < m.nextBlk) :
    (∀ x, (L ++ (m.alloc size ch).2.free.map (·.1)).count x + (if x = (m.alloc size ch).1 then 1 else 0) ≤ 1) ∧
    (∀ x ∈ L ++ (m.alloc size ch).2.free.map (·.1), x < (m.alloc size ch).2.nextBlk) ∧
    (m.alloc size ch).1 < (m.alloc size ch).2.nextBlk ∧
    (∀ b, b ≠ (m.alloc size ch).1 → (m.alloc size ch).2.heap.get b = m.heap.get b) := by
  unfold Mem.alloc
  split
  · exact fresh_ok m size L hn hl
  · split
    · rename_i b rest hp
      have hc := pickFree_count m.free (capOf size) ch b rest hp
      refine ⟨fun x => ?_, fun x hx => ?_, ?_, fun _ _ => rfl⟩
      · have := hn x; rw [List.count_append, hc x] at this
        simp only [List.count_append]; omega
      · apply hl
        rcases List.mem_append.1 hx with h | h
        · exact List.mem_append_left _ h
        · apply List.mem_append_right
          have : 0 < (List.map (·.1) rest).count x := List.count_pos_iff.2 h
          apply List.count_pos_iff.1; rw [hc x]; omega
      · apply hl; apply List.mem_append_right
        apply List.count_pos_iff.1; rw [hc b]; simp
    · exact fresh_ok m (capOf size) L hn hl

/-- handing a block back keeps the books: it moves from the live blocks to the free list -/
theorem release_count (m : Mem) (blk cap : Nat) (x : Nat) :
    ((m.release blk cap).free.map (·.1)).count x ≤ (m.free.map (·.1)).count x + (if x = blk then 1 else 0) := by
  unfold Mem.release
  split
  · omega
  · simp [List.count_cons]; by_cases h : blk = x <;> simp [h, eq_comm] <;> omega

/-! ## reader: the tail write -/

theorem count_ge_two_absurd {l1 l2 : List Nat} {x : Nat} (h1 : x ∈ l1) (h2 : x ∈ l2)
    (h : (l1 ++ l2).count x ≤ 1) : False := by
  have a := List.count_pos_iff.2 h1
  have b := List.count_pos_iff.2 h2
  rw [List.count_append] at h; omega

/-- storing bytes behind the written part of the tail node -/
theorem tailWrite_ok (m : Mem) (s : MReader) (L : List Nat) (bs : Bytes) (hG : RGood m s L) (s2 : MReader)
    (hd : s2.done = s.done) (hm : s2.mid = s.mid)
    (hw : s2.w.blk = s.w.blk ∧ s2.w.base = s.w.base ∧ s2.w.malloc = s.w.malloc + bs.length)
    (hc : s2.caches = s.caches) (hp : s2.priv = s.priv) :
    let m2 : Mem := { m with heap := m.heap.write s.w.blk (s.w.base + s.w.malloc) bs }
    RGood m2 s2 L ∧ Frame m s L m2 s2 := by
  intro m2
  have hcores : s2.cores.map (·.1) = s.cores.map (·.1) := by
    simp [MReader.cores, MReader.nodes, hd, hm, MNode.core, hw.1]
  have hblocks : s2.blocks = s.blocks := by simp [MReader.blocks, hcores, hc, hp]
  have hwmem : s.w.blk ∈ s.cores.map (·.1) := by simp [MReader.cores, MReader.nodes, MNode.core]
  refine ⟨by simpa [RGood, hblocks] using hG, ⟨fun blk k hP => ?_, fun b hb => ?_⟩⟩
  · constructor
    · rcases hP with ⟨t, ht, h1, h2⟩ | h | h
      · left
        simp only [MReader.cores, MReader.nodes, List.map_append, List.mem_append, List.map_cons, List.map_nil,
          List.mem_singleton] at ht
        rcases ht with (ht | ht) | ht
        · refine ⟨t, ?_, h1, h2⟩
          show t ∈ (s2.done ++ s2.mid ++ [s2.w]).map MNode.core
          rw [hd, hm]; simp only [List.map_append, List.mem_append]; exact Or.inl (Or.inl ht)
        · refine ⟨t, ?_, h1, h2⟩
          show t ∈ (s2.done ++ s2.mid ++ [s2.w]).map MNode.core
          rw [hd, hm]; simp only [List.map_append, List.mem_append]; exact Or.inl (Or.inr ht)
        · refine ⟨s2.w.core, by simp [MReader.cores, MReader.nodes], ?_, ?_⟩
          · simp [MNode.core, hw.1, ← h1, ht]
          · simp [MNode.core, hw.2.1, hw.2.2]; simp [ht, MNode.core] at h2; omega
      · right; left; simpa [hc] using h
      · right; right; simpa [hp] using h
    · show ((m.heap.write s.w.blk (s.w.base + s.w.malloc) bs).get blk)[k]? = _
      by_cases hb : s.w.blk = blk
      · subst hb
        rw [Heap.get_write_eq]
        apply splice_getElem?_lt
        rcases hP with ⟨t, ht, h1, h2⟩ | h | h
        · simp only [MReader.cores, MReader.nodes, List.map_append, List.mem_append, List.map_cons, List.map_nil,
            List.mem_singleton] at ht
          rcases ht with ht | ht
          · exfalso
            have hmem : s.w.blk ∈ (s.done ++ s.mid).map (fun nd => nd.core.1) := by
              rw [← h1]; rcases ht with ht | ht
              · obtain ⟨nd, hnd, rfl⟩ := List.mem_map.1 ht
                exact List.mem_map.2 ⟨nd, List.mem_append_left _ hnd, rfl⟩
              · obtain ⟨nd, hnd, rfl⟩ := List.mem_map.1 ht
                exact List.mem_map.2 ⟨nd, List.mem_append_right _ hnd, rfl⟩
            have := hG.1 s.w.blk
            simp only [MReader.blocks, MReader.cores, MReader.nodes, List.map_append, List.map_map, List.count_append,
              List.map_cons, List.map_nil] at this
            have a := List.count_pos_iff.2 hmem
            simp only [List.map_append, List.count_append, Function.comp_def] at a this
            simp [MNode.core] at a this
            omega
          · simp [ht, MNode.core] at h2; exact h2
        · exfalso
          have := hG.1 s.w.blk
          have a := List.count_pos_iff.2 hwmem
          have b := List.count_pos_iff.2 h
          simp only [MReader.blocks, List.count_append] at this; omega
        · exfalso
          have := hG.1 s.w.blk
          have a := List.count_pos_iff.2 hwmem
          have b := List.count_pos_iff.2 h
          simp only [MReader.blocks, List.count_append] at this; omega
      · rw [Heap.get_write_ne _ _ _ _ _ hb]
  · show (m.heap.write s.w.blk (s.w.base + s.w.malloc) bs).get b = _
    by_cases hbe : s.w.blk = b
    · exfalso; subst hbe
      have := hG.1 s.w.blk
      have a := List.count_pos_iff.2 hwmem
      have b' := List.count_pos_iff.2 hb
      simp only [MReader.blocks, List.count_append] at this; omega
    · rw [Heap.get_write_ne _ _ _ _ _ hbe]

/-- a reader state that differs only in bookkeeping (`len`, `err`, `maxSize`, `off`, `readOnly`, ids) -/
theorem sameShape_ok (m : Mem) (s : MReader) (L : List Nat) (hG : RGood m s L) (s2 : MReader)
    (hcores : s2.cores = s.cores) (hc : s2.caches = s.caches) (hp : s2.priv = s.priv) :
    RGood m s2 L ∧ Frame m s L m s2 := by
  have hblocks : s2.blocks = s.blocks := by simp [MReader.blocks, hcores, hc, hp]
  refine ⟨by simpa [RGood, hblocks] using hG, fun blk k hP => ⟨?_, rfl⟩, fun _ _ => rfl⟩
  simpa [ProtR, hcores, hc, hp] using hP

/-- a block that comes from the allocator joins the reader and is written -/
theorem newBlock_ok (m : Mem) (s : MReader) (L : List Nat) (a : Nat × Mem)
    (ha1 : ∀ x, ((s.blocks ++ L) ++ a.2.free.map (·.1)).count x + (if x = a.1 then 1 else 0) ≤ 1)
    (ha2 : ∀ x ∈ (s.blocks ++ L) ++ a.2.free.map (·.1), x < a.2.nextBlk) (ha3 : a.1 < a.2.nextBlk)
    (ha4 : ∀ b, b ≠ a.1 → a.2.heap.get b = m.heap.get b)
    (s2 : MReader) (hb : ∀ x, s2.blocks.count x = s.blocks.count x + (if x = a.1 then 1 else 0))
    (hP : ∀ blk k, ProtR s blk k → ProtR s2 blk k) (pos : Nat) (bs : Bytes) (m3 : Mem)
    (hm3 : m3 = { a.2 with heap := a.2.heap.write a.1 pos bs }) :
    RGood m3 s2 L ∧ Frame m s L m3 s2 := by
  subst hm3
  have hne : ∀ x, x ∈ s.blocks ++ L → x ≠ a.1 := by
    intro x hx he
    have := ha1 x
    have c := List.count_pos_iff.2 hx
    rw [List.count_append] at this; simp [he] at this c; omega
  refine ⟨⟨fun x => ?_, fun x hx => ?_⟩, fun blk k hPr => ⟨hP blk k hPr, ?_⟩, fun b hb' => ?_⟩
  · have := ha1 x
    simp only [List.count_append] at this ⊢
    rw [hb x]; omega
  · simp only [List.mem_append] at hx
    rcases hx with (hx | hx) | hx
    · have c := List.count_pos_iff.2 hx
      rw [hb x] at c
      by_cases he : x = a.1
      · rw [he]; exact ha3
      · simp [he] at c
        exact ha2 x (List.mem_append_left _ (List.mem_append_left _ c))
    · exact ha2 x (List.mem_append_left _ (List.mem_append_right _ hx))
    · exact ha2 x (List.mem_append_right _ hx)
  · have h1 := hne blk (List.mem_append_left _ hPr.mem)
    show ((a.2.heap.write a.1 pos bs).get blk)[k]? = _
    rw [Heap.get_write_ne _ _ _ _ _ (Ne.symm h1), ha4 blk h1]
  · have h1 := hne b (List.mem_append_right _ hb')
    show (a.2.heap.write a.1 pos bs).get b = _
    rw [Heap.get_write_ne _ _ _ _ _ (Ne.symm h1), ha4 b h1]

theorem mfill_ok (m : Mem) (s : MReader) (wire : Wire) (i ch : Nat) (L : List Nat) (hG : RGood m s L)
    (e : Option Err) (m' : Mem) (s' : MReader) (w' : Wire) (h : mfill m s wire i ch = .ok (e, m', s', w')) :
    RGood m' s' L ∧ Frame m s L m' s' := by
  unfold mfill at h
  split at h
  · cases h; exact ⟨hG, Frame.refl _ _ _⟩
  · split at h
    · split at h <;> (cases h; exact sameShape_ok m s L hG _ rfl rfl rfl)
    · by_cases hc : (s.w.cap - s.w.malloc < i - s.len || s.w.readOnly) = true
      · simp only [hc, if_true] at h
        have ha := alloc_ok m (if i < s.maxSize then s.maxSize else i) ch (s.blocks ++ L) hG.1 hG.2
        have key : ∀ s2 : MReader, s2.done = s.done → s2.mid = s.mid ++ [{ s.w with readOnly := false }] →
            s2.w.blk = (m.alloc (if i < s.maxSize then s.maxSize else i) ch).1 → s2.caches = s.caches → s2.priv = s.priv →
            ∀ pos bs m3, m3 = { (m.alloc (if i < s.maxSize then s.maxSize else i) ch).2 with
              heap := (m.alloc (if i < s.maxSize then s.maxSize else i) ch).2.heap.write
                (m.alloc (if i < s.maxSize then s.maxSize else i) ch).1 pos bs } →
            RGood m3 s2 L ∧ Frame m s L m3 s2 := by
          intro s2 hd hm hw hcch hpr pos bs m3 hm3
          refine newBlock_ok m s L _ ha.1 ha.2.1 ha.2.2.1 ha.2.2.2 s2 ?_ ?_ pos bs m3 hm3
          · intro x
            simp only [MReader.blocks, MReader.cores, MReader.nodes, hd, hm, hcch, hpr, List.map_append, List.map_map,
              List.count_append, List.map_cons, List.map_nil, Function.comp_def, MNode.core, hw]
            simp only [List.count_cons, List.count_nil]
            by_cases hx : (m.alloc (if i < s.maxSize then s.maxSize else i) ch).1 = x
            · simp [hx]; omega
            · have : ¬ x = (m.alloc (if i < s.maxSize then s.maxSize else i) ch).1 := fun h' => hx h'.symm
              simp [hx, this]; omega
          · intro blk k hPr
            rcases hPr with ⟨t, ht, h1, h2⟩ | h' | h'
            · left; refine ⟨t, ?_, h1, h2⟩
              simp only [MReader.cores, MReader.nodes, hd, hm, List.map_append, List.mem_append, List.map_cons,
                List.map_nil, List.mem_singleton, MNode.core] at ht ⊢
              rcases ht with (ht | ht) | ht
              · exact Or.inl (Or.inl ht)
              · exact Or.inl (Or.inr (Or.inl ht))
              · exact Or.inl (Or.inr (Or.inr ht))
            · right; left; simpa [hcch] using h'
            · right; right; simpa [hpr] using h'
        split at h <;> first
          | (cases h; exact key _ (by rfl) (by rfl) (by rfl) (by rfl) (by rfl) _ _ _ (by rfl))
          | cases h
      · simp only [hc, if_false] at h
        have key := fun bs s2 hd hm hw hcch hpr => tailWrite_ok m s L bs hG s2 hd hm hw hcch hpr
        split at h <;> first
          | (cases h; exact key _ _ (by rfl) (by rfl) ⟨by rfl, by rfl, by rfl⟩ (by rfl) (by rfl))
          | cases h

theorem mskipWalk_cores (done mid : List MNode) (w : MNode) (n : Nat) (d' m' : List MNode) (w' : MNode)
    (h : mskipWalk done mid w n = .ok (d', m', w')) :
    (d' ++ m' ++ [w']).map MNode.core = (done ++ mid ++ [w]).map MNode.core := by
  induction mid generalizing done n with
  | nil =>
    cases n with
    | zero => simp [mskipWalk, pure, Except.pure] at h; obtain ⟨rfl, rfl, rfl⟩ := h; rfl
    | succ k =>
      simp only [mskipWalk] at h
      split at h
      · simp [pure, Except.pure] at h; obtain ⟨rfl, rfl, rfl⟩ := h; simp [MNode.core]
      · cases h
  | cons nd mid ih =>
    cases n with
    | zero => simp [mskipWalk, pure, Except.pure] at h; obtain ⟨rfl, rfl, rfl⟩ := h; rfl
    | succ k =>
      simp only [mskipWalk] at h
      split at h
      · simp [pure, Except.pure] at h; obtain ⟨rfl, rfl, rfl⟩ := h; simp [MNode.core]
      · have := ih _ _ h
        simpa using this

theorem mskip_ok (m : Mem) (s : MReader) (n : Nat) (L : List Nat) (hG : RGood m s L)
    (e : Option Err) (s' : MReader) (h : mskip s n = .ok (e, s')) :
    RGood m s' L ∧ Frame m s L m s' := by
  unfold mskip at h
  split at h
  · cases h; exact ⟨hG, Frame.refl _ _ _⟩
  · cases hw : mskipWalk s.done s.mid s.w n with
    | error f => simp [hw, bind, Except.bind] at h
    | ok r =>
      obtain ⟨d', m', w'⟩ := r
      simp only [hw, bind, Except.bind, pure, Except.pure] at h
      cases h
      exact sameShape_ok m s L hG _ (mskipWalk_cores _ _ _ _ _ _ _ hw) rfl rfl

theorem ok_trans {m s L m1 s1 m2 s2} (h1 : RGood m1 s1 L ∧ Frame m s L m1 s1)
    (h2 : RGood m2 s2 L ∧ Frame m1 s1 L m2 s2) : RGood m2 s2 L ∧ Frame m s L m2 s2 :=
  ⟨h2.1, h1.2.trans h2.2⟩

theorem mpeek_ok (m : Mem) (s : MReader) (wire : Wire) (i ch1 ch2 : Nat) (L : List Nat) (hG : RGood m s L)
    (p : Bytes × Option Ref) (e : Option Err) (m' : Mem) (s' : MReader) (w' : Wire)
    (h : mpeek m s wire i ch1 ch2 = .ok (p, e, m', s', w')) :
    RGood m' s' L ∧ Frame m s L m' s' := by
  unfold mpeek at h
  cases hf : mfill m s wire i ch1 with
  | error f => simp [hf, bind, Except.bind] at h
  | ok r =>
    obtain ⟨e1, m1, s1, w1⟩ := r
    have h1 := mfill_ok m s wire i ch1 L hG e1 m1 s1 w1 hf
    simp only [hf, bind, Except.bind] at h
    cases e1 with
    | some e1 => simp only [pure, Except.pure] at h; cases h; exact h1
    | none =>
      simp only at h
      -- the state after the short-read adjustment has the same shape
      have h2 := sameShape_ok m1 s1 L h1.1 (if s1.len < i then { s1 with err := none } else s1)
        (by split <;> rfl) (by split <;> rfl) (by split <;> rfl)
      generalize (if s1.len < i then { s1 with err := none } else s1) = s2 at h h2
      generalize (if s1.len < i then s1.len else i) = i' at h
      generalize (if s1.len < i then s1.err else none) = err' at h
      split at h
      · simp only [pure, Except.pure] at h; cases h
        exact ⟨h2.1, h1.2.trans h2.2⟩
      · cases hp : peekWalk (s2.cur.map (MNode.view m1.heap)) i' with
        | error f => simp [hp] at h
        | ok pb =>
          simp only [hp] at h
          split at h
          · -- a copy in a block from mcache, registered in `caches`
            simp only [pure, Except.pure] at h; cases h
            have ha := alloc_ok m1 i' ch2 (s2.blocks ++ L) h2.1.1 h2.1.2
            refine ok_trans (m1 := m1) (s1 := s2) ⟨h2.1, h1.2.trans h2.2⟩
              (newBlock_ok m1 s2 L _ ha.1 ha.2.1 ha.2.2.1 ha.2.2.2 _ ?_ ?_ 0 pb _ rfl)
            · intro x
              simp only [MReader.blocks, MReader.cores, MReader.nodes, List.map_append, List.count_append,
                List.map_cons, List.map_nil, List.count_cons, List.count_nil]
              by_cases hx : (m1.alloc i' ch2).1 = x
              · simp [hx]; omega
              · have : ¬ x = (m1.alloc i' ch2).1 := fun h' => hx h'.symm
                simp [hx, this]
            · intro blk k hPr
              rcases hPr with hh | hh | hh
              · exact Or.inl hh
              · right; left; simp only [List.map_append, List.mem_append]; exact Or.inl hh
              · exact Or.inr (Or.inr hh)
          · -- a private copy (`make`)
            simp only [pure, Except.pure] at h; cases h
            have ha := fresh_ok m1 i' (s2.blocks ++ L) h2.1.1 h2.1.2
            refine ok_trans (m1 := m1) (s1 := s2) ⟨h2.1, h1.2.trans h2.2⟩
              (newBlock_ok m1 s2 L _ ha.1 ha.2.1 ha.2.2.1 ha.2.2.2 _ ?_ ?_ 0 pb _ rfl)
            · intro x
              simp only [MReader.blocks, MReader.cores, MReader.nodes, List.map_append, List.count_append,
                List.map_cons, List.map_nil, List.count_cons, List.count_nil]
              by_cases hx : (m1.fresh i').1 = x
              · simp [hx]; omega
              · have : ¬ x = (m1.fresh i').1 := fun h' => hx h'.symm
                simp [hx, this]
            · intro blk k hPr
              rcases hPr with hh | hh | hh
              · exact Or.inl hh
              · exact Or.inr (Or.inl hh)
              · right; right; exact List.mem_cons_of_mem _ hh

/-- the slice `Peek` returns lies in protected cells of the state it leaves -/
theorem mpeek_ref_prot (m : Mem) (s : MReader) (wire : Wire) (i ch1 ch2 : Nat)
    (p : Bytes) (ref : Ref) (e : Option Err) (m' : Mem) (s' : MReader) (w' : Wire)
    (h : mpeek m s wire i ch1 ch2 = .ok ((p, some ref), e, m', s', w')) :
    ∀ k, ref.lo ≤ k → k < ref.hi → ProtR s' ref.blk k := by
  unfold mpeek at h
  cases hf : mfill m s wire i ch1 with
  | error f => simp [hf, bind, Except.bind] at h
  | ok r =>
    obtain ⟨e1, m1, s1, w1⟩ := r
    simp only [hf, bind, Except.bind] at h
    cases e1 with
    | some e1 => simp [pure, Except.pure] at h
    | none =>
      simp only at h
      generalize (if s1.len < i then { s1 with err := none } else s1) = s2 at h
      generalize (if s1.len < i then s1.len else i) = i' at h
      generalize (if s1.len < i then s1.err else none) = err' at h
      split at h
      · rename_i hlen
        simp only [pure, Except.pure] at h; cases h
        intro k hlo hhi
        left
        refine ⟨s'.readNode.core, ?_, rfl, ?_⟩
        · simp only [MReader.cores, MReader.nodes, MReader.readNode]
          cases s'.mid with
          | nil => simp
          | cons nd t => simp
        · simp only [MNode.core, MNode.len] at hlen hlo hhi ⊢; omega
      · cases hp : peekWalk (s2.cur.map (MNode.view m1.heap)) i' with
        | error f => simp [hp] at h
        | ok pb =>
          simp only [hp] at h
          split at h
          · simp only [pure, Except.pure] at h; cases h
            intro k _ _; right; left; simp
          · simp only [pure, Except.pure] at h; cases h
            intro k _ _; right; right; simp

/-- a reader operation other than `Release` / `Read` -/
theorem mstep_ok (m : Mem) (s : MReader) (wire : Wire) (ch1 ch2 : Nat) (op : Op) (L : List Nat) (hG : RGood m s L)
    (hk : op.keeps = true) (o : MOut) (m' : Mem) (s' : MReader) (w' : Wire)
    (h : mstep m s wire ch1 ch2 op = .ok (o, m', s', w')) :
    RGood m' s' L ∧ Frame m s L m' s' := by
  cases op with
  | peek n =>
    simp only [mstep] at h
    cases hp : mpeek m s wire n ch1 ch2 with
    | error f => simp [hp, bind, Except.bind] at h
    | ok r =>
      obtain ⟨p, e, m1, s1, w1⟩ := r
      simp only [hp, bind, Except.bind, pure, Except.pure] at h; cases h
      exact mpeek_ok m s wire n ch1 ch2 L hG p e _ _ _ hp
  | skip n =>
    simp only [mstep] at h
    cases hp : mskip s n with
    | error f => simp [hp, bind, Except.bind] at h
    | ok r =>
      obtain ⟨e, s1⟩ := r
      simp only [hp, bind, Except.bind, pure, Except.pure] at h; cases h
      exact mskip_ok m s n L hG e _ hp
  | readByte =>
    simp only [mstep] at h
    cases hp : mpeek m s wire 1 ch1 ch2 with
    | error f => simp [hp, bind, Except.bind] at h
    | ok r =>
      obtain ⟨p, e, m1, s1, w1⟩ := r
      have h1 := mpeek_ok m s wire 1 ch1 ch2 L hG p e _ _ _ hp
      simp only [hp, bind, Except.bind] at h
      cases e with
      | some e => simp only [pure, Except.pure] at h; cases h; exact h1
      | none =>
        simp only at h
        cases hs : mskip s1 1 with
        | error f => simp [hs] at h
        | ok r2 =>
          obtain ⟨e2, s2⟩ := r2
          have h2 := mskip_ok m1 s1 1 L h1.1 e2 _ hs
          simp only [hs] at h
          cases e2 with
          | some e2 => simp only [pure, Except.pure] at h; cases h; exact ok_trans h1 h2
          | none =>
            simp only at h
            split at h
            · cases h
            · simp only [pure, Except.pure] at h; cases h; exact ok_trans h1 h2
  | readBinary n =>
    simp only [mstep] at h
    cases hp : mpeek m s wire n ch1 ch2 with
    | error f => simp [hp, bind, Except.bind] at h
    | ok r =>
      obtain ⟨p, e, m1, s1, w1⟩ := r
      have h1 := mpeek_ok m s wire n ch1 ch2 L hG p e _ _ _ hp
      simp only [hp, bind, Except.bind] at h
      cases e with
      | some e => simp only [pure, Except.pure] at h; cases h; exact h1
      | none =>
        simp only at h
        cases hs : mskip s1 n with
        | error f => simp [hs] at h
        | ok r2 =>
          obtain ⟨e2, s2⟩ := r2
          have h2 := mskip_ok m1 s1 n L h1.1 e2 _ hs
          simp only [hs, pure, Except.pure] at h; cases h; exact ok_trans h1 h2
  | read k => simp [Op.keeps] at hk
  | release => simp [Op.keeps] at hk
  | len => simp only [mstep, pure, Except.pure] at h; cases h; exact ⟨hG, Frame.refl _ _ _⟩

end Hertz.ConnMem
