import Hertz.Proofs.ShutdownSpecRefine
/-!
Hypotheses shared by the proofs of the timing clauses of `Hertz.ShutdownSpec` (`bounded`, `prompt`) and of
`hooksRun`: how the spec's parameters relate to the model's configuration, and the scheduling discipline
"no goroutine that can move on its own is delayed" (`okSched`).
-/
namespace Hertz.Shutdown
open Hertz.ShutdownSpec

/-- the parameters handed to the spec predicate describe the configuration of the model -/
structure ParamsOk (p : Params) (cfg : Cfg) (n : Nat) : Prop where
  exitWait : p.exitWait = cfg.exitWait
  tick : cfg.tick ≤ p.tick
  nHooks : p.nHooks = n
  maxWait : p.maxWait ≤ cfg.maxWait

/-- a connection goroutine has a step to take that needs no input from outside: the exit check, the
response write, noticing that the peer has closed an idle connection, `updateActive(-1)` -/
def connBusy (cn : Conn) : Bool :=
  match cn.ph with
  | .returned _ _ | .checked _ _ | .closing => true
  | .idle => cn.peerClosed
  | _ => false

/-- a `Shutdown` caller that is not about to execute a non-blocking step (load, CAS, return) -/
def callerQuiet : CallerPh → Bool
  | .winner | .finished _ => true
  | _ => false

/-- the clock may advance by `d`: the winner of the CAS is blocked and is not woken before `now + d`
(`canAdvance`), no other `Shutdown` caller is between its call and its return, and no connection
goroutine has an internal step to take -/
def canTick (s : State) (d : Nat) : Bool :=
  canAdvance s d && s.callers.all callerQuiet && s.conns.all (fun cn => !connBusy cn)

/-- the scheduling / environment discipline of the timing clauses: no CAS of a `Shutdown` caller succeeds before
the listener exists (`okWin`, which excludes exactly the known finding), and the clock advances only under
`canTick` -/
def okSched (s : State) : Act → Bool
  | .shutCas _ => s.status != stRunning || s.lnSet
  | .advance d => canTick s d
  | _ => true

theorem okSched_okWin (s : State) (a : Act) (h : okSched s a = true) : okWin s a = true := by
  cases a <;> simp_all [okSched, okWin]

theorem okSched_actOk (s : State) (a : Act) (h : okSched s a = true) : actOk s a = true := by
  cases a <;> simp_all [okSched, actOk, canTick]

/-- every `Shutdown` call has returned to its caller -/
def CallersDone (s : State) : Prop := ∀ p ∈ s.callers, ∃ e, p = .finished e

end Hertz.Shutdown
