import Hertz.Model.ConnMem
/-!
Lemmas about the memory-level model of the buffered connection (`Model/ConnMem.lean`).
-/
namespace Hertz.ConnMem
open Hertz Hertz.Conn

/-! ## heap, slices -/

theorem Heap.get_filter_ne (h : Heap) (b b' : Nat) (hne : b ≠ b') :
    Heap.get (h.filter (fun e => e.1 != b)) b' = Heap.get h b' := by
  induction h with
  | nil => rfl
  | cons e t ih =>
    obtain ⟨k, v⟩ := e
    by_cases hk : k = b
    · subst hk
      have : ¬ k = b' := hne
      simp [List.filter, Heap.get, this, ih]
    · have : (k != b) = true := by simpa using hk
      simp [List.filter, this, Heap.get, ih]

theorem Heap.get_set (h : Heap) (b b' : Nat) (v : Bytes) :
    (h.set b v).get b' = if b = b' then v else h.get b' := by
  by_cases hb : b = b'
  · simp [Heap.set, Heap.get, hb]
  · simp [Heap.set, Heap.get, hb, Heap.get_filter_ne h b b' hb]

theorem Heap.get_write_ne (h : Heap) (b b' pos : Nat) (bs : Bytes) (hne : b ≠ b') :
    (h.write b pos bs).get b' = h.get b' := by
  simp [Heap.write, Heap.get_set, hne]

theorem Heap.get_write_eq (h : Heap) (b pos : Nat) (bs : Bytes) :
    (h.write b pos bs).get b = splice (h.get b) pos bs := by
  simp [Heap.write, Heap.get_set]

theorem splice_length (cells : Bytes) (pos : Nat) (bs : Bytes) : (splice cells pos bs).length = cells.length := by
  simp [splice]; omega

/-- a write at `pos` leaves every cell in front of `pos` alone -/
theorem splice_getElem?_lt (cells : Bytes) (pos : Nat) (bs : Bytes) (k : Nat) (hk : k < pos) :
    (splice cells pos bs)[k]? = cells[k]? := by
  unfold splice
  by_cases hp : pos ≤ cells.length
  · rw [List.append_assoc, List.getElem?_append_left (by simp; omega)]
    simp [List.getElem?_take, hk]
  · have h0 : cells.length - pos = 0 := by omega
    simp [h0, List.take_of_length_le (show cells.length ≤ pos by omega),
      List.drop_eq_nil_of_le (show cells.length ≤ pos + bs.length by omega)]

theorem slice_getElem? (cells : Bytes) (lo hi i : Nat) :
    (slice cells lo hi)[i]? = if i < hi - lo then cells[lo + i]? else none := by
  simp [slice, List.getElem?_take, List.getElem?_drop]

/-- slices that agree cell by cell are equal -/
theorem slice_congr (a b : Bytes) (lo hi : Nat) (h : ∀ k, lo ≤ k → k < hi → a[k]? = b[k]?) :
    slice a lo hi = slice b lo hi := by
  apply List.ext_getElem?
  intro i
  rw [slice_getElem?, slice_getElem?]
  split
  · exact h _ (by omega) (by omega)
  · rfl

theorem slice_empty (cells : Bytes) (lo hi : Nat) (h : hi ≤ lo) : slice cells lo hi = [] := by
  simp [slice, show hi - lo = 0 by omega]

/-- a sub-slice is an infix -/
theorem slice_sub (cells : Bytes) (lo lo' hi' hi : Nat) (h1 : lo ≤ lo') (h2 : lo' ≤ hi') (h3 : hi' ≤ hi) :
    ∃ a b, slice cells lo hi = a ++ slice cells lo' hi' ++ b := by
  refine ⟨slice cells lo lo', slice cells hi' hi, ?_⟩
  unfold slice
  have e1 : hi - lo = (lo' - lo) + ((hi' - lo') + (hi - hi')) := by omega
  have d1 : List.drop (lo' - lo) (List.drop lo cells) = List.drop lo' cells := by
    rw [List.drop_drop]; congr 1; omega
  have d2 : List.drop (hi' - lo') (List.drop lo' cells) = List.drop hi' cells := by
    rw [List.drop_drop]; congr 1; omega
  rw [e1, List.take_add, List.take_add, d1, d2, List.append_assoc]

/-! ## allocator -/

theorem Mem.release_heap (m : Mem) (b c : Nat) : (m.release b c).heap = m.heap := by
  unfold Mem.release; split <;> rfl

theorem MNode.release_heap (m : Mem) (nd : MNode) : (nd.release m).heap = m.heap := by
  unfold MNode.release; split <;> simp [Mem.release_heap]

/-! ## writer: `Flush` sends what the pending references read at that moment -/

theorem MNode.unreadRef_reset_read (h : Heap) (w : MNode) : h.read (w.reset).unreadRef = [] := by
  simp [MNode.reset, MNode.unreadRef, Heap.read, slice_empty]

theorem mflushLoop_spec (m : Mem) (pre : List MNode) (w : MNode) (len : Nat) (sc : WScript) :
    (mflushLoop m pre w len sc).2.2.1.heap = m.heap ∧
    ((mflushLoop m pre w len sc).1 = false →
      (mflushLoop m pre w len sc).2.1 = ((pre ++ [w]).map MNode.unreadRef).flatMap m.heap.read ∧
      (mflushLoop m pre w len sc).2.2.2.1 = [] ∧
      (mflushLoop m pre w len sc).2.2.2.2.1.len = 0) := by
  induction pre generalizing m sc with
  | nil =>
    unfold mflushLoop
    cases hs : wscriptNext sc with
    | mk f sc' =>
      cases f with
      | true => simp
      | false =>
        simp only [Bool.false_eq_true, if_false]
        split <;> simp [MNode.len, MNode.reset] <;> omega
  | cons h pre ih =>
    unfold mflushLoop
    cases hs : wscriptNext sc with
    | mk f sc' =>
      cases f with
      | true => simp
      | false =>
        simp only [Bool.false_eq_true, if_false]
        have := ih (h.release m) sc'
        rw [MNode.release_heap] at this
        refine ⟨this.1, fun hf => ?_⟩
        have h2 := this.2 hf
        simp [h2.1, h2.2.1, h2.2.2]

/-- A `Flush` that returns nil handed the peer, for every node of the output chain in order, the cells the
node refers to in the heap *as it is when `Flush` runs*; afterwards nothing is pending. -/
theorem mwFlush_spec (m : Mem) (s : MWriter) (sc : WScript) (hok : (mwFlush m s sc).1 = false) :
    (mwFlush m s sc).2.1 = s.pendingRefs.flatMap m.heap.read ∧
    (mwFlush m s sc).2.2.1.heap = m.heap ∧
    (mwFlush m s sc).2.2.2.1.pre = [] ∧ (mwFlush m s sc).2.2.2.1.w.len = 0 := by
  unfold mwFlush at hok ⊢
  cases hp : s.pre with
  | nil =>
    simp only [hp] at hok ⊢
    by_cases hl : s.w.len = 0
    · simp only [hl, if_true] at hok ⊢
      have he : slice (m.heap.get s.w.blk) (s.w.base + s.w.off) (s.w.base + s.w.malloc) = [] := by
        apply slice_empty; simp [MNode.len] at hl; omega
      simp [MWriter.pendingRefs, hp, MNode.unreadRef, Heap.read, he, hl]
    · simp only [hl, if_false] at hok ⊢
      have := mflushLoop_spec m [] s.w s.len sc
      have h2 := this.2 hok
      exact ⟨by simp [h2.1, MWriter.pendingRefs, hp], this.1, h2.2.1, h2.2.2⟩
  | cons h pre =>
    simp only [hp] at hok ⊢
    by_cases hl : h.len = 0
    · simp only [hl, if_true] at hok ⊢
      have := mflushLoop_spec (h.release m) pre s.w s.len sc
      rw [MNode.release_heap] at this
      have h2 := this.2 hok
      refine ⟨?_, this.1, h2.2.1, h2.2.2⟩
      have he : m.heap.read h.unreadRef = [] := by
        simp only [MNode.unreadRef, Heap.read]; apply slice_empty; simp [MNode.len] at hl; omega
      simp [h2.1, MWriter.pendingRefs, hp, he]
    · simp only [hl, if_false] at hok ⊢
      have := mflushLoop_spec m (h :: pre) s.w s.len sc
      have h2 := this.2 hok
      exact ⟨by simp [h2.1, MWriter.pendingRefs, hp], this.1, h2.2.1, h2.2.2⟩

/-- after a successful `Flush` no pending reference reads anything, whatever the memory holds later -/
theorem mwFlush_clears (m : Mem) (s : MWriter) (sc : WScript) (hok : (mwFlush m s sc).1 = false) (h' : Heap) :
    (mwFlush m s sc).2.2.2.1.pendingRefs.flatMap h'.read = [] := by
  obtain ⟨_, _, hpre, hlen⟩ := mwFlush_spec m s sc hok
  simp only [MWriter.pendingRefs, hpre, List.nil_append, List.map_cons, List.map_nil, List.flatMap_cons,
    List.flatMap_nil, List.append_nil]
  simp only [MNode.unreadRef, Heap.read]; apply slice_empty; simp [MNode.len] at hlen; omega

/-! ## writer: what `WriteBinary` and `Malloc` leave in the chain -/

/-- `WriteBinary(b)` with `len(b) ≥ block4k`: memory untouched, one more pending reference — `b` itself -/
theorem mwWriteBinary_big (m : Mem) (s : MWriter) (r : Ref) (ch : Nat) (hbig : block4k ≤ r.len) :
    ∃ m1 s1, mwWriteBinary m s r ch = .ok (r.len, m1, s1) ∧ s1.pendingRefs = s.pendingRefs ++ [r] := by
  have hlt : ¬ r.len < block4k := by omega
  have hlo : r.lo ≤ r.hi := by unfold Ref.len block4k at hbig; omega
  refine ⟨_, _, by simp only [mwWriteBinary, hlt, if_false]; rfl, ?_⟩
  · simp [MWriter.pendingRefs, MNode.unreadRef, Ref.len]
    cases r; simp at hlo ⊢; omega

/-- a reference lies inside the not yet sent part of a node of the output chain -/
def Covered (s : MWriter) (d : Ref) : Prop :=
  ∃ nd ∈ s.pre ++ [s.w], d.blk = nd.blk ∧ nd.base + nd.off ≤ d.lo ∧ d.lo ≤ d.hi ∧ d.hi ≤ nd.base + nd.malloc

theorem mwReserve_covered (m : Mem) (s : MWriter) (n ch : Nat) (d : Ref) (m1 : Mem) (s1 : MWriter)
    (hoff : s.w.off ≤ s.w.malloc)
    (h : mwReserve m s n ch = .ok (some d, m1, s1)) : Covered s1 d ∧ d.len = n := by
  unfold mwReserve at h
  by_cases hn : n = 0
  · simp [hn] at h; cases h
  · simp only [hn, if_false] at h
    by_cases hl : s.len > n
    · simp only [hl, if_true] at h
      split at h
      · cases h
      · cases h
        exact ⟨⟨_, List.mem_append_right _ (List.mem_singleton_self _), rfl, by simp; omega, by simp, by simp; omega⟩,
               by simp [Ref.len]⟩
    · simp only [hl, if_false] at h
      cases h
      exact ⟨⟨_, List.mem_append_right _ (List.mem_singleton_self _), rfl, by simp, by simp, by simp⟩, by simp [Ref.len]⟩

/-- later `Malloc`s keep an earlier reservation in the chain -/
theorem mwReserve_keeps (m : Mem) (s : MWriter) (n ch : Nat) (o : Option Ref) (m1 : Mem) (s1 : MWriter) (d : Ref)
    (hc : Covered s d) (h : mwReserve m s n ch = .ok (o, m1, s1)) : Covered s1 d := by
  unfold mwReserve at h
  by_cases hn : n = 0
  · simp [hn] at h; cases h; exact hc
  · simp only [hn, if_false] at h
    obtain ⟨nd, hm, hb, h1, h2, h3⟩ := hc
    by_cases hl : s.len > n
    · simp only [hl, if_true] at h
      split at h
      · cases h
      · cases h
        rcases List.mem_append.1 hm with hm | hm
        · exact ⟨nd, List.mem_append_left _ hm, hb, h1, h2, h3⟩
        · have : nd = s.w := by simpa using hm
          subst this
          exact ⟨_, List.mem_append_right _ (List.mem_singleton_self _), hb, h1, h2, by simp; omega⟩
    · simp only [hl, if_false] at h
      cases h
      exact ⟨nd, List.mem_append_left _ hm, hb, h1, h2, h3⟩

/-- so does `WriteBinary` -/
theorem mwWriteBinary_keeps (m : Mem) (s : MWriter) (r : Ref) (ch n : Nat) (m1 : Mem) (s1 : MWriter) (d : Ref)
    (hc : Covered s d) (h : mwWriteBinary m s r ch = .ok (n, m1, s1)) : Covered s1 d := by
  unfold mwWriteBinary at h
  by_cases hs : r.len < block4k
  · simp only [hs, if_true] at h
    cases hr : mwReserve m s r.len ch with
    | error e => simp [hr, bind, Except.bind] at h
    | ok v =>
      obtain ⟨dst, m2, s2⟩ := v
      have hk := mwReserve_keeps m s r.len ch dst m2 s2 d hc hr
      simp only [hr, bind, Except.bind] at h
      cases dst <;> (simp only [pure, Except.pure] at h; cases h; exact hk)
  · simp only [hs, if_false] at h
    cases h
    obtain ⟨nd, hm, hb, h1, h2, h3⟩ := hc
    exact ⟨nd, List.mem_append_left _ hm, hb, h1, h2, h3⟩

/-- a covered reference is sent by the next successful `Flush`, with the contents it has then -/
theorem covered_sent (s : MWriter) (d : Ref) (h' : Heap) (hc : Covered s d) :
    ∃ a b, s.pendingRefs.flatMap h'.read = a ++ h'.read d ++ b := by
  obtain ⟨nd, hm, hb, h1, h2, h3⟩ := hc
  obtain ⟨l1, l2, hl⟩ := List.append_of_mem hm
  obtain ⟨a, b, hab⟩ := slice_sub (h'.get nd.blk) (nd.base + nd.off) d.lo d.hi (nd.base + nd.malloc) h1 h2 h3
  refine ⟨(l1.map MNode.unreadRef).flatMap h'.read ++ a, b ++ (l2.map MNode.unreadRef).flatMap h'.read, ?_⟩
  simp only [MWriter.pendingRefs, hl, List.map_append, List.map_cons, List.flatMap_append, List.flatMap_cons]
  have : h'.read nd.unreadRef = a ++ h'.read d ++ b := by
    simp only [Heap.read, MNode.unreadRef, hb]; exact hab
  rw [this]; simp [List.append_assoc]

end Hertz.ConnMem
