import Hertz.Proofs.ReqRoundtripOws
import Hertz.Spec.Trailers
/-!
C01 (X01): trailer sections that differ from their announcement.

`parseTrailerLoop` goes through the fields of the section; every field lets `updateTrailer` fill the first announced
entry of its name that is still empty.  `Spec.Trailers.specTrailerView` says the same from the point of view of the
announced names (loop nesting exchanged).  Here: the loop on ANY well-formed section (`parseTrailerLoop_any`), the
exchange (`updAll_eq_viewSt`), and `ext.ReadTrailer` on any section (`readTrailerReq_any`).
-/
namespace Hertz.H1.RT
open Hertz Hertz.H1 Hertz.Gen.Str Hertz.Spec.Http Hertz.Spec.Trailers

/-- a trailer field as the reader keeps it: name normalised, value as the handler gets it -/
def tField (dn : Bool) (f : FLine) : Bytes × Bytes := (normalizeKey dn f.name, hval f)

/-- the trailer section as the reader uses it: fields with a forbidden name (`IsBadTrailer`) are skipped -/
def secSeen (dn : Bool) (trs : List FLine) : List (Bytes × Bytes) :=
  (trs.map (tField dn)).filter (fun kv => !isBadTrailer kv.1)

/-- the `err` variable of `parseTrailer` after the section: every field overwrites it -/
def errAfter (dn : Bool) : Bool → List FLine → Bool
  | err, [] => err
  | _, f :: t => errAfter dn (isBadTrailer (normalizeKey dn f.name)) t

/-- the LAST field of the section has a forbidden name -/
def lastBad (dn : Bool) (trs : List FLine) : Bool :=
  match trs.getLast? with
  | some f => isBadTrailer (normalizeKey dn f.name)
  | none => false

def fillAll (dn : Bool) : List (Bytes × Option Bytes) → List FLine → List (Bytes × Option Bytes)
  | tr, [] => tr
  | tr, f :: t =>
    fillAll dn (if isBadTrailer (normalizeKey dn f.name) then tr
                else updateTrailer tr (normalizeKey dn f.name) (hval f)) t

theorem errAfter_eq (dn : Bool) : ∀ (trs : List FLine) (err : Bool),
    errAfter dn err trs = (match trs.getLast? with
      | some f => isBadTrailer (normalizeKey dn f.name)
      | none => err)
  | [], err => rfl
  | [f], err => rfl
  | f :: g :: t, err => by
    have ih := errAfter_eq dn (g :: t) (isBadTrailer (normalizeKey dn f.name))
    simp only [errAfter] at ih ⊢
    rw [ih, List.getLast?_cons_cons]
    cases h : (g :: t).getLast? with
    | none => simp at h
    | some x => rfl

theorem errAfter_false (dn : Bool) (trs : List FLine) : errAfter dn false trs = lastBad dn trs := by
  rw [errAfter_eq]; rfl

/-- the scanning loop of `parseTrailer` on ANY well-formed trailer section, any announced entries, any `err` so far -/
theorem parseTrailerLoop_any (dn : Bool) : ∀ (todo : List FLine) (tr : List (Bytes × Option Bytes)) (err : Bool)
    (rest : Bytes) (hlen fuel : Nat), (∀ f ∈ todo, wfFLine f = true) → todo.length < fuel →
    parseTrailerLoop dn fuel (encFLines todo ++ 13 :: 10 :: rest) tr err hlen =
      if errAfter dn err todo = true then .error .bad
      else .ok (fillAll dn tr todo, hlen + (encFLines todo).length + 2)
  | [], tr, err, rest, hlen, fuel, _, hf => by
    obtain ⟨f, rfl⟩ : ∃ f, fuel = f + 1 := ⟨fuel - 1, by omega⟩
    cases err <;> simp [encFLines, parseTrailerLoop, scanNext, errAfter, fillAll]
  | fl :: todo, tr, err, rest, hlen, fuel, h, hf => by
    obtain ⟨f, rfl⟩ : ∃ f, fuel = f + 1 := ⟨fuel - 1, by omega⟩
    have hw := h fl (by simp)
    have hw' := hw
    simp only [wfFLine, Bool.and_eq_true] at hw'
    have hrest : ∀ f ∈ todo, wfFLine f = true := fun x hx => h x (by simp [hx])
    obtain ⟨h0, h32, h9⟩ := normalizeKey_facts dn fl.name hw'.1.1
    have hemp : (normalizeKey dn fl.name).isEmpty = false := by
      cases hh : normalizeKey dn fl.name with
      | nil => exact absurd hh h0
      | cons _ _ => rfl
    have e : encFLines (fl :: todo) ++ 13 :: 10 :: rest = encFLine fl ++ (encFLines todo ++ 13 :: 10 :: rest) := by
      simp [encFLines]
    rw [e]
    cases hbad : isBadTrailer (normalizeKey dn fl.name)
    · have ih := parseTrailerLoop_any dn todo (updateTrailer tr (normalizeKey dn fl.name) (hval fl)) false rest
        (hlen + (encFLine fl).length) f hrest (by simp at hf; omega)
      simp only [parseTrailerLoop, scanNext_fline dn fl _ hw (headOk_block todo rest hrest), hemp, h32, h9, hbad,
        Bool.false_eq_true, if_false, Bool.or_self, ih, encFLines_length_cons, errAfter, fillAll]
      simp [Nat.add_assoc]
    · have ih := parseTrailerLoop_any dn todo tr true rest
        (hlen + (encFLine fl).length) f hrest (by simp at hf; omega)
      simp only [parseTrailerLoop, scanNext_fline dn fl _ hw (headOk_block todo rest hrest), hemp, h32, h9, hbad,
        Bool.false_eq_true, if_false, Bool.or_self, if_true, ih, encFLines_length_cons, errAfter, fillAll]
      simp [Nat.add_assoc]

/-! ### exchange of the two loops -/

/-- the announced entries after the section `sec` went through them, computed entry by entry -/
def viewSt : List (Bytes × Option Bytes) → List (Bytes × Bytes) → List (Bytes × Option Bytes)
  | [], _ => []
  | (d, some v) :: t, sec => (d, some v) :: viewSt t sec
  | (d, none) :: t, sec =>
    match takeFirst d sec with
    | some (v, sec') => (d, some v) :: viewSt t sec'
    | none => (d, none) :: viewSt t sec

theorem viewSt_nil : ∀ tr : List (Bytes × Option Bytes), viewSt tr [] = tr
  | [] => rfl
  | (d, some v) :: t => by simp [viewSt, viewSt_nil t]
  | (d, none) :: t => by simp [viewSt, takeFirst, viewSt_nil t]

theorem viewSt_update : ∀ (tr : List (Bytes × Option Bytes)) (k v : Bytes) (s : List (Bytes × Bytes)),
    viewSt (updateTrailer tr k v) s = viewSt tr ((k, v) :: s)
  | [], k, v, s => by simp [updateTrailer, viewSt]
  | (d, some w) :: t, k, v, s => by
    simp [updateTrailer, viewSt, viewSt_update t k v s]
  | (d, none) :: t, k, v, s => by
    by_cases hd : d = k
    · subst hd
      simp [updateTrailer, viewSt, takeFirst]
    · have hk : ¬ k = d := fun h => hd h.symm
      simp only [updateTrailer, Option.isNone_none, hd, and_false, if_false, viewSt, takeFirst, hk]
      cases htf : takeFirst d s with
      | none => simp [viewSt_update t k v s]
      | some p =>
        obtain ⟨v', s'⟩ := p
        simp [viewSt_update t k v s']

def updAll (tr : List (Bytes × Option Bytes)) (sec : List (Bytes × Bytes)) : List (Bytes × Option Bytes) :=
  sec.foldl (fun t kv => updateTrailer t kv.1 kv.2) tr

/-- field by field (the code) = entry by entry (the specification) -/
theorem updAll_eq_viewSt : ∀ (sec : List (Bytes × Bytes)) (tr : List (Bytes × Option Bytes)), updAll tr sec = viewSt tr sec
  | [], tr => by simp [updAll, viewSt_nil]
  | (k, v) :: s, tr => by
    have ih := updAll_eq_viewSt s (updateTrailer tr k v)
    simp only [updAll, List.foldl_cons] at ih ⊢
    rw [ih, viewSt_update]

theorem fillAll_eq_updAll (dn : Bool) : ∀ (trs : List FLine) (tr : List (Bytes × Option Bytes)),
    fillAll dn tr trs = updAll tr (secSeen dn trs)
  | [], tr => rfl
  | f :: t, tr => by
    have ih1 := fillAll_eq_updAll dn t tr
    have ih2 := fillAll_eq_updAll dn t (updateTrailer tr (normalizeKey dn f.name) (hval f))
    cases hb : isBadTrailer (normalizeKey dn f.name) <;>
      simp_all [fillAll, secSeen, updAll, tField]

theorem viewSt_unfilled : ∀ (names : List Bytes) (sec : List (Bytes × Bytes)),
    filledTrailers (viewSt (names.map (fun k => (k, (none : Option Bytes)))) sec) = specTrailerView names sec
  | [], sec => rfl
  | d :: ds, sec => by
    simp only [List.map_cons, viewSt, specTrailerView]
    cases htf : takeFirst d sec with
    | none =>
      have ih := viewSt_unfilled ds sec
      simp only [filledTrailers, List.map_cons] at ih ⊢
      rw [ih]; rfl
    | some p =>
      obtain ⟨v, s'⟩ := p
      have ih := viewSt_unfilled ds s'
      simp only [filledTrailers, List.map_cons] at ih ⊢
      rw [ih]; rfl

/-- `ext.ReadTrailer` on ANY well-formed trailer section after ANY announcement: refused when the last field has a
forbidden name; otherwise the handler's trailers are `specTrailerView` and exactly the section is consumed -/
theorem readTrailerReq_any (cfg : Cfg) (e : End) (names : List Bytes) (trs : List FLine) (rest : Bytes)
    (h : ∀ f ∈ trs, wfFLine f = true) :
    readTrailerReq cfg e names (encFLines trs ++ 13 :: 10 :: rest) =
      if lastBad cfg.disableNorm trs = true then .error .bad
      else .ok (some (specTrailerView names (secSeen cfg.disableNorm trs)), rest) := by
  have hloop := parseTrailerLoop_any cfg.disableNorm trs (names.map (fun k => (k, (none : Option Bytes)))) false rest 0
    ((encFLines trs ++ 13 :: 10 :: rest).length + 1) h (by
      have := encFLines_length_ge trs
      simp only [List.length_append]; omega)
  rw [errAfter_false] at hloop
  simp only [Nat.zero_add] at hloop
  have hpt : parseTrailer cfg.disableNorm (names.map (fun k => (k, (none : Option Bytes)))) (encFLines trs ++ 13 :: 10 :: rest) =
      if lastBad cfg.disableNorm trs = true then .error .bad
      else .ok (fillAll cfg.disableNorm (names.map (fun k => (k, (none : Option Bytes)))) trs, (encFLines trs).length + 2) := by
    cases trs with
    | nil => simpa [parseTrailer, encFLines] using hloop
    | cons fl t =>
      have hw := h fl (by simp)
      simp only [wfFLine, Bool.and_eq_true] at hw
      obtain ⟨hk0, hkf⟩ := token_facts fl.name hw.1.1
      obtain ⟨a, k', hk⟩ := List.exists_cons_of_ne_nil hk0
      have e : encFLines (fl :: t) ++ 13 :: 10 :: rest =
          a :: (k' ++ 58 :: (fl.raw ++ 13 :: 10 :: (encConts fl.conts ++ (encFLines t ++ 13 :: 10 :: rest)))) := by
        simp [encFLines, encFLine, hk]
      rw [e] at hloop ⊢
      unfold parseTrailer
      split
      · rename_i r48 heq
        simp only [List.cons.injEq] at heq
        obtain ⟨ha, hr⟩ := heq
        subst hr
        have h3 : ¬ ((a :: (k' ++ 58 :: (fl.raw ++ 13 :: 10 :: (encConts fl.conts ++ (encFLines t ++ 13 :: 10 :: rest))))).length < 3) := by
          simp; omega
        have htk : ¬ (List.take 2 (k' ++ 58 :: (fl.raw ++ 13 :: 10 :: (encConts fl.conts ++ (encFLines t ++ 13 :: 10 :: rest)))) = strCRLF) := by
          cases k' with
          | nil => simp [strCRLF]
          | cons c k'' =>
            have := (hkf c (by simp [hk])).ne13
            simp [strCRLF, this]
        simp only [h3, if_false, htk]
        exact hloop
      · exact hloop
  have hne : (encFLines trs ++ 13 :: 10 :: rest).isEmpty = false := by simp
  unfold readTrailerReq
  simp only [hne, Bool.false_eq_true, if_false]
  rw [hpt]
  have hd : List.drop ((encFLines trs).length + 2) (encFLines trs ++ 13 :: 10 :: rest) = rest := by
    have e2 : encFLines trs ++ 13 :: 10 :: rest = (encFLines trs ++ [13, 10]) ++ rest := by simp
    rw [e2]; exact List.drop_left' (by simp)
  cases hlb : lastBad cfg.disableNorm trs
  · simp only [Bool.false_eq_true, if_false, hd]
    rw [fillAll_eq_updAll, updAll_eq_viewSt, viewSt_unfilled]
  · simp

/-! ### the `Trailer` declaration in every spelling (`Trailer.SetTrailers`) -/

theorem splitOn_eq_splitOnComma : ∀ v : Bytes, splitOn 44 v = splitOnComma v
  | [] => rfl
  | c :: t => by
    have ih := splitOn_eq_splitOnComma t
    simp only [splitOn, splitOnComma, ih]
    rfl

theorem splitOn_snoc (sep : UInt8) : ∀ a : Bytes, splitOn sep (a ++ [sep]) = splitOn sep a ++ [[]]
  | [] => by simp [splitOn]
  | c :: a => by
    have ih := splitOn_snoc sep a
    by_cases hc : c = sep
    · simp [splitOn, hc, ih]
    · simp only [List.cons_append, splitOn, hc, if_false, ih]
      cases hs : splitOn sep a with
      | nil => exact absurd hs (splitOn_ne_nil sep a)
      | cons s r => simp

theorem splitOn_mem (sep : UInt8) : ∀ (v : Bytes), ∀ e ∈ splitOn sep v, ∀ c ∈ e, c ∈ v
  | [], e, he, c, hc => by
    simp [splitOn] at he; subst he; simp at hc
  | x :: t, e, he, c, hc => by
    have ih := splitOn_mem sep t
    by_cases hx : x = sep
    · simp only [splitOn, hx, if_true, List.mem_cons] at he
      rcases he with he | he
      · subst he; simp at hc
      · exact List.mem_cons_of_mem _ (ih e he c hc)
    · simp only [splitOn, hx, if_false] at he
      cases hs : splitOn sep t with
      | nil => exact absurd hs (splitOn_ne_nil sep t)
      | cons s r =>
        rw [hs] at he ih
        simp only [List.mem_cons] at he
        rcases he with he | he
        · subst he
          simp only [List.mem_cons] at hc
          rcases hc with hc | hc
          · subst hc; simp
          · exact List.mem_cons_of_mem _ (ih s (by simp) c hc)
        · exact List.mem_cons_of_mem _ (ih e (by simp [he]) c hc)

theorem dropWhile_ext (p q : UInt8 → Bool) : ∀ l : Bytes, (∀ x ∈ l, p x = q x) → l.dropWhile p = l.dropWhile q
  | [], _ => rfl
  | c :: t, h => by
    have hc := h c (by simp)
    have ih := dropWhile_ext p q t (fun x hx => h x (by simp [hx]))
    simp only [List.dropWhile_cons, hc, ih]

/-- stripping SP / HTAB (hertz since 117944e) is stripping optional whitespace (RFC 7230); before the repair hertz
stripped SP only and this held for elements without HTAB -/
theorem stripOWS_eq_trimOWS : stripOWS = trimOWS := rfl

/-- `Trailer.SetTrailers` on ANY value = the RFC 7230 `#field-name` list rule (elements separated by
commas, optional whitespace around them stripped, empty elements ignored), then: names normalised, forbidden names
dropped, and the declaration is refused exactly when its LAST element is forbidden. -/
theorem setTrailers_list (dn : Bool) (v : Bytes) :
    setTrailers dn v =
      (((listElems v).map (normalizeKey dn)).filter (fun k => !isBadTrailer k),
       match ((listElems v).map (normalizeKey dn)).getLast? with
       | some k => isBadTrailer k
       | none => false) := by
  unfold setTrailers listElems
  by_cases hv : v = []
  · subst hv; simp [splitOnComma, trimOWS]
  · have hve : v.isEmpty = false := by simpa using hv
    simp only [hve, Bool.false_eq_true, if_false]
    rw [← splitOn_eq_splitOnComma]
    by_cases hl : v.getLast? = some 44
    · have hsplit : v.dropLast ++ [44] = v := by
        have h1 := List.dropLast_concat_getLast hv
        have h2 : v.getLast hv = 44 := by
          have := List.getLast?_eq_some_getLast hv
          rw [hl] at this
          exact (Option.some.inj this).symm
        rw [h2] at h1; exact h1
      have e1 : splitOn 44 v = splitOn 44 v.dropLast ++ [[]] := by
        conv => lhs; rw [← hsplit]
        exact splitOn_snoc 44 v.dropLast
      have e2 : (splitOn 44 v).dropLast = splitOn 44 v.dropLast := by rw [e1]; simp
      have e3 : ((splitOn 44 v).map trimOWS).filter (fun e => !e.isEmpty) =
          ((splitOn 44 v.dropLast).map trimOWS).filter (fun e => !e.isEmpty) := by
        rw [e1]; simp [trimOWS]
      simp only [hl, if_true, e2, e3, stripOWS_eq_trimOWS]
      rfl
    · simp only [hl, if_false, stripOWS_eq_trimOWS]
      rfl

/-! ### the keep-alive loop on requests whose trailer section is ANY list of well-formed field lines -/

/-- the raw names all `Trailer` fields announce, in order, behind `d` -/
def pickTRaw : List (Bytes × Bytes) → List Bytes → List Bytes
  | [], d => d
  | kv :: t, d => pickTRaw t (if cls kv.1 = .trailer then d ++ splitNames kv.2 else d)

theorem pickTRaw_map (dn : Bool) : ∀ (fs : List (Bytes × Bytes)) (d : List Bytes),
    (pickTRaw fs d).map (normalizeKey dn) = pickT dn fs (d.map (normalizeKey dn))
  | [], d => rfl
  | kv :: t, d => by
    simp only [pickTRaw, pickT]
    rw [pickTRaw_map dn t]
    by_cases hc : cls kv.1 = .trailer <;> simp [hc, declNames]

/-- `wfOReq` with the clause "the trailer section's names are the announced names, in order" replaced by "the last
field of the trailer section is not a forbidden trailer field" (such a section is answered 400, `readTrailerReq_any`):
the trailer section may leave out announced names, contain names that were not announced, repeat names, in any order. -/
def wfOReqT (dn : Bool) (r : OReq) : Bool :=
  match r.body with
  | .chunked cs last trs =>
    isToken r.method && wfTarget r.target && r.fields.all wfFLine && trs.all wfFLine &&
    (seenW r).fields.all (fun kv => cls kv.1 != .trailer || declOk dn kv.2) &&
    (!hasCls .cl (seenW r).fields && (teFields (seenW r).fields).length == 1 &&
      (teFields (seenW r).fields).all (fun kv => lowerAll kv.2 == sChunked) &&
      cs.all wfChunk && decide (last.length ≤ 15) && parseHex last == some 0) &&
    !lastBad dn trs
  | _ => wfOReq dn r

/-- what the handler is to see: as `expectedSeen`, the trailers being the specification's view of the section -/
def expectedSeenT (dn : Bool) (r : OReq) : Seen :=
  { expectedSeen dn (seenW r) with
    trailers := match r.body with
      | .chunked _ _ trs => specTrailerView (pickT dn (seenW r).fields []) (secSeen dn trs)
      | _ => (expectedSeen dn (seenW r)).trailers }

theorem expectedSeenT_connClose (dn : Bool) (r : OReq) : (expectedSeenT dn r).head.connClose = closes (seenW r) :=
  expectedSeen_connClose dn (seenW r)

theorem parseHeaders_encF (dn : Bool) (r : OReq) (hf : ∀ f ∈ r.fields, wfFLine f = true)
    (hfold : foldWf dn (st0 r.method r.target) (r.fields.map hField) = { head := expectedHead dn (seenW r), err := false })
    (rest : Bytes) :
    parseHeaders dn { method := r.method, uri := r.target, http11 := true } (encFLines r.fields ++ 13 :: 10 :: rest) =
      .ok (expectedHead dn (seenW r), (encFLines r.fields).length + 2) := by
  unfold parseHeaders
  have hloop := parseHeadersLoop_encO dn r.fields (st0 r.method r.target) 0
    ((encFLines r.fields ++ 13 :: 10 :: rest).length + 1) rest hf (by
      have := encFLines_length_ge r.fields
      simp; omega)
  have hst : ({ head := { ({ method := r.method, uri := r.target, http11 := true } : ReqHead) with cl := -2 } } : HdrState) =
      st0 r.method r.target := rfl
  rw [hst, hloop, hfold]
  simp only [finishLoop, Bool.false_eq_true, if_false, bind, Except.bind]
  have h11 : (expectedHead dn (seenW r)).http11 = true := rfl
  by_cases hneg : (expectedHead dn (seenW r)).cl < 0
  · have hcb := framingCl_fixed_nonneg (dn := dn) (seenW r) hneg
    simp only [hneg, if_true, h11]
    revert h11 hcb
    generalize expectedHead dn (seenW r) = E
    intro h11 hcb
    cases E
    simp_all
  · simp only [hneg, if_false, h11]
    simp

theorem parseReqHead_encF (dn : Bool) (r : OReq) (hm : isToken r.method = true) (ht : wfTarget r.target = true)
    (hf : ∀ f ∈ r.fields, wfFLine f = true)
    (hfold : foldWf dn (st0 r.method r.target) (r.fields.map hField) = { head := expectedHead dn (seenW r), err := false })
    (rest : Bytes) :
    parseReqHead dn (encHeadOfO r ++ rest) = .ok (expectedHead dn (seenW r), (encHeadOfO r).length) := by
  have e : encHeadOfO r ++ rest =
      r.method ++ 32 :: (r.target ++ 32 :: (strHTTP11 ++ 13 :: 10 :: (encFLines r.fields ++ 13 :: 10 :: rest))) := by
    simp [encHeadOfO, encHeadO]
  have hdrop : List.drop (r.method.length + 1 + r.target.length + 1 + 8 + 2)
      (r.method ++ 32 :: (r.target ++ 32 :: (strHTTP11 ++ 13 :: 10 :: (encFLines r.fields ++ 13 :: 10 :: rest)))) =
      encFLines r.fields ++ 13 :: 10 :: rest := by
    have e2 : r.method ++ 32 :: (r.target ++ 32 :: (strHTTP11 ++ 13 :: 10 :: (encFLines r.fields ++ 13 :: 10 :: rest))) =
        (r.method ++ 32 :: (r.target ++ 32 :: (strHTTP11 ++ [13, 10]))) ++ (encFLines r.fields ++ 13 :: 10 :: rest) := by
      simp
    rw [e2]
    exact List.drop_left' (by simp [strHTTP11]; omega)
  obtain ⟨n, hraw⟩ := rawHeaders_encFLines r.fields rest hf
  unfold parseReqHead
  rw [e, parseFirstLine_enc r.method r.target _ hm ht]
  simp only [bind, Except.bind, hdrop, hraw, parseHeaders_encF dn r hf hfold rest]
  rw [encHeadOfO_length]

structure ChunkedTFacts (dn : Bool) (r : OReq) (cs : List Chunk) (last : Bytes) (trs : List FLine) : Prop where
  hm : isToken r.method = true
  ht : wfTarget r.target = true
  hf : ∀ f ∈ r.fields, wfFLine f = true
  htw : ∀ f ∈ trs, wfFLine f = true
  hdecl : ∀ kv ∈ (seenW r).fields, cls kv.1 = .trailer → declOk dn kv.2 = true
  hcl : hasCls .cl (seenW r).fields = false
  hte1 : ((teFields (seenW r).fields).length == 1) = true
  hteall : ∀ kv ∈ teFields (seenW r).fields, lowerAll kv.2 = sChunked
  hcs : ∀ c ∈ cs, wfChunk c = true
  hl15 : last.length ≤ 15
  hl0 : parseHex last = some 0
  hlb : lastBad dn trs = false

theorem wfOReqT_facts {dn : Bool} (r : OReq) (cs : List Chunk) (last : Bytes) (trs : List FLine)
    (hb : r.body = .chunked cs last trs) (h : wfOReqT dn r = true) : ChunkedTFacts dn r cs last trs := by
  unfold wfOReqT at h
  rw [hb] at h
  simp only [Bool.and_eq_true, List.all_eq_true, Bool.or_eq_true, bne_iff_ne, ne_eq, Bool.not_eq_true', beq_iff_eq,
    decide_eq_true_eq] at h
  obtain ⟨⟨⟨⟨⟨⟨h1, h2⟩, h3⟩, h4⟩, h5⟩, ⟨⟨⟨⟨⟨h6, h7⟩, h8⟩, h9⟩, h10⟩, h11⟩⟩, h12⟩ := h
  exact { hm := h1, ht := h2, hf := h3, htw := h4,
          hdecl := fun kv hkv hc => by
            rcases h5 kv hkv with h | h
            · exact absurd hc h
            · exact h
          hcl := h6, hte1 := by simpa using h7, hteall := h8, hcs := h9, hl15 := h10, hl0 := h11, hlb := h12 }

theorem foldWf_T {dn : Bool} (r : OReq) (cs : List Chunk) (last : Bytes) (trs : List FLine)
    (hb : r.body = .chunked cs last trs) (F : ChunkedTFacts dn r cs last trs) :
    foldWf dn (st0 r.method r.target) (r.fields.map hField) = { head := expectedHead dn (seenW r), err := false } := by
  let w : WReq := { method := r.method, target := r.target, fields := r.fields.map hField,
                    body := .chunked cs last ((pickTRaw (r.fields.map hField) []).map (fun k => (k, ([] : Bytes)))) }
  have hfr : wfFramingL dn w.fields w.body = true := by
    have hn : ((pickTRaw (r.fields.map hField) []).map (fun k => (k, ([] : Bytes)))).map (fun kv => normalizeKey dn kv.1) =
        pickT dn (r.fields.map hField) [] := by
      rw [List.map_map]
      exact pickTRaw_map dn (r.fields.map hField) []
    have h1 := F.hcl
    have h2 := F.hte1
    have h3 := F.hteall
    have h4 := F.hcs
    have h5 := F.hl15
    have h6 := F.hl0
    have hs : (seenW r).fields = r.fields.map hField := rfl
    rw [hs] at h1 h2 h3
    simp only [wfFramingL, Bool.and_eq_true, List.all_eq_true, beq_iff_eq, decide_eq_true_eq, Bool.not_eq_true', w]
    exact ⟨⟨⟨⟨⟨⟨h1, by simpa using h2⟩, h3⟩, h4⟩, h5⟩, h6⟩, hn⟩
  have := foldWf_L dn w F.hdecl hfr
  have he : expectedHead dn w = expectedHead dn (seenW r) := by
    simp only [expectedHead, seenW, OReq.toW, hb, OBody.toW, framingCl, w]
  rw [← he]
  exact this

theorem continueReadBody_encT (cfg : Cfg) (e : End) (r : OReq) (cs : List Chunk) (last : Bytes) (trs : List FLine)
    (hb : r.body = .chunked cs last trs) (F : ChunkedTFacts cfg.disableNorm r cs last trs)
    (hlim : withinLimits cfg (seenW r) = true) (rest : Bytes) :
    continueReadBody cfg e (expectedHead cfg.disableNorm (seenW r)) (encBodyO r.body ++ rest) =
      .ok (expectedSeenT cfg.disableNorm r).head (expectedSeenT cfg.disableNorm r).body
        (expectedSeenT cfg.disableNorm r).trailers rest := by
  simp only [withinLimits, Bool.and_eq_true, Bool.or_eq_true, beq_iff_eq, decide_eq_true_eq, Bool.not_eq_true',
    Bool.and_eq_false_iff] at hlim
  obtain ⟨hmax, _⟩ := hlim
  have htr : (expectedHead cfg.disableNorm (seenW r)).trailer = pickT cfg.disableNorm (seenW r).fields [] := rfl
  have hsb : (seenW r).body = r.body.toW hField := rfl
  have hb' : (seenW r).body = .chunked cs last (trs.map hField) := by rw [hsb, hb]; rfl
  have hcl : (expectedHead cfg.disableNorm (seenW r)).cl = -1 := by simp [expectedHead, hb', framingCl]
  rw [hb'] at hmax
  simp only [bodyOf] at hmax
  have hrd := readBodyChunked_enc e cfg.maxBody last (encFLines trs ++ 13 :: 10 :: rest) F.hl0 F.hl15 cs []
    ((encBodyO (.chunked cs last trs) ++ rest).length + 1) (by
      have := encChunks_length_ge cs
      simp [encBodyO]; omega) F.hcs (by simpa using hmax)
  have e1 : encBodyO (.chunked cs last trs) ++ rest =
      encChunks cs ++ (last ++ 13 :: 10 :: (encFLines trs ++ 13 :: 10 :: rest)) := by
    simp [encBodyO]
  have htrl := readTrailerReq_any cfg e (pickT cfg.disableNorm (seenW r).fields []) trs rest F.htw
  rw [F.hlb] at htrl
  simp only [Bool.false_eq_true, if_false] at htrl
  unfold continueReadBody
  simp only [hcl]
  rw [hb, e1]
  rw [e1] at hrd
  simp only [show ¬ ((-1 : Int) > 0) by decide, if_false, show ¬ ((-1 : Int) = -2) by decide, if_true, hrd,
    List.nil_append, htr, htrl]
  simp [expectedSeenT, expectedSeen, hb', hb, bodyOf]

/-- one turn of the keep-alive loop, given what the head parser and the body reader return -/
theorem serveLoop_step_gen (cfg : Cfg) (e : End) (head body : Bytes) (hd : ReqHead) (sn : Seen) (fuel : Nat)
    (first : Bool) (rest : Bytes) (hlen : 4 ≤ head.length)
    (hp : parseReqHead cfg.disableNorm (head ++ (body ++ rest)) = .ok (hd, head.length))
    (hc : continueReadBody cfg e hd (body ++ rest) = .ok sn.head sn.body sn.trailers rest) :
    serveLoop cfg e (fuel + 1) first (head ++ (body ++ rest)) =
      (if mayContinue hd then [Ev.continue100] else []) ++
      [.req sn, .resp 200 (cfg.disableKeepalive || sn.head.connClose)] ++
      (if (cfg.disableKeepalive || sn.head.connClose) = true then [] else serveLoop cfg e fuel false rest) := by
  have hlen' : ¬ ((head ++ (body ++ rest)).length < 4) := by simp; omega
  have hdrop : List.drop head.length (head ++ (body ++ rest)) = body ++ rest := List.drop_left' rfl
  generalize hT : serveLoop cfg e fuel false rest = T
  have hstep : ∀ s, serveLoop cfg e (fuel + 1) first s =
      (if (!first && decide (s.length < 4)) = true then [] else
        match parseReqHead cfg.disableNorm s with
        | .error .bad => [.resp 400 true]
        | .error .needMore =>
          if s.isEmpty then (match e with | .eof => [] | .stall => [.resp 408 true])
          else (match e with | .eof => [.resp 400 true] | .stall => [.resp 408 true])
        | .ok (hd, n) =>
          match continueReadBody cfg e hd (s.drop n) with
          | .err .unmodelled => (if mayContinue hd then [Ev.continue100] else []) ++ [.unmodelled]
          | .err x =>
            (if mayContinue hd then [Ev.continue100] else []) ++
              (match errStatus x with
               | some st => [.resp st true]
               | none => if mayContinue hd then [.resp 400 true] else [])
          | .ok hd' body tr rest' =>
            (if mayContinue hd then [Ev.continue100] else []) ++
              [.req { head := hd', body := body, trailers := tr }, .resp 200 (cfg.disableKeepalive || hd'.connClose)] ++
              (if (cfg.disableKeepalive || hd'.connClose) = true then [] else serveLoop cfg e fuel false rest')) := by
    intro s; rfl
  rw [hstep]
  simp only [hlen', Bool.and_false, Bool.false_eq_true, if_false, decide_false]
  rw [hp]
  simp only [hdrop, hc]
  rw [hT]

theorem serveLoop_stepT (cfg : Cfg) (e : End) (r : OReq) (h : wfOReqT cfg.disableNorm r = true)
    (hlim : withinLimits cfg (seenW r) = true) (fuel : Nat) (first : Bool) (rest : Bytes) :
    serveLoop cfg e (fuel + 1) first (encReqO r ++ rest) =
      (if mayContinue (expectedHead cfg.disableNorm (seenW r)) then [Ev.continue100] else []) ++
      [.req (expectedSeenT cfg.disableNorm r), .resp 200 (cfg.disableKeepalive || closes (seenW r))] ++
      (if (cfg.disableKeepalive || closes (seenW r)) = true then [] else serveLoop cfg e fuel false rest) := by
  cases hb : r.body with
  | none =>
    have hw : wfOReq cfg.disableNorm r = true := by simpa [wfOReqT, hb] using h
    have hs : expectedSeenT cfg.disableNorm r = expectedSeen cfg.disableNorm (seenW r) := by simp [expectedSeenT, hb]
    rw [hs]; exact serveLoop_stepO cfg e r hw hlim fuel first rest
  | fixed b =>
    have hw : wfOReq cfg.disableNorm r = true := by simpa [wfOReqT, hb] using h
    have hs : expectedSeenT cfg.disableNorm r = expectedSeen cfg.disableNorm (seenW r) := by simp [expectedSeenT, hb]
    rw [hs]; exact serveLoop_stepO cfg e r hw hlim fuel first rest
  | chunked cs last trs =>
    have F := wfOReqT_facts r cs last trs hb h
    have hfold := foldWf_T r cs last trs hb F
    have e1 : encReqO r ++ rest = encHeadOfO r ++ (encBodyO r.body ++ rest) := by simp [encReqO]
    have hlen : 4 ≤ (encHeadOfO r).length := by
      have := encHeadOfO_length r; omega
    have hp := parseReqHead_encF cfg.disableNorm r F.hm F.ht F.hf hfold (encBodyO r.body ++ rest)
    have hc := continueReadBody_encT cfg e r cs last trs hb F hlim rest
    have := serveLoop_step_gen cfg e (encHeadOfO r) (encBodyO r.body) (expectedHead cfg.disableNorm (seenW r))
      (expectedSeenT cfg.disableNorm r) fuel first rest hlen hp hc
    rw [e1, this, expectedSeenT_connClose]

theorem serveLoop_encT (cfg : Cfg) (e : End) : ∀ (rs : List OReq) (fuel : Nat) (first : Bool), rs.length < fuel →
    (∀ r ∈ rs, wfOReqT cfg.disableNorm r = true ∧ withinLimits cfg (seenW r) = true) →
    handled (serveLoop cfg e fuel first (encAllO rs)) =
      (servedBy cfg.disableKeepalive (fun r => closes (seenW r)) rs).map (expectedSeenT cfg.disableNorm)
  | [], fuel, first, hf, _ => by
    obtain ⟨f, rfl⟩ : ∃ f, fuel = f + 1 := ⟨fuel - 1, by omega⟩
    have hp : parseReqHead cfg.disableNorm [] = .error .needMore := by
      simp [parseReqHead, parseFirstLine, parseFirstLineAux, nextLine, indexByte, bind, Except.bind]
    cases first <;> cases e <;> simp [serveLoop, encAllO, servedBy, handled, hp]
  | r :: rs, fuel, first, hf, hw => by
    obtain ⟨f, rfl⟩ : ∃ f, fuel = f + 1 := ⟨fuel - 1, by omega⟩
    obtain ⟨hwf, hlim⟩ := hw r (by simp)
    have ih := serveLoop_encT cfg e rs f false (by simp at hf; omega) (fun x hx => hw x (by simp [hx]))
    have e1 : encAllO (r :: rs) = encReqO r ++ encAllO rs := rfl
    rw [e1, serveLoop_stepT cfg e r hwf hlim]
    unfold handled at ih ⊢
    simp only [List.filterMap_append]
    have hp := handled_pre (mayContinue (expectedHead cfg.disableNorm (seenW r)))
    unfold handled at hp
    rw [hp]
    cases hc : (cfg.disableKeepalive || closes (seenW r))
    · simp [servedBy, hc, ih]
    · simp [servedBy, hc]

/-- the loop on any list of requests with ANY well-formed trailer sections -/
theorem serve_encT (cfg : Cfg) (e : End) (rs : List OReq)
    (hw : ∀ r ∈ rs, wfOReqT cfg.disableNorm r = true ∧ withinLimits cfg (seenW r) = true) :
    handled (serve cfg e (encAllO rs)) =
      (servedBy cfg.disableKeepalive (fun r => closes (seenW r)) rs).map (expectedSeenT cfg.disableNorm) :=
  serveLoop_encT cfg e rs _ true (by have := encAllO_length_ge rs; omega) hw

/-- `wfOReq` is the special case "names of the section = announced names, in order" -/
theorem wfOReqT_of_wfOReq {dn : Bool} (r : OReq) (h : wfOReq dn r = true) : wfOReqT dn r = true := by
  cases hb : r.body with
  | none => simpa [wfOReqT, hb] using h
  | fixed b => simpa [wfOReqT, hb] using h
  | chunked cs last trs =>
    obtain ⟨h1, h2, h3, h4, h5, h6, _⟩ := wfOReq_facts r h
    have hsb : (seenW r).body = .chunked cs last (trs.map hField) := by
      show r.body.toW hField = _
      rw [hb]; rfl
    rw [hsb] at h6
    rw [hb] at h4
    simp only [OBody.trailers] at h4
    simp only [wfFramingL, Bool.and_eq_true, List.all_eq_true, beq_iff_eq, decide_eq_true_eq, Bool.not_eq_true'] at h6
    obtain ⟨⟨⟨⟨⟨⟨g1, g2⟩, g3⟩, g4⟩, g5⟩, g6⟩, g7⟩ := h6
    have hnb := pickT_notbad dn (seenW r).fields [] h5 (by simp)
    have hlb : lastBad dn trs = false := by
      unfold lastBad
      cases hl : trs.getLast? with
      | none => rfl
      | some f =>
        have hmem : f ∈ trs := List.mem_of_getLast? hl
        apply hnb
        rw [← g7]
        simp only [List.map_map]
        exact List.mem_map_of_mem (f := fun f => normalizeKey dn (hField f).1) hmem
    simp only [wfOReqT, hb, Bool.and_eq_true, List.all_eq_true, Bool.or_eq_true, bne_iff_ne, ne_eq, Bool.not_eq_true',
      beq_iff_eq, decide_eq_true_eq]
    refine ⟨⟨⟨⟨⟨⟨h1, h2⟩, h3⟩, h4⟩, ?_⟩, ⟨⟨⟨⟨⟨g1, g2⟩, g3⟩, g4⟩, g5⟩, g6⟩⟩, hlb⟩
    intro kv hkv
    by_cases hc : cls kv.1 = .trailer
    · right; exact h5 kv hkv hc
    · left; exact hc

/-! ### the strict decoder reads these requests: they are in the specification's language -/

theorem framingSame_T {dn : Bool} (r : OReq) (cs : List Chunk) (last : Bytes) (trs : List FLine)
    (F : ChunkedTFacts dn r cs last trs) : framingSame r = true := by
  let r' : OReq := { r with body := .chunked cs last ((pickTRaw (r.fields.map hField) []).map (fun k => (⟨k, [], []⟩ : FLine))) }
  have hfr : wfFramingL dn (seenW r').fields (seenW r').body = true := by
    have hn : (((pickTRaw (r.fields.map hField) []).map (fun k => (⟨k, [], []⟩ : FLine))).map hField).map
        (fun kv => normalizeKey dn kv.1) = pickT dn (r.fields.map hField) [] := by
      rw [List.map_map, List.map_map]
      exact pickTRaw_map dn (r.fields.map hField) []
    have h1 := F.hcl
    have h2 := F.hte1
    have h3 := F.hteall
    have hs : (seenW r).fields = r.fields.map hField := rfl
    rw [hs] at h1 h2 h3
    show wfFramingL dn (r.fields.map hField) (.chunked cs last _) = true
    simp only [wfFramingL, Bool.and_eq_true, List.all_eq_true, beq_iff_eq, decide_eq_true_eq, Bool.not_eq_true']
    exact ⟨⟨⟨⟨⟨⟨h1, by simpa using h2⟩, h3⟩, F.hcs⟩, F.hl15⟩, F.hl0⟩, hn⟩
  exact framingSame_of_framing r' F.hf hfr

/-- The strict decoder reads one chunked request with ANY well-formed trailer section back, and leaves what follows. -/
theorem decodeOne_encT {dn : Bool} (r : OReq) (h : wfOReqT dn r = true) (rest : Bytes) :
    decodeOne (encReqO r ++ rest) = some (toSpec (strictW r), rest) := by
  cases hb : r.body with
  | none => exact decodeOne_encO (dn := dn) r (by simpa [wfOReqT, hb] using h) rest
  | fixed b => exact decodeOne_encO (dn := dn) r (by simpa [wfOReqT, hb] using h) rest
  | chunked cs last trs =>
    have F := wfOReqT_facts r cs last trs hb h
    have hm := F.hm
    have ht := F.ht
    have hf := F.hf
    have htw := F.htw
    have hsame := framingSame_T r cs last trs F
    obtain ⟨_, hmf⟩ := token_facts r.method hm
    obtain ⟨_, htf⟩ := target_facts r.target ht
    have e : encReqO r ++ rest = (r.method ++ 32 :: (r.target ++ 32 :: strHTTP11)) ++ 13 :: 10 ::
        (encFLines r.fields ++ 13 :: 10 :: (encBodyO r.body ++ rest)) := by
      simp [encReqO, encHeadOfO, encHeadO]
    have hs1 := splitAt1_enc 32 r.method (r.target ++ 32 :: strHTTP11) (fun x hx => (hmf x hx).ne32)
    have hs2 := splitAt1_enc 32 r.target strHTTP11 (fun x hx => (htf x hx).2)
    have hfc := hasFoldedColon_encO r.fields (encBodyO r.body ++ rest) hf
      ((encFLines r.fields ++ 13 :: 10 :: (encBodyO r.body ++ rest)).length + 1)
    have hfa := fieldsAux_encO r.fields [] (encBodyO r.body ++ rest)
      ((encFLines r.fields ++ 13 :: 10 :: (encBodyO r.body ++ rest)).length + 1) (by
        have := nLines_le r.fields; simp; omega) hf
    have htgt : (r.target.isEmpty || !r.target.all (fun c => 33 ≤ c && c != 127)) = false := by
      simp only [wfTarget, Bool.and_eq_true, Bool.not_eq_true'] at ht
      simp [ht.1, ht.2]
    have hver : (strHTTP11 != sHTTP11) = false := by decide
    have hsf := framingSame_facts r hsame
    have hlcl := lookupAll_same sContentLength (fun k hk => Or.inl ((cls_cl_iff k).mpr hk)) r.fields hsf
    have hlte := lookupAll_same sTransferEncoding (fun k hk => Or.inr ((cls_te_iff k).mpr hk)) r.fields hsf
    have hcl := F.hcl
    have hlen := F.hte1
    have hval := F.hteall
    have hsfields : (seenW r).fields = r.fields.map hField := rfl
    rw [hsfields] at hcl hlen hval
    unfold decodeOne
    rw [e]
    simp only [crlfLine_enc _ _ (request_line_clean r.method r.target hm ht), hs1, hs2, hfc, hfa, hm, htgt, hver,
      Option.bind_eq_bind, Option.bind_some, Bool.not_true, Bool.or_false, Bool.false_eq_true, if_false,
      Option.pure_def, List.reverse_nil, List.nil_append, Bool.false_or, hlcl, hlte]
    generalize hH : r.fields.map hField = fsH at hcl hlen hval
    have hnoCL_of : hasCls .cl fsH = false → lookupAll fsH sContentLength = [] := by
      intro hcl
      rw [lookupAll_cl, filter_nil_of_hasCls _ _ hcl]; rfl
    obtain ⟨te, hte1⟩ : ∃ te, teFields fsH = [te] := by
      match hm : teFields fsH, hlen with
      | [te], _ => exact ⟨te, rfl⟩
    have hteval := hval te (by rw [hte1]; simp)
    rw [hnoCL_of hcl, lookupAll_te, hte1]
    have hch := chunksAux_enc last (encFLines trs ++ 13 :: 10 :: rest) F.hl0 F.hl15 cs []
      ((encBodyO (.chunked cs last trs) ++ rest).length + 1) (by
        have := encChunks_length_ge cs
        simp [encBodyO]; omega) F.hcs
    have e1 : encBodyO (.chunked cs last trs) ++ rest =
        encChunks cs ++ (last ++ 13 :: 10 :: (encFLines trs ++ 13 :: 10 :: rest)) := by
      simp [encBodyO]
    have htf := fieldsAux_encO trs [] rest ((encFLines trs ++ 13 :: 10 :: rest).length + 1) (by
      have := nLines_le trs
      simp only [List.length_append]; omega) htw
    rw [hb, e1]
    rw [e1] at hch
    have hne : (lowerAll te.2 != sChunked) = false := by simp [hteval]
    simp only [List.map_cons, List.map_nil, hne, Bool.false_eq_true, if_false, hch, Option.bind_some, htf]
    simp [toSpec, strictW, OReq.toW, hb, OBody.toW, bodyOf]

theorem decodeAllAux_encT {dn : Bool} : ∀ (rs : List OReq) (acc : List Req) (fuel : Nat), rs.length < fuel →
    (∀ r ∈ rs, wfOReqT dn r = true) →
    decodeAllAux fuel (encAllO rs) acc = some (acc.reverse ++ rs.map (fun r => toSpec (strictW r)))
  | [], acc, fuel, hf, _ => by
    obtain ⟨f, rfl⟩ : ∃ f, fuel = f + 1 := ⟨fuel - 1, by omega⟩
    simp [decodeAllAux, encAllO]
  | r :: rs, acc, fuel, hf, hw => by
    obtain ⟨f, rfl⟩ : ∃ f, fuel = f + 1 := ⟨fuel - 1, by omega⟩
    have hne : (encAllO (r :: rs)).isEmpty = false := by
      have := encReqO_length_pos r
      cases hE : encAllO (r :: rs) with
      | nil => simp [encAllO] at hE; rw [hE.1] at this; simp at this
      | cons _ _ => rfl
    have ih := decodeAllAux_encT rs (toSpec (strictW r) :: acc) f (by simp at hf; omega) (fun x hx => hw x (by simp [hx]))
    simp only [decodeAllAux, hne, Bool.false_eq_true, if_false]
    show (match decodeOne (encReqO r ++ encAllO rs) with
      | none => none
      | some (r', rest) => decodeAllAux f rest (r' :: acc)) = _
    rw [decodeOne_encT r (hw r (by simp))]
    simp [ih]

/-- The strict decoder accepts every stream of requests with ANY well-formed trailer sections and reads it back as the
readings `strictW` (trailer sections in wire order, values `sval`). -/
theorem decodeAll_encT {dn : Bool} (rs : List OReq) (hw : ∀ r ∈ rs, wfOReqT dn r = true) :
    decodeAll (encAllO rs) = some (rs.map (fun r => toSpec (strictW r))) := by
  unfold decodeAll
  rw [decodeAllAux_encT rs [] _ (by have := encAllO_length_ge rs; omega) hw]
  simp

end Hertz.H1.RT
