import Hertz.Proofs.PathSpec
/-!
# Segment view of byte paths, and `normalizePath = Spec.normalize`

Part 1 (toolkit, also used by `Hertz.Proofs.CleanPath`): `render` of slash-free segments and
`splitSlash` are inverse to each other.
Part 2: every phase of `normalizePath` acts on the segment list in a way that the stack machine
`Spec.resolve` cannot see, and the last phase lands exactly on the stack machine's answer.
-/
namespace Hertz.PathSeg
open Hertz Hertz.Spec

/-! ### toolkit: slash-free segments -/

theorem render_append (a b : List Bytes) : render (a ++ b) = render a ++ render b := by
  simp [render]

theorem dropWhile_sf : ∀ (l1 l2 : Bytes), 47 ∉ l1 → (l1 ++ 47 :: l2).dropWhile (· != 47) = 47 :: l2
  | [], _, _ => by simp
  | x :: xs, l2, h => by
    have hx : x ≠ 47 := fun e => h (by simp [e])
    have := dropWhile_sf xs l2 (fun hm => h (by simp [hm]))
    simp [hx, this]

theorem takeWhile_sf : ∀ (l1 l2 : Bytes), 47 ∉ l1 → (l1 ++ 47 :: l2).takeWhile (· != 47) = l1
  | [], _, _ => by simp
  | x :: xs, l2, h => by
    have hx : x ≠ 47 := fun e => h (by simp [e])
    have := takeWhile_sf xs l2 (fun hm => h (by simp [hm]))
    simp [hx, this]

theorem mem_takeWhile_sat {α} (q : α → Bool) : ∀ (l : List α) (x : α), x ∈ l.takeWhile q → q x = true
  | [], _, h => by simp at h
  | a :: t, x, h => by
    by_cases ha : q a = true
    · simp only [List.takeWhile_cons, ha, if_true] at h
      rcases List.mem_cons.mp h with e | e
      · rw [e]; exact ha
      · exact mem_takeWhile_sat q t x e
    · simp [ha] at h

theorem splitSlash_sf_append : ∀ (s x : Bytes), 47 ∉ s → splitSlash (s ++ 47 :: x) = s :: splitSlash x
  | [], x, _ => by simp [splitSlash]
  | c :: s', x, h => by
    have hc : c ≠ 47 := fun e => h (by simp [e])
    have ih := splitSlash_sf_append s' x (fun hm => h (by simp [hm]))
    simp only [List.cons_append, splitSlash, hc, if_false, ih]

theorem splitSlash_sf : ∀ (s : Bytes), 47 ∉ s → splitSlash s = [s]
  | [], _ => by simp [splitSlash]
  | c :: s', h => by
    have hc : c ≠ 47 := fun e => h (by simp [e])
    have ih := splitSlash_sf s' (fun hm => h (by simp [hm]))
    simp only [splitSlash, hc, if_false, ih]

/-- splitting the rendering of slash-free segments gives the segments back -/
theorem splitSlash_render : ∀ (s : Bytes) (r : List Bytes), 47 ∉ s → (∀ x ∈ r, 47 ∉ x) →
    splitSlash (s ++ render r) = s :: r
  | s, [], h, _ => by simpa [render] using splitSlash_sf s h
  | s, s2 :: r, h, hr => by
    rw [render_cons, List.cons_append, splitSlash_sf_append s _ h,
      splitSlash_render s2 r (hr s2 (by simp)) (fun x hx => hr x (by simp [hx]))]

theorem segsOf_render (segs : List Bytes) (hne : segs ≠ []) (hsf : ∀ x ∈ segs, 47 ∉ x) :
    segsOf (render segs) = some segs := by
  cases segs with
  | nil => exact absurd rfl hne
  | cons s r =>
    rw [render_cons]
    simp only [List.cons_append, segsOf]
    rw [splitSlash_render s r (hsf s (by simp)) (fun x hx => hsf x (by simp [hx]))]


/-! ## Part 2: `normalizePath` on segment lists -/

/-- all segments slash-free -/
def SF (segs : List Bytes) : Prop := ∀ s ∈ segs, 47 ∉ s

theorem SF_cons {s : Bytes} {r : List Bytes} (h : SF (s :: r)) : 47 ∉ s ∧ SF r :=
  ⟨h s (by simp), fun x hx => h x (by simp [hx])⟩

theorem splitSlash_SF : ∀ b : Bytes, SF (splitSlash b)
  | [] => by intro s hs; simp [splitSlash] at hs; subst hs; simp
  | c :: t => by
    have ih := splitSlash_SF t
    simp only [splitSlash]
    split
    · intro s hs
      rcases List.mem_cons.mp hs with e | e
      · subst e; simp
      · exact ih s e
    · rename_i hc
      split
      · intro s hs; simp at hs; subst hs; simpa using Ne.symm hc
      · rename_i s0 r h
        rw [h] at ih
        intro s hs
        rcases List.mem_cons.mp hs with e | e
        · subst e
          intro hm
          rcases List.mem_cons.mp hm with e' | e'
          · exact hc e'.symm
          · exact ih s0 (by simp) e'
        · exact ih s (by simp [e])

/-! ### phase 1: `//` -/

/-- segment view of the first loop: empty segments go, except the last one -/
def dropInner : List Bytes → List Bytes
  | [] => []
  | [l] => [l]
  | s :: s2 :: rest => if s = [] then dropInner (s2 :: rest) else s :: dropInner (s2 :: rest)

theorem collapse_cons_ne (c : UInt8) (t : Bytes) (hc : c ≠ 47) :
    collapseSlashes (c :: t) = c :: collapseSlashes t := by
  match t with
  | [] => simp [collapseSlashes]
  | d :: t' => simp [collapseSlashes, hc]

theorem collapse_sf_append : ∀ (s y : Bytes), 47 ∉ s → collapseSlashes (s ++ y) = s ++ collapseSlashes y
  | [], _, _ => rfl
  | c :: s', y, h => by
    have hc : c ≠ 47 := fun e => h (by simp [e])
    rw [List.cons_append, collapse_cons_ne _ _ hc, collapse_sf_append s' y (fun hm => h (by simp [hm]))]
    rfl

theorem collapse_sf (s : Bytes) (h : 47 ∉ s) : collapseSlashes s = s := by
  have := collapse_sf_append s [] h
  simpa [collapseSlashes] using this

theorem dropInner_ne_nil : ∀ segs : List Bytes, segs ≠ [] → dropInner segs ≠ []
  | [], h => absurd rfl h
  | [l], _ => by simp [dropInner]
  | s :: s2 :: rest, _ => by
    simp only [dropInner]
    split
    · exact dropInner_ne_nil (s2 :: rest) (by simp)
    · simp

theorem render_single (l : Bytes) : render [l] = 47 :: l := by simp [render]

theorem collapse_render : ∀ segs : List Bytes, segs ≠ [] → SF segs →
    collapseSlashes (render segs) = render (dropInner segs)
  | [], h, _ => absurd rfl h
  | [l], _, hsf => by
    have hl := (SF_cons hsf).1
    simp only [dropInner, render_single]
    cases l with
    | nil => rfl
    | cons c l' =>
      have hc : c ≠ 47 := fun e => hl (by simp [e])
      simp only [collapseSlashes]
      rw [if_neg (by simp [hc]), collapse_sf _ hl]
  | s :: s2 :: rest, _, hsf => by
    have hs := (SF_cons hsf).1
    have ih := collapse_render (s2 :: rest) (by simp) (SF_cons hsf).2
    obtain ⟨y, hy⟩ := render_head s2 rest
    rw [render_cons s]
    simp only [dropInner]
    split
    · rename_i he
      subst he
      rw [← ih, hy]
      simp [collapseSlashes]
    · rename_i he
      cases s with
      | nil => exact absurd rfl he
      | cons c s' =>
        have hc : c ≠ 47 := fun e => hs (by simp [e])
        rw [render_cons (c :: s'), ← ih]
        simp only [List.cons_append, collapseSlashes]
        rw [if_neg (by simp [hc])]
        have := collapse_sf_append (c :: s') (render (s2 :: rest)) hs
        simp only [List.cons_append] at this
        rw [this]

/-! ### phase 2: `/./` -/

/-- segment view of the second loop: `.` segments go, except the last one -/
def dropDots : List Bytes → List Bytes
  | [] => []
  | [l] => [l]
  | s :: s2 :: rest => if s = dot then dropDots (s2 :: rest) else s :: dropDots (s2 :: rest)

theorem cutDot_cons_ne (c : UInt8) (t : Bytes) (hc : c ≠ 47) :
    cutDotSlash (c :: t) = c :: cutDotSlash t := by
  match t with
  | [] => simp [cutDotSlash]
  | [d] => simp [cutDotSlash]
  | d :: e :: t' => simp [cutDotSlash, hc]

theorem cutDot_sf_append : ∀ (s y : Bytes), 47 ∉ s → cutDotSlash (s ++ y) = s ++ cutDotSlash y
  | [], _, _ => rfl
  | c :: s', y, h => by
    have hc : c ≠ 47 := fun e => h (by simp [e])
    rw [List.cons_append, cutDot_cons_ne _ _ hc, cutDot_sf_append s' y (fun hm => h (by simp [hm]))]
    rfl

theorem cutDot_sf (s : Bytes) (h : 47 ∉ s) : cutDotSlash s = s := by
  have := cutDot_sf_append s [] h
  simpa [cutDotSlash] using this

/-- a `/` followed by anything but `./` stays -/
theorem cutDot_slash (t : Bytes) (h : ¬ [46, 47] <+: t) : cutDotSlash (47 :: t) = 47 :: cutDotSlash t := by
  match t with
  | [] => simp [cutDotSlash]
  | [d] => simp [cutDotSlash]
  | d :: e :: t' =>
    simp only [cutDotSlash]
    rw [if_neg]
    intro hm
    apply h
    rw [hm.2.1, hm.2.2]
    exact ⟨t', rfl⟩

theorem dropDots_ne_nil : ∀ segs : List Bytes, segs ≠ [] → dropDots segs ≠ []
  | [], h => absurd rfl h
  | [l], _ => by simp [dropDots]
  | s :: s2 :: rest, _ => by
    simp only [dropDots]
    split
    · exact dropDots_ne_nil (s2 :: rest) (by simp)
    · simp

/-- a slash-free segment followed by `/` or the end does not begin with `./` unless it is `.` -/
theorem no_dot_prefix (s y : Bytes) (hs : 47 ∉ s) (hd : s ≠ dot) : ¬ [46, 47] <+: s ++ 47 :: y := by
  intro hp
  match s, hs, hd with
  | [], _, _ => simp at hp
  | [a], hs, hd => simp at hp; exact hd (by simp [dot, hp])
  | a :: b :: s', hs, _ => simp at hp; exact hs (by simp [hp.2])

theorem cutDot_render : ∀ segs : List Bytes, segs ≠ [] → SF segs →
    cutDotSlash (render segs) = render (dropDots segs)
  | [], h, _ => absurd rfl h
  | [l], _, hsf => by
    have hl := (SF_cons hsf).1
    simp only [dropDots, render_single]
    rw [cutDot_slash, cutDot_sf _ hl]
    intro hp
    match l, hl with
    | [], _ => simp at hp
    | [a], _ => simp at hp
    | a :: b :: l', hl => simp at hp; exact hl (by simp [hp.2])
  | s :: s2 :: rest, _, hsf => by
    have hs := (SF_cons hsf).1
    have ih := cutDot_render (s2 :: rest) (by simp) (SF_cons hsf).2
    obtain ⟨y, hy⟩ := render_head s2 rest
    rw [render_cons s]
    simp only [dropDots]
    split
    · rename_i he
      subst he
      rw [← ih, hy]
      simp [cutDotSlash, dot]
    · rename_i he
      rw [render_cons s, ← ih, List.cons_append, cutDot_slash, cutDot_sf_append _ _ hs]
      · rfl
      · rw [hy]; exact no_dot_prefix s y hs he

/-! ### phase 3: `/../` -/

/-- segment view of `splitDDS`: the first `..` segment that is not the last one -/
def splitSegs : List Bytes → Option (List Bytes × List Bytes)
  | [] => none
  | [_] => none
  | s :: s2 :: rest =>
    if s = dotdot then some ([], s2 :: rest)
    else (splitSegs (s2 :: rest)).map (fun pr => (s :: pr.1, pr.2))

theorem splitDDS_cons (c : UInt8) (t : Bytes) (h : ¬ (c = 47 ∧ [46, 46, 47] <+: t)) :
    splitDDS (c :: t) = (splitDDS t).map (fun pr => (c :: pr.1, pr.2)) := by
  match t with
  | [] => simp [splitDDS]
  | [_] => simp [splitDDS]
  | [_, _] => simp [splitDDS]
  | d :: e :: f :: t' =>
    simp only [splitDDS]
    rw [if_neg]
    intro hm
    apply h
    refine ⟨hm.1, ?_⟩
    rw [hm.2.1, hm.2.2.1, hm.2.2.2]
    exact ⟨t', rfl⟩

theorem splitDDS_sf_append : ∀ (s y : Bytes), 47 ∉ s →
    splitDDS (s ++ y) = (splitDDS y).map (fun pr => (s ++ pr.1, pr.2))
  | [], y, _ => by simp
  | c :: s', y, h => by
    have hc : c ≠ 47 := fun e => h (by simp [e])
    rw [List.cons_append, splitDDS_cons _ _ (fun hm => hc hm.1),
      splitDDS_sf_append s' y (fun hm => h (by simp [hm])), Option.map_map]
    rfl

theorem splitDDS_sf (s : Bytes) (h : 47 ∉ s) : splitDDS s = none := by
  have := splitDDS_sf_append s [] h
  simpa [splitDDS] using this

theorem no_dotdot_prefix (s y : Bytes) (hs : 47 ∉ s) (hd : s ≠ dotdot) : ¬ [46, 46, 47] <+: s ++ 47 :: y := by
  intro hp
  match s, hs, hd with
  | [], _, _ => simp at hp
  | [a], _, _ => simp at hp
  | [a, b], _, hd => simp at hp; exact hd (by simp [dotdot, ← hp.1, ← hp.2])
  | a :: b :: c :: s', hs, _ => simp at hp; exact hs (by simp [hp.2.2])

theorem no_dotdot_prefix_last (s : Bytes) (hs : 47 ∉ s) : ¬ [46, 46, 47] <+: s := by
  intro hp
  obtain ⟨t, ht⟩ := hp
  apply hs
  rw [← ht]; simp

theorem splitDDS_render : ∀ segs : List Bytes, SF segs →
    splitDDS (render segs) = (splitSegs segs).map (fun pr => (render pr.1, render pr.2))
  | [], _ => by simp [render, splitDDS, splitSegs]
  | [l], hsf => by
    have hl := (SF_cons hsf).1
    rw [render_single, splitDDS_cons _ _ (fun hm => no_dotdot_prefix_last l hl hm.2), splitDDS_sf l hl]
    simp [splitSegs]
  | s :: s2 :: rest, hsf => by
    have hs := (SF_cons hsf).1
    have ih := splitDDS_render (s2 :: rest) (SF_cons hsf).2
    obtain ⟨y, hy⟩ := render_head s2 rest
    rw [render_cons s]
    simp only [splitSegs]
    split
    · rename_i he
      subst he
      rw [hy]
      simp [splitDDS, dotdot, render, ← hy]
    · rename_i he
      rw [List.cons_append, splitDDS_cons _ _ (fun hm => by rw [hy] at hm; exact no_dotdot_prefix s y hs he hm.2),
        splitDDS_sf_append _ _ hs, ih]
      simp only [Option.map_map]
      congr 1

theorem splitSegs_some : ∀ (segs pre after : List Bytes), splitSegs segs = some (pre, after) →
    segs = pre ++ dotdot :: after ∧ after ≠ [] ∧ dotdot ∉ pre
  | [], _, _, h => by simp [splitSegs] at h
  | [_], _, _, h => by simp [splitSegs] at h
  | s :: s2 :: rest, pre, after, h => by
    simp only [splitSegs] at h
    split at h
    · rename_i he
      simp only [Option.some.injEq, Prod.mk.injEq] at h
      obtain ⟨h1, h2⟩ := h
      subst h1 h2 he
      simp
    · rename_i he
      cases hs : splitSegs (s2 :: rest) with
      | none => simp [hs] at h
      | some pr =>
        obtain ⟨p', a'⟩ := pr
        simp only [hs, Option.map_some, Option.some.injEq, Prod.mk.injEq] at h
        obtain ⟨h1, h2⟩ := h
        subst h1 h2
        obtain ⟨e1, e2, e3⟩ := splitSegs_some (s2 :: rest) p' a' hs
        refine ⟨by rw [e1]; simp, e2, ?_⟩
        intro hm
        rcases List.mem_cons.mp hm with e | e
        · exact he e.symm
        · exact e3 e

theorem splitSegs_none : ∀ (segs : List Bytes), splitSegs segs = none → dotdot ∉ segs.dropLast
  | [], _ => by simp
  | [_], _ => by simp
  | s :: s2 :: rest, h => by
    simp only [splitSegs] at h
    split at h
    · simp at h
    · rename_i he
      have hn : splitSegs (s2 :: rest) = none := by
        cases hs : splitSegs (s2 :: rest) with
        | none => rfl
        | some pr => simp [hs] at h
      have ih := splitSegs_none (s2 :: rest) hn
      rw [List.dropLast_cons_of_ne_nil (by simp)]
      intro hm
      rcases List.mem_cons.mp hm with e | e
      · exact he e.symm
      · exact ih e

theorem render_concat (pre : List Bytes) (s : Bytes) : render (pre ++ [s]) = render pre ++ 47 :: s := by
  rw [render_append, render_single]

theorem beforeLastSlash_render (pre : List Bytes) (hsf : SF pre) :
    beforeLastSlash (render pre) = render pre.dropLast := by
  by_cases hp : pre = []
  · subst hp; simp [render, beforeLastSlash]
  · obtain ⟨p', s, rfl⟩ : ∃ p' s, pre = p' ++ [s] :=
      ⟨pre.dropLast, pre.getLast hp, (List.dropLast_concat_getLast hp).symm⟩
    have hs : 47 ∉ s.reverse := fun hm => hsf s (by simp) (List.mem_reverse.mp hm)
    rw [List.dropLast_concat, render_concat]
    unfold beforeLastSlash
    have : (render p' ++ 47 :: s).reverse = s.reverse ++ 47 :: (render p').reverse := by simp
    rw [this, dropWhile_sf _ _ hs]
    simp

/-- one iteration of the third loop on segments -/
def stepSegs (segs : List Bytes) : Option (List Bytes) :=
  (splitSegs segs).map (fun pr => pr.1.dropLast ++ pr.2)

theorem stepDDS_render (segs : List Bytes) (hsf : SF segs) :
    stepDDS (render segs) = (stepSegs segs).map render := by
  unfold stepDDS stepSegs
  rw [splitDDS_render segs hsf]
  cases hs : splitSegs segs with
  | none => rfl
  | some pr =>
    obtain ⟨pre, after⟩ := pr
    obtain ⟨e1, _, _⟩ := splitSegs_some _ _ _ hs
    have hpre : SF pre := fun x hx => hsf x (by rw [e1]; simp [hx])
    simp only [Option.map_some, Option.some.injEq]
    rw [beforeLastSlash_render pre hpre, render_append]

/-! ### the stack machine does not see what the phases remove -/

theorem resolve_cons (st : List Bytes) (s : Bytes) (rest : List Bytes) (h : rest ≠ []) :
    resolve st (s :: rest) =
      if s.isEmpty ∨ s = dot then resolve st rest
      else if s = dotdot then resolve (st.drop 1) rest else resolve (s :: st) rest := by
  cases rest with
  | nil => exact absurd rfl h
  | cons s2 r => simp only [resolve]

theorem resolve_dropInner : ∀ (st segs : List Bytes), resolve st (dropInner segs) = resolve st segs
  | _, [] => rfl
  | _, [_] => rfl
  | st, s :: s2 :: rest => by
    have hne := dropInner_ne_nil (s2 :: rest) (by simp)
    simp only [dropInner]
    rw [resolve_cons st s (s2 :: rest) (by simp)]
    split
    · rename_i he
      subst he
      simpa using resolve_dropInner st (s2 :: rest)
    · rw [resolve_cons st s _ hne, resolve_dropInner st (s2 :: rest), resolve_dropInner (st.drop 1) (s2 :: rest),
        resolve_dropInner (s :: st) (s2 :: rest)]

theorem resolve_dropDots : ∀ (st segs : List Bytes), resolve st (dropDots segs) = resolve st segs
  | _, [] => rfl
  | _, [_] => rfl
  | st, s :: s2 :: rest => by
    have hne := dropDots_ne_nil (s2 :: rest) (by simp)
    simp only [dropDots]
    rw [resolve_cons st s (s2 :: rest) (by simp)]
    split
    · rename_i he
      subst he
      simpa using resolve_dropDots st (s2 :: rest)
    · rw [resolve_cons st s _ hne, resolve_dropDots st (s2 :: rest), resolve_dropDots (st.drop 1) (s2 :: rest),
        resolve_dropDots (s :: st) (s2 :: rest)]

/-- what the first two phases establish: no empty and no `.` segment except possibly the last -/
def Inv (segs : List Bytes) : Prop := ∀ s ∈ segs.dropLast, s ≠ [] ∧ s ≠ dot

theorem dropInner_sub : ∀ (segs : List Bytes) (x : Bytes), x ∈ dropInner segs → x ∈ segs
  | [], _, h => by simp [dropInner] at h
  | [_], _, h => by simpa [dropInner] using h
  | s :: s2 :: rest, x, h => by
    simp only [dropInner] at h
    split at h
    · exact List.mem_cons_of_mem _ (dropInner_sub (s2 :: rest) x h)
    · rcases List.mem_cons.mp h with e | e
      · simp [e]
      · exact List.mem_cons_of_mem _ (dropInner_sub (s2 :: rest) x e)

theorem dropDots_sub : ∀ (segs : List Bytes) (x : Bytes), x ∈ dropDots segs → x ∈ segs
  | [], _, h => by simp [dropDots] at h
  | [_], _, h => by simpa [dropDots] using h
  | s :: s2 :: rest, x, h => by
    simp only [dropDots] at h
    split at h
    · exact List.mem_cons_of_mem _ (dropDots_sub (s2 :: rest) x h)
    · rcases List.mem_cons.mp h with e | e
      · simp [e]
      · exact List.mem_cons_of_mem _ (dropDots_sub (s2 :: rest) x e)

theorem dropInner_inner : ∀ (segs : List Bytes), ∀ x ∈ (dropInner segs).dropLast, x ≠ []
  | [], _, h => by simp [dropInner] at h
  | [_], _, h => by simp [dropInner] at h
  | s :: s2 :: rest, x, h => by
    simp only [dropInner] at h
    split at h
    · exact dropInner_inner (s2 :: rest) x h
    · rename_i he
      rw [List.dropLast_cons_of_ne_nil (dropInner_ne_nil _ (by simp))] at h
      rcases List.mem_cons.mp h with e | e
      · rw [e]; exact he
      · exact dropInner_inner (s2 :: rest) x e

/-- `dropDots` keeps the inner segments inner, and removes the dots among them -/
theorem dropDots_inner : ∀ (segs : List Bytes), ∀ x ∈ (dropDots segs).dropLast, x ≠ dot ∧ x ∈ segs.dropLast
  | [], _, h => by simp [dropDots] at h
  | [_], _, h => by simp [dropDots] at h
  | s :: s2 :: rest, x, h => by
    simp only [dropDots] at h
    rw [List.dropLast_cons_of_ne_nil (by simp)]
    split at h
    · have := dropDots_inner (s2 :: rest) x h
      exact ⟨this.1, List.mem_cons_of_mem _ this.2⟩
    · rename_i he
      rw [List.dropLast_cons_of_ne_nil (dropDots_ne_nil _ (by simp))] at h
      rcases List.mem_cons.mp h with e | e
      · rw [e]; exact ⟨he, by simp⟩
      · have := dropDots_inner (s2 :: rest) x e
        exact ⟨this.1, List.mem_cons_of_mem _ this.2⟩

theorem phases12_inv (segs : List Bytes) : Inv (dropDots (dropInner segs)) := by
  intro x hx
  obtain ⟨h1, h2⟩ := dropDots_inner _ x hx
  exact ⟨dropInner_inner segs x h2, h1⟩

theorem resolve_push_all : ∀ (pre st x : List Bytes), (∀ s ∈ pre, s ≠ [] ∧ s ≠ dot ∧ s ≠ dotdot) → x ≠ [] →
    resolve st (pre ++ x) = resolve (pre.reverse ++ st) x
  | [], _, _, _, _ => by simp
  | s :: pre', st, x, hg, hx => by
    obtain ⟨h1, h2, h3⟩ := hg s (by simp)
    rw [List.cons_append, resolve_cons st s _ (by simp [hx]), if_neg (by simp [h1, h2]), if_neg h3,
      resolve_push_all pre' (s :: st) x (fun y hy => hg y (by simp [hy])) hx]
    simp

theorem step_facts {segs pre after : List Bytes} (h : splitSegs segs = some (pre, after))
    (hsf : SF segs) (hinv : Inv segs) :
    pre.dropLast ++ after ≠ [] ∧ SF (pre.dropLast ++ after) ∧ Inv (pre.dropLast ++ after) ∧
      resolve [] (pre.dropLast ++ after) = resolve [] segs := by
  obtain ⟨e1, hne, hdd⟩ := splitSegs_some _ _ _ h
  have hdl : segs.dropLast = pre ++ dotdot :: after.dropLast := by
    rw [e1, List.dropLast_append_of_ne_nil (by simp), List.dropLast_cons_of_ne_nil hne]
  have hpre : ∀ s ∈ pre, s ≠ [] ∧ s ≠ dot ∧ s ≠ dotdot := by
    intro s hs
    obtain ⟨a, b⟩ := hinv s (by rw [hdl]; simp [hs])
    exact ⟨a, b, fun e => hdd (e ▸ hs)⟩
  refine ⟨by simp [hne], ?_, ?_, ?_⟩
  · intro x hx
    apply hsf x
    rw [e1]
    rcases List.mem_append.mp hx with m | m
    · exact List.mem_append_left _ (List.dropLast_subset _ m)
    · simp [m]
  · intro x hx
    rw [List.dropLast_append_of_ne_nil hne] at hx
    apply hinv x
    rw [hdl]
    rcases List.mem_append.mp hx with m | m
    · exact List.mem_append_left _ (List.dropLast_subset _ m)
    · simp [m]
  · rw [resolve_push_all _ [] after (fun s hs => hpre s (List.dropLast_subset _ hs)) hne, e1,
      resolve_push_all pre [] _ hpre (by simp), resolve_cons _ _ _ hne,
      if_neg (by simp [dotdot, dot]), if_pos rfl]
    simp

theorem loop_segs : ∀ (fuel : Nat) (segs : List Bytes), segs ≠ [] → SF segs → Inv segs →
    ∃ segs', loopDDS fuel (render segs) = render segs' ∧ segs' ≠ [] ∧ SF segs' ∧ Inv segs' ∧
      resolve [] segs' = resolve [] segs
  | 0, segs, h1, h2, h3 => ⟨segs, rfl, h1, h2, h3, rfl⟩
  | f + 1, segs, h1, h2, h3 => by
    unfold loopDDS
    rw [stepDDS_render segs h2]
    unfold stepSegs
    cases hs : splitSegs segs with
    | none => exact ⟨segs, rfl, h1, h2, h3, rfl⟩
    | some pr =>
      obtain ⟨pre, after⟩ := pr
      obtain ⟨a, b, c, d⟩ := step_facts hs h2 h3
      obtain ⟨segs', e1, e2, e3, e4, e5⟩ := loop_segs f (pre.dropLast ++ after) a b c
      exact ⟨segs', e1, e2, e3, e4, e5.trans d⟩

/-- with `length` fuel the third loop ends because no `/../` is left, not because fuel ran out -/
theorem loopDDS_fixed : ∀ (fuel : Nat) (b : Bytes), b.length ≤ fuel → stepDDS (loopDDS fuel b) = none
  | 0, b, h => by
    have : b = [] := List.eq_nil_of_length_eq_zero (by omega)
    subst this
    rfl
  | f + 1, b, h => by
    unfold loopDDS
    cases hs : stepDDS b with
    | none => simpa using hs
    | some b' =>
      have := stepDDS_length hs
      exact loopDDS_fixed f b' (by omega)

/-! ### last phase: trailing `/..` -/

theorem cutTrailing_render (segs : List Bytes) (hne : segs ≠ []) (hsf : SF segs) (hinv : Inv segs)
    (hdd : dotdot ∉ segs.dropLast) : cutTrailingDD (render segs) = render (resolve [] segs) := by
  obtain ⟨pre, last, rfl⟩ : ∃ p s, segs = p ++ [s] :=
    ⟨segs.dropLast, segs.getLast hne, (List.dropLast_concat_getLast hne).symm⟩
  rw [List.dropLast_concat] at hdd
  have hpre : ∀ s ∈ pre, s ≠ [] ∧ s ≠ dot ∧ s ≠ dotdot := by
    intro s hs
    obtain ⟨a, b⟩ := hinv s (by rw [List.dropLast_concat]; exact hs)
    exact ⟨a, b, fun e => hdd (e ▸ hs)⟩
  have hlast : 47 ∉ last := hsf last (by simp)
  rw [resolve_push_all pre [] [last] hpre (by simp)]
  simp only [List.append_nil, resolve]
  have hrev : (render (pre ++ [last])).reverse = last.reverse ++ 47 :: (render pre).reverse := by
    rw [render_concat]; simp
  by_cases hl : last = dotdot
  · subst hl
    rw [if_pos rfl]
    unfold cutTrailingDD
    rw [hrev]
    simp only [dotdot, List.reverse_cons, List.reverse_nil, List.nil_append, List.cons_append]
    by_cases hp : pre = []
    · subst hp; simp [render]
    · obtain ⟨p', s, rfl⟩ : ∃ p' s, pre = p' ++ [s] :=
        ⟨pre.dropLast, pre.getLast hp, (List.dropLast_concat_getLast hp).symm⟩
      have hs : 47 ∉ s.reverse := fun hm => hsf s (by simp) (List.mem_reverse.mp hm)
      have : (render (p' ++ [s])).reverse = s.reverse ++ 47 :: (render p').reverse := by
        rw [render_concat]; simp
      rw [this, dropWhile_sf _ _ hs]
      simp [render_append, render_single]
  · rw [if_neg hl]
    simp only [List.reverse_reverse]
    unfold cutTrailingDD
    split
    · rename_i revBefore hm
      exfalso
      rw [hrev] at hm
      have hl' : 47 ∉ last.reverse := fun h => hlast (List.mem_reverse.mp h)
      match hlr : last.reverse, hl' with
      | [], _ => rw [hlr] at hm; simp at hm
      | [a], _ => rw [hlr] at hm; simp at hm
      | [a, b], _ =>
        rw [hlr] at hm; simp at hm
        apply hl
        have := congrArg List.reverse hlr
        simpa [dotdot, hm.1, hm.2.1] using this
      | a :: b :: c :: r, hl' => rw [hlr] at hm; simp at hm; exact hl' (by simp [hm.2.2.1])
    · rfl

/-! ### assembly -/

/-- the `body` of `Spec.normalize` -/
def stripSlash (d : Bytes) : Bytes :=
  match d with
  | 47 :: b => b
  | _ => d

theorem spec_normalize_eq (src : Bytes) :
    Spec.normalize src = render (resolve [] (splitSlash (stripSlash (decodeArgNoPlus src)))) := rfl

theorem resolve_strip (d : Bytes) :
    resolve [] (splitSlash (stripSlash d)) = resolve [] (splitSlash d) := by
  unfold stripSlash
  split
  · rename_i b
    simp only [splitSlash, if_true]
    rw [resolve_cons _ _ _ (splitSlash_ne_nil b)]
    simp
  · rfl

theorem slashDecode_body (src : Bytes) : ∃ body0, slashDecode src = 47 :: body0 ∧
    resolve [] (splitSlash body0) = resolve [] (splitSlash (stripSlash (decodeArgNoPlus src))) := by
  match src with
  | [] => exact ⟨[], by simp [slashDecode, decodeArgNoPlus], by simp [decodeArgNoPlus, stripSlash]⟩
  | c :: t =>
    by_cases hc : c = 47
    · subst hc
      have hd : decodeArgNoPlus (47 :: t) = 47 :: decodeSlow false t := by
        rw [decodeArgNoPlus_eq_slow, decodeSlow_plain _ _ _ (by decide) (by decide)]
      refine ⟨decodeSlow false t, by simp [slashDecode, hd], ?_⟩
      rw [hd]; rfl
    · refine ⟨decodeArgNoPlus (c :: t), by simp [slashDecode, hc], ?_⟩
      rw [resolve_strip]

/-- `normalizePath` is "percent-decode once, then resolve the segments with a stack", for every input. -/
theorem normalizePath_eq_reference (src : Bytes) : normalizePath src = Spec.normalize src := by
  rw [spec_normalize_eq]
  obtain ⟨body0, hb, hres⟩ := slashDecode_body src
  rw [← hres]
  have hr0 : slashDecode src = render (splitSlash body0) := by rw [hb, render_splitSlash]
  have hne0 := splitSlash_ne_nil body0
  have hsf0 := splitSlash_SF body0
  generalize splitSlash body0 = segs0 at *
  -- phases 1 and 2
  have hsf1 : SF (dropInner segs0) := fun x hx => hsf0 x (dropInner_sub _ _ hx)
  have hne1 := dropInner_ne_nil segs0 hne0
  have hsf2 : SF (dropDots (dropInner segs0)) := fun x hx => hsf1 x (dropDots_sub _ _ hx)
  have hne2 := dropDots_ne_nil _ hne1
  have hb2 : cutDotSlash (collapseSlashes (slashDecode src)) = render (dropDots (dropInner segs0)) := by
    rw [hr0, collapse_render _ hne0 hsf0, cutDot_render _ hne1 hsf1]
  have hres2 : resolve [] (dropDots (dropInner segs0)) = resolve [] segs0 := by
    rw [resolve_dropDots, resolve_dropInner]
  -- phase 3
  unfold normalizePath
  simp only
  rw [hb2]
  obtain ⟨segs3, e1, hne3, hsf3, hinv3, hres3⟩ :=
    loop_segs (render (dropDots (dropInner segs0))).length _ hne2 hsf2 (phases12_inv segs0)
  have hfix := loopDDS_fixed _ (render (dropDots (dropInner segs0))) (Nat.le_refl _)
  rw [e1] at hfix ⊢
  have hnone : splitSegs segs3 = none := by
    rw [stepDDS_render _ hsf3] at hfix
    unfold stepSegs at hfix
    cases hs : splitSegs segs3 with
    | none => rfl
    | some pr => simp [hs] at hfix
  -- last phase
  rw [cutTrailing_render segs3 hne3 hsf3 hinv3 (splitSegs_none _ hnone), hres3, hres2]

end Hertz.PathSeg
