import Hertz.Model.ServeSkeleton
import Hertz.Gen.ServeSkeleton
import Hertz.Proofs.Tracer
/-!
C19 — facts about the control-flow skeleton of `Server.Serve`, all checked by the kernel on the
skeleton as regenerated from the Go source (`Hertz.Gen.ServeSkeleton`).
-/
namespace Hertz.Tracer

/-- the hand-written tree is exactly what the translator reads off `server.go` -/
theorem serveSk_matches_gen : serveSk.flatten = Hertz.Gen.ServeSkeleton.tokens := by decide +kernel

/-- position of a name in a generated list (`l.length` when missing) -/
def posOf (l : List String) (s : String) : Nat :=
  match l with
  | [] => 0
  | x :: t => if x == s then 0 else posOf t s + 1

/-- index and level of every predefined event are the ones `event.go` declares, and the event table has
`predefinedEventNum` slots -/
def eventsMatchGen : Bool :=
  Ev.all.all (fun e =>
    match Hertz.Gen.ServeSkeleton.events.find? (fun x => x.1 == e.goName) with
    | some (_, ic, lc) =>
      posOf Hertz.Gen.ServeSkeleton.eventIndices ic == e.index && posOf Hertz.Gen.ServeSkeleton.levels lc == e.level
    | none => false) &&
  posOf Hertz.Gen.ServeSkeleton.eventIndices "predefinedEventNum" == maxEventNum &&
  Hertz.Gen.ServeSkeleton.events.length == 10

theorem events_match_gen : eventsMatchGen = true := by decide +kernel

/-- `eventMap[idx]` never indexes out of range, and two events never share a slot -/
theorem index_in_range (e : Ev) : e.index < maxEventNum := by cases e <;> decide

theorem index_injective (a b : Ev) (h : a.index = b.index) : a = b := by
  cases a <;> cases b <;> first | rfl | (simp [Ev.index] at h)

/-- what "balanced" means for the end state of a path through one loop iteration -/
def PSt.balanced (en : Bool) (r : PSt × Bool) : Bool :=
  -- discipline respected (no Start while open, no Finish without Start, no pop from an empty stack,
  -- push/pop only on an allocated stack) …
  r.1.ok &&
  -- … every pushed closure has been popped (and therefore run) …
  r.1.stack.isEmpty &&
  -- … no Start is left without its Finish …
  !r.1.opened &&
  -- … and a path that reaches the loop end restores the loop-head state
  (r.2 || (!r.1.started && r.1.hasStack == en))

theorem skeleton_balanced_check : [true, false].all (fun en => (iterPaths en).all (PSt.balanced en)) = true := by
  decide +kernel

theorem skeleton_balanced (en : Bool) (r : PSt × Bool) (h : r ∈ iterPaths en) : PSt.balanced en r = true := by
  have := skeleton_balanced_check
  simp only [List.all_eq_true] at this
  exact this en (by cases en <;> simp) r h

/-- every pass of the functional model `iter` (+ `epilogue`) is one of the paths of the skeleton -/
theorem iter_follows_skeleton_check : checkAll (fun cfg first it =>
    (iterPaths cfg.enableTrace).any (fun r =>
      r.1.acts == eraseActs (iterStep cfg first it).1 && r.2 == (iterStep cfg first it).2.isNone)) = true := by
  decide +kernel

theorem iter_follows_skeleton (cfg : Cfg) (first : Bool) (it : Iter) :
    ∃ r ∈ iterPaths cfg.enableTrace,
      r.1.acts = eraseActs (iterStep cfg first it).1 ∧ r.2 = (iterStep cfg first it).2.isNone := by
  have := checkAll_spec iter_follows_skeleton_check cfg first it
  simp only [List.any_eq_true, Bool.and_eq_true, beq_iff_eq] at this
  exact this

end Hertz.Tracer
