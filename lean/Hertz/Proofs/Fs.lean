import Hertz.Model.Fs
import Hertz.Spec.Fs
import Hertz.Gen.Fs
import Hertz.Gen.Consts
/-!
Lemmas for C08 (byte ranges of the static file handler).  Core Lean only.
-/
set_option linter.unusedSimpArgs false

namespace Hertz.FS
open Hertz Hertz.FS.Spec

/-! ### 64-bit wrap -/

theorem wrap64_exact {x : Int} (h0 : 0 ≤ x) (h : x < 9223372036854775808) : wrap64 x = x := by
  unfold wrap64; omega

theorem wrap64_lt (x : Int) : wrap64 x < 9223372036854775808 := by
  unfold wrap64; omega

/-! ### digits -/

set_option maxRecDepth 100000 in
theorem digit_tbl : allBytes (fun c =>
    (decide ((c - 48 : UInt8) > 9) == !isDigit c) &&
    (!isDigit c || ((c - 48 : UInt8).toNat == digitVal c && decide ((c - 48 : UInt8).toNat ≤ 9)))) = true := by
  decide +kernel

theorem not_digit_iff (c : UInt8) : (c - 48 : UInt8) > 9 ↔ isDigit c = false := by
  have := allBytes_spec digit_tbl c
  simp only [Bool.and_eq_true, beq_iff_eq] at this
  have h1 := this.1
  cases hd : isDigit c <;> simp [hd] at h1 ⊢ <;> exact h1

theorem digit_val {c : UInt8} (h : isDigit c = true) :
    (c - 48 : UInt8).toNat = digitVal c ∧ (c - 48 : UInt8).toNat ≤ 9 := by
  have := allBytes_spec digit_tbl c
  simp only [Bool.and_eq_true, beq_iff_eq] at this
  have h2 := this.2
  simp [h] at h2
  exact h2

theorem decAcc_ge (t : Bytes) : ∀ a, a ≤ decAcc t a := by
  induction t with
  | nil => intro a; simp [decAcc]
  | cons c t ih => intro a; simp only [decAcc]; have := ih (10 * a + digitVal c); omega

theorem decAcc_append (a : Nat) (x y : Bytes) : decAcc (x ++ y) a = decAcc y (decAcc x a) := by
  induction x generalizing a with
  | nil => rfl
  | cons c t ih => simp [decAcc, ih]

/-! ### `ParseUintBuf` loop -/

/-- the overflow test `v > (maxInt - k)/10` is exactly `10*v + k > maxInt` -/
theorem overflow_test (v k : Int) (hk0 : 0 ≤ k) (hk : k ≤ 9) :
    v > (maxInt - k) / 10 ↔ 10 * v + k > 9223372036854775807 := by
  unfold maxInt; omega

/-- A run that consumes the whole input without error saw only digits, never left the 63-bit range
and returns the true value (so the modelled 64-bit wrap of `10*v + k` is never taken). -/
theorem loop_exact (t : Bytes) : ∀ (a : Nat) (i : Nat) (r : Int) (n : Nat), (a : Int) < 9223372036854775808 →
    parseUintLoop t (a : Int) i = (r, n, none) → n = i + t.length →
    t.all isDigit = true ∧ (decAcc t a : Int) < 9223372036854775808 ∧ r = (decAcc t a : Int) := by
  induction t with
  | nil =>
    intro a i r n h1 h _
    simp [parseUintLoop] at h
    simp only [decAcc, List.all_nil, true_and]
    omega
  | cons c t ih =>
    intro a i r n h1 h hn
    simp only [parseUintLoop] at h
    by_cases hk : (c - 48 : UInt8) > 9
    · simp only [hk, if_true] at h
      by_cases hi : i = 0
      · simp [hi] at h
      · simp only [hi, if_false, Prod.mk.injEq] at h
        simp only [List.length_cons] at hn; omega
    · simp only [hk, if_false] at h
      have hd : isDigit c = true := by
        cases hdd : isDigit c
        · exact absurd ((not_digit_iff c).2 hdd) hk
        · rfl
      obtain ⟨hv, hv9⟩ := digit_val hd
      by_cases ho : (a : Int) > (maxInt - ((c - 48 : UInt8).toNat : Int)) / 10
      · simp [ho] at h
      · simp only [ho, if_false] at h
        have hno : ¬ (10 * (a : Int) + ((c - 48 : UInt8).toNat : Int) > 9223372036854775807) :=
          fun hgt => ho ((overflow_test (a : Int) ((c - 48 : UInt8).toNat : Int) (by omega) (by omega)).2 hgt)
        have hex := wrap64_exact (x := 10 * (a : Int) + ((c - 48 : UInt8).toNat : Int)) (by omega) (by omega)
        have hcast : (10 * (a : Int) + ((c - 48 : UInt8).toNat : Int)) = ((10 * a + digitVal c : Nat) : Int) := by
          rw [hv]; omega
        rw [hex, hcast] at h
        have := ih (10 * a + digitVal c) (i + 1) r n (by omega) h (by simp only [List.length_cons] at hn; omega)
        simp only [List.all_cons, hd, Bool.true_and, decAcc]
        exact this

/-- Completeness: digits whose value fits are read exactly, consuming everything. -/
theorem loop_complete (t : Bytes) : ∀ (a : Nat) (i : Nat), t.all isDigit = true →
    (decAcc t a : Int) < 9223372036854775808 →
    parseUintLoop t (a : Int) i = ((decAcc t a : Int), i + t.length, none) := by
  induction t with
  | nil => intro a i _ _; simp [parseUintLoop, decAcc]
  | cons c t ih =>
    intro a i hall hfit
    simp only [List.all_cons, Bool.and_eq_true] at hall
    have hd := hall.1
    have hk : ¬ (c - 48 : UInt8) > 9 := by
      intro hk; have := (not_digit_iff c).1 hk; simp [hd] at this
    obtain ⟨hv, hv9⟩ := digit_val hd
    simp only [decAcc] at hfit ⊢
    have hge := decAcc_ge t (10 * a + digitVal c)
    have hx : (10 * (a : Int) + ((c - 48 : UInt8).toNat : Int)) < 9223372036854775808 := by rw [hv]; omega
    have hex := wrap64_exact (x := 10 * (a : Int) + ((c - 48 : UInt8).toNat : Int)) (by omega) hx
    have hcast : (10 * (a : Int) + ((c - 48 : UInt8).toNat : Int)) = ((10 * a + digitVal c : Nat) : Int) := by
      rw [hv]; omega
    have ho : ¬ (a : Int) > (maxInt - ((c - 48 : UInt8).toNat : Int)) / 10 := by
      rw [overflow_test (a : Int) ((c - 48 : UInt8).toNat : Int) (by omega) (by omega)]; omega
    simp only [parseUintLoop, hk, if_false, ho, hex]
    rw [hcast, ih (10 * a + digitVal c) (i + 1) hall.2 hfit]
    simp only [List.length_cons]
    have hlen : i + 1 + t.length = i + (t.length + 1) := by omega
    rw [hlen]

/-! ### `ParseUint` -/

theorem parseUint_ok {b : Bytes} {r : Int} (h : parseUint b = .ok r) :
    isDigits b = true ∧ (decVal b : Int) < 9223372036854775808 ∧ r = (decVal b : Int) := by
  unfold parseUint parseUintBuf at h
  by_cases hl : b.length = 0
  · simp [hl] at h
  · simp only [hl, if_false] at h
    generalize hloop : parseUintLoop b 0 0 = res at h
    obtain ⟨v, n, err⟩ := res
    simp only at h
    by_cases hn : n ≠ b.length
    · simp [hn] at h
    · simp only [hn, if_false] at h
      cases err with
      | some e => simp at h
      | none =>
        simp only [Except.ok.injEq] at h
        subst h
        have hn' : n = 0 + b.length := by omega
        have he := loop_exact b 0 0 v n (by omega) (by simpa using hloop) hn'
        refine ⟨?_, he.2.1, he.2.2⟩
        unfold isDigits
        have : b ≠ [] := by intro hb; simp [hb] at hl
        simp [he.1, this]

theorem parseUint_complete {b : Bytes} (hd : isDigits b = true) (hfit : (decVal b : Int) < 9223372036854775808) :
    parseUint b = .ok (decVal b : Int) := by
  unfold isDigits at hd
  simp only [Bool.and_eq_true, Bool.not_eq_true', List.isEmpty_eq_false_iff] at hd
  have hl : b.length ≠ 0 := by intro h; exact hd.1 (List.eq_nil_of_length_eq_zero h)
  have := loop_complete b 0 0 hd.2 hfit
  simp only [Int.natCast_zero, Nat.zero_add] at this
  unfold parseUint parseUintBuf
  simp only [hl, if_false, this]
  simp [decVal]

/-- anything that is not `1*DIGIT` with a value below 2^63 is rejected -/
theorem parseUint_reject {b : Bytes} (h : ¬ (isDigits b = true ∧ (decVal b : Int) < 9223372036854775808)) :
    ∃ e, parseUint b = .error e := by
  cases hp : parseUint b with
  | error e => exact ⟨e, rfl⟩
  | ok r => exact absurd ⟨(parseUint_ok hp).1, (parseUint_ok hp).2.1⟩ h

theorem parseUint_not_digits {b : Bytes} (hd : isDigits b = false) : ∃ e, parseUint b = .error e :=
  parseUint_reject (by simp [hd])

theorem parseUint_nonneg {b : Bytes} {r : Int} (h : parseUint b = .ok r) : 0 ≤ r := by
  have := (parseUint_ok h).2.2; omega

/-! ### `ParseByteRange` without the slicing -/

theorem indexByte_none (c : UInt8) (b : Bytes) (h : indexByte c b = none) : splitAt1 c b = none := by
  induction b with
  | nil => rfl
  | cons x t ih =>
    simp only [indexByte] at h
    by_cases hx : x = c
    · simp [hx] at h
    · simp only [hx, if_false, Option.map_eq_none_iff] at h
      simp [splitAt1, hx, ih h]

theorem indexByte_some (c : UInt8) (b : Bytes) : ∀ n, indexByte c b = some n →
    n < b.length ∧ splitAt1 c b = some (b.take n, b.drop (n + 1)) := by
  induction b with
  | nil => intro n h; simp [indexByte] at h
  | cons x t ih =>
    intro n h
    simp only [indexByte] at h
    by_cases hx : x = c
    · simp only [hx, if_true, Option.some.injEq] at h
      subst h
      simp [splitAt1, hx]
    · simp only [hx, if_false, Option.map_eq_some_iff] at h
      obtain ⟨m, hm, rfl⟩ := h
      have := ih m hm
      simp [splitAt1, hx, this.2, this.1]

/-- `ParseByteRange` after `bytes=` has been stripped, on the two halves around the first `-`. -/
def parseSpec (spec : Bytes) (n : Int) : Except Fault (Int × Int) :=
  match splitAt1 45 spec with
  | none => .error .bad
  | some ([], suf) =>
    match parseUint suf with
    | .error _ => .error .bad
    | .ok v => if v == 0 || n == 0 then .error .bad else .ok (suffixRange n v)
  | some (a, b) => fromToRange n a b

theorem parseByteRange_prefix (spec : Bytes) (n : Int) :
    parseByteRange (98 :: 121 :: 116 :: 101 :: 115 :: 61 :: spec) n = parseSpec spec n := by
  unfold parseByteRange parseSpec
  simp only [strBytes, List.isPrefixOf, beq_self_eq_true, Bool.and_self, Bool.not_true, Bool.false_eq_true, if_false,
    sliceFrom, List.length_cons, List.length_nil, Nat.le_add_left, if_true, Except.bind, List.drop_succ_cons, List.drop_zero,
    idx, List.getElem?_cons_zero, ne_eq, not_true_eq_false]
  simp only [Nat.add_eq_zero_iff, List.length_eq_zero_iff, reduceCtorEq, and_false, if_false]
  cases h : indexByte 45 spec with
  | none => simp [indexByte_none 45 spec h]
  | some k =>
    obtain ⟨hk, hs⟩ := indexByte_some 45 spec k h
    simp only [hs]
    by_cases hk0 : k = 0
    · subst hk0
      have : (1 : Nat) ≤ spec.length := by omega
      simp only [Nat.zero_add, this, if_true, Except.bind, List.take_zero, List.drop_one]
      cases parseUint spec.tail <;> rfl
    · have h1 : k ≤ spec.length := by omega
      have h2 : k + 1 ≤ spec.length := by omega
      simp only [hk0, if_false, sliceTo, h1, if_true, sliceFrom, h2, Except.bind]
      have hne : spec.take k ≠ [] := by
        intro he
        have := congrArg List.length he
        rw [List.length_take, List.length_nil] at this; omega
      split
      · rename_i heq; simp at heq
      · rename_i heq
        simp only [Option.some.injEq, Prod.mk.injEq] at heq
        exact absurd heq.1 hne
      · rename_i heq
        simp only [Option.some.injEq, Prod.mk.injEq] at heq
        rw [← heq.1, ← heq.2]

/-- a header value that does not start with `bytes=` is rejected, and the RFC calls it invalid -/
theorem parseByteRange_noprefix (r : Bytes) (n : Int)
    (h : ∀ spec, r ≠ 98 :: 121 :: 116 :: 101 :: 115 :: 61 :: spec) : parseByteRange r n = .error .bad := by
  unfold parseByteRange
  by_cases hp : strBytes.isPrefixOf r = true
  · obtain ⟨t, ht⟩ := List.isPrefixOf_iff_prefix.1 hp
    subst ht
    simp only [hp, Bool.not_true, Bool.false_eq_true, if_false, sliceFrom, List.length_append, Nat.le_add_right, if_true,
      Except.bind, List.drop_left]
    cases t with
    | nil => simp
    | cons c0 t =>
      by_cases hc : c0 = 61
      · subst hc; exact absurd rfl (h t)
      · simp [idx, hc, Except.bind]
  · simp [hp]

/-! ### `ParseByteRange` against RFC 7233 -/

/-- the RFC outcome written as a Go result: a satisfiable range is returned, anything else is an error -/
def rfcExcept : Range → Except Fault (Int × Int)
  | .sat s e => .ok ((s : Int), (e : Int))
  | _ => .error .bad

/-- the decision of RFC 7233 for a suffix-byte-range-spec -/
def rfcSuffix (suf : Bytes) (n : Nat) : Range :=
  if !isDigits suf then .invalid
  else if decVal suf = 0 ∨ n = 0 then .unsat
  else .sat (n - min (decVal suf) n) (n - 1)

/-- the decision of RFC 7233 for `first-byte-pos "-" [last-byte-pos]` -/
def rfcFromTo (a b : Bytes) (n : Nat) : Range :=
  if !isDigits a then .invalid
  else if b = [] then (if decVal a ≥ n then .unsat else .sat (decVal a) (n - 1))
  else if !isDigits b then .invalid
  else if decVal b < decVal a then .invalid
  else if decVal a ≥ n then .unsat
  else .sat (decVal a) (min (decVal b) (n - 1))

theorem suffix_case (suf : Bytes) (n : Nat)
    (hfit : isDigits suf = true → (decVal suf : Int) < 9223372036854775808) :
    (match parseUint suf with
      | .error _ => (.error .bad : Except Fault (Int × Int))
      | .ok v => if v == 0 || (n : Int) == 0 then .error .bad else .ok (suffixRange n v)) = rfcExcept (rfcSuffix suf n) := by
  unfold rfcSuffix
  cases hd : isDigits suf
  · obtain ⟨e, he⟩ := parseUint_not_digits hd
    simp [he, rfcExcept]
  · have hp := parseUint_complete hd (hfit hd)
    simp only [hp, Bool.not_true, Bool.false_eq_true, if_false]
    by_cases h1 : decVal suf = 0 ∨ n = 0
    · have : ((decVal suf : Int) == 0 || (n : Int) == 0) = true := by
        simp only [Bool.or_eq_true, beq_iff_eq]; omega
      simp [this, h1, rfcExcept]
    · have : ((decVal suf : Int) == 0 || (n : Int) == 0) = false := by
        simp only [Bool.or_eq_false_iff, beq_eq_false_iff_ne, ne_eq]; omega
      simp only [this, Bool.false_eq_true, if_false, h1, rfcExcept, suffixRange]
      congr 1
      by_cases hlt : (n : Int) - (decVal suf : Int) < 0
      · simp only [hlt, if_true, Prod.mk.injEq]; omega
      · simp only [hlt, if_false, Prod.mk.injEq]; omega

theorem fromTo_case (a b : Bytes) (n : Nat)
    (hfa : isDigits a = true → (decVal a : Int) < 9223372036854775808)
    (hfb : isDigits b = true → (decVal b : Int) < 9223372036854775808) :
    fromToRange n a b = rfcExcept (rfcFromTo a b n) := by
  unfold rfcFromTo fromToRange
  cases hda : isDigits a
  · obtain ⟨e, he⟩ := parseUint_not_digits hda
    simp [he, rfcExcept]
  · have hpa := parseUint_complete hda (hfa hda)
    simp only [hpa, Bool.not_true, Bool.false_eq_true, if_false]
    by_cases hge : decVal a ≥ n
    · have : (decVal a : Int) ≥ (n : Int) := by omega
      simp only [this, if_true, hge]
      by_cases hb : b = []
      · simp [hb, rfcExcept]
      · simp only [hb, if_false]
        cases hdb : isDigits b
        · simp [rfcExcept]
        · by_cases hlt : decVal b < decVal a <;> simp [hlt, rfcExcept]
    · have : ¬ (decVal a : Int) ≥ (n : Int) := by omega
      simp only [this, if_false, hge]
      by_cases hb : b = []
      · subst hb
        simp only [List.length_nil, if_true, rfcExcept]
        congr 1; simp only [Prod.mk.injEq, true_and]; omega
      · have hbl : b.length ≠ 0 := by intro h; exact hb (List.eq_nil_of_length_eq_zero h)
        simp only [hbl, hb, if_false]
        cases hdb : isDigits b
        · obtain ⟨e, he⟩ := parseUint_not_digits hdb
          simp [he, rfcExcept]
        · have hpb := parseUint_complete hdb (hfb hdb)
          simp only [hpb, Bool.not_true, Bool.false_eq_true, if_false]
          by_cases hbn : (decVal b : Int) ≥ (n : Int)
          · have h1 : ¬ ((n : Int) - 1 < (decVal a : Int)) := by omega
            have h2 : ¬ (decVal b < decVal a) := by omega
            simp only [hbn, if_true, h1, if_false, h2, rfcExcept]
            congr 1; simp only [Prod.mk.injEq, true_and]; omega
          · simp only [hbn, if_false]
            by_cases hlt : decVal b < decVal a
            · have : (decVal b : Int) < (decVal a : Int) := by omega
              simp [this, hlt, rfcExcept]
            · have : ¬ (decVal b : Int) < (decVal a : Int) := by omega
              simp only [this, if_false, hlt, rfcExcept]
              congr 1; simp only [Prod.mk.injEq, true_and]; omega

theorem splitAt1_nil_left {c : UInt8} {spec suf : Bytes} (h : splitAt1 c spec = some ([], suf)) : spec = c :: suf := by
  cases spec with
  | nil => simp [splitAt1] at h
  | cons x t =>
    simp only [splitAt1] at h
    by_cases hx : x = c
    · simp only [hx, if_true, Option.some.injEq, Prod.mk.injEq, true_and] at h
      rw [hx, h]
    · simp only [hx, if_false] at h
      split at h <;> simp at h

theorem splitAt1_cons_self (c : UInt8) (suf : Bytes) : splitAt1 c (c :: suf) = some ([], suf) := by
  simp [splitAt1]

theorem rfcRange_prefix (spec : Bytes) (n : Nat) :
    rfcRange (98 :: 121 :: 116 :: 101 :: 115 :: 61 :: spec) n =
      match splitAt1 45 spec with
      | none => .invalid
      | some ([], suf) => rfcSuffix suf n
      | some (a, b) => rfcFromTo a b n := by
  unfold rfcRange rfcSuffix rfcFromTo
  rfl

theorem rfcRange_noprefix (r : Bytes) (n : Nat)
    (h : ∀ spec, r ≠ 98 :: 121 :: 116 :: 101 :: 115 :: 61 :: spec) : rfcRange r n = .invalid := by
  unfold rfcRange
  split
  · rename_i spec; exact absurd rfl (h spec)
  · rfl

theorem numsFit_prefix (spec : Bytes) :
    numsFit (98 :: 121 :: 116 :: 101 :: 115 :: 61 :: spec) =
      match splitAt1 45 spec with
      | none => true
      | some (a, b) => (!isDigits a || decide (decVal a < 9223372036854775808)) &&
                       (!isDigits b || decide (decVal b < 9223372036854775808)) := by
  unfold numsFit
  rfl

/-- **ParseByteRange implements RFC 7233** for every header value whose numbers fit a Go `int` and
every length. -/
theorem parseByteRange_eq_rfc (r : Bytes) (n : Nat) (hfit : numsFit r = true) :
    parseByteRange r (n : Int) = rfcExcept (rfcRange r n) := by
  by_cases hp : ∃ spec, r = 98 :: 121 :: 116 :: 101 :: 115 :: 61 :: spec
  · obtain ⟨spec, rfl⟩ := hp
    rw [parseByteRange_prefix, rfcRange_prefix]
    rw [numsFit_prefix] at hfit
    unfold parseSpec
    cases hs : splitAt1 45 spec with
    | none => simp [rfcExcept]
    | some ab =>
      obtain ⟨a, b⟩ := ab
      simp only [hs, Bool.and_eq_true, Bool.or_eq_true, Bool.not_eq_true', decide_eq_true_eq] at hfit
      have hfa : isDigits a = true → (decVal a : Int) < 9223372036854775808 := by
        intro hd; rcases hfit.1 with h | h
        · simp [hd] at h
        · omega
      have hfb : isDigits b = true → (decVal b : Int) < 9223372036854775808 := by
        intro hd; rcases hfit.2 with h | h
        · simp [hd] at h
        · omega
      cases a with
      | nil => exact suffix_case b n hfb
      | cons x a => exact fromTo_case (x :: a) b n hfa hfb
  · have h : ∀ spec, r ≠ 98 :: 121 :: 116 :: 101 :: 115 :: 61 :: spec := fun spec he => hp ⟨spec, he⟩
    rw [parseByteRange_noprefix r _ h, rfcRange_noprefix r n h]
    rfl

/-- A header naming a position that does not fit a Go `int` is always rejected. -/
theorem parseByteRange_unfit (r : Bytes) (n : Int) (hfit : numsFit r = false) :
    parseByteRange r n = .error .bad := by
  by_cases hp : ∃ spec, r = 98 :: 121 :: 116 :: 101 :: 115 :: 61 :: spec
  · obtain ⟨spec, rfl⟩ := hp
    rw [parseByteRange_prefix]
    rw [numsFit_prefix] at hfit
    unfold parseSpec
    cases hs : splitAt1 45 spec with
    | none => rfl
    | some ab =>
      obtain ⟨a, b⟩ := ab
      simp only [hs, Bool.and_eq_false_iff, Bool.or_eq_false_iff, Bool.not_eq_false', decide_eq_false_iff_not] at hfit
      have hbad : ∀ x : Bytes, (isDigits x = true ∧ ¬ decVal x < 9223372036854775808) → ∃ e, parseUint x = .error e := by
        intro x hx
        exact parseUint_reject (by intro h; have := h.2; omega)
      cases a with
      | nil =>
        rcases hfit with h | h
        · simp [isDigits] at h
        · obtain ⟨e, he⟩ := hbad b h
          simp [he]
      | cons x a =>
        simp only [fromToRange]
        rcases hfit with h | h
        · obtain ⟨e, he⟩ := hbad _ h
          simp [he]
        · obtain ⟨e, he⟩ := hbad b h
          have hbl : b.length ≠ 0 := by
            intro hl
            have : b = [] := List.eq_nil_of_length_eq_zero hl
            rw [this] at h; simp [isDigits] at h
          cases parseUint (x :: a) with
          | error e' => rfl
          | ok sa =>
            simp only [hbl, if_false, he]
            split <;> rfl
  · have h : ∀ spec, r ≠ 98 :: 121 :: 116 :: 101 :: 115 :: 61 :: spec := fun spec he => hp ⟨spec, he⟩
    exact parseByteRange_noprefix r _ h

/-! ### bounds of an accepted range -/

theorem parseSpec_bounds (spec : Bytes) (n s e : Int) (hn0 : 0 ≤ n) (h : parseSpec spec n = .ok (s, e)) :
    0 ≤ s ∧ s ≤ e ∧ e < n := by
  unfold parseSpec at h
  cases hs : splitAt1 45 spec with
  | none => simp [hs] at h
  | some ab =>
    obtain ⟨a, b⟩ := ab
    cases a with
    | nil =>
      have hspec := splitAt1_nil_left hs
      subst hspec
      simp only [hs] at h
      cases hp : parseUint b with
      | error e => simp [hp] at h
      | ok v =>
        have hv := parseUint_nonneg hp
        simp only [hp] at h
        cases hz : (v == 0 || n == 0)
        case true => simp [hz] at h
        have hc := hz
        simp only [Bool.or_eq_false_iff, beq_eq_false_iff_ne, ne_eq] at hc
        simp only [hz, Bool.false_eq_true, if_false, suffixRange, Except.ok.injEq, Prod.mk.injEq] at h
        obtain ⟨h1, h2⟩ := h
        by_cases hlt : n - v < 0
        · simp only [hlt, if_true] at h1; omega
        · simp only [hlt, if_false] at h1; omega
    | cons x a =>
      simp only [hs, fromToRange] at h
      cases hp : parseUint (x :: a) with
      | error e => simp [hp] at h
      | ok sa =>
        have hsa := parseUint_nonneg hp
        simp only [hp] at h
        by_cases hge : sa ≥ n
        · simp [hge] at h
        · simp only [hge, if_false] at h
          by_cases hbl : b.length = 0
          · simp only [hbl, if_true, Except.ok.injEq, Prod.mk.injEq] at h; omega
          · simp only [hbl, if_false] at h
            cases hpb : parseUint b with
            | error e => simp [hpb] at h
            | ok eb =>
              simp only [hpb] at h
              by_cases hbn : eb ≥ n
              · simp only [hbn, if_true] at h
                by_cases hlt : n - 1 < sa
                · simp [hlt] at h
                · simp only [hlt, if_false, Except.ok.injEq, Prod.mk.injEq] at h; omega
              · simp only [hbn, if_false] at h
                by_cases hlt : eb < sa
                · simp [hlt] at h
                · simp only [hlt, if_false, Except.ok.injEq, Prod.mk.injEq] at h; omega

/-- **An accepted range lies inside the file**: for every header value and every length. -/
theorem parseByteRange_bounds (r : Bytes) (n s e : Int) (hn0 : 0 ≤ n) (h : parseByteRange r n = .ok (s, e)) :
    0 ≤ s ∧ s ≤ e ∧ e < n := by
  by_cases hp : ∃ spec, r = 98 :: 121 :: 116 :: 101 :: 115 :: 61 :: spec
  · obtain ⟨spec, rfl⟩ := hp
    rw [parseByteRange_prefix] at h
    exact parseSpec_bounds spec n s e hn0 h
  · have hn : ∀ spec, r ≠ 98 :: 121 :: 116 :: 101 :: 115 :: 61 :: spec := fun spec he => hp ⟨spec, he⟩
    rw [parseByteRange_noprefix r _ hn] at h
    cases h

/-- `ParseByteRange` never panics: every slice and index expression in it is in range. -/
theorem parseByteRange_no_panic (r : Bytes) (n : Int) :
    (∃ p, parseByteRange r n = .ok p) ∨ parseByteRange r n = .error .bad := by
  by_cases hp : ∃ spec, r = 98 :: 121 :: 116 :: 101 :: 115 :: 61 :: spec
  · obtain ⟨spec, rfl⟩ := hp
    rw [parseByteRange_prefix]
    unfold parseSpec
    cases hs : splitAt1 45 spec with
    | none => right; rfl
    | some ab =>
      obtain ⟨a, b⟩ := ab
      cases a with
      | nil =>
        simp only
        cases parseUint b with
        | error e => right; rfl
        | ok v =>
          simp only
          cases hz : (v == 0 || n == 0)
          · left; exact ⟨suffixRange n v, by simp⟩
          · right; simp
      | cons x a =>
        simp only [fromToRange]
        cases parseUint (x :: a) with
        | error e => right; rfl
        | ok sa =>
          simp only
          by_cases hge : sa ≥ n
          · right; simp [hge]
          · by_cases hbl : b.length = 0
            · left; simp [hge, hbl]
            · cases parseUint b with
              | error e => right; simp [hge, hbl]
              | ok eb =>
                simp only [hge, hbl, if_false]
                by_cases hbn : eb ≥ n
                · simp only [hbn, if_true]
                  by_cases hlt : n - 1 < sa
                  · right; simp [hlt]
                  · left; simp [hlt]
                · simp only [hbn, if_false]
                  by_cases hlt : eb < sa
                  · right; simp [hlt]
                  · left; simp [hlt]
  · have hn : ∀ spec, r ≠ 98 :: 121 :: 116 :: 101 :: 115 :: 61 :: spec := fun spec he => hp ⟨spec, he⟩
    right; exact parseByteRange_noprefix r _ hn

/-! ### `AppendUint` and `SetContentRange` -/

theorem small_digit : ∀ k, k < 10 → isDigit (48 + k).toUInt8 = true ∧ digitVal (48 + k).toUInt8 = k := by decide

theorem decAcc_snoc (d : Bytes) (x : UInt8) (a : Nat) : decAcc (d ++ [x]) a = 10 * decAcc d a + digitVal x := by
  rw [decAcc_append]; simp [decAcc]

theorem decDigits_spec : ∀ (f k : Nat), k < 10 ^ (f + 1) →
    ∃ d, decDigits (f + 1) k = some d ∧ d ≠ [] ∧ d.all isDigit = true ∧ decAcc d 0 = k := by
  intro f
  induction f with
  | zero =>
    intro k hk
    have h10 : k < 10 := by simpa using hk
    have := small_digit k h10
    refine ⟨[(48 + k).toUInt8], ?_, List.cons_ne_nil _ _, ?_, ?_⟩
    · simp only [decDigits, h10, if_true]
    · simp only [List.all_cons, List.all_nil, this.1, Bool.and_self]
    · simp only [decAcc, this.2]; omega
  | succ f ih =>
    intro k hk
    by_cases h10 : k < 10
    · have := small_digit k h10
      refine ⟨[(48 + k).toUInt8], ?_, List.cons_ne_nil _ _, ?_, ?_⟩
      · simp only [decDigits, h10, if_true]
      · simp only [List.all_cons, List.all_nil, this.1, Bool.and_self]
      · simp only [decAcc, this.2]; omega
    · have hk' : k / 10 < 10 ^ (f + 1) := by
        rw [Nat.pow_succ] at hk
        omega
      obtain ⟨d, hd, hne, hall, hval⟩ := ih (k / 10) hk'
      have hm := small_digit (k % 10) (by omega)
      refine ⟨d ++ [(48 + k % 10).toUInt8], ?_, ?_, ?_, ?_⟩
      · rw [decDigits]; simp only [h10, if_false, hd, Option.map_some]
      · intro h; exact hne (List.append_eq_nil_iff.1 h).1
      · simp only [List.all_append, hall, List.all_cons, List.all_nil, hm.1, Bool.and_self]
      · rw [decAcc_snoc, hval, hm.2]; omega

theorem appendUint_ok {k : Int} (h0 : 0 ≤ k) (h : k < 9223372036854775808) :
    ∃ d, appendUint k = .ok d ∧ isDigits d = true ∧ decVal d = k.toNat := by
  have hlt : k.toNat < 10 ^ (19 + 1) := by
    have : (10 : Nat) ^ (19 + 1) = 100000000000000000000 := by decide
    omega
  obtain ⟨d, hd, hne, hall, hval⟩ := decDigits_spec 19 k.toNat hlt
  refine ⟨d, ?_, ?_, hval⟩
  · unfold appendUint
    have : ¬ k < 0 := by omega
    simp [this, hd]
  · unfold isDigits
    simp [hall, hne]

theorem appendUint_neg {k : Int} (h : k < 0) :
    appendUint k = .error (.panic "bytesconv.AppendUint: int must be positive") := by
  unfold appendUint; simp [h]

theorem digit_ne {x : UInt8} (h : isDigit x = true) : x ≠ 45 ∧ x ≠ 47 := by
  constructor <;> (intro hx; subst hx; revert h; decide)

theorem splitAt1_append (c : UInt8) (a b : Bytes) (h : ∀ x ∈ a, x ≠ c) :
    splitAt1 c (a ++ c :: b) = some (a, b) := by
  induction a with
  | nil => simp [splitAt1]
  | cons x t ih =>
    have hx : x ≠ c := h x (by simp)
    have := ih (fun y hy => h y (by simp [hy]))
    simp [splitAt1, hx, this]

theorem parseContentRange_render (a b c : Bytes) (ha : isDigits a = true) (hb : isDigits b = true) (hc : isDigits c = true) :
    parseContentRange (strBytes ++ [32] ++ a ++ [45] ++ b ++ [47] ++ c) = some (decVal a, decVal b, decVal c) := by
  have hda : ∀ x ∈ a, x ≠ 45 := by
    intro x hx
    unfold isDigits at ha
    simp only [Bool.and_eq_true, List.all_eq_true] at ha
    exact (digit_ne (ha.2 x hx)).1
  have hdb : ∀ x ∈ b, x ≠ 47 := by
    intro x hx
    unfold isDigits at hb
    simp only [Bool.and_eq_true, List.all_eq_true] at hb
    exact (digit_ne (hb.2 x hx)).2
  have h1 : splitAt1 45 (a ++ 45 :: (b ++ 47 :: c)) = some (a, b ++ 47 :: c) := splitAt1_append 45 a _ hda
  have h2 : splitAt1 47 (b ++ 47 :: c) = some (b, c) := splitAt1_append 47 b c hdb
  have hform : strBytes ++ [32] ++ a ++ [45] ++ b ++ [47] ++ c
      = 98 :: 121 :: 116 :: 101 :: 115 :: 32 :: (a ++ 45 :: (b ++ 47 :: c)) := by
    simp [strBytes]
  rw [hform]
  unfold parseContentRange
  simp [h1, h2, ha, hb, hc]

/-- `SetContentRange` succeeds on non-negative Go ints and the value it writes reads back as the
three numbers. -/
theorem contentRange_ok {s e n : Int} (hs : 0 ≤ s) (he : 0 ≤ e) (hn : 0 ≤ n)
    (hs' : s < 9223372036854775808) (he' : e < 9223372036854775808) (hn' : n < 9223372036854775808) :
    ∃ cr, contentRange s e n = .ok cr ∧ parseContentRange cr = some (s.toNat, e.toNat, n.toNat) := by
  obtain ⟨a, ha, hda, hva⟩ := appendUint_ok hs hs'
  obtain ⟨b, hb, hdb, hvb⟩ := appendUint_ok he he'
  obtain ⟨c, hc, hdc, hvc⟩ := appendUint_ok hn hn'
  refine ⟨strBytes ++ [32] ++ a ++ [45] ++ b ++ [47] ++ c, ?_, ?_⟩
  · unfold contentRange; simp [ha, hb, hc, Except.bind]
  · rw [parseContentRange_render a b c hda hdb hdc, hva, hvb, hvc]

/-! ### the handler's decision -/

theorem slice_length (content : Bytes) (s e : Nat) (hse : s ≤ e) (he : e < content.length) :
    (slice content s e).length = e + 1 - s := by
  unfold slice
  rw [List.length_take, List.length_drop]; omega

theorem readerOutput_range (kind : ReaderKind) (content : Bytes) (s e : Nat) (hse : s ≤ e) (he : e < content.length) :
    readerOutput kind content (some ((s : Int), (e : Int))) = .ok (slice content s e) := by
  have h1 : ¬ ((e : Int) + 1 - (s : Int) ≤ 0) := by omega
  have h2 : ¬ ((s : Int) < 0) := by omega
  have h3 : ¬ ((s : Int) > (content.length : Int)) := by omega
  have h4 : ((e : Int) + 1 - (s : Int)).toNat = e + 1 - s := by omega
  have h5 : ((e : Int) - (s : Int) + 1).toNat = e + 1 - s := by omega
  cases kind <;> simp [readerOutput, h1, h2, h3, h4, h5, slice]

theorem sendBody_exact (o : Bytes) : sendBody false (.ok o) (o.length : Int) = .ok o := by
  unfold sendBody
  have h1 : ¬ ((o.length : Int) < 0) := by omega
  simp [h1, Except.bind]

theorem okUnsat_abort (head : Bool) : okUnsat head (abortResp head 416 msg416) = true := by
  cases head <;> decide

/-- **The handler's answer is what the property asks for**, for every reader kind, file content,
method, `Range` value whose numbers fit a Go `int`, and setting of `AcceptByteRange`, outside the
F14 class: it does not fail, and the answer satisfies the independent predicate `Spec.respOk`
(whole file / exactly the RFC 7233 range with consistent `Content-Length` and a `Content-Range`
that reads back as `(first, last, length)` / 416; HEAD: same headers, empty body). -/
theorem serve_meets_spec (kind : ReaderKind) (content : Bytes) (head : Bool) (r : Bytes) (accept : Bool)
    (hn : (content.length : Int) < 9223372036854775808) :
    ∃ resp, serveDecision kind content head r accept = .ok resp ∧ respOk content head r accept resp = true := by
  unfold serveDecision respOk
  by_cases hcond : (accept && decide (r.length > 0)) = true
  · have hcond' : (accept && !r.isEmpty) = true := by
      simp only [Bool.and_eq_true, decide_eq_true_eq] at hcond
      cases r with
      | nil => simp at hcond
      | cons x t => simp [hcond.1]
    have hacc : accept = true := by simp only [Bool.and_eq_true] at hcond; exact hcond.1
    simp only [hcond, hcond', if_true]
    by_cases hfit : numsFit r = true
    case neg =>
      have hfit' : numsFit r = false := by simpa using hfit
      rw [parseByteRange_unfit r _ hfit']
      refine ⟨_, rfl, ?_⟩
      cases rfcRange r content.length <;> simp [okUnsat_abort, hfit']
    rw [parseByteRange_eq_rfc r content.length hfit]
    cases hr : rfcRange r content.length with
    | invalid => exact ⟨_, rfl, okUnsat_abort head⟩
    | unsat => exact ⟨_, rfl, okUnsat_abort head⟩
    | sat s e =>
      have hpe : parseByteRange r (content.length : Int) = .ok ((s : Int), (e : Int)) := by
        rw [parseByteRange_eq_rfc r content.length hfit, hr]; rfl
      obtain ⟨hs0, hse, hen⟩ := parseByteRange_bounds r _ _ _ (by omega) hpe
      have hse' : s ≤ e := by omega
      have hen' : e < content.length := by omega
      obtain ⟨cr, hcr, hback⟩ := contentRange_ok (s := (s : Int)) (e := (e : Int)) (n := (content.length : Int))
        (by omega) (by omega) (by omega) (by omega) (by omega) hn
      have hbig : ¬ (kind = ReaderKind.big ∧ (s : Int) < 0) := by intro h; omega
      simp only [rfcExcept, hbig, if_false, hcr, Except.bind, readerOutput_range kind content s e hse' hen']
      have hlen : ((e : Int) - (s : Int) + 1) = ((slice content s e).length : Int) := by
        rw [slice_length content s e hse' hen']; omega
      cases head with
      | true =>
        refine ⟨_, by simp [sendBody]; rfl, ?_⟩
        simp only [okPartial, Option.bind, hback, Int.toNat_natCast]
        simp [hacc]; omega
      | false =>
        rw [hlen, sendBody_exact]
        refine ⟨_, rfl, ?_⟩
        simp only [okPartial, Option.bind, hback, Int.toNat_natCast]
        simp [hacc]
        rw [slice_length content s e hse' hen']
        exact Or.inl rfl
  · have hcond' : ¬ (accept && !r.isEmpty) = true := by
      intro h
      apply hcond
      simp only [Bool.and_eq_true, Bool.not_eq_true', List.isEmpty_eq_false_iff] at h
      simp only [Bool.and_eq_true, decide_eq_true_eq]
      refine ⟨h.1, ?_⟩
      cases r with
      | nil => exact absurd rfl h.2
      | cons x t => simp
    simp only [hcond, hcond', if_false, readerOutput]
    cases head with
    | true => exact ⟨_, by simp [sendBody, Except.bind]; rfl, by simp [okWhole]⟩
    | false =>
      rw [sendBody_exact]
      exact ⟨_, rfl, by simp [okWhole]⟩

/-- The 206 answer written out: whenever `ParseByteRange` returns a pair inside the file, the handler
answers with exactly that slice, `Content-Length = last - first + 1`, and a `Content-Range` that
reads back as `(first, last, length)`; HEAD gets the same record with an empty body. -/
theorem serve_range_ok (kind : ReaderKind) (content : Bytes) (r : Bytes) (s e : Nat)
    (hne : r ≠ []) (hn : (content.length : Int) < 9223372036854775808)
    (hp : parseByteRange r (content.length : Int) = .ok ((s : Int), (e : Int)))
    (hse : s ≤ e) (hen : e < content.length) :
    ∃ cr, parseContentRange cr = some (s, e, content.length) ∧
      ∀ head, serveDecision kind content head r true =
        .ok { status := 206, contentLength := ((e + 1 - s : Nat) : Int), contentRange := some cr, acceptRanges := true,
              body := if head then [] else slice content s e } := by
  obtain ⟨cr, hcr, hback⟩ := contentRange_ok (s := (s : Int)) (e := (e : Int)) (n := (content.length : Int))
    (by omega) (by omega) (by omega) (by omega) (by omega) hn
  refine ⟨cr, by simpa using hback, ?_⟩
  intro head
  unfold serveDecision
  have hcond : (true && decide (r.length > 0)) = true := by
    cases r with
    | nil => exact absurd rfl hne
    | cons x t => simp
  have hbig : ¬ (kind = ReaderKind.big ∧ (s : Int) < 0) := by intro h; omega
  have hlen : ((e : Int) - (s : Int) + 1) = ((slice content s e).length : Int) := by
    rw [slice_length content s e hse hen]; omega
  have hcl : ((e : Int) - (s : Int) + 1) = ((e + 1 - s : Nat) : Int) := by omega
  simp only [hcond, if_true, hp, hbig, if_false, hcr, Except.bind, readerOutput_range kind content s e hse hen]
  cases head with
  | true => simp [sendBody, hcl]
  | false => rw [hlen, sendBody_exact, ← hlen, hcl]; rfl

/-- **The decision never fails** (no panic, no I/O-level error) outside the F14 class — for every
`Range` value, including numbers that overflow — and its answer is internally consistent. -/
theorem serve_total (kind : ReaderKind) (content : Bytes) (head : Bool) (r : Bytes) (accept : Bool)
    (hn : (content.length : Int) < 9223372036854775808) :
    ∃ resp, serveDecision kind content head r accept = .ok resp ∧
      (head = true → resp.body = []) ∧ (head = false → (resp.body.length : Int) = resp.contentLength) ∧
      (resp.status = 200 ∧ resp.contentRange = none ∧ resp.contentLength = content.length ∧
          (head = false → resp.body = content) ∨
       resp.status = 416 ∧ resp.contentRange = none ∧ accept = true ∧ parseByteRange r content.length = .error .bad ∨
       ∃ s e : Nat, resp.status = 206 ∧ accept = true ∧ parseByteRange r content.length = .ok ((s : Int), (e : Int)) ∧
          s ≤ e ∧ e < content.length ∧ resp.contentLength = ((e + 1 - s : Nat) : Int) ∧
          (resp.contentRange.bind parseContentRange) = some (s, e, content.length) ∧
          (head = false → resp.body = slice content s e)) := by
  by_cases hcond : (accept && decide (r.length > 0)) = true
  · have hacc : accept = true := by simp only [Bool.and_eq_true] at hcond; exact hcond.1
    have hne : r ≠ [] := by
      intro h; subst h; simp at hcond
    subst hacc
    rcases parseByteRange_no_panic r (content.length : Int) with ⟨⟨s, e⟩, hp⟩ | hbad
    · obtain ⟨hs0, hse, hen⟩ := parseByteRange_bounds r _ _ _ (by omega) hp
      have hs : s = ((s.toNat : Nat) : Int) := by omega
      have he : e = ((e.toNat : Nat) : Int) := by omega
      rw [hs, he] at hp
      obtain ⟨cr, hback, hserve⟩ := serve_range_ok kind content r s.toNat e.toNat hne hn hp (by omega) (by omega)
      refine ⟨_, hserve head, ?_, ?_, Or.inr (Or.inr ⟨s.toNat, e.toNat, rfl, rfl, hp, by omega, by omega, rfl, ?_, ?_⟩)⟩
      · intro h; simp [h]
      · intro h; simp only [h, Bool.false_eq_true, if_false]
        rw [slice_length content s.toNat e.toNat (by omega) (by omega)]
      · simp [hback]
      · intro h; simp [h]
    · refine ⟨abortResp head 416 msg416, ?_, ?_, ?_, Or.inr (Or.inl ⟨rfl, rfl, rfl, hbad⟩)⟩
      · unfold serveDecision; simp only [hcond, if_true, hbad]
      · intro h; simp [abortResp, h]
      · intro h; simp [abortResp, h]
  · unfold serveDecision
    simp only [hcond, if_false, readerOutput]
    cases head with
    | true =>
      refine ⟨_, by simp [sendBody, Except.bind]; rfl, ?_, ?_, Or.inl ⟨rfl, rfl, rfl, ?_⟩⟩ <;> simp
    | false =>
      rw [sendBody_exact]
      refine ⟨_, rfl, ?_, ?_, Or.inl ⟨rfl, rfl, rfl, ?_⟩⟩ <;> simp

/-- HEAD gets the headers of GET and no body (same hypotheses as `serve_total`). -/
theorem head_same_headers (kind : ReaderKind) (content : Bytes) (r : Bytes) (accept : Bool)
    (hn : (content.length : Int) < 9223372036854775808) :
    ∃ g, serveDecision kind content false r accept = .ok g ∧
      serveDecision kind content true r accept = .ok { g with body := [] } := by
  by_cases hcond : (accept && decide (r.length > 0)) = true
  · have hacc : accept = true := by simp only [Bool.and_eq_true] at hcond; exact hcond.1
    have hne : r ≠ [] := by
      intro h; subst h; simp at hcond
    subst hacc
    rcases parseByteRange_no_panic r (content.length : Int) with ⟨⟨s, e⟩, hp⟩ | hbad
    · obtain ⟨hs0, hse, hen⟩ := parseByteRange_bounds r _ _ _ (by omega) hp
      have hs : s = ((s.toNat : Nat) : Int) := by omega
      have he : e = ((e.toNat : Nat) : Int) := by omega
      rw [hs, he] at hp
      obtain ⟨cr, _, hserve⟩ := serve_range_ok kind content r s.toNat e.toNat hne hn hp (by omega) (by omega)
      exact ⟨_, hserve false, by rw [hserve true]; rfl⟩
    · refine ⟨abortResp false 416 msg416, ?_, ?_⟩
      · unfold serveDecision; simp only [hcond, if_true, hbad]
      · unfold serveDecision; simp only [hcond, if_true, hbad]; rfl
  · unfold serveDecision
    simp only [hcond, if_false, readerOutput]
    rw [sendBody_exact]
    exact ⟨_, rfl, by simp [sendBody, Except.bind]⟩

/-- The three reader kinds are indistinguishable (same hypotheses). -/
theorem reader_kind_irrelevant (k₁ k₂ : ReaderKind) (content : Bytes) (head : Bool) (r : Bytes) (accept : Bool)
    (hn : (content.length : Int) < 9223372036854775808) :
    serveDecision k₁ content head r accept = serveDecision k₂ content head r accept := by
  by_cases hcond : (accept && decide (r.length > 0)) = true
  · have hacc : accept = true := by simp only [Bool.and_eq_true] at hcond; exact hcond.1
    have hne : r ≠ [] := by
      intro h; subst h; simp at hcond
    subst hacc
    rcases parseByteRange_no_panic r (content.length : Int) with ⟨⟨s, e⟩, hp⟩ | hbad
    · obtain ⟨hs0, hse, hen⟩ := parseByteRange_bounds r _ _ _ (by omega) hp
      have hbig1 : ¬ (k₁ = ReaderKind.big ∧ s < 0) := by intro h; omega
      have hbig2 : ¬ (k₂ = ReaderKind.big ∧ s < 0) := by intro h; omega
      have hs : s = ((s.toNat : Nat) : Int) := by omega
      have he : e = ((e.toNat : Nat) : Int) := by omega
      unfold serveDecision
      simp only [hcond, if_true, hp, hbig1, hbig2, if_false]
      rw [hs, he, readerOutput_range k₁ content s.toNat e.toNat (by omega) (by omega),
        readerOutput_range k₂ content s.toNat e.toNat (by omega) (by omega)]
    · unfold serveDecision; simp only [hcond, if_true, hbad]
  · unfold serveDecision
    simp only [hcond, Bool.false_eq_true, if_false, readerOutput]

/-! ### soundness of an accepted range without any assumption on the numbers -/

theorem suffix_sound (suf : Bytes) (n : Nat) (v : Int) (hp : parseUint suf = .ok v)
    (hnz : ¬ (n = 0 ∨ v = 0)) :
    rfcSuffix suf n = .sat (suffixRange n v).1.toNat (suffixRange n v).2.toNat := by
  obtain ⟨hd, _, hv⟩ := parseUint_ok hp
  unfold rfcSuffix suffixRange
  have h1 : ¬ (decVal suf = 0 ∨ n = 0) := by omega
  simp only [hd, Bool.not_true, Bool.false_eq_true, if_false, h1]
  by_cases hlt : (n : Int) - v < 0
  · simp only [hlt, if_true]; congr 1 <;> omega
  · simp only [hlt, if_false]; congr 1 <;> omega

theorem fromTo_sound (a b : Bytes) (n : Nat) (s e : Int)
    (h : fromToRange n a b = .ok (s, e)) : rfcFromTo a b n = .sat s.toNat e.toNat := by
  unfold fromToRange at h
  cases hpa : parseUint a with
  | error x => simp [hpa] at h
  | ok sa =>
    obtain ⟨hda, _, hsa'⟩ := parseUint_ok hpa
    simp only [hpa] at h
    by_cases hge : sa ≥ (n : Int)
    · simp [hge] at h
    · simp only [hge, if_false] at h
      have hlt : ¬ decVal a ≥ n := by omega
      unfold rfcFromTo
      simp only [hda, Bool.not_true, Bool.false_eq_true, if_false]
      by_cases hbl : b.length = 0
      · have hb : b = [] := List.eq_nil_of_length_eq_zero hbl
        simp only [hbl, if_true, Except.ok.injEq, Prod.mk.injEq] at h
        simp only [hb, if_true, hlt, if_false]
        congr 1 <;> omega
      · have hb : b ≠ [] := by intro hb; simp [hb] at hbl
        simp only [hbl, if_false] at h
        cases hpb : parseUint b with
        | error x => simp [hpb] at h
        | ok eb =>
          obtain ⟨hdb, _, heb⟩ := parseUint_ok hpb
          simp only [hpb] at h
          simp only [hb, if_false, hdb, Bool.not_true, Bool.false_eq_true, hlt]
          by_cases hbn : eb ≥ (n : Int)
          · simp only [hbn, if_true] at h
            by_cases hl2 : (n : Int) - 1 < sa
            · simp [hl2] at h
            · simp only [hl2, if_false, Except.ok.injEq, Prod.mk.injEq] at h
              have h2 : ¬ decVal b < decVal a := by omega
              simp only [h2, if_false]
              congr 1 <;> omega
          · simp only [hbn, if_false] at h
            by_cases hl2 : eb < sa
            · simp [hl2] at h
            · simp only [hl2, if_false, Except.ok.injEq, Prod.mk.injEq] at h
              have h2 : ¬ decVal b < decVal a := by omega
              simp only [h2, if_false]
              congr 1 <;> omega

/-- **Every accepted range is the RFC 7233 range**: for every header value and every length. -/
theorem parseByteRange_sound (r : Bytes) (n : Nat) (s e : Int)
    (h : parseByteRange r (n : Int) = .ok (s, e)) : rfcRange r n = .sat s.toNat e.toNat := by
  by_cases hp : ∃ spec, r = 98 :: 121 :: 116 :: 101 :: 115 :: 61 :: spec
  · obtain ⟨spec, rfl⟩ := hp
    rw [parseByteRange_prefix] at h
    rw [rfcRange_prefix]
    unfold parseSpec at h
    cases hs : splitAt1 45 spec with
    | none => simp [hs] at h
    | some ab =>
      obtain ⟨a, b⟩ := ab
      cases a with
      | nil =>
        have hspec := splitAt1_nil_left hs
        subst hspec
        simp only [hs] at h ⊢
        cases hpb : parseUint b with
        | error x => simp [hpb] at h
        | ok v =>
          simp only [hpb] at h
          cases hz : (v == 0 || (n : Int) == 0)
          case true => simp [hz] at h
          have hc := hz
          simp only [Bool.or_eq_false_iff, beq_eq_false_iff_ne, ne_eq] at hc
          simp only [hz, Bool.false_eq_true, if_false, Except.ok.injEq] at h
          have := suffix_sound b n v hpb (by omega)
          rw [h] at this
          exact this
      | cons x a =>
        simp only [hs] at h ⊢
        exact fromTo_sound (x :: a) b n s e h
  · have hnp : ∀ spec, r ≠ 98 :: 121 :: 116 :: 101 :: 115 :: 61 :: spec := fun spec he => hp ⟨spec, he⟩
    rw [parseByteRange_noprefix r _ hnp] at h
    cases h

/-! ### tie to the regenerated facts -/

/-- The Go functions this model mirrors still have the statement skeletons (tests, operators,
operands, order) the model was written against, and `MaxSmallFileSize`/`StrBytes` have the values it
uses.  A change of `>=` to `>` in a clamp, of `endPos + 1`, of the `lr.N` arithmetic, of the order of
the three `AppendUint` calls, of the zero-suffix test, or of the overflow test in `ParseUintBuf` breaks this proof. -/
theorem model_matches_gen :
    strBytes = Gen.Str.strBytes ∧
    Gen.Fs.maxSmallFileSize = 8192 ∧
    Gen.Fs.parseByteRange = [
      "b := byteRange",
      "if !bytes.HasPrefix(b, bytestr.StrBytes)", "return 0, 0, ERR",
      "b = b[len(bytestr.StrBytes):]",
      "if len(b) == 0 || b[0] != '='", "return 0, 0, ERR",
      "b = b[1:]",
      "n := bytes.IndexByte(b, '-')",
      "if n < 0", "return 0, 0, ERR",
      "if n == 0",
      "v, err := bytesconv.ParseUint(b[n+1:])",
      "if err != nil", "return 0, 0, err",
      "if v == 0 || contentLength == 0", "return 0, 0, ERR",
      "startPos := contentLength - v",
      "if startPos < 0", "startPos = 0",
      "return startPos, contentLength - 1, nil",
      "if startPos, err = bytesconv.ParseUint(b[:n]); err != nil", "return 0, 0, err",
      "if startPos >= contentLength", "return 0, 0, ERR",
      "b = b[n+1:]",
      "if len(b) == 0", "return startPos, contentLength - 1, nil",
      "if endPos, err = bytesconv.ParseUint(b); err != nil", "return 0, 0, err",
      "if endPos >= contentLength", "endPos = contentLength - 1",
      "if endPos < startPos", "return 0, 0, ERR",
      "return startPos, endPos, nil"] ∧
    Gen.Fs.smallUpdateByteRange = ["r.startPos = startPos", "r.endPos = endPos + 1", "return nil"] ∧
    Gen.Fs.bigUpdateByteRange = [
      "if _, err := r.f.Seek(int64(startPos), 0); err != nil", "return err",
      "r.r = &r.lr", "r.lr.R = r.f", "r.lr.N = int64(endPos - startPos + 1)", "return nil"] ∧
    Gen.Fs.isBig = ["return ff.contentLength > consts.MaxSmallFileSize && len(ff.dirIndex) == 0"] ∧
    Gen.Fs.setContentRange = [
      "b := h.bufKV.value[:0]",
      "b = append(b, bytestr.StrBytes...)", "b = append(b, ' ')",
      "b = bytesconv.AppendUint(b, startPos)", "b = append(b, '-')",
      "b = bytesconv.AppendUint(b, endPos)", "b = append(b, '/')",
      "b = bytesconv.AppendUint(b, contentLength)",
      "h.bufKV.value = b",
      "h.SetCanonical(bytestr.StrContentRange, h.bufKV.value)"] ∧
    Gen.Fs.parseUintBuf = [
      "n := len(b)", "if n == 0", "return -1, 0, errEmptyInt",
      "v := 0", "for i := 0; i < n; i++", "c := b[i]", "k := c - '0'",
      "if k > 9", "if i == 0", "return -1, i, errUnexpectedFirstChar", "return v, i, nil",
      "if v > (maxInt-int(k))/10", "return -1, i, errTooLongInt",
      "v = 10*v + int(k)", "return v, n, nil"] ∧
    Gen.Fs.maxIntExpr = "int(^uint(0) >> 1)" ∧ maxInt = 2 ^ 63 - 1 ∧
    Gen.Fs.parseUint = [
      "v, n, err := ParseUintBuf(buf)", "if n != len(buf)", "return -1, errUnexpectedTrailingChar", "return v, err"] := by
  decide

end Hertz.FS
