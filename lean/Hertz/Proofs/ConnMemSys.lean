import Hertz.Proofs.ConnMemInv
/-!
The whole connection (reader + writer + caller + allocator) at memory level: ownership invariant `Good` and
the frame property of every step other than `Release` / `Read`.
-/
namespace Hertz.ConnMem
open Hertz Hertz.Conn

def MWriter.chain (s : MWriter) : List MNode := s.pre ++ [s.w]
/-- blocks of the nodes the writer allocated itself (by-reference nodes point into the caller's memory) -/
def ownOf (l : List MNode) : List Nat := (l.filter (fun nd => !nd.readOnly)).map (·.blk)
def MWriter.own (s : MWriter) : List Nat := ownOf s.chain

/-- ownership: the blocks of the reader, of the writer, of the caller and of the allocator's free list are pairwise
distinct (no block is held twice) and were all handed out before; a by-reference node points into caller memory -/
def Good (c : MConn) : Prop :=
  RGood c.mem c.r (c.wr.own ++ c.caller) ∧ (∀ nd ∈ c.wr.chain, nd.readOnly = true → nd.blk ∈ c.caller)

/-- protected cells of the reader stay protected and keep their content -/
def CFrame (c c' : MConn) : Prop :=
  ∀ blk k, ProtR c.r blk k → ProtR c'.r blk k ∧ (c'.mem.heap.get blk)[k]? = (c.mem.heap.get blk)[k]?

theorem CFrame.refl (c : MConn) : CFrame c c := fun _ _ h => ⟨h, rfl⟩
theorem CFrame.trans {a b c : MConn} (h1 : CFrame a b) (h2 : CFrame b c) : CFrame a c :=
  fun blk k hp => ⟨(h2 blk k (h1 blk k hp).1).1, ((h2 blk k (h1 blk k hp).1).2).trans (h1 blk k hp).2⟩

theorem cframe_of (c c' : MConn) (hr : c'.r = c.r)
    (hh : ∀ b ∈ c.r.blocks, c'.mem.heap.get b = c.mem.heap.get b) : CFrame c c' := by
  intro blk k hp
  refine ⟨by rw [hr]; exact hp, by rw [hh blk hp.mem]⟩

/-- a block held by the writer or the caller is not one of the reader's -/
theorem Good.not_reader {c : MConn} (hG : Good c) {b : Nat} (hb : b ∈ c.wr.own ++ c.caller) : b ∉ c.r.blocks := by
  intro hr
  have := hG.1.1 b
  have a1 := List.count_pos_iff.2 hr
  have a2 := List.count_pos_iff.2 hb
  simp only [List.count_append] at this a2; omega

theorem Good.free_not_reader {c : MConn} (hG : Good c) {b : Nat} (hb : b ∈ c.mem.free.map (·.1)) : b ∉ c.r.blocks := by
  intro hr
  have := hG.1.1 b
  have a1 := List.count_pos_iff.2 hr
  have a2 := List.count_pos_iff.2 hb
  simp only [List.count_append] at this; omega

/-- writing into a block of the writer or of the caller -/
theorem write_live_ok (c : MConn) (hG : Good c) (b pos : Nat) (bs : Bytes) (hb : b ∈ c.wr.own ++ c.caller) :
    Good { c with mem := { c.mem with heap := c.mem.heap.write b pos bs } } ∧
    CFrame c { c with mem := { c.mem with heap := c.mem.heap.write b pos bs } } := by
  refine ⟨hG, cframe_of _ _ rfl fun x hx => ?_⟩
  have : b ≠ x := fun he => hG.not_reader hb (he ▸ hx)
  exact Heap.get_write_ne _ _ _ _ _ this

/-! ## `Malloc`, `WriteBinary` -/

theorem own_push (s : MWriter) (nd : MNode) (l nx : Nat) :
    MWriter.own { pre := s.pre ++ [s.w], w := nd, len := l, nextId := nx } =
      s.own ++ (if nd.readOnly = true then [] else [nd.blk]) := by
  simp only [MWriter.own, MWriter.chain, ownOf, List.filter_append, List.map_append]
  congr 1
  by_cases h : nd.readOnly = true <;> simp [h]

theorem mwReserve_good (c : MConn) (hG : Good c) (n ch : Nat) (o : Option Ref) (m1 : Mem) (wr1 : MWriter)
    (h : mwReserve c.mem c.wr n ch = .ok (o, m1, wr1)) :
    Good { c with mem := m1, wr := wr1 } ∧ CFrame c { c with mem := m1, wr := wr1 } ∧
    (∀ d, o = some d → d.blk ∈ wr1.own ++ c.caller) := by
  unfold mwReserve at h
  by_cases hn : n = 0
  · simp only [hn, if_true, pure, Except.pure] at h; cases h
    exact ⟨hG, CFrame.refl _, fun d hd => by cases hd⟩
  · simp only [hn, if_false] at h
    by_cases hl : c.wr.len > n
    · simp only [hl, if_true] at h
      split at h
      · cases h
      · simp only [pure, Except.pure] at h; cases h
        have hown : MWriter.own { c.wr with w := { c.wr.w with malloc := c.wr.w.malloc + n }, len := c.wr.len - n } = c.wr.own := by
          simp [MWriter.own, MWriter.chain, ownOf, List.filter_append, List.filter_cons]
          split <;> simp
        refine ⟨⟨by rw [hown]; exact hG.1, ?_⟩, cframe_of _ _ rfl (fun _ _ => rfl), ?_⟩
        · intro nd hnd hro
          simp only [MWriter.chain, List.mem_append, List.mem_singleton] at hnd
          rcases hnd with hnd | hnd
          · exact hG.2 nd (List.mem_append_left _ hnd) hro
          · subst hnd
            exact hG.2 c.wr.w (List.mem_append_right _ (List.mem_singleton_self _)) hro
        · intro d hd; cases hd
          rw [hown]
          by_cases hro : c.wr.w.readOnly = true
          · exact List.mem_append_right _ (hG.2 c.wr.w (List.mem_append_right _ (List.mem_singleton_self _)) hro)
          · apply List.mem_append_left
            simp [MWriter.own, MWriter.chain, ownOf, List.filter_append, List.filter_cons, hro]
    · simp only [hl, if_false, pure, Except.pure] at h; cases h
      have ha := alloc_ok c.mem (if n < defaultMallocSize then defaultMallocSize else n) ch
        (c.r.blocks ++ (c.wr.own ++ c.caller)) hG.1.1 hG.1.2
      refine ⟨⟨⟨fun x => ?_, fun x hx => ?_⟩, ?_⟩, cframe_of _ _ rfl (fun b hb => ?_), ?_⟩
      · have := ha.1 x
        simp only [own_push, Bool.false_eq_true, if_false, List.count_append, List.count_cons, List.count_nil] at this ⊢
        by_cases hx : (c.mem.alloc (if n < defaultMallocSize then defaultMallocSize else n) ch).1 = x
        · simp [hx] at this ⊢; omega
        · have h' : ¬ x = (c.mem.alloc (if n < defaultMallocSize then defaultMallocSize else n) ch).1 := fun e => hx e.symm
          simp [hx, h'] at this ⊢; omega
      · simp only [own_push, Bool.false_eq_true, if_false, List.mem_append, List.mem_singleton] at hx
        rcases hx with (hx | (hx | hx) | hx) | hx
        · exact ha.2.1 x (by simp only [List.mem_append]; exact Or.inl (Or.inl hx))
        · exact ha.2.1 x (by simp only [List.mem_append]; exact Or.inl (Or.inr (Or.inl hx)))
        · rw [hx]; exact ha.2.2.1
        · exact ha.2.1 x (by simp only [List.mem_append]; exact Or.inl (Or.inr (Or.inr hx)))
        · exact ha.2.1 x (by simp only [List.mem_append]; exact Or.inr hx)
      · intro nd hnd hro
        simp only [MWriter.chain, List.mem_append, List.mem_singleton] at hnd
        rcases hnd with (hnd | hnd) | hnd
        · exact hG.2 nd (List.mem_append_left _ hnd) hro
        · subst hnd; exact hG.2 c.wr.w (List.mem_append_right _ (List.mem_singleton_self _)) hro
        · subst hnd; cases hro
      · apply ha.2.2.2
        intro he
        have := ha.1 b
        have c1 := List.count_pos_iff.2 hb
        simp only [List.count_append, he] at this c1; simp at this; omega
      · intro d hd; cases hd
        simp [own_push]

theorem mwWriteBinary_good (c : MConn) (hG : Good c) (r : Ref) (ch n : Nat) (m1 : Mem) (wr1 : MWriter)
    (hr : r.blk ∈ c.caller) (h : mwWriteBinary c.mem c.wr r ch = .ok (n, m1, wr1)) :
    Good { c with mem := m1, wr := wr1 } ∧ CFrame c { c with mem := m1, wr := wr1 } := by
  unfold mwWriteBinary at h
  by_cases hs : r.len < block4k
  · simp only [hs, if_true] at h
    cases hres : mwReserve c.mem c.wr r.len ch with
    | error e => simp [hres, bind, Except.bind] at h
    | ok v =>
      obtain ⟨dst, m2, s2⟩ := v
      have h1 := mwReserve_good c hG r.len ch dst m2 s2 hres
      simp only [hres, bind, Except.bind] at h
      cases dst with
      | none => simp only [pure, Except.pure] at h; cases h; exact ⟨h1.1, h1.2.1⟩
      | some d =>
        have h2 := write_live_ok { c with mem := m2, wr := s2 } h1.1 d.blk d.lo (m2.heap.read r) (h1.2.2 d rfl)
        simp only [pure, Except.pure] at h; cases h
        exact ⟨h2.1, h1.2.1.trans h2.2⟩
  · simp only [hs, if_false, pure, Except.pure] at h; cases h
    have ha := alloc_ok c.mem 0 ch (c.r.blocks ++ (c.wr.own ++ c.caller)) hG.1.1 hG.1.2
    refine ⟨⟨⟨fun x => ?_, fun x hx => ?_⟩, ?_⟩, cframe_of _ _ rfl (fun b hb => ?_)⟩
    · have := ha.1 x
      simp only [own_push, if_true, List.append_nil] at this ⊢; omega
    · simp only [own_push, if_true, List.append_nil] at hx; exact ha.2.1 x hx
    · intro nd hnd hro
      simp only [MWriter.chain, List.mem_append, List.mem_singleton] at hnd
      rcases hnd with (hnd | hnd) | hnd
      · exact hG.2 nd (List.mem_append_left _ hnd) hro
      · subst hnd; exact hG.2 c.wr.w (List.mem_append_right _ (List.mem_singleton_self _)) hro
      · subst hnd; exact hr
    · apply ha.2.2.2
      intro he
      have := ha.1 b
      have c1 := List.count_pos_iff.2 hb
      simp only [List.count_append, he] at this c1; simp at this; omega

/-! ## `Flush`: blocks only move from the writer to the free list -/

theorem ownOf_cons (h : MNode) (l : List MNode) :
    ownOf (h :: l) = (if h.readOnly = true then [] else [h.blk]) ++ ownOf l := by
  by_cases hr : h.readOnly = true <;> simp [ownOf, List.filter_cons, hr]

theorem Mem.release_next (m : Mem) (blk cap : Nat) : (m.release blk cap).nextBlk = m.nextBlk := by
  unfold Mem.release; split <;> rfl

theorem MNode.release_next (m : Mem) (h : MNode) : (h.release m).nextBlk = m.nextBlk := by
  unfold MNode.release; split
  · rfl
  · exact Mem.release_next _ _ _

theorem MNode.release_spec (m : Mem) (h : MNode) (x : Nat) :
    ((h.release m).free.map (·.1)).count x ≤
      (m.free.map (·.1)).count x + ((if h.readOnly = true then [] else [h.blk]).count x) := by
  unfold MNode.release
  by_cases hr : h.readOnly = true
  · simp [hr]
  · have := release_count m h.blk h.cap x
    rw [if_neg hr, if_neg hr]
    by_cases hx : x = h.blk
    · subst hx; simpa using this
    · have h' : ¬ h.blk = x := fun e => hx e.symm
      simp only [hx, if_false, Nat.add_zero] at this
      simp [List.count_cons, h']; exact this

/-- the same with the released block spelled as an indicator -/
theorem MNode.release_spec' (m : Mem) (h : MNode) (x : Nat) :
    ((h.release m).free.map (·.1)).count x ≤
      (m.free.map (·.1)).count x + (if h.readOnly = true then 0 else if h.blk = x then 1 else 0) := by
  have := MNode.release_spec m h x
  by_cases hr : h.readOnly = true
  · simpa [hr] using this
  · simpa [hr, List.count_cons] using this

theorem mflushLoop_own (m : Mem) (pre : List MNode) (w : MNode) (len : Nat) (sc : WScript) :
    (∀ x, (ownOf ((mflushLoop m pre w len sc).2.2.2.1 ++ [(mflushLoop m pre w len sc).2.2.2.2.1]) ++
            (mflushLoop m pre w len sc).2.2.1.free.map (·.1)).count x ≤ (ownOf (pre ++ [w]) ++ m.free.map (·.1)).count x) ∧
    (mflushLoop m pre w len sc).2.2.1.nextBlk = m.nextBlk ∧
    (∀ nd ∈ (mflushLoop m pre w len sc).2.2.2.1 ++ [(mflushLoop m pre w len sc).2.2.2.2.1], nd.readOnly = true →
      ∃ nd0 ∈ pre ++ [w], nd0.readOnly = true ∧ nd0.blk = nd.blk) := by
  induction pre generalizing m sc with
  | nil =>
    unfold mflushLoop
    cases hs : wscriptNext sc with
    | mk f sc' =>
      cases f with
      | true => exact ⟨fun _ => Nat.le_refl _, rfl, fun nd hnd hro => ⟨nd, hnd, hro, rfl⟩⟩
      | false =>
        simp only [Bool.false_eq_true, if_false]
        split
        · rename_i hrec
          have hro : w.readOnly = false := by simp [MNode.recyclable] at hrec; exact hrec.2
          refine ⟨fun x => ?_, rfl, fun nd hnd hr => ?_⟩
          · simp [ownOf, MNode.reset, hro]
          · simp [MNode.reset] at hnd; subst hnd; simp at hr
        · refine ⟨fun x => ?_, rfl, fun nd hnd hr => ?_⟩
          · simp only [ownOf, List.nil_append, List.filter_cons, List.filter_nil]
            split <;> simp
          · simp at hnd; subst hnd; exact ⟨w, by simp, hr, rfl⟩
  | cons h pre ih =>
    unfold mflushLoop
    cases hs : wscriptNext sc with
    | mk f sc' =>
      cases f with
      | true => exact ⟨fun _ => Nat.le_refl _, rfl, fun nd hnd hro => ⟨nd, hnd, hro, rfl⟩⟩
      | false =>
        simp only [Bool.false_eq_true, if_false]
        have := ih (h.release m) sc'
        refine ⟨fun x => ?_, by rw [this.2.1, MNode.release_next], fun nd hnd hr => ?_⟩
        · have a := this.1 x
          have b := MNode.release_spec m h x
          simp only [List.cons_append, ownOf_cons, List.count_append] at a b ⊢
          omega
        · obtain ⟨nd0, h0, h1, h2⟩ := this.2.2 nd hnd hr
          exact ⟨nd0, List.mem_cons_of_mem _ h0, h1, h2⟩

theorem mwFlush_good (c : MConn) (hG : Good c) (sc : WScript) :
    Good { c with mem := (mwFlush c.mem c.wr sc).2.2.1, wr := (mwFlush c.mem c.wr sc).2.2.2.1 } ∧
    CFrame c { c with mem := (mwFlush c.mem c.wr sc).2.2.1, wr := (mwFlush c.mem c.wr sc).2.2.2.1 } := by
  -- the three facts about ownership, for whichever branch `Flush` takes
  have key : (∀ x, ((mwFlush c.mem c.wr sc).2.2.2.1.own ++ (mwFlush c.mem c.wr sc).2.2.1.free.map (·.1)).count x ≤
        (c.wr.own ++ c.mem.free.map (·.1)).count x) ∧
      (mwFlush c.mem c.wr sc).2.2.1.nextBlk = c.mem.nextBlk ∧
      (∀ nd ∈ (mwFlush c.mem c.wr sc).2.2.2.1.chain, nd.readOnly = true → ∃ nd0 ∈ c.wr.chain, nd0.readOnly = true ∧ nd0.blk = nd.blk) ∧
      (mwFlush c.mem c.wr sc).2.2.1.heap = c.mem.heap := by
    unfold mwFlush
    cases hp : c.wr.pre with
    | nil =>
      simp only
      by_cases hl : c.wr.w.len = 0
      · rw [if_pos hl]
        exact ⟨fun _ => Nat.le_refl _, rfl, fun nd hnd hro => ⟨nd, hnd, hro, rfl⟩, rfl⟩
      · simp only [hl, if_false]
        have := mflushLoop_own c.mem [] c.wr.w c.wr.len sc
        have hh := (mflushLoop_spec c.mem [] c.wr.w c.wr.len sc).1
        refine ⟨fun x => ?_, this.2.1, ?_, hh⟩
        · simpa [MWriter.own, MWriter.chain, hp] using this.1 x
        · simpa [MWriter.chain, hp] using this.2.2
    | cons h pre =>
      simp only
      by_cases hl : h.len = 0
      · simp only [hl, if_true]
        have := mflushLoop_own (h.release c.mem) pre c.wr.w c.wr.len sc
        have hh := (mflushLoop_spec (h.release c.mem) pre c.wr.w c.wr.len sc).1
        rw [MNode.release_heap] at hh
        refine ⟨fun x => ?_, by rw [this.2.1, MNode.release_next], ?_, hh⟩
        · have a := this.1 x
          have b := MNode.release_spec c.mem h x
          simp only [MWriter.own, MWriter.chain, hp, List.cons_append, ownOf_cons, List.count_append] at a b ⊢
          omega
        · intro nd hnd hr
          obtain ⟨nd0, h0, h1, h2⟩ := this.2.2 nd (by simpa [MWriter.chain] using hnd) hr
          exact ⟨nd0, by simp only [MWriter.chain, hp, List.cons_append]; exact List.mem_cons_of_mem _ h0, h1, h2⟩
      · simp only [hl, if_false]
        have := mflushLoop_own c.mem (h :: pre) c.wr.w c.wr.len sc
        have hh := (mflushLoop_spec c.mem (h :: pre) c.wr.w c.wr.len sc).1
        refine ⟨fun x => ?_, this.2.1, ?_, hh⟩
        · simpa [MWriter.own, MWriter.chain, hp] using this.1 x
        · simpa [MWriter.chain, hp] using this.2.2
  obtain ⟨k1, k2, k3, k4⟩ := key
  refine ⟨⟨⟨fun x => ?_, fun x hx => ?_⟩, fun nd hnd hr => ?_⟩, cframe_of _ _ rfl (fun b _ => by rw [k4])⟩
  · have a := k1 x
    have b := hG.1.1 x
    simp only [List.count_append] at a b ⊢; omega
  · rw [k2]
    apply hG.1.2
    simp only [List.mem_append] at hx ⊢
    rcases hx with (hx | hx | hx) | hx
    · exact Or.inl (Or.inl hx)
    · have a := k1 x
      have p := List.count_pos_iff.2 hx
      simp only [List.count_append] at a
      have : 0 < (c.wr.own).count x + (c.mem.free.map (·.1)).count x := by omega
      by_cases h0 : 0 < (c.wr.own).count x
      · exact Or.inl (Or.inr (Or.inl (List.count_pos_iff.1 h0)))
      · exact Or.inr (List.count_pos_iff.1 (by omega))
    · exact Or.inl (Or.inr (Or.inr hx))
    · have a := k1 x
      have p := List.count_pos_iff.2 hx
      simp only [List.count_append] at a
      by_cases h0 : 0 < (c.wr.own).count x
      · exact Or.inl (Or.inr (Or.inl (List.count_pos_iff.1 h0)))
      · exact Or.inr (List.count_pos_iff.1 (by omega))
  · obtain ⟨nd0, h0, h1, h2⟩ := k3 nd hnd hr
    rw [← h2]; exact hG.2 nd0 h0 h1

/-! ## the allocator scribbling over free memory -/

theorem scribble_fold_get (l : List (Nat × Nat)) (h : Heap) (pat : UInt8) (b : Nat) (hb : b ∉ l.map (·.1)) :
    (l.foldl (fun h e => h.set e.1 (List.replicate (h.get e.1).length pat)) h).get b = h.get b := by
  induction l generalizing h with
  | nil => rfl
  | cons e t ih =>
    simp only [List.map_cons, List.mem_cons, not_or] at hb
    simp only [List.foldl_cons]
    rw [ih _ hb.2, Heap.get_set]
    simp [Ne.symm hb.1]

/-! ## one step of the system -/

/-- what the caller must respect: buffers it passes are its own, slices it fills were reserved by `Malloc` and not
flushed yet (or are its own); reader operations considered here are the non-releasing ones -/
def CStep.legal (c : MConn) : CStep → Prop
  | .rd op _ _ => op.keeps = true
  | .writeBinary r _ => r.blk ∈ c.caller
  | .fillRef r _ => r.blk ∈ c.wr.own ++ c.caller
  | _ => True

theorem cstep_ok (c : MConn) (wire : Wire) (sc : WScript) (st : CStep) (hG : Good c) (hl : st.legal c)
    (o : COut) (c' : MConn) (w' : Wire) (sc' : WScript) (h : cstep c wire sc st = .ok (o, c', w', sc')) :
    Good c' ∧ CFrame c c' := by
  cases st with
  | rd op ch1 ch2 =>
    simp only [cstep] at h
    cases hs : mstep c.mem c.r wire ch1 ch2 op with
    | error f => simp [hs, bind, Except.bind] at h
    | ok r =>
      obtain ⟨mo, m1, r1, w1⟩ := r
      have := mstep_ok c.mem c.r wire ch1 ch2 op (c.wr.own ++ c.caller) hG.1 hl mo m1 r1 w1 hs
      simp only [hs, bind, Except.bind, pure, Except.pure] at h; cases h
      exact ⟨⟨this.1, hG.2⟩, this.2.1⟩
  | reserve n ch =>
    simp only [cstep] at h
    cases hs : mwReserve c.mem c.wr n ch with
    | error f => simp [hs, bind, Except.bind] at h
    | ok r =>
      obtain ⟨ref, m1, wr1⟩ := r
      simp only [hs, bind, Except.bind, pure, Except.pure] at h; cases h
      have := mwReserve_good c hG n ch ref m1 wr1 hs
      exact ⟨this.1, this.2.1⟩
  | writeBinary r ch =>
    simp only [cstep] at h
    cases hs : mwWriteBinary c.mem c.wr r ch with
    | error f => simp [hs, bind, Except.bind] at h
    | ok v =>
      obtain ⟨n, m1, wr1⟩ := v
      simp only [hs, bind, Except.bind, pure, Except.pure] at h; cases h
      exact mwWriteBinary_good c hG r ch n m1 wr1 hl hs
  | flush =>
    simp only [cstep, pure, Except.pure] at h; cases h
    exact mwFlush_good c hG sc
  | newBuf bs =>
    simp only [cstep, pure, Except.pure] at h; cases h
    have ha := fresh_ok c.mem bs.length (c.r.blocks ++ (c.wr.own ++ c.caller)) hG.1.1 hG.1.2
    have g1 : Good { c with mem := (c.mem.fresh bs.length).2, caller := (c.mem.fresh bs.length).1 :: c.caller } := by
      refine ⟨⟨fun x => ?_, fun x hx => ?_⟩, fun nd hnd hr => List.mem_cons_of_mem _ (hG.2 nd hnd hr)⟩
      · have := ha.1 x
        simp only [List.count_append, List.count_cons] at this ⊢
        by_cases hx : (c.mem.fresh bs.length).1 = x
        · simp [hx] at this ⊢; omega
        · have h' : ¬ x = (c.mem.fresh bs.length).1 := fun e => hx e.symm
          simp [hx, h'] at this ⊢; omega
      · simp only [List.mem_append, List.mem_cons] at hx
        rcases hx with (hx | hx | hx | hx) | hx
        · exact ha.2.1 x (by simp only [List.mem_append]; exact Or.inl (Or.inl hx))
        · exact ha.2.1 x (by simp only [List.mem_append]; exact Or.inl (Or.inr (Or.inl hx)))
        · rw [hx]; exact ha.2.2.1
        · exact ha.2.1 x (by simp only [List.mem_append]; exact Or.inl (Or.inr (Or.inr hx)))
        · exact ha.2.1 x (by simp only [List.mem_append]; exact Or.inr hx)
    have f1 : CFrame c { c with mem := (c.mem.fresh bs.length).2, caller := (c.mem.fresh bs.length).1 :: c.caller } := by
      refine cframe_of _ _ rfl (fun b hb => ?_)
      apply ha.2.2.2
      intro he
      have := ha.1 b
      have c1 := List.count_pos_iff.2 hb
      simp only [List.count_append, he] at this c1; simp at this; omega
    have := write_live_ok _ g1 (c.mem.fresh bs.length).1 0 bs (by simp)
    exact ⟨this.1, f1.trans this.2⟩
  | callerWrite blk pos bs =>
    simp only [cstep] at h
    split at h
    · rename_i hc
      simp only [pure, Except.pure] at h; cases h
      exact write_live_ok c hG blk pos bs (List.mem_append_right _ hc.1)
    · cases h
  | fillRef r bs =>
    simp only [cstep] at h
    split at h
    · simp only [pure, Except.pure] at h; cases h
      exact write_live_ok c hG r.blk r.lo bs hl
    · cases h
  | scribble pat =>
    simp only [cstep, pure, Except.pure] at h; cases h
    refine ⟨hG, cframe_of _ _ rfl (fun b hb => ?_)⟩
    exact scribble_fold_get _ _ _ _ (fun hf => hG.free_not_reader hf hb)

/-- every step of the sequence is legal in the state it is taken in -/
def Legal (c : MConn) (wire : Wire) (sc : WScript) : List CStep → Prop
  | [] => True
  | st :: rest => st.legal c ∧ ∀ o c1 w1 sc1, cstep c wire sc st = .ok (o, c1, w1, sc1) → Legal c1 w1 sc1 rest

theorem crun_ok (c : MConn) (wire : Wire) (sc : WScript) (steps : List CStep) (hG : Good c) (hl : Legal c wire sc steps)
    (outs : List COut) (c' : MConn) (w' : Wire) (sc' : WScript) (h : crun c wire sc steps = .ok (outs, c', w', sc')) :
    Good c' ∧ CFrame c c' := by
  induction steps generalizing c wire sc outs with
  | nil => simp only [crun, pure, Except.pure] at h; cases h; exact ⟨hG, CFrame.refl _⟩
  | cons st rest ih =>
    simp only [crun] at h
    cases hs : cstep c wire sc st with
    | error f => simp [hs, bind, Except.bind] at h
    | ok r =>
      obtain ⟨o, c1, w1, sc1⟩ := r
      have h1 := cstep_ok c wire sc st hG hl.1 o c1 w1 sc1 hs
      simp only [hs, bind, Except.bind] at h
      cases hr : crun c1 w1 sc1 rest with
      | error f => simp [hr] at h
      | ok r2 =>
        obtain ⟨os, c2, w2, sc2⟩ := r2
        simp only [hr, pure, Except.pure] at h; cases h
        have h2 := ih c1 w1 sc1 h1.1 (hl.2 o c1 w1 sc1 hs) os hr
        exact ⟨h2.1, h1.2.trans h2.2⟩

/-- the initial state owns its two blocks properly -/
theorem Good_new (size : Nat) : Good (MConn.new size) := by
  refine ⟨⟨fun x => ?_, fun x hx => ?_⟩, fun nd hnd hr => ?_⟩
  · simp only [MConn.new, Mem.fresh, MReader.blocks, MReader.cores, MReader.nodes, MNode.core,
      MWriter.own, MWriter.chain, ownOf, List.nil_append, List.map_cons, List.map_nil, List.filter_cons,
      List.filter_nil, List.append_nil, List.count_append, List.count_cons, List.count_nil]
    have e0 : (0 = x) ↔ (x = 0) := eq_comm
    have e1 : (1 = x) ↔ (x = 1) := eq_comm
    by_cases h1 : x = 0 <;> by_cases h2 : x = 1 <;> simp_all [List.count_cons]
  · simp [MConn.new, Mem.fresh, MReader.blocks, MReader.cores, MReader.nodes, MNode.core,
      MWriter.own, MWriter.chain, ownOf] at hx ⊢
    omega
  · simp [MConn.new, MWriter.chain] at hnd; subst hnd; simp at hr

end Hertz.ConnMem
