import Hertz.Proofs.ReqOwsLine
/-!
The value canonicalisation of the per-case check (`Driver.H1Spec.canonVal`: runs of SP / HTAB collapsed to one SP,
both ends trimmed), restated as `canon`, and the link between the handler's and the strict decoder's reading of a
spelled field line: `canon (hval f) = canon (sval f)`.
-/
namespace Hertz.H1.RT
open Hertz Hertz.H1 Hertz.Spec.Http

/-- every maximal run of non-blank bytes, preceded by one SP if `sp` (a blank was passed since the last run, or at
the start) -/
def canonGo : Bytes → Bool → Bytes
  | [], _ => []
  | c :: t, sp => if c = 32 ∨ c = 9 then canonGo t true else (if sp then [32, c] else [c]) ++ canonGo t false

/-- the words of `v`, each preceded by one SP -/
def spWords (v : Bytes) : Bytes := canonGo v true

/-- whitespace runs collapsed to one SP, both ends trimmed -/
def canon (v : Bytes) : Bytes := (spWords v).drop 1

theorem canonGo_eq : ∀ (v : Bytes) (sp : Bool), canonGo v sp = Driver.H1Spec.canonVal.go v sp
  | [], _ => by simp [canonGo, Driver.H1Spec.canonVal.go]
  | c :: t, sp => by
    simp only [canonGo, Driver.H1Spec.canonVal.go, canonGo_eq t true, canonGo_eq t false]

theorem spWords_head : ∀ v : Bytes, spWords v = [] ∨ ∃ r, spWords v = 32 :: r
  | [] => Or.inl rfl
  | c :: t => by
    by_cases hc : c = 32 ∨ c = 9
    · have := spWords_head t
      simpa [spWords, canonGo, hc] using this
    · exact Or.inr ⟨c :: canonGo t false, by simp [spWords, canonGo, hc]⟩

/-- `canon` is the driver's `canonVal` -/
theorem canon_eq_canonVal (v : Bytes) : canon v = Driver.H1Spec.canonVal v := by
  unfold Driver.H1Spec.canonVal canon spWords
  cases v with
  | nil => simp [canonGo, Driver.H1Spec.canonVal.go]
  | cons c t =>
    by_cases hc : c = 32 ∨ c = 9
    · have hgo : Driver.H1Spec.canonVal.go (c :: t) false = canonGo t true := by
        simp [Driver.H1Spec.canonVal.go, hc, canonGo_eq]
      have hgo' : canonGo (c :: t) true = canonGo t true := by simp [canonGo, hc]
      have hh : ((c :: t).head? == some 32 || (c :: t).head? == some 9) = true := by
        rcases hc with h | h <;> subst h <;> simp
      rw [hgo, hgo']
      rcases spWords_head t with h | ⟨r, h⟩
      · unfold spWords at h; rw [h]; rfl
      · unfold spWords at h; rw [h]
        simp only [hh, if_true, List.drop_succ_cons, List.drop_zero]
    · have hgo : Driver.H1Spec.canonVal.go (c :: t) false = c :: canonGo t false := by
        simp [Driver.H1Spec.canonVal.go, hc, canonGo_eq]
      have hgo' : canonGo (c :: t) true = 32 :: c :: canonGo t false := by simp [canonGo, hc]
      rw [hgo, hgo']
      have h32 : c ≠ 32 := fun h => hc (Or.inl h)
      split
      · rename_i r heq
        simp only [List.cons.injEq] at heq
        exact absurd heq.1 h32
      · rfl

/-! ### algebra of `spWords` -/

theorem canonGo_app_blank : ∀ (a b : Bytes) (sp : Bool), (b = [] ∨ ∃ x t, b = x :: t ∧ (x = 32 ∨ x = 9)) →
    canonGo (a ++ b) sp = canonGo a sp ++ canonGo b true
  | [], b, sp, h => by
    rcases h with h | ⟨x, t, h, hx⟩
    · subst h; simp [canonGo]
    · subst h; simp [canonGo, hx]
  | c :: t, b, sp, h => by
    simp only [List.cons_append, canonGo]
    split
    · exact canonGo_app_blank t b true h
    · rw [canonGo_app_blank t b false h]; simp

theorem spWords_app (a b : Bytes) (h : b = [] ∨ ∃ x t, b = x :: t ∧ (x = 32 ∨ x = 9)) :
    spWords (a ++ b) = spWords a ++ spWords b := canonGo_app_blank a b true h

theorem spWords_blank (x : UInt8) (t : Bytes) (hx : x = 32 ∨ x = 9) : spWords (x :: t) = spWords t := by
  simp [spWords, canonGo, hx]

theorem spWords_all_blank : ∀ s : Bytes, (∀ x ∈ s, x = 32 ∨ x = 9) → spWords s = []
  | [], _ => rfl
  | x :: t, h => by
    rw [spWords_blank x t (h x (by simp))]
    exact spWords_all_blank t (fun y hy => h y (by simp [hy]))

theorem spWords_app_blanks (a s : Bytes) (hs : ∀ x ∈ s, x = 32 ∨ x = 9) : spWords (a ++ s) = spWords a := by
  have h : s = [] ∨ ∃ x t, s = x :: t ∧ (x = 32 ∨ x = 9) := by
    cases s with
    | nil => exact Or.inl rfl
    | cons x t => exact Or.inr ⟨x, t, rfl, hs x (by simp)⟩
  rw [spWords_app a s h, spWords_all_blank s hs, List.append_nil]

theorem spWords_dropWhile (p : UInt8 → Bool) (hp : ∀ x, p x = true → x = 32 ∨ x = 9) :
    ∀ z : Bytes, spWords (z.dropWhile p) = spWords z
  | [] => rfl
  | c :: t => by
    by_cases hc : p c = true
    · rw [List.dropWhile_cons_of_pos hc, spWords_dropWhile p hp t, spWords_blank c t (hp c hc)]
    · rw [List.dropWhile_cons_of_neg hc]

theorem spWords_rstrip (p : UInt8 → Bool) (hp : ∀ x, p x = true → x = 32 ∨ x = 9) (w : Bytes) :
    spWords (w.reverse.dropWhile p).reverse = spWords w := by
  obtain ⟨s, hs, hall⟩ := rstrip_split p w
  conv => rhs; rw [hs]
  rw [spWords_app_blanks _ s (fun x hx => hp x (hall x hx))]

theorem spWords_trimOWS (z : Bytes) : spWords (trimOWS z) = spWords z := by
  have hp : ∀ x : UInt8, (x == 32 || x == 9) = true → x = 32 ∨ x = 9 := by
    intro x hx; simpa using hx
  unfold trimOWS
  rw [spWords_rstrip _ hp, spWords_dropWhile _ hp]

theorem spWords_stripSpace (z : Bytes) : spWords (stripSpace z) = spWords z := by
  have hp : ∀ x : UInt8, (x == 32) = true → x = 32 ∨ x = 9 := by
    intro x hx; left; simpa using hx
  unfold stripSpace
  rw [spWords_rstrip _ hp, spWords_dropWhile _ hp]

theorem spWords_tabsToSp : ∀ c : Bytes, spWords (tabsToSp c) = spWords c
  | [] => rfl
  | x :: t => by
    by_cases hx : x = 9
    · subst hx
      simp only [tabsToSp, if_true]
      rw [spWords_blank 32 _ (Or.inl rfl), spWords_blank 9 _ (Or.inr rfl), spWords_tabsToSp t]
    · simp [tabsToSp, hx]

/-- the words of the continuation lines -/
def spWordsL : List Bytes → Bytes
  | [] => []
  | c :: t => spWords c ++ spWordsL t

theorem unfoldH_head : ∀ cs : List Bytes, (∀ c ∈ cs, ContFacts c) →
    unfoldH cs = [] ∨ ∃ x t, unfoldH cs = x :: t ∧ (x = 32 ∨ x = 9)
  | [], _ => Or.inl rfl
  | c :: cs, h => by
    have hc := h c (by simp)
    obtain ⟨a, c', rfl⟩ := List.exists_cons_of_ne_nil hc.ne_nil
    have ha := hc.head a rfl
    refine Or.inr ?_
    rcases ha with ha | ha
    · subst ha; exact ⟨32, c' ++ unfoldH cs, by simp [unfoldH, tabsToSp], Or.inl rfl⟩
    · subst ha; exact ⟨32, tabsToSp c' ++ unfoldH cs, by simp [unfoldH, tabsToSp], Or.inl rfl⟩

theorem spWords_unfoldH : ∀ cs : List Bytes, (∀ c ∈ cs, ContFacts c) → spWords (unfoldH cs) = spWordsL cs
  | [], _ => rfl
  | c :: cs, h => by
    have hrest : ∀ c ∈ cs, ContFacts c := fun x hx => h x (by simp [hx])
    simp only [unfoldH, spWordsL]
    rw [spWords_app _ _ (unfoldH_head cs hrest), spWords_tabsToSp, spWords_unfoldH cs hrest]

theorem spWords_foldl : ∀ (cs : List Bytes) (v : Bytes),
    spWords (cs.foldl (fun v c => trimOWS (v ++ 32 :: trimOWS c)) v) = spWords v ++ spWordsL cs
  | [], v => by simp [spWordsL]
  | c :: cs, v => by
    simp only [List.foldl_cons, spWordsL]
    rw [spWords_foldl cs, spWords_trimOWS, spWords_app v _ (Or.inr ⟨32, _, rfl, Or.inl rfl⟩),
      spWords_blank 32 _ (Or.inl rfl), spWords_trimOWS, List.append_assoc]

/-- The handler's value and the strict decoder's value of a spelled field consist of the same words. -/
theorem spWords_hval_sval (f : FLine) (hf : wfFLine f = true) : spWords (hval f) = spWords (sval f) := by
  have F := wfFLine_facts f hf
  unfold hval sval
  rw [spWords_trimOWS, spWords_app _ _ (unfoldH_head f.conts F.conts), spWords_unfoldH f.conts F.conts,
    spWords_foldl, spWords_trimOWS]

/-- … so they are equal modulo the value canonicalisation of the per-case check. -/
theorem canon_hval_sval (f : FLine) (hf : wfFLine f = true) : canon (hval f) = canon (sval f) := by
  unfold canon; rw [spWords_hval_sval f hf]

/-! ### a value without blanks reads the same to the handler and to the strict decoder -/

theorem canonGo_nb : ∀ x : Bytes, (∀ c ∈ x, c ≠ 32 ∧ c ≠ 9) → canonGo x false = x
  | [], _ => rfl
  | c :: t, h => by
    have hc := h c (by simp)
    have : ¬ (c = 32 ∨ c = 9) := by intro h'; rcases h' with h' | h' <;> simp [h'] at hc
    simp [canonGo, this, canonGo_nb t (fun x hx => h x (by simp [hx]))]

theorem spWords_nil_all_blank : ∀ t : Bytes, spWords t = [] → ∀ x ∈ t, x = 32 ∨ x = 9
  | [], _ => by simp
  | c :: t, h => by
    by_cases hc : c = 32 ∨ c = 9
    · rw [spWords_blank c t hc] at h
      intro x hx
      simp only [List.mem_cons] at hx
      rcases hx with hx | hx
      · subst hx; exact hc
      · exact spWords_nil_all_blank t h x hx
    · simp [spWords, canonGo, hc] at h

theorem canonGo_false_nb_split : ∀ y : Bytes, (∀ c ∈ canonGo y false, c ≠ 32 ∧ c ≠ 9) →
    ∃ s, y = canonGo y false ++ s ∧ ∀ c ∈ s, c = 32 ∨ c = 9
  | [], _ => ⟨[], rfl, by simp⟩
  | d :: t, h => by
    by_cases hd : d = 32 ∨ d = 9
    · have e : canonGo (d :: t) false = spWords t := by simp [canonGo, hd, spWords]
      rw [e] at h ⊢
      rcases spWords_head t with h0 | ⟨r, hr⟩
      · rw [h0]
        refine ⟨d :: t, rfl, ?_⟩
        intro c hc
        simp only [List.mem_cons] at hc
        rcases hc with hc | hc
        · subst hc; exact hd
        · exact spWords_nil_all_blank t h0 c hc
      · rw [hr] at h
        exact absurd rfl (h 32 (by simp)).1
    · have e : canonGo (d :: t) false = d :: canonGo t false := by simp [canonGo, hd]
      rw [e] at h ⊢
      obtain ⟨s, hs, hall⟩ := canonGo_false_nb_split t (fun c hc => h c (by simp [hc]))
      exact ⟨s, by rw [List.cons_append, ← hs], hall⟩

theorem noBlankEnds_trimOWS (z : Bytes) : noBlankEnds (trimOWS z) = true := by
  have hp : ∀ c : UInt8, (c == 32 || c == 9) = false → c ≠ 32 ∧ c ≠ 9 := by
    intro c hc; simpa using hc
  obtain ⟨s, hs, _⟩ := rstrip_split (fun c => c == 32 || c == 9) (z.dropWhile (fun c => c == 32 || c == 9))
  have hlast : ∀ c, (trimOWS z).getLast? = some c → c ≠ 32 ∧ c ≠ 9 := by
    intro c hc
    unfold trimOWS at hc
    rw [List.getLast?_reverse] at hc
    exact hp c (head_dropWhile_not _ _ c hc)
  have hhead : ∀ c, (trimOWS z).head? = some c → c ≠ 32 ∧ c ≠ 9 := by
    intro c hc
    have e : trimOWS z = ((z.dropWhile (fun c => c == 32 || c == 9)).reverse.dropWhile (fun c => c == 32 || c == 9)).reverse := rfl
    rw [← e] at hs
    cases ht : trimOWS z with
    | nil => rw [ht] at hc; simp at hc
    | cons a t =>
      rw [ht] at hc hs
      simp at hc; subst hc
      exact hp a (head_dropWhile_not _ z a (by rw [hs]; rfl))
  unfold noBlankEnds
  cases hh : (trimOWS z).head? with
  | none =>
    cases hl : (trimOWS z).getLast? with
    | none => rfl
    | some c => have := hlast c hl; simp [this.1, this.2]
  | some a =>
    have ha := hhead a hh
    cases hl : (trimOWS z).getLast? with
    | none => simp [ha.1, ha.2]
    | some c => have := hlast c hl; simp [this.1, this.2, ha.1, ha.2]

theorem foldl_trimmed : ∀ (cs : List Bytes) (v : Bytes), (∃ z, v = trimOWS z) →
    ∃ z, cs.foldl (fun v c => trimOWS (v ++ 32 :: trimOWS c)) v = trimOWS z
  | [], _, h => h
  | _ :: cs, _, _ => foldl_trimmed cs _ ⟨_, rfl⟩

/-- a string without blanks at its ends that has the same words as a string without any blank is that string -/
theorem eq_of_spWords_nb (y h : Bytes) (hE : noBlankEnds y = true) (hnb : ∀ c ∈ h, c ≠ 32 ∧ c ≠ 9)
    (hw : spWords y = spWords h) : y = h := by
  obtain ⟨hhead, hlast⟩ := noBlankEnds_facts _ hE
  have hsp : ∀ h : Bytes, (∀ c ∈ h, c ≠ 32 ∧ c ≠ 9) → spWords h = if h = [] then [] else 32 :: h := by
    intro h hnb
    cases h with
    | nil => rfl
    | cons a h' =>
      have ha := hnb a (by simp)
      have : ¬ (a = 32 ∨ a = 9) := by intro h'; rcases h' with h' | h' <;> simp [h'] at ha
      simp [spWords, canonGo, this, canonGo_nb h' (fun x hx => hnb x (by simp [hx]))]
  rw [hsp h hnb] at hw
  cases y with
  | nil =>
    by_cases h0 : h = []
    · exact h0.symm
    · simp [h0, spWords, canonGo] at hw
  | cons c t =>
    have hc := hhead c rfl
    have hcb : ¬ (c = 32 ∨ c = 9) := by intro h'; rcases h' with h' | h' <;> simp [h'] at hc
    have e : spWords (c :: t) = 32 :: c :: canonGo t false := by simp [spWords, canonGo, hcb]
    rw [e] at hw
    by_cases h0 : h = []
    · simp [h0] at hw
    · simp only [h0, if_false, List.cons.injEq, true_and] at hw
      have hnb' : ∀ x ∈ canonGo t false, x ≠ 32 ∧ x ≠ 9 := fun x hx => hnb x (by rw [← hw]; simp [hx])
      obtain ⟨s, hs, hall⟩ := canonGo_false_nb_split t hnb'
      cases s with
      | nil => rw [← hw]; simp at hs; rw [← hs]
      | cons b s' =>
        exfalso
        have hl : (c :: t).getLast? = (b :: s').getLast? := by
          rw [hs, ← List.cons_append, List.getLast?_append]
          cases hx : (b :: s').getLast? with
          | none => simp at hx
          | some x => simp
        cases hx : (b :: s').getLast? with
        | none => simp at hx
        | some x =>
          have hxb := hall x (List.mem_of_getLast? hx)
          have := hlast x (by rw [hl, hx])
          rcases hxb with h' | h' <;> simp [h'] at this

/-- If the value the handler is handed contains no blank, the strict decoder returns the same value. -/
theorem sval_eq_hval_of_nb (f : FLine) (hf : wfFLine f = true) (hnb : ∀ c ∈ hval f, c ≠ 32 ∧ c ≠ 9) :
    sval f = hval f := by
  obtain ⟨z, hz⟩ : ∃ z, sval f = trimOWS z := foldl_trimmed f.conts _ ⟨_, rfl⟩
  have hE := noBlankEnds_trimOWS z
  rw [← hz] at hE
  exact eq_of_spWords_nb _ _ hE hnb (spWords_hval_sval f hf).symm

/-- A value that the strict decoder returns without blanks is handed to the handler unchanged. -/
theorem hval_eq_sval_of_nb (f : FLine) (hf : wfFLine f = true)
    (hnb : ∀ c ∈ sval f, c ≠ 32 ∧ c ≠ 9) : hval f = sval f :=
  eq_of_spWords_nb _ _ (noBlankEnds_trimOWS _) hnb (spWords_hval_sval f hf)

/-- without continuation lines both readings are `trimOWS raw` -/
theorem hval_nofold (k raw : Bytes) : hval { name := k, raw := raw, conts := [] } = trimOWS raw := by
  simp [hval, unfoldH]

theorem sval_nofold (k raw : Bytes) : sval { name := k, raw := raw, conts := [] } = trimOWS raw := rfl

theorem hval_eq_sval_nofold (f : FLine) (h : f.conts = []) : hval f = sval f := by
  obtain ⟨k, raw, cs⟩ := f
  simp only at h; subst h
  rw [hval_nofold, sval_nofold]

end Hertz.H1.RT
