import Hertz.Proofs.FsCachePool
/-!
Third invariant of the cache model: WHICH file object a reader reads.  Every reader — held by a response, pooled, or in the
hand of the request being handled — reads the file object its `fsFile` was made from (`o.c`: identity, bytes, length — what the
headers `Content-Length`, `Last-Modified`, `Content-Range` describe).  For small-file readers this is by construction (they read
through `ff.f`); for big-file readers it rests on the `os.SameFile` check after the re-open by name.  Core Lean only.
-/
set_option linter.unusedSimpArgs false
set_option linter.unusedVariables false

namespace Hertz.FsCache
open Hertz

/-- reader `r` (not necessarily in `live`) reads the file object of its `fsFile` -/
def Hand (s : State) (r : Reader) : Prop := (∀ o ∈ s.objs, o.id = r.fid → r.src = .content o.c) ∧ r.fid < s.next

structure S (s : State) : Prop where
  live : ∀ r ∈ s.live, Hand s r
  pool : ∀ o ∈ s.objs, ∀ p ∈ o.pool, p.src = .content o.c
  olt : ∀ o ∈ s.objs, o.id < s.next
  nd : s.objs.Pairwise (fun a b => a.id ≠ b.id)

theorem S_init : S {} := ⟨by simp, by simp, by simp, by simp⟩

theorem nd_unique {l : List Obj} (nd : l.Pairwise (fun a b => a.id ≠ b.id)) {a b : Obj} (ha : a ∈ l) (hb : b ∈ l)
    (e : a.id = b.id) : a = b := by
  induction l with
  | nil => cases ha
  | cons x t ih =>
    obtain ⟨h1, h2⟩ := List.pairwise_cons.1 nd
    cases List.mem_cons.1 ha with
    | inl ea =>
      cases List.mem_cons.1 hb with
      | inl eb => rw [ea, eb]
      | inr mb => subst ea; exact absurd e (h1 b mb)
    | inr ma =>
      cases List.mem_cons.1 hb with
      | inl eb => subst eb; exact absurd e.symm (h1 a ma)
      | inr mb => exact ih h2 ma mb

/-- updates of the `fsFile`s that keep identity and file object, and do not grow a pool by anything wrong -/
theorem S_map {s : State} (g : Obj → Obj) (h : S s) (hid : ∀ o, (g o).id = o.id) (hc : ∀ o, (g o).c = o.c)
    (hp : ∀ o ∈ s.objs, ∀ p ∈ (g o).pool, p.src = .content o.c) : S { s with objs := s.objs.map g } := by
  refine ⟨?_, ?_, ?_, pairwise_map_id g hid h.nd⟩
  · intro r hr
    refine ⟨?_, (h.live r hr).2⟩
    intro o' ho' e
    obtain ⟨o, ho, rfl⟩ := List.mem_map.1 ho'
    rw [hid] at e; rw [hc]; exact (h.live r hr).1 o ho e
  · intro o' ho' p hp'
    obtain ⟨o, ho, rfl⟩ := List.mem_map.1 ho'
    rw [hc]; exact hp o ho p hp'
  · intro o' ho'
    obtain ⟨o, ho, rfl⟩ := List.mem_map.1 ho'
    rw [hid]; exact h.olt o ho

theorem Hand_map {s : State} {r : Reader} (g : Obj → Obj) (hid : ∀ o, (g o).id = o.id) (hc : ∀ o, (g o).c = o.c)
    (h : Hand s r) : Hand { s with objs := s.objs.map g } r := by
  refine ⟨?_, h.2⟩
  intro o' ho' e
  obtain ⟨o, ho, rfl⟩ := List.mem_map.1 ho'
  rw [hid] at e; rw [hc]; exact h.1 o ho e

/-- `modObj` with a function that keeps identity, file object and pool -/
theorem S_modSame {s : State} (id : Nat) (f : Obj → Obj) (h : S s) (hid : ∀ o, (f o).id = o.id) (hc : ∀ o, (f o).c = o.c)
    (hp : ∀ o, (f o).pool = o.pool) : S (modObj id f s) := by
  rw [modObj_eq_map]
  refine S_map _ h ?_ ?_ ?_
  · intro o; by_cases e : o.id = id <;> simp [e, hid]
  · intro o; by_cases e : o.id = id <;> simp [e, hc]
  · intro o ho p hp'
    by_cases e : o.id = id
    · simp [e, hp] at hp'; exact h.pool o ho p hp'
    · simp [e] at hp'; exact h.pool o ho p hp'

theorem Hand_modSame {s : State} {r : Reader} (id : Nat) (f : Obj → Obj) (hid : ∀ o, (f o).id = o.id) (hc : ∀ o, (f o).c = o.c)
    (h : Hand s r) : Hand (modObj id f s) r := by
  rw [modObj_eq_map]
  refine Hand_map _ ?_ ?_ h
  · intro o; by_cases e : o.id = id <;> simp [e, hid]
  · intro o; by_cases e : o.id = id <;> simp [e, hc]

theorem S_dec {s s' : State} {id : Nat} (h : S s) (hd : decReadersCount id s = .ok s') : S s' := by
  unfold decReadersCount at hd
  cases hf : findObj s id with
  | none => simp [hf] at hd
  | some o =>
    simp [hf] at hd
    by_cases hn : o.rc - 1 < 0
    · simp [hn] at hd
    · simp [hn] at hd
      rw [← hd]
      exact S_modSame id _ h (fun _ => rfl) (fun _ => rfl) (fun _ => rfl)

theorem S_incRc {s : State} (id : Nat) (h : S s) : S (incRc id s) :=
  S_modSame id _ h (fun _ => rfl) (fun _ => rfl) (fun _ => rfl)

theorem Hand_incRc {s : State} {r : Reader} (id : Nat) (h : Hand s r) : Hand (incRc id s) r :=
  Hand_modSame id _ (fun _ => rfl) (fun _ => rfl) h

theorem S_next {s : State} (h : S s) : S { s with next := s.next + 1 } :=
  ⟨fun r hr => ⟨(h.live r hr).1, Nat.lt_succ_of_lt (h.live r hr).2⟩, h.pool, fun o ho => Nat.lt_succ_of_lt (h.olt o ho), h.nd⟩

theorem S_disk {s : State} (d : Disk) (h : S s) : S { s with disk := d } := ⟨h.live, h.pool, h.olt, h.nd⟩

theorem S_addLive {s : State} (r : Reader) (h : S s) (hr : Hand s r) : S { s with live := r :: s.live } := by
  refine ⟨?_, h.pool, h.olt, h.nd⟩
  intro x hx
  cases List.mem_cons.1 hx with
  | inl e => subst e; exact hr
  | inr m => exact h.live x m

theorem take_mem {rid : Nat} {l rest : List Reader} {r : Reader} (h : takeReader rid l = some (r, rest)) :
    r ∈ l ∧ ∀ x ∈ rest, x ∈ l := by
  have := countFid_take h 0
  exact ⟨this.2.1, this.2.2⟩

theorem S_take {s : State} {rid : Nat} {r : Reader} {rest : List Reader} (h : S s)
    (ht : takeReader rid s.live = some (r, rest)) : S { s with live := rest } ∧ Hand { s with live := rest } r :=
  ⟨⟨fun x hx => h.live x ((take_mem ht).2 x hx), h.pool, h.olt, h.nd⟩, h.live r (take_mem ht).1⟩

/-- `bigFileReader.Close`: the reader goes into the pool of its file -/
theorem S_push {s : State} {r : Reader} (h : S s) (hr : Hand s r) :
    S (modObj r.fid (fun o => { o with pool := { rid := r.rid, src := r.src } :: o.pool }) s) := by
  rw [modObj_eq_map]
  refine S_map _ h ?_ ?_ ?_
  · intro o; by_cases e : o.id = r.fid <;> simp [e]
  · intro o; by_cases e : o.id = r.fid <;> simp [e]
  · intro o ho p hp
    by_cases e : o.id = r.fid
    · simp [e] at hp
      cases hp with
      | inl e' => subst e'; exact hr.1 o ho e
      | inr m => exact h.pool o ho p m
    · simp [e] at hp; exact h.pool o ho p hp

/-- `bigFileReader()`: the last pooled reader is taken out -/
theorem S_pop {s : State} {id : Nat} {o : Obj} {p : Pooled} {rest : List Pooled} (h : S s)
    (ho : o ∈ s.objs) (hid : o.id = id) (hp : o.pool = p :: rest) (r : Reader) (hf : r.fid = id) (hs : r.src = p.src) :
    S (modObj id (fun o => { o with pool := rest }) s) ∧ Hand (modObj id (fun o => { o with pool := rest }) s) r := by
  have hand : Hand s r := by
    refine ⟨?_, by rw [hf, ← hid]; exact h.olt o ho⟩
    intro o' ho' e
    have : o' = o := nd_unique h.nd ho' ho (by rw [e, hf, hid])
    subst this
    rw [hs]; exact h.pool o' ho' p (by rw [hp]; simp)
  refine ⟨?_, Hand_modSame id _ (fun _ => rfl) (fun _ => rfl) hand⟩
  rw [modObj_eq_map]
  refine S_map _ h ?_ ?_ ?_
  · intro o; by_cases e : o.id = id <;> simp [e]
  · intro o; by_cases e : o.id = id <;> simp [e]
  · intro o' ho' q hq
    by_cases e : o'.id = id
    · simp [e] at hq
      have : o' = o := nd_unique h.nd ho' ho (by rw [e, hid])
      subst this
      exact h.pool o' ho' q (by rw [hp]; exact List.mem_cons_of_mem _ hq)
    · simp [e] at hq; exact h.pool o' ho' q hq

theorem tickObj_c (o : Obj) : (tickObj o).c = o.c := by
  unfold tickObj Obj.release; repeat' split
  all_goals rfl

theorem tickObj_pool_sub (o : Obj) : ∀ p ∈ (tickObj o).pool, p ∈ o.pool := by
  unfold tickObj Obj.release; repeat' split
  all_goals simp

theorem S_tick {s : State} (h : S s) : S (tick s) := by
  unfold tick
  exact S_map tickObj h tickObj_id tickObj_c (fun o ho p hp => h.pool o ho p (tickObj_pool_sub o p hp))

theorem S_expire {s : State} (h : S s) : S (expireAll s) := by
  unfold expireAll
  exact S_map _ h (fun _ => rfl) (fun _ => rfl) (fun o ho p hp => h.pool o ho p hp)

theorem S_newObj {s : State} (h : S s) (o : Obj) (hid : o.id = s.next) (hp : o.pool = []) :
    S { s with objs := o :: s.objs, next := s.next + 1 } := by
  refine ⟨?_, ?_, ?_, ?_⟩
  · intro r hr
    obtain ⟨a, b⟩ := h.live r hr
    refine ⟨?_, Nat.lt_succ_of_lt b⟩
    intro o' ho' e
    cases List.mem_cons.1 ho' with
    | inl e' => subst e'; omega
    | inr m => exact a o' m e
  · intro o' ho' p hp'
    cases List.mem_cons.1 ho' with
    | inl e' => subst e'; rw [hp] at hp'; cases hp'
    | inr m => exact h.pool o' m p hp'
  · intro o' ho'
    cases List.mem_cons.1 ho' with
    | inl e' => subst e'; show o'.id < s.next + 1; omega
    | inr m => have := h.olt o' m; show o'.id < s.next + 1; omega
  · refine List.pairwise_cons.2 ⟨fun b hb => ?_, h.nd⟩
    have := h.olt b hb; omega

/-- a reader made for the `fsFile` found by `findObj`, reading that file object -/
theorem Hand_of_find {s : State} {id : Nat} {o : Obj} (h : S s) (hf : findObj s id = some o) (r : Reader)
    (hfid : r.fid = id) (hs : r.src = .content o.c) : Hand s r := by
  obtain ⟨ho, hid⟩ := findObj_some hf
  refine ⟨?_, by rw [hfid, ← hid]; exact h.olt o ho⟩
  intro o' ho' e
  have : o' = o := nd_unique h.nd ho' ho (by rw [e, hfid, hid])
  subst this; exact hs

theorem Hand_next {s : State} {r : Reader} (h : Hand s r) : Hand { s with next := s.next + 1 } r :=
  ⟨h.1, Nat.lt_succ_of_lt h.2⟩

/-- the re-open by name yields the cached file object or nothing (the `os.SameFile` check) -/
theorem reopen_same {d : Disk} {o : Obj} {src : Src} (h : reopen d o = some src) : src = .content o.c := by
  unfold reopen at h
  split at h
  · split at h
    · split at h
      · rename_i e; cases h; rw [e]
      · cases h
    · cases h
  · split at h
    · split at h
      · rename_i e; cases h; rw [e]
      · cases h
    · cases h
    · cases h

/-! ### the Go functions -/

theorem S_closeReader {s s' : State} {r : Reader} (h : S s) (hr : Hand s r) (hc : closeReader r s = .ok s') : S s' := by
  unfold closeReader at hc
  by_cases hb : r.big = true
  · simp only [hb, if_true] at hc
    exact S_dec (S_push h hr) hc
  · simp only [hb, if_false] at hc
    exact S_dec h hc

theorem S_finish {s s' : State} {r : Reader} {a : Ans} (head : Bool) (status : Nat) (cr : Option (Nat × Nat × Nat))
    (h : S s) (hr : Hand s r) (hf : finish head s status r cr = .ok (s', a)) : S s' := by
  unfold finish at hf
  cases head with
  | true =>
    simp only [if_true] at hf
    obtain ⟨s1, e, e2⟩ := map_ok hf
    cases e2
    exact S_closeReader h hr e
  | false =>
    simp at hf
    rw [← hf.1]
    exact S_addLive r h hr

theorem S_withReader {s s' : State} {r : Reader} {a : Ans} (accept head : Bool) (range : Bytes) (o : Obj)
    (h : S s) (hr : Hand s r) (hw : withReader accept head range o r s = .ok (s', a)) : S s' := by
  unfold withReader at hw
  by_cases hc : (accept && !range.isEmpty) = true
  · simp only [hc, if_true] at hw
    rcases FS.parseByteRange_no_panic range o.c.len with ⟨⟨x, y⟩, hp⟩ | hp
    · rw [hp] at hw
      exact S_finish (r := { r with lo := x.toNat, cl := (y - x + 1).toNat }) head 206 _ h hr hw
    · rw [hp] at hw
      obtain ⟨s1, e, e2⟩ := map_ok hw
      cases e2
      exact S_closeReader h hr e
  · simp only [hc, if_false] at hw
    exact S_finish head 200 none h hr hw

theorem S_serve {s s' : State} {id : Nat} {a : Ans} (accept head : Bool) (ims : Option Nat) (range : Bytes)
    (h : S s) (hs : serve accept head ims range id s = .ok (s', a)) : S s' := by
  unfold serve at hs
  cases hfo : findObj s id with
  | none => simp [hfo] at hs
  | some o =>
    simp only [hfo] at hs
    obtain ⟨ho, hid⟩ := findObj_some hfo
    by_cases hn : notModified ims o = true
    · simp only [hn, if_true] at hs
      obtain ⟨s1, e, e2⟩ := map_ok hs
      cases e2
      exact S_dec h e
    · simp only [hn, if_false] at hs
      by_cases hb : o.isBig = true
      · simp only [hb, if_true] at hs
        cases hpool : o.pool with
        | cons p rest =>
          simp only [hpool] at hs
          obtain ⟨s1, h1⟩ := S_pop h ho hid hpool
            { rid := p.rid, fid := id, big := true, src := p.src, lo := 0, cl := o.c.len } rfl rfl
          exact S_withReader accept head range o s1 h1 hs
        | nil =>
          simp only [hpool] at hs
          cases hre : reopen s.disk o with
          | none =>
            simp only [hre] at hs
            obtain ⟨s1, e, e2⟩ := map_ok hs
            cases e2
            exact S_dec h e
          | some src =>
            simp only [hre] at hs
            have hh := Hand_of_find h hfo { rid := s.next, fid := id, big := true, src := src, lo := 0, cl := o.c.len } rfl (reopen_same hre)
            exact S_withReader accept head range o (S_next h) (Hand_next hh) hs
      · simp only [hb, if_false] at hs
        have hh := Hand_of_find h hfo { rid := s.next, fid := id, big := false, src := .content o.c, lo := 0, cl := o.c.len } rfl rfl
        exact S_withReader accept head range o (S_next h) (Hand_next hh) hs

theorem S_handleRequest {s s' : State} {a : Ans} (accept : Bool) (key : Nat) (head : Bool) (ims : Option Nat) (range : Bytes)
    (h : S s) (hr : handleRequest accept key head ims range s = .ok (s', a)) : S s' := by
  unfold handleRequest at hr
  cases hlk : lookup s key with
  | some o =>
    simp only [hlk] at hr
    exact S_serve accept head ims range (S_incRc o.id h) hr
  | none =>
    simp only [hlk] at hr
    cases hop : openPath s.disk key with
    | notFound => simp only [hop] at hr; cases hr; exact h
    | forbidden => simp only [hop] at hr; cases hr; exact h
    | ok vi c mt =>
      simp only [hop] at hr
      exact S_serve accept head ims range (S_incRc _ (S_newObj h _ rfl rfl)) hr

theorem S_closeOp {s s' : State} {a : Ans} (rid : Nat) (h : S s) (hc : closeOp rid s = .ok (s', a)) : S s' := by
  unfold closeOp at hc
  cases ht : takeReader rid s.live with
  | none => simp only [ht] at hc; cases hc; exact h
  | some p =>
    obtain ⟨r, rest⟩ := p
    simp only [ht] at hc
    obtain ⟨s1, e, e2⟩ := map_ok hc
    cases e2
    obtain ⟨a1, a2⟩ := S_take h ht
    exact S_closeReader a1 a2 e

theorem S_step {s s' : State} {a : Ans} (accept : Bool) (op : Op) (h : S s) (hs : step accept s op = .ok (s', a)) : S s' := by
  cases op with
  | req key head ims range => exact S_handleRequest accept key head ims range h hs
  | close rid => exact S_closeOp rid h hs
  | setNode key n => simp [step] at hs; rw [← hs.1]; exact S_disk _ h
  | expire => simp [step] at hs; rw [← hs.1]; exact S_expire h
  | tick => simp [step] at hs; rw [← hs.1]; exact S_tick h

theorem S_run (accept : Bool) (ops : List Op) : ∀ {s s' : State}, S s → run accept s ops = .ok s' → S s' := by
  induction ops with
  | nil => intro s s' h e; simp [run] at e; rw [← e]; exact h
  | cons op ops ih =>
    intro s s' h e
    unfold run at e
    cases hs : step accept s op with
    | error f => simp [hs] at e
    | ok p =>
      obtain ⟨s1, a⟩ := p
      simp only [hs] at e
      exact ih (S_step accept op h hs) e

end Hertz.FsCache
