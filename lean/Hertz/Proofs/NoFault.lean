import Hertz.Model.NoFault
/-!
Lemmas for C03: the checked operations succeed under the side conditions the Go code establishes, and the checked
re-statements of `MultipartFormBoundary` and `IsBadTrailer` never reach a fault.
-/
namespace Hertz.NF
open Hertz Hertz.Gen.Str

/-! ### the checked operations -/

theorem ix_spec {b : Bytes} {i : Int} (h0 : 0 ≤ i) (h1 : i < len b) : ∃ c, ix b i = some c := by
  unfold ix
  have hn : ¬ i < 0 := by omega
  have h2 : i.toNat < b.length := by unfold len at h1; omega
  simp only [hn, if_false]
  exact ⟨b[i.toNat], List.getElem?_eq_getElem h2⟩

theorem ix_zero_cons (c : UInt8) (t : Bytes) : ix (c :: t) 0 = some c := by
  simp [ix]

theorem sl_spec {b : Bytes} {lo hi : Int} (h0 : 0 ≤ lo) (h1 : lo ≤ hi) (h2 : hi ≤ len b) :
    ∃ r, sl b lo hi = some r ∧ len r = hi - lo ∧ r = (b.take hi.toNat).drop lo.toNat := by
  unfold sl
  rw [if_pos ⟨h0, h1, h2⟩]
  refine ⟨_, rfl, ?_, rfl⟩
  unfold len at *
  simp only [List.length_drop, List.length_take]
  omega

theorem slFrom_spec {b : Bytes} {lo : Int} (h0 : 0 ≤ lo) (h1 : lo ≤ len b) :
    ∃ r, slFrom b lo = some r ∧ len r = len b - lo ∧ r = b.drop lo.toNat := by
  obtain ⟨r, h, hl, he⟩ := sl_spec (b := b) h0 h1 (Int.le_refl _)
  refine ⟨r, h, hl, ?_⟩
  rw [he]
  have : (len b).toNat = b.length := by simp [len]
  rw [this, List.take_length]

theorem slTo_spec {b : Bytes} {hi : Int} (h0 : 0 ≤ hi) (h1 : hi ≤ len b) :
    ∃ r, slTo b hi = some r ∧ len r = hi ∧ r = b.take hi.toNat := by
  obtain ⟨r, h, hl, he⟩ := sl_spec (b := b) (lo := 0) (Int.le_refl _) h0 h1
  refine ⟨r, h, by omega, ?_⟩
  rw [he]; simp

theorem indexOf_lt (c : UInt8) : ∀ (b : Bytes) (n : Nat), Uri.indexOf c b = some n → n < b.length
  | [], n, h => by simp [Uri.indexOf] at h
  | x :: t, n, h => by
    unfold Uri.indexOf at h
    split at h
    · cases h; simp
    · cases hr : Uri.indexOf c t with
      | none => simp [hr] at h
      | some m =>
        simp [hr] at h
        have := indexOf_lt c t m hr
        subst h; simp; omega

theorem indexByte_ge (c : UInt8) (b : Bytes) : -1 ≤ indexByte c b := by
  unfold indexByte; split <;> omega

theorem indexByte_lt (c : UInt8) (b : Bytes) : indexByte c b < len b := by
  unfold indexByte len
  split
  · rename_i n h; have := indexOf_lt c b n h; omega
  · omega

theorem isPrefixOf_len {p b : Bytes} (h : p.isPrefixOf b = true) : len p ≤ len b := by
  have := (List.isPrefixOf_iff_prefix.mp h).length_le
  unfold len; omega

/-! ### `MultipartFormBoundary` -/

theorem skipSp_spec (b : Bytes) : ∀ (f : Nat) (n : Int), 0 ≤ n → n ≤ len b → len b - n < f →
    ∃ m, skipSp b f n = some m ∧ n ≤ m ∧ m ≤ len b
  | 0, n, _, _, h3 => by omega
  | f + 1, n, h1, h2, h3 => by
    unfold skipSp
    split
    · rename_i hlt
      obtain ⟨c, hc⟩ := ix_spec (b := b) h1 (by omega)
      rw [hc, Option.bind_some]
      split
      · obtain ⟨m, hm, h4, h5⟩ := skipSp_spec b f (n + 1) (by omega) (by omega) (by omega)
        exact ⟨m, hm, by omega, h5⟩
      · exact ⟨n, rfl, by omega, h2⟩
    · exact ⟨n, rfl, by omega, h2⟩

theorem mfbValue_total (b : Bytes) (hp : strBoundary.isPrefixOf b = true) : (mfbValue b).isSome = true := by
  have hl := isPrefixOf_len hp
  unfold mfbValue
  obtain ⟨b1, h1, hl1, _⟩ := slFrom_spec (b := b) (lo := len strBoundary) (by unfold len; omega) hl
  rw [h1, Option.bind_some]
  split
  · rfl
  rename_i hne
  obtain ⟨c, hc⟩ := ix_spec (b := b1) (i := 0) (by omega) (by unfold len at *; omega)
  rw [hc, Option.bind_some]
  split
  · rfl
  obtain ⟨b2, h2, hl2, _⟩ := slFrom_spec (b := b1) (lo := 1) (by omega) (by unfold len at *; omega)
  rw [h2, Option.bind_some]
  have hge := indexByte_ge 59 b2
  have hlt := indexByte_lt 59 b2
  have h3 : ∃ b3, (if indexByte 59 b2 ≥ 0 then slTo b2 (indexByte 59 b2) else some b2) = some b3 := by
    split
    · rename_i h; obtain ⟨r, hr, _⟩ := slTo_spec (b := b2) h (by omega); exact ⟨r, hr⟩
    · exact ⟨b2, rfl⟩
  obtain ⟨b3, h3⟩ := h3
  simp only [h3, Option.bind_some]
  split
  · rename_i hgt
    obtain ⟨c0, hc0⟩ := ix_spec (b := b3) (i := 0) (by omega) (by omega)
    rw [hc0, Option.bind_some]
    split
    · obtain ⟨cl, hcl⟩ := ix_spec (b := b3) (i := len b3 - 1) (by omega) (by omega)
      rw [hcl, Option.bind_some]
      split
      · obtain ⟨r, hr, _⟩ := sl_spec (b := b3) (lo := 1) (hi := len b3 - 1) (by omega) (by omega) (by omega)
        rw [hr]; rfl
      · rfl
    · rfl
  · rfl

theorem mfbLoop_total : ∀ (f : Nat) (b : Bytes) (n : Int), b.length < f → (len b > 0 → 0 ≤ n ∧ n < len b) →
    (mfbLoop f b n).isSome = true
  | 0, _, _, h, _ => by omega
  | f + 1, b, n, hf, hn => by
    unfold mfbLoop
    split
    · rename_i hpos
      obtain ⟨hn0, hn1⟩ := hn hpos
      obtain ⟨m, hm, hm1, hm2⟩ := skipSp_spec b (b.length + 1) (n + 1) (by omega) (by omega) (by unfold len; omega)
      rw [hm, Option.bind_some]
      obtain ⟨b1, h1, hl1, _⟩ := slFrom_spec (b := b) (lo := m) (by omega) hm2
      rw [h1, Option.bind_some]
      split
      · simp only []
        split
        · rfl
        · rename_i hge
          have hlt := indexByte_lt 59 b1
          apply mfbLoop_total f b1 _ (by unfold len at *; omega)
          intro _; omega
      · rename_i hp
        exact mfbValue_total b1 (by simpa using hp)
    · rfl

/-- `MultipartFormBoundary` has no reachable index/slice panic and its loop terminates, for every Content-Type. -/
theorem multipartFormBoundary_total (ct : Bytes) : (multipartFormBoundary ct).isSome = true := by
  unfold multipartFormBoundary
  split
  · rfl
  rename_i hp
  have hl := isPrefixOf_len (p := mIMEFormData) (b := ct) (by simpa using hp)
  obtain ⟨b, h1, hl1, _⟩ := slFrom_spec (b := ct) (lo := len mIMEFormData) (by unfold len; omega) hl
  rw [h1, Option.bind_some]
  split
  · rfl
  obtain ⟨c, hc⟩ := ix_spec (b := b) (i := 0) (by omega) (by unfold len at *; omega)
  rw [hc, Option.bind_some]
  split
  · rfl
  · exact mfbLoop_total _ b 0 (by omega) (fun h => ⟨by omega, h⟩)

/-! ### `IsBadTrailer` -/

theorem take_ciEq_eq (k : Bytes) (n : Nat) : k.take n = k.take n := rfl

/-- the checked `IsBadTrailer` never faults and computes the list-based model of `Model/Http1/Scan`. -/
theorem isBadTrailer_eq (key : Bytes) : isBadTrailer key = some (H1.isBadTrailer key) := by
  cases key with
  | nil => rfl
  | cons k0 t =>
    unfold isBadTrailer H1.isBadTrailer
    have hne : ¬ len (k0 :: t) = 0 := by unfold len; simp; omega
    rw [if_neg hne, ix_zero_cons, Option.bind_some]
    simp only []
    by_cases h1 : (k0 ||| 0x20) = 97
    · simp only [if_pos h1]
    simp only [if_neg h1]
    by_cases h2 : (k0 ||| 0x20) = 99
    · simp only [if_pos h2]
      by_cases h12 : len (k0 :: t) ≥ 12
      · have h12' : (k0 :: t).length ≥ 12 := by unfold len at h12; omega
        obtain ⟨k8, hk8, _, ek8⟩ := slTo_spec (b := k0 :: t) (hi := 8) (by omega) (by omega)
        obtain ⟨r, hr, _, er⟩ := slFrom_spec (b := k0 :: t) (lo := 8) (by omega) (by omega)
        rw [if_pos h12, hk8, Option.bind_some]
        have c8 : slTo strContentType 8 = some (strContentType.take 8) := by decide
        have a1 : slFrom strContentEncoding 8 = some (strContentEncoding.drop 8) := by decide
        have a2 : slFrom strContentLength 8 = some (strContentLength.drop 8) := by decide
        have a3 : slFrom strContentType 8 = some (strContentType.drop 8) := by decide
        have a4 : slFrom strContentRange 8 = some (strContentRange.drop 8) := by decide
        rw [c8, Option.bind_some, hr]
        simp only [Option.bind_some, a1, a2, a3, a4, ek8, er]
        have e8 : Int.toNat 8 = 8 := rfl
        rw [e8]
        by_cases hc : H1.ciEq (List.take 8 (k0 :: t)) (List.take 8 strContentType) = true
        · rw [if_pos hc, if_pos ⟨h12', hc⟩]
        · rw [if_neg hc, if_neg (fun h => hc h.2)]
      · have h12' : ¬ (k0 :: t).length ≥ 12 := by unfold len at h12; omega
        rw [if_neg h12, if_neg (fun h => h12' h.1)]
    simp only [if_neg h2]
    by_cases h3 : (k0 ||| 0x20) = 101
    · simp only [if_pos h3]
    simp only [if_neg h3]
    by_cases h4 : (k0 ||| 0x20) = 104
    · simp only [if_pos h4]
    simp only [if_neg h4]
    by_cases h5 : (k0 ||| 0x20) = 107
    · simp only [if_pos h5]
    simp only [if_neg h5]
    by_cases h6 : (k0 ||| 0x20) = 109
    · simp only [if_pos h6]
    simp only [if_neg h6]
    by_cases h7 : (k0 ||| 0x20) = 112
    · simp only [if_pos h7]
      by_cases h16 : len (k0 :: t) ≥ 16
      · have h16' : (k0 :: t).length ≥ 16 := by unfold len at h16; omega
        obtain ⟨k6, hk6, _, ek6⟩ := slTo_spec (b := k0 :: t) (hi := 6) (by omega) (by omega)
        obtain ⟨r, hr, _, er⟩ := slFrom_spec (b := k0 :: t) (lo := 6) (by omega) (by omega)
        rw [if_pos h16, hk6, Option.bind_some]
        have c6 : slTo strProxyConnection 6 = some (strProxyConnection.take 6) := by decide
        have a1 : slFrom strProxyConnection 6 = some (strProxyConnection.drop 6) := by decide
        have a2 : slFrom strProxyAuthenticate 6 = some (strProxyAuthenticate.drop 6) := by decide
        have a3 : slFrom strProxyAuthorization 6 = some (strProxyAuthorization.drop 6) := by decide
        rw [c6, Option.bind_some, hr]
        simp only [Option.bind_some, a1, a2, a3, ek6, er]
        have e6 : Int.toNat 6 = 6 := rfl
        rw [e6]
        by_cases hc : H1.ciEq (List.take 6 (k0 :: t)) (List.take 6 strProxyConnection) = true
        · rw [if_pos hc, if_pos ⟨h16', hc⟩]
        · rw [if_neg hc, if_neg (fun h => hc h.2)]
      · have h16' : ¬ (k0 :: t).length ≥ 16 := by unfold len at h16; omega
        rw [if_neg h16, if_neg (fun h => h16' h.1)]
    simp only [if_neg h7]
    by_cases h8 : (k0 ||| 0x20) = 114
    · simp only [if_pos h8]
    simp only [if_neg h8]
    by_cases h9 : (k0 ||| 0x20) = 116
    · simp only [if_pos h9]
    simp only [if_neg h9]
    by_cases h10 : (k0 ||| 0x20) = 119
    · simp only [if_pos h10]
    simp only [if_neg h10]

end Hertz.NF
