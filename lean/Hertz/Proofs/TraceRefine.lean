import Hertz.Model.Http1.Trace
import Hertz.Proofs.Tracer
/-!
C19 — `classify_refines_serve`: the history `H1.classify` (Model/Http1/Trace.lean) reads off a byte stream
and the event list of the keep-alive loop model `H1.serve` (Model/Http1/Serve.lean) tell the same story.

Neither alphabet embeds in the other (an `Ev.req` carries the whole parsed request and a `resp` its
status, which no `Tracer.Outcome` has; an `Outcome` tells a silent idle close from a silent
nothing-read close, which the — empty — event list does not).  So both are projected onto the part they
share, `Out`: *which request targets reached the handler, whether each was answered and whether the
connection goes on, and whether the connection ends with an error response.*

* `evOut : Ev → List Out`  (`projEv` on lists) forgets the parsed request except for its target, the
  status except for "is it 200", and the interim `100 Continue`;
* `iterOut : Bool → TIter → List Out` (`projIters` on histories) reads an iteration of the tracer model:
  an iteration cut short by the idle wait and a silently closed one (`ErrNothingRead`, `io.EOF`) show
  nothing, a read failure answered by `writeErrorResponse` shows `resp false true`, a handled request
  shows its target and the response.

Outside the common ground (`Common t = false`): the paths of `Server.Serve` that the echo handler of
`H1.serve` never takes — unwinding handler panic, hijack, failing `Flush`/write of the response or of the
interim `100 Continue` (`.handled .panic/.hijacked/.flushErr/.writeErr/.releaseErr/.hijackTimeoutErr`,
`.contWriteErr`), a handler that asks for `Connection: close` itself (`/close…` target), the
return-to-poller idle style (`poll`), and on the other side `Ev.unmodelled` (multipart pre-parse).
-/
namespace Hertz.H1
open Hertz Hertz.Tracer

/-! ### the common alphabet and the two projections -/

inductive Out where
  /-- the request with this (shown) target reached the handler -/
  | req (uri : Bytes)
  /-- a response was written: `ok` ⇔ it is the handler's (status 200 in `H1.serve`), otherwise it is the
  error response of `writeErrorResponse`; `close` ⇔ the connection is closed after it -/
  | resp (ok : Bool) (close : Bool)
deriving DecidableEq, Repr

/-- projection of one event of `H1.serve` -/
def evOut : Ev → List Out
  | .unmodelled => []
  | .continue100 => []
  | .req sn => [.req (shownURI sn.head)]
  | .resp st close => [.resp (st == 200) close]

def projEv : List Ev → List Out
  | [] => []
  | ev :: t => evOut ev ++ projEv t

/-- projection of one iteration of the tracer model's history; `first` ⇔ `connRequestNum == 1`
(the idle-wait answer is asked for only from the second iteration on, as in `Tracer.iter`) -/
def iterOut (first : Bool) (t : TIter) : List Out :=
  if !first && t.it.peekFails then [] else
  match t.it.outcome with
  | .headerErr .other => [.resp false true]
  | .headerErr _ => []
  | .bodyErr .other => [.resp false true]
  | .bodyErr _ => []
  | .contBodyErr => [.resp false true]
  | .contWriteErr => []
  | .handled .next => [.req (t.uri.getD []), .resp true false]
  | .handled .close => [.req (t.uri.getD []), .resp true true]
  | .handled _ => [.req (t.uri.getD [])]

def projIters : Bool → List TIter → List Out
  | _, [] => []
  | first, t :: rest => iterOut first t ++ projIters false rest

/-- the iteration takes a path that `H1.serve` has too -/
def Common (t : TIter) : Bool :=
  match t.it.outcome with
  | .contWriteErr => false
  | .handled .next => true
  | .handled .close => directive (t.uri.getD []) != .close
  | .handled _ => false
  | _ => true

theorem projEv_append (a b : List Ev) : projEv (a ++ b) = projEv a ++ projEv b := by
  induction a with
  | nil => rfl
  | cons x t ih => simp [projEv, ih]

/-! ### readers -/

theorem setContentLength_uri (hd : ReqHead) (n : Nat) : (setContentLength hd n).uri = hd.uri := rfl

/-- `ContinueReadBody` leaves the request target alone -/
theorem continueReadBody_uri {cfg : Cfg} {e : End} {hd hd' : ReqHead} {s body rest : Bytes}
    {tr : List (Bytes × Bytes)} (h : continueReadBody cfg e hd s = .ok hd' body tr rest) :
    hd'.uri = hd.uri := by
  simp only [continueReadBody] at h
  repeat' split at h
  all_goals (cases h <;> rfl)

theorem flushOK_none : flushOK none = (true, none) := rfl

/-! ### the refinement -/

theorem projEv_pre (b : Bool) (l : List Ev) : projEv ((if b = true then [Ev.continue100] else []) ++ l) = projEv l := by
  cases b <;> simp [projEv, evOut]

/-- the part of an iteration after the handler ran, for the three directives that let it run to the end
(`ok`, recovered `panic`, `wfailnext`) -/
theorem handled_tail (c : TraceCfg) (hp : c.poll = false) (e : End) (fuel : Nat) (first : Bool)
    (fl : Bool × Option Nat) (cl : Bool) (u : Bytes) (sn : Seen) (rest : Bytes)
    (hu1 : shownURI sn.head = u)
    (ih : ∀ (first : Bool) (wb : Option Nat) (s : Bytes),
      (∀ t ∈ classifyLoop c e fuel first wb s, Common t = true) →
      Ev.unmodelled ∉ serveLoop c.h1 e fuel first s →
      projIters first (classifyLoop c e fuel first wb s) = projEv (serveLoop c.h1 e fuel first s))
    (hc : ∀ t ∈ (if (!fl.fst) = true then
          [(⟨{ outcome := Outcome.handled Tail.flushErr }, some u, true⟩ : TIter)]
        else
          if cl = true then
            [⟨{ outcome := Outcome.handled Tail.close }, some u, true⟩]
          else
            ⟨{ outcome := Outcome.handled Tail.next }, some u, true⟩ ::
              if c.poll = true then
                if List.isEmpty rest = true then [] else classifyLoop c e fuel true fl.snd rest
              else classifyLoop c e fuel false fl.snd rest), Common t = true)
    (hu : Ev.unmodelled ∉ (if cl = true then [] else serveLoop c.h1 e fuel false rest)) :
    projIters first (if (!fl.fst) = true then
          [(⟨{ outcome := Outcome.handled Tail.flushErr }, some u, true⟩ : TIter)]
        else
          if cl = true then
            [⟨{ outcome := Outcome.handled Tail.close }, some u, true⟩]
          else
            ⟨{ outcome := Outcome.handled Tail.next }, some u, true⟩ ::
              if c.poll = true then
                if List.isEmpty rest = true then [] else classifyLoop c e fuel true fl.snd rest
              else classifyLoop c e fuel false fl.snd rest) =
      projEv ([Ev.req sn, Ev.resp 200 cl] ++ if cl = true then [] else serveLoop c.h1 e fuel false rest) := by
  obtain ⟨wok, wb2⟩ := fl
  cases wok with
  | false =>
    exfalso
    have := hc ⟨{ outcome := .handled .flushErr }, some u, true⟩ (by simp)
    simp [Common] at this
  | true =>
    cases cl with
    | true => simp [projIters, iterOut, projEv, evOut, hu1]
    | false =>
      simp only [Bool.not_true, Bool.false_eq_true, if_false, hp] at hc hu ⊢
      have := ih false wb2 rest (fun t ht => hc t (List.mem_cons_of_mem _ ht)) hu
      simp [projIters, iterOut, projEv, evOut, hu1, this]

theorem classifyLoop_refines (c : TraceCfg) (hp : c.poll = false) (e : End) :
    ∀ (fuel : Nat) (first : Bool) (wb : Option Nat) (s : Bytes),
      (∀ t ∈ classifyLoop c e fuel first wb s, Common t = true) →
      Ev.unmodelled ∉ serveLoop c.h1 e fuel first s →
      projIters first (classifyLoop c e fuel first wb s) = projEv (serveLoop c.h1 e fuel first s)
  | 0, _, _, _, _, _ => by simp [classifyLoop, serveLoop, projIters, projEv]
  | fuel + 1, first, wb, s, hc, hu => by
    have ih := classifyLoop_refines c hp e fuel
    simp only [classifyLoop, serveLoop] at hc hu ⊢
    by_cases hidle : (!first && decide (s.length < 4)) = true
    · simp only [hidle, if_true]
      have hf : first = false := by cases first <;> simp at hidle ⊢
      subst hf
      simp [projIters, iterOut, projEv]
    · simp only [hidle, Bool.false_eq_true, if_false] at hc hu ⊢
      cases hph : parseReqHead c.h1.disableNorm s with
      | error x =>
        cases x with
        | bad => simp [projIters, iterOut, projEv, evOut]
        | needMore =>
          cases e <;> cases hs : s.isEmpty <;> simp [projIters, iterOut, projEv, evOut]
      | ok p =>
        obtain ⟨hd, n⟩ := p
        simp only [hph] at hc hu ⊢
        rcases hfl : (if mayContinue hd = true then flushOK wb else (true, wb)) with ⟨w100, wb1⟩
        simp only [hfl] at hc ⊢
        cases w100 with
        | false =>
          exfalso
          have := hc ⟨{ outcome := .contWriteErr }, some (shownURI hd), false⟩ (by simp)
          simp [Common] at this
        | true =>
          simp only [Bool.not_true, Bool.false_eq_true, if_false] at hc ⊢
          cases hb : continueReadBody c.h1 e hd (s.drop n) with
          | err x =>
            simp only [hb] at hu ⊢
            cases hcont : mayContinue hd <;> cases x <;>
              simp [hcont, projIters, iterOut, projEv, evOut, errStatus] at hu ⊢
          | ok hd' body tr rest =>
            simp only [hb] at hc hu ⊢
            rw [List.append_assoc, projEv_pre]
            have huri : shownURI hd' = shownURI hd := by
              simp [shownURI, continueReadBody_uri hb]
            have hu' : Ev.unmodelled ∉ (if (c.h1.disableKeepalive || hd'.connClose) = true then []
                else serveLoop c.h1 e fuel false rest) := by
              intro hm; exact hu (List.mem_append_right _ hm)
            cases hdir : directive (shownURI hd') with
            | ok =>
              simp only [hdir, reduceCtorEq, decide_false, Bool.false_and, Bool.false_or, Bool.false_eq_true, if_false] at hc ⊢
              exact handled_tail c hp e fuel first _ _ _ _ rest huri ih hc hu'
            | panic =>
              cases hrec : c.recovery with
              | false =>
                exfalso
                simp only [hdir, hrec, decide_true, Bool.not_false, Bool.and_self, if_true] at hc
                have := hc ⟨{ outcome := .handled .panic }, some (shownURI hd), true⟩ (by simp)
                simp [Common] at this
              | true =>
                simp only [hdir, hrec, reduceCtorEq, decide_false, decide_true, Bool.not_true, Bool.and_false, Bool.false_or, Bool.false_eq_true, if_false] at hc ⊢
                exact handled_tail c hp e fuel first _ _ _ _ rest huri ih hc hu'
            | wfailnext =>
              simp only [hdir, reduceCtorEq, decide_false, Bool.false_and, Bool.false_or, Bool.false_eq_true, if_false] at hc ⊢
              exact handled_tail c hp e fuel first _ _ _ _ rest huri ih hc hu'
            | wfail =>
              exfalso
              simp only [hdir, reduceCtorEq, decide_false, Bool.false_and, Bool.false_or, Bool.false_eq_true, if_false, flushOK, Bool.not_false, if_true] at hc
              have := hc ⟨{ outcome := .handled .flushErr }, some (shownURI hd), true⟩ (by simp)
              simp [Common] at this
            | hijack =>
              exfalso
              simp only [hdir, reduceCtorEq, decide_false, Bool.false_and, Bool.false_or, Bool.false_eq_true, if_false, if_true] at hc
              cases hw : (flushOK wb1).fst with
              | false =>
                have := hc ⟨{ outcome := .handled .flushErr }, some (shownURI hd), true⟩ (by simp [hw])
                simp [Common] at this
              | true =>
                have := hc ⟨{ outcome := .handled .hijacked }, some (shownURI hd), true⟩ (by simp [hw])
                simp [Common] at this
            | close =>
              exfalso
              simp only [hdir, reduceCtorEq, decide_false, decide_true, Bool.false_and, Bool.true_or, Bool.false_eq_true, if_false, if_true] at hc
              cases hw : (flushOK wb1).fst with
              | false =>
                have := hc ⟨{ outcome := .handled .flushErr }, some (shownURI hd), true⟩ (by simp [hw])
                simp [Common] at this
              | true =>
                have := hc ⟨{ outcome := .handled .close }, some (shownURI hd), true⟩ (by simp [hw])
                simp [Common, ← huri, hdir] at this

/-- **`classify_refines_serve`.**  In-loop idle handling, every iteration on common ground, no hand-over
to `mime/multipart`: the history read off the stream and the event list of the loop model project onto
the same sequence of handled targets, responses and close decisions. -/
theorem classify_refines_serve (c : TraceCfg) (hp : c.poll = false) (e : End) (s : Bytes)
    (hc : ∀ t ∈ classify c e s, Common t = true) (hu : Ev.unmodelled ∉ serve c.h1 e s) :
    projIters true (classify c e s) = projEv (serve c.h1 e s) :=
  classifyLoop_refines c hp e (s.length + 1) true none s hc hu

/-! ### the refinement up to the first iteration outside the common ground -/

theorem handled_tail_prefix (c : TraceCfg) (hp : c.poll = false) (e : End) (fuel : Nat) (first : Bool)
    (fl : Bool × Option Nat) (cl : Bool) (u : Bytes) (sn : Seen) (rest : Bytes)
    (hu1 : shownURI sn.head = u) (hncl : directive u ≠ .close)
    (ih : ∀ (first : Bool) (wb : Option Nat) (s : Bytes),
      Ev.unmodelled ∉ serveLoop c.h1 e fuel first s →
      ∃ tail, projEv (serveLoop c.h1 e fuel first s) =
        projIters first ((classifyLoop c e fuel first wb s).takeWhile (Common ·)) ++ tail)
    (hu : Ev.unmodelled ∉ (if cl = true then [] else serveLoop c.h1 e fuel false rest)) :
    ∃ tail, projEv ([Ev.req sn, Ev.resp 200 cl] ++ if cl = true then [] else serveLoop c.h1 e fuel false rest) =
      projIters first (List.takeWhile (Common ·) (if (!fl.fst) = true then
          [(⟨{ outcome := Outcome.handled Tail.flushErr }, some u, true⟩ : TIter)]
        else
          if cl = true then
            [⟨{ outcome := Outcome.handled Tail.close }, some u, true⟩]
          else
            ⟨{ outcome := Outcome.handled Tail.next }, some u, true⟩ ::
              if c.poll = true then
                if List.isEmpty rest = true then [] else classifyLoop c e fuel true fl.snd rest
              else classifyLoop c e fuel false fl.snd rest)) ++ tail := by
  obtain ⟨wok, wb2⟩ := fl
  cases wok with
  | false => simp [Common, projIters]
  | true =>
    cases cl with
    | true => simp [List.takeWhile, Common, projIters, iterOut, projEv, evOut, hu1, hncl]
    | false =>
      simp only [Bool.not_true, Bool.false_eq_true, if_false, hp] at hu ⊢
      obtain ⟨tail, ht⟩ := ih false wb2 rest hu
      refine ⟨tail, ?_⟩
      simp [List.takeWhile, Common, projIters, iterOut, projEv, evOut, hu1, ht]

theorem classifyLoop_refines_prefix (c : TraceCfg) (hp : c.poll = false) (e : End) :
    ∀ (fuel : Nat) (first : Bool) (wb : Option Nat) (s : Bytes),
      Ev.unmodelled ∉ serveLoop c.h1 e fuel first s →
      ∃ tail, projEv (serveLoop c.h1 e fuel first s) =
        projIters first ((classifyLoop c e fuel first wb s).takeWhile (Common ·)) ++ tail
  | 0, _, _, _, _ => by simp [classifyLoop, serveLoop, projIters, projEv]
  | fuel + 1, first, wb, s, hu => by
    have ih := classifyLoop_refines_prefix c hp e fuel
    simp only [classifyLoop, serveLoop] at hu ⊢
    by_cases hidle : (!first && decide (s.length < 4)) = true
    · simp only [hidle, if_true]
      have hf : first = false := by cases first <;> simp at hidle ⊢
      subst hf
      simp [projIters, iterOut, projEv, Common]
    · simp only [hidle, Bool.false_eq_true, if_false] at hu ⊢
      cases hph : parseReqHead c.h1.disableNorm s with
      | error x =>
        cases x with
        | bad => simp [projIters, iterOut, projEv, evOut, Common]
        | needMore =>
          cases e <;> cases hs : s.isEmpty <;> simp [projIters, iterOut, projEv, evOut, Common]
      | ok p =>
        obtain ⟨hd, n⟩ := p
        simp only [hph] at hu ⊢
        rcases hfl : (if mayContinue hd = true then flushOK wb else (true, wb)) with ⟨w100, wb1⟩
        simp only []
        cases w100 with
        | false => simp [Common, projIters]
        | true =>
          simp only [Bool.not_true, Bool.false_eq_true, if_false]
          cases hb : continueReadBody c.h1 e hd (s.drop n) with
          | err x =>
            simp only [hb] at hu ⊢
            cases hcont : mayContinue hd <;> cases x <;>
              simp [hcont, projIters, iterOut, projEv, evOut, errStatus, Common] at hu ⊢
          | ok hd' body tr rest =>
            simp only [hb] at hu ⊢
            rw [List.append_assoc, projEv_pre]
            have huri : shownURI hd' = shownURI hd := by
              simp [shownURI, continueReadBody_uri hb]
            have hu' : Ev.unmodelled ∉ (if (c.h1.disableKeepalive || hd'.connClose) = true then []
                else serveLoop c.h1 e fuel false rest) := by
              intro hm; exact hu (List.mem_append_right _ hm)
            cases hdir : directive (shownURI hd') with
            | ok =>
              simp only [reduceCtorEq, decide_false, Bool.false_and, Bool.false_or, Bool.false_eq_true, if_false]
              exact handled_tail_prefix c hp e fuel first _ _ _ _ rest huri (by rw [← huri, hdir]; simp) ih hu'
            | panic =>
              cases hrec : c.recovery with
              | false => simp [Common, projIters]
              | true =>
                simp only [reduceCtorEq, decide_false, decide_true, Bool.not_true, Bool.and_false, Bool.false_or, Bool.false_eq_true, if_false]
                exact handled_tail_prefix c hp e fuel first _ _ _ _ rest huri (by rw [← huri, hdir]; simp) ih hu'
            | wfailnext =>
              simp only [reduceCtorEq, decide_false, Bool.false_and, Bool.false_or, Bool.false_eq_true, if_false]
              exact handled_tail_prefix c hp e fuel first _ _ _ _ rest huri (by rw [← huri, hdir]; simp) ih hu'
            | wfail => simp [flushOK, Common, projIters]
            | hijack =>
              cases (flushOK wb1).fst <;> simp [Common, projIters]
            | close =>
              cases (flushOK wb1).fst <;> simp [Common, projIters, ← huri, hdir]

/-- **`classify_refines_serve_upto`.**  Whatever the stream: as long as the iterations stay on the common
ground, the event list of the loop model tells the same story (and goes on with what the echo handler
does where the C19 handler leaves the common ground). -/
theorem classify_refines_serve_upto (c : TraceCfg) (hp : c.poll = false) (e : End) (s : Bytes)
    (hu : Ev.unmodelled ∉ serve c.h1 e s) :
    projIters true ((classify c e s).takeWhile (Common ·)) <+: projEv (serve c.h1 e s) := by
  obtain ⟨tail, h⟩ := classifyLoop_refines_prefix c hp e (s.length + 1) true none s hu
  exact ⟨tail, h.symm⟩

end Hertz.H1

/-! ### from the history to the call log: how many pairs, how many handler runs -/

namespace Hertz.Tracer

def nHandles : List Call → Nat
  | [] => 0
  | .handle _ _ :: t => nHandles t + 1
  | _ :: t => nHandles t

theorem nHandles_append (a b : List Call) : nHandles (a ++ b) = nHandles a + nHandles b := by
  induction a with
  | nil => simp [nHandles]
  | cons x t ih => cases x <;> simp [nHandles, ih] <;> omega

theorem countHandle_append (a b : List Act) : countHandle (a ++ b) = countHandle a + countHandle b := by
  induction a with
  | nil => simp [countHandle]
  | cons x t ih => cases x <;> simp [countHandle, ih] <;> omega

/-- the recording observer logs one `handle` call per `ServeHTTP` -/
theorem nHandles_run (o : Obs) (acts : List Act) : nHandles (Obs.run o acts).2 = countHandle acts := by
  induction acts generalizing o with
  | nil => simp [Obs.run, nHandles, countHandle]
  | cons a t ih => cases a <;> simp [Obs.run, Obs.step, nHandles, countHandle, ih]

def isHandled : Outcome → Bool
  | .handled _ => true
  | _ => false

/-- handler runs of one pass -/
theorem handle_count_check : checkAll (fun cfg first it =>
    countHandle (iterStep cfg first it).1 == (if idles first it || !isHandled it.outcome then 0 else 1)) = true := by
  decide +kernel

theorem handle_count (cfg : Cfg) (first : Bool) (it : Iter) :
    countHandle (iterStep cfg first it).1 = (if idles first it || !isHandled it.outcome then 0 else 1) := by
  simpa using checkAll_spec handle_count_check cfg first it

/-- a pass goes round exactly when it is a keep-alive pass with in-loop idle handling -/
theorem goes_round_check : checkAll (fun cfg first it =>
    (iterStep cfg first it).2.isSome == (!idles first it && it.outcome == .handled .next && !cfg.idleZero)) = true := by
  decide +kernel

theorem goes_round (cfg : Cfg) (first : Bool) (it : Iter) :
    (iterStep cfg first it).2.isSome = (!idles first it && it.outcome == .handled .next && !cfg.idleZero) := by
  simpa using checkAll_spec goes_round_check cfg first it

def countStart : List Act → Nat
  | [] => 0
  | .start :: t => countStart t + 1
  | _ :: t => countStart t

theorem countStart_append (a b : List Act) : countStart (a ++ b) = countStart a + countStart b := by
  induction a with
  | nil => simp [countStart]
  | cons x t ih => cases x <;> simp [countStart, ih] <;> omega

theorem nStarts_append (a b : List Call) : nStarts (a ++ b) = nStarts a + nStarts b := by
  induction a with
  | nil => simp [nStarts]
  | cons x t ih => cases x <;> simp [nStarts, ih] <;> omega

theorem nStarts_run (o : Obs) (acts : List Act) : nStarts (Obs.run o acts).2 = countStart acts := by
  induction acts generalizing o with
  | nil => simp [Obs.run, nStarts, countStart]
  | cons a t ih => cases a <;> simp [Obs.run, Obs.step, nStarts, countStart, ih]

theorem start_count_check : checkAll (fun cfg first it =>
    countStart (iterStep cfg first it).1 == (if cfg.enableTrace && !idles first it then 1 else 0)) = true := by
  decide +kernel

theorem start_count (cfg : Cfg) (first : Bool) (it : Iter) :
    countStart (iterStep cfg first it).1 = (if cfg.enableTrace && !idles first it then 1 else 0) := by
  simpa using checkAll_spec start_count_check cfg first it

/-- does the pass go round the loop -/
def goesRound (cfg : Cfg) (first : Bool) (it : Iter) : Bool :=
  !idles first it && it.outcome == .handled .next && !cfg.idleZero

/-- number of passes of one `Serve` call that get past the idle wait / that reach the handler -/
def passCount (cfg : Cfg) (p : Bool → Iter → Bool) : Bool → List Iter → Nat
  | _, [] => 0
  | first, it :: rest =>
    (if p first it then 1 else 0) + (if goesRound cfg first it then passCount cfg p false rest else 0)

theorem serveLoop_count (cfg : Cfg) (cnt : List Act → Nat) (p : Bool → Iter → Bool)
    (happ : ∀ a b, cnt (a ++ b) = cnt a + cnt b)
    (hstep : ∀ first it, cnt (iterStep cfg first it).1 = if p first it then 1 else 0) :
    ∀ (hist : List Iter) (first : Bool), cnt (serveLoop cfg first hist {}) = passCount cfg p first hist
  | [], _ => by have := happ [] []; simp at this; simp [serveLoop, passCount, this]
  | it :: rest, first => by
    rw [serveLoop_cons, happ, hstep, passCount]
    have hg := goes_round cfg first it
    cases hl : (iterStep cfg first it).2 with
    | none =>
      have : goesRound cfg first it = false := by simpa [hl, goesRound] using hg.symm
      have h0 := happ [] []; simp at h0
      simp [this, h0]
    | some l =>
      have : goesRound cfg first it = true := by simpa [hl, goesRound] using hg.symm
      rw [loop_head cfg first it l hl]
      simp [this, serveLoop_count cfg cnt p happ hstep rest false]

/-- all passes but the last are keep-alive passes -/
def loopShaped : List Iter → Bool
  | [] => true
  | [_] => true
  | it :: it2 :: rest => (it == ⟨false, .handled .next⟩) && loopShaped (it2 :: rest)

theorem loopShaped_cons (l : List Iter) (h : loopShaped l = true) :
    loopShaped (⟨false, .handled .next⟩ :: l) = true := by
  cases l with
  | nil => rfl
  | cons a t => simp [loopShaped, h]

def fullCount (p : Bool → Iter → Bool) : Bool → List Iter → Nat
  | _, [] => 0
  | first, it :: rest => (if p first it then 1 else 0) + fullCount p false rest

theorem passCount_loopShaped (cfg : Cfg) (hz : cfg.idleZero = false) (p : Bool → Iter → Bool) :
    ∀ (hist : List Iter) (first : Bool), loopShaped hist = true → passCount cfg p first hist = fullCount p first hist
  | [], _, _ => rfl
  | [it], first, _ => by simp [passCount, fullCount]
  | it :: it2 :: rest, first, h => by
    simp only [loopShaped, Bool.and_eq_true, beq_iff_eq] at h
    have hg : goesRound cfg first it = true := by rw [h.1]; simp [goesRound, idles, hz]
    rw [passCount, fullCount, hg, if_pos rfl, passCount_loopShaped cfg hz p (it2 :: rest) false h.2]

end Hertz.Tracer
namespace Hertz.H1
open Hertz Hertz.Tracer

theorem classifyLoop_loopShaped (c : TraceCfg) (hp : c.poll = false) (e : End) :
    ∀ (fuel : Nat) (first : Bool) (wb : Option Nat) (s : Bytes),
      loopShaped ((classifyLoop c e fuel first wb s).map (·.it)) = true
  | 0, _, _, _ => by simp [classifyLoop, loopShaped]
  | fuel + 1, first, wb, s => by
    have ih := classifyLoop_loopShaped c hp e fuel
    simp only [classifyLoop, hp, Bool.false_eq_true, if_false]
    repeat' split
    all_goals first
      | rfl
      | (simp only [List.map_cons]; exact loopShaped_cons _ (ih _ _ _))

def nReqOut : List Out → Nat
  | [] => 0
  | .req _ :: t => nReqOut t + 1
  | _ :: t => nReqOut t

def nReqs : List Ev → Nat
  | [] => 0
  | .req _ :: t => nReqs t + 1
  | _ :: t => nReqs t

theorem nReqOut_append (a b : List Out) : nReqOut (a ++ b) = nReqOut a + nReqOut b := by
  induction a with
  | nil => simp [nReqOut]
  | cons x t ih => cases x <;> simp [nReqOut, ih] <;> omega

theorem nReqOut_projEv (l : List Ev) : nReqOut (projEv l) = nReqs l := by
  induction l with
  | nil => rfl
  | cons x t ih => cases x <;> simp [projEv, evOut, nReqOut, nReqs, ih]

/-- the pass reaches the handler -/
def reachesHandler (first : Bool) (it : Iter) : Bool := !(idles first it || !isHandled it.outcome)

theorem nReqOut_iterOut (first : Bool) (t : TIter) :
    nReqOut (iterOut first t) = if reachesHandler first t.it then 1 else 0 := by
  obtain ⟨⟨pf, oc⟩, u, h⟩ := t
  have hm := outcome_mem oc
  simp only [allOutcomes, List.mem_cons, List.mem_nil_iff, or_false] at hm
  cases first <;> cases pf <;>
    rcases hm with h | h | h | h | h | h | h | h | h | h | h | h | h | h | h | h <;> subst h <;>
    simp [iterOut, reachesHandler, idles, isHandled, nReqOut]

theorem nReqOut_projIters : ∀ (its : List TIter) (first : Bool),
    nReqOut (projIters first its) = fullCount reachesHandler first (its.map (·.it))
  | [], _ => rfl
  | t :: rest, first => by
    simp [projIters, nReqOut_append, nReqOut_iterOut, fullCount, nReqOut_projIters rest false]

/-- the pass gets past the idle wait -/
def passesIdle (first : Bool) (it : Iter) : Bool := !idles first it

theorem fullCount_bounds : ∀ (hist : List Iter) (first : Bool), loopShaped hist = true →
    fullCount reachesHandler first hist ≤ fullCount passesIdle first hist ∧
    fullCount passesIdle first hist ≤ fullCount reachesHandler first hist + 1
  | [], _, _ => by simp [fullCount]
  | [it], first, _ => by
    simp only [fullCount, reachesHandler, passesIdle]
    rcases Bool.eq_false_or_eq_true (idles first it) with h1 | h1 <;>
          rcases Bool.eq_false_or_eq_true (isHandled it.outcome) with h2 | h2 <;> simp [h1, h2]
  | it :: it2 :: rest, first, h => by
    simp only [loopShaped, Bool.and_eq_true, beq_iff_eq] at h
    have := fullCount_bounds (it2 :: rest) false h.2
    rw [fullCount, fullCount.eq_2 passesIdle, h.1]
    simp only [reachesHandler, passesIdle, idles, isHandled]
    simp only [Bool.and_false, Bool.not_true, Bool.or_self, Bool.not_false, if_true]
    omega

theorem fullCount_false : ∀ (l : List Iter) (b : Bool), fullCount (fun _ _ => false) b l = 0
  | [], _ => rfl
  | _ :: t, _ => by simp [fullCount, fullCount_false t false]

theorem traceActs_counts (c : TraceCfg) (hp : c.poll = false) (en : Bool) (e : End) (s : Bytes) (lv : Level) :
    nHandles (observe lv (traceActs c en e s)) = fullCount reachesHandler true ((classify c e s).map (·.it)) ∧
    nStarts (observe lv (traceActs c en e s)) =
      if en then fullCount passesIdle true ((classify c e s).map (·.it)) else 0 := by
  have hsh : loopShaped ((classify c e s).map (·.it)) = true :=
    classifyLoop_loopShaped c hp e (s.length + 1) true none s
  have hacts : traceActs c en e s =
      .enter :: Tracer.serveLoop ⟨en, false⟩ true ((classify c e s).map (·.it)) {} := by
    simp [traceActs, histories, hp, connection, Tracer.serve]
  rw [hacts]
  simp only [observe, nHandles_run, nStarts_run, countHandle, countStart]
  constructor
  · rw [serveLoop_count ⟨en, false⟩ countHandle reachesHandler countHandle_append
      (fun first it => by
        rw [handle_count]; simp only [reachesHandler]
        rcases Bool.eq_false_or_eq_true (idles first it) with h1 | h1 <;>
          rcases Bool.eq_false_or_eq_true (isHandled it.outcome) with h2 | h2 <;> simp [h1, h2])]
    exact passCount_loopShaped ⟨en, false⟩ rfl _ _ _ hsh
  · cases en with
    | true =>
      rw [serveLoop_count ⟨true, false⟩ countStart passesIdle countStart_append
        (fun first it => by rw [start_count]; simp [passesIdle])]
      simpa using passCount_loopShaped ⟨true, false⟩ rfl _ _ _ hsh
    | false =>
      rw [serveLoop_count ⟨false, false⟩ countStart (fun _ _ => false) countStart_append
        (fun first it => by rw [start_count]; simp)]
      simp only [Bool.false_eq_true, if_false]
      rw [passCount_loopShaped ⟨false, false⟩ rfl _ _ _ hsh, fullCount_false]

/-! ### `Ev.unmodelled` only with multipart pre-parse -/

theorem endErr_ne (e : End) : endErr e ≠ .unmodelled := by cases e <;> simp [endErr]

theorem readHexIntAux_ne (e : End) : ∀ (s : Bytes) (n i : Nat), readHexIntAux e n i s ≠ .error .unmodelled
  | [], n, i => by
    simp only [readHexIntAux]; split <;> simp [endErr_ne]
  | c :: t, n, i => by
    simp only [readHexIntAux]
    split
    · split <;> simp
    · split
      · simp
      · exact readHexIntAux_ne e t _ _

theorem chunkSizeTail_ne (e : End) : ∀ s : Bytes, chunkSizeTail e s ≠ .error .unmodelled
  | [] => by simp [chunkSizeTail]
  | c :: t => by
    simp only [chunkSizeTail]
    split
    · exact chunkSizeTail_ne e t
    · split
      · split
        · simp
        · split <;> simp
      · simp

theorem parseChunkSize_ne (e : End) (s : Bytes) : parseChunkSize e s ≠ .error .unmodelled := by
  have h1 := readHexIntAux_ne e s 0 0
  simp only [parseChunkSize, readHexInt]
  split
  · simp
  · rename_i x hx; intro h; injection h with h; subst h; exact h1 hx
  · rename_i n rest hx
    have h2 := chunkSizeTail_ne e rest
    split
    · rename_i x hx2; intro h; injection h with h; subst h; exact h2 hx2
    · simp

theorem takeN_ne (e : End) (n : Nat) (s : Bytes) : takeN e n s ≠ .error .unmodelled := by
  simp only [takeN]; split <;> simp [endErr_ne]

theorem takeBody_ne (e : End) (n : Nat) (s : Bytes) : takeBody e n s ≠ .error .unmodelled := by
  have := takeN_ne e n s
  simp only [takeBody]; split
  · simp
  · assumption

theorem readBodyChunked_ne (e : End) (maxBody : Nat) : ∀ (fuel : Nat) (dst s : Bytes),
    readBodyChunked e maxBody fuel dst s ≠ .error .unmodelled
  | 0, _, _ => by simp [readBodyChunked]
  | fuel + 1, dst, s => by
    have h1 := parseChunkSize_ne e s
    simp only [readBodyChunked, bind, Except.bind]
    split
    · rename_i x hx; intro h; injection h with h; subst h; exact h1 hx
    · rename_i p hx
      obtain ⟨size, rest⟩ := p
      simp only
      split
      · simp
      · split
        · simp
        · have h2 := takeBody_ne e (size + 2) rest
          split
          · rename_i x hx2; intro h; injection h with h; subst h; exact h2 hx2
          · split
            · simp
            · exact readBodyChunked_ne e maxBody fuel _ _

theorem readTrailerReq_ne (cfg : Cfg) (e : End) (names : List Bytes) (s : Bytes) :
    readTrailerReq cfg e names s ≠ .error .unmodelled := by
  simp only [readTrailerReq]
  repeat' split
  all_goals simp

/-- without multipart pre-parse the body reader never hands over to `mime/multipart` -/
theorem continueReadBody_ne (cfg : Cfg) (hpp : cfg.preParse = false) (e : End) (hd : ReqHead) (s : Bytes) :
    continueReadBody cfg e hd s ≠ .err .unmodelled := by
  simp only [continueReadBody, hpp, Bool.false_and, Bool.false_eq_true, if_false]
  have h1 := takeN_ne e hd.cl.toNat s
  have h2 := readBodyChunked_ne e cfg.maxBody (s.length + 1) [] s
  repeat' split
  all_goals first
    | simp; done
    | (rename_i x hx; intro h; injection h with h; subst h; first | exact h1 hx | exact h2 hx)
    | (rename_i x hx; intro h; injection h with h; subst h; exact readTrailerReq_ne _ _ _ _ hx)

theorem serveLoop_no_unmodelled (cfg : Cfg) (hpp : cfg.preParse = false) (e : End) :
    ∀ (fuel : Nat) (first : Bool) (s : Bytes), Ev.unmodelled ∉ serveLoop cfg e fuel first s
  | 0, _, _ => by simp [serveLoop]
  | fuel + 1, first, s => by
    have ih := serveLoop_no_unmodelled cfg hpp e fuel
    simp only [serveLoop]
    repeat' split
    all_goals first
      | (exfalso; exact continueReadBody_ne cfg hpp e _ _ (by assumption))
      | simp [ih]

theorem serve_no_unmodelled (cfg : Cfg) (hpp : cfg.preParse = false) (e : End) (s : Bytes) :
    Ev.unmodelled ∉ serve cfg e s := serveLoop_no_unmodelled cfg hpp e _ _ _

end Hertz.H1

namespace Hertz.Tracer

/-- in an accepted log every start has its finish and at most one handler run -/
theorem pairsFrom_counts (lv : Level) (n k : Nat) (l : List Call) (h : pairsFrom lv n k l = true) :
    nFinishes l = nStarts l ∧ nHandles l ≤ nStarts l := by
  fun_induction pairsFrom lv n k l with
  | case1 => simp [nFinishes, nStarts, nHandles]
  | case2 n k id s c d e f t ih =>
    simp only [Bool.and_eq_true] at h
    have := ih h.2
    simp only [nFinishes, nStarts, nHandles]; omega
  | case3 n k id s c hh c' d e f t ih =>
    simp only [Bool.and_eq_true] at h
    have := ih h.2
    simp only [nFinishes, nStarts, nHandles]; omega
  | case4 => simp at h

end Hertz.Tracer

namespace Hertz.H1
open Hertz Hertz.Tracer

/-- whatever the stream, the call log of the connection is accepted by the specification -/
theorem traceActs_logOK (c : TraceCfg) (e : End) (s : Bytes) (lv : Level) :
    logOK lv (observe lv (traceActs c true e s)) = true :=
  connection_logOK _ rfl lv _

/-- **Corollary.**  On the common ground the call log consists of complete pairs, exactly one handler
run (inside its own pair) per `.req` event of `H1.serve`, and at most one further pair (the exchange
that failed or was closed before the handler). -/
theorem traceActs_per_request (c : TraceCfg) (hp : c.poll = false) (e : End) (s : Bytes)
    (hc : ∀ t ∈ classify c e s, Common t = true) (hu : Ev.unmodelled ∉ serve c.h1 e s) (lv : Level) :
    logOK lv (observe lv (traceActs c true e s)) = true ∧
    nHandles (observe lv (traceActs c true e s)) = nReqs (serve c.h1 e s) ∧
    nReqs (serve c.h1 e s) ≤ nStarts (observe lv (traceActs c true e s)) ∧
    nStarts (observe lv (traceActs c true e s)) ≤ nReqs (serve c.h1 e s) + 1 ∧
    nFinishes (observe lv (traceActs c true e s)) = nStarts (observe lv (traceActs c true e s)) := by
  have hok := traceActs_logOK c e s lv
  obtain ⟨hh, hs⟩ := traceActs_counts c hp true e s lv
  have hsh : loopShaped ((classify c e s).map (·.it)) = true :=
    classifyLoop_loopShaped c hp e (s.length + 1) true none s
  have hb := fullCount_bounds _ true hsh
  have hr : fullCount reachesHandler true ((classify c e s).map (·.it)) = nReqs (serve c.h1 e s) := by
    rw [← nReqOut_projIters, classify_refines_serve c hp e s hc hu, nReqOut_projEv]
  simp only [if_true] at hs
  rw [hr] at hh hb
  refine ⟨hok, hh, ?_, ?_, (pairsFrom_counts lv 1 1 _ hok).1⟩
  · rw [hs]; exact hb.1
  · rw [hs]; exact hb.2

end Hertz.H1
