import Hertz.Proofs.NoFault
import Hertz.Model.NoFaultCodec
/-!
C03: the checked re-statements of the percent decoders, `Args.ParseBytes`, the cookie parsers and `URI.parse`
(`Model/NoFaultCodec.lean`) never reach a fault and their loops terminate, for every input.
-/
namespace Hertz.NF
open Hertz Hertz.Gen.Str

theorem ite_ex {α : Type} {p : Prop} [Decidable p] {a b : Option α} (ha : p → ∃ x, a = some x)
    (hb : ¬ p → ∃ x, b = some x) : ∃ x, (if p then a else b) = some x := by
  by_cases h : p
  · rw [if_pos h]; exact ha h
  · rw [if_neg h]; exact hb h

theorem bind_ex {α β : Type} {a : Option α} {f : α → Option β} (ha : ∃ x, a = some x)
    (hf : ∀ x, a = some x → ∃ y, f x = some y) : ∃ y, a.bind f = some y := by
  obtain ⟨x, hx⟩ := ha
  rw [hx, Option.bind_some]; exact hf x hx

theorem len_cons (c : UInt8) (t : Bytes) : len (c :: t) = len t + 1 := by simp [len]

theorem len_nil : len ([] : Bytes) = 0 := rfl

theorem len_nonneg (b : Bytes) : 0 ≤ len b := by unfold len; omega

/-! ### percent decoding -/

set_option maxRecDepth 100000 in
theorem hex2intTable_size : Gen.hex2intTable.size = 256 := by decide +kernel

theorem tbl_hex (c : UInt8) : ∃ x, tbl Gen.hex2intTable c = some x := by
  unfold tbl
  have hs := hex2intTable_size
  have h : c.toNat < Gen.hex2intTable.size := by rw [hs]; exact c.toNat_lt
  exact ⟨Gen.hex2intTable[c.toNat], Array.getElem?_eq_getElem h⟩

theorem decLoop_total (plus : Bool) (src : Bytes) : ∀ (f : Nat) (i : Int) (dst : Bytes),
    0 ≤ i → i ≤ len src → len src - i < f → ∃ r, decLoop plus src f i dst = some r
  | 0, i, dst, _, h1, h2 => by omega
  | f + 1, i, dst, h0, h1, h2 => by
    unfold decLoop
    refine ite_ex (fun hlt => ?_) (fun _ => ⟨_, rfl⟩)
    obtain ⟨c, hc⟩ := ix_spec (b := src) h0 hlt
    rw [hc, Option.bind_some]
    refine ite_ex (fun _ => ?_) (fun _ => ?_)
    · refine ite_ex (fun _ => ?_) (fun hge => ?_)
      · obtain ⟨r, hr, _⟩ := slFrom_spec (b := src) (lo := i) h0 h1
        rw [hr, Option.bind_some]; exact ⟨_, rfl⟩
      · obtain ⟨b2, hb2⟩ := ix_spec (b := src) (i := i + 2) (by omega) (by omega)
        obtain ⟨x2, hx2⟩ := tbl_hex b2
        obtain ⟨b1, hb1⟩ := ix_spec (b := src) (i := i + 1) (by omega) (by omega)
        obtain ⟨x1, hx1⟩ := tbl_hex b1
        rw [hb2, Option.bind_some, hx2, Option.bind_some, hb1, Option.bind_some, hx1, Option.bind_some]
        refine ite_ex (fun _ => ?_) (fun _ => ?_)
        · exact decLoop_total plus src f (i + 1) _ (by omega) (by omega) (by omega)
        · exact decLoop_total plus src f (i + 3) _ (by omega) (by omega) (by omega)
    · refine ite_ex (fun _ => ?_) (fun _ => ?_)
      · exact decLoop_total plus src f (i + 1) _ (by omega) (by omega) (by omega)
      · exact decLoop_total plus src f (i + 1) _ (by omega) (by omega) (by omega)

theorem decodeArg_total (plus : Bool) (src : Bytes) : ∃ r, decodeArg plus src = some r := by
  unfold decodeArg
  refine ite_ex (fun _ => ⟨_, rfl⟩) (fun _ => ?_)
  exact decLoop_total plus src _ 0 [] (by omega) (by unfold len; omega) (by unfold len; omega)

/-! ### `Args.ParseBytes` -/

theorem argNextLoop_spec (b : Bytes) (hb : len b > 0) : ∀ (t : Bytes) (i : Int) (isKey : Bool) (k : Int) (key : Bytes),
    i + len t = len b → 0 ≤ k → k ≤ i →
    ∃ kv rest, argNextLoop b t i isKey k key = some (kv, rest) ∧ len rest < len b
  | [], i, isKey, k, key, hi, hk0, hk1 => by
    rw [len_nil] at hi
    unfold argNextLoop
    obtain ⟨rest, hrest, hlr, _⟩ := slFrom_spec (b := b) (lo := len b) (by omega) (by omega)
    by_cases hk : isKey = true
    · rw [if_pos hk]
      obtain ⟨kk, hkk⟩ := decodeArg_total true b
      rw [hkk, Option.bind_some, hrest, Option.bind_some]
      exact ⟨_, _, rfl, by omega⟩
    · rw [if_neg hk]
      obtain ⟨v, hv, _⟩ := slFrom_spec (b := b) (lo := k) hk0 (by omega)
      obtain ⟨vv, hvv⟩ := decodeArg_total true v
      rw [hv, Option.bind_some, hvv, Option.bind_some, hrest, Option.bind_some]
      exact ⟨_, _, rfl, by omega⟩
  | c :: t, i, isKey, k, key, hi, hk0, hk1 => by
    rw [len_cons] at hi
    have hlt := len_nonneg t
    unfold argNextLoop
    by_cases h61 : c = 61
    · rw [if_pos h61]
      by_cases hk : isKey = true
      · rw [if_pos hk]
        obtain ⟨p, hp, _⟩ := slTo_spec (b := b) (hi := i) (by omega) (by omega)
        obtain ⟨kk, hkk⟩ := decodeArg_total true p
        rw [hp, Option.bind_some, hkk, Option.bind_some]
        exact argNextLoop_spec b hb t (i + 1) false (i + 1) kk (by omega) (by omega) (by omega)
      · rw [if_neg hk]
        exact argNextLoop_spec b hb t (i + 1) isKey k key (by omega) hk0 (by omega)
    · rw [if_neg h61]
      by_cases h38 : c = 38
      · rw [if_pos h38]
        obtain ⟨rest, hrest, hlr, _⟩ := slFrom_spec (b := b) (lo := i + 1) (by omega) (by omega)
        have hrn := len_nonneg rest
        by_cases hk : isKey = true
        · rw [if_pos hk]
          obtain ⟨p, hp, _⟩ := slTo_spec (b := b) (hi := i) (by omega) (by omega)
          obtain ⟨kk, hkk⟩ := decodeArg_total true p
          rw [hp, Option.bind_some, hkk, Option.bind_some, hrest, Option.bind_some]
          exact ⟨_, _, rfl, by omega⟩
        · rw [if_neg hk]
          obtain ⟨v, hv, _⟩ := sl_spec (b := b) (lo := k) (hi := i) hk0 hk1 (by omega)
          obtain ⟨vv, hvv⟩ := decodeArg_total true v
          rw [hv, Option.bind_some, hvv, Option.bind_some, hrest, Option.bind_some]
          exact ⟨_, _, rfl, by omega⟩
      · rw [if_neg h38]
        exact argNextLoop_spec b hb t (i + 1) isKey k key (by omega) hk0 (by omega)

theorem parseArgsLoop_total : ∀ (f : Nat) (b : Bytes) (acc : List ArgKV), b.length < f →
    ∃ r, parseArgsLoop f b acc = some r
  | 0, _, _, h => by omega
  | f + 1, b, acc, h => by
    unfold parseArgsLoop
    refine ite_ex (fun _ => ⟨_, rfl⟩) (fun hb => ?_)
    obtain ⟨kv, rest, hr, hl⟩ := argNextLoop_spec b (by unfold len at *; omega) b 0 true 0 [] (by omega) (by omega) (by omega)
    rw [hr, Option.bind_some]
    exact parseArgsLoop_total f rest _ (by unfold len at *; omega)

theorem parseArgs_total (b : Bytes) : ∃ r, parseArgs b = some r :=
  parseArgsLoop_total _ b [] (by omega)

/-! ### cookies -/

theorem trimL_spec : ∀ (f : Nat) (s : Bytes), s.length < f → ∃ r, trimL f s = some r ∧ len r ≤ len s
  | 0, _, h => by omega
  | f + 1, s, h => by
    unfold trimL
    by_cases hpos : len s > 0
    · rw [if_pos hpos]
      obtain ⟨c, hc⟩ := ix_spec (b := s) (i := 0) (by omega) (by omega)
      rw [hc, Option.bind_some]
      by_cases h32 : c = 32
      · rw [if_pos h32]
        obtain ⟨s1, h1, hl1, _⟩ := slFrom_spec (b := s) (lo := 1) (by omega) (by omega)
        rw [h1, Option.bind_some]
        obtain ⟨r, hr, hle⟩ := trimL_spec f s1 (by unfold len at *; omega)
        exact ⟨r, hr, by omega⟩
      · rw [if_neg h32]; exact ⟨s, rfl, by omega⟩
    · rw [if_neg hpos]; exact ⟨s, rfl, by omega⟩

theorem trimR_spec : ∀ (f : Nat) (s : Bytes), s.length < f → ∃ r, trimR f s = some r ∧ len r ≤ len s
  | 0, _, h => by omega
  | f + 1, s, h => by
    unfold trimR
    by_cases hpos : len s > 0
    · rw [if_pos hpos]
      obtain ⟨c, hc⟩ := ix_spec (b := s) (i := len s - 1) (by omega) (by omega)
      rw [hc, Option.bind_some]
      by_cases h32 : c = 32
      · rw [if_pos h32]
        obtain ⟨s1, h1, hl1, _⟩ := slTo_spec (b := s) (hi := len s - 1) (by omega) (by omega)
        rw [h1, Option.bind_some]
        obtain ⟨r, hr, hle⟩ := trimR_spec f s1 (by unfold len at *; omega)
        exact ⟨r, hr, by omega⟩
      · rw [if_neg h32]; exact ⟨s, rfl, by omega⟩
    · rw [if_neg hpos]; exact ⟨s, rfl, by omega⟩

theorem decodeCookieArg_total (src : Bytes) (q : Bool) : ∃ r, decodeCookieArg src q = some r := by
  unfold decodeCookieArg
  obtain ⟨s1, h1, _⟩ := trimL_spec (src.length + 1) src (by omega)
  rw [h1, Option.bind_some]
  obtain ⟨s2, h2, _⟩ := trimR_spec (s1.length + 1) s1 (by omega)
  rw [h2, Option.bind_some]
  refine ite_ex (fun _ => ?_) (fun _ => ⟨_, rfl⟩)
  refine ite_ex (fun hgt => ?_) (fun _ => ⟨_, rfl⟩)
  obtain ⟨c0, hc0⟩ := ix_spec (b := s2) (i := 0) (by omega) (by omega)
  rw [hc0, Option.bind_some]
  refine ite_ex (fun _ => ?_) (fun _ => ⟨_, rfl⟩)
  obtain ⟨cl, hcl⟩ := ix_spec (b := s2) (i := len s2 - 1) (by omega) (by omega)
  rw [hcl, Option.bind_some]
  refine ite_ex (fun _ => ?_) (fun _ => ⟨_, rfl⟩)
  obtain ⟨r, hr, _⟩ := sl_spec (b := s2) (lo := 1) (hi := len s2 - 1) (by omega) (by omega) (by omega)
  exact ⟨r, hr⟩

theorem cookieNextLoop_spec (b : Bytes) (hb : len b > 0) : ∀ (t : Bytes) (i : Int) (isKey : Bool) (k : Int) (key : Bytes),
    i + len t = len b → 0 ≤ k → k ≤ i →
    ∃ kv rest, cookieNextLoop b t i isKey k key = some (kv, rest) ∧ len rest < len b
  | [], i, isKey, k, key, hi, hk0, hk1 => by
    rw [len_nil] at hi
    unfold cookieNextLoop
    obtain ⟨rest, hrest, hlr, _⟩ := slFrom_spec (b := b) (lo := len b) (by omega) (by omega)
    obtain ⟨v, hv, _⟩ := slFrom_spec (b := b) (lo := k) hk0 (by omega)
    obtain ⟨vv, hvv⟩ := decodeCookieArg_total v true
    rw [hv, Option.bind_some, hvv, Option.bind_some, hrest, Option.bind_some]
    exact ⟨_, _, rfl, by omega⟩
  | c :: t, i, isKey, k, key, hi, hk0, hk1 => by
    rw [len_cons] at hi
    have hlt := len_nonneg t
    unfold cookieNextLoop
    by_cases h61 : c = 61
    · rw [if_pos h61]
      by_cases hk : isKey = true
      · rw [if_pos hk]
        obtain ⟨p, hp, _⟩ := slTo_spec (b := b) (hi := i) (by omega) (by omega)
        obtain ⟨kk, hkk⟩ := decodeCookieArg_total p false
        rw [hp, Option.bind_some, hkk, Option.bind_some]
        exact cookieNextLoop_spec b hb t (i + 1) false (i + 1) kk (by omega) (by omega) (by omega)
      · rw [if_neg hk]
        exact cookieNextLoop_spec b hb t (i + 1) isKey k key (by omega) hk0 (by omega)
    · rw [if_neg h61]
      by_cases h59 : c = 59
      · rw [if_pos h59]
        obtain ⟨rest, hrest, hlr, _⟩ := slFrom_spec (b := b) (lo := i + 1) (by omega) (by omega)
        have hrn := len_nonneg rest
        obtain ⟨v, hv, _⟩ := sl_spec (b := b) (lo := k) (hi := i) hk0 hk1 (by omega)
        obtain ⟨vv, hvv⟩ := decodeCookieArg_total v true
        rw [hv, Option.bind_some, hvv, Option.bind_some, hrest, Option.bind_some]
        exact ⟨_, _, rfl, by omega⟩
      · rw [if_neg h59]
        exact cookieNextLoop_spec b hb t (i + 1) isKey k key (by omega) hk0 (by omega)

theorem applyAttr_total (c : Uri.Cookie) (k v : Bytes) : ∃ r, applyAttr c k v = some r := by
  unfold applyAttr
  refine ite_ex (fun hk => ?_) (fun _ => ?_)
  · obtain ⟨k0, hk0⟩ := ix_spec (b := k) (i := 0) (by omega) (by unfold len at *; omega)
    rw [hk0, Option.bind_some]
    try dsimp only
    refine ite_ex (fun _ => ⟨_, rfl⟩) (fun _ => ?_)
    refine ite_ex (fun _ => ⟨_, rfl⟩) (fun _ => ?_)
    refine ite_ex (fun _ => ⟨_, rfl⟩) (fun _ => ?_)
    refine ite_ex (fun h => ?_) (fun _ => ⟨_, rfl⟩)
    obtain ⟨v0, hv0⟩ := ix_spec (b := v) (i := 0) (by omega) h.2.2
    rw [hv0, Option.bind_some]
    try dsimp only
    refine ite_ex (fun _ => ⟨_, rfl⟩) (fun _ => ?_)
    refine ite_ex (fun _ => ⟨_, rfl⟩) (fun _ => ?_)
    refine ite_ex (fun _ => ⟨_, rfl⟩) (fun _ => ⟨_, rfl⟩)
  · refine ite_ex (fun hv => ?_) (fun _ => ⟨_, rfl⟩)
    obtain ⟨v0, hv0⟩ := ix_spec (b := v) (i := 0) (by omega) (by unfold len at *; omega)
    rw [hv0, Option.bind_some]
    try dsimp only
    refine ite_ex (fun _ => ⟨_, rfl⟩) (fun _ => ?_)
    refine ite_ex (fun _ => ⟨_, rfl⟩) (fun _ => ?_)
    refine ite_ex (fun _ => ⟨_, rfl⟩) (fun _ => ?_)
    refine ite_ex (fun _ => ⟨_, rfl⟩) (fun _ => ⟨_, rfl⟩)

theorem parseCookieLoop_total : ∀ (f : Nat) (b : Bytes) (c : Uri.Cookie), b.length < f →
    ∃ r, parseCookieLoop f b c = some r
  | 0, _, _, h => by omega
  | f + 1, b, c, h => by
    unfold parseCookieLoop
    refine ite_ex (fun _ => ⟨_, rfl⟩) (fun hb => ?_)
    obtain ⟨kv, rest, hr, hl⟩ := cookieNextLoop_spec b (by unfold len at *; omega) b 0 true 0 [] (by omega) (by omega) (by omega)
    rw [hr, Option.bind_some]
    dsimp only
    obtain ⟨a, ha⟩ := applyAttr_total c kv.1 kv.2
    rw [ha, Option.bind_some]
    cases a with
    | none => exact ⟨_, rfl⟩
    | some c' => exact parseCookieLoop_total f rest c' (by unfold len at *; omega)

theorem parseCookie_total (src : Bytes) : ∃ r, parseCookie src = some r := by
  unfold parseCookie
  refine ite_ex (fun _ => ⟨_, rfl⟩) (fun hb => ?_)
  obtain ⟨kv, rest, hr, hl⟩ := cookieNextLoop_spec src (by unfold len at *; omega) src 0 true 0 [] (by omega) (by omega) (by omega)
  rw [hr, Option.bind_some]
  exact parseCookieLoop_total _ rest _ (by dsimp only; omega)

theorem reqCookiesLoop_total : ∀ (f : Nat) (b : Bytes) (acc : List (Bytes × Bytes)), b.length < f →
    ∃ r, reqCookiesLoop f b acc = some r
  | 0, _, _, h => by omega
  | f + 1, b, acc, h => by
    unfold reqCookiesLoop
    refine ite_ex (fun _ => ⟨_, rfl⟩) (fun hb => ?_)
    obtain ⟨kv, rest, hr, hl⟩ := cookieNextLoop_spec b (by unfold len at *; omega) b 0 true 0 [] (by omega) (by omega) (by omega)
    rw [hr, Option.bind_some]
    exact reqCookiesLoop_total f rest _ (by unfold len at *; omega)

theorem parseReqCookies_total (src : Bytes) : ∃ r, parseReqCookies src = some r :=
  reqCookiesLoop_total _ src [] (by omega)

/-! ### URI -/

theorem getSchemeLoop_total (raw : Bytes) : ∀ (t : Bytes) (i : Int), i + len t = len raw → 0 ≤ i →
    ∃ g, getSchemeLoop raw t i = some g
  | [], _, _, _ => ⟨_, rfl⟩
  | c :: t, i, hi, h0 => by
    rw [len_cons] at hi
    have hlt := len_nonneg t
    unfold getSchemeLoop
    refine ite_ex (fun _ => ?_) (fun _ => ?_)
    · exact getSchemeLoop_total raw t (i + 1) (by omega) (by omega)
    refine ite_ex (fun _ => ?_) (fun _ => ?_)
    · refine ite_ex (fun _ => ⟨_, rfl⟩) (fun _ => ?_)
      exact getSchemeLoop_total raw t (i + 1) (by omega) (by omega)
    refine ite_ex (fun _ => ?_) (fun _ => ⟨_, rfl⟩)
    refine ite_ex (fun _ => ⟨_, rfl⟩) (fun _ => ?_)
    obtain ⟨s, hs, _⟩ := slTo_spec (b := raw) (hi := i) h0 (by omega)
    obtain ⟨p, hp, _⟩ := slFrom_spec (b := raw) (lo := i + 1) (by omega) (by omega)
    rw [hs, Option.bind_some, hp, Option.bind_some]; exact ⟨_, rfl⟩

theorem splitHostURI_total (host uri : Bytes) : ∃ r, splitHostURI host uri = some r := by
  unfold splitHostURI
  obtain ⟨g, hg⟩ := getSchemeLoop_total uri uri 0 (by omega) (by omega)
  rw [hg, Option.bind_some]
  cases g with
  | none => exact ⟨_, rfl⟩
  | some sp =>
    obtain ⟨scheme, path⟩ := sp
    dsimp only
    refine ite_ex (fun _ => ⟨_, rfl⟩) (fun hp => ?_)
    have hl := isPrefixOf_len (p := strSlashSlash) (b := path) (by simpa using hp)
    obtain ⟨u, hu, _⟩ := slFrom_spec (b := path) (lo := len strSlashSlash) (by unfold len; omega) hl
    rw [hu, Option.bind_some]
    have h47 := indexByte_lt 47 u
    have h63 := indexByte_lt 63 u
    refine ite_ex (fun _ => ?_) (fun hn => ?_)
    · refine ite_ex (fun hq => ?_) (fun _ => ⟨_, rfl⟩)
      obtain ⟨h, hh, _⟩ := slTo_spec (b := u) (hi := indexByte 63 u) hq (by omega)
      obtain ⟨r, hr, _⟩ := slFrom_spec (b := u) (lo := indexByte 63 u) hq (by omega)
      rw [hh, Option.bind_some, hr, Option.bind_some]; exact ⟨_, rfl⟩
    · obtain ⟨h, hh, _⟩ := slTo_spec (b := u) (hi := indexByte 47 u) (by omega) (by omega)
      obtain ⟨r, hr, _⟩ := slFrom_spec (b := u) (lo := indexByte 47 u) (by omega) (by omega)
      rw [hh, Option.bind_some, hr, Option.bind_some]; exact ⟨_, rfl⟩

theorem userInfo_total (host : Bytes) : ∃ a, userInfo host = some a := by
  unfold userInfo
  dsimp only
  have h1 := indexByte_lt 64 host
  refine ite_ex (fun hn => ?_) (fun _ => ⟨_, rfl⟩)
  obtain ⟨auth, ha, _⟩ := slTo_spec (b := host) hn (by omega)
  obtain ⟨h', hh, _⟩ := slFrom_spec (b := host) (lo := indexByte 64 host + 1) (by omega) (by omega)
  rw [ha, Option.bind_some, hh, Option.bind_some]
  have h2 := indexByte_lt 58 auth
  refine ite_ex (fun hm => ?_) (fun _ => ⟨_, rfl⟩)
  obtain ⟨u, hu, _⟩ := slTo_spec (b := auth) hm (by omega)
  obtain ⟨p, hp, _⟩ := slFrom_spec (b := auth) (lo := indexByte 58 auth + 1) (by omega) (by omega)
  rw [hu, Option.bind_some, hp, Option.bind_some]; exact ⟨_, rfl⟩

/-! ### agreement with the list models (where proved) -/

theorem applyAttr_eq (c : Uri.Cookie) (k v : Bytes) : applyAttr c k v = some (Uri.applyAttr c (k, v)) := by
  cases k with
  | nil =>
    cases v with
    | nil => rfl
    | cons v0 vt =>
      have h1 : ¬ len ([] : Bytes) ≠ 0 := by simp [len]
      have h2 : len (v0 :: vt) ≠ 0 := by rw [len_cons]; have := len_nonneg vt; omega
      unfold applyAttr Uri.applyAttr
      rw [if_neg h1, if_pos h2, ix_zero_cons, Option.bind_some]
      dsimp only
      simp only [apply_ite (some : Option Uri.Cookie → Option (Option Uri.Cookie))]
  | cons k0 kt =>
    have h2 : len (k0 :: kt) ≠ 0 := by rw [len_cons]; have := len_nonneg kt; omega
    unfold applyAttr Uri.applyAttr
    rw [if_pos h2, ix_zero_cons, Option.bind_some]
    dsimp only
    cases v with
    | nil =>
      have h3 : ¬ len ([] : Bytes) > 0 := by simp [len]
      simp only [h3, and_false, if_false, List.isEmpty_nil, Bool.not_true, Bool.false_eq_true,
        apply_ite (some : Option Uri.Cookie → Option (Option Uri.Cookie))]
    | cons v0 vt =>
      have h3 : len (v0 :: vt) > 0 := by rw [len_cons]; have := len_nonneg vt; omega
      simp only [h3, and_true, ix_zero_cons, Option.bind_some, List.isEmpty_cons, Bool.not_false,
        apply_ite (some : Option Uri.Cookie → Option (Option Uri.Cookie))]
      rfl

theorem take_succ_of_drop {raw : Bytes} {i : Nat} {c : UInt8} {t : Bytes} (h : raw.drop i = c :: t) :
    raw.take (i + 1) = raw.take i ++ [c] ∧ raw.drop (i + 1) = t := by
  have hlt : i < raw.length := by
    by_cases hh : i < raw.length
    · exact hh
    · rw [List.drop_eq_nil_of_le (by omega)] at h; cases h
  constructor
  · rw [List.take_succ_eq_append_getElem hlt]
    have : raw[i] = c := by
      have := List.getElem_drop (xs := raw) (i := i) (j := 0) (h := by simp; omega)
      simp [h] at this; exact this.symm
    rw [this]
  · have := List.drop_drop (i := 1) (j := i) (l := raw)
    rw [← this, h]; rfl

theorem getSchemeLoop_eq (raw : Bytes) : ∀ (t : Bytes) (i : Nat), raw.drop i = t →
    getSchemeLoop raw t (i : Int) = some (Uri.getSchemeAux i (raw.take i) t)
  | [], i, _ => by simp [getSchemeLoop, Uri.getSchemeAux]
  | c :: t, i, h => by
    obtain ⟨h1, h2⟩ := take_succ_of_drop h
    have ih := getSchemeLoop_eq raw t (i + 1) h2
    have hi : ((i : Int) = 0) ↔ (i = 0) := by omega
    have hlen : i < raw.length := by
      by_cases hh : i < raw.length
      · exact hh
      · rw [List.drop_eq_nil_of_le (by omega)] at h; cases h
    unfold getSchemeLoop Uri.getSchemeAux
    rw [← h1]
    by_cases ha : Uri.isAlpha c = true
    · rw [if_pos ha, if_pos ha]; exact_mod_cast ih
    · rw [if_neg ha, if_neg ha]
      by_cases hd : ((48 ≤ c && c ≤ 57) || c == 43 || c == 45 || c == 46) = true
      · rw [if_pos hd, if_pos hd]
        by_cases h0 : i = 0
        · subst h0; simp
        · rw [if_neg (by omega), if_neg h0]; exact_mod_cast ih
      · rw [if_neg hd, if_neg hd]
        by_cases hc : c = 58
        · rw [if_pos hc, if_pos hc]
          by_cases h0 : i = 0
          · subst h0; simp
          · rw [if_neg (by omega), if_neg h0]
            obtain ⟨s, hs, _, es⟩ := slTo_spec (b := raw) (hi := (i : Int)) (by omega) (by unfold len; omega)
            obtain ⟨p, hp, _, ep⟩ := slFrom_spec (b := raw) (lo := (i : Int) + 1) (by omega) (by unfold len; omega)
            rw [hs, Option.bind_some, hp, Option.bind_some, es, ep]
            have e1 : ((i : Int) + 1).toNat = i + 1 := by omega
            rw [e1, h2]; simp
        · rw [if_neg hc, if_neg hc]
theorem cut_at_index (scheme u : Bytes) (n : Nat) (hn : n < u.length) :
    ((slTo u (n : Int)).bind fun h => (slFrom u (n : Int)).bind fun r => some (scheme, h, r)) = some (scheme, u.take n, u.drop n) := by
  obtain ⟨h, hh, _, eh⟩ := slTo_spec (b := u) (hi := (n : Int)) (by omega) (by unfold len; omega)
  obtain ⟨r, hr, _, er⟩ := slFrom_spec (b := u) (lo := (n : Int)) (by omega) (by unfold len; omega)
  rw [hh, Option.bind_some, hr, Option.bind_some, eh, er]; simp

/-- the checked `splitHostURI` computes the list model of C17 -/
theorem splitHostURI_eq (host uri : Bytes) : splitHostURI host uri = some (Uri.splitHostURI host uri) := by
  unfold splitHostURI Uri.splitHostURI Uri.getScheme
  have hg := getSchemeLoop_eq uri uri 0 rfl
  simp only [List.take_zero, Int.natCast_zero] at hg
  rw [hg, Option.bind_some]
  cases Uri.getSchemeAux 0 [] uri with
  | none => rfl
  | some sp =>
    obtain ⟨scheme, path⟩ := sp
    dsimp only
    by_cases hp : (!strSlashSlash.isPrefixOf path) = true
    · rw [if_pos hp, if_pos hp]
    · rw [if_neg hp, if_neg hp]
      have hl := isPrefixOf_len (p := strSlashSlash) (b := path) (by simpa using hp)
      obtain ⟨u, hu, _, eu⟩ := slFrom_spec (b := path) (lo := len strSlashSlash) (by unfold len; omega) hl
      rw [hu, Option.bind_some, eu]
      have e2 : (len strSlashSlash).toNat = 2 := rfl
      rw [e2]
      unfold indexByte
      cases h47 : Uri.indexOf 47 (List.drop 2 path) with
      | some n =>
        dsimp only
        rw [if_neg (by omega)]
        exact cut_at_index scheme _ n (indexOf_lt 47 _ n h47)
      | none =>
        dsimp only
        rw [if_pos (by omega)]
        cases h63 : Uri.indexOf 63 (List.drop 2 path) with
        | some n =>
          dsimp only
          rw [if_pos (by omega)]
          exact cut_at_index scheme _ n (indexOf_lt 63 _ n h63)
        | none =>
          dsimp only
          rw [if_neg (by omega)]



theorem ix_drop (src : Bytes) (i k : Nat) : ix src ((i : Int) + (k : Int)) = (src.drop i)[k]? := by
  unfold ix
  have : ¬ ((i : Int) + (k : Int) < 0) := by omega
  rw [if_neg this]
  have e : ((i : Int) + (k : Int)).toNat = i + k := by omega
  rw [e, List.getElem?_drop]

theorem tbl_hex_eq (c : UInt8) : tbl Gen.hex2intTable c = some (hex2int c) := by
  unfold tbl hex2int tget
  have h : c.toNat < Gen.hex2intTable.size := by rw [hex2intTable_size]; exact c.toNat_lt
  rw [Array.getElem?_eq_getElem h, getElem!_pos Gen.hex2intTable c.toNat h]

theorem decLoop_eq (plus : Bool) (src : Bytes) : ∀ (f i : Nat) (dst : Bytes), i ≤ src.length → src.length - i < f →
    decLoop plus src f (i : Int) dst = some (dst ++ decodeSlow plus (src.drop i))
  | 0, _, _, _, h => by omega
  | f + 1, i, dst, hi, hf => by
    unfold decLoop
    have hlen : ((i : Int) < len src) ↔ i < src.length := by unfold len; omega
    match hd : src.drop i with
    | [] =>
      have : ¬ i < src.length := by
        intro h; have := List.length_drop (i := i) (l := src); rw [hd] at this; simp at this; omega
      rw [if_neg (by rw [hlen]; exact this)]; simp [decodeSlow]
    | [c] =>
      have hl : src.length = i + 1 := by have := List.length_drop (i := i) (l := src); rw [hd] at this; simp at this; omega
      have h0 : ix src (i : Int) = some c := by have := ix_drop src i 0; simp [hd] at this; exact this
      rw [if_pos (by rw [hlen]; omega), h0, Option.bind_some]
      have hnext : List.drop (i + 1) src = [] := by rw [List.drop_eq_nil_iff]; omega
      by_cases h37 : c = 37
      · subst h37
        rw [if_pos rfl, if_pos (by unfold len; omega)]
        obtain ⟨r, hr, _, er⟩ := slFrom_spec (b := src) (lo := (i : Int)) (by omega) (by unfold len; omega)
        rw [hr, Option.bind_some, er]; simp [hd, decodeSlow]
      · rw [if_neg h37]
        have ih := decLoop_eq plus src f (i + 1) 
        by_cases hp : (plus && c == 43) = true
        · rw [if_pos hp]
          have := ih (dst ++ [32]) (by omega) (by omega)
          rw [show ((i : Int) + 1) = ((i + 1 : Nat) : Int) by omega, this, hnext]; simp [decodeSlow, hp]
        · rw [if_neg hp]
          have := ih (dst ++ [c]) (by omega) (by omega)
          rw [show ((i : Int) + 1) = ((i + 1 : Nat) : Int) by omega, this, hnext]; simp [decodeSlow, hp]
    | [c, d] =>
      have hl : src.length = i + 2 := by have := List.length_drop (i := i) (l := src); rw [hd] at this; simp at this; omega
      have h0 : ix src (i : Int) = some c := by have := ix_drop src i 0; simp [hd] at this; exact this
      rw [if_pos (by rw [hlen]; omega), h0, Option.bind_some]
      have hnext : List.drop (i + 1) src = [d] := by
        have := List.drop_drop (i := 1) (j := i) (l := src); rw [hd] at this; simpa using this.symm
      by_cases h37 : c = 37
      · subst h37
        rw [if_pos rfl, if_pos (by unfold len; omega)]
        obtain ⟨r, hr, _, er⟩ := slFrom_spec (b := src) (lo := (i : Int)) (by omega) (by unfold len; omega)
        rw [hr, Option.bind_some, er]; simp [hd, decodeSlow]
      · rw [if_neg h37]
        have ih := decLoop_eq plus src f (i + 1)
        by_cases hp : (plus && c == 43) = true
        · rw [if_pos hp]
          have := ih (dst ++ [32]) (by omega) (by omega)
          rw [show ((i : Int) + 1) = ((i + 1 : Nat) : Int) by omega, this, hnext]; simp [decodeSlow, hp, h37]
        · rw [if_neg hp]
          have := ih (dst ++ [c]) (by omega) (by omega)
          rw [show ((i : Int) + 1) = ((i + 1 : Nat) : Int) by omega, this, hnext]; simp [decodeSlow, hp, h37]
    | c :: a :: b :: rest =>
      have hl : src.length = i + (rest.length + 3) := by have := List.length_drop (i := i) (l := src); rw [hd] at this; simp at this; omega
      have h0 : ix src (i : Int) = some c := by have := ix_drop src i 0; simp [hd] at this; exact this
      have h1 : ix src ((i : Int) + 1) = some a := by have := ix_drop src i 1; simp [hd] at this; exact this
      have h2 : ix src ((i : Int) + 2) = some b := by have := ix_drop src i 2; simp [hd] at this; exact this
      rw [if_pos (by rw [hlen]; omega), h0, Option.bind_some]
      have hnext : List.drop (i + 1) src = a :: b :: rest := by
        have := List.drop_drop (i := 1) (j := i) (l := src); rw [hd] at this; simpa using this.symm
      have hnext3 : List.drop (i + 3) src = rest := by
        have := List.drop_drop (i := 3) (j := i) (l := src); rw [hd] at this; simpa using this.symm
      by_cases h37 : c = 37
      · subst h37
        rw [if_pos rfl, if_neg (by unfold len; omega), h2, Option.bind_some, tbl_hex_eq, Option.bind_some, h1, Option.bind_some,
          tbl_hex_eq, Option.bind_some]
        by_cases hx : hex2int a = 16 ∨ hex2int b = 16
        · rw [if_pos hx]
          have := decLoop_eq plus src f (i + 1) (dst ++ [37]) (by omega) (by omega)
          rw [show ((i : Int) + 1) = ((i + 1 : Nat) : Int) by omega, this, hnext]; simp [decodeSlow, hx]
        · rw [if_neg hx]
          have := decLoop_eq plus src f (i + 3) (dst ++ [hex2int a <<< 4 ||| hex2int b]) (by omega) (by omega)
          rw [show ((i : Int) + 3) = ((i + 3 : Nat) : Int) by omega, this, hnext3]; simp [decodeSlow, hx]
      · rw [if_neg h37]
        have ih := decLoop_eq plus src f (i + 1)
        by_cases hp : (plus && c == 43) = true
        · rw [if_pos hp]
          have := ih (dst ++ [32]) (by omega) (by omega)
          rw [show ((i : Int) + 1) = ((i + 1 : Nat) : Int) by omega, this, hnext]; simp [decodeSlow, hp, h37]
        · rw [if_neg hp]
          have := ih (dst ++ [c]) (by omega) (by omega)
          rw [show ((i : Int) + 1) = ((i + 1 : Nat) : Int) by omega, this, hnext]; simp [decodeSlow, hp, h37]
theorem indexOf_none_iff (c : UInt8) : ∀ b : Bytes, Uri.indexOf c b = none ↔ b.contains c = false
  | [] => by simp [Uri.indexOf]
  | x :: t => by
    have ih := indexOf_none_iff c t
    unfold Uri.indexOf
    by_cases h : x = c
    · subst h; simp
    · rw [if_neg h]
      have hne : (c == x) = false := by simp; exact fun e => h e.symm
      simp only [Option.map_eq_none_iff, ih, List.contains_cons, hne, Bool.false_or]

theorem indexByte_neg_iff (c : UInt8) (b : Bytes) : indexByte c b < 0 ↔ b.contains c = false := by
  rw [← indexOf_none_iff]
  unfold indexByte
  cases Uri.indexOf c b with
  | none => simp
  | some n => simp

/-- the checked percent decoders compute the list models of `Model/Bytesconv.lean` -/
theorem decodeArg_plus_eq (src : Bytes) : decodeArg true src = some (Hertz.decodeArg src) := by
  unfold decodeArg Hertz.decodeArg
  have hl := decLoop_eq true src (src.length + 1) 0 [] (by omega) (by omega)
  simp only [Int.natCast_zero, List.drop_zero, List.nil_append] at hl
  have e37 := indexByte_neg_iff 37 src
  have e43 := indexByte_neg_iff 43 src
  by_cases h : src.contains 37 = false ∧ src.contains 43 = false
  · have c1 : (decide (indexByte 37 src < 0) && (!true || decide (indexByte 43 src < 0))) = true := by
      simp only [e37.mpr h.1, e43.mpr h.2, decide_true, Bool.not_true, Bool.false_or, Bool.and_self]
    have c2 : (!src.contains 37 && !src.contains 43) = true := by
      rw [h.1, h.2]; rfl
    rw [if_pos c1, if_pos c2]
  · have c1 : ¬ (decide (indexByte 37 src < 0) && (!true || decide (indexByte 43 src < 0))) = true := by
      intro hc
      simp only [Bool.not_true, Bool.false_or, Bool.and_eq_true, decide_eq_true_eq] at hc
      exact h ⟨e37.mp hc.1, e43.mp hc.2⟩
    have c2 : ¬ (!src.contains 37 && !src.contains 43) = true := by
      intro hc
      simp only [Bool.and_eq_true, Bool.not_eq_true'] at hc
      exact h hc
    rw [if_neg c1, if_neg c2]; exact hl

theorem decodeArg_noplus_eq (src : Bytes) : decodeArg false src = some (Hertz.decodeArgNoPlus src) := by
  unfold decodeArg Hertz.decodeArgNoPlus
  have hl := decLoop_eq false src (src.length + 1) 0 [] (by omega) (by omega)
  simp only [Int.natCast_zero, List.drop_zero, List.nil_append] at hl
  have e37 := indexByte_neg_iff 37 src
  by_cases h : src.contains 37 = false
  · have c1 : (decide (indexByte 37 src < 0) && (!false || decide (indexByte 43 src < 0))) = true := by
      simp only [e37.mpr h, decide_true, Bool.not_false, Bool.true_or, Bool.and_self]
    have c2 : (!src.contains 37) = true := by rw [h]; rfl
    rw [if_pos c1, if_pos c2]
  · have c1 : ¬ (decide (indexByte 37 src < 0) && (!false || decide (indexByte 43 src < 0))) = true := by
      intro hc
      simp only [Bool.not_false, Bool.true_or, Bool.and_true, decide_eq_true_eq] at hc
      exact h (e37.mp hc)
    have c2 : ¬ (!src.contains 37) = true := by
      intro hc
      simp only [Bool.not_eq_true'] at hc
      exact h hc
    rw [if_neg c1, if_neg c2]; exact hl


end Hertz.NF
