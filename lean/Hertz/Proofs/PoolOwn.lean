import Hertz.Model.PoolOwn
/-!
Lemmas for the ownership part of C09: the discipline `Inv` of `Model/PoolOwn.lean` holds initially and is kept by
every step (hence along every event sequence of any length, any interleaving of connections), and an accounted
object stays accounted except at the listed deliberate places.
-/
namespace Hertz.PoolOwn

/-! ## `take` (sync.Pool.Get) -/

theorem not_mem_eraseIdx_of_nodup : ∀ {l : List Nat} {i x : Nat}, l.Nodup → l[i]? = some x → x ∉ l.eraseIdx i
  | [], _, _, _, h => by simp at h
  | a :: l, 0, x, hn, h => by
    simp at h; subst h
    simpa using (List.nodup_cons.mp hn).1
  | a :: l, i + 1, x, hn, h => by
    have hn' := List.nodup_cons.mp hn
    simp at h
    have ih := not_mem_eraseIdx_of_nodup hn'.2 h
    have hx : x ∈ l := List.mem_of_getElem? h
    simp only [List.eraseIdx_cons_succ, List.mem_cons, not_or]
    refine ⟨?_, ih⟩
    intro e; subst e; exact hn'.1 hx

theorem take_sub (l : List Nat) (i next y : Nat) (h : y ∈ (take l i next).2.1) : y ∈ l := by
  unfold take at h; split at h
  · exact List.mem_of_mem_eraseIdx h
  · exact h

theorem take_nodup (l : List Nat) (i next : Nat) (h : l.Nodup) : (take l i next).2.1.Nodup := by
  unfold take; split
  · exact h.eraseIdx i
  · exact h

theorem take_src (l : List Nat) (i next : Nat) : (take l i next).1 ∈ l ∨ (take l i next).1 = next := by
  unfold take; split
  · rename_i x hx; exact Or.inl (List.mem_of_getElem? hx)
  · exact Or.inr rfl

theorem take_le (l : List Nat) (i next : Nat) : next ≤ (take l i next).2.2 := by
  unfold take; split <;> simp

theorem take_lt (l : List Nat) (i next : Nat) (hl : ∀ y ∈ l, y < next) : (take l i next).1 < (take l i next).2.2 := by
  unfold take; split
  · rename_i x hx; exact hl _ (List.mem_of_getElem? hx)
  · simp

theorem take_notMem (l : List Nat) (i next : Nat) (hn : l.Nodup) (hl : ∀ y ∈ l, y < next) :
    (take l i next).1 ∉ (take l i next).2.1 := by
  unfold take; split
  · rename_i x hx; exact not_mem_eraseIdx_of_nodup hn hx
  · intro h; exact Nat.lt_irrefl _ (hl _ h)

/-! ## the master lemma: one connection changes, the pools change -/

/-- what connection `c` held / referred to before the step -/
def oldH (s : State) (c : Nat) (k : Kind) (x : Nat) : Prop := ∃ cn, s.conns c = some cn ∧ cn.holds k x

theorem inv_trans {s s' : State} {c : Nat} {ocn' : Option Conn} (h : Inv s)
    (hcs : ∀ d, s'.conns d = if d = c then ocn' else s.conns d)
    (hnext : s.next ≤ s'.next)
    (hnd : ∀ k, (s'.pool k).Nodup)
    (hsrc : ∀ k y, y ∈ s'.pool k → y ∈ s.pool k ∨ oldH s c k y)
    (href : ∀ cn', ocn' = some cn' → ∀ k y, cn'.ref k = some y → y < s'.next)
    (hhold : ∀ cn', ocn' = some cn' → ∀ k y, cn'.holds k y →
      y ∉ s'.pool k ∧ (oldH s c k y ∨ y ∈ s.pool k ∨ s.next ≤ y))
    (hidle : ∀ cn', ocn' = some cn' → cn'.phase = .idle → cn'.stream = none)
    (hkeep : s'.keepHj = s.keepHj)
    (hhj : ∀ cn', ocn' = some cn' → ∀ x, cn'.hj = some x →
      (cn'.phase = .hijacking ∨ cn'.phase = .ret .hijacked) ∧ (cn'.hjLive = false → s.keepHj = true)) : Inv s' := by
  have cases : ∀ {d dn}, s'.conns d = some dn → (d = c ∧ ocn' = some dn) ∨ (d ≠ c ∧ s.conns d = some dn) := by
    intro d dn hd
    rw [hcs] at hd
    by_cases e : d = c
    · simp [e] at hd; exact Or.inl ⟨e, hd⟩
    · simp [e] at hd; exact Or.inr ⟨e, hd⟩
  -- an identity held by another connection is neither put by `c` nor newly acquired by `c`
  have other : ∀ {d dn k x}, d ≠ c → s.conns d = some dn → dn.holds k x → ¬ oldH s c k x := by
    intro d dn k x hne hd hx ⟨cn, hc, hcx⟩
    exact hne (h.distinct d c dn cn k x hd hc hx hcx)
  refine ⟨hnd, ?_, ?_, ?_, ?_, ?_, ?_, ?_⟩
  · intro k x hx
    rcases hsrc k x hx with h1 | ⟨cn, hc, hcx⟩
    · exact Nat.lt_of_lt_of_le (h.poolLt k x h1) hnext
    · exact Nat.lt_of_lt_of_le (h.refLt c cn k x hc hcx.1) hnext
  · intro d dn k x hd hr
    rcases cases hd with ⟨_, e⟩ | ⟨_, hd'⟩
    · exact href dn e k x hr
    · exact Nat.lt_of_lt_of_le (h.refLt d dn k x hd' hr) hnext
  · intro d dn k x hd hx
    rcases cases hd with ⟨_, e⟩ | ⟨hne, hd'⟩
    · exact (hhold dn e k x hx).1
    · intro hm
      rcases hsrc k x hm with h1 | h2
      · exact h.notPooled d dn k x hd' hx h1
      · exact other hne hd' hx h2
  · intro d1 d2 n1 n2 k x h1 h2 hx1 hx2
    rcases cases h1 with ⟨e1, o1⟩ | ⟨ne1, hd1⟩ <;> rcases cases h2 with ⟨e2, o2⟩ | ⟨ne2, hd2⟩
    · rw [e1, e2]
    · exfalso
      rcases (hhold n1 o1 k x hx1).2 with a | a | a
      · exact other ne2 hd2 hx2 a
      · exact h.notPooled d2 n2 k x hd2 hx2 a
      · exact Nat.lt_irrefl _ (Nat.lt_of_lt_of_le (h.refLt d2 n2 k x hd2 hx2.1) a)
    · exfalso
      rcases (hhold n2 o2 k x hx2).2 with a | a | a
      · exact other ne1 hd1 hx1 a
      · exact h.notPooled d1 n1 k x hd1 hx1 a
      · exact Nat.lt_irrefl _ (Nat.lt_of_lt_of_le (h.refLt d1 n1 k x hd1 hx1.1) a)
    · exact h.distinct d1 d2 n1 n2 k x hd1 hd2 hx1 hx2
  · intro d dn hd hp
    rcases cases hd with ⟨_, e⟩ | ⟨_, hd'⟩
    · exact hidle dn e hp
    · exact h.idleClean d dn hd' hp
  · intro d dn x hd hx
    rcases cases hd with ⟨_, e⟩ | ⟨_, hd'⟩
    · exact (hhj dn e x hx).1
    · exact h.hjOnly d dn x hd' hx
  · intro d dn x hd hx hl
    rw [hkeep]
    rcases cases hd with ⟨_, e⟩ | ⟨_, hd'⟩
    · exact (hhj dn e x hx).2 hl
    · exact h.liveUnlessKeep d dn x hd' hx hl

def oldR (s : State) (c : Nat) (k : Kind) (x : Nat) : Prop := ∃ cn, s.conns c = some cn ∧ cn.ref k = some x

/-- no pool changes: connection `c` only gives up references / holdings (or disappears) -/
theorem inv_upd {s : State} {c : Nat} {ocn' : Option Conn} (h : Inv s)
    (hrefs : ∀ cn', ocn' = some cn' → ∀ k y, cn'.ref k = some y → oldR s c k y)
    (hholds : ∀ cn', ocn' = some cn' → ∀ k y, cn'.holds k y → oldH s c k y)
    (hidle : ∀ cn', ocn' = some cn' → cn'.phase = .idle → cn'.stream = none)
    (hhj : ∀ cn', ocn' = some cn' → ∀ x, cn'.hj = some x →
      (cn'.phase = .hijacking ∨ cn'.phase = .ret .hijacked) ∧ (cn'.hjLive = false → s.keepHj = true)) :
    Inv (s.setConn c ocn') := by
  refine inv_trans (c := c) (ocn' := ocn') h (fun d => rfl) (Nat.le_refl _) h.nodup (fun k y hy => Or.inl hy) ?_ ?_ hidle rfl hhj
  · intro cn' e k y hr
    obtain ⟨cn, hc, hcr⟩ := hrefs cn' e k y hr
    exact h.refLt c cn k y hc hcr
  · intro cn' e k y hy
    have ho := hholds cn' e k y hy
    obtain ⟨cn, hc, hcx⟩ := ho
    exact ⟨h.notPooled c cn k y hc hcx, Or.inl ⟨cn, hc, hcx⟩⟩

/-- `Put x` into pool `k` by connection `c`, which held `x` and no longer does -/
theorem inv_put {s : State} {c : Nat} {k : Kind} {x : Nat} {ocn' : Option Conn} (h : Inv s) (hold : oldH s c k x)
    (hrefs : ∀ cn', ocn' = some cn' → ∀ k' y, cn'.ref k' = some y → oldR s c k' y)
    (hholds : ∀ cn', ocn' = some cn' → ∀ k' y, cn'.holds k' y → oldH s c k' y ∧ ¬ (k' = k ∧ y = x))
    (hidle : ∀ cn', ocn' = some cn' → cn'.phase = .idle → cn'.stream = none)
    (hhj : ∀ cn', ocn' = some cn' → ∀ x, cn'.hj = some x →
      (cn'.phase = .hijacking ∨ cn'.phase = .ret .hijacked) ∧ (cn'.hjLive = false → s.keepHj = true)) :
    Inv ((s.put k x).setConn c ocn') := by
  obtain ⟨cn, hc, hcx⟩ := hold
  have hx : x ∉ s.pool k := h.notPooled c cn k x hc hcx
  have hpool : ∀ k', ((s.put k x).setConn c ocn').pool k' = if k' = k then x :: s.pool k else s.pool k' := fun _ => rfl
  refine inv_trans (c := c) (ocn' := ocn') h (fun d => rfl) (Nat.le_refl _) ?_ ?_ ?_ ?_ hidle rfl hhj
  · intro k'
    rw [hpool]
    by_cases e : k' = k
    · subst e; simp only [if_true]; exact List.nodup_cons.mpr ⟨hx, h.nodup _⟩
    · simp only [e, if_false]; exact h.nodup _
  · intro k' y hy
    rw [hpool] at hy
    by_cases e : k' = k
    · subst e
      simp only [if_true, List.mem_cons] at hy
      rcases hy with rfl | hy
      · exact Or.inr ⟨cn, hc, hcx⟩
      · exact Or.inl hy
    · simp only [e, if_false] at hy; exact Or.inl hy
  · intro cn' e k' y hr
    obtain ⟨cn2, hc2, hcr⟩ := hrefs cn' e k' y hr
    exact h.refLt c cn2 k' y hc2 hcr
  · intro cn' e k' y hy
    obtain ⟨⟨cn2, hc2, hcx2⟩, hne⟩ := hholds cn' e k' y hy
    refine ⟨?_, Or.inl ⟨cn2, hc2, hcx2⟩⟩
    rw [hpool]
    by_cases e' : k' = k
    · subst e'
      simp only [if_true, List.mem_cons, not_or]
      exact ⟨fun e2 => hne ⟨rfl, e2⟩, h.notPooled c cn2 _ y hc2 hcx2⟩
    · simp only [e', if_false]; exact h.notPooled c cn2 k' y hc2 hcx2

/-- `Get` from pool `k` by connection `c` -/
theorem inv_take {s : State} {c : Nat} {k : Kind} {i : Nat} {cn' : Conn} (h : Inv s)
    (hrefs : ∀ k' y, cn'.ref k' = some y → (k' = k ∧ y = (take (s.pool k) i s.next).1) ∨ oldR s c k' y)
    (hholds : ∀ k' y, cn'.holds k' y → (k' = k ∧ y = (take (s.pool k) i s.next).1) ∨ (oldH s c k' y ∧ k' ≠ k))
    (hidle : cn'.phase = .idle → cn'.stream = none)
    (hhj : ∀ x, cn'.hj = some x →
      (cn'.phase = .hijacking ∨ cn'.phase = .ret .hijacked) ∧ (cn'.hjLive = false → s.keepHj = true)) :
    Inv { (s.setPool k (take (s.pool k) i s.next).2.1).setConn c (some cn') with
          next := (take (s.pool k) i s.next).2.2 } := by
  have hpool : ∀ k', ({ (s.setPool k (take (s.pool k) i s.next).2.1).setConn c (some cn') with
          next := (take (s.pool k) i s.next).2.2 } : State).pool k'
      = if k' = k then (take (s.pool k) i s.next).2.1 else s.pool k' := fun _ => rfl
  have hlt := take_lt (s.pool k) i s.next (h.poolLt k)
  have hle := take_le (s.pool k) i s.next
  refine inv_trans (c := c) (ocn' := some cn') h (fun d => rfl) hle ?_ ?_ ?_ ?_
    (fun cn2 e => by cases e; exact hidle) rfl (fun cn2 e => by cases e; exact hhj)
  · intro k'
    rw [hpool]
    by_cases e : k' = k
    · subst e; simp only [if_true]; exact take_nodup _ _ _ (h.nodup _)
    · simp only [e, if_false]; exact h.nodup _
  · intro k' y hy
    rw [hpool] at hy
    by_cases e : k' = k
    · subst e; simp only [if_true] at hy; exact Or.inl (take_sub _ _ _ _ hy)
    · simp only [e, if_false] at hy; exact Or.inl hy
  · intro cn2 e k' y hr
    cases e
    rcases hrefs k' y hr with ⟨_, rfl⟩ | ⟨cn, hc, hcr⟩
    · exact hlt
    · exact Nat.lt_of_lt_of_le (h.refLt c cn k' y hc hcr) hle
  · intro cn2 e k' y hy
    cases e
    rw [hpool]
    rcases hholds k' y hy with ⟨rfl, rfl⟩ | ⟨⟨cn, hc, hcx⟩, hne⟩
    · simp only [if_true]
      refine ⟨take_notMem _ _ _ (h.nodup _) (h.poolLt _), ?_⟩
      rcases take_src (s.pool k') i s.next with a | a
      · exact Or.inr (Or.inl a)
      · exact Or.inr (Or.inr (by rw [a]; exact Nat.le_refl _))
    · simp only [hne, if_false]
      exact ⟨h.notPooled c cn k' y hc hcx, Or.inl ⟨cn, hc, hcx⟩⟩

theorem inv_init : Inv init := by
  refine ⟨?_, ?_, ?_, ?_, ?_, ?_, ?_, ?_⟩ <;> intros <;> simp_all [init]

theorem inv_initK (keep : Bool) : Inv (initK keep) := by
  refine ⟨?_, ?_, ?_, ?_, ?_, ?_, ?_, ?_⟩ <;> intros <;> simp_all [initK]

/-- `Inv` does not look at the `Conn` fields of the hijack conn objects -/
theorem inv_congr {s s' : State} (hp : s'.pool = s.pool) (hc : s'.conns = s.conns) (hn : s'.next = s.next)
    (hk : s'.keepHj = s.keepHj) (h : Inv s) : Inv s' := by
  obtain ⟨a1, a2, a3, a4, a5, a6, a7, a8⟩ := h
  refine ⟨?_, ?_, ?_, ?_, ?_, ?_, ?_, ?_⟩
  · rw [hp]; exact a1
  · rw [hp, hn]; exact a2
  · rw [hc, hn]; exact a3
  · rw [hc, hp]; exact a4
  · rw [hc]; exact a5
  · rw [hc]; exact a6
  · rw [hc]; exact a7
  · rw [hc, hk]; exact a8


set_option linter.unusedSimpArgs false

/-! ## every step keeps the discipline -/

theorem inv_step (s : State) (e : Ev) (h : Inv s) (hns : ¬ staleClose s e) : Inv (step s e) := by
  cases e with
  | accept c i =>
    simp only [step]
    cases hc : s.conns c with
    | some cn => exact h
    | none =>
      simp only []
      refine inv_take (c := c) (k := .ctx) (i := i) (cn' := { phase := .idle, ctx := (take (s.pool .ctx) i s.next).1 }) h
        ?_ ?_ (fun _ => rfl) (fun x hx => by simp at hx)
      · intro k' y hr; cases k' <;> simp [Conn.ref] at hr; exact Or.inl ⟨rfl, hr.symm⟩
      · intro k' y hr; cases k' <;> simp [Conn.holds, Conn.ref] at hr; exact Or.inl ⟨rfl, hr.1.symm⟩
  | read c streamed i =>
    simp only [step]
    cases hc : s.conns c with
    | none => exact h
    | some cn =>
      simp only []
      by_cases hp : cn.phase = .idle
      · have hs : cn.stream = none := h.idleClean c cn hc hp
        rw [if_pos hp]
        cases streamed with
        | true =>
          simp only [if_true]
          refine inv_take (c := c) (k := .stream) (i := i)
            (cn' := { cn with phase := .handling, stream := some (take (s.pool .stream) i s.next).1 }) h
            ?_ ?_ (fun hq => by simp at hq) ?_
          · intro k' y hr
            cases k' <;> simp [Conn.ref] at hr
            · exact Or.inr ⟨cn, hc, by simp [Conn.ref, hr]⟩
            · exact Or.inl ⟨rfl, hr.symm⟩
            · exact Or.inr ⟨cn, hc, by simp [Conn.ref, hr]⟩
          · intro k' y hr
            cases k' <;> simp [Conn.holds, Conn.ref, Conn.owns] at hr
            · exact Or.inr ⟨⟨cn, hc, by simp [Conn.holds, Conn.ref, Conn.owns, hr]⟩, by decide⟩
            · exact Or.inl ⟨rfl, hr.symm⟩
            · exact Or.inr ⟨⟨cn, hc, by simp [Conn.holds, Conn.ref, Conn.owns, hr]⟩, by decide⟩
          · intro x hx
            have := h.hjOnly c cn x hc hx
            rw [hp] at this; rcases this with hq1 | hq1 <;> cases hq1
        | false =>
          simp only [Bool.false_eq_true, if_false]
          refine inv_upd (c := c) (ocn' := some { cn with phase := .handling }) h ?_ ?_ ?_ ?_
          · intro cn' e k y hr; cases e
            exact ⟨cn, hc, by cases k <;> simpa [Conn.ref] using hr⟩
          · intro cn' e k y hr; cases e
            refine ⟨cn, hc, ?_⟩
            cases k <;> simp [Conn.holds, Conn.ref, Conn.owns, hs] at hr ⊢ <;> exact hr
          · intro cn' e hq; cases e; simp at hq
          · intro cn' e x hx; cases e
            have := h.hjOnly c cn x hc hx
            rw [hp] at this; rcases this with hq1 | hq1 <;> cases hq1
      · rw [if_neg hp]; exact h
  | readFail c =>
    simp only [step]
    cases hc : s.conns c with
    | none => exact h
    | some cn =>
      simp only []
      by_cases hp : cn.phase = .idle
      · have hs : cn.stream = none := h.idleClean c cn hc hp
        rw [if_pos hp]
        refine inv_upd (c := c) (ocn' := some { cn with phase := .ret .readErr }) h ?_ ?_ ?_ ?_
        · intro cn' e k y hr; cases e
          exact ⟨cn, hc, by cases k <;> simpa [Conn.ref] using hr⟩
        · intro cn' e k y hr; cases e
          refine ⟨cn, hc, ?_⟩
          cases k <;> simp [Conn.holds, Conn.ref, Conn.owns, hs] at hr ⊢ <;> exact hr
        · intro cn' e hq; cases e; simp at hq
        · intro cn' e x hx; cases e
          have := h.hjOnly c cn x hc hx
          rw [hp] at this; rcases this with hq1 | hq1 <;> cases hq1
      · rw [if_neg hp]; exact h
  | handle c exile e =>
    simp only [step]
    cases hc : s.conns c with
    | none => exact h
    | some cn =>
      simp only []
      by_cases hp : cn.phase = .handling
      · rw [if_pos hp]
        have hjn : ∀ x, cn.hj = some x → False := fun x hx => by
          have := h.hjOnly c cn x hc hx
          rw [hp] at this; rcases this with hq1 | hq1 <;> cases hq1
        cases e <;> simp only [] <;> refine inv_upd (c := c) h
          (fun cn' e k y hr => by cases e; exact ⟨cn, hc, by cases k <;> simp_all [Conn.ref]⟩)
          (fun cn' e k y hr => by
            cases e; refine ⟨cn, hc, ?_⟩
            cases k <;> simp_all [Conn.holds, Conn.ref, Conn.owns, RetSite.streamLive])
          (fun cn' e hq => by cases e; simp_all)
          (fun cn' e x hx => by cases e; exact (hjn x hx).elim)
      · rw [if_neg hp]; exact h
  | respond c ok skipErr =>
    simp only [step]
    cases hc : s.conns c with
    | none => exact h
    | some cn =>
      simp only []
      by_cases hp : cn.phase = .handling
      · rw [if_pos hp]
        have hjn : ∀ x, cn.hj = some x → False := fun x hx => by
          have := h.hjOnly c cn x hc hx
          rw [hp] at this; rcases this with hq1 | hq1 <;> cases hq1
        cases ok with
        | false =>
          simp only [Bool.false_eq_true, if_false]
          refine inv_upd (c := c) h ?_ ?_ ?_ ?_
          · intro cn' e k y hr; cases e
            exact ⟨cn, hc, by cases k <;> simp_all [Conn.ref]⟩
          · intro cn' e k y hr; cases e
            refine ⟨cn, hc, ?_⟩; cases k <;> simp_all [Conn.holds, Conn.ref, Conn.owns, RetSite.streamLive]
          · intro cn' e hq; cases e; simp at hq
          · intro cn' e x hx; cases e; exact (hjn x hx).elim
        | true =>
          simp only [if_true]
          cases hst : cn.stream with
          | none =>
            simp only []
            refine inv_upd (c := c) h ?_ ?_ ?_ ?_
            · intro cn' e k y hr; cases e
              exact ⟨cn, hc, by cases k <;> simp_all [Conn.ref]⟩
            · intro cn' e k y hr; cases e
              refine ⟨cn, hc, ?_⟩; cases k <;> simp_all [Conn.holds, Conn.ref, Conn.owns]
            · intro cn' e hq; cases e; simp at hq
            · intro cn' e x hx; cases e; exact (hjn x hx).elim
          | some x =>
            simp only []
            refine inv_put (c := c) (k := .stream) (x := x) h ⟨cn, hc, by simp [Conn.holds, Conn.ref, Conn.owns, hst, hp]⟩ ?_ ?_ ?_ ?_
            · intro cn' e k y hr; cases e
              exact ⟨cn, hc, by cases k <;> simp_all [Conn.ref]⟩
            · intro cn' e k y hr; cases e
              cases skipErr <;> cases k <;>
                simp_all [Conn.holds, Conn.ref, Conn.owns, RetSite.streamLive, oldH]
            · intro cn' e hq; cases e; cases skipErr <;> simp at hq
            · intro cn' e x hx; cases e; exact (hjn x hx).elim
      · rw [if_neg hp]; exact h
  | after c e i =>
    simp only [step]
    cases hc : s.conns c with
    | none => exact h
    | some cn =>
      simp only []
      by_cases hp : cn.phase = .released
      · rw [if_pos hp]
        have hjn : ∀ x, cn.hj = some x → False := fun x hx => by
          have := h.hjOnly c cn x hc hx
          rw [hp] at this; rcases this with hq1 | hq1 <;> cases hq1
        cases e with
        | hijack =>
          simp only []
          refine inv_congr (s := { (s.setPool .hjconn (take (s.pool .hjconn) i s.next).2.1).setConn c
              (some { cn with phase := .hijacking, hj := some (take (s.pool .hjconn) i s.next).1, hjLive := true }) with
              next := (take (s.pool .hjconn) i s.next).2.2 }) rfl rfl rfl rfl ?_
          refine inv_take (c := c) (k := .hjconn) (i := i)
            (cn' := { cn with phase := .hijacking, hj := some (take (s.pool .hjconn) i s.next).1, hjLive := true }) h
            ?_ ?_ (fun hq => by simp at hq) (fun _ _ => ⟨Or.inl rfl, fun hl => by simp at hl⟩)
          · intro k' y hr
            cases k' <;> simp [Conn.ref] at hr
            · exact Or.inr ⟨cn, hc, by simp [Conn.ref, hr]⟩
            · exact Or.inr ⟨cn, hc, by simp [Conn.ref, hr]⟩
            · exact Or.inl ⟨rfl, hr.symm⟩
          · intro k' y hr
            cases k' <;> simp [Conn.holds, Conn.ref, Conn.owns] at hr
            · exact Or.inr ⟨⟨cn, hc, by simp [Conn.holds, Conn.ref, Conn.owns, hr]⟩, by decide⟩
            · exact Or.inl ⟨rfl, hr.symm⟩
        | close =>
          simp only []
          exact inv_upd (c := c) h
            (fun cn' e k y hr => by cases e; exact ⟨cn, hc, by cases k <;> simp_all [Conn.ref]⟩)
            (fun cn' e k y hr => by
              cases e; refine ⟨cn, hc, ?_⟩
              cases k <;> simp_all [Conn.holds, Conn.ref, Conn.owns, RetSite.streamLive])
            (fun cn' e hq => by cases e; simp at hq)
            (fun cn' e x hx => by cases e; exact (hjn x hx).elim)
        | idle0 =>
          simp only []
          exact inv_upd (c := c) h
            (fun cn' e k y hr => by cases e; exact ⟨cn, hc, by cases k <;> simp_all [Conn.ref]⟩)
            (fun cn' e k y hr => by
              cases e; refine ⟨cn, hc, ?_⟩
              cases k <;> simp_all [Conn.holds, Conn.ref, Conn.owns, RetSite.streamLive])
            (fun cn' e hq => by cases e; simp at hq)
            (fun cn' e x hx => by cases e; exact (hjn x hx).elim)
        | keepAlive =>
          simp only []
          exact inv_upd (c := c) h
            (fun cn' e k y hr => by cases e; exact ⟨cn, hc, by cases k <;> simp_all [Conn.ref]⟩)
            (fun cn' e k y hr => by
              cases e; refine ⟨cn, hc, ?_⟩
              cases k <;> simp_all [Conn.holds, Conn.ref, Conn.owns, RetSite.streamLive])
            (fun cn' e hq => by cases e; rfl)
            (fun cn' e x hx => by cases e; exact (hjn x hx).elim)
      · rw [if_neg hp]; exact h
  | userClose c =>
    simp only [step]
    cases hc : s.conns c with
    | none => exact h
    | some cn =>
      simp only []
      by_cases hp : cn.phase = .hijacking ∨ cn.phase = .ret .hijacked
      · rw [if_pos hp]
        cases hh : cn.hj with
        | none => exact h
        | some x =>
          simp only []
          by_cases hk : (s.keepHj && s.hjSet x) = true
          · rw [if_pos hk]
            have hk' : s.keepHj = true ∧ s.hjSet x = true := by simpa using hk
            have hl : cn.hjLive = true := by
              cases hl : cn.hjLive with
              | true => rfl
              | false => exact (hns ⟨cn, x, hc, hh, hl, hk'.2, hk'.1, hp⟩).elim
            refine inv_congr (s := (s.put .hjconn x).setConn c (some { cn with hj := some x, hjLive := false })) rfl rfl rfl rfl ?_
            refine inv_put (c := c) (k := .hjconn) (x := x) h ⟨cn, hc, by simp [Conn.holds, Conn.ref, Conn.owns, hh, hl]⟩ ?_ ?_ ?_ ?_
            · intro cn' e k y hr; cases e
              exact ⟨cn, hc, by cases k <;> simp_all [Conn.ref]⟩
            · intro cn' e k y hr; cases e
              cases k <;> simp_all [Conn.holds, Conn.ref, Conn.owns, oldH]
            · intro cn' e hq; cases e
              rcases hp with hp | hp <;> simp_all
            · intro cn' e y hy; cases e
              exact ⟨hp, fun _ => hk'.1⟩
          · rw [if_neg hk]; exact h
      · rw [if_neg hp]; exact h
  | hijackEnd c =>
    simp only [step]
    cases hc : s.conns c with
    | none => exact h
    | some cn =>
      simp only []
      by_cases hp : cn.phase = .hijacking
      · rw [if_pos hp]
        cases hh : cn.hj with
        | none =>
          simp only []
          exact inv_upd (c := c) h
            (fun cn' e k y hr => by cases e; exact ⟨cn, hc, by cases k <;> simp_all [Conn.ref]⟩)
            (fun cn' e k y hr => by
              cases e; refine ⟨cn, hc, ?_⟩
              cases k <;> simp_all [Conn.holds, Conn.ref, Conn.owns, RetSite.streamLive])
            (fun cn' e hq => by cases e; simp at hq)
            (fun cn' e y hy => by cases e; simp [hh] at hy)
        | some x =>
          simp only []
          by_cases hk : s.keepHj = true
          · rw [if_pos hk]
            exact inv_upd (c := c) h
              (fun cn' e k y hr => by cases e; exact ⟨cn, hc, by cases k <;> simp_all [Conn.ref]⟩)
              (fun cn' e k y hr => by
                cases e; refine ⟨cn, hc, ?_⟩
                cases k <;> simp_all [Conn.holds, Conn.ref, Conn.owns, RetSite.streamLive])
              (fun cn' e hq => by cases e; simp at hq)
              (fun cn' e y hy => by cases e; exact ⟨Or.inr rfl, fun _ => hk⟩)
          · rw [if_neg hk]
            have hl : cn.hjLive = true := by
              cases hl : cn.hjLive with
              | true => rfl
              | false => exact (hk (h.liveUnlessKeep c cn x hc hh hl)).elim
            refine inv_congr (s := (s.put .hjconn x).setConn c
              (some { cn with phase := .ret .hijacked, hj := none, hjLive := false })) rfl rfl rfl rfl ?_
            refine inv_put (c := c) (k := .hjconn) (x := x) h ⟨cn, hc, by simp [Conn.holds, Conn.ref, Conn.owns, hh, hl]⟩ ?_ ?_ ?_ ?_
            · intro cn' e k y hr; cases e
              exact ⟨cn, hc, by cases k <;> simp_all [Conn.ref]⟩
            · intro cn' e k y hr; cases e
              cases k <;> simp_all [Conn.holds, Conn.ref, Conn.owns, RetSite.streamLive, oldH]
            · intro cn' e hq; cases e; simp at hq
            · intro cn' e y hy; cases e; simp at hy
      · rw [if_neg hp]; exact h
  | finish c =>
    simp only [step]
    cases hc : s.conns c with
    | none => exact h
    | some cn =>
      simp only []
      have hrem : Inv (s.setConn c none) :=
        inv_upd (c := c) h (fun cn' e => by cases e) (fun cn' e => by cases e) (fun cn' e => by cases e)
          (fun cn' e => by cases e)
      cases hph : cn.phase with
      | ret r =>
        simp only []
        by_cases hx : cn.exiled = true
        · rw [if_pos hx]; exact hrem
        · rw [if_neg hx]
          exact inv_put (c := c) (k := .ctx) (x := cn.ctx) h ⟨cn, hc, by simp [Conn.holds, Conn.ref, Conn.owns]⟩
            (fun cn' e => by cases e) (fun cn' e => by cases e) (fun cn' e => by cases e) (fun cn' e => by cases e)
      | idle => exact h
      | handling => exact h
      | released => exact h
      | hijacking => exact h

theorem inv_run (s : State) (es : List Ev) (h : Inv s) (hs : NoStale s es) : Inv (run s es) := by
  induction es generalizing s with
  | nil => exact h
  | cons e es ih => exact ih _ (inv_step s e h hs.1) hs.2

/-! ## no silent loss -/

theorem take_keep (l : List Nat) (i next y : Nat) (h : y ∈ l) : y ∈ (take l i next).2.1 ∨ y = (take l i next).1 := by
  unfold take; split
  · rename_i x hx
    obtain ⟨j, hj⟩ := List.getElem?_of_mem h
    by_cases e : j = i
    · subst e; rw [hj] at hx; exact Or.inr (Option.some.inj hx)
    · exact Or.inl (List.mem_eraseIdx_iff_getElem?.mpr ⟨j, e, hj⟩)
  · exact Or.inl h

theorem tracked_trans {s s' : State} {c : Nat} {ocn' : Option Conn} {D : Kind → Nat → Prop}
    (hcs : ∀ d, s'.conns d = if d = c then ocn' else s.conns d)
    (hpool : ∀ k y, y ∈ s.pool k → y ∈ s'.pool k ∨ ∃ cn', ocn' = some cn' ∧ cn'.holds k y)
    (hheld : ∀ cn, s.conns c = some cn → ∀ k y, cn.holds k y →
      y ∈ s'.pool k ∨ (∃ cn', ocn' = some cn' ∧ cn'.holds k y) ∨ D k y)
    (k : Kind) (x : Nat) (ht : tracked s k x) : tracked s' k x ∨ D k x := by
  have atc : ∀ cn', ocn' = some cn' → s'.conns c = some cn' := fun cn' e => by rw [hcs]; simp [e]
  rcases ht with hp | ⟨d, dn, hd, hx⟩
  · rcases hpool k x hp with a | ⟨cn', e, a⟩
    · exact Or.inl (Or.inl a)
    · exact Or.inl (Or.inr ⟨c, cn', atc cn' e, a⟩)
  · by_cases e : d = c
    · subst e
      rcases hheld dn hd k x hx with a | ⟨cn', e, a⟩ | a
      · exact Or.inl (Or.inl a)
      · exact Or.inl (Or.inr ⟨d, cn', atc cn' e, a⟩)
      · exact Or.inr a
    · refine Or.inl (Or.inr ⟨d, dn, ?_, hx⟩)
      rw [hcs]; simp [e, hd]

theorem tracked_step (s : State) (e : Ev) (k : Kind) (x : Nat) (h : Inv s) (ht : tracked s k x) :
    tracked (step s e) k x ∨ deliberate s e k x := by
  cases e with
  | accept c i =>
    simp only [step]
    cases hc : s.conns c with
    | some cn => exact Or.inl ht
    | none =>
      simp only []
      refine tracked_trans (s := s) (c := c) (ocn' := some { phase := .idle, ctx := (take (s.pool .ctx) i s.next).1 })
        (D := fun k y => deliberate s (.accept c i) k y) ?_ ?_ (fun cn e => by rw [hc] at e; cases e) k x ht
      · intro d; rfl
      intro k' y hy
      cases k'
      · rcases take_keep _ i s.next y hy with a | a
        · exact Or.inl a
        · exact Or.inr ⟨_, rfl, by simp [Conn.holds, Conn.ref, Conn.owns, a]⟩
      · exact Or.inl hy
      · exact Or.inl hy
  | read c streamed i =>
    simp only [step]
    cases hc : s.conns c with
    | none => exact Or.inl ht
    | some cn =>
      simp only []
      by_cases hp : cn.phase = .idle
      · rw [if_pos hp]
        cases streamed with
        | true =>
          simp only [if_true]
          refine tracked_trans (s := s) (c := c)
            (ocn' := some { cn with phase := .handling, stream := some (take (s.pool .stream) i s.next).1 })
            (D := fun k y => deliberate s (.read c true i) k y) ?_ ?_ ?_ k x ht
          · intro d; rfl
          · intro k' y hy
            cases k'
            · exact Or.inl hy
            · rcases take_keep _ i s.next y hy with a | a
              · exact Or.inl a
              · exact Or.inr ⟨_, rfl, by simp [Conn.holds, Conn.ref, Conn.owns, a]⟩
            · exact Or.inl hy
          · intro cn0 e k' y hy; rw [hc] at e; cases e
            refine Or.inr (Or.inl ⟨_, rfl, ?_⟩)
            cases k' <;> simp_all [Conn.holds, Conn.ref, Conn.owns]
        | false =>
          simp only [Bool.false_eq_true, if_false]
          refine tracked_trans (s := s) (c := c) (ocn' := some { cn with phase := .handling })
            (D := fun k y => deliberate s (.read c false i) k y) ?_ ?_ ?_ k x ht
          · intro d; rfl
          · exact fun k y hy => Or.inl hy
          · intro cn0 e k' y hy; rw [hc] at e; cases e
            refine Or.inr (Or.inl ⟨_, rfl, ?_⟩)
            cases k' <;> simp_all [Conn.holds, Conn.ref, Conn.owns]
      · rw [if_neg hp]; exact Or.inl ht
  | readFail c =>
    simp only [step]
    cases hc : s.conns c with
    | none => exact Or.inl ht
    | some cn =>
      simp only []
      by_cases hp : cn.phase = .idle
      · rw [if_pos hp]
        refine tracked_trans (s := s) (c := c) (ocn' := some { cn with phase := .ret .readErr })
          (D := fun k y => deliberate s (.readFail c) k y) ?_ ?_ ?_ k x ht
        · intro d; rfl
        · exact fun k y hy => Or.inl hy
        · intro cn0 e k' y hy; rw [hc] at e; cases e
          refine Or.inr (Or.inl ⟨_, rfl, ?_⟩)
          cases k' <;> simp_all [Conn.holds, Conn.ref, Conn.owns]
      · rw [if_neg hp]; exact Or.inl ht
  | handle c exile e =>
    simp only [step]
    cases hc : s.conns c with
    | none => exact Or.inl ht
    | some cn =>
      simp only []
      by_cases hp : cn.phase = .handling
      · rw [if_pos hp]
        cases e <;> simp only []
        · refine tracked_trans (s := s) (c := c) (ocn' := some { cn with exiled := cn.exiled || exile })
            (D := fun k y => deliberate s (.handle c exile .returned) k y) ?_ ?_ ?_ k x ht
          · intro d; rfl
          · exact fun k y hy => Or.inl hy
          · intro cn0 e k' y hy; rw [hc] at e; cases e
            refine Or.inr (Or.inl ⟨_, rfl, ?_⟩)
            cases k' <;> simp_all [Conn.holds, Conn.ref, Conn.owns]
        · refine tracked_trans (s := s) (c := c) (ocn' := some { cn with exiled := cn.exiled || exile, phase := .ret .panicked })
            (D := fun k y => deliberate s (.handle c exile .panicked) k y) ?_ ?_ ?_ k x ht
          · intro d; rfl
          · exact fun k y hy => Or.inl hy
          · intro cn0 e k' y hy; rw [hc] at e; cases e
            refine Or.inr (Or.inl ⟨_, rfl, ?_⟩)
            cases k' <;> simp_all [Conn.holds, Conn.ref, Conn.owns, RetSite.streamLive]
      · rw [if_neg hp]; exact Or.inl ht
  | respond c ok skipErr =>
    simp only [step]
    cases hc : s.conns c with
    | none => exact Or.inl ht
    | some cn =>
      simp only []
      by_cases hp : cn.phase = .handling
      · rw [if_pos hp]
        cases ok with
        | false =>
          simp only [Bool.false_eq_true, if_false]
          refine tracked_trans (s := s) (c := c) (ocn' := some { cn with phase := .ret .writeFail })
            (D := fun k y => deliberate s (.respond c false skipErr) k y) ?_ ?_ ?_ k x ht
          · intro d; rfl
          · exact fun k y hy => Or.inl hy
          · intro cn0 e k' y hy; rw [hc] at e; cases e
            refine Or.inr (Or.inl ⟨_, rfl, ?_⟩)
            cases k' <;> simp_all [Conn.holds, Conn.ref, Conn.owns, RetSite.streamLive]
        | true =>
          simp only [if_true]
          cases hst : cn.stream with
          | none =>
            simp only []
            refine tracked_trans (s := s) (c := c) (ocn' := some { cn with phase := .released })
              (D := fun k y => deliberate s (.respond c true skipErr) k y) ?_ ?_ ?_ k x ht
            · intro d; simp only [hst]; rfl
            · exact fun k y hy => Or.inl hy
            · intro cn0 e k' y hy; rw [hc] at e; cases e
              refine Or.inr (Or.inl ⟨_, rfl, ?_⟩)
              cases k' <;> simp_all [Conn.holds, Conn.ref, Conn.owns]
          | some z =>
            simp only []
            refine tracked_trans (s := s) (c := c)
              (ocn' := some { cn with phase := if skipErr = true then .ret .releaseErr else .released })
              (D := fun k y => deliberate s (.respond c true skipErr) k y) ?_ ?_ ?_ k x ht
            · intro d; simp only [hst]; rfl
            · intro k' y hy
              refine Or.inl ?_
              cases k' <;> simp [State.put, State.setPool, State.setConn, hy]
            · intro cn0 e k' y hy; rw [hc] at e; cases e
              cases k'
              · refine Or.inr (Or.inl ⟨_, rfl, ?_⟩)
                simp_all [Conn.holds, Conn.ref, Conn.owns]
              · refine Or.inl ?_
                simp_all [Conn.holds, Conn.ref, Conn.owns, State.put, State.setPool, State.setConn]
              · refine Or.inr (Or.inl ⟨_, rfl, ?_⟩)
                simp_all [Conn.holds, Conn.ref, Conn.owns]
      · rw [if_neg hp]; exact Or.inl ht
  | after c e i =>
    simp only [step]
    cases hc : s.conns c with
    | none => exact Or.inl ht
    | some cn =>
      simp only []
      by_cases hp : cn.phase = .released
      · rw [if_pos hp]
        cases e with
        | hijack =>
          simp only []
          refine tracked_trans (s := s) (c := c)
            (ocn' := some { cn with phase := .hijacking, hj := some (take (s.pool .hjconn) i s.next).1, hjLive := true })
            (D := fun k y => deliberate s (.after c .hijack i) k y) ?_ ?_ ?_ k x ht
          · intro d; rfl
          · intro k' y hy
            cases k'
            · exact Or.inl hy
            · exact Or.inl hy
            · rcases take_keep _ i s.next y hy with a | a
              · exact Or.inl a
              · exact Or.inr ⟨_, rfl, by simp [Conn.holds, Conn.ref, Conn.owns, a]⟩
          · intro cn0 e k' y hy; rw [hc] at e; cases e
            have hjn : cn.hj = none := by
              cases hh : cn.hj with
              | none => rfl
              | some z => have := h.hjOnly c cn z hc hh; rw [hp] at this; rcases this with hq1 | hq1 <;> cases hq1
            refine Or.inr (Or.inl ⟨_, rfl, ?_⟩)
            cases k' <;> simp_all [Conn.holds, Conn.ref, Conn.owns]
        | close =>
          simp only []
          refine tracked_trans (s := s) (c := c) (ocn' := some { cn with phase := .ret .shortConn })
            (D := fun k y => deliberate s (.after c .close i) k y) ?_ ?_ ?_ k x ht
          · intro d; rfl
          · exact fun k y hy => Or.inl hy
          · intro cn0 e k' y hy; rw [hc] at e; cases e
            refine Or.inr (Or.inl ⟨_, rfl, ?_⟩)
            cases k' <;> simp_all [Conn.holds, Conn.ref, Conn.owns]
        | idle0 =>
          simp only []
          refine tracked_trans (s := s) (c := c) (ocn' := some { cn with phase := .ret .idle0 })
            (D := fun k y => deliberate s (.after c .idle0 i) k y) ?_ ?_ ?_ k x ht
          · intro d; rfl
          · exact fun k y hy => Or.inl hy
          · intro cn0 e k' y hy; rw [hc] at e; cases e
            refine Or.inr (Or.inl ⟨_, rfl, ?_⟩)
            cases k' <;> simp_all [Conn.holds, Conn.ref, Conn.owns]
        | keepAlive =>
          simp only []
          refine tracked_trans (s := s) (c := c) (ocn' := some { cn with phase := .idle, stream := none })
            (D := fun k y => deliberate s (.after c .keepAlive i) k y) ?_ ?_ ?_ k x ht
          · intro d; rfl
          · exact fun k y hy => Or.inl hy
          · intro cn0 e k' y hy; rw [hc] at e; cases e
            refine Or.inr (Or.inl ⟨_, rfl, ?_⟩)
            cases k' <;> simp_all [Conn.holds, Conn.ref, Conn.owns]
      · rw [if_neg hp]; exact Or.inl ht
  | userClose c =>
    simp only [step]
    cases hc : s.conns c with
    | none => exact Or.inl ht
    | some cn =>
      simp only []
      by_cases hp : cn.phase = .hijacking ∨ cn.phase = .ret .hijacked
      · rw [if_pos hp]
        cases hh : cn.hj with
        | none => exact Or.inl ht
        | some z =>
          simp only []
          by_cases hk : (s.keepHj && s.hjSet z) = true
          · rw [if_pos hk]
            refine tracked_trans (s := s) (c := c) (ocn' := some { cn with hj := some z, hjLive := false })
              (D := fun k y => deliberate s (.userClose c) k y) ?_ ?_ ?_ k x ht
            · intro d; rfl
            · intro k' y hy
              refine Or.inl ?_
              cases k' <;> simp [State.put, State.setPool, State.setConn, State.setHj, hy]
            · intro cn0 e k' y hy; rw [hc] at e; cases e
              cases k'
              · refine Or.inr (Or.inl ⟨_, rfl, ?_⟩); simp_all [Conn.holds, Conn.ref, Conn.owns]
              · refine Or.inr (Or.inl ⟨_, rfl, ?_⟩); simp_all [Conn.holds, Conn.ref, Conn.owns]
              · refine Or.inl ?_
                simp_all [Conn.holds, Conn.ref, Conn.owns, State.put, State.setPool, State.setConn, State.setHj]
          · rw [if_neg hk]; exact Or.inl ht
      · rw [if_neg hp]; exact Or.inl ht
  | hijackEnd c =>
    simp only [step]
    cases hc : s.conns c with
    | none => exact Or.inl ht
    | some cn =>
      simp only []
      by_cases hp : cn.phase = .hijacking
      · rw [if_pos hp]
        cases hh : cn.hj with
        | none =>
          simp only []
          refine tracked_trans (s := s) (c := c) (ocn' := some { cn with phase := .ret .hijacked, hj := none })
            (D := fun k y => deliberate s (.hijackEnd c) k y) ?_ ?_ ?_ k x ht
          · intro d; rfl
          · exact fun k y hy => Or.inl hy
          · intro cn0 e k' y hy; rw [hc] at e; cases e
            refine Or.inr (Or.inl ⟨_, rfl, ?_⟩)
            cases k' <;> simp_all [Conn.holds, Conn.ref, Conn.owns]
        | some z =>
          simp only []
          by_cases hk : s.keepHj = true
          · rw [if_pos hk]
            refine tracked_trans (s := s) (c := c) (ocn' := some { cn with phase := .ret .hijacked, hj := some z })
              (D := fun k y => deliberate s (.hijackEnd c) k y) ?_ ?_ ?_ k x ht
            · intro d; rfl
            · exact fun k y hy => Or.inl hy
            · intro cn0 e k' y hy; rw [hc] at e; cases e
              refine Or.inr (Or.inl ⟨_, rfl, ?_⟩)
              cases k' <;> simp_all [Conn.holds, Conn.ref, Conn.owns]
          · rw [if_neg hk]
            refine tracked_trans (s := s) (c := c)
              (ocn' := some { cn with phase := .ret .hijacked, hj := none, hjLive := false })
              (D := fun k y => deliberate s (.hijackEnd c) k y) ?_ ?_ ?_ k x ht
            · intro d; rfl
            · intro k' y hy
              refine Or.inl ?_
              cases k' <;> simp [State.put, State.setPool, State.setConn, State.setHj, hy]
            · intro cn0 e k' y hy; rw [hc] at e; cases e
              cases k'
              · refine Or.inr (Or.inl ⟨_, rfl, ?_⟩); simp_all [Conn.holds, Conn.ref, Conn.owns]
              · refine Or.inr (Or.inl ⟨_, rfl, ?_⟩); simp_all [Conn.holds, Conn.ref, Conn.owns]
              · refine Or.inl ?_
                simp_all [Conn.holds, Conn.ref, Conn.owns, State.put, State.setPool, State.setConn, State.setHj]
      · rw [if_neg hp]; exact Or.inl ht
  | finish c =>
    simp only [step]
    cases hc : s.conns c with
    | none => exact Or.inl ht
    | some cn =>
      simp only []
      cases hph : cn.phase with
      | ret r =>
        simp only []
        by_cases hx : cn.exiled = true
        · rw [if_pos hx]
          refine tracked_trans (s := s) (c := c) (ocn' := none)
            (D := fun k y => deliberate s (.finish c) k y) ?_ ?_ ?_ k x ht
          · intro d; rfl
          · exact fun k y hy => Or.inl hy
          · intro cn0 e k' y hy; rw [hc] at e; cases e
            have hst : k' = .stream → cn.phase = .ret .writeFail ∨ cn.phase = .ret .panicked := by
              intro ek; subst ek
              have ho := hy.2
              simp only [Conn.owns, hph] at ho
              cases r <;> simp_all [RetSite.streamLive]
            cases k'
            · exact Or.inr (Or.inr ⟨cn, hc, hy, Or.inl ⟨rfl, hx⟩⟩)
            · exact Or.inr (Or.inr ⟨cn, hc, hy, Or.inr (Or.inl ⟨rfl, hst rfl⟩)⟩)
            · exact Or.inr (Or.inr ⟨cn, hc, hy, Or.inr (Or.inr rfl)⟩)
        · rw [if_neg hx]
          refine tracked_trans (s := s) (c := c) (ocn' := none)
            (D := fun k y => deliberate s (.finish c) k y) ?_ ?_ ?_ k x ht
          · intro d; rfl
          · intro k' y hy
            refine Or.inl ?_
            cases k' <;> simp [State.put, State.setPool, State.setConn, hy]
          · intro cn0 e k' y hy; rw [hc] at e; cases e
            have hst : k' = .stream → cn.phase = .ret .writeFail ∨ cn.phase = .ret .panicked := by
              intro ek; subst ek
              have ho := hy.2
              simp only [Conn.owns, hph] at ho
              cases r <;> simp_all [RetSite.streamLive]
            cases k'
            · refine Or.inl ?_
              simp_all [Conn.holds, Conn.ref, State.put, State.setPool, State.setConn]
            · exact Or.inr (Or.inr ⟨cn, hc, hy, Or.inr (Or.inl ⟨rfl, hst rfl⟩)⟩)
            · exact Or.inr (Or.inr ⟨cn, hc, hy, Or.inr (Or.inr rfl)⟩)
      | idle => exact Or.inl ht
      | handling => exact Or.inl ht
      | released => exact Or.inl ht
      | hijacking => exact Or.inl ht
/-! ## the user's `Close` calls -/

theorem step_keepHj (s : State) (e : Ev) : (step s e).keepHj = s.keepHj := by
  cases e <;> simp only [step] <;> (repeat' split) <;> rfl

theorem userClose_cases (s : State) (c : Nat) : step s (.userClose c) = s ∨
    ∃ (cn : Conn) (x : Nat), (cn.phase = .hijacking ∨ cn.phase = .ret .hijacked) ∧ cn.hj = some x ∧
      step s (.userClose c) = ((s.put .hjconn x).setHj x false).setConn c (some { cn with hjLive := false }) := by
  simp only [step]
  cases hc : s.conns c with
  | none => exact Or.inl rfl
  | some cn =>
    simp only []
    by_cases hp : cn.phase = .hijacking ∨ cn.phase = .ret .hijacked
    · rw [if_pos hp]
      cases hh : cn.hj with
      | none => exact Or.inl rfl
      | some x =>
        simp only []
        by_cases hk : (s.keepHj && s.hjSet x) = true
        · rw [if_pos hk]; exact Or.inr ⟨cn, x, hp, hh, by rw [hh]⟩
        · rw [if_neg hk]; exact Or.inl rfl
    · rw [if_neg hp]; exact Or.inl rfl

theorem close_idem (s : State) (c : Nat) : step (step s (.userClose c)) (.userClose c) = step s (.userClose c) := by
  rcases userClose_cases s c with h | ⟨cn, x, hp, hh, h⟩
  · rw [h, h]
  · rw [h]
    simp [step, State.setConn, State.setHj, State.put, State.setPool, hp, hh]

theorem not_stale_of_not_keep (s : State) (e : Ev) (hk : s.keepHj = false) : ¬ staleClose s e := by
  cases e <;> simp only [staleClose, not_false_eq_true]
  rintro ⟨cn, x, _, _, _, _, h, _⟩
  rw [hk] at h; cases h

theorem noStale_of_not_keep (s : State) (es : List Ev) (hk : s.keepHj = false) : NoStale s es := by
  induction es generalizing s with
  | nil => trivial
  | cons e es ih => exact ⟨not_stale_of_not_keep s e hk, ih _ (by rw [step_keepHj]; exact hk)⟩

end Hertz.PoolOwn
