import Hertz.Model.HeaderWrite
import Hertz.Spec.Head
namespace Hertz.HW
open Hertz Hertz.Gen.Str Hertz.Spec.Head

set_option maxRecDepth 100000 in
theorem tbl_name_clean :
    allBytes (fun c => tget Gen.validHeaderFieldNameTable c == 0 || (c != 13 && c != 10 && c != 58 && c != 32)) = true := by
  decide +kernel

set_option maxRecDepth 100000 in
theorem tbl_newline_clean :
    allBytes (fun c => tget Gen.newlineToSpaceTable c != 13 && tget Gen.newlineToSpaceTable c != 10) = true := by
  decide +kernel

theorem validName_clean (k : Bytes) (h : validName k = true) : ∀ x ∈ k, x ≠ 13 ∧ x ≠ 10 ∧ x ≠ 58 := by
  intro x hx
  have hv : tget Gen.validHeaderFieldNameTable x ≠ 0 := by
    have := List.all_eq_true.mp h x hx
    simpa using this
  have := allBytes_spec tbl_name_clean x
  simp [hv] at this
  exact ⟨this.1.1.1, this.1.1.2, this.1.2⟩

theorem newlineToSpace_clean (v : Bytes) : ∀ x ∈ newlineToSpace v, x ≠ 13 ∧ x ≠ 10 := by
  intro x hx
  simp only [newlineToSpace, List.mem_map] at hx
  obtain ⟨c, _, rfl⟩ := hx
  have := allBytes_spec tbl_newline_clean c
  simpa using this

theorem crlfLine_append : ∀ (l rest : Bytes), (∀ x ∈ l, x ≠ 13 ∧ x ≠ 10) →
    crlfLine (l ++ 13 :: 10 :: rest) = some (l, rest)
  | [], rest, _ => by simp [crlfLine]
  | [c], rest, h => by
    have hc := h c (by simp)
    simp [crlfLine, hc.1, hc.2]
  | c :: d :: t, rest, h => by
    have hc := h c (by simp)
    have ih := crlfLine_append (d :: t) rest (fun x hx => h x (by simp [hx]))
    simp only [List.cons_append] at ih ⊢
    simp [crlfLine, hc.1, hc.2, ih]

theorem splitField_append : ∀ (k v : Bytes), (∀ x ∈ k, x ≠ 58) →
    splitField (k ++ 58 :: 32 :: v) = some (k, v)
  | [], v, _ => by simp [splitField]
  | [c], v, h => by
    have hc := h c (by simp)
    simp [splitField, hc]
  | c :: d :: t, v, h => by
    have hc := h c (by simp)
    have ih := splitField_append (d :: t) v (fun x hx => h x (by simp [hx]))
    simp only [List.cons_append] at ih ⊢
    simp [splitField, hc, ih]

/-! ### `appendRequestLinePart` (/repo 910b0dd) -/

theorem reqLineTail_id : ∀ (p : Bytes), (∀ x ∈ p, lineSpecial x = false) → reqLineTail p = p
  | [], _ => rfl
  | c :: t, h => by
    have hc := h c (by simp)
    have ih := reqLineTail_id t (fun x hx => h x (by simp [hx]))
    simp [reqLineTail, hc, ih]

/-- the fast path changes nothing: the result is the byte-by-byte encoding of the whole part -/
theorem reqLinePart_eq : ∀ (p : Bytes), reqLinePart p = reqLineTail p
  | [] => rfl
  | c :: t => by
    cases hc : lineSpecial c with
    | true => simp [reqLinePart, List.takeWhile, List.dropWhile, hc]
    | false =>
      have ih := reqLinePart_eq t
      simp only [reqLinePart] at ih
      simp [reqLinePart, List.takeWhile, List.dropWhile, hc, reqLineTail, ih]

/-- a part without SP, CR, LF is written as it is -/
theorem reqLinePart_id (p : Bytes) (h : ∀ x ∈ p, lineSpecial x = false) : reqLinePart p = p := by
  rw [reqLinePart_eq]; exact reqLineTail_id p h

set_option maxRecDepth 100000 in
theorem tbl_hex_line : allBytes (fun c => !lineSpecial (upperhex (c >>> 4)) && !lineSpecial (upperhex (c &&& 15))) = true := by
  decide +kernel

/-- whatever the part holds, what is written has no SP, CR, LF -/
theorem reqLineTail_clean : ∀ (p : Bytes), ∀ x ∈ reqLineTail p, lineSpecial x = false
  | [], x, hx => by cases hx
  | c :: t, x, hx => by
    simp only [reqLineTail, List.mem_append] at hx
    rcases hx with hx | hx
    · cases hc : lineSpecial c with
      | true =>
        simp only [hc, if_true, pctEnc, List.mem_cons, List.mem_nil_iff, or_false] at hx
        have := allBytes_spec tbl_hex_line c
        simp only [Bool.and_eq_true, Bool.not_eq_true'] at this
        rcases hx with hx | hx | hx
        · subst hx; decide
        · subst hx; exact this.1
        · subst hx; exact this.2
      | false =>
        simp only [hc, Bool.false_eq_true, if_false, List.mem_singleton] at hx
        subst hx; exact hc
    · exact reqLineTail_clean t x hx

theorem reqLinePart_clean (p : Bytes) : ∀ x ∈ reqLinePart p, x ≠ 32 ∧ x ≠ 13 ∧ x ≠ 10 := by
  intro x hx
  rw [reqLinePart_eq] at hx
  have := reqLineTail_clean p x hx
  simpa [lineSpecial, and_assoc] using this

/-- the request line `RequestHeader.AppendBytes` writes never contains CR or LF -/
theorem startLine_clean (r : ReqHdr) : ∀ x ∈ r.startLine, x ≠ 13 ∧ x ≠ 10 := by
  intro x hx
  have h11 : ∀ x ∈ strHTTP11, x ≠ 13 ∧ x ≠ 10 := by decide
  simp only [ReqHdr.startLine, List.mem_append, List.mem_singleton] at hx
  rcases hx with (((h | h) | h) | h) | h
  · exact (reqLinePart_clean _ x h).2
  · subst h; decide
  · exact (reqLinePart_clean _ x h).2
  · subst h; decide
  · exact h11 x h

theorem kept_length_le (fs : List (Bytes × Bytes)) : (kept fs).length ≤ fs.length := by
  simp only [kept, List.length_map]
  exact List.length_filter_le _ _

theorem strCRLF_eq : strCRLF = [13, 10] := by decide
theorem strColonSpace_eq : strColonSpace = [58, 32] := by decide

/-- The strict reader, given enough fuel, reads back exactly the kept fields of a block. -/
theorem fields_block : ∀ (fs : List (Bytes × Bytes)) (rest : Bytes) (fuel : Nat), (kept fs).length < fuel →
    fields fuel (block fs ++ rest) = some (kept fs, rest)
  | [], rest, fuel, hf => by
    obtain ⟨f, rfl⟩ : ∃ f, fuel = f + 1 := ⟨fuel - 1, by omega⟩
    simp [block, kept, fields, strCRLF_eq, crlfLine]
  | kv :: fs, rest, fuel, hf => by
    obtain ⟨f, rfl⟩ : ∃ f, fuel = f + 1 := ⟨fuel - 1, by omega⟩
    by_cases hv : validName kv.1 = true
    · have ih := fields_block fs rest f (by simp [kept, hv] at hf ⊢; omega)
      have hk := validName_clean kv.1 hv
      have hline : ∀ x ∈ kv.1 ++ 58 :: 32 :: newlineToSpace kv.2, x ≠ 13 ∧ x ≠ 10 := by
        intro x hx
        simp only [List.mem_append, List.mem_cons] at hx
        rcases hx with hx | hx | hx | hx
        · exact ⟨(hk x hx).1, (hk x hx).2.1⟩
        · subst hx; decide
        · subst hx; decide
        · exact newlineToSpace_clean kv.2 x hx
      have e : block (kv :: fs) ++ rest =
          (kv.1 ++ 58 :: 32 :: newlineToSpace kv.2) ++ 13 :: 10 :: (block fs ++ rest) := by
        simp [block, headerLine, hv, strCRLF_eq, strColonSpace_eq]
      rw [e]
      simp only [fields]
      rw [crlfLine_append _ _ hline]
      have hne : (kv.1 ++ 58 :: 32 :: newlineToSpace kv.2).isEmpty = false := by simp
      simp only [hne, Bool.false_eq_true, if_false]
      rw [splitField_append _ _ (fun x hx => (hk x hx).2.2), ih]
      simp [kept, hv]
    · have e : block (kv :: fs) ++ rest = block fs ++ rest := by
        simp [block, headerLine, hv]
      rw [e]
      have : kept (kv :: fs) = kept fs := by simp [kept, hv]
      rw [this]
      -- more fuel than needed is harmless: redo with the larger fuel
      exact fields_block fs rest (f + 1) (by rw [this] at hf; exact hf)

theorem kept_len_le_block : ∀ fs : List (Bytes × Bytes), (kept fs).length ≤ (block fs).length
  | [] => by simp [kept]
  | kv :: fs => by
    have ih := kept_len_le_block fs
    by_cases hv : validName kv.1 = true
    · simp [kept, block, headerLine, hv, strCRLF_eq, strColonSpace_eq] at ih ⊢; omega
    · simp [kept, block, headerLine, hv] at ih ⊢; omega

/-- Whatever the state, a serialised message head reads back as: the start line, exactly the kept
fields (names valid, values with CR/LF neutralised), and the bytes that followed. -/
theorem parseHead_block (start : Bytes) (fs : List (Bytes × Bytes)) (rest : Bytes)
    (hs : ∀ x ∈ start, x ≠ 13 ∧ x ≠ 10) :
    parseHead (start ++ strCRLF ++ block fs ++ rest) = some (start, kept fs, rest) := by
  unfold parseHead
  have e : start ++ strCRLF ++ block fs ++ rest = start ++ 13 :: 10 :: (block fs ++ rest) := by
    simp [strCRLF_eq]
  rw [e, crlfLine_append _ _ hs]
  simp only
  have hlen : (kept fs).length < (block fs ++ rest).length + 1 := by
    have := kept_len_le_block fs
    simp only [List.length_append]
    omega
  rw [fields_block fs rest _ hlen]
  rfl

end Hertz.HW
