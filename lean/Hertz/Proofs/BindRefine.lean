import Hertz.Proofs.Bind
import Hertz.Spec.Bind
/-!
Refinement of the declarative binding specification (`Spec.Bind.specBind`) by the model of the decoders
(`Bind.bind`), property C15.  Main result: `bind_refines` (end of file).

1. header keys: `normalizeKey a = normalizeKey b ↔ ciEq a b` (table facts about `ToLowerTable`/`ToUpperTable`)
2. struct tags: `Spec.Bind.named` reads a tag exactly as `mkTagInfo` does; `fieldTagInfos f` is the
   documented priority list filtered by `tagOf f`
3. getters: the five getters are `Spec.Bind.present` / `presentAll`
4. the tag loops on `fieldTagInfos f` against the `findSome?` over the documented priority list
5. the JSON pre-bind: sonic = encoding/json outside `sonic-uint32-wrap`; `preBindMembers` against
   `Spec.Bind.jsonValue` outside `json-prebind-extra`
6. one field (`FieldWF`, `noText_base/_slice`, `scalar_refines`, `slice_refines`)
7. field lists (`runDecoders_refines`, `bind_refines`)
8. the tag-restricted entry points: `bindBy (some s)` = `specFieldsBy s` for every field list (`bindBy_refines`)

Only Lean core is used.
-/
namespace Hertz.Bind
open Hertz Hertz.H1 Hertz.Spec.Bind

/-! ## 1. header keys -/

set_option maxRecDepth 100000 in
theorem tbl_low_up : allBytes (fun c => toLower (toUpper c) == toLower c) = true := by decide +kernel
set_option maxRecDepth 100000 in
theorem tbl_up_low : allBytes (fun c => toUpper (toLower c) == toUpper c) = true := by decide +kernel
set_option maxRecDepth 100000 in
theorem tbl_low_low : allBytes (fun c => toLower (toLower c) == toLower c) = true := by decide +kernel
set_option maxRecDepth 100000 in
theorem tbl_low_dash : allBytes (fun c => (toLower c == 45) == (c == 45)) = true := by decide +kernel

theorem low_up (c : UInt8) : toLower (toUpper c) = toLower c := by
  simpa using allBytes_spec tbl_low_up c
theorem up_low (c : UInt8) : toUpper (toLower c) = toUpper c := by
  simpa using allBytes_spec tbl_up_low c
theorem low_low (c : UInt8) : toLower (toLower c) = toLower c := by
  simpa using allBytes_spec tbl_low_low c
theorem low_dash (c : UInt8) : toLower c = 45 ↔ c = 45 := by
  have := allBytes_spec tbl_low_dash c
  rw [beq_iff_eq, Bool.eq_iff_iff] at this
  simpa using this

theorem up_eq_iff_low_eq (x y : UInt8) : toUpper x = toUpper y ↔ toLower x = toLower y := by
  constructor
  · intro h
    have := congrArg toLower h
    rwa [low_up, low_up] at this
  · intro h
    have := congrArg toUpper h
    rwa [up_low, up_low] at this

theorem normKeyAux_nil (up : Bool) : normKeyAux up [] = [] := by cases up <;> rfl

/-- two keys have the same normal form iff they are equal up to ASCII case -/
theorem normKeyAux_eq_iff : ∀ (a b : Bytes) (up : Bool), normKeyAux up a = normKeyAux up b ↔ ciEq a b = true
  | [], [], up => by simp [normKeyAux_nil, ciEq]
  | [], y :: t, up => by cases up <;> simp [normKeyAux, ciEq] <;> split <;> simp
  | x :: s, [], up => by cases up <;> simp [normKeyAux, ciEq] <;> split <;> simp
  | x :: s, y :: t, true => by
    simp only [normKeyAux, ciEq, List.cons.injEq, Bool.and_eq_true, beq_iff_eq]
    rw [normKeyAux_eq_iff s t false, up_eq_iff_low_eq]
  | x :: s, y :: t, false => by
    simp only [normKeyAux, ciEq, Bool.and_eq_true, beq_iff_eq]
    by_cases hx : x = 45 <;> by_cases hy : y = 45
    · subst hx; subst hy
      simp [normKeyAux_eq_iff s t true]
    · subst hx
      have h1 : ¬ (45 : UInt8) = toLower y := fun h => hy ((low_dash y).1 h.symm)
      have h2 : ¬ toLower (45 : UInt8) = toLower y := by
        rw [(low_dash 45).2 rfl]; exact h1
      simp [hy, h1, h2]
    · subst hy
      have h1 : ¬ toLower x = (45 : UInt8) := fun h => hx ((low_dash x).1 h)
      have h2 : ¬ toLower x = toLower (45 : UInt8) := by
        rw [(low_dash 45).2 rfl]; exact h1
      simp [hx, h1, h2]
    · simp [hx, hy, normKeyAux_eq_iff s t false]

/-- **(1)** `RequestHeader.Peek` (comparison of normalised keys) is case-insensitive comparison -/
theorem normalizeKey_eq_iff (a b : Bytes) : normalizeKey false a = normalizeKey false b ↔ ciEq a b = true := by
  simp only [normalizeKey, Bool.false_eq_true, if_false]
  exact normKeyAux_eq_iff a b true

/-- normalising a stored key does not change what it matches case-insensitively -/
theorem ciEq_normKeyAux : ∀ (a k : Bytes) (up : Bool), ciEq (normKeyAux up a) k = ciEq a k
  | [], k, up => by rw [normKeyAux_nil]
  | x :: s, [], up => by cases up <;> simp [normKeyAux, ciEq] <;> split <;> simp [ciEq]
  | x :: s, y :: t, true => by
    simp only [normKeyAux, ciEq, low_up, ciEq_normKeyAux s t false]
  | x :: s, y :: t, false => by
    simp only [normKeyAux]
    by_cases hx : x = 45
    · simp only [hx, if_true, ciEq, ciEq_normKeyAux s t true]
    · simp only [hx, if_false, ciEq, low_low, ciEq_normKeyAux s t false]

theorem ciEq_normalizeKey (a k : Bytes) : ciEq (normalizeKey false a) k = ciEq a k := by
  simp only [normalizeKey, Bool.false_eq_true, if_false]
  exact ciEq_normKeyAux a k true

theorem ciEq_refl : ∀ a : Bytes, ciEq a a = true
  | [] => rfl
  | x :: s => by simp [ciEq, ciEq_refl s]

/-! ## 2. struct tags -/

theorem beq_dec (a b : Bytes) : (a == b) = decide (b = a) := by
  by_cases h : a = b
  · subst h; simp
  · have : ¬ b = a := fun h' => h h'.symm
    simp [h, this]

theorem optsRequired_eq : ∀ (t cur : Bytes), optsRequired cur t = (splitComma cur t).contains requiredOpt
  | [], cur => by simp [optsRequired, splitComma, beq_dec]
  | c :: t, cur => by
    simp only [optsRequired, splitComma]
    split
    · simp [optsRequired_eq t [], beq_dec]
    · exact optsRequired_eq t (c :: cur)

/-- `splitComma` cuts where `head(str, ",")` cuts, and the rest of the parts are the options -/
theorem splitComma_head : ∀ (c cur : Bytes), ∃ tl, splitComma cur c = (cur.reverse ++ (headComma c).1) :: tl ∧
    tl.contains requiredOpt = optsRequired [] (headComma c).2
  | [], cur => ⟨[], by simp [splitComma, headComma], by decide⟩
  | x :: t, cur => by
    simp only [splitComma, headComma]
    split
    · exact ⟨splitComma [] t, by simp, (optsRequired_eq t []).symm⟩
    · obtain ⟨tl, h1, h2⟩ := splitComma_head t (x :: cur)
      exact ⟨tl, by simp [h1], h2⟩

/-- the tag of field `f` for source `s`, as the decoder sees it -/
def tagOf (f : Field) (s : Src) : Option TagInfo :=
  if f.tags.isEmpty then some { key := s, value := f.name, jsonName := f.name, dflt := f.dflt.getD [] }
  else (f.tags.lookup s).map (mkTagInfo f s)

theorem tagOf_key {f : Field} {s : Src} {t : TagInfo} (h : tagOf f s = some t) : t.key = s := by
  unfold tagOf at h
  split at h
  · cases h; rfl
  · cases hl : f.tags.lookup s <;> simp [hl] at h
    rw [← h]; rfl

theorem mem_priority (s : Src) : s ∈ priority := by cases s <;> decide

theorem fieldTagInfos_eq (f : Field) : fieldTagInfos f = priority.filterMap (tagOf f) := by
  have e1 : lookupOrder = priority := by decide
  have e2 : defaultOrder = priority := by decide
  unfold fieldTagInfos lookupFieldTags getDefaultFieldTags
  rw [e1, e2]
  cases ht : f.tags with
  | nil =>
    simp [tagOf, ht, priority]
  | cons p rest =>
    obtain ⟨s0, c0⟩ := p
    have hne : (priority.filterMap (fun s => (List.lookup s ((s0, c0) :: rest)).map (mkTagInfo f s))) ≠ [] := by
      intro h
      have : mkTagInfo f s0 c0 ∈ priority.filterMap (fun s => (List.lookup s ((s0, c0) :: rest)).map (mkTagInfo f s)) := by
        rw [List.mem_filterMap]
        exact ⟨s0, mem_priority s0, by simp [List.lookup]⟩
      rw [h] at this; cases this
    have hemp : (priority.filterMap (fun s => (List.lookup s ((s0, c0) :: rest)).map (mkTagInfo f s))).isEmpty = false := by
      cases h : priority.filterMap (fun s => (List.lookup s ((s0, c0) :: rest)).map (mkTagInfo f s)) with
      | nil => exact absurd h hne
      | cons _ _ => rfl
    simp only [hemp, Bool.false_eq_true, if_false]
    have : (fun s => (List.lookup s ((s0, c0) :: rest)).map (mkTagInfo f s)) = tagOf f := by
      funext s; simp [tagOf, ht]
    rw [this]

/-- **`named` reads a struct tag as `mkTagInfo` does** -/
theorem named_eq (f : Field) (s : Src) :
    named f s = (tagOf f s).bind (fun t => if t.skip then none else some (t.value, t.required)) := by
  unfold named tagOf
  by_cases he : f.tags.isEmpty = true
  · simp [he]
  · simp only [he, Bool.false_eq_true, if_false]
    cases hl : f.tags.lookup s with
    | none => simp
    | some c =>
      obtain ⟨tl, h1, h2⟩ := splitComma_head c []
      simp only [List.reverse_nil, List.nil_append] at h1
      simp only [h1, Option.map_some, Option.bind_some, mkTagInfo, h2, List.isEmpty_iff]
      done

/-! ## 3. getters -/

/-- what a getter returns for a source that carries `o` -/
def asPair : Option Bytes → Bytes × Bool
  | some v => (v, true)
  | none => ([], false)

theorem peek_normHeaders (hs : List KV) (k : Bytes) :
    peek (hs.map (fun e => (normalizeKey false e.1, e.2))) (normalizeKey false k) =
      ((hs.filter (fun e => ciEq e.1 k)).map (·.2)).head? := by
  induction hs with
  | nil => rfl
  | cons e hs ih =>
    unfold peek at ih ⊢
    simp only [List.map_cons, List.find?_cons, List.filter_cons]
    cases hc : ciEq e.1 k
    · have : (normalizeKey false e.1 == normalizeKey false k) = false := by
        rw [beq_eq_false_iff_ne]; intro h
        rw [normalizeKey_eq_iff, hc] at h; cases h
      simp only [this, Bool.false_eq_true, if_false]
      exact ih
    · have : (normalizeKey false e.1 == normalizeKey false k) = true := by
        rw [beq_iff_eq, normalizeKey_eq_iff]; exact hc
      simp [this]

theorem filter_normHeaders (hs : List KV) (k : Bytes) :
    ((hs.map (fun e => (normalizeKey false e.1, e.2))).filter (fun e => ciEq e.1 k)).map (·.2) =
      (hs.filter (fun e => ciEq e.1 k)).map (·.2) := by
  induction hs with
  | nil => rfl
  | cons e hs ih =>
    simp only [List.map_cons, List.filter_cons, ciEq_normalizeKey]
    cases hc : ciEq e.1 k <;> simp [ih]

/-- **the five getters are `present`** (and the json "getter" never finds anything) -/
theorem getter_eq (r : Req) (s : Src) (k : Bytes) : getter r s k = asPair (present r s k) := by
  cases s <;> simp only [getter, present]
  · cases peek r.params k <;> rfl
  · cases peek r.form k with
    | some v => rfl
    | none =>
      simp only [Option.orElse_none]
      cases hm : peek r.mform k with
      | none =>
        simp only [Option.getD_none, ne_eq, not_true_eq_false, if_false, Option.filter_none, Option.orElse_none]
        cases peek r.query k <;> rfl
      | some v =>
        by_cases hv : v = []
        · simp only [hv, Option.getD_some, ne_eq, not_true_eq_false, if_false]
          have : Option.filter (fun x => decide (x ≠ [])) (some ([] : Bytes)) = none := by simp [Option.filter]
          rw [this]
          simp only [Option.orElse_none]
          cases peek r.query k <;> rfl
        · have : Option.filter (fun x => decide (x ≠ [])) (some v) = some v := by simp [Option.filter, hv]
          rw [this]
          simp [hv, asPair]
  · cases peek r.query k <;> rfl
  · cases peek r.cookies k <;> rfl
  · unfold normHeaders headerGet
    rw [peek_normHeaders]
    cases ((r.headers.filter (fun e => ciEq e.1 k)).map (·.2)).head? <;> rfl
  · rfl

theorem sliceGetter_eq (r : Req) (s : Src) (k : Bytes) : sliceGetter r s k = presentAll r s k := by
  cases s <;> simp only [sliceGetter, presentAll]
  · cases peek r.params k with
    | none => rfl
    | some v => by_cases hv : v = [] <;> simp [Option.filter, hv]
  · unfold normHeaders headerGet
    exact filter_normHeaders r.headers k

/-! ## 4. the tag loops against `findSome?` over the priority list -/

/-- a consulted text tag whose source carries its key (single value) -/
def hitB (r : Req) (t : TagInfo) : Bool := (!t.skip && t.key != .json) && textPresent r t
/-- the same for slices -/
def hitS (r : Req) (t : TagInfo) : Bool := (!t.skip && t.key != .json) && textsPresent r t

theorem isText_iff (t : TagInfo) : t.isText ↔ (!t.skip && t.key != .json) = true := by
  unfold TagInfo.isText
  cases t.skip <;> simp

theorem baseLoop_find_some (r : Req) (tis : List TagInfo) (ti : TagInfo) (st : LoopSt)
    (h : tis.find? (hitB r) = some ti) :
    baseLoop r tis st = { err := none, text := (getter r ti.key ti.value).1, exist := true, dflt := ti.dflt } := by
  rw [List.find?_eq_some_iff_append] at h
  obtain ⟨hp, pre, post, rfl, hpre⟩ := h
  simp only [hitB, Bool.and_eq_true] at hp
  apply baseLoop_picks_first r pre ti post st _ ((isText_iff ti).2 (by simpa using hp.1)) hp.2
  intro t ht htx
  have := hpre t ht
  rw [isText_iff] at htx
  simpa [hitB, htx] using this

theorem sliceLoop_find_some (r : Req) (tis : List TagInfo) (ti : TagInfo) (st : SLoopSt)
    (h : tis.find? (hitS r) = some ti) :
    sliceLoop r tis st = { err := none, texts := sliceGetter r ti.key ti.value, dflt := ti.dflt } := by
  rw [List.find?_eq_some_iff_append] at h
  obtain ⟨hp, pre, post, rfl, hpre⟩ := h
  simp only [hitS, Bool.and_eq_true] at hp
  apply sliceLoop_picks_first r pre ti post st _ ((isText_iff ti).2 (by simpa using hp.1)) hp.2
  intro t ht htx
  have := hpre t ht
  rw [isText_iff] at htx
  simpa [hitS, htx] using this

theorem find_none_base (r : Req) (tis : List TagInfo) (h : tis.find? (hitB r) = none) :
    ∀ t ∈ tis, t.isText → textPresent r t = false := by
  intro t ht htx
  rw [List.find?_eq_none] at h
  have := h t ht
  rw [isText_iff] at htx
  simpa [hitB, htx] using this

theorem find_none_slice (r : Req) (tis : List TagInfo) (h : tis.find? (hitS r) = none) :
    ∀ t ∈ tis, t.isText → textsPresent r t = false := by
  intro t ht htx
  rw [List.find?_eq_none] at h
  have := h t ht
  rw [isText_iff] at htx
  simpa [hitS, htx] using this

theorem present_json (r : Req) (k : Bytes) : present r .json k = none := rfl
theorem presentAll_json (r : Req) (k : Bytes) : presentAll r .json k = [] := rfl

/-- the function under the `findSome?` of `firstText` -/
def pickOne (f : Field) (r : Req) (s : Src) : Option (Src × Bytes) :=
  match named f s with
  | some (n, _) => (present r s n).map (fun v => (s, v))
  | none => none

/-- the function under the `findSome?` of `firstTexts` -/
def pickAll (f : Field) (r : Req) (s : Src) : Option (Src × List Bytes) :=
  match named f s with
  | some (n, _) => if presentAll r s n ≠ [] then some (s, presentAll r s n) else none
  | none => none

theorem firstText_def (f : Field) (r : Req) : firstText f r = textSources.findSome? (pickOne f r) := rfl
theorem firstTexts_def (f : Field) (r : Req) : firstTexts f r = textSources.findSome? (pickAll f r) := rfl

theorem pickOne_json (f : Field) (r : Req) : pickOne f r .json = none := by
  unfold pickOne
  cases named f .json with
  | none => rfl
  | some p => rfl

theorem pickAll_json (f : Field) (r : Req) : pickAll f r .json = none := by
  unfold pickAll
  cases named f .json with
  | none => rfl
  | some p => simp [presentAll_json]

/-- **(2)** the `findSome?` of the specification over any list of sources is the `find?` of the first
hit in the tag list built from those sources -/
theorem findSome_sources (f : Field) (r : Req) : ∀ l : List Src,
    l.findSome? (pickOne f r) =
    ((l.filterMap (tagOf f)).find? (hitB r)).map (fun t => (t.key, (getter r t.key t.value).1))
  | [] => rfl
  | s :: l => by
    have ih := findSome_sources f r l
    rw [List.filterMap_cons]
    cases htag : tagOf f s with
    | none =>
      have hn : named f s = none := by rw [named_eq, htag]; rfl
      simp only [List.findSome?_cons, pickOne, hn]
      exact ih
    | some t =>
      have hk := tagOf_key htag
      cases hsk : t.skip
      · have hn : named f s = some (t.value, t.required) := by rw [named_eq, htag]; simp [hsk]
        cases hp : present r s t.value with
        | none =>
          have hh : hitB r t = false := by simp [hitB, textPresent, getter_eq, hk, hp, asPair]
          simp only [List.findSome?_cons, pickOne, hn, hp, Option.map_none, List.find?_cons, hh]
          exact ih
        | some v =>
          have hj : s ≠ .json := by
            intro h; subst h; rw [present_json] at hp; cases hp
          have hh : hitB r t = true := by simp [hitB, textPresent, getter_eq, hk, hp, asPair, hsk, hj]
          simp only [List.findSome?_cons, pickOne, hn, hp, Option.map_some, List.find?_cons, hh]
          rw [hk, getter_eq, hp]; rfl
      · have hn : named f s = none := by rw [named_eq, htag]; simp [hsk]
        have hh : hitB r t = false := by simp [hitB, hsk]
        simp only [List.findSome?_cons, pickOne, hn, List.find?_cons, hh]
        exact ih

theorem findSome_sources_slice (f : Field) (r : Req) : ∀ l : List Src,
    l.findSome? (pickAll f r) =
    ((l.filterMap (tagOf f)).find? (hitS r)).map (fun t => (t.key, sliceGetter r t.key t.value))
  | [] => rfl
  | s :: l => by
    have ih := findSome_sources_slice f r l
    rw [List.filterMap_cons]
    cases htag : tagOf f s with
    | none =>
      have hn : named f s = none := by rw [named_eq, htag]; rfl
      simp only [List.findSome?_cons, pickAll, hn]
      exact ih
    | some t =>
      have hk := tagOf_key htag
      cases hsk : t.skip
      · have hn : named f s = some (t.value, t.required) := by rw [named_eq, htag]; simp [hsk]
        by_cases hp : presentAll r s t.value = []
        · have hh : hitS r t = false := by simp [hitS, textsPresent, sliceGetter_eq, hk, hp]
          simp only [List.findSome?_cons, pickAll, hn, hp, ne_eq, not_true_eq_false, if_false, List.find?_cons, hh]
          exact ih
        · have hj : s ≠ .json := by
            intro h; subst h; rw [presentAll_json] at hp; exact hp rfl
          have hh : hitS r t = true := by simp [hitS, textsPresent, sliceGetter_eq, hk, hp, hsk, hj]
          simp only [List.findSome?_cons, pickAll, hn, hp, ne_eq, not_false_eq_true, if_true, List.find?_cons, hh,
            Option.map_some]
          rw [hk, sliceGetter_eq]
      · have hn : named f s = none := by rw [named_eq, htag]; simp [hsk]
        have hh : hitS r t = false := by simp [hitS, hsk]
        simp only [List.findSome?_cons, pickAll, hn, List.find?_cons, hh]
        exact ih

theorem firstText_eq (f : Field) (r : Req) :
    firstText f r = ((fieldTagInfos f).find? (hitB r)).map (fun t => (t.key, (getter r t.key t.value).1)) := by
  rw [fieldTagInfos_eq, ← findSome_sources f r priority, firstText_def]
  have : priority = textSources ++ [.json] := rfl
  rw [this, List.findSome?_append]
  simp only [List.findSome?_cons, List.findSome?_nil, pickOne_json, Option.or_none]

theorem firstTexts_eq (f : Field) (r : Req) :
    firstTexts f r = ((fieldTagInfos f).find? (hitS r)).map (fun t => (t.key, sliceGetter r t.key t.value)) := by
  rw [fieldTagInfos_eq, ← findSome_sources_slice f r priority, firstTexts_def]
  have : priority = textSources ++ [.json] := rfl
  rw [this, List.findSome?_append]
  simp only [List.findSome?_cons, List.findSome?_nil, pickAll_json, Option.or_none]

/-! ## 5. the JSON pre-bind -/

/-- pre-bind as seen by one field, for either JSON decoder (`preField` is `preFieldS true`) -/
def preFieldS (sonic : Bool) (r : Req) (f : Field) : Conv FieldVal :=
  if hasBody r && ctFold r then
    match r.body with
    | .json _ => preBindField sonic r f
    | _ => .err
  else .ok .unset

theorem preField_eq (r : Req) (f : Field) : preField r f = preFieldS true r f := rfl

/-- an integer literal sonic would truncate when stored in a `uint32` -/
def bigAtom : JAtom → Bool
  | .int i => decide (i ≥ 2 ^ 32)
  | _ => false

def bigVal : JVal → Bool
  | .atom a => bigAtom a
  | .arr l => l.any bigAtom

theorem clsSonicU32_eq (f : Field) (r : Req) :
    clsSonicU32 f r = (isJSONRequest r && f.ty.base == .uint 32 &&
      (bodyMembers r).any (fun m => jsonMatches f m.1 && bigVal m.2)) := by
  unfold clsSonicU32
  congr 2
  funext m
  congr 1
  rcases m with ⟨k, v⟩
  cases v with
  | atom a => cases a <;> rfl
  | arr l =>
    simp only [bigVal]
    congr 1

theorem jsonAtomConv_sonic (b : Base) (a : JAtom) (h : b ≠ .uint 32 ∨ bigAtom a = false) :
    jsonAtomConv true b a = jsonAtomConv false b a := by
  cases a with
  | int i =>
    cases b with
    | uint bits =>
      by_cases hb : bits = 32
      · subst hb
        have hi : i < 2 ^ 32 := by
          rcases h with h | h
          · exact absurd rfl h
          · simpa [bigAtom] using h
        simp only [jsonAtomConv, true_and, Bool.false_eq_true, false_and, if_true, if_false, uintInRange, effBits]
        by_cases h0 : 0 ≤ i
        · have h1 : i.toNat < 2 ^ 32 := by omega
          have h2 : i.toNat < 2 ^ 63 := by omega
          have h3 : i.toNat % 2 ^ 32 = i.toNat := Nat.mod_eq_of_lt h1
          simp [h0, h1, h2, h3]
        · simp [h0]
      · simp [jsonAtomConv, hb]
    | _ => rfl
  | _ => rfl

theorem jsonAtomsConv_sonic (b : Base) : ∀ (l : List JAtom), (b ≠ .uint 32 ∨ l.any bigAtom = false) →
    jsonAtomsConv true b l = jsonAtomsConv false b l
  | [], _ => rfl
  | a :: t, h => by
    have ha : b ≠ .uint 32 ∨ bigAtom a = false := by
      rcases h with h | h
      · exact Or.inl h
      · simp only [List.any_cons, Bool.or_eq_false_iff] at h; exact Or.inr h.1
    have ht : b ≠ .uint 32 ∨ t.any bigAtom = false := by
      rcases h with h | h
      · exact Or.inl h
      · simp only [List.any_cons, Bool.or_eq_false_iff] at h; exact Or.inr h.2
    simp only [jsonAtomsConv, jsonAtomConv_sonic b a ha, jsonAtomsConv_sonic b t ht]

theorem jsonStep_sonic (ty : Ty) (prev : FieldVal) (v : JVal) (h : ty.base ≠ .uint 32 ∨ bigVal v = false) :
    jsonStep true ty prev v = jsonStep false ty prev v := by
  unfold jsonStep
  cases v with
  | atom a =>
    have e := jsonAtomConv_sonic ty.base a h
    by_cases hs : ty.slice = true
    · simp only [hs, if_true]
      cases a <;> rfl
    · simp only [hs, Bool.false_eq_true, if_false, e]
  | arr l => simp only [jsonAtomsConv_sonic ty.base l h]

theorem preBindMembers_sonic (f : Field) : ∀ (ms : List (Bytes × JVal)) (acc : Conv FieldVal),
    (∀ m ∈ ms, jsonMatches f m.1 = true → (f.ty.base ≠ .uint 32 ∨ bigVal m.2 = false)) →
    preBindMembers true f ms acc = preBindMembers false f ms acc
  | [], _, _ => rfl
  | m :: t, acc, h => by
    have ht : ∀ m' ∈ t, jsonMatches f m'.1 = true → (f.ty.base ≠ .uint 32 ∨ bigVal m'.2 = false) :=
      fun m' hm' => h m' (List.mem_cons_of_mem _ hm')
    unfold preBindMembers
    cases hm : jsonMatches f m.1
    · simp only [Bool.false_eq_true, if_false]
      exact preBindMembers_sonic f t acc ht
    · have hs := fun p => jsonStep_sonic f.ty p m.2 (h m List.mem_cons_self hm)
      simp only [if_true, hs]
      cases acc with
      | err => rfl
      | unk => simp only [preBindMembers_sonic f t .unk ht]
      | ok prev => exact preBindMembers_sonic f t _ ht

theorem preFieldS_sonic (r : Req) (f : Field) (hc : clsSonicU32 f r = false) :
    preFieldS true r f = preFieldS false r f := by
  unfold preFieldS
  by_cases hj : (hasBody r && ctFold r) = true
  · simp only [hj, if_true]
    cases hb : r.body with
    | json ms =>
      simp only [preBindField]
      apply preBindMembers_sonic
      intro m hm hmatch
      rw [clsSonicU32_eq] at hc
      have hj' : isJSONRequest r = true := hj
      by_cases hu : f.ty.base = .uint 32
      · right
        simp only [hj', hu, beq_self_eq_true, Bool.true_and, List.any_eq_false, Bool.and_eq_true, not_and,
          Bool.not_eq_true] at hc
        exact hc m hm hmatch
      · exact Or.inl hu
    | none => rfl
    | notJson => rfl
  · simp only [hj, Bool.false_eq_true, if_false]

/-- the two decoders give the same verdict on the body when no field is in the class `sonic-uint32-wrap` -/
theorem preBind_sonic (r : Req) (fields : List Field) (hc : ∀ f ∈ fields, clsSonicU32 f r = false) :
    preBind true r fields = preBind false r fields := by
  unfold preBind
  by_cases hj : (hasBody r && ctFold r) = true
  · simp only [hj, if_true]
    cases hb : r.body with
    | json ms =>
      simp only
      congr 1
      apply List.map_congr_left
      intro f hf
      have := preFieldS_sonic r f (hc f hf)
      simpa [preFieldS, hj, hb] using this
    | none => rfl
    | notJson => rfl
  · simp only [hj, Bool.false_eq_true, if_false]

/-- `pres` holds, field by field, the successful result of `g` -/
def PreOK (g : Field → Conv FieldVal) : List Field → List FieldVal → Prop
  | [], [] => True
  | f :: fs, p :: ps => g f = .ok p ∧ PreOK g fs ps
  | _, _ => False

theorem collect_ok (g : Field → Conv FieldVal) : ∀ (fs : List Field) (vs : List FieldVal),
    collect (fs.map g) = .ok vs → PreOK g fs vs
  | [], vs, h => by simp only [List.map_nil, collect] at h; cases h; trivial
  | f :: t, vs, h => by
    simp only [List.map_cons] at h
    unfold collect at h
    cases hc : g f with
    | err => simp [hc] at h
    | unk => cases ht : collect (t.map g) <;> simp [hc, ht] at h
    | ok v =>
      cases ht : collect (t.map g) with
      | err => simp [hc, ht] at h
      | unk => simp [hc, ht] at h
      | ok l =>
        simp only [hc, ht] at h
        cases h
        exact ⟨hc, collect_ok g t l ht⟩

/-- what `preBind` hands to the field decoders is, field by field, `preFieldS` -/
theorem preBind_ok (s : Bool) (r : Req) (fields : List Field) (pres : List FieldVal)
    (h : preBind s r fields = .ok pres) : PreOK (preFieldS s r) fields pres := by
  unfold preBind at h
  by_cases hj : (hasBody r && ctFold r) = true
  · simp only [hj, if_true] at h
    cases hb : r.body with
    | json ms =>
      simp only [hb] at h
      have e : preFieldS s r = preBindField s r := by
        funext f; simp [preFieldS, hj, hb]
      rw [e]
      exact collect_ok _ _ _ h
    | none => simp [hb] at h
    | notJson => simp [hb] at h
  · simp only [hj, Bool.false_eq_true, if_false] at h
    cases h
    have e : preFieldS s r = fun _ => .ok .unset := by
      funext f; simp [preFieldS, hj]
    rw [e]
    induction fields with
    | nil => trivial
    | cons a l ih => exact ⟨rfl, ih⟩

/-- the fold of `Spec.Bind.jsonValue` -/
def jsonFold (ty : Ty) (acc : Conv FieldVal) (m : Bytes × JVal) : Conv FieldVal :=
  match acc with
  | .ok prev => jsonStep false ty prev m.2
  | o => o

theorem jsonValue_def (ty : Ty) (r : Req) (n : Bytes) :
    jsonValue ty r n = ((bodyMembers r).filter (fun m => m.1 == n)).foldl (jsonFold ty) (.ok .unset) := rfl

theorem preBindMembers_not_ok (s : Bool) (f : Field) : ∀ (ms : List (Bytes × JVal)) (acc : Conv FieldVal),
    (acc = .err ∨ acc = .unk) → ∀ v, preBindMembers s f ms acc ≠ .ok v
  | [], acc, h, v => by
    rcases h with h | h <;> simp [preBindMembers, h]
  | m :: t, acc, h, v => by
    unfold preBindMembers
    cases hm : jsonMatches f m.1
    · simp only [Bool.false_eq_true, if_false]
      exact preBindMembers_not_ok s f t acc h v
    · simp only [if_true]
      rcases h with h | h
      · subst h; simp
      · subst h
        simp only
        cases jsonStep s f.ty .unset m.2 with
        | err => simp
        | unk => exact preBindMembers_not_ok s f t .unk (Or.inr rfl) v
        | ok _ => exact preBindMembers_not_ok s f t .unk (Or.inr rfl) v

/-- **(3)** when the members that select the field are exactly those whose key is `n`, a successful
pre-bind leaves what `jsonValue` computes -/
theorem preBindMembers_exact (f : Field) (n : Bytes) : ∀ (ms : List (Bytes × JVal)) (acc : Conv FieldVal) (v : FieldVal),
    (∀ m ∈ ms, jsonMatches f m.1 = (m.1 == n)) → preBindMembers false f ms acc = .ok v →
    (ms.filter (fun m => m.1 == n)).foldl (jsonFold f.ty) acc = .ok v
  | [], acc, v, _, h => by simpa [preBindMembers] using h
  | m :: t, acc, v, hm, h => by
    have ht : ∀ m' ∈ t, jsonMatches f m'.1 = (m'.1 == n) := fun m' hm' => hm m' (List.mem_cons_of_mem _ hm')
    have hmm := hm m List.mem_cons_self
    unfold preBindMembers at h
    cases hj : jsonMatches f m.1
    · rw [hj] at hmm
      simp only [hj, Bool.false_eq_true, if_false] at h
      simp only [List.filter_cons, ← hmm, Bool.false_eq_true, if_false]
      exact preBindMembers_exact f n t acc v ht h
    · rw [hj] at hmm
      simp only [hj, if_true] at h
      simp only [List.filter_cons, ← hmm, if_true, List.foldl_cons]
      cases acc with
      | err => simp at h
      | unk =>
        simp only at h
        cases hs : jsonStep false f.ty .unset m.2 with
        | err => simp [hs] at h
        | unk => simp only [hs] at h; exact absurd h (preBindMembers_not_ok false f t .unk (Or.inr rfl) v)
        | ok _ => simp only [hs] at h; exact absurd h (preBindMembers_not_ok false f t .unk (Or.inr rfl) v)
      | ok prev =>
        simp only at h
        exact preBindMembers_exact f n t _ v ht h

theorem preBindMembers_nomatch (s : Bool) (f : Field) : ∀ (ms : List (Bytes × JVal)) (acc : Conv FieldVal),
    (∀ m ∈ ms, jsonMatches f m.1 = false) → preBindMembers s f ms acc = acc
  | [], _, _ => rfl
  | m :: t, acc, h => by
    unfold preBindMembers
    simp only [h m List.mem_cons_self, Bool.false_eq_true, if_false]
    exact preBindMembers_nomatch s f t acc (fun m' hm' => h m' (List.mem_cons_of_mem _ hm'))

/-! ## 6. one field -/

/-- what every Go struct field satisfies as far as this model describes it: the field is not called `-`
(not an identifier) and no source key occurs twice in its struct tag (`go vet` structtag) -/
def FieldWF (f : Field) : Prop := f.name ≠ dash ∧ (f.tags.map (·.1)).Nodup

instance (f : Field) : Decidable (FieldWF f) := by unfold FieldWF; infer_instance

theorem class_empty {f : Field} {r : Req} (h : fieldClass f r = "") :
    clsSonicU32 f r = false ∧ clsDashOnly f = false ∧ clsJsonDash f = false ∧ clsPrebindExtra f r = false := by
  unfold fieldClass at h
  cases h1 : clsSonicU32 f r
  · cases h2 : clsDashOnly f
    · cases h3 : clsJsonDash f
      · cases h4 : clsPrebindExtra f r
        · exact ⟨rfl, rfl, rfl, rfl⟩
        · simp [h1, h2, h3, h4] at h
      · simp [h1, h2, h3] at h
    · simp [h1, h2] at h
  · simp [h1] at h

theorem mem_tis {f : Field} {t : TagInfo} : t ∈ fieldTagInfos f ↔ ∃ s, tagOf f s = some t := by
  rw [fieldTagInfos_eq, List.mem_filterMap]
  constructor
  · rintro ⟨s, _, h⟩; exact ⟨s, h⟩
  · rintro ⟨s, h⟩; exact ⟨s, mem_priority s, h⟩

theorem tis_split (f : Field) :
    fieldTagInfos f = textSources.filterMap (tagOf f) ++ (tagOf f .json).toList := by
  rw [fieldTagInfos_eq]
  have : priority = textSources ++ [.json] := rfl
  rw [this, List.filterMap_append]
  congr 1

theorem text_part_not_json {f : Field} {t : TagInfo} (h : t ∈ textSources.filterMap (tagOf f)) : t.key ≠ .json := by
  rw [List.mem_filterMap] at h
  obtain ⟨s, hs, ht⟩ := h
  rw [tagOf_key ht]
  intro e; subst e
  simp [textSources] at hs

/-- the json tag, if the decoder sees one, is not skipped and names the body key by its value -/
theorem json_tag_facts {f : Field} {tj : TagInfo} (hn : f.name ≠ dash) (hd : clsJsonDash f = false)
    (h : tagOf f .json = some tj) : tj.key = .json ∧ tj.skip = false ∧ tj.jsonName = tj.value := by
  refine ⟨tagOf_key h, ?_⟩
  unfold tagOf at h
  by_cases he : f.tags.isEmpty = true
  · simp only [he, if_true, Option.some.injEq] at h
    subst h; exact ⟨rfl, rfl⟩
  · simp only [he, Bool.false_eq_true, if_false] at h
    cases hl : f.tags.lookup .json with
    | none => simp [hl] at h
    | some c =>
      simp only [hl, Option.map_some, Option.some.injEq] at h
      simp only [clsJsonDash, hl, beq_eq_false_iff_ne, ne_eq] at hd
      have htv : (if (headComma c).1 = [] then f.name else (headComma c).1) ≠ dash := by
        split
        · exact hn
        · exact hd
      subst h
      simp [mkTagInfo, htv]

theorem json_tag_named {f : Field} {tj : TagInfo} (hs : tj.skip = false) (h : tagOf f .json = some tj) :
    named f .json = some (tj.value, tj.required) := by
  rw [named_eq, h]; simp [hs]

theorem no_json_tag_named {f : Field} (h : tagOf f .json = none) : named f .json = none := by
  rw [named_eq, h]; rfl

/-- the name by which the JSON decoder knows the field is the name of its json tag -/
theorem jsonFieldName_of_tag {f : Field} {tj : TagInfo} (hs : tj.skip = false) (h : tagOf f .json = some tj) :
    jsonFieldName f = some tj.value := by
  unfold tagOf at h
  unfold jsonFieldName
  by_cases he : f.tags.isEmpty = true
  · simp only [he, if_true, Option.some.injEq] at h
    have : f.tags = [] := List.isEmpty_iff.1 he
    subst h
    simp [this]
  · simp only [he, Bool.false_eq_true, if_false] at h
    cases hl : f.tags.lookup .json with
    | none => simp [hl] at h
    | some c =>
      simp only [hl, Option.map_some, Option.some.injEq] at h
      subst h
      simp only [mkTagInfo, beq_eq_false_iff_ne, ne_eq] at hs
      have hc : c ≠ dash := by
        intro e; subst e
        have e' : (headComma dash).1 = dash := by decide
        rw [e'] at hs
        exact hs (by simp [dash])
      simp [hc, mkTagInfo]

theorem anyRequired_eq (f : Field) :
    anyRequired f = (fieldTagInfos f).any (fun t => !t.skip && t.required) := by
  rw [fieldTagInfos_eq]
  unfold anyRequired
  generalize priority = l
  induction l with
  | nil => rfl
  | cons s l ih =>
    rw [List.any_cons, List.filterMap_cons, ih, named_eq]
    cases ht : tagOf f s with
    | none => simp
    | some t =>
      cases hs : t.skip <;> simp [hs]

theorem lookup_of_mem_nodup : ∀ (l : List (Src × Bytes)) (s : Src) (c : Bytes),
    (l.map (·.1)).Nodup → (s, c) ∈ l → l.lookup s = some c
  | [], _, _, _, h => by cases h
  | (s', c') :: l, s, c, hn, h => by
    simp only [List.map_cons, List.nodup_cons] at hn
    simp only [List.lookup_cons]
    rcases List.mem_cons.1 h with h1 | h2
    · cases h1; simp
    · have hne : s ≠ s' := by
        intro e
        exact hn.1 (List.mem_map.2 ⟨(s, c), h2, e⟩)
      have : (s == s') = false := by simpa using hne
      simp only [this]
      exact lookup_of_mem_nodup l s c hn.2 h2

/-- every tag is skipped although there are tags, and a default is declared: the class `dash-only-default` -/
theorem dflt_empty_of_all_skipped {f : Field} (hwf : FieldWF f) (hd : clsDashOnly f = false)
    (hj : tagOf f .json = none) (hall : ∀ t ∈ fieldTagInfos f, t.skip = true) : dfltOf f = [] := by
  unfold tagOf at hj
  by_cases he : f.tags.isEmpty = true
  · simp [he] at hj
  · simp only [he, Bool.false_eq_true, if_false, Option.map_eq_none_iff] at hj
    have hallt : f.tags.all (fun t => (headComma t.2).1 == dash) = true := by
      rw [List.all_eq_true]
      rintro ⟨s, c⟩ hm
      have hl := lookup_of_mem_nodup f.tags s c hwf.2 hm
      have hmem : mkTagInfo f s c ∈ fieldTagInfos f := mem_tis.2 ⟨s, by simp [tagOf, he, hl]⟩
      have hsk := hall _ hmem
      simp only [mkTagInfo, beq_iff_eq] at hsk
      by_cases hh : (headComma c).1 = []
      · simp only [hh, if_true] at hsk; exact absurd hsk hwf.1
      · simp only [hh, if_false] at hsk; simpa using hsk
    unfold clsDashOnly at hd
    simp only [he, Bool.not_false, Bool.true_and, hj, beq_self_eq_true, hallt, Bool.and_true,
      bne_eq_false_iff_eq] at hd
    exact hd

theorem baseLoop_all_skipped (r : Req) : ∀ (tis : List TagInfo) (st : LoopSt),
    (∀ t ∈ tis, t.skip = true ∧ t.key ≠ .json) → baseLoop r tis st = st
  | [], _, _ => rfl
  | t :: tis, st, h => by
    rw [baseLoop_skip r t tis st (h t List.mem_cons_self).1 (h t List.mem_cons_self).2]
    exact baseLoop_all_skipped r tis st (fun t' h' => h t' (List.mem_cons_of_mem _ h'))

theorem sliceLoop_all_skipped (r : Req) : ∀ (tis : List TagInfo) (st : SLoopSt),
    (∀ t ∈ tis, t.skip = true ∧ t.key ≠ .json) → sliceLoop r tis st = st
  | [], _, _ => rfl
  | t :: tis, st, h => by
    rw [sliceLoop_skip r t tis st (h t List.mem_cons_self).1 (h t List.mem_cons_self).2]
    exact sliceLoop_all_skipped r tis st (fun t' h' => h t' (List.mem_cons_of_mem _ h'))


/-! ### what the pre-bind left in the field -/

theorem carries_eq (r : Req) (n : Bytes) : Spec.Bind.jsonCarries r n = (ctFold r && bodyHasKey r n) := by
  unfold Spec.Bind.jsonCarries isJSONRequest bodyHasKey hasBody bodyMembers
  cases hb : r.body <;> cases ctFold r <;> simp

theorem extra_none {f : Field} {r : Req} (hx : clsPrebindExtra f r = false) (hj : isJSONRequest r = true)
    (hn : named f .json = none) : ∀ m ∈ bodyMembers r, jsonMatches f m.1 = false := by
  unfold clsPrebindExtra at hx
  simp only [hj, hn, Bool.true_and, Bool.and_true, List.any_eq_false] at hx
  intro m hm
  simpa using hx m hm

theorem extra_some {f : Field} {r : Req} {n : Bytes} {q : Bool} (hx : clsPrebindExtra f r = false)
    (hj : isJSONRequest r = true) (hn : named f .json = some (n, q)) :
    ∀ m ∈ bodyMembers r, jsonMatches f m.1 = true → m.1 = n := by
  unfold clsPrebindExtra at hx
  simp only [hj, hn, Bool.true_and, List.any_eq_false, Bool.and_eq_true, not_and] at hx
  intro m hm hmt
  simpa using hx m hm hmt

theorem prebind_none {f : Field} {r : Req} {pre : FieldVal} (hx : clsPrebindExtra f r = false)
    (hn : named f .json = none) (hp : preFieldS false r f = .ok pre) : pre = .unset := by
  unfold preFieldS at hp
  by_cases hj : (hasBody r && ctFold r) = true
  · simp only [hj, if_true] at hp
    cases hb : r.body with
    | json ms =>
      simp only [hb, preBindField] at hp
      rw [preBindMembers_nomatch false f _ _ (extra_none hx hj hn)] at hp
      cases hp; rfl
    | none => simp [hb] at hp
    | notJson => simp [hb] at hp
  · simp only [hj, Bool.false_eq_true, if_false] at hp
    cases hp; rfl

theorem prebind_some {f : Field} {r : Req} {pre : FieldVal} {n : Bytes} {q : Bool}
    (hx : clsPrebindExtra f r = false) (hn : named f .json = some (n, q)) (hfn : jsonFieldName f = some n)
    (hp : preFieldS false r f = .ok pre) :
    (Spec.Bind.jsonCarries r n = true → jsonValue f.ty r n = .ok pre) ∧
    (Spec.Bind.jsonCarries r n = false → pre = .unset) := by
  unfold preFieldS at hp
  by_cases hj : (hasBody r && ctFold r) = true
  · simp only [hj, if_true] at hp
    cases hb : r.body with
    | json ms =>
      simp only [hb, preBindField] at hp
      have hmatch : ∀ m ∈ bodyMembers r, jsonMatches f m.1 = (m.1 == n) := by
        intro m hm
        cases hjm : jsonMatches f m.1
        · symm
          rw [beq_eq_false_iff_ne]
          intro e
          rw [e] at hjm
          simp [jsonMatches, hfn, ciEq_refl] at hjm
        · have := extra_some hx hj hn m hm hjm
          simp [this]
      constructor
      · intro _
        rw [jsonValue_def]
        exact preBindMembers_exact f n _ _ _ hmatch hp
      · intro hc
        unfold Spec.Bind.jsonCarries at hc
        have hj' : isJSONRequest r = true := hj
        simp only [hj', Bool.true_and, List.any_eq_false] at hc
        have hno : ∀ m ∈ bodyMembers r, jsonMatches f m.1 = false := by
          intro m hm
          rw [hmatch m hm]
          simpa using hc m hm
        rw [preBindMembers_nomatch false f _ _ hno] at hp
        cases hp; rfl
    | none => simp [hb] at hp
    | notJson => simp [hb] at hp
  · simp only [hj, Bool.false_eq_true, if_false] at hp
    cases hp
    refine ⟨?_, fun _ => rfl⟩
    intro hc
    unfold Spec.Bind.jsonCarries at hc
    have hj' : ¬ isJSONRequest r = true := hj
    simp [hj'] at hc

/-! ### `required` -/

theorem req_false {f : Field} (hjs : ∀ t ∈ fieldTagInfos f, t.key = .json → t.skip = false)
    (h : anyRequired f = false) : ∀ t ∈ fieldTagInfos f, t.effective → t.required = false := by
  rw [anyRequired_eq, List.any_eq_false] at h
  intro t ht he
  have hs : t.skip = false := by
    rcases he with he | he
    · exact hjs t ht he
    · exact he
  have := h t ht
  simpa [hs] using this

theorem req_true {f : Field} (h : anyRequired f = true) :
    ∃ t ∈ fieldTagInfos f, t.effective ∧ t.required = true := by
  rw [anyRequired_eq, List.any_eq_true] at h
  obtain ⟨t, ht, hb⟩ := h
  simp only [Bool.and_eq_true, Bool.not_eq_true'] at hb
  exact ⟨t, ht, Or.inr hb.1, hb.2⟩

/-! ### scalars -/

theorem json_tags_not_skipped {f : Field} (hn : f.name ≠ dash) (hd : clsJsonDash f = false) :
    ∀ t ∈ fieldTagInfos f, t.key = .json → t.skip = false := by
  intro t ht hk
  obtain ⟨s, hs⟩ := mem_tis.1 ht
  have := tagOf_key hs
  rw [hk] at this; subst this
  exact (json_tag_facts hn hd hs).2.1

/-- no text source carries the field: the decoder does what `noText` says -/
theorem noText_base (f : Field) (r : Req) (pre : FieldVal) (hwf : FieldWF f) (hc : fieldClass f r = "")
    (hp : preFieldS false r f = .ok pre) (hs : f.ty.slice = false)
    (hnone : ∀ t ∈ fieldTagInfos f, t.isText → textPresent r t = false) :
    decodeBase r f.ty (fieldTagInfos f) pre = noText f r (defaultOutcome f.ty (dfltOf f) .unset) := by
  obtain ⟨_, hdash, hjd, hx⟩ := class_empty hc
  have hd : ∀ t ∈ fieldTagInfos f, t.dflt = dfltOf f := fieldTagInfos_dflt f
  have hjs := json_tags_not_skipped hwf.1 hjd
  unfold noText
  cases hj : tagOf f .json with
  | none =>
    have hn := no_json_tag_named hj
    have hkey : ∀ t ∈ fieldTagInfos f, t.key ≠ .json := by
      intro t ht e
      obtain ⟨s, hs'⟩ := mem_tis.1 ht
      have := tagOf_key hs'
      rw [e] at this; subst this
      rw [hj] at hs'; cases hs'
    have hpre := prebind_none hx hn hp
    subst hpre
    have hNC : NoneCarries r (fieldTagInfos f) := ⟨hnone, fun t ht e => absurd e (hkey t ht)⟩
    simp only [hn]
    cases hreq : anyRequired f
    · simp only [Bool.false_eq_true, if_false]
      have hr := req_false hjs hreq
      by_cases he : ∃ t ∈ fieldTagInfos f, t.effective
      · exact decodeBase_default r f.ty _ .unset (dfltOf f) hs hNC hr hd he
      · have hall : ∀ t ∈ fieldTagInfos f, t.skip = true ∧ t.key ≠ .json := by
          intro t ht
          refine ⟨?_, hkey t ht⟩
          cases hsk : t.skip
          · exact absurd ⟨t, ht, Or.inr hsk⟩ he
          · rfl
        have hde := dflt_empty_of_all_skipped hwf hdash hj (fun t ht => (hall t ht).1)
        unfold decodeBase
        rw [baseLoop_all_skipped r _ _ hall]
        simp [defaultOutcome, hde]
    · simp only [if_true]
      exact decodeBase_required r f.ty _ .unset hNC (req_true hreq)
  | some tj =>
    obtain ⟨hk, hsk, hjn⟩ := json_tag_facts hwf.1 hjd hj
    have hn := json_tag_named hsk hj
    have hfn := jsonFieldName_of_tag hsk hj
    obtain ⟨hP1, hP2⟩ := prebind_some hx hn hfn hp
    have hsplit := tis_split f
    rw [hj] at hsplit
    simp only [Option.toList] at hsplit
    have hce : Spec.Bind.jsonCarries r tj.value = Hertz.Bind.jsonCarries r tj := by
      rw [carries_eq]; unfold Hertz.Bind.jsonCarries; rw [hjn]
    have hmemj : tj ∈ fieldTagInfos f := mem_tis.2 ⟨.json, hj⟩
    simp only [hn]
    cases hcar : Spec.Bind.jsonCarries r tj.value
    · have := hP2 hcar
      subst this
      have hNC : NoneCarries r (fieldTagInfos f) := by
        refine ⟨hnone, ?_⟩
        intro t ht hkt
        obtain ⟨s, hs'⟩ := mem_tis.1 ht
        have := tagOf_key hs'
        rw [hkt] at this; subst this
        rw [hj] at hs'; cases hs'
        rw [← hce]; exact hcar
      simp only [Bool.false_eq_true, if_false]
      cases hreq : anyRequired f
      · simp only [Bool.false_eq_true, if_false]
        exact decodeBase_default r f.ty _ .unset (dfltOf f) hs hNC (req_false hjs hreq) hd ⟨tj, hmemj, Or.inl hk⟩
      · simp only [if_true]
        exact decodeBase_required r f.ty _ .unset hNC (req_true hreq)
    · simp only [if_true]
      rw [hP1 hcar]
      simp only [ofConv]
      have hpre' : ∀ t ∈ textSources.filterMap (tagOf f), t.isText → textPresent r t = false := by
        intro t ht
        apply hnone t
        rw [hsplit]; exact List.mem_append_left _ ht
      rw [hsplit]
      exact decodeBase_json_last r f.ty _ tj pre hpre' (fun t ht => text_part_not_json ht) hk
        (by rw [keyExist_eq_jsonCarries, ← hce]; exact hcar)

theorem defaultOutcome_spec (f : Field) (hs : f.ty.slice = false) :
    (if dfltOf f = [] then FOut.ok .unset
      else match convText f.ty.base (dfltOf f) with
        | .ok s => .ok (.one s)
        | .err => .err .conv
        | .unk => .unk) = defaultOutcome f.ty (dfltOf f) .unset := by
  unfold defaultOutcome
  rw [toDefaultValue_scalar _ _ hs]
  rfl

/-- **one scalar field**: the decoder of `f`, started on what the pre-bind left, gives what the
specification says -/
theorem scalar_refines (f : Field) (r : Req) (pre : FieldVal) (hwf : FieldWF f) (hc : fieldClass f r = "")
    (hp : preFieldS false r f = .ok pre) (hs : f.ty.slice = false) :
    decodeBase r f.ty (fieldTagInfos f) pre = specScalar f r := by
  unfold specScalar
  rw [firstText_eq]
  cases hf : (fieldTagInfos f).find? (hitB r) with
  | none =>
    simp only [Option.map_none]
    rw [noText_base f r pre hwf hc hp hs (find_none_base r _ hf)]
    congr 1
    exact (defaultOutcome_spec f hs).symm
  | some ti =>
    have hd : ti.dflt = dfltOf f := fieldTagInfos_dflt f ti (List.mem_of_find?_eq_some hf)
    unfold decodeBase
    rw [baseLoop_find_some r _ ti {} hf]
    simp only [Option.map_some, hd, toDefaultValue_scalar _ _ hs]
    generalize (getter r ti.key ti.value).1 = v
    by_cases hv : v = [] <;> by_cases hdd : dfltOf f = [] <;> simp [hv, hdd, textOutcome] <;> rfl

/-! ### slices -/

theorem sliceLoop_json_last (r : Req) (pre : List TagInfo) (tj : TagInfo) (st : SLoopSt)
    (hpre : ∀ t ∈ pre, t.isText → textsPresent r t = false) (hprej : ∀ t ∈ pre, t.key ≠ .json)
    (h0 : st.texts = []) (hk : tj.key = .json) (he : keyExist r tj = true) :
    (sliceLoop r (pre ++ [tj]) st).err = none ∧ (sliceLoop r (pre ++ [tj]) st).texts = [] ∧
    (sliceLoop r (pre ++ [tj]) st).dflt = [] := by
  induction pre generalizing st with
  | nil =>
    have hcr : checkRequireJSON r tj = true := by
      unfold checkRequireJSON
      cases hreq : tj.required
      · simp
      · have := keyExist_jsonCarries r tj he
        unfold Hertz.Bind.jsonCarries at this
        simp only [Bool.and_eq_true] at this
        simp [this.1, this.2]
    rw [List.nil_append, sliceLoop_json r tj [] st hk]
    simp [sliceLoop, jsonBranch, hcr, he, h0]
  | cons t pre ih =>
    have hrest : ∀ t' ∈ pre, t'.isText → textsPresent r t' = false :=
      fun t' h' => hpre t' (List.mem_cons_of_mem _ h')
    have hrestj : ∀ t' ∈ pre, t'.key ≠ .json := fun t' h' => hprej t' (List.mem_cons_of_mem _ h')
    have hk' : t.key ≠ .json := hprej t List.mem_cons_self
    rw [List.cons_append]
    cases hs : t.skip
    · have hg := hpre t List.mem_cons_self ⟨hs, hk'⟩
      rw [sliceLoop_miss r t _ st hs hk' hg]
      exact ih _ hrest hrestj rfl
    · rw [sliceLoop_skip r t _ st hs hk']
      exact ih _ hrest hrestj h0

theorem decodeSlice_json_last (r : Req) (ty : Ty) (pre : List TagInfo) (tj : TagInfo) (prev : FieldVal)
    (hpre : ∀ t ∈ pre, t.isText → textsPresent r t = false) (hprej : ∀ t ∈ pre, t.key ≠ .json)
    (hk : tj.key = .json) (he : keyExist r tj = true) :
    decodeSlice r ty (pre ++ [tj]) prev = .ok prev := by
  unfold decodeSlice
  obtain ⟨h1, h2, h3⟩ := sliceLoop_json_last r pre tj {} hpre hprej rfl hk he
  simp [h1, h2, h3]

theorem noText_slice (f : Field) (r : Req) (pre : FieldVal) (hwf : FieldWF f) (hc : fieldClass f r = "")
    (hp : preFieldS false r f = .ok pre)
    (hnone : ∀ t ∈ fieldTagInfos f, t.isText → textsPresent r t = false) :
    decodeSlice r f.ty (fieldTagInfos f) pre = noText f r (defaultOutcomeS f.ty (dfltOf f) .unset) := by
  obtain ⟨_, hdash, hjd, hx⟩ := class_empty hc
  have hd : ∀ t ∈ fieldTagInfos f, t.dflt = dfltOf f := fieldTagInfos_dflt f
  have hjs := json_tags_not_skipped hwf.1 hjd
  unfold noText
  cases hj : tagOf f .json with
  | none =>
    have hn := no_json_tag_named hj
    have hkey : ∀ t ∈ fieldTagInfos f, t.key ≠ .json := by
      intro t ht e
      obtain ⟨s, hs'⟩ := mem_tis.1 ht
      have := tagOf_key hs'
      rw [e] at this; subst this
      rw [hj] at hs'; cases hs'
    have hpre := prebind_none hx hn hp
    subst hpre
    have hNC : NoneCarriesS r (fieldTagInfos f) := ⟨hnone, fun t ht e => absurd e (hkey t ht)⟩
    simp only [hn]
    cases hreq : anyRequired f
    · simp only [Bool.false_eq_true, if_false]
      have hr := req_false hjs hreq
      by_cases he : ∃ t ∈ fieldTagInfos f, t.effective
      · exact decodeSlice_default r f.ty _ .unset (dfltOf f) hNC hr hd he
      · have hall : ∀ t ∈ fieldTagInfos f, t.skip = true ∧ t.key ≠ .json := by
          intro t ht
          refine ⟨?_, hkey t ht⟩
          cases hsk : t.skip
          · exact absurd ⟨t, ht, Or.inr hsk⟩ he
          · rfl
        have hde := dflt_empty_of_all_skipped hwf hdash hj (fun t ht => (hall t ht).1)
        unfold decodeSlice
        rw [sliceLoop_all_skipped r _ _ hall]
        simp [defaultOutcomeS, hde]
    · simp only [if_true]
      exact decodeSlice_required r f.ty _ .unset hNC (req_true hreq)
  | some tj =>
    obtain ⟨hk, hsk, hjn⟩ := json_tag_facts hwf.1 hjd hj
    have hn := json_tag_named hsk hj
    have hfn := jsonFieldName_of_tag hsk hj
    obtain ⟨hP1, hP2⟩ := prebind_some hx hn hfn hp
    have hsplit := tis_split f
    rw [hj] at hsplit
    simp only [Option.toList] at hsplit
    have hce : Spec.Bind.jsonCarries r tj.value = Hertz.Bind.jsonCarries r tj := by
      rw [carries_eq]; unfold Hertz.Bind.jsonCarries; rw [hjn]
    have hmemj : tj ∈ fieldTagInfos f := mem_tis.2 ⟨.json, hj⟩
    simp only [hn]
    cases hcar : Spec.Bind.jsonCarries r tj.value
    · have := hP2 hcar
      subst this
      have hNC : NoneCarriesS r (fieldTagInfos f) := by
        refine ⟨hnone, ?_⟩
        intro t ht hkt
        obtain ⟨s, hs'⟩ := mem_tis.1 ht
        have := tagOf_key hs'
        rw [hkt] at this; subst this
        rw [hj] at hs'; cases hs'
        rw [← hce]; exact hcar
      simp only [Bool.false_eq_true, if_false]
      cases hreq : anyRequired f
      · simp only [Bool.false_eq_true, if_false]
        exact decodeSlice_default r f.ty _ .unset (dfltOf f) hNC (req_false hjs hreq) hd ⟨tj, hmemj, Or.inl hk⟩
      · simp only [if_true]
        exact decodeSlice_required r f.ty _ .unset hNC (req_true hreq)
    · simp only [if_true]
      rw [hP1 hcar]
      simp only [ofConv]
      have hpre' : ∀ t ∈ textSources.filterMap (tagOf f), t.isText → textsPresent r t = false := by
        intro t ht
        apply hnone t
        rw [hsplit]; exact List.mem_append_left _ ht
      rw [hsplit]
      exact decodeSlice_json_last r f.ty _ tj pre hpre' (fun t ht => text_part_not_json ht) hk
        (by rw [keyExist_eq_jsonCarries, ← hce]; exact hcar)

/-- assigning a JSON value to a slice does not look at what the slice held -/
theorem jsonFromText_slice_prev (ty : Ty) (hs : ty.slice = true) (prev : FieldVal) (text : Bytes) :
    jsonFromText ty prev text = jsonFromText ty .unset text := by
  unfold jsonFromText
  cases parseSliceJSON text with
  | err => rfl
  | unk => rfl
  | ok v =>
    have : jsonStep true ty prev v = jsonStep true ty .unset v := by
      unfold jsonStep
      simp only [hs, if_true]
    simp only [this]

/-- **one slice field** -/
theorem slice_refines (f : Field) (r : Req) (pre : FieldVal) (hwf : FieldWF f) (hc : fieldClass f r = "")
    (hp : preFieldS false r f = .ok pre) (hs : f.ty.slice = true) :
    decodeSlice r f.ty (fieldTagInfos f) pre = specSlice f r := by
  unfold specSlice
  rw [firstTexts_eq]
  cases hf : (fieldTagInfos f).find? (hitS r) with
  | none =>
    simp only [Option.map_none]
    rw [noText_slice f r pre hwf hc hp (find_none_slice r _ hf)]
    rfl
  | some ti =>
    have hhit := List.find?_some hf
    simp only [hitS, textsPresent, Bool.and_eq_true, bne_iff_ne, ne_eq] at hhit
    cases hg : sliceGetter r ti.key ti.value with
    | nil => exact absurd hg hhit.2
    | cons t0 ts =>
      unfold decodeSlice
      rw [sliceLoop_find_some r _ ti {} hf]
      simp only [Option.map_some, hg]
      unfold textsOutcome
      rw [jsonFromText_slice_prev f.ty hs pre t0]
      simp
      rfl

/-! ## 7. all fields -/

theorem field_refines (f : Field) (r : Req) (pre : FieldVal) (hwf : FieldWF f) (hc : fieldClass f r = "")
    (hp : preFieldS false r f = .ok pre) : (compileField f).run r pre = specField f r := by
  unfold FieldDec.run compileField specField
  cases hs : f.ty.slice
  · simp only [Bool.false_eq_true, if_false]
    exact scalar_refines f r pre hwf hc hp hs
  · simp only [if_true]
    exact slice_refines f r pre hwf hc hp hs

theorem runDecoders_refines (r : Req) : ∀ (fields : List Field) (pres : List FieldVal),
    (∀ f ∈ fields, FieldWF f) → (∀ f ∈ fields, fieldClass f r = "") →
    PreOK (preFieldS false r) fields pres → runDecoders r (compile fields) pres = specFields r fields
  | [], _, _, _, _ => rfl
  | _ :: _, [], _, _, h => h.elim
  | f :: fs, p :: ps, hwf, hc, h => by
    have ih := runDecoders_refines r fs ps (fun g hg => hwf g (List.mem_cons_of_mem _ hg))
      (fun g hg => hc g (List.mem_cons_of_mem _ hg)) h.2
    have hf := field_refines f r p (hwf f List.mem_cons_self) (hc f List.mem_cons_self) h.1
    unfold compile at ih ⊢
    simp only [List.map_cons, runDecoders, List.headD_cons, List.tail_cons, specFields, hf, ih]
    cases specField f r with
    | err e => rfl
    | unk => rfl
    | ok v => cases specFields r fs <;> rfl

/-- **`bind` refines the declarative specification** on well-formed field descriptions outside the classes
of known findings -/
theorem bind_refines (fields : List Field) (r : Req) (hwf : ∀ f ∈ fields, FieldWF f)
    (hc : ∀ f ∈ fields, fieldClass f r = "") : bind fields r = specBind fields r := by
  unfold bind bindWith specBind
  rw [preBind_sonic r fields (fun f hf => (class_empty (hc f hf)).1)]
  cases h : preBind false r fields with
  | err => rfl
  | unk => rfl
  | ok pres => exact runDecoders_refines r fields pres hwf hc (preBind_ok false r fields pres h)


theorem class_empty_of {f : Field} {r : Req} (h1 : clsSonicU32 f r = false) (h2 : clsDashOnly f = false)
    (h3 : clsJsonDash f = false) (h4 : clsPrebindExtra f r = false) : fieldClass f r = "" := by
  simp [fieldClass, h1, h2, h3, h4]

/-! ## 8. the tag-restricted entry points (`BindPath`/`BindForm`/`BindQuery`/`BindHeader`) against `specFieldsBy` -/

/-- `getFieldTagInfoByTag` yields one tag, read as the specification reads the struct tag of that source -/
theorem tagInfoByTag_spec (f : Field) (s : Src) :
    ∃ t, tagInfoByTag f s = [t] ∧ t.key = s ∧ t.dflt = [] ∧
      namedBy f s = (if t.skip then none else some (t.value, t.required)) := by
  unfold tagInfoByTag namedBy
  cases hl : f.tags.lookup s with
  | none => exact ⟨_, rfl, rfl, rfl, by simp⟩
  | some c =>
    obtain ⟨tl, h1, h2⟩ := splitComma_head c []
    simp only [List.reverse_nil, List.nil_append] at h1
    refine ⟨_, rfl, rfl, rfl, ?_⟩
    simp only [h1, h2, List.isEmpty_iff]

theorem fieldBy_refines (f : Field) (r : Req) (s : Src) (hs : s ≠ .json) :
    (compileFieldBy (some s) f).run r .unset = specFieldBy s f r := by
  obtain ⟨t, ht, hk, hd, hn⟩ := tagInfoByTag_spec f s
  unfold specFieldBy
  simp only [compileFieldBy, FieldDec.run, ht]
  subst hk
  have hkj : ¬ t.key = .json := hs
  cases hsl : f.ty.slice
  · -- scalar
    simp only [Bool.false_eq_true, if_false]
    unfold decodeBase
    cases hsk : t.skip
    · simp only [hsk, Bool.false_eq_true, if_false] at hn
      simp only [hn, baseLoop, hsk, hkj, Bool.false_eq_true, false_or, if_false, getter_eq]
      cases hp : present r t.key t.value with
      | none =>
        simp only [asPair, Bool.false_eq_true, if_false, hd]
        cases t.required <;> simp
      | some v =>
        simp only [asPair, if_true, hd]
        simp only [textOutcome, ne_eq, not_true_eq_false, and_false, if_false, Bool.not_true, Bool.false_eq_true, false_and]
        cases convText f.ty.base v <;> rfl
    · simp only [hsk, if_true] at hn
      simp [hn, baseLoop, hsk, hkj]
  · simp only [if_true]
    unfold decodeSlice
    cases hsk : t.skip
    · simp only [hsk, Bool.false_eq_true, if_false] at hn
      simp only [hn, sliceLoop, hsk, hkj, Bool.false_eq_true, false_or, if_false, sliceGetter_eq]
      cases hp : presentAll r t.key t.value with
      | nil =>
        simp only [ne_eq, not_true_eq_false, if_false, hd]
        cases t.required <;> simp
      | cons t0 ts =>
        simp only [textsOutcome, hd, ne_eq, not_true_eq_false, and_false, if_false, reduceCtorEq, not_false_eq_true, if_true]
        cases convAll f.ty.base (t0 :: ts) <;> rfl
    · simp only [hsk, if_true] at hn
      simp [hn, sliceLoop, hsk, hkj]

theorem runDecodersBy_refines (r : Req) (s : Src) (hs : s ≠ .json) : ∀ (fields : List Field) (pres : List FieldVal),
    (∀ p ∈ pres, p = .unset) →
    runDecoders r (compileBy (some s) fields) pres = specFieldsBy s r fields
  | [], _, _ => rfl
  | f :: fs, pres, hp => by
    have hh : pres.headD .unset = .unset := by
      cases pres with
      | nil => rfl
      | cons p ps => exact hp p List.mem_cons_self
    have ht : ∀ p ∈ pres.tail, p = .unset := fun p h => hp p (List.mem_of_mem_tail h)
    simp only [compileBy, List.map_cons, runDecoders, specFieldsBy, hh, fieldBy_refines f r s hs]
    have ih := runDecodersBy_refines r s hs fs pres.tail ht
    simp only [compileBy] at ih
    rw [ih]
    cases specFieldBy s f r with
    | err e => rfl
    | unk => rfl
    | ok v => cases specFieldsBy s r fs <;> rfl

/-- **Tag-restricted entry points.** For every type and request, `BindPath` / `BindForm` / `BindQuery` /
`BindHeader` compute what their one-source specification says (no hypothesis on the fields). -/
theorem bindBy_refines (s : Src) (hs : s ≠ .json) (fields : List Field) (r : Req) :
    bindBy (some s) fields r = specBindBy (some s) fields r := by
  unfold bindBy bindWithBy specBindBy
  exact runDecodersBy_refines r s hs fields _ (by intro p hp; simp at hp; exact hp.2.symm)

end Hertz.Bind
