import Hertz.Model.ArgsProg
import Hertz.Proofs.Args
import Hertz.Proofs.ArgsStd
import Hertz.Proofs.CookieRt
/-!
Setter-side round trips (`Model/ArgsProg.lean`):
* `runArgOps_roundtrip`: after ANY program of `Add/Set/Del/ParseBytes/Reset`, `ParseBytes(QueryString())` yields the visible
  entries, those with both key and value empty excepted;
* `parseReqCookies_appendReqCookies`: well-formed request cookies survive the `Cookie:` line.
-/
namespace Hertz
open Hertz.Uri

/-! ### Args programs -/

def ArgsInv (l : List ArgKV) : Prop := ∀ kv ∈ l, kv.noValue = true → kv.value = []

theorem setArg_inv (l : List ArgKV) (k v : Bytes) (h : ArgsInv l) : ArgsInv (setArg l k v) := by
  induction l with
  | nil =>
    intro kv hkv hnv
    simp only [setArg, List.mem_singleton] at hkv
    subst hkv
    cases hnv
  | cons a t ih =>
    unfold setArg
    split
    · intro kv hkv hnv
      rcases List.mem_cons.mp hkv with e | e
      · subst e; cases hnv
      · exact h kv (by simp [e]) hnv
    · intro kv hkv hnv
      rcases List.mem_cons.mp hkv with e | e
      · subst e; exact h _ (by simp) hnv
      · exact ih (fun x hx => h x (by simp [hx])) kv e hnv

theorem argStep_inv (l : List ArgKV) (op : ArgOp) (h : ArgsInv l) : ArgsInv (argStep l op) := by
  cases op with
  | add k v =>
    intro kv hkv hnv
    simp only [argStep, List.mem_append, List.mem_singleton] at hkv
    rcases hkv with e | e
    · exact h kv e hnv
    · subst e; cases hnv
  | set k v => exact setArg_inv l k v h
  | del k =>
    intro kv hkv hnv
    simp only [argStep, delArgs, List.mem_filter] at hkv
    exact h kv hkv.1 hnv
  | parse b => exact parseArgs_wf b
  | reset => intro kv hkv; cases hkv

theorem foldl_inv (ops : List ArgOp) : ∀ l, ArgsInv l → ArgsInv (ops.foldl argStep l) := by
  induction ops with
  | nil => intro l h; exact h
  | cons o r ih => intro l h; exact ih _ (argStep_inv l o h)

/-- every `Args` value reachable through the public mutators keeps "an entry flagged no-value has an empty value" -/
theorem runArgOps_inv (ops : List ArgOp) : ArgsInv (runArgOps ops) :=
  foldl_inv ops [] (fun kv hkv => by cases hkv)

theorem runArgOps_roundtrip (ops : List ArgOp) :
    parseArgs (appendArgs (runArgOps ops)) = (runArgOps ops).filter (fun kv => !kv.bothEmpty) :=
  parseArgs_appendArgs _ (runArgOps_inv ops)

/-- `Peek` on the re-parsed list: the value of the first entry with that key, for every non-empty key -/
theorem peek_roundtrip (ops : List ArgOp) (k : Bytes) (hk : k ≠ []) :
    peekArg (parseArgs (appendArgs (runArgOps ops))) k = peekArg (runArgOps ops) k := by
  rw [runArgOps_roundtrip]
  unfold peekArg
  congr 1
  generalize runArgOps ops = l
  induction l with
  | nil => rfl
  | cons a t ih =>
    by_cases hb : a.bothEmpty = true
    · have hak : a.key = [] := by
        simp only [ArgKV.bothEmpty, Bool.and_eq_true, List.isEmpty_iff] at hb
        exact hb.1
      have hne : (a.key == k) = false := by
        rw [hak]
        cases k with
        | nil => exact absurd rfl hk
        | cons _ _ => rfl
      simp only [List.filter_cons, hb, Bool.not_true, Bool.false_eq_true, if_false, List.find?_cons, hne]
      exact ih
    · have hb' : a.bothEmpty = false := by simpa using hb
      simp only [List.filter_cons, hb', Bool.not_false, if_true, List.find?_cons]
      cases (a.key == k) with
      | true => rfl
      | false => exact ih

/-! ### request cookies -/

theorem decodeCookieArg_sp (s : Bytes) (q : Bool) : decodeCookieArg (32 :: s) q = decodeCookieArg s q := by
  simp [decodeCookieArg, trimSp]

theorem wfReqCookie_spec (kv : Bytes × Bytes) (h : wfReqCookie kv = true) :
    (∀ x ∈ kv.1, x ≠ 59) ∧ (∀ x ∈ kv.1, x ≠ 61) ∧ decodeCookieArg kv.1 false = kv.1 ∧
    (∀ x ∈ kv.2, x ≠ 59) ∧ decodeCookieArg kv.2 true = kv.2 ∧ (kv.1.isEmpty = true → ∀ x ∈ kv.2, x ≠ 61) := by
  simp only [wfReqCookie, Bool.and_eq_true, Bool.not_eq_true', beq_iff_eq, Bool.and_eq_false_iff] at h
  obtain ⟨⟨⟨⟨⟨h1, h2⟩, h3⟩, h4⟩, h5⟩, h6⟩ := h
  refine ⟨not_contains _ _ h1, not_contains _ _ h2, h3.symm, not_contains _ _ h4, h5.symm, ?_⟩
  intro he
  rcases h6 with h6 | h6
  · rw [he] at h6; cases h6
  · exact not_contains _ _ h6

/-- the blank that follows `;` is trimmed away: with or without it the scanner recovers the cookie -/
theorem cookieKV_reqSeg (kv : Bytes × Bytes) (h : wfReqCookie kv = true) (p : Bytes) (hp : p = [] ∨ p = [32]) :
    cookieKV (p ++ reqCookieSeg kv) = kv := by
  obtain ⟨_, hk61, hkd, _, hvd, hv61⟩ := wfReqCookie_spec kv h
  obtain ⟨k, v⟩ := kv
  simp only at hk61 hkd hvd hv61
  unfold reqCookieSeg
  simp only
  by_cases hk : k.isEmpty = true
  · simp only [hk, if_true, List.nil_append]
    have hk' := isEmpty_eq_nil _ hk
    subst hk'
    rcases hp with hp | hp
    · subst hp
      rw [List.nil_append, cookieKV_none _ (hv61 rfl), hvd]
    · subst hp
      rw [List.singleton_append, cookieKV_none _ (by
        intro x hx
        rcases List.mem_cons.mp hx with e | e
        · subst e; decide
        · exact hv61 rfl x e), decodeCookieArg_sp, hvd]
  · simp only [hk, if_false, Bool.false_eq_true]
    rcases hp with hp | hp
    · subst hp
      rw [List.nil_append, List.append_assoc, List.singleton_append, cookieKV_eq _ _ hk61, hkd, hvd]
    · subst hp
      have : [32] ++ (k ++ [61] ++ v) = (32 :: k) ++ 61 :: v := by simp
      rw [this, cookieKV_eq _ _ (by
        intro x hx
        rcases List.mem_cons.mp hx with e | e
        · subst e; decide
        · exact hk61 x e), decodeCookieArg_sp, hkd, hvd]

theorem reqSeg_no_semi (kv : Bytes × Bytes) (h : wfReqCookie kv = true) (p : Bytes) (hp : p = [] ∨ p = [32]) :
    ∀ x ∈ p ++ reqCookieSeg kv, x ≠ 59 := by
  obtain ⟨hk59, _, _, hv59, _, _⟩ := wfReqCookie_spec kv h
  intro x hx
  rw [List.mem_append] at hx
  rcases hx with hx | hx
  · rcases hp with hp | hp
    · subst hp; cases hx
    · subst hp; rw [List.mem_singleton] at hx; subst hx; decide
  · unfold reqCookieSeg at hx
    rw [List.mem_append] at hx
    rcases hx with hx | hx
    · split at hx
      · cases hx
      · rw [List.mem_append] at hx
        rcases hx with hx | hx
        · exact hk59 x hx
        · rw [List.mem_singleton] at hx; subst hx; decide
    · exact hv59 x hx

def pairNE (kv : Bytes × Bytes) : Bool := !(kv.1.isEmpty && kv.2.isEmpty)

theorem reqSeg_nil_iff (kv : Bytes × Bytes) : reqCookieSeg kv = [] ↔ pairNE kv = false := by
  obtain ⟨k, v⟩ := kv
  unfold reqCookieSeg pairNE
  cases k <;> cases v <;> simp

theorem reqCookies_aux (l : List (Bytes × Bytes)) : ∀ (p : Bytes), (p = [] ∨ p = [32]) → (∀ kv ∈ l, wfReqCookie kv = true) →
    ((cookieSegs (p ++ appendReqCookies l)).map cookieKV).filter pairNE = l.filter pairNE := by
  induction l with
  | nil =>
    intro p hp _
    rcases hp with hp | hp <;> subst hp <;> decide
  | cons kv t ih =>
    intro p hp hwf
    have hkv := hwf kv (by simp)
    have hK := cookieKV_reqSeg kv hkv p hp
    have hS := reqSeg_no_semi kv hkv p hp
    cases t with
    | nil =>
      simp only [appendReqCookies]
      by_cases hne : p ++ reqCookieSeg kv = []
      · rw [hne]
        have : reqCookieSeg kv = [] := (List.append_eq_nil_iff.mp hne).2
        rw [reqSeg_nil_iff] at this
        simp [cookieSegs, this]
      · rw [cookieSegs_single _ hS hne]
        simp only [List.map_cons, List.map_nil, hK]
    | cons kv2 t2 =>
      simp only [appendReqCookies]
      rw [← List.append_assoc, cookieSegs_cons_semi _ _ hS]
      simp only [List.map_cons, hK]
      have := ih [32] (Or.inr rfl) (fun x hx => hwf x (by simp [hx]))
      simp only [List.singleton_append] at this
      by_cases hb : pairNE kv = true
      · rw [List.filter_cons_of_pos hb, List.filter_cons_of_pos hb, this]
      · rw [List.filter_cons_of_neg hb, List.filter_cons_of_neg hb, this]

/-- `parseRequestCookies(appendRequestCookieBytes(l)) = l` minus the entries with neither key nor value, for every list of
well-formed request cookies. -/
theorem parseReqCookies_appendReqCookies (l : List (Bytes × Bytes)) (h : ∀ kv ∈ l, wfReqCookie kv = true) :
    parseReqCookies (appendReqCookies l) = l.filter pairNE := by
  have := reqCookies_aux l [] (Or.inl rfl) h
  rw [List.nil_append] at this
  exact this

/-- what `parseRequestCookies` yields is well-formed: re-serialising and parsing again is a fixed point -/
theorem cookieKV_wf_fixed (l : List (Bytes × Bytes)) (h : ∀ kv ∈ l, wfReqCookie kv = true) :
    parseReqCookies (appendReqCookies (parseReqCookies (appendReqCookies l))) = parseReqCookies (appendReqCookies l) := by
  rw [parseReqCookies_appendReqCookies l h]
  rw [parseReqCookies_appendReqCookies _ (fun kv hkv => h kv (List.mem_filter.mp hkv).1)]
  simp [List.filter_filter]

end Hertz
