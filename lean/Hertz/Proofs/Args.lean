import Hertz.Model.Args
import Hertz.Proofs.Bytesconv
namespace Hertz

theorem cut1_none (sep : UInt8) (a : Bytes) (h : ∀ x ∈ a, x ≠ sep) : cut1 sep a = (a, none) := by
  induction a with
  | nil => rfl
  | cons c t ih =>
    have hc : c ≠ sep := h c (by simp)
    simp [cut1, hc, ih (fun x hx => h x (by simp [hx]))]

theorem cut1_some (sep : UInt8) (a b : Bytes) (h : ∀ x ∈ a, x ≠ sep) :
    cut1 sep (a ++ sep :: b) = (a, some b) := by
  induction a with
  | nil => simp [cut1]
  | cons c t ih =>
    have hc : c ≠ sep := h c (by simp)
    simp [cut1, hc, ih (fun x hx => h x (by simp [hx]))]

theorem argSegs_cons_amp (seg rest : Bytes) (h : ∀ x ∈ seg, x ≠ 38) :
    argSegs (seg ++ 38 :: rest) = seg :: argSegs rest := by
  induction seg with
  | nil => simp [argSegs]
  | cons c t ih =>
    have hc : c ≠ 38 := h c (by simp)
    simp [argSegs, hc, ih (fun x hx => h x (by simp [hx]))]

theorem argSegs_single (seg : Bytes) (h : ∀ x ∈ seg, x ≠ 38) (hne : seg ≠ []) : argSegs seg = [seg] := by
  induction seg with
  | nil => exact absurd rfl hne
  | cons c t ih =>
    have hc : c ≠ 38 := h c (by simp)
    match t, ih with
    | [], _ => simp [argSegs, hc]
    | d :: r, ih =>
      have := ih (fun x hx => h x (by simp [hx])) (by simp)
      simp only [argSegs, hc, if_false] at this ⊢
      rw [this]

def WfArg (kv : ArgKV) : Prop := kv.noValue = true → kv.value = []

theorem appendArg_no_amp (kv : ArgKV) : ∀ x ∈ appendArg kv, x ≠ 38 := by
  intro x hx
  unfold appendArg at hx
  simp only [List.mem_append] at hx
  rcases hx with hx | hx
  · exact (quoteArg_no_special _ x hx).1
  · split at hx
    · simp at hx
    · simp only [List.mem_cons] at hx
      rcases hx with hx | hx
      · subst hx; decide
      · exact (quoteArg_no_special _ x hx).1

theorem parseSeg_appendArg (kv : ArgKV) (h : WfArg kv) : parseSeg (appendArg kv) = kv := by
  have hk : ∀ x ∈ quoteArg kv.key, x ≠ 61 := fun x hx => (quoteArg_no_special _ x hx).2.1
  unfold parseSeg appendArg
  cases hn : kv.noValue with
  | true =>
    simp only [if_true, List.append_nil]
    rw [cut1_none 61 _ hk]
    simp only [decode_quoteArg]
    cases kv; simp_all [WfArg]
  | false =>
    simp only [Bool.false_eq_true, if_false]
    rw [cut1_some 61 _ _ hk]
    simp only [decode_quoteArg]
    cases kv; simp_all

theorem appendArg_nil_bothEmpty (kv : ArgKV) (h : WfArg kv) (he : appendArg kv = []) : kv.bothEmpty = true := by
  unfold appendArg at he
  cases hn : kv.noValue with
  | true =>
    simp [hn] at he
    have hk : kv.key = [] := by
      cases hkk : kv.key with
      | nil => rfl
      | cons c t => rw [hkk] at he; simp [quoteArg] at he; split at he <;> (try split at he) <;> simp_all [pctEnc]
    simp [ArgKV.bothEmpty, hk, h hn]
  | false => simp [hn] at he

theorem parseArgs_appendArgs (l : List ArgKV) (h : ∀ kv ∈ l, WfArg kv) :
    parseArgs (appendArgs l) = l.filter (fun kv => !kv.bothEmpty) := by
  induction l with
  | nil => simp [appendArgs, parseArgs, argSegs]
  | cons kv t ih =>
    have hkv := h kv (by simp)
    match t, ih with
    | [], _ =>
      simp only [appendArgs]
      by_cases he : appendArg kv = []
      · have := appendArg_nil_bothEmpty kv hkv he
        simp [he, parseArgs, argSegs, this]
      · simp [parseArgs, argSegs_single _ (appendArg_no_amp kv) he, parseSeg_appendArg kv hkv]
    | k2 :: r, ih =>
      have ih' := ih (fun x hx => h x (by simp [hx]))
      simp only [appendArgs] at ih' ⊢
      unfold parseArgs at ih' ⊢
      rw [argSegs_cons_amp _ _ (appendArg_no_amp kv)]
      simp only [List.map_cons, parseSeg_appendArg kv hkv, List.filter_cons]
      rw [ih']
      simp [List.filter_cons]

end Hertz
