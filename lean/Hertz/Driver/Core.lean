import Hertz.Basic
/-!
Line protocol shared by all correspondence checks.

A case is one line:  `op arg₁ … argₙ | out₁ … outₘ`  (space separated tokens; byte strings are hex,
`-` is the empty byte string; integers are decimal).  The tokens after `|` are what the
*implementation* produced.  For every line the driver computes
  * the model's output tokens (compared verbatim with the implementation's),
  * the verdict of the property's spec predicate on the implementation's output,
  * a branch tag (used to measure how varied the generated cases are).
-/
namespace Hertz.Driver

structure Result where
  out : List String
  spec : Bool := true
  specNote : String := ""
  tag : String := ""
  /-- for a spec failure: name of the known-finding class the case falls in ("" = none) -/
  cls : String := ""

abbrev Handler := List String → List String → Option Result

def hx (s : String) : Option Bytes := fromHex s

def sizeClass (n : Nat) : String :=
  if n = 0 then "0" else if n < 4 then "s" else if n < 64 then "m" else "l"

def boolTok (b : Bool) : String := if b then "1" else "0"

end Hertz.Driver
