import Hertz.Driver.Core
import Hertz.Model.GroupPath
import Hertz.Model.RouteIter
/-!
Correspondence + spec handler for the group-path part of C06 (ops `pclean`, `pjoin`, `grp`, see
`harness/c06grp.go`).  Spec predicate on the IMPLEMENTATION's absolute path: it is `path.Clean` of the
slash-joined prefixes and relative path (root "/"), plus one trailing slash exactly when the last
non-empty part ends in `/` and the cleaned path is not `/`; it starts with `/`, has no empty, `.` or
`..` element; a wildcard-free pattern serves a GET of itself.
-/
namespace Hertz.Driver.C06g
open Hertz Hertz.Driver Hertz.Route Hertz.Route.GroupPath

def takeHexs : Nat → List String → Option (List Bytes × List String)
  | 0, t => some ([], t)
  | n + 1, a :: t => do
    let a ← hx a
    let (r, t') ← takeHexs n t
    pure (a :: r, t')
  | _, _ => none

def faultTok : Fault → String
  | .panic _ => "runtime"
  | .invalid => "invalid"
  | .conflict => "conflict"
  | .assert => "assert"

/-- "/" ++ p1 ++ "/" ++ p2 … -/
def joinAll : List Bytes → Bytes
  | [] => []
  | p :: r => 47 :: p ++ joinAll r

def stripSlash (p : Bytes) : Bytes := if p.length > 1 && p.getLast? == some 47 then p.dropLast else p

def cleanShape (p : Bytes) : Bool :=
  p.head? == some 47 && (elems p).all (fun e => e != [46] && e != [46, 46]) &&
  (p == [47] || joinAll (elems p) == stripSlash p)

def specAbs (parts : List Bytes) (abs : Bytes) : Bool :=
  let ne := parts.filter (· != [])
  let wantSlash := match ne.getLast? with | some l => l.getLast? == some 47 | none => true
  cleanShape abs && stripSlash abs == pathClean (joinAll parts) &&
  (abs == [47] || (abs.getLast? == some 47) == wantSlash)

/-- bases after each nesting step -/
def bases : Bytes → List Bytes → Except Fault (List Bytes)
  | _, [] => .ok []
  | b, p :: r =>
    match joinPaths b p with
    | .error f => .error f
    | .ok b' => match bases b' r with | .error f => .error f | .ok l => .ok (b' :: l)

def handle : Handler
  | ["pclean", a], impl => do
    let a ← hx a
    let o := pathClean a
    let implB := (impl.head? >>= hx).getD []
    pure { out := [encHex o],
           spec := (a.head? != some 47 || cleanShape implB) && pathClean implB == implB,
           specNote := "path.Clean: rooted input gives a rooted path without empty/./.. elements; idempotent",
           tag := "pclean:" ++ sizeClass a.length ++ boolTok (a.head? == some 47) ++ boolTok (o == a)
                    ++ boolTok ((elems a).contains [46, 46]) ++ boolTok (o == [46]) }
  | ["pjoin", a, b], _ => do
    let a ← hx a; let b ← hx b
    pure { out := [encHex (pathJoin2 a b)],
           tag := "pjoin:" ++ boolTok a.isEmpty ++ boolTok b.isEmpty ++ boolTok (a.head? == some 47) }
  | "grp" :: k :: rest, impl => do
    let k := k.toNat!
    let (pre, rest) ← takeHexs k rest
    let rel ← match rest with | [r] => hx r | _ => none
    match bases [47] pre with
    | .error _ => pure { out := ["PANIC"], spec := false, tag := "grp:panic" }
    | .ok bs =>
      let baseToks := bs.map encHex
      let base := bs.getLast?.getD [47]
      let parts := pre ++ [rel]
      let wild := parts.any (fun p => p.contains 58 || p.contains 42)
      let tagBase := "grp:d" ++ toString k ++ ":e" ++ boolTok rel.isEmpty ++ "w" ++ boolTok wild
      match joinPaths base rel with
      | .error _ => pure { out := ["PANIC"], spec := false, tag := "grp:panic" }
      | .ok abs =>
        let basesOk := (List.range bs.length).all (fun i => specAbs (pre.take (i + 1)) (bs.getD i []))
        match ({} : Engine).addRoute [71, 69, 84] abs 1 with
        | .error f =>
          pure { out := baseToks ++ ["REJ", faultTok f], spec := basesOk && impl.getLast? != some "runtime",
                 specNote := "group bases are cleaned joins; refusal is not a run-time error",
                 tag := tagBase ++ ":rej:" ++ faultTok f }
        | .ok e =>
          let implAbs := match impl.drop bs.length with | "A" :: a :: _ => (hx a).getD [] | _ => []
          let implRes := impl.getLast?.getD ""
          let noWild := !(abs.contains 58 || abs.contains 42)
          let served := match Iter.Engine.serveIter e {} [71, 69, 84] abs with | .handler _ => "H" | _ => "N"
          let appended := abs.getLast? == some 47 && abs != [47]
          pure { out := baseToks ++ ["A", encHex abs, if noWild then served else "N"],
                 spec := basesOk && specAbs parts implAbs && (!noWild || implRes == "H"),
                 specNote := "absolute pattern = path.Clean of the slash-joined prefixes and relative path, trailing slash iff the last non-empty part ends in / ; clean shape; a wildcard-free pattern serves itself",
                 tag := tagBase ++ ":ok:s" ++ boolTok appended ++ "c" ++ boolTok (stripSlash abs != joinAll (parts.filter (· != []))) }
  | _, _ => none

end Hertz.Driver.C06g
