import Hertz.Driver.Core
import Hertz.Spec.Http
import Hertz.Spec.Trailers
/-!
Spec step for the `serve` op (C01/C02/C03): evaluates, on the IMPLEMENTATION's output tokens,
 * C01: if the inbound stream is a well-formed unambiguous pipelined stream (strict decoder of
   `Spec/Http.lean`), the handler saw exactly those requests, in order, and one 200 per request
   came back in order;
 * C03: the outbound bytes are well-formed HTTP, an error response (4xx) carries `Connection: close`,
   is the last thing written, and no handler ran for it; no panic, no hang.
-/
namespace Hertz.Driver.H1Spec
open Hertz Hertz.Driver Hertz.Spec.Http

structure SeenTok where
  method : Bytes
  uri : Bytes
  host : Bytes
  ua : Bytes
  ct : Bytes
  h : List (Bytes × Bytes)
  trailerNames : List Bytes
  body : Bytes
  trailers : List (Bytes × Bytes)
  connClose : Bool

def takePairs : Nat → List String → Option (List (Bytes × Bytes) × List String)
  | 0, t => some ([], t)
  | n + 1, k :: v :: t => do
    let k ← hx k; let v ← hx v
    let (r, rest) ← takePairs n t
    pure ((k, v) :: r, rest)
  | _, _ => none

def takeN : Nat → List String → Option (List Bytes × List String)
  | 0, t => some ([], t)
  | n + 1, k :: t => do
    let k ← hx k
    let (r, rest) ← takeN n t
    pure (k :: r, rest)
  | _, _ => none

def parseSeenOne : List String → Option (SeenTok × List String)
  | m :: u :: _h11 :: host :: ua :: ct :: _cl :: _clb :: cc :: nh :: t => do
    let (h, t) ← takePairs nh.toNat! t
    match t with
    | ntr :: t =>
      let (names, t) ← takeN ntr.toNat! t
      match t with
      | body :: ntrl :: t =>
        let (trl, t) ← takePairs ntrl.toNat! t
        pure ({ method := ← hx m, uri := ← hx u, host := ← hx host, ua := ← hx ua, ct := ← hx ct, h, trailerNames := names,
                body := ← hx body, trailers := trl, connClose := cc == "1" }, t)
      | _ => none
    | _ => none
  | _ => none

def parseSeenN : Nat → List String → Option (List SeenTok × List String)
  | 0, t => some ([], t)
  | n + 1, t => do
    let (s, t) ← parseSeenOne t
    let (r, t) ← parseSeenN n t
    pure (s :: r, t)

structure RespTok where
  status : Nat
  close : Bool
  body : Bytes

def parseResps : Nat → List String → Option (List RespTok × List String)
  | 0, t => some ([], t)
  | n + 1, st :: cl :: b :: t => do
    let (r, t) ← parseResps n t
    pure ({ status := st.toNat!, close := cl == "1", body := ← hx b } :: r, t)
  | _, _ => none

structure ImplOut where
  seen : List SeenTok
  resps : List RespTok
  wellFormed : Bool

def parseImpl : List String → Option ImplOut
  | "S" :: n :: t => do
    let (seen, t) ← parseSeenN n.toNat! t
    match t with
    | "R" :: m :: t =>
      let (resps, t) ← parseResps m.toNat! t
      match t with
      | ["W", w] => pure { seen, resps, wellFormed := w == "1" }
      | _ => none
    | _ => none
  | _ => none

/-- whitespace runs collapsed, ends trimmed -/
def canonVal (v : Bytes) : Bytes :=
  let rec go : Bytes → Bool → Bytes
    | [], _ => []
    | c :: t, sp => if c = 32 ∨ c = 9 then go t true else (if sp then [32, c] else [c]) ++ go t false
  match go v false with
  | 32 :: r => if (v.head? == some 32 || v.head? == some 9) then r else 32 :: r
  | r => r

def excluded : List Bytes :=
  [sContentLength, sTransferEncoding, "connection".toUTF8.toList, "trailer".toUTF8.toList]

def canonFields (fs : List (Bytes × Bytes)) : List String :=
  let l := fs.filterMap (fun kv =>
    let k := lowerAll kv.1
    if excluded.contains k then none else some (toHex k ++ ":" ++ toHex (canonVal kv.2)))
  l.mergeSort (· ≤ ·)

def implFields (s : SeenTok) : List (Bytes × Bytes) :=
  (if s.host.isEmpty then [] else [("host".toUTF8.toList, s.host)]) ++
  (if s.ua.isEmpty then [] else [("user-agent".toUTF8.toList, s.ua)]) ++
  (if s.ct.isEmpty then [] else [("content-type".toUTF8.toList, s.ct)]) ++ s.h

def containsBytes (pat : Bytes) : Bytes → Bool
  | [] => pat.isEmpty
  | c :: t => pat.isPrefixOf (c :: t) || containsBytes pat t

def forbiddenTrailer : List String :=
  ["transfer-encoding", "content-length", "host", "cache-control", "expect", "max-forwards", "pragma", "range", "te",
   "authorization", "proxy-authorization", "proxy-authenticate", "www-authenticate", "set-cookie", "cookie", "age",
   "expires", "date", "location", "retry-after", "vary", "warning", "content-encoding", "content-type", "content-range",
   "trailer", "connection", "keep-alive", "proxy-connection", "upgrade"]

/-- declared trailer names are tokens outside the RFC 7230 §4.1.2 list -/
def trailerDeclOk (r : Req) : Bool :=
  (lookupAll r.fields "trailer".toUTF8.toList).all (fun v =>
    (Hertz.Spec.Http.splitOnComma v).all (fun e =>
      let e := lowerAll (trimOWS e)
      e.isEmpty || (isToken e && !(forbiddenTrailer.map (·.toUTF8.toList)).contains e)))

/-- a spec request the comparison is defined for: singleton fields not repeated and non-empty,
`Connection` either absent, exactly `close`, or free of a `close` token -/
def comparable (disableNorm : Bool) (r : Req) : Bool :=
  let expects := r.fields.filter (fun kv => lowerAll kv.1 == "expect".toUTF8.toList)
  (lookupAll r.fields "connection".toUTF8.toList).length ≤ 1 && expects.length ≤ 1 && (!disableNorm || expects.all (fun kv => kv.1 == "Expect".toUTF8.toList)) &&
  let single (n : String) := (lookupAll r.fields n.toUTF8.toList).length ≤ 1 && (lookupAll r.fields n.toUTF8.toList).all (!·.isEmpty)
  let conns := lookupAll r.fields "connection".toUTF8.toList
  single "host" && single "user-agent" && single "content-type" && trailerDeclOk r && !r.foldedColon &&
  -- a sender must not put these fields into a trailer section (RFC 7230 §4.1.2): hertz answers 400 when such a field is the
  -- last one of the section and drops it otherwise (`Props/C01.lean: forbidden_trailer_field_order_dependent`): no claim
  r.trailers.all (fun kv => !(forbiddenTrailer.map (·.toUTF8.toList)).contains (lowerAll kv.1)) &&
  conns.all (fun v => v == "close".toUTF8.toList || !(lowerAll v).isEmpty && !containsBytes "close".toUTF8.toList (lowerAll v))

def specClose (r : Req) : Bool := (lookupAll r.fields "connection".toUTF8.toList).contains "close".toUTF8.toList
def specExpect (r : Req) : Bool := (lookupAll r.fields "expect".toUTF8.toList) == ["100-continue".toUTF8.toList]

/-- requests that must be served: up to and including the first one that asks to close -/
def untilClose : List Req → List Req
  | [] => []
  | r :: t => if specClose r then [r] else r :: untilClose t

/-- the names a request announces: all its `Trailer` fields combine (RFC 7230 §3.2.2), each a comma separated list with
optional whitespace around the elements, empty elements ignored (RFC 7230 §7) — independent of what the implementation
says it was announced -/
def specDecl (r : Req) : List Bytes :=
  (lookupAll r.fields "trailer".toUTF8.toList).flatMap Hertz.Spec.Trailers.listElems

/-- names are compared as the server compares them: exactly when header-name normalising is disabled, else ignoring case -/
def keyF (dn : Bool) (k : Bytes) : Bytes := if dn then k else lowerAll k

/-- the trailers the handler is to be handed (`Spec/Trailers.lean`): announced names in announcement order, each with the
first field of that name not taken by an earlier announcement (empty if none is left); other fields dropped -/
def expectedTrailers (dn : Bool) (r : Req) : List (Bytes × Bytes) :=
  Hertz.Spec.Trailers.specTrailerView ((specDecl r).map (keyF dn)) (r.trailers.map (fun kv => (keyF dn kv.1, kv.2)))

def trailersOk (dn : Bool) (s : SeenTok) (r : Req) : Bool :=
  s.trailerNames.map (keyF dn) == (specDecl r).map (keyF dn) &&
  s.trailers.map (fun kv => (keyF dn kv.1, canonVal kv.2)) == (expectedTrailers dn r).map (fun kv => (kv.1, canonVal kv.2))

/-- known-finding class a trailer mismatch of this request falls in ("" = none): a HTAB as optional whitespace in a `Trailer`
list (hertz strips SP only), several `Trailer` fields (hertz keeps the last one only) -/
def trailerExcuse (r : Req) : String :=
  let vs := lookupAll r.fields "trailer".toUTF8.toList
  if vs.any (fun v => v.contains 9) then "trailer-decl-htab"
  else if vs.length ≥ 2 then "trailer-decl-multi" else ""

def matchCore (s : SeenTok) (r : Req) : Bool :=
  s.method == r.method && s.uri == r.target && s.body == r.body &&
  canonFields (implFields s) == canonFields r.fields

def matchReq (dn : Bool) (s : SeenTok) (r : Req) : Bool := matchCore s r && trailersOk dn s r

def zipAll (dn : Bool) (ss : List SeenTok) (rs : List Req) : Bool :=
  ss.length == rs.length && (ss.zip rs).all (fun p => matchReq dn p.1 p.2)

/-- class of a view mismatch that consists of trailer mismatches of excused requests only ("" otherwise) -/
def viewClass (dn : Bool) (ss : List SeenTok) (rs : List Req) : String :=
  if ss.length != rs.length then "" else
  let bad := (ss.zip rs).filter (fun p => !matchReq dn p.1 p.2)
  if bad.all (fun p => matchCore p.1 p.2 && trailerExcuse p.2 != "") then
    (bad.head?.map (fun p => trailerExcuse p.2)).getD ""
  else ""

/-- final responses (non-1xx) in order -/
def finals (rs : List RespTok) : List RespTok := rs.filter (fun r => r.status ≥ 200)

def c01 (stream : Bytes) (dn : Bool) (preParse : Bool) (disableKeepalive : Bool) (maxBodyHit : Nat → Bool) (o : ImplOut) : Bool × String :=
  match decodeAll stream with
  | none => (true, "stream-not-wellformed")
  | some rs =>
    if rs.isEmpty then (true, "no-request")
    else if preParse && rs.any (fun r => (lookupAll r.fields "content-type".toUTF8.toList).any (fun v => "multipart/form-data".toUTF8.toList.isPrefixOf v)) then
      (true, "multipart-preparse(mime/multipart decides)")
    else if !rs.all (comparable dn) then (true, "not-comparable")
    else if rs.any (fun r => maxBodyHit r.body.length) then (true, "body-over-limit")
    else
      let rs := if disableKeepalive then rs.take 1 else untilClose rs
      let f := finals o.resps
      let okSeen := zipAll dn o.seen rs
      let okResp := f.length == rs.length && (f.zipIdx.all (fun (r, i) =>
        r.status == 200 && (r.body == ("r" ++ toString (i + 1)).toUTF8.toList || r.body.isEmpty)))
      let ok100 := (o.resps.filter (fun r => r.status == 100)).length == (rs.filter specExpect).length
      let cl := if !okSeen && okResp && ok100 && o.wellFormed then viewClass dn o.seen rs else ""
      (okSeen && okResp && ok100 && o.wellFormed, "wellformed:" ++ toString rs.length ++ (if cl.isEmpty then "" else " known:" ++ cl))

/-- C03 on the output of any stream -/
def c03 (o : ImplOut) : Bool :=
  let f := finals o.resps
  o.wellFormed &&
  -- a 4xx written by the server: last response, carries close, and only 200s (one per handled request) before it
  (match f.reverse with
   | [] => true
   | last :: before =>
     before.all (fun r => r.status == 200) &&
     (if last.status == 200 then f.length == o.seen.length
      else (last.status == 400 || last.status == 413 || last.status == 408) && last.close && before.length == o.seen.length))

end Hertz.Driver.H1Spec
