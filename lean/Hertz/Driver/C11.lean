import Hertz.Driver.Core
import Hertz.Model.Http1.RespRead
import Hertz.Spec.Resp
import Hertz.Model.Http1.Resp
import Hertz.Model.HeaderWrite
import Hertz.Driver.H1Spec
import Hertz.Model.Http1.Exchange
import Hertz.Model.Uri
namespace Hertz.Driver.C11
open Hertz Hertz.Driver Hertz.H1 Hertz.H1.RespRead

def errTok : Err → String
  | .eof => "err:eof" | .timeout => "err:timeout" | .bad => "err:bad" | .tooLarge => "err:toolarge" | .unexpectedEOF => "err:ueof"

/-- some LF-terminated line is made of more than 15 hex digits only: hertz refuses chunk-size lines that long (safe refusal) -/
def hasLongHexLine (s : Bytes) : Bool :=
  let rec go : Bytes → Nat → Bool → Bool
    | [], _, _ => false
    | c :: t, n, allHex =>
      if c = 10 then (allHex && n > 15) || go t 0 true
      else if c = 13 || c = 32 then go t n allHex
      else go t (n + 1) (allHex && (Spec.Resp.hexVal c).isSome)
  go s 0 true

/-- the interim responses in front of the final one skipped (strict reader) -/
def skipInterim : Nat → Bytes → Option (Spec.Resp.Msg × Bytes)
  | 0, _ => none
  | fuel + 1, s => do
    let (m, rest) ← Spec.Resp.decodeOne false s
    if 100 ≤ m.status && m.status < 200 && m.status != 101 then skipInterim fuel rest else pure (m, rest)

/-- `s` begins with interim responses other than ONE `100 Continue` (tag only: before `/repo` 8ec4dd8 hertz's
`ReadHeaders` took the first head that is not that one `100` for the final response; repaired, so a return is a violation) -/
def hardInterim (s : Bytes) : Bool :=
  match Spec.Resp.decodeOne false s with
  | some (m, rest) =>
    if m.status == 100 then
      (match Spec.Resp.decodeOne false rest with
       | some (m2, _) => 100 ≤ m2.status && m2.status < 200 && m2.status != 101
       | none => false)
    else 100 < m.status && m.status < 200 && m.status != 101
  | none => false

/-- the response a strict reader sees at the front of `s` (interim 1xx responses skipped),
`none` when `s` is not a well-formed response there -/
def specResponse (e : End) (s : Bytes) : Option (Nat × List (Bytes × Bytes) × Bytes) := do
  if hasLongHexLine s then none
  -- RFC 9110 §15.2: any number of interim 1xx responses (101 aside) may precede the final one
  let (m, rest) ← skipInterim (s.length + 1) s
  -- status-code = 3DIGIT (the strict line reader also accepts fewer digits at the end of the line)
  if m.status < 100 then none
  -- a conforming server sends token field names and Content-Length values that fit an int
  if !m.fields.all (fun kv => Spec.Http.isToken kv.1) then none
  if !m.trailers.all (fun kv => Spec.Http.isToken kv.1) then none
  if !m.fields.all (fun kv => Spec.Resp.lowerAll kv.1 != Spec.Resp.sCL || kv.2.length ≤ 18) then none
  -- obs-fold and bare-LF lines are rejected by the strict reader already; trailers must be declared to be kept
  match m.framing with
  | .none =>
    if Spec.Resp.noBodyStatus m.status then pure (m.status, m.fields, [])
    else if e == .eof then pure (m.status, m.fields, rest) else none      -- read until close
  | _ => pure (m.status, m.fields, m.body)

def implView (impl : List String) : Option (Nat × List (Bytes × Bytes) × Bytes) :=
  match impl with
  | "ok" :: st :: _h11 :: ct :: ce :: sv :: _cl :: _clb :: _cc :: nh :: t => do
    let (h, t) ← H1Spec.takePairs nh.toNat! t
    match t with
    | nc :: t =>
      let (cks, t) ← H1Spec.takeN nc.toNat! t
      match t with
      | ntr :: t =>
        let (_, t) ← H1Spec.takePairs ntr.toNat! t
        match t with
        | [body, _rest] =>
          let ct ← hx ct; let ce ← hx ce; let sv ← hx sv
          let fs := (if ct.isEmpty then [] else [("content-type".toUTF8.toList, ct)]) ++
                    (if ce.isEmpty then [] else [("content-encoding".toUTF8.toList, ce)]) ++
                    (if sv.isEmpty then [] else [("server".toUTF8.toList, sv)]) ++ h ++
                    cks.map (fun c => ("set-cookie".toUTF8.toList, c))
          pure (st.toNat!, fs, ← hx body)
        | _ => none
      | _ => none
    | _ => none
  | _ => none

/-- singleton fields repeated make the comparison undefined (hertz keeps the last one) -/
def comparable (fs : List (Bytes × Bytes)) : Bool :=
  ["content-type", "content-encoding", "server", "connection", "trailer"].all (fun n =>
    (fs.filter (fun kv => Spec.Resp.lowerAll kv.1 == n.toUTF8.toList)).length ≤ 1) &&
  fs.all (fun kv => !kv.2.isEmpty || !(["content-type", "content-encoding", "server"].map (·.toUTF8.toList)).contains (Spec.Resp.lowerAll kv.1))

def specCheck (skip : Bool) (e : End) (maxBody : Nat) (s : Bytes) (impl : List String) : Bool × String :=
  match specResponse e s with
  | none => (true, "not-wellformed")
  | some (st, fs, body) =>
    if !comparable fs then (true, "not-comparable")
    else if !skip ∧ maxBody > 0 ∧ body.length > maxBody then (impl == ["err:toolarge"], "over-limit must be refused")
    else match implView impl with
      | none => (false, "conforming response refused: " ++ (impl.headD ""))
      | some (st', fs', body') =>
        (st == st' && (if skip then body'.isEmpty else body == body') && H1Spec.canonFields fs == H1Spec.canonFields fs', "status, fields and body as sent")

/-! ### request writer -/

def fieldOf (t : String) (i : Nat) : Option Bytes := hx ((t.splitOn ":").getD i "-")

structure WScript where
  body : Bytes := []
  stream : Option (Int × List Bytes) := none
  trailers : List (Bytes × Bytes) := []

def parseScript (toks : List String) : Option WScript :=
  toks.foldlM (fun (w : WScript) (t : String) => do
    let p := t.splitOn ":"
    match p with
    | ["B", b] => pure { w with body := ← hx b, stream := none }
    | "BS" :: d :: rest =>
      let ps := rest.headD ""
      let pieces ← if ps.isEmpty then some [] else (ps.splitOn ",").mapM hx
      pure { w with stream := some (d.toInt!, pieces) }
    | ["TR", k, v] => pure { w with trailers := w.trailers ++ [(← hx k, ← hx v)] }
    | _ => pure w) {}

/-- What the application asked for, read off the script alone (independent of anything the implementation
reports): request target and Host for the URL given last, with the query arguments added through the args API.
`none`: no opinion (relative URL, explicit Host override, CONNECT). -/
structure Intent where
  url : Option Bytes := none
  qa : Option (List ArgKV) := none
  dpn : Bool := false
  hostOverride : Bool := false
  method : Bytes := []

def intentOf (script : List String) : Option Intent :=
  script.foldlM (fun (w : Intent) (t : String) => do
    match t.splitOn ":" with
    | ["M", m] => pure { w with method := ← hx m }
    | ["U", u] => pure { w with url := some (← hx u), qa := none, dpn := false }
    | ["Q", k, v] =>
      let u ← w.url
      let base := w.qa.getD (parseArgs (Uri.parse [] u).query)
      pure { w with qa := some (base ++ [{ key := ← hx k, value := ← hx v, noValue := false }]) }
    | ["QP", _] =>
      let u ← w.url
      pure { w with qa := some (w.qa.getD (parseArgs (Uri.parse [] u).query)) }
    | ["DPN"] => pure { w with dpn := true }
    | "HO" :: _ => pure { w with hostOverride := true }
    | _ => pure w) {}

def expectedTarget (proxy : Bool) (script : List String) : Option (Bytes × Bytes) := do
  let w ← intentOf script
  let url ← w.url
  if w.hostOverride || w.method == "CONNECT".toUTF8.toList || !Uri.containsSub Gen.Str.strColonSlashSlash url then none
  let u := Uri.parse [] url
  -- `w.qa = some l`: `QueryArgs()` was called (flag `parsedQueryArgs` set): the arguments are the query, none when `l` is
  -- empty; `none`: the raw query string is (/repo 97b0e80)
  let parsed := w.qa.isSome
  let qa := w.qa.getD []
  let target :=
    if proxy then u.fullURIp parsed qa
    else if w.dpn then
      -- `RequestURI()` with `DisablePathNormalizing`: `PathOriginal()` verbatim, "/" when it is empty (/repo bc3332b)
      (if u.pathOriginal.isEmpty then [47] else u.pathOriginal) ++
        (if parsed then (if !qa.isEmpty then 63 :: appendArgs qa else []) else if !u.query.isEmpty then 63 :: u.query else [])
    else u.requestURIp parsed qa
  -- /repo 910b0dd: the target is written through `appendRequestLinePart` (a SP left in it - `http://h/a?x y` - arrives as `%20`)
  pure (HW.reqLinePart target, u.host)

def reqWriteHandle (expect : Option (Bytes × Bytes)) (script impl : List String) : Option Result := do
  match impl with
  | wire :: err :: m :: u :: ua :: ho :: ct :: ndct :: clb :: cc :: nh :: t =>
    let (h, t) ← H1Spec.takePairs nh.toNat! t
    match t with
    | ntr :: t =>
      let (tr, t) ← H1Spec.takeN ntr.toNat! t
      match t with
      | nc :: t =>
        let (ck, t) ← H1Spec.takePairs nc.toNat! t
        match t with
        | "I" :: im :: ipa :: "N" :: nhttp =>
          let w ← parseScript script
          let r : HW.ReqHdr := { method := ← hx m, uri := ← hx u, userAgent := ← hx ua, host := ← hx ho, contentType := ← hx ct,
                                 noDefaultContentType := ndct == "1", clBytes := ← hx clb, h, trailer := tr, cookies := ck, connClose := cc == "1" }
          let method ← hx im
          let postArgs ← hx ipa
          let wireB ← hx wire
          -- body bytes the application asked to send, and their encoding on the wire
          let (intended, bodyWire) : Bytes × Bytes := match w.stream with
            | some (d, pieces) =>
              if d ≥ 0 then (pieces.flatten.take d.toNat, pieces.flatten.take d.toNat)
              else (pieces.flatten, H1.Resp.chunkedWire pieces w.trailers)
            | none =>
              let b := if w.body.isEmpty then postArgs else w.body
              (b, b)
          let modelWire := r.bytes ++ bodyWire
          if err == "1" then
            pure { out := impl, tag := "reqwrite:error" }
          else
            -- spec on the implementation's bytes: strict decoder, hertz's own server-side reader and net/http agree
            let strict := Spec.Http.decodeOne wireB
            let own := match H1.parseReqHead false wireB with
              | .ok (hd, n) =>
                (match H1.continueReadBody {} .eof hd (wireB.drop n) with
                 | .ok hd' body _ rest => some (hd'.method, hd'.uri, hd'.host, body, rest)
                 | .err _ => none)
              | .error _ => none
            let ok := match strict, own with
              | some (sr, srest), some (om, ou, oh, ob, orest) =>
                srest.isEmpty && orest.isEmpty && sr.method == method && om == method && sr.target == ou && sr.body == intended && ob == intended &&
                (Spec.Http.lookupAll sr.fields "host".toUTF8.toList) == [oh] &&
                nhttp == [encHex method, encHex sr.target, encHex oh, encHex intended] &&
                (match expect with
                 | some (tg, ho) => sr.target == tg && oh == ho
                 | none => true)
              | _, _ => false
            pure { out := encHex modelWire :: impl.drop 1, spec := ok,
                   specNote := "strict decoder, hertz's server-side reader and net/http read the same method, target, Host and body, and these are the ones the application gave",
                   tag := "reqwrite:" ++ (match w.stream with | some (d, _) => (if d ≥ 0 then "fixedstream" else "chunked") | none => "bytes") ++
                          sizeClass intended.length ++ boolTok (!ck.isEmpty) ++ boolTok r.connClose }
        | _ => none
      | _ => none
    | _ => none
  | _ => none

/-- `reqmp`: the multipart upload round trip.  The model's opinion is the round-trip law itself: both decoders
(net/http, hertz's own server-side reader) must return exactly the fields and the file contents the application
attached (file content = concatenation of the pieces its reader handed out), sorted by name.  The multipart
encoding itself is `mime/multipart`'s and is not modelled. -/
def takePairs : Nat → List String → Option (List (String × String) × List String)
  | 0, r => some ([], r)
  | n + 1, k :: v :: r => (takePairs n r).map (fun (l, r') => ((k, v) :: l, r'))
  | _, _ => none

def takeTriples : Nat → List String → Option (List (String × String × String) × List String)
  | 0, r => some ([], r)
  | n + 1, a :: b :: c :: r => (takeTriples n r).map (fun (l, r') => ((a, b, c) :: l, r'))
  | _, _ => none

def joinPieces (p : String) : String :=
  if p == "-" then "-" else
    let j := String.join (p.splitOn ",")
    if j.isEmpty then "-" else j

def insertSorted (x : String × String) : List (String × String) → List (String × String)
  | [] => [x]
  | y :: t => if x.1 < y.1 || (x.1 == y.1 && x.2 ≤ y.2) then x :: y :: t else y :: insertSorted x t

def reqMpExpected (args : List String) : Option (List String × Nat) :=
  match args with
  | nf :: r =>
    match takePairs nf.toNat! r with
    | some (fields, nfl :: r2) =>
      match takeTriples nfl.toNat! r2 with
      | some (files, []) =>
        let fs := fields.foldr insertSorted []
        let dec : List String := ["ok", toString fs.length] ++ fs.flatMap (fun kv => [kv.1, kv.2]) ++
          [toString files.length] ++ files.flatMap (fun t => [t.1, t.2.1, joinPieces t.2.2])
        some (["0", "N"] ++ dec ++ ["H"] ++ dec, (files.map (fun t => (joinPieces t.2.2).length / 2)).foldl Nat.max 0)
      | _ => none
    | _ => none
  | _ => none

def respTokens (r : RespRead.Result) : List String :=
  let hd := r.head
  ["ok", toString (if hd.status == 0 then 200 else hd.status), boolTok hd.http11, encHex hd.contentType, encHex hd.contentEncoding, encHex hd.server,
   toString hd.cl, encHex hd.clBytes, boolTok hd.connClose, toString hd.h.length]
  ++ hd.h.flatMap (fun kv => [encHex kv.1, encHex kv.2])
  ++ [toString hd.cookies.length] ++ hd.cookies.map encHex
  ++ [toString r.trailers.length] ++ r.trailers.flatMap (fun kv => [encHex kv.1, encHex kv.2])
  ++ [encHex r.body]

/-! ### sequences of exchanges through the client (`c11seq`) -/

def takeStr : Nat → List String → Option (List String × List String)
  | 0, r => some ([], r)
  | n + 1, a :: r => (takeStr n r).map (fun (l, r') => (a :: l, r'))
  | _, _ => none

def countSub (pat : Bytes) : Bytes → Nat
  | [] => 0
  | c :: t => (if pat.isPrefixOf (c :: t) then 1 else 0) + countSub pat t

/-- the peer sent exactly one conforming message (an interim 100 aside) and nothing after it: only then may the
NEXT exchange on the same connection be held to "comes back as sent" (a property about conforming servers) -/
def cleanResp (skip : Bool) (e : End) (s : Bytes) : Bool :=
  if skip then
    -- answer to HEAD: header block(s) only
    let crlf2 : Bytes := [13, 10, 13, 10]
    let n := countSub crlf2 s
    crlf2.isPrefixOf (s.drop (s.length - 4)) && (n == 1 || (n == 2 && "HTTP/1.1 100 ".toUTF8.toList.isPrefixOf s))
  else
    match (do
      let (m0, r0) ← Spec.Resp.decodeOne false s
      if m0.status == 100 then Spec.Resp.decodeOne false r0 else pure (m0, r0)) with
    | some (m, rest) =>
      (match m.framing with
       | .none => (Spec.Resp.noBodyStatus m.status && rest.isEmpty) || (!Spec.Resp.noBodyStatus m.status && e == .eof)
       | _ => rest.isEmpty)
    | none => false

structure SeqStep where
  reuse : String
  script : List String
  resp : Bytes
  close : Bool

def parseSteps : Nat → List String → Option (List SeqStep)
  | 0, [] => some []
  | 0, _ => none
  | n + 1, reuse :: k :: t => do
    let (script, t) ← takeStr k.toNat! t
    match t with
    | r :: c :: t' =>
      let rest ← parseSteps n t'
      pure ({ reuse, script, resp := ← hx r, close := c == "1" } :: rest)
    | _ => none
  | _, _ => none

structure SeqImpl where
  dials : Nat
  req : List String
  res : List String

def parseSeqImpl : Nat → List String → Option (List SeqImpl)
  | 0, [] => some []
  | 0, _ => none
  | n + 1, "X" :: d :: k :: t => do
    let (rq, t) ← takeStr k.toNat! t
    match t with
    | m :: t' =>
      let (rs, t'') ← takeStr m.toNat! t'
      let rest ← parseSeqImpl n t''
      pure ({ dials := d.toNat!, req := rq, res := rs } :: rest)
    | _ => none
  | _, _ => none

def scriptMethod (script : List String) : Bytes :=
  ((intentOf script).map (·.method)).getD []

def outcomeTokens : Exchange.Outcome → List String
  | .ok r => respTokens r
  | .err e => [errTok e]
  | .badPool => ["err:badpool"]

/-- the exchanges of a sequence one by one: model state threaded through; per exchange the request part is
judged by `reqWriteHandle` (on the bytes the peer received) and the response part by the exchange model, the
spec being that a conforming response comes back as sent, *whatever happened on the connection before* -/
def seqHandle (flags : String) (maxBody n : Nat) (rest impl : List String) : Option Result := do
  let steps ← parseSteps n rest
  let impls ← parseSeqImpl n impl
  let cfg : Exchange.Cfg := { disableNorm := flags.contains 'n', maxBody }
  let init : Exchange.St × List String × Bool × String × String × Bool × String × Bool × Bool × Bool := ({}, [], true, "", "", false, "", true, false, false)
  let (_, out, spec, note, tag, _, cls, _, _, _) ← (steps.zip impls).foldlM (fun acc (si : SeqStep × SeqImpl) => do
    let (st, out, spec, note, tag, prevFailed, cls, conforming, sticky, wanted) := acc
    let (s, i) := si
    let method := scriptMethod s.script
    let isStream := s.script.any (fun t => t.startsWith "BS:")
    let idem := ["GET", "HEAD", "PUT", "DELETE", "OPTIONS", "TRACE"].any (fun m => m.toUTF8.toList == method)
    -- request side
    let rr ← reqWriteHandle (expectedTarget false s.script) s.script i.req
    let cc := i.req.getD 9 "0" == "1"
    let isHead := method == "HEAD".toUTF8.toList
    -- `resp.SkipBody` as `Do` finds it: set by the application for this call (`SB`), or still set on a Response
    -- object that is used for the whole sequence (flag `r`): by the application earlier, or the client's own HEAD
    -- mark, if `Do` left it behind (`Exchange.skipAfterDo`: since /repo 07a471c it never does, so `sticky` = `wanted`;
    -- both are kept: `sticky` is the model's prediction of the code, `wanted` is the spec's view)
    let sb := s.script.contains "SB"
    let appSkip := sb || (flags.contains 'r' && sticky)
    -- what the application asked for (the spec's view): no body for HEAD, and none when IT set the flag
    let wanted' := sb || (flags.contains 'r' && wanted)
    -- an idempotent method is retried after `ErrBadPoolConn` unless its body is a stream (noted before the first attempt)
    let rq : Exchange.Req := { skipBody := isHead, retryable := idem && !isStream, connClose := cc, appSkip }
    -- the peer answers when it has one complete request; bytes that are no complete request get no answer
    let complete := match (hx (rr.out.headD "-")).bind Spec.Http.decodeOne with
      | some (_, []) => true
      | _ => false
    let sv : Exchange.Srv := if complete then { resp := s.resp, closeAfter := s.close } else { resp := [], closeAfter := false }
    let cls' := if !complete && s.reuse == "keep" then "reuse-stale-framing" else cls
    let (st', o) := Exchange.exchange cfg st rq sv
    -- response side: the spec looks at THIS exchange's response bytes only
    let e := if s.close then End.eof else End.stall
    let (sok, snote) :=
      if !complete then (true, "no complete request")
      else if !conforming then (true, "the peer did not conform earlier in the sequence")
      else if o == .badPool && i.res == ["err:badpool"] then (true, "pooled connection closed by the peer, request not repeatable")
      else specCheck (isHead || wanted') e maxBody s.resp (if i.res.headD "" == "ok" then i.res ++ ["0"] else i.res)
    let spec' := spec && rr.spec && sok
    let cls' := if !sok && hardInterim s.resp && cls'.isEmpty then "" else cls'
    let note' := if !note.isEmpty then note else if !rr.spec then "request: " ++ rr.specNote else if !sok then "response: " ++ snote else ""
    let t := (s.reuse.take 1).toString ++ (if o.isOk then "k" else (outcomeTokens o).headD "?") ++ (if prevFailed then "!" else "") ++
             (if st.idle.isSome && st'.dials == st.dials then "r" else "d")
    pure (st', out ++ ["X", toString st'.dials, toString rr.out.length] ++ rr.out ++
                [toString (outcomeTokens o).length] ++ outcomeTokens o,
          spec', note', (if (tag.splitOn ",").contains t then tag else tag ++ (if tag.isEmpty then "" else ",") ++ t), !o.isOk, cls',
          conforming && complete && cleanResp isHead e s.resp, Exchange.skipAfterDo cfg st rq sv, wanted')) init
  pure { out, spec, cls, specNote := if note.isEmpty then "every request arrives as given and every conforming response comes back as sent" else note,
         tag := "seq:" ++ flags ++ (if maxBody > 0 then "L" else "") ++ ":" ++ ",".intercalate ((tag.splitOn ",").take 3) }

def handle : Handler
  | "reqmp" :: args, impl =>
    match reqMpExpected args with
    | some (exp, mx) =>
      some { out := exp, spec := impl == exp,
             specNote := "net/http and hertz's own reader decode the multipart upload to the attached fields and file contents",
             tag := "reqmp:" ++ sizeClass mx }
    | none => none
  | ["respread", flags, maxBody, endK, stream, _cuts], impl => do
    let s ← hx stream
    let e := if endK == "stall" then End.stall else End.eof
    let skip := flags.contains 'h'
    let (sok, snote) := specCheck skip e maxBody.toNat! s impl
    match readResponseSkip skip (flags.contains 'n') maxBody.toNat! e s with
    | .error x => pure { out := [errTok x], spec := sok, specNote := snote, cls := if !sok && hardInterim s then "" else "",
                         tag := "respread:" ++ errTok x ++ (if endK == "stall" then "S" else "E") }
    | .ok r =>
      let hd := r.head
      pure { out := respTokens r ++ [toString r.rest.length],
             spec := sok, specNote := snote, cls := if !sok && hardInterim s then "" else "",
             tag := (if hardInterim s then "interim:" else "") ++ (if snote.startsWith "status" then "wf:" else "") ++ (if skip then "head:" else "") ++ "respread:ok:" ++ toString (if hd.cl < 0 then hd.cl else 0) ++ sizeClass r.body.length ++ boolTok hd.connClose ++
                    boolTok (!r.trailers.isEmpty) ++ boolTok (mustSkipCL hd.status) ++ sizeClass hd.h.length }
  | "reqwrite" :: proxy :: script, impl => reqWriteHandle (expectedTarget (proxy == "1") script) script impl
  | "c11seq" :: flags :: maxBody :: _frag :: n :: rest, impl => seqHandle flags maxBody.toNat! n.toNat! rest impl
  | _, _ => none

end Hertz.Driver.C11
