import Hertz.Driver.Core
import Hertz.Model.Http1.RespRead
import Hertz.Spec.Resp
import Hertz.Model.Http1.Resp
import Hertz.Model.HeaderWrite
import Hertz.Driver.H1Spec
namespace Hertz.Driver.C11
open Hertz Hertz.Driver Hertz.H1 Hertz.H1.RespRead

def errTok : Err → String
  | .eof => "err:eof" | .timeout => "err:timeout" | .bad => "err:bad" | .tooLarge => "err:toolarge" | .unexpectedEOF => "err:ueof"

/-- some LF-terminated line is made of more than 15 hex digits only: hertz refuses chunk-size lines that long (safe refusal) -/
def hasLongHexLine (s : Bytes) : Bool :=
  let rec go : Bytes → Nat → Bool → Bool
    | [], _, _ => false
    | c :: t, n, allHex =>
      if c = 10 then (allHex && n > 15) || go t 0 true
      else if c = 13 || c = 32 then go t n allHex
      else go t (n + 1) (allHex && (Spec.Resp.hexVal c).isSome)
  go s 0 true

/-- some LF-terminated line is a hex number ≥ 2^47: allocating a buffer for such a chunk exceeds what `make` accepts -/
def hasHugeChunk (s : Bytes) : Bool :=
  let rec go : Bytes → Nat → Bool → Bool
    | [], _, _ => false
    | c :: t, v, allHex =>
      if c = 10 then (allHex && v ≥ 2 ^ 47) || go t 0 true
      else if c = 13 || c = 32 then go t v allHex
      else match Spec.Resp.hexVal c with
        | some d => go t (v * 16 + d) allHex
        | none => go t v false
  go s 0 true

/-- the response a strict reader sees at the front of `s` (an interim `100 Continue` skipped),
`none` when `s` is not a well-formed response there -/
def specResponse (e : End) (s : Bytes) : Option (Nat × List (Bytes × Bytes) × Bytes) := do
  if hasLongHexLine s then none
  let (m0, rest0) ← Spec.Resp.decodeOne false s
  let (m, rest) ← if m0.status == 100 then Spec.Resp.decodeOne false rest0 else pure (m0, rest0)
  if m.status == 100 then none
  -- status-code = 3DIGIT (the strict line reader also accepts fewer digits at the end of the line)
  if m.status < 100 then none
  -- a conforming server sends token field names and Content-Length values that fit an int
  if !m.fields.all (fun kv => Spec.Http.isToken kv.1) then none
  if !m.fields.all (fun kv => Spec.Resp.lowerAll kv.1 != Spec.Resp.sCL || kv.2.length ≤ 18) then none
  -- obs-fold and bare-LF lines are rejected by the strict reader already; trailers must be declared to be kept
  match m.framing with
  | .none =>
    if Spec.Resp.noBodyStatus m.status then pure (m.status, m.fields, [])
    else if e == .eof then pure (m.status, m.fields, rest) else none      -- read until close
  | _ => pure (m.status, m.fields, m.body)

def implView (impl : List String) : Option (Nat × List (Bytes × Bytes) × Bytes) :=
  match impl with
  | "ok" :: st :: _h11 :: ct :: ce :: sv :: _cl :: _clb :: _cc :: nh :: t => do
    let (h, t) ← H1Spec.takePairs nh.toNat! t
    match t with
    | nc :: t =>
      let (cks, t) ← H1Spec.takeN nc.toNat! t
      match t with
      | ntr :: t =>
        let (_, t) ← H1Spec.takePairs ntr.toNat! t
        match t with
        | [body, _rest] =>
          let ct ← hx ct; let ce ← hx ce; let sv ← hx sv
          let fs := (if ct.isEmpty then [] else [("content-type".toUTF8.toList, ct)]) ++
                    (if ce.isEmpty then [] else [("content-encoding".toUTF8.toList, ce)]) ++
                    (if sv.isEmpty then [] else [("server".toUTF8.toList, sv)]) ++ h ++
                    cks.map (fun c => ("set-cookie".toUTF8.toList, c))
          pure (st.toNat!, fs, ← hx body)
        | _ => none
      | _ => none
    | _ => none
  | _ => none

/-- singleton fields repeated make the comparison undefined (hertz keeps the last one) -/
def comparable (fs : List (Bytes × Bytes)) : Bool :=
  ["content-type", "content-encoding", "server", "connection", "trailer"].all (fun n =>
    (fs.filter (fun kv => Spec.Resp.lowerAll kv.1 == n.toUTF8.toList)).length ≤ 1) &&
  fs.all (fun kv => !kv.2.isEmpty || !(["content-type", "content-encoding", "server"].map (·.toUTF8.toList)).contains (Spec.Resp.lowerAll kv.1))

def specCheck (skip : Bool) (e : End) (maxBody : Nat) (s : Bytes) (impl : List String) : Bool × String :=
  match specResponse e s with
  | none => (true, "not-wellformed")
  | some (st, fs, body) =>
    if !comparable fs then (true, "not-comparable")
    else if !skip ∧ maxBody > 0 ∧ body.length > maxBody then (impl == ["err:toolarge"], "over-limit must be refused")
    else match implView impl with
      | none => (false, "conforming response refused: " ++ (impl.headD ""))
      | some (st', fs', body') =>
        (st == st' && (if skip then body'.isEmpty else body == body') && H1Spec.canonFields fs == H1Spec.canonFields fs', "status, fields and body as sent")

/-! ### request writer -/

def fieldOf (t : String) (i : Nat) : Option Bytes := hx ((t.splitOn ":").getD i "-")

structure WScript where
  body : Bytes := []
  stream : Option (Int × List Bytes) := none
  trailers : List (Bytes × Bytes) := []

def parseScript (toks : List String) : Option WScript :=
  toks.foldlM (fun (w : WScript) (t : String) => do
    let p := t.splitOn ":"
    match p with
    | ["B", b] => pure { w with body := ← hx b, stream := none }
    | "BS" :: d :: rest =>
      let ps := rest.headD ""
      let pieces ← if ps.isEmpty then some [] else (ps.splitOn ",").mapM hx
      pure { w with stream := some (d.toInt!, pieces) }
    | ["TR", k, v] => pure { w with trailers := w.trailers ++ [(← hx k, ← hx v)] }
    | _ => pure w) {}

def reqWriteHandle (script impl : List String) : Option Result := do
  match impl with
  | wire :: err :: m :: u :: ua :: ho :: ct :: ndct :: clb :: cc :: nh :: t =>
    let (h, t) ← H1Spec.takePairs nh.toNat! t
    match t with
    | ntr :: t =>
      let (tr, t) ← H1Spec.takeN ntr.toNat! t
      match t with
      | nc :: t =>
        let (ck, t) ← H1Spec.takePairs nc.toNat! t
        match t with
        | "I" :: im :: ipa :: "N" :: nhttp =>
          let w ← parseScript script
          let r : HW.ReqHdr := { method := ← hx m, uri := ← hx u, userAgent := ← hx ua, host := ← hx ho, contentType := ← hx ct,
                                 noDefaultContentType := ndct == "1", clBytes := ← hx clb, h, trailer := tr, cookies := ck, connClose := cc == "1" }
          let method ← hx im
          let postArgs ← hx ipa
          let wireB ← hx wire
          -- body bytes the application asked to send, and their encoding on the wire
          let (intended, bodyWire) : Bytes × Bytes := match w.stream with
            | some (d, pieces) =>
              if d ≥ 0 then (pieces.flatten.take d.toNat, pieces.flatten.take d.toNat)
              else (pieces.flatten, H1.Resp.chunkedWire pieces w.trailers)
            | none =>
              let b := if w.body.isEmpty then postArgs else w.body
              (b, b)
          let modelWire := r.bytes ++ bodyWire
          if err == "1" then
            pure { out := impl, tag := "reqwrite:error" }
          else
            -- spec on the implementation's bytes: strict decoder, hertz's own server-side reader and net/http agree
            let strict := Spec.Http.decodeOne wireB
            let own := match H1.parseReqHead false wireB with
              | .ok (hd, n) =>
                (match H1.continueReadBody {} .eof hd (wireB.drop n) with
                 | .ok hd' body _ rest => some (hd'.method, hd'.uri, hd'.host, body, rest)
                 | .err _ => none)
              | .error _ => none
            let ok := match strict, own with
              | some (sr, srest), some (om, ou, oh, ob, orest) =>
                srest.isEmpty && orest.isEmpty && sr.method == method && om == method && sr.target == ou && sr.body == intended && ob == intended &&
                (Spec.Http.lookupAll sr.fields "host".toUTF8.toList) == [oh] &&
                nhttp == [encHex method, encHex sr.target, encHex oh, encHex intended]
              | _, _ => false
            pure { out := encHex modelWire :: impl.drop 1, spec := ok,
                   specNote := "strict decoder, hertz's server-side reader and net/http read the same method, target, Host and body",
                   tag := "reqwrite:" ++ (match w.stream with | some (d, _) => (if d ≥ 0 then "fixedstream" else "chunked") | none => "bytes") ++
                          sizeClass intended.length ++ boolTok (!ck.isEmpty) ++ boolTok r.connClose }
        | _ => none
      | _ => none
    | _ => none
  | _ => none

/-- `reqmp`: the multipart upload round trip.  The model's opinion is the round-trip law itself: both decoders
(net/http, hertz's own server-side reader) must return exactly the fields and the file contents the application
attached (file content = concatenation of the pieces its reader handed out), sorted by name.  The multipart
encoding itself is `mime/multipart`'s and is not modelled. -/
def takePairs : Nat → List String → Option (List (String × String) × List String)
  | 0, r => some ([], r)
  | n + 1, k :: v :: r => (takePairs n r).map (fun (l, r') => ((k, v) :: l, r'))
  | _, _ => none

def takeTriples : Nat → List String → Option (List (String × String × String) × List String)
  | 0, r => some ([], r)
  | n + 1, a :: b :: c :: r => (takeTriples n r).map (fun (l, r') => ((a, b, c) :: l, r'))
  | _, _ => none

def joinPieces (p : String) : String :=
  if p == "-" then "-" else
    let j := String.join (p.splitOn ",")
    if j.isEmpty then "-" else j

def insertSorted (x : String × String) : List (String × String) → List (String × String)
  | [] => [x]
  | y :: t => if x.1 < y.1 || (x.1 == y.1 && x.2 ≤ y.2) then x :: y :: t else y :: insertSorted x t

def reqMpExpected (args : List String) : Option (List String × Nat) :=
  match args with
  | nf :: r =>
    match takePairs nf.toNat! r with
    | some (fields, nfl :: r2) =>
      match takeTriples nfl.toNat! r2 with
      | some (files, []) =>
        let fs := fields.foldr insertSorted []
        let dec : List String := ["ok", toString fs.length] ++ fs.flatMap (fun kv => [kv.1, kv.2]) ++
          [toString files.length] ++ files.flatMap (fun t => [t.1, t.2.1, joinPieces t.2.2])
        some (["0", "N"] ++ dec ++ ["H"] ++ dec, (files.map (fun t => (joinPieces t.2.2).length / 2)).foldl Nat.max 0)
      | _ => none
    | _ => none
  | _ => none

def handle : Handler
  | "reqmp" :: args, impl =>
    match reqMpExpected args with
    | some (exp, mx) =>
      some { out := exp, spec := impl == exp,
             specNote := "net/http and hertz's own reader decode the multipart upload to the attached fields and file contents",
             tag := "reqmp:" ++ sizeClass mx }
    | none => none
  | ["respread", flags, maxBody, endK, stream, _cuts], impl => do
    let s ← hx stream
    let e := if endK == "stall" then End.stall else End.eof
    let skip := flags.contains 'h'
    let (sok, snote) := specCheck skip e maxBody.toNat! s impl
    -- known finding: a huge declared chunk size makes the reader allocate (and panic) before any data arrived
    if impl == ["PANIC"] && hasHugeChunk s then
      return { out := impl, spec := false, cls := "huge-chunk-size-alloc", specNote := "reader panicked allocating a peer-declared chunk size", tag := "respread:hugechunk" }
    match readResponseSkip skip (flags.contains 'n') maxBody.toNat! e s with
    | .error x => pure { out := [errTok x], spec := sok, specNote := snote, tag := "respread:" ++ errTok x ++ (if endK == "stall" then "S" else "E") }
    | .ok r =>
      let hd := r.head
      pure { out := ["ok", toString (if hd.status == 0 then 200 else hd.status), boolTok hd.http11, encHex hd.contentType, encHex hd.contentEncoding, encHex hd.server,
                     toString hd.cl, encHex hd.clBytes, boolTok hd.connClose, toString hd.h.length]
                    ++ hd.h.flatMap (fun kv => [encHex kv.1, encHex kv.2])
                    ++ [toString hd.cookies.length] ++ hd.cookies.map encHex
                    ++ [toString r.trailers.length] ++ r.trailers.flatMap (fun kv => [encHex kv.1, encHex kv.2])
                    ++ [encHex r.body, toString r.rest.length],
             spec := sok, specNote := snote,
             tag := (if snote.startsWith "status" then "wf:" else "") ++ (if skip then "head:" else "") ++ "respread:ok:" ++ toString (if hd.cl < 0 then hd.cl else 0) ++ sizeClass r.body.length ++ boolTok hd.connClose ++
                    boolTok (!r.trailers.isEmpty) ++ boolTok (mustSkipCL hd.status) ++ sizeClass hd.h.length }
  | "reqwrite" :: _proxy :: script, impl => reqWriteHandle script impl
  | _, _ => none

end Hertz.Driver.C11
