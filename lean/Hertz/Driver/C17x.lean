import Hertz.Driver.Core
import Hertz.Model.HttpDate
import Hertz.Model.CookieExp
import Hertz.Driver.C17u
import Hertz.Driver.C17
import Hertz.Model.ArgsProg
import Hertz.Model.UriOps
/-!
Driver handlers of the C17 extension: the RFC 1123 date codec (`Model/HttpDate.lean`).
-/
namespace Hertz.Driver.C17x
open Hertz Hertz.Driver Hertz.HttpDate Hertz.Uri

def parsedTokens : Option Parsed → List String
  | none => ["err"]
  | some p => ["ok", toString p.sec, toString p.nsec, encHex p.zone, toString p.zoneOff]

/-- the element of the layout at which the model's parser gives up (branch tag only; mirrors `parseLayout`) -/
def failStage (dash : Bool) (s : Bytes) : String :=
  match s with
  | a :: b :: c :: s =>
    match lookup3 dayTab a b c with
    | none => "wd"
    | some _ =>
    match (skipLit 44 s).bind skipSp with
    | none => "sep1"
    | some s =>
    match getnum2 s with
    | none => "day"
    | some (day, s) =>
    match (if dash then skipLit 45 s else skipSp s) with
    | none => "sep2"
    | some s =>
    match s with
    | ma :: mb :: mc :: s =>
      match lookup3 monthTab ma mb mc with
      | none => "mon"
      | some mi =>
      match (if dash then skipLit 45 s else skipSp s) with
      | none => "sep3"
      | some s =>
      match getYear4 s with
      | none => "year"
      | some (year, s) =>
      match (skipSp s).bind getnum12 with
      | none => "hour"
      | some (hour, s) =>
      match (skipLit 58 s).bind getnum2 with
      | none => "min"
      | some (mi', s) =>
      match (skipLit 58 s).bind getnum2 with
      | none => "sec"
      | some (sec, s) =>
      if hour ≥ 24 ∨ mi' ≥ 60 ∨ sec ≥ 60 then "range" else
      match (skipSp (fracPart s).2).bind parseZone with
      | none => "zone"
      | some (_, _, rest) =>
        if !rest.isEmpty then "extra"
        else if day < 1 ∨ (day : Int) > daysIn (mi + 1 : Nat) year then "dayOfMonth" else "ok"
    | _ => "monlen"
  | _ => "short"

def dateClass (s : Bytes) : String :=
  match parseLayout false s, parseLayout true s with
  | some p, _ => "rfc:" ++ (if p.nsec > 0 then "frac" else "") ++ (if p.zone == [71, 77, 84] then "GMT" else if p.zone == [85, 84, 67] then "UTC" else if p.zoneOff != 0 then "GMT+h" else "abbr" ++ toString p.zone.length)
  | none, some _ => "dash"
  | none, none => "err:" ++ failStage false s ++ "/" ++ failStage true s

def inRange (t : Int) : Bool := decide (minSec ≤ t) && decide (t < maxSec)

def handleDate : Handler
  | ["httpdatefmt", sec, _ns], _ => do
    let t := sec.toInt!
    let s := encHex (formatHTTPDate t)
    pure { out := [s, s, s], tag := "httpdatefmt:" ++ boolTok (inRange t) ++ boolTok (t < 0) }
  | ["httpdateparse", s], _ => do
    let s ← hx s
    let p := parseLayout false s
    pure { out := parsedTokens p ++ ["|"] ++ parsedTokens p ++ ["|"] ++ parsedTokens (parseLayout true s),
           tag := "httpdateparse:" ++ dateClass s }
  | ["httpdatert", sec, _ns], impl => do
    let t := sec.toInt!
    let s := formatHTTPDate t
    -- spec on the implementation's tokens: inside the four-digit-year range the instant comes back (whole seconds)
    let ok := match impl with
      | [_, "ok", sec2, "0", _, _] => sec2 == sec
      | _ => false
    pure { out := encHex s :: parsedTokens (parseRFC1123 s), spec := !inRange t || ok,
           specNote := "ParseHTTPDate(AppendHTTPDate(t)) = t for every t whose year has four digits",
           tag := "httpdatert:" ++ boolTok (inRange t) ++ toString (weekday (t / 86400)) ++ ":" ++ toString ((civilFromDays (t / 86400)).2.1) }
  | _, _ => none

/-! ### response cookies with `expires` -/

def cookieTokensX (x : CookieE) : List String :=
  C17u.cookieTokens x.c ++ [toString x.expire.sec, toString x.expire.nsec]

/-- the validity predicate under which the round trip is demanded of the implementation: the one of `cookiert`
(`Proofs/CookieRt.wfCookie` spelled out) plus "the expiry that is written has a four-digit year". -/
def wfCookieX (x : CookieE) : Bool :=
  let c := x.c
  let plain (b : Bytes) := !b.contains 59 && b == decodeCookieArg b true
  !c.key.contains 61 && !c.key.contains 59 && c.key == decodeCookieArg c.key false && plain c.value && plain c.domain && plain c.path &&
    !(c.key.isEmpty && c.value.contains 61) &&
    (c.maxAge > 0 || x.expire.isZero || (decide (minSec ≤ x.expire.sec) && decide (x.expire.sec < maxSec)))

def handleCookieX : Handler
  | ["cookieparsex", src], _ => do
    let src ← hx src
    let segs := cookieSegs src
    let nExp := (segs.drop 1).countP (fun seg => isExpiresKey (cookieKV seg).1)
    match parseCookieE src with
    | none => pure { out := ["err"], tag := "cookieparsex:err:" ++ toString nExp }
    | some x => pure { out := "ok" :: cookieTokensX x,
                       tag := "cookieparsex:ok:" ++ toString nExp ++ boolTok x.expire.isZero ++ boolTok (x.c.maxAge > 0) ++ boolTok (x.expire.nsec > 0) }
  | ["cookiertx", _fresh, key, value, maxAge, domain, path, ho, se, ss, pa, esec, ensec, _loc], impl => do
    let key ← hx key; let value ← hx value; let domain ← hx domain
    let pathSet := path != "N"
    let path ← if pathSet then hx path else some []
    let sameSite := match ss with | "1" => SameSite.default | "2" => .lax | "3" => .strict | "4" => .none | _ => .disabled
    let secure := se == "1" || sameSite == .none || pa == "1"
    let path := if pathSet then normalizePath path else []
    let c : Cookie := { key, value, maxAge := (if maxAge.toInt! > 0 then maxAge.toNat! else 0), domain, path, httpOnly := ho == "1",
                        secure, sameSite, partitioned := pa == "1" }
    let expire : Instant := if esec == "N" then zeroInstant else ⟨esec.toInt!, ensec.toNat!⟩
    let x : CookieE := { c, expire }
    let ser := appendCookieE x
    let wf := wfCookieX x && !ser.isEmpty
    let want := canonE x
    let ok := match impl with
      | _s :: "ok" :: t => t.take 11 == cookieTokensX want
      | _ => false
    let back := match parseCookieE ser with
      | none => ["err"]
      | some d => "ok" :: cookieTokensX d
    let lost := if want == x then "" else if c.maxAge > 0 && !expire.isZero then ":lost-by-maxage" else ":lost-subsecond"
    pure { out := [encHex ser] ++ back ++ [boolTok c.secure], spec := !wf || ok,
           specNote := "parsing a response cookie's string form returns the same key, value and attributes (expiry: whole seconds, none next to max-age)",
           tag := "cookiertx:" ++ boolTok wf ++ boolTok (c.maxAge > 0) ++ boolTok expire.isZero ++
                  boolTok (decide (minSec ≤ expire.sec) && decide (expire.sec < maxSec)) ++ lost }
  | _, _ => none

/-! ### Args programs and request cookies -/

def parseArgOps : List String → Option (List ArgOp)
  | [] => some []
  | o :: k :: v :: t => do
    let k ← hx k; let v ← hx v; let r ← parseArgOps t
    let op ← match o with
      | "A" => some (ArgOp.add k v) | "S" => some (.set k v) | "D" => some (.del k) | "P" => some (.parse k) | "R" => some .reset
      | _ => none
    pure (op :: r)
  | _ => none

def argOpKey : ArgOp → Bytes
  | .add k _ => k | .set k _ => k | .del k => k | .parse b => b | .reset => []

def splitHash (l : List String) : List (List String) :=
  l.foldr (fun t acc => if t == "#" then [] :: acc else match acc with | h :: r => (t :: h) :: r | [] => [[t]]) [[]]

def parseCookieOps : List String → Option (List CookieOp)
  | [] => some []
  | o :: k :: v :: t => do
    let k ← hx k; let v ← hx v; let r ← parseCookieOps t
    let op ← match o with
      | "S" => some (CookieOp.set k v) | "D" => some (.del k) | "X" => some .delAll | "L" => some (.line k)
      | _ => none
    pure (op :: r)
  | _ => none

def encPairs (l : List (Bytes × Bytes)) : List String := l.flatMap (fun kv => [encHex kv.1, encHex kv.2])

def pairsOfTokens : List String → Option (List (Bytes × Bytes))
  | [] => some []
  | k :: v :: t => do let k ← hx k; let v ← hx v; let r ← pairsOfTokens t; pure ((k, v) :: r)
  | _ => none

def opTag (ops : List ArgOp) : String :=
  String.ofList (ops.map (fun | .add .. => 'A' | .set .. => 'S' | .del .. => 'D' | .parse .. => 'P' | .reset => 'R'))

def handleProg : Handler
  | "argsprog" :: _fresh :: rest, impl => do
    let ops ← parseArgOps rest
    let l := runArgOps ops
    let qs := appendArgs l
    let back := parseArgs qs
    let peeks := ops.flatMap (fun o =>
      match peekArg l (argOpKey o) with
      | some v => ["1", encHex v, "1"]
      | none => ["0", "-", "0"])
    -- spec on the implementation's tokens: what ParseBytes(QueryString()) yields is what VisitAll reported, both-empty excepted
    let ok := match splitHash impl with
      | [ents, _, back', _] =>
        match C17.parseKVs ents, C17.parseKVs back' with
        | some e, some b => b == e.filter (fun kv => !kv.bothEmpty)
        | _, _ => false
      | _ => false
    pure { out := C17.encKVs l ++ ["#", encHex qs, "#"] ++ C17.encKVs back ++ ["#"] ++ peeks, spec := ok,
           specNote := "after any program of Add/Set/Del/ParseBytes/Reset, ParseBytes(QueryString()) returns the entries VisitAll reports (both-empty excepted)",
           tag := "argsprog:" ++ (if ops.length ≤ 3 then opTag ops else sizeClass ops.length) ++ ":" ++ sizeClass l.length ++
                  boolTok (l.any (·.noValue)) ++ boolTok (l.any (·.bothEmpty)) }
  | "reqcookies" :: _fresh :: rest, impl => do
    let ops ← parseCookieOps rest
    let l := runCookieOps ops
    let line := appendReqCookies l
    let back := parseReqCookies line
    let wf := l.all wfReqCookie
    let ok := match splitHash impl with
      | [ents, _, back'] =>
        match pairsOfTokens ents, pairsOfTokens back' with
        | some e, some b => b == e.filter (fun kv => !(kv.1.isEmpty && kv.2.isEmpty))
        | _, _ => false
      | _ => false
    pure { out := encPairs l ++ ["#", encHex line, "#"] ++ encPairs back, spec := !wf || ok,
           specNote := "well-formed request cookies survive the Cookie line (entries with neither key nor value excepted)",
           tag := "reqcookies:" ++ boolTok wf ++ sizeClass l.length ++ boolTok (back == l) }
  | ["reqcookieparse", src], _ => do
    let src ← hx src
    let l := parseReqCookies src
    pure { out := encPairs l, tag := "reqcookieparse:" ++ sizeClass l.length ++ boolTok (l.any (·.1.isEmpty)) ++ boolTok (src.contains 34) }
  | _, _ => none

/-! ### programs over one URI object -/

def parseUriOps : List String → Option (List UriOp)
  | [] => some []
  | o :: x :: y :: t => do
    let x ← hx x; let y ← hx y; let r ← parseUriOps t
    let op ← match o with
      | "P" => some (UriOp.parse x y) | "SS" => some (.setScheme x) | "SH" => some (.setHost x) | "SP" => some (.setPath x)
      | "SF" => some (.setHash x) | "SQ" => some (.setQueryString x) | "SU" => some (.setUsername x) | "SW" => some (.setPassword x)
      | "QA" => some (.args (.add x y)) | "QS" => some (.args (.set x y)) | "QD" => some (.args (.del x))
      | "QP" => some (.args (.parse x)) | "QR" => some (.args .reset) | "U" => some (.update x) | "R" => some .reset
      | _ => none
    pure (op :: r)
  | _ => none

def viewTokens (l : List ArgKV) : List String := toString l.length :: C17.encKVs l

def uriOpTag : UriOp → String
  | .parse .. => "P" | .setScheme _ => "s" | .setHost _ => "h" | .setPath _ => "p" | .setHash _ => "f" | .setQueryString _ => "q"
  | .setUsername _ => "u" | .setPassword _ => "w" | .args _ => "A" | .reset => "R"
  | .update b =>
    match b with
    | [] => "U0"
    | c :: _ => if containsSub Gen.Str.strSlashSlash b then "Ua" else if c = 47 then "U/" else if c = 63 then "U?" else if c = 35 then "U#" else "Ur"

/-- take `n` entries (3 tokens each) -/
def takeKVs (n : Nat) (t : List String) : Option (List ArgKV × List String) := do
  let l ← C17.parseKVs (t.take (3 * n))
  if l.length = n then pure (l, t.drop (3 * n)) else none

def handleUriProg : Handler
  | "uriprog" :: _fresh :: rest, impl => do
    let ops ← parseUriOps rest
    match runUriOps ops with
    | none => pure { out := ["PANIC"], spec := false, specNote := "Update panics", tag := "uriprog:panic" }
    | some st =>
      let full := st.fullURI
      let v : UState := UState.ofParse [] full
      let out := C17u.uriTokens st.u ++ [encHex st.u.lastPathSegment] ++ viewTokens st.queryView ++ ["#", encHex full, "#"] ++
        C17u.uriTokens v.u ++ viewTokens v.queryView ++ [encHex v.fullURI]
      -- the spec, on the implementation's tokens
      -- the raw query string is written iff `QueryArgs()` was not used since it was set (/repo 97b0e80)
      let rawQ := if st.parsed then [] else st.u.query
      let (ok, wf, why) := match impl with
        | sc :: ho :: pa :: _po :: _qs :: ha :: _us :: _pw :: _seg :: n :: t =>
          match takeKVs n.toNat! t with
          | some (view, "#" :: f :: "#" :: sc2 :: ho2 :: pa2 :: _po2 :: _qs2 :: ha2 :: us2 :: pw2 :: m :: t2) =>
            match takeKVs m.toNat! t2, hx sc, hx ho, hx ha with
            | some (view2, [f2]), some scheme, some host, some hash =>
              let wf := C17u.wfUri scheme host && !C17u.hasCtl rawQ && !rawQ.contains 35
              let c1 := sc2 == sc; let c2 := ho2 == ho; let c3 := pa2 == pa; let c4 := ha2 == ha
              let c5 := view2 == view.filter (fun kv => !kv.bothEmpty)
              let c6 := f2 == f || view.any (·.bothEmpty)
              let c7 := us2 == "-" && pw2 == "-"
              (c1 && c2 && c3 && c4 && c5 && c6 && c7, wf && !C17u.hasCtl hash || (wf && C17u.hasCtl hash),
               s!"scheme={c1} host={c2} path={c3} hash={c4} query={c5} fixedpoint={c6} no-userinfo={c7}")
            | _, _, _, _ => (false, true, "unparsable")
          | _ => (false, true, "unparsable")
        | _ => (false, true, "unparsable")
      pure { out, spec := !wf || ok,
             -- the query conjunct is demanded in ALL states (the former class `uri-stale-query` is repaired: a recurrence is a violation)
             cls := if C17u.hasCtl st.u.hash then "uri-fragment-ctl" else "",
             specNote := "a URI built by any program of setters / Parse / Update / QueryArgs mutations survives FullURI -> Parse (user-info is never written): " ++ why,
             tag := "uriprog:" ++ boolTok wf ++ boolTok st.staleQuery ++ boolTok (!st.u.username.isEmpty) ++ ":" ++
                    (if ops.length ≤ 3 then String.join (ops.map uriOpTag) else sizeClass ops.length ++ "…" ++ String.join ((ops.drop (ops.length - 2)).map uriOpTag)) }
  | _, _ => none

def handle : Handler := fun a i =>
  (((handleDate a i).orElse (fun _ => handleCookieX a i)).orElse (fun _ => handleProg a i)).orElse (fun _ => handleUriProg a i)

end Hertz.Driver.C17x
