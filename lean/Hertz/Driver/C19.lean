import Hertz.Driver.Core
import Hertz.Model.Http1.Trace
namespace Hertz.Driver.C19
open Hertz Hertz.Driver Hertz.H1 Hertz.Tracer

/-! ### the implementation's call log → `List Call` (real time stamps, in ns) -/

/-- `-` or `<ns><i|e>` -/
def parseEvTok (t : String) : Option (Option Rec) :=
  if t == "-" then some none else
  let cs := t.toList
  match cs.getLast? with
  | some 'i' => (String.ofList cs.dropLast).toNat?.map (fun n => some ⟨n, false⟩)
  | some 'e' => (String.ofList cs.dropLast).toNat?.map (fun n => some ⟨n, true⟩)
  | _ => none

def parseSnap (ts : List String) : Option Snap := ts.mapM parseEvTok

def parseId (t : String) : Option (Option Nat) := if t == "-" then some none else t.toNat?.map some

/-- `lastH`: the handler entry not yet claimed by a `Finish`: (running number, uri).  A `Finish` is taken to
hold the data of that request iff it shows the same request target. -/
partial def parseCalls (nH : Nat) (lastH : Option (Nat × String)) : List String → Option (List Call × Bool)
  | ["X", p] => some ([], p == "1")
  | "S" :: id :: rest => do
    let id ← id.toNat?
    let s ← parseSnap (rest.take 10)
    if (rest.take 10).length != 10 then none
    let (cs, p) ← parseCalls nH lastH (rest.drop 10)
    pure (.start id s :: cs, p)
  | "H" :: id :: uri :: rest => do
    let id ← parseId id
    let (cs, p) ← parseCalls (nH + 1) (some (nH + 1, uri)) rest
    pure (.handle id (nH + 1) :: cs, p)
  | "F" :: id :: uri :: err :: rest => do
    let id ← parseId id
    let s ← parseSnap (rest.take 10)
    if (rest.take 10).length != 10 then none
    let data := match lastH with
      | some (k, u) => if u == uri then some k else none
      | none => none
    let (cs, p) ← parseCalls nH none (rest.drop 10)
    pure (.finish id data (err == "1") s :: cs, p)
  | _ => none

def parseImpl : List String → Option (List Call × Bool)
  | "N" :: _ :: rest => parseCalls 0 none rest
  | _ => none

/-! ### the model's call log → tokens -/

def evTok : Option Rec → String
  | none => "-"
  | some r => "*" ++ (if r.isErr then "e" else "i")     -- the time is taken from the implementation's token

def idTok : Option Nat → String
  | none => "-"
  | some n => toString n

/-- uri of the `k`-th handled request / of the `n`-th started iteration -/
def handledURI (its : List TIter) (k : Nat) : String :=
  match (its.filter (·.handled))[k - 1]? with
  | some t => (t.uri.map encHex).getD "?"
  | none => "?"

def callTokens (its : List TIter) : Call → List String
  | .start id s => "S" :: toString id :: s.map evTok
  | .handle c k => ["H", idTok c, handledURI its k]
  | .finish c d e s =>
    let uri := match d with
      | some k => handledURI its k
      | none => "?"    -- a request that failed before the handler: some error paths reset the request, no opinion
    "F" :: idTok c :: uri :: boolTok e :: s.map evTok

/-- positions where the model has no opinion (`?`) or only a status (`*i`, `*e`) take the implementation's token -/
def fill : List String → List String → List String
  | [], _ => []
  | m :: ms, [] => m :: fill ms []
  | m :: ms, i :: is =>
    (if m == "?" then i
     else if m == "*i" || m == "*e" then
       (match parseEvTok i with
        | some (some r) => if r.isErr == (m == "*e") then i else m
        | _ => m)
     else m) :: fill ms is

def modeOf (m : String) : Option Bool :=
  if m == "poll" then some true else if m == "loop" || m == "std0" then some false else none

def outcomeTag : Outcome → String
  | .headerErr .nothingRead => "hN" | .headerErr .eof => "hE" | .headerErr .other => "hX"
  | .bodyErr .nothingRead => "bN" | .bodyErr .eof => "bE" | .bodyErr .other => "bX"
  | .contWriteErr => "cW" | .contBodyErr => "cB"
  | .handled .panic => "P" | .handled .writeErr => "W" | .handled .flushErr => "F" | .handled .releaseErr => "R"
  | .handled .hijackTimeoutErr => "T" | .handled .hijacked => "J" | .handled .close => "C" | .handled .next => "n"

def histTag (its : List TIter) : String :=
  let n := (its.filter (·.handled)).length
  let last := match its.getLast? with
    | some t => if t.it.peekFails then "idle" else outcomeTag t.it.outcome
    | none => "none"
  toString (min n 4) ++ ":" ++ last

def handle : Handler
  | ["trace", mode, level, flags, maxBody, endK, stream, _cuts], impl => do
    let s ← hx stream
    let poll ← modeOf mode
    let lv := level.toNat!
    let off := flags.contains 'o'
    let c : TraceCfg := {
      h1 := { disableNorm := flags.contains 'n', disableKeepalive := flags.contains 'k',
              maxBody := (if maxBody.toNat! = 0 then 4194304 else maxBody.toNat!) },
      poll := poll, recovery := flags.contains 'r' }
    let e := if endK == "stall" then End.stall else End.eof
    let its := classify c e s
    let acts := connection { enableTrace := !off, idleZero := poll } (histories c its)
    let log := observe lv acts
    let panicked := its.any (fun t => t.it.outcome == .handled .panic && !t.it.peekFails)
    let model := ["N", toString log.length] ++ log.flatMap (callTokens its) ++ ["X", boolTok panicked]
    let (ok, note) := match parseImpl impl with
      | none => (false, "impl-output-unparsable(hang)")
      | some (calls, _) =>
        if off then (logOffOK 1 calls, "handler-only log expected")
        else
          let a := alternates calls
          let p := logOK lv calls
          (a && p, (if a then "" else "start/finish do not alternate ") ++ (if p then "" else "pairing/stage-order violated"))
    pure { out := fill model impl, spec := ok, specNote := if ok then "" else note,
           tag := "trace:" ++ mode ++ ":" ++ level ++ ":" ++ (if off then "off:" else "") ++ histTag its ++ (if endK == "stall" then "S" else "E") }
  | _, _ => none

end Hertz.Driver.C19
