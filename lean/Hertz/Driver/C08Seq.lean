import Hertz.Driver.Core
import Hertz.Model.FsTree
import Hertz.Spec.FsTree
import Hertz.Gen.Fs
/-!
Driver side of the C08 op `fsseq` (see harness/c08seq.go): a directory tree that changes between
requests.

  `fsseq <accept> <compress> <step>*`   five tokens per step (`W S D E R X G`)
  → for every `G`: `status cl cr ar enc rawlen body`; then for every name of the universe the file and
    its `.hertz.gz` sibling as `A - -` | `R mt hex` | `G mt hex`; then the number of other entries.

The model (`Hertz/Model/FsTree.lean`) chooses the `fsFile`; `serveDecision` (`Hertz/Model/Fs.lean`)
turns it into the answer.  Lengths of gzip streams on the wire are not modelled (copied from the
implementation's tokens); what they decode to is.
-/
namespace Hertz.Driver.C08Seq
open Hertz Hertz.Driver Hertz.FS

def patF (n : Nat) : Bytes := (List.range n).map (fun i => ((31 * i + 7 * n + 3) % 251).toUInt8)
def patZ (n : Nat) : Bytes := (List.range n).map (fun i => (65 + (i / 64) % 7).toUInt8)

def contentTok? (tok : String) : Option Bytes :=
  match tok.toList with
  | 'F' :: r => (String.ofList r).toNat?.map patF
  | 'Z' :: r => (String.ofList r).toNat?.map patZ
  | _ => none

/-- the names the harness reports on at the end: a.html, b.zzq, c.html -/
def nameUniverse : List Bytes := [[97, 46, 104, 116, 109, 108], [98, 46, 122, 122, 113], [99, 46, 104, 116, 109, 108]]

def parseSteps : List String → Option (List Step)
  | [] => some []
  | k :: a :: b :: c :: d :: rest => do
    let s ← match k with
      | "W" => do
        let n ← hx a; let cb ← contentTok? b; let mt ← c.toNat?
        some (Step.write n cb mt (d == "1"))
      | "S" => do
        let n ← hx a; let cb ← contentTok? b; let mt ← c.toNat?
        some (Step.plant n (if d == "g" then .gz (.raw cb) else .raw cb) mt)
      | "D" => do let n ← hx a; some (Step.del n)
      | "E" => do let n ← hx a; some (Step.delSib n)
      | "R" => some Step.flush
      | "X" => some Step.flush
      | "G" => do
        let n ← hx a
        let r ← if d == "N" then some [] else hx d
        some (Step.get n (b == "HEAD") (c == "1") r)
      | _ => none
    let r ← parseSteps rest
    some (s :: r)
  | _ => none

def optHex (o : Option Bytes) : String := match o with | some b => encHex b | none => "N"
def optHex? (s : String) : Option (Option Bytes) := if s = "N" then some none else (hx s).map some
def arTok (b : Bool) : String := if b then "6279746573" else "N"

/-- model tokens of one `G` step; `impl` are the implementation's seven tokens -/
def getTokens (accept : Bool) (f : Except OpenErr FsFile) (head : Bool) (byteRange : Bytes) (impl : List String) :
    Option (List String) :=
  match f with
  | .error _ =>
    let r := abortResp head 404 msg404
    some [toString r.status, toString r.contentLength, "N", "N", "N", toString r.body.length, encHex r.body]
  | .ok ff =>
    match ff.payload with
    | .raw b =>
      let rk : ReaderKind := if b.length > Gen.Fs.maxSmallFileSize then .big else .small
      match serveDecision rk b head byteRange accept with
      | .ok r =>
        -- a file that is not a gzip stream sent with `Content-Encoding: gzip`: the harness says `badgzip`
        let enc := if ff.compressed then (if r.body.isEmpty then "gzip" else "badgzip") else "N"
        some [toString r.status, toString r.contentLength, optHex r.contentRange, arTok r.acceptRanges, enc,
              toString r.body.length, encHex r.body]
      | .error (.panic _) => some ["PANIC", "-", "-", "-", "-", "-", "-"]
      | .error _ => some ["ERR:io", "-", "-", "-", "-", "-", "-"]
    | .gz (.raw c) =>
      if ff.compressed && byteRange.isEmpty then
        match impl with
        | [_, cl, _, _, _, rawlen, _] =>
          some ["200", cl, "N", arTok accept, "gzip", rawlen, if head then "-" else encHex c]
        | _ => some ["200", "?", "N", arTok accept, "gzip", "?", if head then "-" else encHex c]
      else none
    | _ => none

def nodeTokens (sibling : Bool) : Option Node → Option (List String)
  | none => some ["A", "-", "-"]
  | some n =>
    match n.payload with
    | .raw b => some ["R", toString n.mtime, encHex b]
    | .gz (.raw c) => if sibling then some ["G", toString n.mtime, encHex c] else none
    | _ => none

def treeTokens (t : Tree) : Option (List String) :=
  nameUniverse.foldlM (fun acc name => do
    let a ← nodeTokens false (t.find name)
    let b ← nodeTokens true (t.find (name ++ gzSuffix))
    pure (acc ++ a ++ b)) []

/-- which way through the open path a request takes (branch tag only) -/
def branchLabel (compress : Bool) (st : State) (name : Bytes) (byteRange : Bytes) (ae : Bool) : String :=
  let mc := mustCompress compress byteRange ae
  if mc then
    match st.ccache.find name with
    | some _ => "zhit"
    | none =>
      match st.tree.find (name ++ gzSuffix), st.tree.find name with
      | none, none => "z404"
      | none, some o => if o.compressible then "zcreate" else "zincompr"
      | some _, none => "zorphan"
      | some z, some o =>
        if z.mtime < o.mtime then "zolder" else if z.mtime > o.mtime then "znewer"
        else if z.payload == .gz o.payload then "zfresh" else "zsametime-other"
  else
    match st.cache.find name with
    | some _ => "phit"
    | none => if (st.tree.find name).isSome then "popen" else "p404"

def parseAnswer (t : List String) : Option Spec.Answer :=
  match t with
  | [st, cl, cr, ar, enc, rawlen, body] => do
    let st ← st.toNat?; let cl ← cl.toInt?; let cr ← optHex? cr; let body ← hx body; let rawlen ← rawlen.toNat?
    if ar != "N" && ar != "6279746573" then none else
    some { resp := { status := st, contentLength := cl, contentRange := cr, acceptRanges := ar != "N", body := body },
           enc := enc, rawlen := rawlen }
  | _ => none

/-- a modification time that is none of the scenario's (`?`) is some other time -/
def mtTok? (s : String) : Option Nat := if s == "?" then some 18446744073709551615 else s.toNat?

def parseEntry (t : List String) : Option (Option (Payload × Nat)) :=
  match t with
  | ["A", _, _] => some none
  | ["R", mt, h] => do let mt ← mtTok? mt; let b ← hx h; some (some (.raw b, mt))
  | ["G", mt, h] => do let mt ← mtTok? mt; let b ← hx h; some (some (.gz (.raw b), mt))
  | _ => none

/-- spec on the tree the implementation left behind -/
def treeSpec (steps : List Step) (honest : Bool) : List Bytes → List String → Bool
  | [], rest => rest == ["0"]
  | name :: names, a :: b :: c :: d :: e :: f :: rest =>
    match parseEntry [a, b, c], parseEntry [d, e, f] with
    | some file, some sib =>
      let want := Spec.finalOf name steps
      let fileOk := match file, want with
        | none, none => true
        | some (.raw b, mt), some (c, mt') => b == c && mt == mt'
        | _, _ => false
      let file' := match file with | some (.raw b, mt) => some (b, mt) | _ => none
      fileOk && (!honest || Spec.siblingOk file' sib) && treeSpec steps honest names rest
    | _, _ => false
  | _, _ => false

structure Acc where
  st : State := {}
  pre : List Step := []
  out : List String := []
  spec : Bool := true
  note : String := ""
  labels : List String := []
  impl : List String
  ok : Bool := true

def go (accept compress honest : Bool) (acc : Acc) (s : Step) : Acc :=
  match s with
  | .get name head ae r =>
    let chunk := acc.impl.take 7
    let label := branchLabel compress acc.st name r ae
    let (st', f) := fetch compress acc.st name r ae
    let toks := getTokens accept f head r chunk
    let specOk := !honest ||
      (match parseAnswer chunk with
       | some a => Spec.answerOk acc.pre.reverse name head r accept compress ae a
       | none => false)
    { acc with st := st', pre := s :: acc.pre, out := acc.out ++ toks.getD ["?"], ok := acc.ok && toks.isSome,
               spec := acc.spec && specOk,
               note := if specOk || !acc.note.isEmpty then acc.note else
                 s!"request {acc.labels.length + 1} ({label}) is not answered with a content the file had since the caches were last empty",
               labels := acc.labels ++ [label], impl := acc.impl.drop 7 }
  | _ => { acc with st := (step compress acc.st s).1, pre := s :: acc.pre }

def sortDedup (l : List String) : List String :=
  (l.foldl (fun acc x => if acc.contains x then acc else acc ++ [x]) []).toArray.qsort (· < ·) |>.toList

def handle : Handler
  | "fsseq" :: a :: c :: stepToks, impl => do
    let steps ← parseSteps stepToks
    let accept := a == "1"
    let compress := c == "1"
    let honest := Spec.honest steps
    let acc := steps.foldl (go accept compress honest) { impl := impl }
    let _ ← if acc.ok then some () else none
    let tree ← treeTokens acc.st.tree
    let out := acc.out ++ tree ++ ["0"]
    let tspec := treeSpec steps honest nameUniverse acc.impl
    let note := if !acc.note.isEmpty then acc.note
                else if !tspec then "the tree afterwards: a served file was changed, a stray entry, or a sibling with the file's mtime that does not decode to it"
                else "every answer carries a content the file had since the caches were last empty; served files untouched"
    pure { out := out, spec := acc.spec && tspec, specNote := note,
           tag := "fsseq:" ++ a ++ c ++ (if honest then "" else ":!honest") ++ ":" ++ ",".intercalate (sortDedup acc.labels) }
  | _, _ => none

end Hertz.Driver.C08Seq
