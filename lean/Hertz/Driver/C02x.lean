import Hertz.Driver.Core
import Hertz.Model.Http1.ScanEdit
/-!
Driver handlers of the C02 extension: `scanblk` (the real `HeaderScanner` on a buffer, on its edited bytes plus
more, on the whole, and on the edited whole again) and `hdrbuf` (the real readers on the real connection buffer).
The model recomputes every token including the buffers; the spec predicates are evaluated on the
implementation's tokens.
-/
namespace Hertz.Driver.C02x
open Hertz Hertz.Driver Hertz.H1 Hertz.H1.ScanEdit

structure ScanOut where
  stop : String
  hlen : Nat
  fields : List (String × String)
  buf : Bytes

def blockTokens (r : BlockN) : List String :=
  let (stop, hlen) := match r.stop with
    | .fin h => ("fin", h)
    | .needMore => ("needmore", r.touched)
    | .invalidName => ("invalid", r.touched)
  [stop, toString hlen, toString r.fields.length] ++ r.fields.flatMap (fun kv => [encHex kv.1, encHex kv.2]) ++ [encHex r.buf]

def takePairs : Nat → List String → Option (List (String × String) × List String)
  | 0, l => some ([], l)
  | n + 1, k :: v :: l => (takePairs n l).map (fun (ps, r) => ((k, v) :: ps, r))
  | _, _ => none

def parseScan : List String → Option (ScanOut × List String)
  | stop :: hlen :: n :: rest => do
    let (ps, rest) ← takePairs n.toNat! rest
    match rest with
    | b :: rest => some ({ stop, hlen := hlen.toNat!, fields := ps, buf := ← hx b }, rest)
    | [] => none
  | _ => none

def local_ (inp : Bytes) (o : ScanOut) : Bool :=
  o.buf.length == inp.length && o.buf.drop o.hlen == inp.drop o.hlen

def sameReading (a b : ScanOut) : Bool := a.stop == b.stop && a.hlen == b.hlen && a.fields == b.fields

def respRest (dn : Bool) (buf : Bytes) : List String :=
  match respParseN dn buf with
  | (.ok (_, n), b') => ["ok", encHex (b'.drop n)]
  | (.error .needMore, b') => ["err:timeout", encHex (respParseN dn b').2]
  | (.error .bad, b') => ["err:bad", encHex b']

def reqRest (dn : Bool) (buf : Bytes) : List String :=
  match reqParseE dn buf with
  | (.ok (_, n), b') => ["ok", encHex (b'.drop n)]
  | (.error .needMore, b') => ["err:timeout", encHex (reqParseE dn b').2]
  | (.error .bad, b') => ["err:bad", encHex b']

def trailerRest (dn : Bool) (buf : Bytes) : List String :=
  match trailerParseN dn [] buf with
  | (.ok (_, n), b') => ["ok", encHex (b'.drop n)]
  | (.error .needMore, b') => ["err:timeout", encHex (trailerParseN dn [] b').2]
  | (.error .bad, b') => ["err:bad", encHex b']

/-- the retry loop of a reader over two reads: parse the first read (twice: `n = 1`, then `n = Len()`), on need-more
parse the edited buffer followed by the second read (and, on need-more again, once more before the read times out) -/
def twoReads (parse : Bytes → (Option Nat × Bool) × Bytes) (buf : Bytes) (cut : Nat) : List String :=
  let fin (r : (Option Nat × Bool) × Bytes) (again : Bytes → Bytes) : List String :=
    match r with
    | ((some n, _), b') => ["ok", encHex (b'.drop n)]
    | ((none, true), b') => ["err:timeout", encHex (again b')]
    | ((none, false), b') => ["err:bad", encHex b']
  let a := buf.take cut
  if cut = 0 ∨ cut ≥ buf.length then fin (parse buf) (fun b => (parse b).2) else
  match parse a with
  | ((none, true), a1) =>
    let a2 := (parse a1).2
    fin (parse (a2 ++ buf.drop cut)) (fun b => (parse b).2)
  | ((some n, _), a1) => ["ok", encHex (a1.drop n)]   -- the second read is never made
  | ((none, false), a1) => ["err:bad", encHex a1]

def cls3 {α ε : Type} (needMore : ε → Bool) (r : Except ε (α × Nat) × Bytes) : (Option Nat × Bool) × Bytes :=
  match r with
  | (.ok (_, n), b) => ((some n, false), b)
  | (.error e, b) => ((none, needMore e), b)

def handle : Handler
  | ["hdrbuf2", kind, dn, buf, cut], _ => do
    let buf ← hx buf
    let dn := dn == "1"
    let cut := cut.toNat!
    let isNM (e : HeadErr) : Bool := e == .needMore
    let isNMt (e : TrErr) : Bool := e == .needMore
    let out :=
      if kind == "resp" then twoReads (fun b => cls3 isNM (respParseN dn b)) buf cut
      else if kind == "req" then twoReads (fun b => cls3 isNM (reqParseE dn b)) buf cut
      else twoReads (fun b => cls3 isNMt (trailerParseN dn [] b)) buf cut
    let rest := (hx (out.getLastD "-")).getD []
    pure { out, tag := "hdrbuf2:" ++ kind ++ ":" ++ out.headD "" ++ ":e" ++ boolTok (rest != buf.drop (buf.length - rest.length)) ++
             ":v" ++ boolTok (rest.count 32 != (buf.drop (buf.length - rest.length)).count 32) }
  | ["scanblk", dn, buf, cut], impl => do
    let buf ← hx buf
    let dn := dn == "1"
    let cut := min cut.toNat! buf.length
    let in1 := buf.take cut
    let r1 := scanBlockN dn in1
    let in2 := r1.buf ++ buf.drop cut
    let r2 := scanBlockN dn in2
    let rw := scanBlockN dn buf
    let r4 := scanBlockN dn rw.buf
    let dry := anyDryFold dn (in1.length + 1) in1   -- tag only: the situation c627e0d repaired
    let out := blockTokens r1 ++ blockTokens r2 ++ blockTokens rw ++ blockTokens r4
    let (spec, note) := match (do
        let (o1, t) ← parseScan impl
        let (o2, t) ← parseScan t
        let (ow, t) ← parseScan t
        let (o4, t) ← parseScan t
        if t.isEmpty then some (o1, o2, ow, o4) else none) with
      | none => (false, "impl-output-unparsable(panic/loop)")
      | some (o1, o2, ow, o4) =>
        let pLocal := local_ in1 o1 && local_ (o1.buf ++ buf.drop cut) o2 && local_ buf ow && local_ ow.buf o4
        let pIdem := sameReading o4 ow && o4.buf == ow.buf
        let pRescan := o1.stop != "needmore" || sameReading o2 ow
        (pLocal && pIdem && pRescan,
         (if pLocal then "" else "edit-not-local ") ++ (if pIdem then "" else "edit-not-idempotent ") ++
           (if pRescan then "" else "rescan-after-edit-differs-from-whole"))
    let stopTag (r : BlockN) := match r.stop with | .fin _ => "f" | .needMore => "n" | .invalidName => "i"
    pure { out, spec, specNote := note,
           tag := "scanblk:" ++ stopTag r1 ++ stopTag rw ++ ":" ++ sizeClass rw.fields.length ++ ":e" ++ boolTok (r1.buf != in1) ++
             boolTok (rw.buf != buf) ++ ":v" ++ boolTok (rw.buf.count 32 != buf.count 32) ++
             ":d" ++ boolTok dry ++ ":r" ++ boolTok (r2.reading == rw.reading) ++ (if dn then ":dn" else "") }
  | ["hdrbuf", kind, dn, buf], _ => do
    let buf ← hx buf
    let dn := dn == "1"
    let out := if kind == "resp" then respRest dn buf else if kind == "req" then reqRest dn buf else trailerRest dn buf
    let rest := (hx (out.getLastD "-")).getD []
    pure { out, tag := "hdrbuf:" ++ kind ++ ":" ++ out.headD "" ++ ":e" ++ boolTok (rest != buf.drop (buf.length - rest.length)) ++
             ":v" ++ boolTok (rest.count 32 != (buf.drop (buf.length - rest.length)).count 32) }
  | _, _ => none

end Hertz.Driver.C02x
