import Hertz.Driver.Core
import Hertz.Model.PoolOwn
/-!
Driver handler for the ownership part of C09 (op `own`, see `harness/c09own.go`).

The script (engine settings, per connection a list of request kinds with handler flags) is turned into the event
sequence of `Model/PoolOwn.lean` (`connEvents`); the model is run on it, the `Get` choices being the ones the
implementation made (the identities it reports): a reported identity is admissible iff the model's pool holds it at
that moment or it has never been seen (a new object).  An inadmissible one is marked `!id` in the model's output.
The drained pools must equal the model's pools as multisets.

Spec, on the implementation's output alone: no identity occurs twice in a drained pool; the k concurrent uploads
have k distinct contexts and k distinct streams and every handler read its own body.
-/
namespace Hertz.Driver.C09Own
open Hertz Hertz.Driver Hertz.PoolOwn

structure Opts where
  stream : Bool
  idle0 : Bool
  keepHj : Bool
  recovery : Bool

/-- request token → (`Req`, the user keeps the hijack conn (KeepHijackedConns and never closes it)) -/
def reqOf (o : Opts) (tok : String) : Req × Bool :=
  let cs := tok.toList
  let kind := cs.headD 'g'
  let fl := cs.drop 1
  let has (c : Char) := fl.contains c
  let readable := kind != 'b' && kind != 't' && (o.stream || kind != 'K')
  let streamed := o.stream && (kind == 's' || kind == 'L' || kind == 'k' || kind == 'K' || kind == 'e')
  -- `q`: the hijack handler closes the conn it was given once, `Q`: three times (regression for 4f1f5ed)
  let closes := if has 'Q' then 3 else if has 'q' then 1 else 0
  ({ readable := readable, streamed := streamed, skipErr := kind == 'K', exile := has 'x',
     panics := has 'p' && !o.recovery, failWrite := has 'w', hijack := has 'h', closes := closes, close := has 'c' },
   o.keepHj && closes == 0)

structure Sim where
  s : State := {}
  bind : List (String × Nat) := []
  out : List String := []      -- reversed
  ok : Bool := true
  /-- hijack conns the user keeps (identities as reported by the implementation) -/
  kept : List String := []
  /-- a hijack handler was handed an object another user still keeps -/
  clash : Bool := false

def Sim.emit (m : Sim) (ts : List String) : Sim := { m with out := ts.reverse ++ m.out }

/-- resolve the `Get` choice from the identity the implementation reports -/
def Sim.choose (m : Sim) (k : Kind) (a : String) : Sim × Nat × String :=
  match m.bind.lookup a with
  | some x =>
    match (m.s.pool k).idxOf? x with
    | some i => (m, i, a)
    | none => ({ m with ok := false }, (m.s.pool k).length, "!" ++ a)
  | none =>
    if a == "?" || a == "-" then ({ m with ok := false }, (m.s.pool k).length, "!" ++ a) else
    ({ m with bind := (a, m.s.next) :: m.bind }, (m.s.pool k).length, a)

def Sim.step (m : Sim) (e : Ev) : Sim := { m with s := PoolOwn.step m.s e }

/-- Walk the events of one connection; `toks`: the implementation's `H`/`J` tokens of this connection. -/
def walk (m : Sim) (ctxTok : String) (dbl keep : Bool) : List Ev → List String → Sim × List String
  | [], toks => (m, toks)
  | .read c true _ :: es, toks =>
    match toks with
    | "H" :: cx :: st :: rest =>
      let (m, i, t) := m.choose .stream st
      let m := (m.step (.read c true i)).emit ["H", ctxTok, t]
      let m := if cx == ctxTok then m else { m with ok := false }
      walk m ctxTok dbl keep es rest
    | _ => walk ((m.step (.read c true (m.s.pool .stream).length)).emit ["H", ctxTok, "!missing"]) ctxTok dbl keep es toks
  | .read c false _ :: es, toks =>
    match toks with
    | "H" :: _ :: _ :: rest => walk ((m.step (.read c false 0)).emit ["H", ctxTok, "-"]) ctxTok dbl keep es rest
    | _ => walk ((m.step (.read c false 0)).emit ["H", ctxTok, "-"]) ctxTok dbl keep es toks
  | .after c .hijack _ :: es, toks =>
    match toks with
    | "J" :: h :: _d :: rest =>
      let (m, i, t) := m.choose .hjconn h
      -- inside the hijack handler the request still refers to the released stream (`released_reference_dangles`)
      let dang := match (m.s.conns c).bind (·.stream) with
        | some x => if (m.s.pool .stream).contains x then
            ((m.bind.find? (fun p => p.2 == x)).map (·.1)).getD ("#" ++ toString x) else "!owned"
        | none => "-"
      let m := (m.step (.after c .hijack i)).emit ["J", t, dang]
      let m := if m.kept.contains h then { m with clash := true } else m
      let m := if keep then { m with kept := h :: m.kept } else m
      walk m ctxTok dbl keep es rest
    | _ => walk ((m.step (.after c .hijack (m.s.pool .hjconn).length)).emit ["J", "!missing", "-"]) ctxTok dbl keep es toks
  | e :: es, toks => walk (m.step e) ctxTok dbl keep es toks

def retCode : RetSite → String
  | .readErr => "E" | .writeFail => "W" | .panicked => "P" | .releaseErr => "R" | .hijacked => "H"
  | .shortConn => "C" | .idle0 => "I"

/-- the model's phase of connection `c` just before its `finish` -/
def endCode (evs : List Ev) (s : State) (c : Nat) : String :=
  let s' := run s (evs.filter (fun e => match e with | .finish _ => false | _ => true))
  match s'.conns c with
  | some cn =>
    (match cn.phase with | .ret r => retCode r | _ => "?") ++ (if cn.exiled then "x" else "") ++
    (if cn.stream.isSome then "s" else "")
  | none => "?"

def splitConn : List String → List String × List String
  | [] => ([], [])
  | t :: ts => if t == "C" || t == "U" then ([], t :: ts) else
    let (a, b) := splitConn ts
    (t :: a, b)

/-- all scripted connections, one after the other -/
def conns (o : Opts) : Nat → Nat → List String → List String → Sim → List String → Option (Sim × List String × List String)
  | 0, _, args, impl, m, codes => some (m, impl, if args.isEmpty then codes else "?" :: codes)
  | n + 1, c, args, impl, m, codes => do
    let nreq ← (← args.head?).toNat?
    let rs := (args.drop 1).take nreq
    let reqs := rs.map (reqOf o)
    match impl with
    | "C" :: cx :: _pan :: rest =>
      let (mine, rest) := splitConn rest
      let hjReq := reqs.find? (fun r => r.1.readable && r.1.hijack)
      let keep := (hjReq.map (·.2)).getD false
      let dbl := (hjReq.map (fun r => decide (r.1.closes ≥ 2))).getD false
      let evs0 := connEvents c o.idle0 (reqs.map (·.1))
      let evs := evs0.filter (fun e => match e with | .accept _ _ => false | _ => true)
      -- (tag only) the repeated Close only happens if the script gets as far as the hijack
      let dbl := dbl && evs.any (fun e => match e with | .hijackEnd _ => true | _ => false)
      let (m, i, t) := m.choose .ctx cx
      let m := m.step (.accept c i)
      let code := endCode evs m.s c
      let pan := evs.any (fun e => match e with | .handle _ _ .panicked => true | _ => false)
      let m := m.emit ["C", t, boolTok pan]
      let (m, left) := walk m t dbl keep evs mine
      let m := if left.isEmpty then m else { m with ok := false }.emit ("!extra" :: left)
      conns o n (c + 1) (args.drop (1 + nreq)) rest m ((if dbl then code ++ "Q" else code) :: codes)
    | _ => none

def sortNat (l : List Nat) : List Nat := (l.toArray.qsort (· < ·)).toList

def hasDup : List String → Bool
  | [] => false
  | x :: xs => xs.contains x || hasDup xs

/-- one drained pool: `P n ids…` -/
def drain (m : Sim) (k : Kind) : List String → Option (Sim × List String × Bool)
  | "P" :: n :: rest => do
    let n ← n.toNat?
    if rest.length < n then none
    let ids := rest.take n
    let mapped := ids.map (fun a => m.bind.lookup a)
    let same := mapped.all Option.isSome && sortNat (mapped.filterMap id) == sortNat (m.s.pool k)
    let inv (x : Nat) : String := ((m.bind.find? (fun p => p.2 == x)).map (·.1)).getD ("#" ++ toString x)
    let m := if same then m.emit ("P" :: toString n :: ids)
             else { m with ok := false }.emit ("P" :: toString (m.s.pool k).length :: (m.s.pool k).map inv)
    pure (m, rest.drop n, hasDup ids)
  | _ => none

/-- the k concurrent uploads: all are accepted and read before any of them goes on (the barrier) -/
def uploads (o : Opts) (m : Sim) : Nat → Nat → List String → Sim × List String
  | 0, _, toks => (m, toks)
  | n + 1, c, cx :: st :: toks =>
    let (m, i, t) := m.choose .ctx cx
    let m := m.step (.accept c i)
    let (m, t2) :=
      if o.stream then
        let (m, j, t2) := m.choose .stream st
        (m.step (.read c true j), t2)
      else (m.step (.read c false 0), "-")
    uploads o (m.emit [t, t2]) n (c + 1) toks
  | _, _, toks => ({ m with ok := false }, toks)

def uploadRest (c : Nat) : List Ev :=
  [.handle c false .returned, .respond c true false, .after c .keepAlive 0, .readFail c, .finish c]

def own (a : List String) (impl : List String) : Option Result := do
  match a with
  | st :: i0 :: kh :: rc :: k :: nc :: rest =>
    let o : Opts := { stream := st == "1", idle0 := i0 == "1", keepHj := kh == "1", recovery := rc == "1" }
    let k ← k.toNat?
    let nc ← nc.toNat?
    let (m, impl', codes) ← conns o nc 0 rest impl { s := initK o.keepHj } []
    match impl' with
    | "U" :: k' :: okN :: utoks =>
      let m := m.emit ["U", toString k, toString k]
      let (m, after) := uploads o m k 1000 utoks
      let m := (List.range k).foldl (fun m j => (uploadRest (1000 + j)).foldl Sim.step m) m
      let uids := utoks.take (2 * k)
      let ctxs := (List.range k).map (fun j => uids.getD (2 * j) "?")
      let sts := (List.range k).map (fun j => uids.getD (2 * j + 1) "?")
      let (m, r1, d1) ← drain m .ctx after
      let (m, r2, d2) ← drain m .stream r1
      let (m, r3, d3) ← drain m .hjconn r2
      if !r3.isEmpty then none
      let distinct := !hasDup ctxs && (!o.stream || (!hasDup sts && !sts.contains "-")) && !ctxs.contains "?"
      let spec := !d1 && !d2 && !d3 && k' == toString k && okN == toString k && distinct && !m.clash
      let cs := (sortNat ((codes.map (fun s => s.hash.toNat)))).length  -- keep `codes` used
      let _ := cs
      let dedup := codes.foldl (fun acc x => if acc.contains x then acc else acc ++ [x]) []
      let sorted := (dedup.toArray.qsort (· < ·)).toList
      pure { out := m.out.reverse, spec := spec,
             specNote := "no identity twice in a drained pool; no hijack conn handed out while a user keeps it; k concurrent uploads: distinct contexts, distinct streams, own bodies",
             tag := "own:" ++ st ++ i0 ++ kh ++ rc ++ ":" ++ ",".intercalate sorted }
    | _ => none
  | _ => none

def handle : Handler
  | "own" :: a, impl => own a impl
  | _, _ => none

end Hertz.Driver.C09Own
