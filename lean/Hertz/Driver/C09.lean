import Hertz.Driver.Core
import Hertz.Model.Recycle
import Hertz.Spec.Recycle
import Hertz.Driver.C09Own
/-!
Driver handler for C09 (see `harness/c09.go` for the ops).

* `rst`    — the pre-state dumped from the real object is decoded into the generated structure, the
             *generated* reset function is run on it (oracle bits as evaluated by the harness), and the result
             must equal the post-state dumped from the real object, token by token.  Spec (on the
             implementation's post-state): `observe post = observe (fresh pre)`.
* `probe`  — model: a recycled context shows what a fresh one shows, except where the generated reset model
             itself keeps a field (computed here from the model, not hard-wired: `exiled`).
             Spec (on the implementation's dumps): every entry of the recycled dumps equals the fresh dump.
* `pool`   — the same for Acquire/Release objects.
* `probec` — concurrent connections: no probe may differ from the fresh dump.
-/
namespace Hertz.Driver.C09
open Hertz Hertz.Driver Hertz.ResetBase Hertz.Gen.Resets Hertz.Recycle

def parseOracle : Nat → List String → Option (List (String × Bool) × List String)
  | 0, ts => some ([], ts)
  | n + 1, name :: bit :: ts => do
    let (r, ts) ← parseOracle n ts
    pure ((name, bit == "1") :: r, ts)
  | _, _ => none

/-- class of a spec failure: which known residue explains it (after repairing `fix` the spec must hold) -/
structure Residue (α : Type) where
  name : String
  differs : α → α → Bool      -- post, fresh: does the residue field differ?
  repair : α → α → α          -- post, fresh: post with the residue field taken from fresh

def classify {α : Type} (eq : α → α → Bool) (rs : List (Residue α)) (post fresh : α) : String :=
  let repaired := rs.foldl (fun p r => r.repair p fresh) post
  if eq repaired fresh then
    match rs.find? (fun r => r.differs post fresh) with
    | some r => r.name
    | none => ""
  else ""

/-- generic state-level case -/
def runRst {α : Type} [BEq α] (dec : Dec α) (enc : α → List String) (f : Oracle → α → α)
    (spec : Option (α → α → Bool × String)) (tagName : String) (impl : List String) : Option Result := do
  match impl with
  | "O" :: n :: rest =>
    let n ← n.toNat?
    let (assoc, rest) ← parseOracle n rest
    match rest with
    | "S" :: rest =>
      let (pre, rest) ← dec rest
      match rest with
      | "T" :: postToks =>
        let o := Oracle.ofAssoc assoc
        let model := f o pre
        let head := impl.take (impl.length - postToks.length)
        let (ok, cls) := match spec, dec postToks with
          | some sp, some (post, []) => sp pre post
          | some _, _ => (false, "")
          | none, _ => (true, "")
        pure { out := head ++ enc model, spec := ok, cls := cls,
               specNote := "observe(post) = observe(fresh(pre))",
               tag := "rst:" ++ tagName ++ ":" ++ boolTok (model == pre) ++ String.intercalate "" (assoc.map (fun a => boolTok a.2)) }
      | _ => none
    | _ => none
  | _ => none

def ctxResidues (_raw : Bool) : List (Residue RequestContext) :=
  [ { name := "exiled-survives-reset", differs := fun p f => p.exiled != f.exiled, repair := fun p f => { p with exiled := f.exiled } } ]

def specWith {α : Type} [BEq α] (obs : α → α) (fresh : α → α) (rs : List (Residue α)) (pre post : α) : Bool × String :=
  let a := obs post
  let b := obs (fresh pre)
  if a == b then (true, "") else (false, classify (· == ·) rs a b)

/-- raw `ResetWithoutConn`/`Reset` are not what the server runs (the loop clears the hijack handler first):
their spec ignores `hijackHandler`, exactly the extra hypothesis of `reset_fresh_partial`. -/
def dropHijack (c : RequestContext) : RequestContext := { c with hijackHandler := 0 }

def rst (ty m : String) (impl : List String) : Option Result :=
  let t := ty ++ "." ++ m
  match ty, m with
  | "RequestContext", "serveTail" =>
    runRst dec_RequestContext enc_RequestContext serveRecycle (some (specWith obsContext freshContext (ctxResidues false))) t impl
  | "RequestContext", "poolPut" =>
    runRst dec_RequestContext enc_RequestContext poolRecycle (some (specWith obsContext freshPooledContext (ctxResidues false))) t impl
  | "RequestContext", "ResetWithoutConn" =>
    runRst dec_RequestContext enc_RequestContext RequestContext_ResetWithoutConn
      (some (specWith (fun c => obsContext (dropHijack c)) freshContext (ctxResidues true))) t impl
  | "RequestContext", "Reset" =>
    runRst dec_RequestContext enc_RequestContext RequestContext_Reset
      (some (specWith (fun c => obsContext (dropHijack c)) freshPooledContext (ctxResidues true))) t impl
  | "Request", "Reset" => runRst dec_Request enc_Request Request_Reset (some (specWith obsRequest freshRequest [])) t impl
  | "Request", "ResetWithoutConn" =>
    runRst dec_Request enc_Request Request_ResetWithoutConn
      (some (specWith obsRequest (fun s => { freshRequest s with isTLS := s.isTLS }) [])) t impl
  | "Request", "ResetSkipHeader" => runRst dec_Request enc_Request Request_ResetSkipHeader none t impl
  | "Request", "ResetBody" => runRst dec_Request enc_Request Request_ResetBody none t impl
  | "Response", "Reset" => runRst dec_Response enc_Response Response_Reset (some (specWith obsResponse freshResponse [])) t impl
  | "Response", "ResetBody" => runRst dec_Response enc_Response Response_ResetBody none t impl
  | "RequestHeader", "Reset" =>
    runRst dec_RequestHeader enc_RequestHeader RequestHeader_Reset (some (specWith obsRequestHeader (fun _ => zero_RequestHeader) [])) t impl
  | "RequestHeader", "ResetSkipNormalize" => runRst dec_RequestHeader enc_RequestHeader RequestHeader_ResetSkipNormalize none t impl
  | "ResponseHeader", "Reset" =>
    runRst dec_ResponseHeader enc_ResponseHeader ResponseHeader_Reset
      (some (specWith obsResponseHeader (fun _ => zero_ResponseHeader) [])) t impl
  | "ResponseHeader", "ResetSkipNormalize" => runRst dec_ResponseHeader enc_ResponseHeader ResponseHeader_ResetSkipNormalize none t impl
  | "URI", "Reset" => runRst dec_URI enc_URI URI_Reset (some (specWith obsURI (fun _ => zero_URI) [])) t impl
  | "Args", "Reset" => runRst dec_Args enc_Args Args_Reset (some (specWith obsArgs (fun _ => zero_Args) [])) t impl
  | "Cookie", "Reset" => runRst dec_Cookie enc_Cookie Cookie_Reset (some (specWith obsCookie (fun _ => zero_Cookie) [])) t impl
  | "Trailer", "Reset" => runRst dec_Trailer enc_Trailer Trailer_Reset (some (specWith obsTrailer (fun _ => zero_Trailer) [])) t impl
  | "Trailer", "ResetSkipNormalize" => runRst dec_Trailer enc_Trailer Trailer_ResetSkipNormalize none t impl
  | _, _ => none

/-! ## dumps through the public API -/

def entryName (tok : String) : String := (tok.splitOn ":").headD ""

def stepMethod (step : String) : String :=
  let s := (step.splitOn "/").headD ""
  match s.splitOn "." with
  | [_, m] => m
  | _ => s

def takeBlock (label : String) : List String → Option (List String × List String)
  | l :: n :: rest => if l == label then do
      let n ← n.toNat?
      if rest.length < n then none else pure (rest.take n, rest.drop n)
    else none
  | _ => none

/-- What the *generated reset model* keeps of a context that was exiled: computed by running the model, so a
fix of the Go code changes the prediction. -/
def modelKeepsExiled : Bool :=
  (serveRecycle (Oracle.ofAssoc []) { zero_RequestContext with exiled := true }).exiled

/-- expected recycled dump: the fresh dump, except entries the model says may leak (those are copied from the
implementation when they differ — the model has no opinion on the leaked value) -/
def expectDump (leaky : List String) (fresh impl : List String) : List String :=
  if fresh.length != impl.length then fresh else
  (fresh.zip impl).map (fun (f, i) => if f != i && leaky.contains (entryName i) then i else f)

/-- entries of `d` that differ from the fresh dump -/
def diffNames (fresh d : List String) : List String :=
  if fresh.length != d.length then ["<length>"] else
  ((fresh.zip d).filter (fun (f, i) => f != i)).map (fun (_, i) => entryName i)

def classOf (names : List String) : String :=
  if names.isEmpty then "" else
  if names.all (fun n => n == "ctx.IsExiled") then "exiled-survives-reset" else ""

def probe (variant flags : String) (steps : List String) (impl : List String) : Option Result := do
  match impl with
  | "X" :: x :: "P" :: p :: "C" :: c :: rest =>
    let (d1, rest) ← takeBlock "D1" rest
    let (d2, rest) ← takeBlock "D2" rest
    let (d0, rest) ← takeBlock "D0" rest
    if !rest.isEmpty then none
    let ms := steps.map stepMethod
    let leakCtx := if ms.contains "Exile" && modelKeepsExiled then ["ctx.IsExiled"] else []
    -- an exiled context is not put back into the pool, so nothing of it can reach another connection
    let leakPool : List String := []
    -- the model does not predict whether the connection stays open after the dirty request: `C` is copied
    let e1 := if c == "1" then expectDump leakCtx d0 d1 else []
    let e2 := expectDump leakPool d0 d2
    let out := ["X", "0", "P", "0", "C", c, "D1", toString e1.length] ++ e1 ++ ["D2", toString e2.length] ++ e2 ++
               ["D0", toString d0.length] ++ d0
    let n1 := if c == "1" then diffNames d0 d1 else []
    let n2 := diffNames d0 d2
    let names := n1 ++ n2
    pure { out := out, spec := names.isEmpty && x == "0" && p == "0", cls := classOf names,
           specNote := "recycled dump = fresh dump; differing: " ++ " ".intercalate (names.take 6),
           tag := "probe:v" ++ variant ++ ":" ++ flags ++ ":" ++ sizeClass steps.length ++ ":c" ++ c }
  | _ => none

def pool (ty : String) (steps : List String) (impl : List String) : Option Result := do
  match impl with
  | "same" :: same :: rest =>
    let (dA, rest) ← takeBlock "A" rest
    let (dF, rest) ← takeBlock "F" rest
    if !rest.isEmpty then none
    let eA := expectDump [] dF dA
    let names := diffNames dF dA
    pure { out := ["same", same, "A", toString eA.length] ++ eA ++ ["F", toString dF.length] ++ dF,
           spec := names.isEmpty, cls := classOf names,
           specNote := "acquired-after-release dump = new(T) dump; differing: " ++ " ".intercalate (names.take 6),
           tag := "pool:" ++ ty ++ ":" ++ sizeClass steps.length ++ ":same" ++ same }
  | _ => none

def handle : Handler
  | "rst" :: ty :: m :: _keep :: _steps, impl => rst ty m impl
  | "probe" :: variant :: flags :: steps, impl => probe variant flags steps impl
  | "pool" :: ty :: steps, impl => pool ty steps impl
  | "own" :: a, impl => C09Own.own a impl
  | ["probec", conns, _, _], impl =>
    match impl with
    | n :: m :: _ => some { out := [n, "0"], spec := m == "0", specNote := "no probe differs from the fresh dump under concurrency",
                            tag := "probec:" ++ conns }
    | _ => none
  | _, _ => none

end Hertz.Driver.C09
