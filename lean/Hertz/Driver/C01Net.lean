import Hertz.Driver.H1
/-!
C01, transport configurations (X01): op `netserve <tr> <flags> <stream> <cuts> <hold>` runs the same pipelined stream
through the real `netpoll` / standard transport over a loopback TCP connection (`harness/c01net.go`), optionally with
`WithSenseClientDisconnection(true)` and with the next request sent while the first handler is still running (`hold`).
The model's answer is the single answer of `serve cfg .eof stream`: neither the transport, nor the write segmentation,
nor the moment the next request arrives may change what the handlers see and what is written.
-/
namespace Hertz.Driver.C01Net
open Hertz Hertz.Driver

/-- which trailer branches a stream reaches (first request of the strict reading that has trailers or announces some) -/
def trailerTag (stream : Bytes) : String :=
  match Spec.Http.decodeAll stream with
  | none => "nwf"
  | some rs =>
    let flagsOf (r : Spec.Http.Req) : String :=
      let vs := Spec.Http.lookupAll r.fields "trailer".toUTF8.toList
      let decl := (H1Spec.specDecl r).map Spec.Http.lowerAll
      let sec := r.trailers.map (fun kv => Spec.Http.lowerAll kv.1)
      let forb := H1Spec.forbiddenTrailer.map (·.toUTF8.toList)
      let f (b : Bool) (c : String) := if b then c else ""
      f (sec.any (fun k => !decl.contains k)) "u" ++ f (decl.any (fun k => !sec.contains k)) "m" ++
      f (decl.eraseDups.length != decl.length) "d" ++ f (sec.eraseDups.length != sec.length) "r" ++
      f (sec.any (fun k => forb.contains k)) "f" ++
      f (vs.any (fun v => (Spec.Http.splitOnComma v).any (fun e => (Spec.Http.trimOWS e).isEmpty) && !v.isEmpty)) "e" ++
      f (vs.any (fun v => H1Spec.containsBytes [44] v && !H1Spec.containsBytes [44, 32] v)) "c" ++
      f (vs.any (fun v => v.contains 9)) "h" ++ f (vs.length ≥ 2) "2" ++ f (decl.any (fun k => forb.contains k)) "x"
    let ts := rs.filterMap (fun r => if r.trailers.isEmpty && (H1Spec.specDecl r).isEmpty then none else some (flagsOf r))
    match ts with
    | [] => "none"
    | t :: _ => (if t.isEmpty then "exact" else t) ++ (if ts.length > 1 then "+" else "")

def handle : Handler
  | ["netserve", tr, flags, stream, cuts, hold], impl => do
    match impl with
    | [e] =>
      if e.startsWith "ERR:" then
        -- the transport could not be started in this environment: no claim, the evidence shows the tag
        return { out := impl, spec := true, specNote := "transport-unavailable", tag := "net-unavailable:" ++ tr ++ ":" ++ e }
    | _ => pure ()
    let r ← H1.handle ["serve", flags, "0", "eof", stream, cuts] impl
    let t := (if tr == "np" then "netpoll" else tr) ++ (if hold != "0" then "+hold" else "")
    pure { r with tag := t ++ ":" ++ r.tag }
  | "servet" :: rest, impl => do
    let r ← H1.handle ("serve" :: rest) impl
    let stream ← hx (rest.getD 3 "-")
    pure { r with tag := "trailers:" ++ trailerTag stream ++ ":" ++ r.tag }
  | _, _ => none

end Hertz.Driver.C01Net
