import Hertz.Driver.Core
import Hertz.Driver.C14
import Hertz.Model.Http1.StreamApi
/-!
Driver handler of op `sapi` (harness/c14api.go): handlers that consume a streamed body through hertz's own request API.
-/
namespace Hertz.Driver.C14Api
open Hertz Hertz.Driver Hertz.H1 Hertz.H1.Stream

def isUp (hd : ReqHead) : Bool := hd.uri.take 2 == [47, 117]
def isMultipart (hd : ReqHead) : Bool := "multipart/form-data; boundary=".toUTF8.toList.isPrefixOf hd.contentType
def isUrlenc (hd : ReqHead) : Bool := "application/x-www-form-urlencoded".toUTF8.toList.isPrefixOf hd.contentType

def noneProg : Prog := ⟨⟨1, 0⟩, .attached⟩

/-- the form APIs of a request: does the library read the stream, and how does it leave the request -/
inductive Kind where
  | plain      -- the program is what the handler's own reads are
  | form       -- multipart reader: any amount (parameter `k`), attached
  | formRest   -- multipart reader, then the handler reads the remainder: everything, attached
  | all        -- `Body()` & co.: everything, detached
deriving DecidableEq

def kindOf (api : String) (hd : ReqHead) : Kind :=
  if !isUp hd then .plain else
  match api with
  | "form" => if isMultipart hd then .form else .plain
  | "fvalue" | "post" => if isUrlenc hd then .all else if isMultipart hd then .form else .plain
  | "formrest" => if isMultipart hd then .formRest else .plain
  | "body" | "writeto" => .all
  | _ => .plain

/-- the program of one request; `k` = the amount the multipart reader takes (a parameter of the model) -/
def progOf (cfg : Cfg) (e : End) (api : String) (rs stop k : Nat) (hd : ReqHead) (s1 : Bytes) : Prog :=
  if !isUp hd then noneProg else
  let big := s1.length + 1
  match kindOf api hd with
  | .form => ⟨⟨4096, k⟩, .attached⟩
  | .formRest => ⟨⟨4096, big⟩, .attached⟩
  | .all => ⟨⟨4096, big⟩, .detached⟩
  | .plain =>
    match api with
    | "read" => ⟨⟨rs, stop⟩, .attached⟩
    | "formrest" => ⟨⟨rs, big⟩, .attached⟩        -- the form call fails without reading; then everything is read
    | "close" | "reset" => ⟨⟨1, 0⟩, .detached⟩
    | "replace" => ⟨⟨rs, stop⟩, .replaced⟩
    | "readbody" =>
      match streamBody cfg e hd s1 ⟨rs, stop⟩ with
      | .ok (r, _) => if r.got.eof || r.got.err || !r.streamed then ⟨⟨rs, stop⟩, .attached⟩ else ⟨⟨4096, big⟩, .detached⟩
      | .error _ => ⟨⟨rs, stop⟩, .attached⟩
    | _ => noneProg

structure Seen where
  m : String
  uri : String
  streamed : String
  got : String
  eof : String
  err : String
  att : String
  vals : String

def seenToks : Nat → List String → List Seen × List String
  | 0, t => ([], t)
  | n + 1, m :: u :: s :: b :: e :: x :: a :: v :: t =>
    let (l, r) := seenToks n t
    ({ m := m, uri := u, streamed := s, got := b, eof := e, err := x, att := a, vals := v } :: l, r)
  | _, t => ([], t)

def cutAt : Nat → List PEv → List PEv
  | _, [] => []
  | 0, .maybeClosed :: _ => []
  | k + 1, .maybeClosed :: t => cutAt k t
  | k, e :: t => e :: cutAt k t

/-- what the handler of harness/c14api.go reports for one request, according to the model; where the model has no
opinion (the split point of `formrest`, the rendering of the parsed form) the implementation's token is copied -/
def seenTok (api : String) (stop : Nat) (r : ReqOut) (fin : Fin) (impl : Option Seen) : List String :=
  let use := isUp r.head && r.streamed
  let kind := kindOf api r.head
  let implGot := match impl with | some s => s.got | none => "-"
  let implVals := match impl with | some s => s.vals | none => "-"
  let g := r.got
  let (got, eof, err) : String × Bool × Bool :=
    if !use then ("-", false, false) else
    match kind with
    | .form => ("-", false, false)
    | .formRest => (implGot, g.eof, g.err)
    | .all =>
      if api == "post" || api == "fvalue" then ("-", false, false)
      else if api == "body" then (if g.err then "-" else encHex g.bytes, !g.err, g.err)
      else (encHex g.bytes, !g.err, g.err)
    | .plain =>
      if api == "readbody" && fin == .detached then
        (if g.err then encHex (g.bytes.take stop) else encHex g.bytes, !g.err, g.err)
      else (encHex g.bytes, g.eof, g.err)
  let vals := if use && (api == "form" || api == "fvalue" || api == "post" || api == "formrest") then implVals else "-"
  [encHex r.head.method, encHex (if r.head.uri.isEmpty then [47] else r.head.uri), boolTok r.streamed, got, boolTok eof, boolTok err,
   boolTok (r.streamed && fin != .detached), vals]

def tokens (api : String) (stop : Nat) (evs : List PEv) (cut : Option Nat) (impl : List Seen) : List String :=
  let evs := match cut with
    | some k => cutAt k evs
    | none => evs.filter (fun e => match e with | .maybeClosed => false | _ => true)
  let seen := evs.filterMap (fun e => match e with | .req r f => some (r, f) | _ => none)
  let rec seenAll : List (ReqOut × Fin) → List Seen → List String
    | [], _ => []
    | (r, f) :: t, [] => seenTok api stop r f none ++ seenAll t []
    | (r, f) :: t, s :: ss => seenTok api stop r f (some s) ++ seenAll t ss
  let rec resps : List PEv → Nat → Bool → List String
    | [], _, _ => []
    | .continue100 :: t, i, hd => "100" :: "0" :: "-" :: resps t i hd
    | .req r _ :: t, i, _ => resps t (i + 1) (r.head.method == Gen.Str.strHead)
    | .maybeClosed :: t, i, hd => resps t i hd
    | .resp st cl :: t, i, hd =>
      toString st :: boolTok cl :: encHex (if st = 200 then (if hd then [] else ("r" ++ toString i).toUTF8.toList) else C14.errBody st) :: resps t i hd
  let nresp := (evs.filter (fun e => match e with | .req _ _ => false | _ => true)).length
  ["S", toString seen.length] ++ seenAll seen impl ++ ["R", toString nresp] ++ resps evs 0 false ++ ["W", "1"]

structure TruthReq where
  uri : String
  body : String
  vals : String

structure Truth where
  nclean : Nat
  reqs : List TruthReq

def parseTruth (t : String) : Option Truth :=
  if t == "-" then none else
  match t.splitOn ";" with
  | [n, l] =>
    some { nclean := n.toNat!,
           reqs := (l.splitOn ",").filterMap (fun p => match p.splitOn ":" with | [u, b, v] => some ⟨u, b, v⟩ | _ => none) }
  | _ => none

def hexSuffix (a b : String) : Bool :=
  a == "-" || (b != "-" && a.toList.isSuffixOf b.toList)

def upHex : String := encHex "/up".toUTF8.toList
def ufHex : String := encHex "/uf".toUTF8.toList

/-- C14 on the implementation's output against the generator's ground truth, without the model:
(1) the requests handed to handlers are, in order, an initial run of the requests really sent (so no request is ever
taken from body bytes); (2) what a handler obtained from the stream or from `Body()`/`BodyWriteTo` is a prefix of the
body sent (a suffix, for the reads that follow a form parse), the whole body when end-of-stream was reported;
(3) a form API that succeeded reports exactly the fields and files sent, and on a request that arrived whole it does
succeed; (4) every final response belongs to a request really sent and a request that arrived whole is answered 200 if
at all - never an error answer caused by body bytes. -/
def truthOk (api : String) (impl : List String) (t : Truth) : Bool :=
  match impl with
  | "S" :: n :: rest =>
    let (seen, rest) := seenToks n.toNat! rest
    let pairs := (seen.zip t.reqs).zip (List.range seen.length)
    seen.length ≤ t.reqs.length &&
    pairs.all (fun ((s, r), i) =>
      s.uri == r.uri &&
      (if api == "formrest" && s.uri == upHex then hexSuffix s.got r.body
       else C14.hexPrefix s.got r.body && (!(s.eof == "1") || (s.got == r.body && s.err == "0") || api == "formrest")) &&
      (s.vals == "-" || s.vals == "ERR" || s.vals == r.vals) &&
      (!(i < t.nclean && s.streamed == "1" &&
          ((s.uri == upHex && (api == "form" || api == "fvalue" || api == "formrest" || api == "post")) ||
           (s.uri == ufHex && api == "post"))) || s.vals == r.vals)) &&
    (match rest with
     | "R" :: m :: rs =>
       let sts := C14.respStatuses m.toNat! rs
       sts.length ≤ t.reqs.length && C14.allIdx (fun i st => i ≥ t.nclean || st == 200) 0 sts
     | _ => false)
  | _ => false

def specOk (impl : List String) : Bool :=
  !impl.contains "PANIC" && !impl.contains "HANG" &&
  (match impl with
   | "S" :: n :: t =>
     let (seen, _) := seenToks n.toNat! t
     !(seen.map (·.uri)).contains (encHex "/smuggled".toUTF8.toList)
   | _ => false)

def hazardApis : List String := ["body", "writeto", "post", "fvalue", "close", "reset", "replace", "readbody"]

def handle : Handler
  | ["sapi", flags, maxBody, endK, stream, _cuts, api, readSize, stopAfter, truth], impl => do
    let s ← hx stream
    let cfg := C14.mkCfg flags maxBody
    let e := if endK == "stall" then End.stall else End.eof
    let rs := readSize.toNat!
    let stop := stopAfter.toNat!
    let implSeen := match impl with | "S" :: n :: t => (seenToks n.toNat! t).1 | _ => []
    -- the amount the multipart reader consumes is a parameter of the model: nothing / everything are the extremes
    let ks := if api == "form" || api == "fvalue" || api == "post" then [0, s.length + 1] else [0]
    let runs := ks.map (fun k => serveStreamP cfg e (progOf cfg e api rs stop k) s)
    let cands := runs.flatMap (fun evs =>
      let namb := (evs.filter (fun ev => match ev with | .maybeClosed => true | _ => false)).length
      tokens api stop evs none implSeen :: (List.range namb).map (fun k => tokens api stop evs (some k) implSeen))
    let evs := runs.headD []
    let t := parseTruth truth
    let specAll := specOk impl && (match t with | some t => truthOk api impl t | none => true)
    let isMatch := cands.contains impl
    -- a failed read on a stream that the request no longer references: the position is in the refused framing line
    -- (before /repo d6f45a0 the model had no opinion here; now the server's stream remembers the error and the connection is closed)
    let noOpinion := false
    let hazard := hazardApis.contains api && (isMatch || noOpinion)
    let detachedUnread := evs.any (fun ev => match ev with | .req r f => r.streamed && f != .attached && !r.got.eof | _ => false)
    let first := evs.findSome? (fun ev => match ev with | .req r _ => some r | _ => none)
    let kindTag := match first with
      | some r => String.ofList ((r.head.uri.take 3).map (fun c => Char.ofNat c.toNat)) ++ (if r.head.cl == -1 then "c" else if r.head.cl ≥ 0 then "f" else "n") ++
                  (if r.head.http11 then "" else "0") ++ (if mayContinue r.head then "x" else "")
      | none => "none"
    let nreq := (evs.filter (fun ev => match ev with | .req _ _ => true | _ => false)).length
    pure { out := if isMatch || noOpinion then impl else cands.headD [],
           spec := specAll,
           cls := if specAll then "" else if hazard then "" else "",   -- class `stream-detached-undrained` repaired in /repo (d6f45a0)
           specNote := "no panic/hang; no request taken from body bytes; handlers see an initial run of the requests sent; bytes obtained are a prefix (suffix after a form parse) of the body; parsed form = form sent; a whole request is never answered with an error",
           tag := "sapi:" ++ api ++ ":" ++ kindTag ++ ":" ++ toString (min nreq 3) ++ (if endK == "stall" then "S" else "E") ++
                  boolTok detachedUnread ++ boolTok (evs.any (fun ev => match ev with | .maybeClosed => true | _ => false)) ++
                  boolTok (evs.any (fun ev => match ev with | .req r _ => r.got.err | _ => false)) ++ (if t.isSome then "T" else "M") ++ boolTok specAll }
  | _, _ => none

end Hertz.Driver.C14Api
