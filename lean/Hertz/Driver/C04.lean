import Hertz.Driver.Core
import Hertz.Model.Http1.Resp
import Hertz.Spec.Resp
namespace Hertz.Driver.C04
open Hertz Hertz.Driver Hertz.H1.Resp

structure ReqTok where
  isHead : Bool
  http11 : Bool
  reqClose : Bool

structure Case where
  req : ReqTok
  prog : Prog
  respClose : Bool
  /-- hijacked writer: the header block went out during the handler (first `Write`), before `Serve`
  decided the `Connection` header; `closeAtHeader` = the handler had already asked to close -/
  earlyHeader : Bool := false
  closeAtHeader : Bool := false

def splitOnStr (sep : String) : List String → List (List String)
  | [] => [[]]
  | x :: t =>
    if x == sep then [] :: splitOnStr sep t
    else match splitOnStr sep t with
      | [] => [[x]]
      | s :: r => (x :: s) :: r

def pieces (s : String) : Option (List Bytes) :=
  if s.isEmpty then some [] else (s.splitOn ",").mapM hx

def parseWOps (s : String) : Option (List WOp) :=
  if s.isEmpty then some [] else
  (s.splitOn ",").mapM (fun o => if o == "f" then some WOp.flush else (hx (o.drop 1).toString).map WOp.write)

/-- fold the program tokens of one request (same semantics as `runProg` in harness/c04.go) -/
def parseCase (toks : List String) : Option Case := do
  match toks with
  | [] => none
  | m :: rest =>
    let mp := m.splitOn ":"
    let method := mp.getD 1 ""
    let http11 := mp.getD 2 "" == "1.1"
    -- `parseHeaders`: an HTTP/1.0 request closes unless it says `Connection: keep-alive`
    let req : ReqTok := { isHead := method == "HEAD", http11, reqClose := mp.getD 3 "" == "1" || (!http11 && mp.getD 4 "" != "1") }
    let init : Case := { req, prog := { status := 200, body := .bytes [] }, respClose := false }
    rest.foldlM (fun (c : Case) (t : String) => do
      let p := t.splitOn ":"
      match p with
      | ["ST", n] => pure { c with prog := { c.prog with status := n.toNat! } }
      | ["B", b] => pure { c with prog := { c.prog with body := .bytes (← hx b) } }
      | [op, b] =>
        if op == "AB" || op == "WR" then
          let b ← hx b
          match c.prog.body with
          | .bytes old => pure { c with prog := { c.prog with body := .bytes (old ++ b) } }
          | _ => pure { c with prog := { c.prog with body := .bytes b } }
        else if op == "CW" then
          let ws ← parseWOps b
          let early := ws.any (fun o => match o with | .write _ => true | .flush => false)
          pure { c with prog := { c.prog with body := .writer ws }, earlyHeader := early, closeAtHeader := c.respClose }
        else none
      | ["CW"] => pure { c with prog := { c.prog with body := .writer [] } }
      | ["BS", n, ps] => pure { c with prog := { c.prog with body := .stream n.toInt! (← pieces ps) } }
      | ["LR", n, ps] => pure { c with prog := { c.prog with body := .limited n.toNat! (← pieces ps) } }
      | ["TR", k, v] => pure { c with prog := { c.prog with trailers := c.prog.trailers ++ [(← hx k, ← hx v)] } }
      | ["CC"] => pure { c with respClose := true }
      | ["H", _, _] => pure c
      | _ => none) init

def connOf (fs : List (Bytes × Bytes)) : ConnHdr :=
  match fs.find? (fun kv => Spec.Resp.lowerAll kv.1 == "connection".toUTF8.toList) with
  | some kv => if kv.2 == "close".toUTF8.toList then .close else if Spec.Resp.lowerAll kv.2 == "keep-alive".toUTF8.toList then .keepAlive else .absent
  | none => .absent

def framingTok : Spec.Resp.Framing → String
  | .none => "none" | .cl n => s!"cl{n}" | .chunked => "chunked"
def mFramingTok : Framing → String
  | .none => "none" | .cl n => s!"cl{n}" | .chunked => "chunked"

structure Obs where
  status : Nat
  framing : String
  raw : Bytes
  conn : ConnHdr
deriving DecidableEq

/-- decode the connection's output with the strict reader, one message per request until a closing one -/
def decodeAll : List Case → Bytes → List Obs → Option (List Obs × List Spec.Resp.Msg × Bytes)
  | [], s, acc => some (acc.reverse, [], s)
  | c :: cs, s, acc =>
    if s.isEmpty then some (acc.reverse, [], s) else
    match Spec.Resp.decodeOne c.req.isHead s with
    | none => none
    | some (m, rest) =>
      let o : Obs := { status := m.status, framing := framingTok m.framing, raw := m.raw, conn := connOf m.fields }
      (decodeAll cs rest (o :: acc)).map (fun r => (r.1, m :: r.2.1, r.2.2))

/-- model: the observations expected for the sequence of programs -/
def expected : List Case → List Obs
  | [] => []
  | c :: cs =>
    let f := frame c.prog c.req.isHead
    let closes := c.req.reqClose || c.respClose
    let conn := if c.earlyHeader then (if c.closeAtHeader then ConnHdr.close else .absent)
                else connHeader c.req.reqClose c.respClose c.req.http11
    let o : Obs := { status := c.prog.status, framing := mFramingTok f.framing, raw := f.wire, conn }
    if f.failed then [o] else
    if closes then [o] else o :: expected cs

def obsTokens (l : List Obs) : List String :=
  l.flatMap (fun o => [toString o.status, o.framing, encHex o.raw,
    match o.conn with | .close => "close" | .keepAlive => "keep-alive" | .absent => "-"])

def handle : Handler
  | "respw" :: toks, impl => do
    let cases ← (splitOnStr "/" toks).mapM parseCase
    let wire ← impl.head? >>= hx
    let exp := expected cases
    let anyFailed := cases.any (fun c => (frame c.prog c.req.isHead).failed)
    let dec := decodeAll cases wire []
    -- net/http's opinion, as printed by the harness: status, content-length, body per response
    let nh := (impl.dropWhile (· != "N")).drop 2
    match dec with
    | none =>
      -- not decodable by the strict reader: acceptable only when the model says the writer failed mid-message
      pure { out := (if anyFailed then impl else "MODEL" :: obsTokens exp), spec := anyFailed, specNote := "output is not a sequence of well-formed responses",
             tag := "respw:undecodable" }
    | some (obs, msgs, rest) =>
      let rec nhOk : List Spec.Resp.Msg → List String → Bool
        | [], _ => true
        | m :: ms, st :: _cl :: b :: t => st == toString m.status && hx b == some m.body && nhOk ms t
        | _, _ => false
      let specOk := (rest.isEmpty || anyFailed) && (anyFailed || nhOk msgs nh) &&
        msgs.all (fun m => !(Spec.Resp.noBodyStatus m.status) || m.raw.isEmpty)
      -- the model's frames are compared with what the strict reader makes of the implementation's bytes;
      -- when the model says the writer fails mid-message only the messages before it are compared
      let agree := if anyFailed then (obs.take (exp.length - 1) == exp.take (exp.length - 1)) else obs == exp
      pure { out := (if agree then impl else "MODEL" :: obsTokens exp ++ "DECODED" :: obsTokens obs),
             spec := specOk, specNote := "strict reader and net/http decode the same messages; nothing left over; bodiless statuses carry no body",
             tag := "respw:" ++ toString (min obs.length 4) ++ ":" ++ (obs.getLast?.map (·.framing.take 2 |>.toString)).getD "-" ++
                    ":" ++ boolTok anyFailed ++ boolTok (cases.any (·.req.isHead)) ++ boolTok (cases.any (fun c => Spec.Resp.noBodyStatus c.prog.status)) }
  | _, _ => none

end Hertz.Driver.C04
