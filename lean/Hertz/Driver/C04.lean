import Hertz.Driver.Core
import Hertz.Model.Http1.Resp
import Hertz.Model.Http1.RespMsg
import Hertz.Spec.Resp
import Hertz.Model.Http1.RespSeq
import Hertz.Spec.RespSeq
namespace Hertz.Driver.C04
open Hertz Hertz.Driver Hertz.H1.Resp Hertz.Gen.Str

structure ReqTok where
  isHead : Bool
  http11 : Bool
  reqClose : Bool

structure Case where
  req : ReqTok
  prog : Prog
  respClose : Bool
  /-- hijacked writer: the header block went out during the handler (first `Write`), before `Serve`
  decided the `Connection` header; `closeAtHeader` = the handler had already asked to close -/
  earlyHeader : Bool := false
  closeAtHeader : Bool := false
  /-- the framing fields of the response header as the handler's calls leave them (`contentLength`,
  `clBytes`, `Transfer-Encoding` in `h`; every other field of this record is unused): followed through
  `SetBodyStream` (→ `SetContentLength`, a no-op on 1xx/204/304) and `Header.Set("Content-Length", v)`
  (→ `setLengthHeader`); frozen once the hijacked writer has sent the header block -/
  hs : HW.RespHdr := { statusLine := [], server := [], date := none, contentType := [], contentLength := 0,
                       contentEncoding := [], clBytes := [], h := [], trailer := [], cookies := [], connClose := false }
  frozen : Bool := false

def splitOnStr (sep : String) : List String → List (List String)
  | [] => [[]]
  | x :: t =>
    if x == sep then [] :: splitOnStr sep t
    else match splitOnStr sep t with
      | [] => [[x]]
      | s :: r => (x :: s) :: r

def pieces (s : String) : Option (List Bytes) :=
  if s.isEmpty then some [] else (s.splitOn ",").mapM hx

def parseWOps (s : String) : Option (List WOp) :=
  if s.isEmpty then some [] else
  (s.splitOn ",").mapM (fun o => if o == "f" then some WOp.flush else (hx (o.drop 1).toString).map WOp.write)

/-- `ResponseHeader.SetContentLength(d)` on the tracked framing fields -/
def setCL (r : HW.RespHdr) (status : Nat) (d : Int) : HW.RespHdr :=
  if mustSkipCL status then r else withFraming r (if d ≥ 0 then .cl d.toNat else .chunked)

/-- fold the program tokens of one request (same semantics as `runProg` in harness/c04.go) -/
def parseCase0 (toks : List String) : Option Case := do
  match toks with
  | [] => none
  | m :: rest =>
    let mp := m.splitOn ":"
    let method := mp.getD 1 ""
    let http11 := mp.getD 2 "" == "1.1"
    -- `parseHeaders`: an HTTP/1.0 request closes unless it says `Connection: keep-alive`
    let req : ReqTok := { isHead := method == "HEAD", http11, reqClose := mp.getD 3 "" == "1" || (!http11 && mp.getD 4 "" != "1") }
    let init : Case := { req, prog := { status := 200, body := .bytes [] }, respClose := false }
    rest.foldlM (fun (c : Case) (t : String) => do
      let p := t.splitOn ":"
      match p with
      | ["ST", n] => pure { c with prog := { c.prog with status := n.toNat! } }
      | ["B", b] => pure { c with prog := { c.prog with body := .bytes (← hx b) } }
      | [op, b] =>
        if op == "AB" || op == "WR" then
          let b ← hx b
          match c.prog.body with
          | .bytes old => pure { c with prog := { c.prog with body := .bytes (old ++ b) } }
          | _ => pure { c with prog := { c.prog with body := .bytes b } }
        else if op == "CW" then
          let ws ← parseWOps b
          let early := ws.any (fun o => match o with | .write _ => true | .flush => false)
          pure { c with prog := { c.prog with body := .writer ws }, earlyHeader := early, closeAtHeader := c.respClose,
                        frozen := c.frozen || early }
        else none
      | ["CW"] => pure { c with prog := { c.prog with body := .writer [] } }
      | ["BS", n, ps] =>
        -- `SetBodyStream(r, n)` calls `Header.SetContentLength(n)` (no-op on 1xx/204/304 at that moment)
        let d := n.toInt!
        pure { c with prog := { c.prog with body := .stream d (← pieces ps) },
                      hs := if c.frozen then c.hs else setCL c.hs c.prog.status d }
      | ["LR", n, ps] =>
        pure { c with prog := { c.prog with body := .limited n.toNat! (← pieces ps) },
                      hs := if c.frozen then c.hs else setCL c.hs c.prog.status (-1) }
      | ["TR", k, v] => pure { c with prog := { c.prog with trailers := c.prog.trailers ++ [(← hx k, ← hx v)] } }
      | ["CC"] => pure { c with respClose := true }
      | ["AM", n, msg] =>
        -- `AbortWithMsg`: `Response.Reset()` (header, body, trailers, close mark back to the initial state), then the
        -- status, `text/plain` and the message as body
        pure { init with prog := { status := n.toNat!, body := .bytes (← hx msg) } }
      | ["H", k, v] =>
        -- `Header.Set(k, v)`: only `Content-Length` touches the framing fields (`setSpecialHeader`);
        -- `Transfer-Encoding` is ignored ("managed automatically"); anything else lands in `h` (taken from the dump)
        let k ← hx k
        let v ← hx v
        if !c.frozen && Spec.Resp.lowerAll k == Spec.Resp.lowerAll strContentLength then
          pure { c with hs := setLengthHeader c.hs v }
        else if Spec.Resp.lowerAll k == Spec.Resp.sConnection then
          -- X04: `setSpecialHeader` for `Connection`: the bytes `close` set the close flag, any other value clears it
          -- (`ResetConnectionClose`) and is stored as a generic field (seen through the dump)
          pure { c with respClose := Spec.Resp.lowerAll v == Spec.Resp.sClose }
        else pure c
      | _ => none) init

/-- the program as the writer sees it: `writeBodyStream` takes the length to send from
`Header.ContentLength()`, so a `Content-Length` the handler set after `SetBodyStream` replaces the
declared length of the stream (a stream of unknown length becomes a fixed-size body, an
`io.LimitedReader` is read through `WriteBodyFixedSize`); byte bodies and the hijacked writer set
their own framing at write time -/
def effProg (c : Case) : Prog :=
  let cl := c.hs.contentLength
  match c.prog.body with
  | .stream _ reads => { c.prog with body := .stream (if cl ≥ 0 then cl else -1) reads }
  | .limited l reads => if cl ≥ 0 then { c.prog with body := .stream cl [takeStream l reads] } else c.prog
  | _ => c.prog

def parseCase (toks : List String) : Option Case :=
  (parseCase0 toks).map (fun c => { c with prog := effProg c })

/-- what a header state announces by itself (`Declares` of Proofs/RespMessage.lean, computed) -/
def declaredOf (r : HW.RespHdr) : Spec.Resp.Framing :=
  if !r.clBytes.isEmpty then (match Spec.Resp.parseDec r.clBytes with | some n => .cl n | none => .none)
  else if r.h.any (fun kv => kv.1 == strTransferEncoding) then .chunked else .none

def connOf (fs : List (Bytes × Bytes)) : ConnHdr :=
  match fs.find? (fun kv => Spec.Resp.lowerAll kv.1 == "connection".toUTF8.toList) with
  | some kv => if kv.2 == "close".toUTF8.toList then .close else if Spec.Resp.lowerAll kv.2 == "keep-alive".toUTF8.toList then .keepAlive else .absent
  | none => .absent

def framingTok : Spec.Resp.Framing → String
  | .none => "none" | .cl n => s!"cl{n}" | .chunked => "chunked"
def mFramingTok : Framing → String
  | .none => "none" | .cl n => s!"cl{n}" | .chunked => "chunked"

structure Obs where
  status : Nat
  framing : String
  raw : Bytes
  conn : ConnHdr
deriving DecidableEq

/-- decode the connection's output with the strict reader, one message per request until a closing one -/
def decodeAll : List Case → Bytes → List Obs → Option (List Obs × List Spec.Resp.Msg × Bytes)
  | [], s, acc => some (acc.reverse, [], s)
  | c :: cs, s, acc =>
    if s.isEmpty then some (acc.reverse, [], s) else
    match Spec.Resp.decodeOne c.req.isHead s with
    | none => none
    | some (m, rest) =>
      let o : Obs := { status := m.status, framing := framingTok m.framing, raw := m.raw, conn := connOf m.fields }
      (decodeAll cs rest (o :: acc)).map (fun r => (r.1, m :: r.2.1, r.2.2))

/-- model: the observations expected for the sequence of programs -/
def expected : List Case → List Obs
  | [] => []
  | c :: cs =>
    let f := frame c.prog c.req.isHead
    let closes := c.req.reqClose || c.respClose
    let conn := if c.earlyHeader then (if c.closeAtHeader then ConnHdr.close else .absent)
                else connHeader c.req.reqClose c.respClose c.req.http11
    -- the reader sees the writer's framing if the writer set one, else what the handler's header declares
    let o : Obs := { status := c.prog.status, framing := framingTok (effFraming (declaredOf c.hs) f.framing), raw := f.wire, conn }
    if f.failed then [o] else
    if closes then [o] else o :: expected cs

def obsTokens (l : List Obs) : List String :=
  l.flatMap (fun o => [toString o.status, o.framing, encHex o.raw,
    match o.conn with | .close => "close" | .keepAlive => "keep-alive" | .absent => "-"])

/-! ### the whole message against the bytes written -/

def takePairs : Nat → List String → Option (List (Bytes × Bytes) × List String)
  | 0, t => some ([], t)
  | n + 1, k :: v :: t => do
    let k ← hx k; let v ← hx v
    let (r, rest) ← takePairs n t
    pure ((k, v) :: r, rest)
  | _, _ => none

def takeN : Nat → List String → Option (List Bytes × List String)
  | 0, t => some ([], t)
  | n + 1, k :: t => do
    let k ← hx k
    let (r, rest) ← takeN n t
    pure (k :: r, rest)
  | _, _ => none

/-- the header state dumped by the harness when the writer takes over (`respHdrDump` in harness/c04.go) -/
structure Dump where
  reason : Bytes
  ctset : Bool
  /-- `date` = the harness's `currentDate()`, `contentType` = `h.ContentType()` (default resolved) -/
  r : HW.RespHdr

def parseDump : List String → Option (Dump × List String)
  | reason :: sv :: ndd :: date :: ct :: ctset :: cl :: ce :: clb :: cc :: nh :: t => do
    let (h, t) ← takePairs nh.toNat! t
    match t with
    | ntr :: t =>
      let (tr, t) ← takeN ntr.toNat! t
      match t with
      | nc :: t =>
        let (ck, t) ← takePairs nc.toNat! t
        let dateB ← hx date
        pure ({ reason := ← hx reason, ctset := ctset == "1",
                r := { statusLine := [], server := ← hx sv, date := (if ndd == "1" then none else some dateB),
                       contentType := ← hx ct, contentLength := cl.toInt!, contentEncoding := ← hx ce, clBytes := ← hx clb,
                       h, trailer := tr, cookies := ck.map (·.2), connClose := cc == "1" } }, t)
      | _ => none
    | _ => none
  | _ => none

def parseDumps : Nat → List String → Option (List Dump)
  | 0, _ => some []
  | n + 1, t => do
    let (d, t) ← parseDump t
    pure (d :: (← parseDumps n t))

def crlfDate : Bytes := strCRLF ++ strDate ++ strColonSpace

/-- the value of the first `Date: ` line in `s` (Go's time formatting is not modelled; the value is
taken from the response itself) -/
def findDate : Bytes → Option Bytes
  | [] => none
  | c :: t => if crlfDate.isPrefixOf (c :: t) then some (((c :: t).drop crlfDate.length).takeWhile (· != 13)) else findDate t

/-- the header state `resp.Write` / the hijacked writer starts from: the dump, the status line of the
program's status, the `Connection` decision `Server.Serve` makes after the handler (not when the
hijacked writer has already sent the header block), the `Date` of the response itself, and the
`Content-Type` line only `if h.ContentLength() != 0 || len(h.contentType) > 0` (as the C05 driver does) -/
def hdrOf (c : Case) (d : Dump) (wireDate : Option Bytes) : HW.RespHdr :=
  let closes := c.req.reqClose || c.respClose
  let r := d.r
  let r := { r with statusLine := statusLineOf c.prog.status d.reason,
                    date := r.date.map (fun x => wireDate.getD x) }
  let r := if c.earlyHeader then r
           else if closes then { r with connClose := true }
           else if !c.req.http11 then { r with connClose := false, h := setArgKV r.h strConnection strKeepAlive }
           else r
  let finalCL : Int := match (frame c.prog c.req.isHead).framing with
    | .none => r.contentLength | .cl n => n | .chunked => -1
  { r with contentType := if d.ctset || finalCL != 0 then r.contentType else [] }

/-- the framing fields the model predicts for the header state (`Case.hs`) against the dump -/
def hdrAgrees (c : Case) (d : Dump) : Bool :=
  let te (h : List (Bytes × Bytes)) := (h.filter (fun kv => Spec.Resp.lowerAll kv.1 == Spec.Resp.lowerAll strTransferEncoding))
  c.hs.contentLength == d.r.contentLength && c.hs.clBytes == d.r.clBytes && te c.hs.h == te d.r.h

/-- the model's messages for the sequence (same sequencing as `expected`): the concatenation of the
messages before the first failed one, whether a failed one ended the sequence, whether the predicted
framing fields agree with every dump used; `none` = a dump is missing -/
def modelWire : List Case → List Dump → Bytes → Option (Bytes × Bool × Bool)
  | [], _, _ => some ([], false, true)
  | _ :: _, [], _ => none
  | c :: cs, d :: ds, rest =>
    let f := frame c.prog c.req.isHead
    let ok := hdrAgrees c d
    if f.failed then some ([], true, ok) else
    let m := message (hdrOf c d (findDate rest)) c.prog c.req.isHead
    if c.req.reqClose || c.respClose then some (m, false, ok) else
    (modelWire cs ds (rest.drop m.length)).map (fun r => (m ++ r.1, r.2.1, ok && r.2.2))

def dumpTokens (r : HW.RespHdr) : List String :=
  [toString r.contentLength, encHex r.clBytes] ++ (r.h.filter (fun kv => kv.1 == strTransferEncoding)).map (fun kv => encHex kv.2)

/-! ### X04 — op `respq`: what follows a response on the connection

The whole wire of a pipelined connection is recomputed from `Model/Http1/RespSeq.lean` (`wire 4096 exchanges`:
messages up to and including the first exchange after which `Serve` leaves its loop; of a message whose body
writer fails, the header block and the whole output buffers `standard.Conn.ReadFrom` had flushed) and compared
byte for byte with everything the real server wrote.  The spec predicate `specSeq` reads the IMPLEMENTATION's
bytes as a client does and uses only what the handlers intended (status, bytes delivered, declared length,
close requested or not). -/
section Seq
open Hertz.H1.RespSeq

def parseReqConn : String → ReqConn
  | "c" => .close | "C" => .close | "k" => .keepAlive | "K" => .keepAlive | "-" => .absent | _ => .other

/-- `Error when parsing request` (`defaultErrorHandler`) -/
def errMsg400 : Bytes := "Error when parsing request".toUTF8.toList

structure QCase where
  c : Case
  reqConn : ReqConn
  /-- answered by `writeErrorResponse`, no handler ran -/
  isErr : Bool := false
  /-- the handler called `ctx.Hijack` (token `HJ`) -/
  hijack : Bool := false
  /-- the request (`Connection: Close`) or the handler (`Header.Set("Connection", "Close")`) spelled the `close`
  connection option with other letter case: RFC 7230 §6.1 makes it the same option, hertz compares bytes -/
  reqCloseCase : Bool := false
  respCloseCase : Bool := false
  /-- `Options.DisableKeepalive` (first token `DK`) -/
  srvClose : Bool := false

def parseQCase (toks : List String) : Option QCase :=
  match toks with
  | ["XR"] =>
    some { c := { req := { isHead := false, http11 := true, reqClose := false },
                  prog := { status := 400, body := .bytes errMsg400 }, respClose := true },
           reqConn := .absent, isErr := true }
  | q :: rest =>
    let mp := q.splitOn ":"
    let rc := parseReqConn (mp.getD 3 "")
    -- `BE` (stream ending with a read error) and `BT` (last bytes together with io.EOF) are `SetBodyStream(r, n)`
    -- like `BS`; the model's bytes do not depend on how the stream ends (see Model/Http1/RespSeq.lean)
    let rest := rest.map (fun t => if t.startsWith "BE:" || t.startsWith "BT:" then "BS:" ++ (t.drop 3).toString else t)
    (parseCase (q :: rest.filter (· != "HJ"))).map (fun c =>
      { c := { c with req := { c.req with reqClose := reqClose c.req.http11 rc } }, reqConn := rc,
        hijack := rest.contains "HJ",
        reqCloseCase := mp.getD 3 "" == "C",
        respCloseCase := rest.any (fun t => match t.splitOn ":" with
          | ["H", k, v] => (match hx k, hx v with
            | some k, some v => Spec.Resp.lowerAll k == Spec.Resp.sConnection && Spec.Resp.lowerAll v == Spec.Resp.sClose && v != strClose
            | _, _ => false)
          | _ => false) })
  | [] => none

/-- the header state of the answer `writeErrorResponse` builds (`AbortWithMsg` on a reset response, then
`SetServerBytes`); server name and date policy are the connection's, taken from the first dump -/
def errDump (d0 : Dump) : Dump :=
  { reason := "Bad Request".toUTF8.toList, ctset := true,
    r := { d0.r with contentType := "text/plain; charset=utf-8".toUTF8.toList, contentLength := 0, contentEncoding := [],
                     clBytes := [], h := [], trailer := [], cookies := [], connClose := true } }

/-- `hdrOf` without the `Connection` edit (that is `RespSeq.serveHdr` now) -/
def hdrOf0 (c : Case) (d : Dump) (wireDate : Option Bytes) : HW.RespHdr :=
  let r := d.r
  let r := { r with statusLine := statusLineOf c.prog.status d.reason,
                    date := r.date.map (fun x => wireDate.getD x) }
  let finalCL : Int := match (frame c.prog c.req.isHead).framing with
    | .none => r.contentLength | .cl n => n | .chunked => -1
  { r with contentType := if d.ctset || finalCL != 0 then r.contentType else [] }

def mkExch (q : QCase) (d : Dump) (wireDate : Option Bytes) : Exch :=
  { http11 := q.c.req.http11, reqConn := q.reqConn, isHead := q.c.req.isHead, r := hdrOf0 q.c d wireDate, p := q.c.prog,
    respClose := q.c.respClose, early := q.c.earlyHeader, hijack := q.hijack, srvClose := q.srvClose }

/-- the exchanges of the connection (dates are taken from the implementation's bytes at the place the model
says the message starts); `none` = a dump is missing; the Bool = the framing fields predicted for every header
state agree with the dumps -/
def exchs (d0 : Option Dump) : List QCase → List Dump → Bytes → Option (List Exch × Bool)
  | [], _, _ => some ([], true)
  | q :: qs, ds, rest =>
    let dd : Option (Dump × List Dump) :=
      if q.isErr then d0.map (fun d => (errDump d, ds)) else
      match ds with | d :: t => some (d, t) | [] => none
    match dd with
    | none => none
    | some (d, ds') =>
      let e := mkExch q d (findDate rest)
      let ok := q.isErr || hdrAgrees q.c d
      if stops e then some ([e], ok)
      else (exchs d0 qs ds' (rest.drop (msg e).length)).map (fun r => (e :: r.1, ok && r.2))

/-- what the handler's stream delivers, and whether that is less than it declared while a body is to be sent
(from the program alone; independent of `frame`) -/
def delivered (c : Case) : Bytes :=
  match c.prog.body with
  | .stream _ reads => reads.flatten
  | .limited _ reads => reads.flatten
  | _ => []

def shortIntent (c : Case) : Bool :=
  !(c.req.isHead || Spec.Resp.noBodyStatus c.prog.status) &&
  (match c.prog.body with
   | .stream d reads => d > (reads.flatten.length : Int)
   | .limited l reads => l > reads.flatten.length
   | _ => false)

/-- the client's reading of the bytes the server wrote.  Per outstanding request: a handler whose stream ran
short must NOT come out as a complete message — what is there is a header block followed by bytes the stream
did deliver, and it is the last thing on the connection; every other response is complete, has the handler's
status and body, announces `close` exactly when the request or the handler asked for it (`keep-alive` to an
HTTP/1.0 peer otherwise), nothing follows a closing response, and the next response starts exactly where this
one ends. -/
def specSeq : List QCase → Bytes → Bool × String × String
  | [], s => (s.isEmpty, "bytes after the last response", "")
  | q :: qs, s =>
    let c := q.c
    if shortIntent c then
      if s.isEmpty then (true, "", "") else
      match Spec.Head.parseHead s with
      | none => (false, "short stream: what was written is not even a header block", "")
      | some (_, _, rest) =>
        (rest.isPrefixOf (delivered c), "short stream: bytes after the header block that the stream did not deliver (the connection was kept?)", "")
    else if s.isEmpty then (false, "no response although the connection was not closed", "")
    else match Spec.Resp.decodeOne c.req.isHead s with
      | none => (false, "a response is cut short or malformed", "")
      | some (m, rest) =>
        let okMsg := m.status == c.prog.status && m.body == payloadOf c.prog c.req.isHead
        -- the connection option `close` is case-insensitive (RFC 7230 §6.1)
        let mustClose := q.srvClose || c.req.reqClose || c.respClose || q.reqCloseCase || q.respCloseCase
        let cls := ""   -- the class `connection-close-case` was repaired in /repo (9dcdbe5): a return is a violation
        let okConn := c.earlyHeader ||
          (Spec.Resp.saysClose m == mustClose && (c.req.http11 || mustClose || Spec.Resp.saysKeepAlive m))
        if !okMsg then (false, "a response does not carry the handler's status and body", "")
        else if !okConn then (false, "Connection header does not announce the decision", cls)
        else if Spec.Resp.saysClose m || mustClose || q.hijack then (rest.isEmpty, "bytes after a closing (or hijacked) response", cls)
        else specSeq qs rest

def endTag (cap : Nat) : List Exch → String
  | [] => "end"
  | e :: es =>
    if failed e then "short" ++ toString (min 3 ((frame e.p e.isHead).wire.length / cap)) ++
      (if (frame e.p e.isHead).wire.isEmpty then "e" else "")
    else if closes e then (if e.early then "closeEarly" else if e.srvClose then "srvClose" else if reqClose e.http11 e.reqConn then "reqClose" else "respClose")
    else if e.hijack then "hijack"
    else endTag cap es

def handleQ (toks impl : List String) : Option Result := do
  let dk := toks.head? == some "DK"
  let qs ← (splitOnStr "/" (if dk then toks.drop 1 else toks)).mapM parseQCase
  let qs := qs.map (fun q => { q with srvClose := dk })
  let wire ← impl.head? >>= hx
  let dtoks := impl.dropWhile (· != "D")
  let dumps := (match dtoks with
    | _ :: k :: t => parseDumps k.toNat! t
    | _ => none).getD []
  let (ok, note, cls) := specSeq qs wire
  match exchs dumps.head? qs dumps wire with
  | none => pure { out := ["MSG", "NODUMP"], spec := ok, specNote := note, tag := "respq:nodump", cls }
  | some (es, hdrOk) =>
    let mw := Hertz.H1.RespSeq.wire 4096 es
    let out := if !hdrOk then "HDR" :: qs.flatMap (fun q => dumpTokens q.c.hs)
               else if mw == wire then impl else ["MODEL", encHex mw]
    pure { out, spec := ok, specNote := note, cls,
           tag := "respq:" ++ toString (answered es).length ++ ":" ++ endTag 4096 es ++ ":" ++
                  boolTok (es.any (fun e => !e.http11)) ++ boolTok (es.any (·.isHead)) ++
                  boolTok (qs.any (·.isErr) && es.length == qs.length) }

/-- X04: the whole wire of a `respw` connection from the same model, so that a connection on which a stream runs
short is compared exactly as well (the older `modelWire` only asked for the messages before it as a prefix) -/
def modelWireX (cases : List Case) (dumps : List Dump) (wire : Bytes) : Option (Bytes × Bool × Bool) :=
  let qs := cases.map (fun c =>
    ({ c, reqConn := if c.req.reqClose then .close else if c.req.http11 then .absent else .keepAlive } : QCase))
  (exchs dumps.head? qs dumps wire).map (fun r => (Hertz.H1.RespSeq.wire 4096 r.1, false, r.2))

end Seq

def handle : Handler
  | "respq" :: toks, impl => handleQ toks impl
  | "respw" :: toks, impl => do
    let cases ← (splitOnStr "/" toks).mapM parseCase
    let wire ← impl.head? >>= hx
    let exp := expected cases
    let anyFailed := cases.any (fun c => (frame c.prog c.req.isHead).failed)
    let dec := decodeAll cases wire []
    -- net/http's opinion, as printed by the harness: status, content-length, body per response
    let nh := ((impl.dropWhile (· != "N")).drop 2).takeWhile (· != "D")
    -- the header states dumped by the harness, one per handler invocation
    let dtoks := impl.dropWhile (· != "D")
    let dumps := (match dtoks with
      | _ :: k :: t => parseDumps k.toNat! t
      | _ => none).getD []
    -- the whole message (header block + body) of every response against the bytes written: equal, or
    -- (when the model says a writer fails mid-message) the messages before that one are a prefix
    let mw := modelWireX cases dumps wire
    let (msgAgree, msgOut) : Bool × List String := match mw with
      | none => (false, ["MSG", "NODUMP"])
      | some (m, failed, hdrOk) =>
        if !hdrOk then (false, "HDR" :: cases.flatMap (fun c => dumpTokens c.hs))
        else if (if failed then m.isPrefixOf wire else m == wire) then (true, [])
        else (false, ["MSG", encHex m])
    match dec with
    | none =>
      -- not decodable by the strict reader: acceptable only when the model says the writer failed mid-message
      pure { out := msgOut ++ (if anyFailed then impl else "MODEL" :: obsTokens exp), spec := anyFailed, specNote := "output is not a sequence of well-formed responses",
             tag := "respw:undecodable:" ++ boolTok msgAgree }
    | some (obs, msgs, rest) =>
      let rec nhOk : List Spec.Resp.Msg → List String → Bool
        | [], _ => true
        | m :: ms, st :: _cl :: b :: t => st == toString m.status && hx b == some m.body && nhOk ms t
        | _, _ => false
      let specOk := (rest.isEmpty || anyFailed) && (anyFailed || nhOk msgs nh) &&
        msgs.all (fun m => !(Spec.Resp.noBodyStatus m.status) || m.raw.isEmpty)
      -- the model's frames are compared with what the strict reader makes of the implementation's bytes;
      -- when the model says the writer fails mid-message only the messages before it are compared
      let agree := if anyFailed then (obs.take (exp.length - 1) == exp.take (exp.length - 1)) else obs == exp
      let declared := cases.any (fun c => !c.hs.clBytes.isEmpty &&
        (match c.prog.body with | .bytes _ => false | .writer _ => false | _ => true) ||
        (match (frame c.prog c.req.isHead).framing with | .none => declaredOf c.hs != .none | _ => false))
      pure { out := msgOut ++ (if agree then impl else "MODEL" :: obsTokens exp ++ "DECODED" :: obsTokens obs),
             spec := specOk, specNote := "strict reader and net/http decode the same messages; nothing left over; bodiless statuses carry no body",
             tag := "respw:" ++ toString (min obs.length 4) ++ ":" ++ (obs.getLast?.map (·.framing.take 2 |>.toString)).getD "-" ++
                    ":" ++ boolTok anyFailed ++ boolTok (cases.any (·.req.isHead)) ++ boolTok (cases.any (fun c => Spec.Resp.noBodyStatus c.prog.status)) ++
                    boolTok declared }
  | _, _ => none

end Hertz.Driver.C04
