import Hertz.Driver.Core
import Hertz.Model.FsCache
/-!
Driver side of the C08 op `fscache` (see harness/c08cache.go): op SEQUENCES against one `fsHandler` —
downloads held open while the tree changes, the cache expires and further requests arrive.

  `fscache <accept> <step>*`   five tokens per step (`W M D G H C X`)
  → `G`: `status cl cr body fds rcs`; `H`: `status cl cr held fds rcs`; `C`: `body fds rcs`; `X`: `fds rcs`
    (`rcs`: `ff.readersCount/len(ff.bigFiles)` of the file behind every held response, read from the Go objects).

The model (`Hertz/Model/FsCache.lean`) predicts every token, including the number of open descriptors.
The spec predicate looks at the implementation's tokens only: no panic, every delivered body is the
requested slice of a content that was written under that name before the request, with matching
Content-Length / Content-Range; no reader object is handed out twice; when everything has been
delivered and the cache has expired, no descriptor is left.
-/
namespace Hertz.Driver.C08Cache
open Hertz Hertz.Driver Hertz.FsCache

def pat (cid n : Nat) : Bytes := (List.range n).map fun i => ((i * 31 + cid * 17 + (i / 251) * 7) % 251).toUInt8

def fnv (b : Bytes) : UInt64 := b.foldl (fun h c => (h ^^^ c.toUInt64) * 1099511628211) 14695981039346656037

def hexNib (n : UInt64) : Char := if n < 10 then Char.ofNat (48 + n.toNat) else Char.ofNat (87 + n.toNat)

def hex16 (h : UInt64) : String :=
  String.ofList ((List.range 16).map fun i => hexNib ((h >>> (4 * (15 - i)).toUInt64) &&& 15))

def bodyTok (b : Bytes) : String := s!"{b.length}.{hex16 (fnv b)}"

def srcBytes : Src → Bytes
  | .content c => pat c.cid c.len

/-- what the server copies out of a reader: at most `Content-Length` bytes from the range start -/
def readerBody (r : Reader) : Bytes := ((srcBytes r.src).drop r.lo).take r.cl

inductive DStep where
  | w (key : Nat) (c : Content) (mt : Nat)
  | m (key : Nat) (idx : Option (Content × Nat))
  | d (key : Nat)
  | g (hold : Bool) (key : Nat) (head : Bool) (ims : Option Nat) (range : Option Bytes)
  | c (j : Nat)
  | x

/-- `n` = number of the step: the identity of the file object a `W` / `M` step creates (write to temp + rename) -/
def parseSteps (n : Nat) : List String → Option (List DStep)
  | [] => some []
  | k :: a :: b :: c :: d :: rest => do
    let s ← match k with
      | "W" => do some (DStep.w (← a.toNat?) { ino := n, cid := ← b.toNat?, len := ← c.toNat? } (← d.toNat?))
      | "M" => do
        let key ← a.toNat?
        if b == "-" then some (DStep.m key none)
        else some (DStep.m key (some ({ ino := n, cid := ← b.toNat?, len := ← c.toNat? }, ← d.toNat?)))
      | "D" => do some (DStep.d (← a.toNat?))
      | "G" | "H" => do
        let key ← a.toNat?
        let ims ← if c == "N" then some none else c.toNat?.map some
        let r ← if d == "N" then some none else (hx d).map some
        some (DStep.g (k == "H") key (b == "HEAD") ims r)
      | "C" => do some (DStep.c (← a.toNat?))
      | "X" => some DStep.x
      | _ => none
    let r ← parseSteps (n + 1) rest
    some (s :: r)
  | _ => none

def crTok (cr : Option (Nat × Nat × Nat)) : String :=
  match cr with
  | none => "N"
  | some (a, b, n) =>
    match FS.contentRange a b n with
    | .ok v => encHex v
    | .error _ => "PANIC"

def headToks (a : Ans) : List String :=
  [toString a.status, if a.status == 200 || a.status == 206 then toString a.cl else "-", crTok a.cr]

/-- inside a phase the cleaner may or may not have run; it can only release files that are out of the cache
and unreferenced, which nothing else depends on: both counts are accepted -/
def fdsTok (s : State) (impl : String) : String :=
  if impl == toString (fds (tick s)) then impl else toString (fds s)

/-- `readersCount/len(bigFiles)` of the file behind every held response, in step order; the implementation's token is
taken over when the harness could not read the fields (`?`) -/
def rcsTok (s : State) (held : List (Nat × Nat)) (impl : String) : String :=
  if impl.contains '?' then impl else
  let sorted := (held.toArray.qsort (fun a b => a.1 < b.1)).toList
  if sorted.isEmpty then "-" else
  ",".intercalate (sorted.map fun (_, rid) =>
    match findReader s rid with
    | none => "!"
    | some r =>
      match findObj s r.fid with
      | none => "!"
      | some o => s!"{o.rc}/{o.pool.length}")

/-- spec on the implementation's token: the file behind a download in flight has a positive count -/
def rcsOk (impl : String) : Bool :=
  impl == "-" || (impl.splitOn ",").all fun t =>
    t == "?" || (match (t.splitOn "/").head? with | some n => (match n.toInt? with | some v => v > 0 | none => false) | none => false)

def branch (s : State) (key : Nat) (s1 : State) (a : Ans) : String :=
  let hit := match lookup s key with
    | some o => (if o.isBig then "hitB" else "hitS") ++ (if o.isBig then (if o.pool.isEmpty then "-reopen" else "-pool") else "")
    | none => "miss"
  s!"{hit}{a.status}"

/-- the version the spec accepts: a content written under the key before the request -/
structure Want where
  versions : List Content
  head : Bool
  range : Option Bytes
  accept : Bool
  status : String
  cl : String
  cr : String

/-- spec for one delivered body (implementation tokens only) -/
def bodyOk (w : Want) (body : String) : Bool :=
  w.versions.any fun v =>
    if w.status == "206" then
      match w.range with
      | none => false
      | some r =>
        match FS.parseByteRange r v.len with
        | .ok (a, b) =>
          w.accept && w.cl == toString (b - a + 1) && w.cr == crTok (some (a.toNat, b.toNat, v.len)) &&
            body == bodyTok (((pat v.cid v.len).drop a.toNat).take (b - a + 1).toNat)
        | .error _ => false
    else
      w.status == "200" && w.cl == toString v.len && w.cr == "N" && body == bodyTok (pat v.cid v.len)

def statusOk (st : String) : Bool := ["200", "206", "304", "403", "404", "416", "500"].contains st

structure Acc where
  st : State := {}
  stepNo : Nat := 0
  /-- step number of an `H` ↦ reader the model handed out -/
  held : List (Nat × Nat) := []
  /-- the same on the implementation's side: step number ↦ what to expect of the body -/
  heldImpl : List (Nat × Want) := []
  versions : List (Nat × Content) := []
  impl : List String
  out : List String := []
  spec : Bool := true
  note : String := ""
  labels : List String := []
  lastFds : String := "0"
  stopped : Bool := false

def fail (acc : Acc) (ok : Bool) (msg : String) : Acc :=
  if ok then acc else { acc with spec := false, note := if acc.note.isEmpty then s!"step {acc.stepNo}: {msg}" else acc.note }

def versionsOf (acc : Acc) (key : Nat) : List Content := (acc.versions.filter (·.1 == key)).map (·.2)

def go (accept : Bool) (acc : Acc) (s : DStep) : Acc :=
  if acc.stopped then acc else
  let acc := { acc with stepNo := acc.stepNo + 1 }
  let no := acc.stepNo - 1
  match s with
  | .w key c mt => { acc with st := { acc.st with disk := acc.st.disk.set key (.file c mt) }, versions := (key, c) :: acc.versions }
  | .m key idx =>
    { acc with st := { acc.st with disk := acc.st.disk.set key (.dir idx) },
               versions := match idx with | some (c, _) => (key, c) :: acc.versions | none => acc.versions }
  | .d key => { acc with st := { acc.st with disk := acc.st.disk.set key .absent } }
  | .g hold key head ims range =>
    let chunk := acc.impl.take 6
    let acc := { acc with impl := acc.impl.drop 6 }
    -- spec on the implementation's tokens
    let acc := match chunk with
      | [st, cl, cr, b, fdsI, rcsI] =>
        let acc := fail acc (rcsOk rcsI) "a download is in flight and the count of its file is not positive"
        let w : Want := { versions := versionsOf acc key, head := head, range := range, accept := accept, status := st, cl := cl, cr := cr }
        let acc := fail acc (statusOk st) s!"status {st}"
        let acc := { acc with lastFds := fdsI }
        if hold then
          let acc := fail acc (b != "D") "a reader object that is still held by another response was handed out again"
          if b == "1" then { acc with heldImpl := (no, w) :: acc.heldImpl } else acc
        else if b != "-" then fail acc (bodyOk w b) "the body is not the requested slice of a content written under that name"
        else fail acc (head || !(st == "200" || st == "206")) "200/206 without a body stream"
      | _ => fail acc false "panic"
    -- model
    match handleRequest accept key head ims (range.getD []) acc.st with
    | .error _ => { acc with out := acc.out ++ ["PANIC"], stopped := true }
    | .ok (s1, a) =>
      let label := branch acc.st key s1 a ++ (if hold then "h" else "")
      let fdsI := (chunk.drop 4).headD ""
      let rcsI := (chunk.drop 5).headD ""
      if hold then
        let held' := match a.rid with | some rid => (no, rid) :: acc.held | none => acc.held
        { acc with st := s1, out := acc.out ++ headToks a ++ [if a.rid.isSome then "1" else "0", fdsTok s1 fdsI, rcsTok s1 held' rcsI],
                   held := held',
                   labels := label :: acc.labels }
      else
        match a.rid with
        | none => { acc with st := s1, out := acc.out ++ headToks a ++ ["-", fdsTok s1 fdsI, rcsTok s1 acc.held rcsI], labels := label :: acc.labels }
        | some rid =>
          let body := match findReader s1 rid with | some r => bodyTok (readerBody r) | none => "?"
          match closeOp rid s1 with
          | .error _ => { acc with out := acc.out ++ headToks a ++ ["PANIC"], stopped := true }
          | .ok (s2, _) =>
            { acc with st := s2, out := acc.out ++ headToks a ++ [body, fdsTok s2 fdsI, rcsTok s2 acc.held rcsI], labels := label :: acc.labels }
  | .c j =>
    let chunk := acc.impl.take 3
    let acc := { acc with impl := acc.impl.drop 3 }
    let acc := match chunk with
      | [b, fdsI, rcsI] =>
        let acc := fail { acc with lastFds := fdsI } (rcsOk rcsI) "a download is in flight and the count of its file is not positive"
        match acc.heldImpl.find? (fun (p : Nat × Want) => p.1 == j) with
        | some (_, w) =>
          let acc := { acc with heldImpl := acc.heldImpl.filter (fun (p : Nat × Want) => p.1 != j) }
          fail acc (bodyOk w b) "the held body is not the requested slice of a content written under that name before the request"
        | none => fail acc (b == "-") "a body from a response that holds none"
      | _ => fail acc false "panic"
    let fdsI := (chunk.drop 1).headD ""
    let rcsI := (chunk.drop 2).headD ""
    match acc.held.find? (fun (p : Nat × Nat) => p.1 == j) with
    | none => { acc with out := acc.out ++ ["-", fdsTok acc.st fdsI, rcsTok acc.st acc.held rcsI] }
    | some (_, rid) =>
      let body := match findReader acc.st rid with | some r => bodyTok (readerBody r) | none => "?"
      match closeOp rid acc.st with
      | .error _ => { acc with out := acc.out ++ ["PANIC"], stopped := true }
      | .ok (s2, _) =>
        let held' := acc.held.filter (fun (p : Nat × Nat) => p.1 != j)
        { acc with st := s2, held := held', out := acc.out ++ [body, fdsTok s2 fdsI, rcsTok s2 held' rcsI], labels := "close" :: acc.labels }
  | .x =>
    let chunk := acc.impl.take 2
    let acc := { acc with impl := acc.impl.drop 2 }
    let acc := match chunk with
      | [fdsI, rcsI] => { (fail acc (rcsOk rcsI) "a download is in flight and the count of its file is not positive") with lastFds := fdsI }
      | _ => fail acc false "panic"
    let s1 := tick (expireAll acc.st)
    let lbl := if acc.st.objs.any (fun o => o.cached && o.rc > 0) then "X-busy"
               else if acc.st.objs.any (fun o => o.pending) then "X-pending" else "X"
    { acc with st := s1, out := acc.out ++ [toString (fds s1), rcsTok s1 acc.held ((chunk.drop 1).headD "")], labels := lbl :: acc.labels }

def sortDedup (l : List String) : List String :=
  (l.foldl (fun acc x => if acc.contains x then acc else acc ++ [x]) []).toArray.qsort (· < ·) |>.toList

def handle : Handler
  | "fscache" :: a :: stepToks, impl => do
    if impl == ["TIMING"] then
      return { out := impl, tag := "fscache:timing-skip" }
    let steps ← parseSteps 0 stepToks
    let accept := a == "1"
    let acc := steps.foldl (go accept) { impl := impl }
    let acc := fail acc (!impl.contains "PANIC") "panic"
    -- everything delivered, cache expired twice: no descriptor may be left
    let allClosed := acc.heldImpl.isEmpty
    let acc := fail acc (!allClosed || acc.lastFds == "0") s!"{acc.lastFds} descriptors left when nothing is cached or in flight"
    pure { out := acc.out, spec := acc.spec, specNote := if acc.spec then "bodies are slices of what was written; no panic; no descriptor left" else acc.note,
           tag := "fscache:" ++ a ++ ":" ++ ",".intercalate (sortDedup acc.labels) }
  | _, _ => none

end Hertz.Driver.C08Cache
