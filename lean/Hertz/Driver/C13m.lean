import Hertz.Driver.C13
import Hertz.Model.ConnMem
/-!
Correspondence + spec handler for the memory-level model of C13 (`Model/ConnMem.lean`).

Case:  `c13m <initSize> <seed> <auto> <ev>* ; <0|1>* ; <op>*  |  <tok>*`   (one token per op)
  ev, reader ops `p<N> s<N> b c<N> r<N> R l` : as for `c13r`
  write-failure flags                        : as for `c13w`
  writer / caller / allocator ops on the SAME connection:
    `m<N>`  Malloc(N), filled at once with the next N stream bytes
    `M<N>`  Malloc(N), filled with the placeholder 0xEE; this is reservation number k (k-th `M`)
    `F<k>`  the caller now writes the next bytes of the stream into reservation k (ignored when a `Flush` was called since `M`)
    `w<N>`  the caller makes a buffer (number j, the j-th `w`) holding the next N stream bytes and calls WriteBinary(buffer)
    `u<j>`  the caller overwrites its buffer j (every byte xor 0x5a)
    `f`     Flush
    `X`     the allocator recycles: every block `mcache` holds is overwritten with 0xa5
  auto = 1: an `X` happens after every op.
  out: reader op `<n>:<fnv>:<err>:<len>`; `m M w`: `<n>`; `F u X`: `-`; `f`: `<failed>:<n>:<fnv>`.
  A token may end in `!c<i>.<j>…`: the slices returned by the `Peek`s at op positions i, j, … no longer hold what they
  held when they were returned (reported once per slice), and in `!COPY` (a `ReadBinary` result changed).
Self-checks of the model (they show as a difference): `!MODEL-STALE` a protected reference changed in the model's heap,
`!MODEL-REF` a peek reference does not read the returned bytes, `!MODEL-REFINE` the list-level model of `Model/Conn.lean`
gives other reader outputs (refinement, checked per case).
The model runs the same steps with the allocator recycling the `ch`-th candidate (`ch` varies with seed and position) and
the same scribbling; it says which peeked slices are protected (handed out since the last `Release`/`Read`).
-/
namespace Hertz.Driver.C13m
open Hertz Hertz.Driver Hertz.Conn Hertz.ConnMem Hertz.Spec.Fifo Hertz.Driver.C13

inductive XOp
  | rd (op : Op)
  | mal (n : Nat)
  | res (n : Nat)
  | fil (k : Nat)
  | wb (n : Nat)
  | mut (j : Nat)
  | flush
  | scrib
  deriving Repr

def parseX (t : String) : Option XOp :=
  let body := (t.drop 1).toString
  if t = "f" then some .flush
  else if t = "X" then some .scrib
  else if t.startsWith "m" then body.toNat?.map .mal
  else if t.startsWith "M" then body.toNat?.map .res
  else if t.startsWith "F" then body.toNat?.map .fil
  else if t.startsWith "w" then body.toNat?.map .wb
  else if t.startsWith "u" then body.toNat?.map .mut
  else (parseOp t).map .rd

/-- a piece of output the peer has still to get (the spec's view, no nodes) -/
structure Piece where
  /-- 0 = plain, 1 = reservation `key`, 2 = by-reference buffer `key` -/
  kind : Nat
  key : Nat
  bytes : Bytes

structure St where
  c : MConn
  wire : Wire
  sc : WScript
  pos : Nat := 0
  /-- reservations: reference (none for size 0) -/
  resv : Array (Option Ref × Nat) := #[]
  /-- number of `Flush` calls so far: a reservation may be filled only before the next `Flush` -/
  epoch : Nat := 0
  bufs : Array Ref := #[]
  /-- peeks still protected: (op position, reference, bytes at hand-out) -/
  prot : List (Nat × Ref × UInt64) := []
  pieces : List Piece := []
  labels : List String := []

def addLabel (ls : List String) (l : String) : List String := if ls.contains l then ls else l :: ls

def xorAll (b : Bytes) : Bytes := b.map (· ^^^ 0x5a)

/-- drop `n` sent bytes from the front of the pieces (whole pieces; a `Write` hands over whole nodes) -/
def dropPieces : List Piece → Nat → List Piece
  | [], _ => []
  | p :: t, n => if p.bytes.length ≤ n then dropPieces t (n - p.bytes.length) else
      if n = 0 then p :: t else { p with bytes := p.bytes.drop n } :: t

def piecesBytes (l : List Piece) : Bytes := l.flatMap (·.bytes)

def stripSuffix (t : String) : String := (t.splitOn "!").headD ""

def suffixOf (t : String) : String :=
  match t.splitOn "!" with
  | _ :: rest => String.join (rest.map ("!" ++ ·))
  | [] => ""

/-- op positions the implementation reports as changed -/
def changedOf (t : String) : List Nat :=
  (t.splitOn "!").drop 1 |>.flatMap (fun s => if s.startsWith "c" then ((s.drop 1).toString.splitOn ".").filterMap (·.toNat?) else [])

structure StepRes where
  tok : String
  st : St
  /-- spec verdict for this op on the implementation's token -/
  ok : Bool := true
  note : String := ""

def chOf (seed i : Nat) : Nat := (seed + 3 * i) % 4 % 3

/-- run one step of the model, and judge the implementation's token `impl` -/
def xstep (seed i : Nat) (st : St) (x : XOp) (impl : String) : Except Fault StepRes := do
  let ch1 := chOf seed i
  let ch2 := chOf seed (i + 1)
  let free0 := st.c.mem.free.length
  let recyc (c' : MConn) (ls : List String) : List String :=
    if c'.mem.nextBlk = st.c.mem.nextBlk ∧ c'.mem.free.length < free0 then addLabel ls "Y" else ls
  match x with
  | .rd op =>
    let (o, c1, w1, sc1) ← cstep st.c st.wire st.sc (.rd op ch1 ch2)
    let releasing := match op with | .read _ => true | .release => true | _ => false
    let prot := if releasing then [] else st.prot
    let prot := match op, o.ref with
      | .peek _, some r => if o.out.bytes.length > 0 then (i, r, fnv o.out.bytes) :: prot else prot
      | _, _ => prot
    let ls := recyc c1 st.labels
    let ls := match op with
      | .peek n => addLabel ls (if o.out.err.isNone ∧ c1.r.readNode.len < n then "pX" else "p")
      | .release => addLabel ls (if free0 < c1.mem.free.length then "Rf" else "R")
      | .read _ => addLabel ls "r"
      | _ => ls
    -- the reference handed out must read, in the model's heap, the bytes that were returned
    let refBad := match op, o.ref with
      | .peek _, some r => c1.mem.heap.read r != o.out.bytes
      | _, _ => false
    pure { tok := outTok o.out ++ (if refBad then "!MODEL-REF" else ""),
           st := { st with c := c1, wire := w1, sc := sc1, prot := prot, labels := ls } }
  | .mal n =>
    let bs := genBytes seed st.pos n
    let (o, c1, _, _) ← cstep st.c st.wire st.sc (.reserve n ch1)
    let c2 ← match o.ref with
      | some r => do let (_, c2, _, _) ← cstep c1 st.wire st.sc (.fillRef r bs); pure c2
      | none => pure c1
    let ok := stripSuffix impl == toString n
    pure { tok := toString n, ok := ok, note := "Malloc returned a slice of another length",
           st := { st with c := c2, pos := st.pos + n, pieces := st.pieces ++ [⟨0, 0, bs⟩], labels := recyc c1 (addLabel st.labels "m") } }
  | .res n =>
    let bs := List.replicate n (0xee : UInt8)
    let (o, c1, _, _) ← cstep st.c st.wire st.sc (.reserve n ch1)
    let c2 ← match o.ref with
      | some r => do let (_, c2, _, _) ← cstep c1 st.wire st.sc (.fillRef r bs); pure c2
      | none => pure c1
    let ok := stripSuffix impl == toString n
    pure { tok := toString n, ok := ok, note := "Malloc returned a slice of another length",
           st := { st with c := c2, resv := st.resv.push (o.ref, st.epoch), pieces := st.pieces ++ [⟨1, st.resv.size, bs⟩],
                           labels := recyc c1 (addLabel st.labels "M") } }
  | .fil k =>
    match st.resv[k]? with
    | some (some r, ep) =>
      if ep != st.epoch then pure { tok := "-", st := { st with labels := addLabel st.labels "Fd" } } else
      let bs := genBytes seed st.pos r.len
      let (_, c1, _, _) ← cstep st.c st.wire st.sc (.fillRef r bs)
      let live := st.pieces.any (fun p => p.kind == 1 && p.key == k)
      let late := match st.pieces.getLast? with | some p => !(p.kind == 1 && p.key == k) | none => false
      pure { tok := "-", st := { st with c := c1, pos := st.pos + r.len,
                                         pieces := st.pieces.map (fun p => if p.kind == 1 && p.key == k then { p with bytes := bs } else p),
                                         labels := addLabel st.labels (if live then (if late then "Fl" else "F") else "Fd") } }
    | _ => pure { tok := "-", st := st }
  | .wb n =>
    let bs := genBytes seed st.pos n
    let (o, c1, _, _) ← cstep st.c st.wire st.sc (.newBuf bs)
    let r := o.ref.getD ⟨0, 0, 0⟩
    let (_, c2, _, _) ← cstep c1 st.wire st.sc (.writeBinary r ch1)
    let ok := stripSuffix impl == toString n
    pure { tok := toString n, ok := ok, note := "WriteBinary accepted another length",
           st := { st with c := c2, pos := st.pos + n, bufs := st.bufs.push r,
                           pieces := st.pieces ++ [if n ≥ block4k then ⟨2, st.bufs.size, bs⟩ else ⟨0, 0, bs⟩],
                           labels := recyc c2 (addLabel st.labels (if n ≥ block4k then "wR" else "wC")) } }
  | .mut j =>
    match st.bufs[j]? with
    | some r =>
      let bs := xorAll (st.c.mem.heap.read r)
      let (_, c1, _, _) ← cstep st.c st.wire st.sc (.callerWrite r.blk r.lo bs)
      let live := st.pieces.any (fun p => p.kind == 2 && p.key == j)
      pure { tok := "-", st := { st with c := c1,
                                         pieces := st.pieces.map (fun p => if p.kind == 2 && p.key == j then { p with bytes := xorAll p.bytes } else p),
                                         labels := addLabel st.labels (if live then "uR" else (if r.len ≥ block4k then "ud" else "uC")) } }
    | none => pure { tok := "-", st := st }
  | .flush =>
    let (o, c1, _, sc1) ← cstep st.c st.wire st.sc .flush
    -- the contract, on what the implementation reports
    let pend := piecesBytes st.pieces
    let (ok, pieces') :=
      match (stripSuffix impl).splitOn ":" with
      | [f, n, h] =>
        match n.toNat?, h.toNat? with
        | some n, some h =>
          if f == "1" then (decide (n ≤ pend.length) && UInt64.ofNat h == fnv (pend.take n), dropPieces st.pieces n)
          else (decide (n = pend.length) && UInt64.ofNat h == fnv pend, [])
        | _, _ => (false, [])
      | _ => (false, [])
    pure { tok := s!"{boolTok o.failed}:{o.sent.length}:{(fnv o.sent).toNat}", ok := ok,
           note := "Flush: the peer must get the reserved slices as the caller last filled them, copied writes as they were at the call, by-reference writes as they are now",
           st := { st with c := c1, sc := sc1, pieces := pieces', epoch := st.epoch + 1, labels := addLabel st.labels (if o.failed then "fE" else "f") } }
  | .scrib =>
    let (_, c1, _, _) ← cstep st.c st.wire st.sc (.scribble 0xa5)
    pure { tok := "-", st := { st with c := c1, labels := addLabel st.labels (if free0 > 0 then "X" else "X0") } }

/-- the whole case, tail recursive (so that old heaps are dropped as the run proceeds): output tokens in reverse, the
first spec failure, the final state -/
def xrun (seed : Nat) (auto : Bool) : Nat → St → List XOp → List String → List String → Option String →
    Except Fault (List String × Bool × String × St)
  | _, st, [], _, acc, bad => pure (acc.reverse, bad.isNone, bad.getD "", st)
  | i, st, x :: xs, impls, acc, bad => do
    let impl := impls.headD ""
    let r ← xstep seed i st x impl
    let st1 ← if auto then do
        let (_, c1, _, _) ← cstep r.st.c r.st.wire r.st.sc (.scribble 0xa5)
        pure { r.st with c := c1 }
      else pure r.st
    -- the model's own protected slices must still read what they read (theorem `peeked_ref_stable_mem`)
    let modelStale := st1.prot.any (fun (_, ref, h) => fnv (st1.c.mem.heap.read ref) != h)
    let tok := if modelStale then r.tok ++ "!MODEL-STALE" else r.tok
    -- the implementation's report on its slices
    let changed := changedOf impl
    let badRefs := changed.filter (fun k => st1.prot.any (fun (k', _, _) => k' == k))
    let copyBad := (impl.splitOn "!").contains "COPY"
    let st2 := if changed.isEmpty then st1 else { st1 with labels := addLabel st1.labels "D" }
    let bad' : Option String :=
      match bad with
      | some b => some b
      | none =>
        if !badRefs.isEmpty then some s!"op #{i}: a slice returned by Peek (op #{badRefs.headD 0}) changed before the next Release"
        else if copyBad then some s!"op #{i}: a ReadBinary result changed"
        else if !r.ok then some s!"op #{i}: {r.note}"
        else none
    xrun seed auto (i + 1) st2 xs (impls.drop 1) ((tok ++ suffixOf impl) :: acc) bad'

def handle : Handler
  | "c13m" :: size :: seed :: auto :: rest, impl => do
    let size ← size.toNat?
    let seed ← seed.toNat?
    let wire ← parseEvs seed (rest.takeWhile (· != ";")) 0
    let rest2 := (rest.dropWhile (· != ";")).drop 1
    let sc := (rest2.takeWhile (· != ";")).map (· == "1")
    let xops ← ((rest2.dropWhile (· != ";")).drop 1).mapM parseX
    let st0 : St := { c := MConn.new size, wire := wire, sc := sc }
    match xrun seed (auto == "1") 0 st0 xops impl [] none with
    | .error _ =>
      pure { out := ["PANIC"], spec := false, specNote := "model fault", tag := "mFAULT" }
    | .ok (out, ok, note, stN) =>
      -- the reader part of the trace must also be accepted by the byte queue and the control rules
      let pairs := (xops.zip impl).filterMap (fun (x, t) => match x with | .rd op => some (op, stripSuffix t) | _ => none)
      let trace := zipOpt (fun (_ : Op) t => parseObs t) (pairs.map (·.1)) (pairs.map (·.2))
      let (ok2, note2) :=
        if impl.length != xops.length then (false, "panic, hang or malformed report")
        else match trace with
        | none => (false, "panic, hang or malformed report")
        | some tr =>
          match firstRejectBytes fnv (wireBytes wire) tr 0 with
          | some i => (false, s!"byte queue rejects reader op #{i}: bytes are not the next bytes sent")
          | none =>
            match firstRejectCtl (Ctl.init wire) tr 0 with
            | some i => (false, s!"Len/size/error rules reject reader op #{i}")
            | none => (ok, note)
      -- refinement, per case: the list-level model of `Model/Conn.lean` must give the same reader outputs
      let rops := pairs.map (·.1)
      let listToks := match run (Reader.new size) wire rops with
        | .ok (outs, _, _) => outs.map outTok
        | .error _ => ["FAULT"]
      let memToks := ((xops.zip out).filterMap (fun (x, t) => match x with | .rd _ => some (stripSuffix t) | _ => none))
      let out := if listToks == memToks then out else out ++ ["!MODEL-REFINE"]
      pure { out := out, spec := ok2, specNote := note2,
             tag := "m" ++ initClass size ++ ":" ++ auto ++ ":" ++ ",".intercalate (sortStrs stN.labels) }
  | _, _ => none

end Hertz.Driver.C13m
