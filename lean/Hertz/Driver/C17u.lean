import Hertz.Driver.Core
import Hertz.Model.Uri
namespace Hertz.Driver.C17u
open Hertz Hertz.Driver Hertz.Uri

def uriTokens (u : URI) : List String :=
  [encHex u.schemeOrHTTP, encHex u.host, encHex u.pathOrSlash, encHex u.pathOriginal, encHex u.query, encHex u.hash,
   encHex u.username, encHex u.password]

def ssTok : SameSite → String
  | .disabled => "0" | .default => "1" | .lax => "2" | .strict => "3" | .none => "4"

def cookieTokens (c : Cookie) : List String :=
  [encHex c.key, encHex c.value, toString c.maxAge, encHex c.domain, encHex c.path, boolTok c.httpOnly, boolTok c.secure,
   ssTok c.sameSite, boolTok c.partitioned]

def hasCtl (b : Bytes) : Bool := b.any (fun c => c < 32 || c == 127)

def takePairs : Nat → List String → Option (List (Bytes × Bytes) × List String)
  | 0, t => some ([], t)
  | n + 1, k :: v :: t => do
    let k ← hx k; let v ← hx v
    let (r, rest) ← takePairs n t
    pure ((k, v) :: r, rest)
  | _, _ => none

def lowerB (b : Bytes) : Bytes := b.map toLower

/-- the well-formedness under which a URI built with the setters must survive `FullURI` → `Parse`:
host free of `/ ? # @` and control bytes, scheme made of scheme characters (or empty), no control byte in
path (it is percent-encoded) — for the fragment a control byte is the known finding F15. -/
def wfUri (scheme host : Bytes) : Bool :=
  (scheme.isEmpty || (scheme.all (fun c => isAlpha c || (48 ≤ c && c ≤ 57) || c == 43 || c == 45 || c == 46) && (scheme.head?.map isAlpha).getD false)) &&
  !host.isEmpty && host.all (fun c => c != 47 && c != 63 && c != 35 && c != 64 && c ≥ 32 && c != 127)

def handle : Handler
  | ["uriparse", host, uri], _ => do
    let host ← hx host; let uri ← hx uri
    let u := parse host uri
    pure { out := uriTokens u ++ [encHex (u.fullURI [])],
           tag := "uriparse:" ++ boolTok host.isEmpty ++ boolTok (containsSub Gen.Str.strColonSlashSlash uri) ++ boolTok (hasCTL uri) ++
                  boolTok (!u.query.isEmpty) ++ boolTok (!u.hash.isEmpty) ++ boolTok (!u.username.isEmpty) }
  | "urirt" :: scheme :: host :: path :: hash :: n :: rest, impl => do
    let scheme ← hx scheme; let host ← hx host; let path ← hx path; let hash ← hx hash
    let (kvs, _) ← takePairs n.toNat! rest
    let qa : List ArgKV := kvs.map (fun kv => { key := kv.1, value := kv.2, noValue := false })
    let u0 : URI := { scheme := lowerB scheme, host := lowerB host, pathOriginal := path, path := normalizePath path, hash := hash }
    let full := u0.fullURI qa
    let v := parse [] full
    let vq := parseArgs v.query
    -- the harness calls `v.QueryArgs()` before `v.FullURI()`: the flag is set and the arguments are the query (none when every
    -- parsed pair was dropped), /repo 97b0e80
    let out := [encHex full] ++ uriTokens v ++ [toString vq.length] ++ vq.flatMap (fun kv => [encHex kv.key, encHex kv.value]) ++ [encHex (v.fullURIp true vq)]
    -- spec on the implementation's tokens: same scheme, host, path, query list and fragment; formatting again is a fixed point
    let wf := wfUri scheme host
    let (ok, why) := match impl with
      | f :: sc :: ho :: pa :: _po :: _q :: ha :: _us :: _pw :: m :: t =>
        match takePairs m.toNat! t with
        | some (q2, [full2]) =>
          let c1 := sc == encHex u0.schemeOrHTTP
          let c2 := ho == encHex u0.host
          let c3 := pa == encHex u0.pathOrSlash
          let c4 := ha == encHex hash
          let c5 := q2 == (kvs.filter (fun kv => !(kv.1.isEmpty && kv.2.isEmpty)))
          -- entries with both key and value empty are dropped by the parser (excepted by the property)
          let c6 := full2 == f || kvs.any (fun kv => kv.1.isEmpty && kv.2.isEmpty)
          (c1 && c2 && c3 && c4 && c5 && c6, s!"scheme={c1} host={c2} path={c3} hash={c4} query={c5} fixedpoint={c6}")
        | _ => (false, "unparsable")
      | _ => (false, "unparsable")
    pure { out, spec := !wf || ok,
           cls := if hasCtl hash then "uri-fragment-ctl" else "",
           specNote := "URI assembled through the setters survives FullURI -> Parse and formats to a fixed point: " ++ why,
           tag := "urirt:" ++ boolTok wf ++ boolTok (hasCtl hash) ++ sizeClass kvs.length ++ boolTok (!hash.isEmpty) ++ boolTok (path.contains 37) }
  | ["cookieparse", src], impl => do
    let src ← hx src
    -- `expires` goes through Go's time parser: the model has no opinion on such inputs
    let hasExpires := (cookieSegs src).any (fun seg => ciEq' Gen.Str.strCookieExpires (cookieKV seg).1)
    if hasExpires then pure { out := impl, tag := "cookieparse:expires" } else
    match parseCookie src with
    | none => pure { out := ["err"], tag := "cookieparse:err" }
    | some c => pure { out := "ok" :: cookieTokens c, tag := "cookieparse:ok:" ++ boolTok (c.maxAge > 0) ++ ssTok c.sameSite ++ boolTok c.httpOnly ++ boolTok c.secure ++ boolTok (!c.domain.isEmpty) }
  | ["cookiert", key, value, maxAge, domain, path, ho, se, ss, pa, ex], impl => do
    let key ← hx key; let value ← hx value; let domain ← hx domain
    let pathSet := path != "N"          -- "N": `SetPath` is never called
    let path ← if pathSet then hx path else some []
    let sameSite := match ss with | "1" => SameSite.default | "2" => .lax | "3" => .strict | "4" => .none | _ => .disabled
    let secure := se == "1" || sameSite == .none || pa == "1"
    let path := if pathSet then normalizePath path else []     -- `SetPath` normalises
    let c : Cookie := { key, value, maxAge := (if maxAge.toInt! > 0 then maxAge.toNat! else 0), domain, path, httpOnly := ho == "1",
                        secure, sameSite, partitioned := pa == "1" }
    -- attribute values the serialiser writes verbatim must not contain the separators, and the scanner trims
    -- blanks and one pair of quotes: outside that the round trip is not claimed
    let plain (b : Bytes) := !b.contains 59 && b == decodeCookieArg b true
    let wf := !key.contains 61 && !key.contains 59 && key == decodeCookieArg key false && plain value && plain domain && plain path &&
              !(key.isEmpty && value.contains 61) &&
              -- the entirely empty cookie serialises to the empty string, which is no cookie (`cookie_roundtrip_fails_at`)
              !(appendCookie c).isEmpty
    let withExpire := ex != "0" && c.maxAge == 0
    let ok := match impl with
      | _s :: "ok" :: t => t.take 9 == cookieTokens c && (t.drop 9).head? == some "1"
      | _ => false
    -- with an expiry the serialised text contains Go's date: the model copies the implementation's string
    let ser := if withExpire then impl.take 1 else [encHex (appendCookie c)]
    let back := if withExpire then impl.drop 1 else
      match parseCookie (appendCookie c) with
      | none => ["err"]
      | some d => "ok" :: cookieTokens d ++ ["1", boolTok c.secure]
    pure { out := ser ++ back, spec := !wf || ok,
           specNote := "parsing a response cookie's string form returns the same key, value and attributes",
           tag := "cookiert:" ++ boolTok wf ++ boolTok withExpire ++ ssTok sameSite ++ boolTok (c.maxAge > 0) ++ boolTok c.partitioned }
  | _, _ => none

end Hertz.Driver.C17u
