import Hertz.Driver.Core
import Hertz.Model.Fs
import Hertz.Spec.Fs
import Hertz.Gen.Fs
import Hertz.Driver.C08Seq
import Hertz.Driver.C08Cache
/-!
Driver side of C08.  Ops (see harness/c08.go):

* `puint <hex>`                → `v` | `ERR`
* `pbr <rangehex> <n>`         → `s e` | `ERR`
* `setcr <s> <e> <n>`          → hex(Content-Range) | `PANIC`
* `fsreq kind a c g method path content range ae rep` → `status cl cr ar enc rawlen same body` | `PANIC`
* `fstrav kind path`           → `status class`
* `fsseq accept compress step*` → see `Hertz/Driver/C08Seq.lean` (trees that change between requests)
* `fscache accept step*`        → see `Hertz/Driver/C08Cache.lean` (cache and reader reference counts, op sequences)

The spec predicates are evaluated on the implementation's tokens.
-/
namespace Hertz.Driver.C08
open Hertz Hertz.Driver Hertz.FS

/-- pattern `F<n>`: byte i = (31 i + 7 n + 3) mod 251 -/
def patF (n : Nat) : Bytes := (List.range n).map (fun i => ((31 * i + 7 * n + 3) % 251).toUInt8)
/-- pattern `Z<n>`: byte i = 65 + (i / 64) mod 7 -/
def patZ (n : Nat) : Bytes := (List.range n).map (fun i => (65 + (i / 64) % 7).toUInt8)

/-- content token: `F<n>`, `Z<n>`, `X<hex>` (explicit bytes: a generated directory index), `NONE` -/
def content? (tok : String) : Option (Option Bytes × Bool) :=
  if tok = "NONE" then some (none, false) else
  match tok.toList with
  | 'F' :: r => (String.ofList r).toNat?.map (fun n => (some (patF n), false))
  | 'Z' :: r => (String.ofList r).toNat?.map (fun n => (some (patZ n), false))
  | 'X' :: r => (fromHex (String.ofList r)).map (fun b => (some b, true))
  | _ => none

def optHex (o : Option Bytes) : String := match o with | some b => encHex b | none => "N"
def optHex? (s : String) : Option (Option Bytes) := if s = "N" then some none else (hx s).map some

def arTok (b : Bool) : String := if b then "6279746573" else "N"

def rangeForm (r : Bytes) : String :=
  match Spec.rfcRange r 1000000 with
  | .invalid => "inv"
  | _ =>
    match r with
    | 98 :: 121 :: 116 :: 101 :: 115 :: 61 :: 45 :: _ => "suf"
    | _ => if r.getLast? == some 45 then "open" else "ab"

def outcomeTag (r : Bytes) (n : Nat) : String :=
  match Spec.rfcRange r n with
  | .invalid => "invalid"
  | .unsat => "unsat"
  | .sat s e => if s = 0 ∧ e + 1 = n then "satall" else if e + 1 = n then "sattail" else if s = e then "sat1" else "sat"

def fitTag (r : Bytes) : String := if Spec.numsFit r then "" else "!fit"

def rkTag : ReaderKind → String
  | .small => "small" | .big => "big" | .dirIndex => "dirindex"

def intTok? (s : String) : Option Int := s.toInt?

def respTokens (r : Resp) : List String :=
  [toString r.status, toString r.contentLength, optHex r.contentRange, arTok r.acceptRanges, "N",
   toString r.body.length, "1", encHex r.body]

def handle : Handler
  | ["puint", b], impl => do
    let b ← hx b
    let m := parseUint b
    let out := match m with | .ok v => [toString v] | .error _ => ["ERR"]
    -- spec (independent of the model): 1*DIGIT with a value below 2^63 is read exactly, anything
    -- else is rejected
    let spec :=
      if Spec.isDigits b && decide (Spec.decVal b < 9223372036854775808) then impl == [toString (Spec.decVal b)]
      else impl == ["ERR"]
    pure { out := out, spec := spec, specNote := "ParseUint exact on fitting digit strings, rejects everything else",
           tag := "puint:" ++ boolTok (Spec.isDigits b) ++ sizeClass b.length ++
                  (match m with | .ok v => if Spec.isDigits b ∧ v ≠ Spec.decVal b then "wrapped" else "ok" | .error e => reprStr e) }
  | ["pbr", r, n], impl => do
    let r ← hx r
    let n ← intTok? n
    let m := parseByteRange r n
    let out := match m with | .ok (s, e) => [toString s, toString e] | .error .bad => ["ERR"] | .error _ => ["PANIC"]
    -- spec: RFC 7233 on the implementation's answer
    let rfc := Spec.rfcRange r n.toNat
    let spec := match rfc with
      | .sat s e => impl == [toString s, toString e] || (!Spec.numsFit r && impl == ["ERR"])
      | _ => impl == ["ERR"]
    pure { out := out, spec := spec, specNote := "ParseByteRange = RFC 7233 single range",
           tag := "pbr:" ++ rangeForm r ++ ":" ++ outcomeTag r n.toNat ++ fitTag r ++ ":" ++ sizeClass n.toNat }
  | ["setcr", s, e, n], impl => do
    let s ← intTok? s; let e ← intTok? e; let n ← intTok? n
    let m := contentRange s e n
    let out := match m with | .ok b => [encHex b] | .error _ => ["PANIC"]
    let neg := decide (s < 0 ∨ e < 0 ∨ n < 0)
    let spec := if neg then true else
      (impl.head? >>= hx >>= Spec.parseContentRange) == some (s.toNat, e.toNat, n.toNat)
    pure { out := out, spec := spec, specNote := "Content-Range parses back to (s,e,n)",
           tag := "setcr:" ++ boolTok neg ++ sizeClass n.toNat }
  | ["fsreq", kind, a, c, g, method, _path, content, range, ae, _rep], impl => do
    let (cont, isIndex) ← content? content
    let head := method == "HEAD"
    let accept := a == "1"
    let compress := c == "1"
    let byteRange ← if range == "N" then some [] else hx range
    let baseTag := "fsreq:" ++ kind ++ a ++ c ++ g ++ ":" ++ method
    match cont with
    | none =>
      -- no such file: 404 from AbortWithMsg
      let r := abortResp head 404 msg404
      let spec := impl.head? == some "404"
      pure { out := respTokens r, spec := spec, specNote := "missing file gives 404", tag := baseTag ++ ":404" }
    | some cbytes =>
      let n := cbytes.length
      let rk : ReaderKind := if isIndex then .dirIndex else if n > Gen.Fs.maxSmallFileSize then .big else .small
      let mustCompress := compress && ae == "1" && byteRange.isEmpty
      let m := serveDecision rk cbytes head byteRange accept
      let out := match m with
        | .ok r =>
          let t := respTokens r
          if mustCompress then
            -- whether the file is served gzipped depends on its compressibility: length and
            -- encoding tokens are taken from the implementation, the decoded body is not
            match impl with
            | [_, cl, _, _, enc, rawlen, _, _] => [toString r.status, cl, "N", arTok r.acceptRanges, enc, rawlen, "1", encHex r.body]
            | _ => t
          else t
        | .error (.panic _) => ["PANIC"]
        | .error _ => ["ERR:io"]
      -- spec on the implementation's answer
      let (spec, note) := match impl with
        | [st, cl, cr, ar, enc, rawlen, same, body] =>
          match st.toNat?, intTok? cl, optHex? cr, hx body, rawlen.toNat? with
          | some st, some cl, some cr, some body, some rawlen =>
            if enc == "gzip" && mustCompress then
              -- gzip: decoded body is the whole file, Content-Length is the wire length
              (st == 200 && cr == none && body == (if head then [] else cbytes) &&
                (if head then rawlen == 0 else cl == rawlen) && same == "1", "gzip answer decodes to the whole file")
            else
              let r : Resp := { status := st, contentLength := cl, contentRange := cr, acceptRanges := ar != "N", body := body }
              (Spec.respOk cbytes head byteRange accept r && enc == "N" && same == "1" &&
                (ar == "N" || ar == "6279746573") &&
                rawlen == body.length && (head || cl == rawlen),
               "whole file / RFC 7233 range / 416 with consistent Content-Length and Content-Range; HEAD without body")
          | _, _, _, _, _ => (false, "unparsable answer")
        | _ => (false, "panic or no answer")
      let rtag := if byteRange.isEmpty || !accept then (if byteRange.isEmpty then "norange" else "ignored")
                  else rangeForm byteRange ++ ":" ++ outcomeTag byteRange n ++ fitTag byteRange
      pure { out := out, spec := spec, specNote := note,
             tag := baseTag ++ ":" ++ rkTag rk ++ ":" ++ sizeClass n ++ ":" ++ rtag ++ (if mustCompress then ":gz" else "") }
  | ["fstrav", kind, _path], impl => do
    -- containment is claimed for StaticFS routes (kinds s, r) only: ctx.File takes a file-system
    -- path from the application and has no configured root
    let spec := match impl with
      | [st, cls] => kind == "f" || (cls != "SECRET" && (st != "200" || cls == "top" || cls == "in" || cls == "index" || cls == "dirindex"))
      | _ => false
    pure { out := impl, spec := spec, specNote := "a StaticFS route never serves a file outside its root",
           tag := "fstrav:" ++ kind ++ ":" ++ ":".intercalate impl }
  | "fsseq" :: rest, impl => C08Seq.handle ("fsseq" :: rest) impl
  | "fscache" :: rest, impl => C08Cache.handle ("fscache" :: rest) impl
  | _, _ => none

end Hertz.Driver.C08
