import Hertz.Driver.Core
import Hertz.Model.Path
import Hertz.Spec.Path
import Hertz.Model.Uri
namespace Hertz.Driver.C07
open Hertz Hertz.Driver

def handle : Handler
  | ["normpath", src], impl => do
    let src ← hx src
    let o ← impl.head? >>= hx
    let m := normalizePath src
    let ok := Spec.contained o && o == Spec.normalize src
    pure { out := [encHex m], spec := ok,
           specNote := "path contained (leading /, no .., no inner empty/.) and equal to decode-once-then-stack-resolve",
           tag := "normpath:" ++ sizeClass src.length ++ boolTok (src.contains 37) ++ boolTok (m.length < (slashDecode src).length)
                  ++ boolTok ((splitDDS (cutDotSlash (collapseSlashes (slashDecode src)))).isSome) ++ boolTok (m.getLast? == some 47) }
  | ["cleanpath", p], impl => do
    let p ← hx p
    let o ← impl.head? >>= hx
    let m := cleanPath p
    pure { out := [encHex m], spec := Spec.contained o,
           specNote := "clean path contained (leading /, no .., no inner empty/.)",
           tag := "cleanpath:" ++ sizeClass p.length ++ boolTok (p.head? == some 47) ++ boolTok (m.length < p.length) ++ boolTok (m.getLast? == some 47) }
  | ["uripath", target], impl => do
    -- the path the server routes on and serves files from, for a whole request target (`URI.Parse(nil, target)`):
    -- origin form, absolute form, scheme-relative, drive-letter look-alikes `x:/…`, …
    let t ← hx target
    let o ← impl.head? >>= hx
    let m := (Uri.parse [] t).path
    pure { out := [encHex m], spec := Spec.contained o,
           specNote := "the path of every request target is contained (leading /, no .., no inner empty/.)",
           tag := "uripath:" ++ sizeClass t.length ++ boolTok (t.head? == some 47) ++ boolTok (t.contains 58) ++ boolTok (m == [47]) }
  | _, _ => none

end Hertz.Driver.C07
