import Hertz.Driver.Core
import Hertz.Model.Path
import Hertz.Spec.Path
import Hertz.Model.Uri
import Hertz.Model.FsPath
namespace Hertz.Driver.C07
open Hertz Hertz.Driver

def rewriter? (kind n : String) : Option FsPath.Rewriter := do
  let n ← n.toNat?
  match kind with
  | "0" => some .none
  | "s" => some (.stripper n)
  | "v" => some (.vhost n)
  | _ => none

def cfg? (idx : String) : Option FsPath.FsCfg :=
  let ix := [FsPath.bs "index.html"]
  match idx with
  | "i" => some { root := FsPath.testRoot, indexNames := ix, genIndex := false }
  | "g" => some { root := FsPath.testRoot, indexNames := [], genIndex := true }
  | "b" => some { root := FsPath.testRoot, indexNames := ix, genIndex := true }
  | "n" => some { root := FsPath.testRoot, indexNames := [], genIndex := false }
  | _ => none

def joinSlash : List Bytes → Bytes
  | [] => []
  | [s] => s
  | s :: r => s ++ 47 :: joinSlash r

def listPrefix : Bytes := FsPath.bs "LIST:"

/-- tokens `status id` of a served result: id = path of the file from the base directory, `LIST:<dir>` for a
generated index, empty for an error status -/
def servedToks : FsPath.Served → List String
  | .file f => ["200", encHex (joinSlash f)]
  | .listing d => ["200", encHex (listPrefix ++ joinSlash d)]
  | .status c => [toString c, "-"]

/-- the names from the base directory in an id token of the implementation -/
def idLoc (id : Bytes) : List Bytes :=
  FsPath.splitSlash (if listPrefix.isPrefixOf id then id.drop listPrefix.length else id)

def hostClass (h : Bytes) : String :=
  (if h.isEmpty then "e" else "") ++ (if h.contains 47 then "s" else "") ++ (if h.contains 37 then "p" else "")
    ++ (if h.contains 46 then "d" else "") ++ (if h.contains 64 then "a" else "")

def handleFs : Handler
  | ["fstree"], _ =>
    -- the tree on disk is the tree of the model
    pure { out := (toString FsPath.testDirs.length :: FsPath.testDirs.map (fun d => encHex (FsPath.bs d))) ++
                  (toString FsPath.testFiles.length :: FsPath.testFiles.map (fun d => encHex (FsPath.bs d))),
           tag := "fstree" }
  | ["fsrw", kind, n, host, target], impl => do
    -- a stock FS.PathRewrite on the request (Host header, request target): the path handed to the file
    -- handler and ctx.Path() afterwards
    let rw ← rewriter? kind n
    let host ← hx host
    let target ← hx target
    let u := Uri.parse host target
    let m := FsPath.rewrite rw u
    let out := match m with
      | some (p, u') => [encHex p, encHex u'.pathOrSlash]
      | none => ["PANIC"]
    let spec := match impl with
      | [p, cp] => (do
          let p ← hx p
          let cp ← hx cp
          pure ((if kind == "s" then Spec.servable p else Spec.contained p) && Spec.contained cp)).getD false
      | _ => false
    let dec : Option FsPath.Decision := (FsPath.decision rw u).map (fun x => x.1)
    pure { out := out, spec := spec,
           specNote := "the rewritten path is contained (leading /, no .., no inner empty/.; a slash stripper may return the empty path) and so is ctx.Path() afterwards",
           tag := "fsrw:" ++ kind ++ n ++ ":" ++ hostClass u.host ++ ":" ++ sizeClass target.length ++
                  (match dec with
                   | some .badRequest => ":nul" | some .guard => ":guard"
                   | some (.openPath p) => ":open" ++ boolTok p.isEmpty ++ boolTok (p.length < (m.map (·.1.length)).getD 0)
                   | none => ":panic") }
  | ["fsguard", idx, raw], impl => do
    -- the file handler behind an application-supplied PathRewrite that returns the bytes `raw`: the handler's own
    -- defences (NUL test, guard against `/../`, trailing `/..`, missing leading slash) are all that stands between the rewriter and the file system
    let cfg ← cfg? idx
    let raw ← hx raw
    let m := FsPath.serve FsPath.testTree cfg (.custom raw) (Uri.parse [] [47])
    let out := match m with
      | some (s, _) => servedToks s
      | none => ["PANIC"]
    let stripped := FsPath.stripTrailingSlashes raw
    let hasDDS := Uri.containsSub Hertz.Gen.Str.strSlashDotDotSlash raw
    -- stated without the model: `/../` anywhere, `/..` at the end once the trailing slashes are gone, or no leading slash
    let mustRefuse := hasDDS || [47, 46, 46].isSuffixOf stripped || (!stripped.isEmpty && stripped.head? != some 47)
    let spec := match impl with
      | [st, id] => (do
          let id ← hx id
          pure (if mustRefuse then st != "200" && id.isEmpty
                else if id.isEmpty then st != "200" else st == "200" && Spec.insideRoot cfg.root (idLoc id))).getD false
      | _ => false
    pure { out := out, spec := spec,
           specNote := "whatever bytes a PathRewrite returns, the handler refuses them when they contain /../, end in /.. or lack the leading slash, and otherwise only serves from inside its root",
           tag := "fsguard:" ++ idx ++ ":" ++ sizeClass raw.length ++ boolTok mustRefuse ++ boolTok (raw.head? == some 47) ++ boolTok (raw.contains 0) ++ ":" ++
                  (match m with
                   | some (.file _, _) => "file" | some (.listing _, _) => "list"
                   | some (.status c, _) => toString c | none => "panic") }
  | ["fsopen", kind, n, idx, host, target], impl => do
    -- the real fsHandler over the tree on disk: which file (by its path from the directory ABOVE the root) was served
    let rw ← rewriter? kind n
    let cfg ← cfg? idx
    let host ← hx host
    let target ← hx target
    let u := Uri.parse host target
    let m := FsPath.serve FsPath.testTree cfg rw u
    let out := match m with
      | some (s, _) => servedToks s
      | none => ["PANIC"]
    let spec := match impl with
      | [st, id] => (do
          let id ← hx id
          pure (if id.isEmpty then st != "200" else st == "200" && Spec.insideRoot cfg.root (idLoc id))).getD false
      | _ => false
    pure { out := out, spec := spec,
           specNote := "a file handler with root R only ever serves a file or directory listing from inside R",
           tag := "fsopen:" ++ kind ++ n ++ idx ++ ":" ++ hostClass u.host ++ ":" ++
                  (match m with
                   | some (.file _, _) => "file" | some (.listing _, _) => "list"
                   | some (.status c, _) => toString c | none => "panic") }
  | ["uripath", target], impl => do
    -- the path the server routes on and serves files from, for a whole request target (`URI.Parse(nil, target)`):
    -- origin form, absolute form, scheme-relative, drive-letter look-alikes `x:/…`, …
    let t ← hx target
    let o ← impl.head? >>= hx
    let m := (Uri.parse [] t).path
    pure { out := [encHex m], spec := Spec.contained o,
           specNote := "the path of every request target is contained (leading /, no .., no inner empty/.)",
           tag := "uripath:" ++ sizeClass t.length ++ boolTok (t.head? == some 47) ++ boolTok (t.contains 58) ++ boolTok (m == [47]) }
  | _, _ => none

def handle : Handler
  | ["normpath", src], impl => do
    let src ← hx src
    let o ← impl.head? >>= hx
    let m := normalizePath src
    let ok := Spec.contained o && o == Spec.normalize src
    pure { out := [encHex m], spec := ok,
           specNote := "path contained (leading /, no .., no inner empty/.) and equal to decode-once-then-stack-resolve",
           tag := "normpath:" ++ sizeClass src.length ++ boolTok (src.contains 37) ++ boolTok (m.length < (slashDecode src).length)
                  ++ boolTok ((splitDDS (cutDotSlash (collapseSlashes (slashDecode src)))).isSome) ++ boolTok (m.getLast? == some 47) }
  | ["cleanpath", p], impl => do
    let p ← hx p
    let o ← impl.head? >>= hx
    let m := cleanPath p
    pure { out := [encHex m], spec := Spec.contained o,
           specNote := "clean path contained (leading /, no .., no inner empty/.)",
           tag := "cleanpath:" ++ sizeClass p.length ++ boolTok (p.head? == some 47) ++ boolTok (m.length < p.length) ++ boolTok (m.getLast? == some 47) }
  | ["uripath", target], impl => do
    -- the path the server routes on and serves files from, for a whole request target (`URI.Parse(nil, target)`):
    -- origin form, absolute form, scheme-relative, drive-letter look-alikes `x:/…`, …
    let t ← hx target
    let o ← impl.head? >>= hx
    let m := (Uri.parse [] t).path
    pure { out := [encHex m], spec := Spec.contained o,
           specNote := "the path of every request target is contained (leading /, no .., no inner empty/.)",
           tag := "uripath:" ++ sizeClass t.length ++ boolTok (t.head? == some 47) ++ boolTok (t.contains 58) ++ boolTok (m == [47]) }
  | ["fswire", n, idx, host, target], impl =>
    -- the same request through the real server (request line + Host header on the wire, Engine with a StaticFS route
    -- whose FS has NewVHostPathRewriter(n)): same answer as the handler called directly, same predicate
    -- (Engine.ServeHTTP answers 400 "missing required Host header" before any handler when the URI has no host)
    (handleFs ["fsopen", "v", n, idx, host, target] impl).map (fun r =>
      let noHost := ((do let h ← hx host; let t ← hx target; pure (Uri.parse h t).host.isEmpty) : Option Bool).getD false
      if noHost then { r with out := ["400", "-"], tag := "fswire:nohost" }
      else { r with tag := "fswire" ++ r.tag.drop 6 })
  | a, i => handleFs a i

end Hertz.Driver.C07
