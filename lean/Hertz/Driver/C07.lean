import Hertz.Driver.Core
import Hertz.Model.Path
import Hertz.Spec.Path
namespace Hertz.Driver.C07
open Hertz Hertz.Driver

def handle : Handler
  | ["normpath", src], impl => do
    let src ← hx src
    let o ← impl.head? >>= hx
    let m := normalizePath src
    let ok := Spec.contained o && o == Spec.normalize src
    pure { out := [encHex m], spec := ok,
           specNote := "path contained (leading /, no .., no inner empty/.) and equal to decode-once-then-stack-resolve",
           tag := "normpath:" ++ sizeClass src.length ++ boolTok (src.contains 37) ++ boolTok (m.length < (slashDecode src).length)
                  ++ boolTok ((splitDDS (cutDotSlash (collapseSlashes (slashDecode src)))).isSome) ++ boolTok (m.getLast? == some 47) }
  | ["cleanpath", p], impl => do
    let p ← hx p
    let o ← impl.head? >>= hx
    let m := cleanPath p
    pure { out := [encHex m], spec := Spec.contained o,
           specNote := "clean path contained (leading /, no .., no inner empty/.)",
           tag := "cleanpath:" ++ sizeClass p.length ++ boolTok (p.head? == some 47) ++ boolTok (m.length < p.length) ++ boolTok (m.getLast? == some 47) }
  | _, _ => none

end Hertz.Driver.C07
