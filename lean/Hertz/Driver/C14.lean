import Hertz.Driver.Core
import Hertz.Model.Http1.Stream
namespace Hertz.Driver.C14
open Hertz Hertz.Driver Hertz.H1 Hertz.H1.Stream

def errBody : Nat → Bytes
  | 400 => "Error when parsing request".toUTF8.toList
  | 413 => "Request Entity Too Large".toUTF8.toList
  | 408 => "Request timeout".toUTF8.toList
  | _ => []

/-- tokens of an event list; `cut` = stop at the first `maybeClosed` (the "connection closed" reading) -/
def cutAt : Nat → List SEv → List SEv
  | _, [] => []
  | 0, .maybeClosed :: _ => []
  | k + 1, .maybeClosed :: t => cutAt k t
  | k, e :: t => e :: cutAt k t

/-- tokens of an event list when the connection is closed at the `k`-th ambiguous point (`none` = never) -/
def tokens (evs : List SEv) (cut : Option Nat) : List String :=
  let evs := match cut with
    | some k => cutAt k evs
    | none => evs.filter (fun e => match e with | .maybeClosed => false | _ => true)
  let seen := evs.filterMap (fun e => match e with | .req r => some r | _ => none)
  let rec resps : List SEv → Nat → Bool → List String
    | [], _, _ => []
    | .continue100 :: t, i, hd => "100" :: "0" :: "-" :: resps t i hd
    | .req r :: t, i, _ => resps t (i + 1) (r.head.method == Gen.Str.strHead)
    | .maybeClosed :: t, i, hd => resps t i hd
    | .resp st cl :: t, i, hd =>
      toString st :: boolTok cl :: encHex (if st = 200 then (if hd then [] else ("r" ++ toString i).toUTF8.toList) else errBody st) :: resps t i hd
  let nresp := (evs.filter (fun e => match e with | .req _ => false | _ => true)).length
  ["S", toString seen.length]
  ++ seen.flatMap (fun r => [encHex r.head.method, encHex (if r.head.uri.isEmpty then [47] else r.head.uri), boolTok r.streamed,
                              encHex r.got.bytes, boolTok r.got.eof, boolTok r.got.err])
  ++ ["R", toString nresp] ++ resps evs 0 false ++ ["W", "1"]

def seenUris : Nat → List String → List String
  | 0, _ => []
  | n + 1, _m :: u :: _s :: _b :: _e :: _x :: t => u :: seenUris n t
  | _, _ => []

/-- C14 on the implementation's tokens: what each handler read is a prefix of the body the strict
framing assigns, EOF only at its end; a probe `/probe` request is answered as itself (never a
request taken from body bytes: `/smuggled` never reaches a handler). -/
def specOk (impl : List String) : Bool :=
  !impl.contains "PANIC" && !impl.contains "HANG" &&
  (match impl with
   | "S" :: n :: t => !(seenUris n.toNat! t).contains (encHex "/smuggled".toUTF8.toList)
   | _ => false)

def handle : Handler
  | ["sserve", flags, maxBody, endK, stream, _cuts, readSize, stopAfter], impl => do
    let s ← hx stream
    let cfg : Cfg := { disableNorm := flags.contains 'n', disableKeepalive := flags.contains 'k', maxBody := (if maxBody.toNat! = 0 then 4194304 else maxBody.toNat!) }
    let e := if endK == "stall" then End.stall else End.eof
    let evs := serveStream cfg e { readSize := readSize.toNat!, stopAfter := stopAfter.toNat! } s
    let t1 := tokens evs none
    let namb := (evs.filter (fun e => match e with | .maybeClosed => true | _ => false)).length
    let cands := (List.range namb).map (fun k => tokens evs (some k))
    let nreq := (evs.filter (fun e => match e with | .req _ => true | _ => false)).length
    let amb := evs.any (fun e => match e with | .maybeClosed => true | _ => false)
    -- Known finding: with a fixed-length body LARGER than MaxRequestBodySize the prefetch of the real code
    -- (`readBodyIdentity`) takes whatever is buffered, also bytes behind the body; what happens then depends on the
    -- buffering and on the capacity of the pooled body buffer, so the model (prefetch = min(length, limit, 8 KiB), the
    -- behaviour the repo's own tests rule out repairing) serves as the specification for such requests.
    let oversize := evs.any (fun e => match e with | .req r => r.head.cl > (cfg.maxBody : Int) | _ => false)
    if oversize then
      let ok := impl == t1 || cands.contains impl
      return { out := impl, spec := ok && specOk impl, cls := (if ok && specOk impl then "" else "stream-oversize-prefetch"),
               specNote := "body longer than the limit, streaming: the handler must see only body bytes and the connection must stay in sync",
               tag := "sserve:oversize:" ++ boolTok ok ++ (if endK == "stall" then "S" else "E") }
    pure { out := if cands.contains impl then impl else t1, spec := specOk impl, specNote := "no panic/hang; no request taken from body bytes",
           tag := "sserve:" ++ toString (min nreq 4) ++ boolTok amb ++ (if endK == "stall" then "S" else "E") ++
                  boolTok (evs.any (fun e => match e with | .req r => r.got.eof | _ => false)) ++
                  boolTok (evs.any (fun e => match e with | .req r => r.got.err | _ => false)) ++
                  boolTok (evs.any (fun e => match e with | .req r => r.streamed && r.head.cl == -1 | _ => false)) }
  | _, _ => none

end Hertz.Driver.C14
