import Hertz.Driver.Core
import Hertz.Model.Http1.Stream
import Hertz.Model.Http1.StreamX
namespace Hertz.Driver.C14
open Hertz Hertz.Driver Hertz.H1 Hertz.H1.Stream

def errBody : Nat → Bytes
  | 400 => "Error when parsing request".toUTF8.toList
  | 413 => "Request Entity Too Large".toUTF8.toList
  | 408 => "Request timeout".toUTF8.toList
  | _ => []

/-- tokens of an event list; `cut` = stop at the first `maybeClosed` (the "connection closed" reading) -/
def cutAt : Nat → List SEv → List SEv
  | _, [] => []
  | 0, .maybeClosed :: _ => []
  | k + 1, .maybeClosed :: t => cutAt k t
  | k, e :: t => e :: cutAt k t

/-- tokens of an event list when the connection is closed at the `k`-th ambiguous point (`none` = never) -/
def tokens (evs : List SEv) (cut : Option Nat) : List String :=
  let evs := match cut with
    | some k => cutAt k evs
    | none => evs.filter (fun e => match e with | .maybeClosed => false | _ => true)
  let seen := evs.filterMap (fun e => match e with | .req r => some r | _ => none)
  let rec resps : List SEv → Nat → Bool → List String
    | [], _, _ => []
    | .continue100 :: t, i, hd => "100" :: "0" :: "-" :: resps t i hd
    | .req r :: t, i, _ => resps t (i + 1) (r.head.method == Gen.Str.strHead)
    | .maybeClosed :: t, i, hd => resps t i hd
    | .resp st cl :: t, i, hd =>
      toString st :: boolTok cl :: encHex (if st = 200 then (if hd then [] else ("r" ++ toString i).toUTF8.toList) else errBody st) :: resps t i hd
  let nresp := (evs.filter (fun e => match e with | .req _ => false | _ => true)).length
  ["S", toString seen.length]
  ++ seen.flatMap (fun r => [encHex r.head.method, encHex (if r.head.uri.isEmpty then [47] else r.head.uri), boolTok r.streamed,
                              encHex r.got.bytes, boolTok r.got.eof, boolTok r.got.err])
  ++ ["R", toString nresp] ++ resps evs 0 false ++ ["W", "1"]

def seenUris : Nat → List String → List String
  | 0, _ => []
  | n + 1, _m :: u :: _s :: _b :: _e :: _x :: t => u :: seenUris n t
  | _, _ => []

/-- C14 on the implementation's tokens: what each handler read is a prefix of the body the strict
framing assigns, EOF only at its end; a probe `/probe` request is answered as itself (never a
request taken from body bytes: `/smuggled` never reaches a handler). -/
def specOk (impl : List String) : Bool :=
  !impl.contains "PANIC" && !impl.contains "HANG" &&
  (match impl with
   | "S" :: n :: t => !(seenUris n.toNat! t).contains (encHex "/smuggled".toUTF8.toList)
   | _ => false)

/-! ### `sservex`: idle style, mid-stream read time-outs, ground truth of the generator -/

structure SeenTok where
  uri : String
  got : String
  eof : Bool
  err : Bool

def seenToks : Nat → List String → List SeenTok × List String
  | 0, t => ([], t)
  | n + 1, _m :: u :: _s :: b :: e :: x :: t =>
    let (l, r) := seenToks n t
    ({ uri := u, got := b, eof := e == "1", err := x == "1" } :: l, r)
  | _, t => ([], t)

/-- statuses of the final (non-1xx) responses -/
def respStatuses : Nat → List String → List Nat
  | 0, _ => []
  | n + 1, st :: _cl :: _b :: t => if st.toNat! < 200 then respStatuses n t else st.toNat! :: respStatuses n t
  | _, _ => []

/-- what the generator knows by construction about a stream it built from complete messages:
the requests in order (target, body) and how many of them arrive whole before the first
time-out / the end of a truncated stream -/
structure Truth where
  nclean : Nat
  reqs : List (String × String)   -- hex target, hex body

def parseTruth (t : String) : Option Truth :=
  if t == "-" then none else
  match t.splitOn ";" with
  | [n, l] =>
    some { nclean := n.toNat!,
           reqs := (l.splitOn ",").filterMap (fun p => match p.splitOn ":" with | [u, b] => some (u, b) | _ => none) }
  | _ => none

def hexPrefix (a b : String) : Bool :=
  a == "-" || (b != "-" && a.toList.isPrefixOf b.toList)

def allIdx (p : Nat → Nat → Bool) : Nat → List Nat → Bool
  | _, [] => true
  | i, x :: t => p i x && allIdx p (i + 1) t

/-- C14 stated on the implementation's output against the generator's ground truth, without the model:
(1) the requests handed to handlers are, in order, an initial run of the requests really sent - so no
request is ever taken from body bytes, and the next request is parsed from the first byte behind the
body or not at all; (2) what each handler read is a prefix of that request's body, end-of-stream is
reported only with the whole body read; (3) every final response belongs to a request really sent,
and a request that arrived whole before any time-out is answered 200 if at all (an error answer to
it would mean that bytes in front of it were taken for a message). -/
def truthOk (bodies : Bool) (impl : List String) (t : Truth) : Bool :=
  match impl with
  | "S" :: n :: rest =>
    let (seen, rest) := seenToks n.toNat! rest
    let pairs := seen.zip t.reqs
    seen.length ≤ t.reqs.length &&
    pairs.all (fun (s, r) => s.uri == r.1 && (!bodies || (hexPrefix s.got r.2 && (!s.eof || (s.got == r.2 && !s.err))))) &&
    (match rest with
     | "R" :: m :: rs =>
       let sts := respStatuses m.toNat! rs
       sts.length ≤ t.reqs.length && allIdx (fun i st => i ≥ t.nclean || st == 200) 0 sts
     | _ => false)
  | _ => false

def parseOffsets (s : String) : List Nat :=
  if s == "-" || s == "" then [] else (s.splitOn ",").map String.toNat!

/-- shared by `sserve` (in-loop idle wait, no time-outs) and `sservex` -/
def judge (evs : List SEv) (cfg : Cfg) (endK : String) (pfx : String) (impl : List String) (truth : Option Truth)
    (retries : Nat := 0) : Result :=
  let t1 := tokens evs none
  let namb := (evs.filter (fun e => match e with | .maybeClosed => true | _ => false)).length
  let cands := (List.range namb).map (fun k => tokens evs (some k))
  let nreq := (evs.filter (fun e => match e with | .req _ => true | _ => false)).length
  let amb := evs.any (fun e => match e with | .maybeClosed => true | _ => false)
  let specAll := specOk impl && (match truth with | some t => truthOk true impl t | none => true)
  -- a handler that calls Read again after a failed Read: the model follows the stream up to the first failed Read
  -- (the position in the stream is lost there); when that happens it has no opinion on what the retries return
  let retried := retries > 0 && evs.any (fun e => match e with | .req r => r.got.err | _ => false)
  if retried then
    -- Known finding: `bodyStream.Read` remembers the first error for `skipRest` but does not return it again; a
    -- further Read goes on parsing chunk framing from the lost position (end-of-stream in the middle of the body).
    -- The connection is closed afterwards all the same (clauses (1) and (3) still have to hold).
    let seqOk := specOk impl && (match truth with | some t => truthOk false impl t | none => true)
    { out := impl, spec := specAll, cls := (if specAll then "" else if seqOk then "stream-read-after-error" else ""),
      specNote := "Read called again after a failed Read: still only a prefix of the body, end-of-stream only at its end; connection in sync or closed",
      tag := pfx ++ ":retry:" ++ boolTok specAll ++ (if endK == "stall" then "S" else "E") }
  else
  -- Known finding: with a fixed-length body LARGER than MaxRequestBodySize the prefetch of the real code
  -- (`readBodyIdentity`) takes whatever is buffered, also bytes behind the body; what happens then depends on the
  -- buffering and on the capacity of the pooled body buffer, so the model (prefetch = min(length, limit, 8 KiB), the
  -- behaviour the repo's own tests rule out repairing) serves as the specification for such requests.
  let oversize := evs.any (fun e => match e with | .req r => r.head.cl > (cfg.maxBody : Int) | _ => false)
  if oversize then
    let ok := impl == t1 || cands.contains impl
    { out := impl, spec := ok && specAll, cls := (if ok && specAll then "" else "stream-oversize-prefetch"),
      specNote := "body longer than the limit, streaming: the handler must see only body bytes and the connection must stay in sync",
      tag := pfx ++ ":oversize:" ++ boolTok ok ++ (if endK == "stall" then "S" else "E") }
  else
    { out := if cands.contains impl then impl else t1, spec := specAll,
      specNote := "no panic/hang; no request taken from body bytes; handlers see an initial run of the requests sent, each a prefix of its body",
      tag := pfx ++ ":" ++ toString (min nreq 4) ++ boolTok amb ++ (if endK == "stall" then "S" else "E") ++
             boolTok (evs.any (fun e => match e with | .req r => r.got.eof | _ => false)) ++
             boolTok (evs.any (fun e => match e with | .req r => r.got.err | _ => false)) ++
             boolTok (evs.any (fun e => match e with | .req r => r.streamed && r.head.cl == -1 | _ => false)) }

def mkCfg (flags maxBody : String) : Cfg :=
  { disableNorm := flags.contains 'n', disableKeepalive := flags.contains 'k', maxBody := (if maxBody.toNat! = 0 then 4194304 else maxBody.toNat!) }

def handle : Handler
  | ["sserve", flags, maxBody, endK, stream, _cuts, readSize, stopAfter], impl => do
    let s ← hx stream
    let cfg := mkCfg flags maxBody
    let e := if endK == "stall" then End.stall else End.eof
    let evs := serveStream cfg e { readSize := readSize.toNat!, stopAfter := stopAfter.toNat! } s
    pure (judge evs cfg endK "sserve" impl none)
  | ["sservex", mode, flags, maxBody, endK, stream, _cuts, tmos, readSize, stopAfter, retries, truth], impl => do
    let s ← hx stream
    let cfg := mkCfg flags maxBody
    let e := if endK == "stall" then End.stall else End.eof
    let tm := parseOffsets tmos
    let evs := serveStreamX cfg (mode == "poll") e { readSize := readSize.toNat!, stopAfter := stopAfter.toNat! } tm s
    -- did a time-out fall inside the stream, and where: head / body of a request the model got to
    let nseg := (splitAt s 0 tm).length
    pure (judge evs cfg endK ("sservex:" ++ mode ++ ":t" ++ toString (min nseg 3)) impl (parseTruth truth) retries.toNat!)
  | _, _ => none

end Hertz.Driver.C14
